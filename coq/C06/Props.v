(* C06 — Block validation is exact and the state transition is a deterministic function.
   Only the property statements; each is closed by [exact] of a lemma of PExact.v / Proofs.v /
   PMedian.v / PSizes.v and followed by Print Assumptions.

   Reading guide.  [validate_block sv ev_valid ev_size Hc Hd He Hv Hp st b] is the transcription
   of state/validation.go validateBlock (None = nil error).  The hash functions Hc (Commit.Hash),
   Hd (Data.Hash), He (EvidenceData.Hash), Hv (ValidatorSet.Hash), Hp (HashConsensusParams),
   the evidence checks and the signature check sv are ARBITRARY functions, the same for the
   proposer and the validator; nothing is assumed about them (where injectivity matters the
   conclusion exhibits a collision).  [specb] is the conjunction of the property text as a
   boolean (Model.v): well-formed header, content hashes match, every header field equals the
   value derived from the state, last commit = +2/3 commit of LastValidators (or empty for the
   first block), proposer is a validator, time = weighted median and later than the last block
   (or genesis time), evidence within the byte limit.  VerifyCommit is TM.C07's model. *)
From Coq Require Import List ZArith NArith Bool Permutation.
From TM Require Import Common.Hex Generated.Consts C07.Model C07.Proofs C06.Model C06.PExact
     C06.Proofs C06.PMedian C06.PSizes C06.PResults C06.ModelF84 C06.PF84.
Import ListNotations.
Open Scope Z_scope.

(* ---- acceptance is exact ------------------------------------------------------------------ *)

Theorem C06_validate_exact :
  forall (sig : Type) (sv : key -> signmsg -> sig -> bool) (tx ev : Type)
         (ev_valid : ev -> bool) (ev_size : list ev -> Z)
         (Hc : list (slot sig) -> hv) (Hd : list tx -> hv) (He : list ev -> hv)
         (Hv : list validator -> hv) (Hp : Z -> Z -> hv) (st : state) (b : block sig tx ev),
    validate_block sv ev_valid ev_size Hc Hd He Hv Hp st b = None <->
    specb sv ev_valid ev_size Hc Hd He Hv Hp st b = true.
Proof. exact validate_exact. Qed.
Print Assumptions C06_validate_exact.

(* What acceptance says about the last commit and the time: either the first block (no
   signatures, genesis time) or VerifyCommit of LastValidators for (chain, LastBlockID,
   height-1) succeeds and the time is the weighted median of that commit and strictly later than
   the last block. *)
Theorem C06_accepted_commit_and_time :
  forall (sig : Type) (sv : key -> signmsg -> sig -> bool) (tx ev : Type)
         (ev_valid : ev -> bool) (ev_size : list ev -> Z)
         (Hc : list (slot sig) -> hv) (Hd : list tx -> hv) (He : list ev -> hv)
         (Hv : list validator -> hv) (Hp : Z -> Z -> hv) (st : state) (b : block sig tx ev),
    validate_block sv ev_valid ev_size Hc Hd He Hv Hp st b = None ->
    exists c, b_lc b = Some c /\
      ((h_height (b_h b) = st_initial st /\ cm_sigs c = [] /\ h_time (b_h b) = st_last_time st)
       \/
       (st_initial st < h_height (b_h b) /\
        verify_commit sv (st_last_vals st) (hv_id (st_chain st)) (bi_code (st_last_bid st))
                      (h_height (b_h b) - 1) (to_commit c) = R_ok /\
        st_last_time st < h_time (b_h b) /\ h_time (b_h b) = median_time c (st_last_vals st))).
Proof. exact accepted_commit_and_time. Qed.
Print Assumptions C06_accepted_commit_and_time.

(* With C07: the last commit of an accepted non-initial block carries signatures, valid under the
   keys of LastValidators position by position for exactly (chain, height-1, round, LastBlockID),
   of strictly more than 2/3 of the total power. *)
Theorem C06_accepted_block_two_thirds :
  forall (sig : Type) (sv : key -> signmsg -> sig -> bool) (tx ev : Type)
         (ev_valid : ev -> bool) (ev_size : list ev -> Z)
         (Hc : list (slot sig) -> hv) (Hd : list tx -> hv) (He : list ev -> hv)
         (Hv : list validator -> hv) (Hp : Z -> Z -> hv) (st : state) (b : block sig tx ev),
    wf_valset (st_last_vals st) ->
    validate_block sv ev_valid ev_size Hc Hd He Hv Hp st b = None ->
    h_height (b_h b) <> st_initial st ->
    exists c, b_lc b = Some c /\
      length (st_last_vals st) = length (cm_sigs c) /\
      3 * good_tally sig sv (hv_id (st_chain st)) (h_height (b_h b) - 1) (cm_round c)
                     (bi_code (st_last_bid st)) (st_last_vals st) (map to_cs (cm_sigs c))
      > 2 * sum_power (st_last_vals st).
Proof.
  intros sig sv tx ev ev_valid ev_size Hc Hd He Hv Hp st b Hwf V Hne.
  destruct (accepted_commit_and_time sig sv tx ev ev_valid ev_size Hc Hd He Hv Hp st b V)
    as [c [Ec [[E _]|[_ [Vc _]]]]]; [contradiction|].
  exists c. split; [exact Ec|].
  destruct (verify_commit_sound sig sv _ _ _ _ _ Hwf Vc) as [L [_ [_ T]]].
  cbn in L, T. rewrite map_length in L. split; [exact L | exact T].
Qed.
Print Assumptions C06_accepted_block_two_thirds.

(* ---- every header field is pinned down -------------------------------------------------- *)

(* Two blocks with the same body accepted for the same state agree on every header field except
   possibly the proposer address. *)
Theorem C06_header_determined :
  forall (sig : Type) (sv : key -> signmsg -> sig -> bool) (tx ev : Type)
         (ev_valid : ev -> bool) (ev_size : list ev -> Z)
         (Hc : list (slot sig) -> hv) (Hd : list tx -> hv) (He : list ev -> hv)
         (Hv : list validator -> hv) (Hp : Z -> Z -> hv) (st : state) (b b' : block sig tx ev),
    0 <= st_last_height st ->
    specb sv ev_valid ev_size Hc Hd He Hv Hp st b = true ->
    specb sv ev_valid ev_size Hc Hd He Hv Hp st b' = true ->
    b_txs b = b_txs b' -> b_ev b = b_ev b' -> b_lc b = b_lc b' ->
    let h := b_h b in let h' := b_h b' in
    h_vblock h = h_vblock h' /\ h_vapp h = h_vapp h' /\ h_chain h = h_chain h' /\
    h_height h = h_height h' /\ h_time h = h_time h' /\ h_last_bid h = h_last_bid h' /\
    h_lc_hash h = h_lc_hash h' /\ h_data_hash h = h_data_hash h' /\
    h_vals_hash h = h_vals_hash h' /\ h_nvals_hash h = h_nvals_hash h' /\
    h_cons_hash h = h_cons_hash h' /\ h_app_hash h = h_app_hash h' /\
    h_results_hash h = h_results_hash h' /\ h_ev_hash h = h_ev_hash h'.
Proof. exact header_determined. Qed.
Print Assumptions C06_header_determined.

(* Single-field perturbation: change any header field(s) other than the proposer address of an
   accepted block, keep the body: the result is rejected. *)
Theorem C06_header_perturbation_rejected :
  forall (sig : Type) (sv : key -> signmsg -> sig -> bool) (tx ev : Type)
         (ev_valid : ev -> bool) (ev_size : list ev -> Z)
         (Hc : list (slot sig) -> hv) (Hd : list tx -> hv) (He : list ev -> hv)
         (Hv : list validator -> hv) (Hp : Z -> Z -> hv) (st : state) (b b' : block sig tx ev),
    0 <= st_last_height st ->
    validate_block sv ev_valid ev_size Hc Hd He Hv Hp st b = None ->
    b_txs b' = b_txs b -> b_ev b' = b_ev b -> b_lc b' = b_lc b ->
    h_proposer (b_h b') = h_proposer (b_h b) ->
    b_h b' <> b_h b ->
    validate_block sv ev_valid ev_size Hc Hd He Hv Hp st b' <> None.
Proof. exact header_perturbation_rejected. Qed.
Print Assumptions C06_header_perturbation_rejected.

(* The proposer field: membership in the current validator set, nothing more (the code cannot
   know the round). *)
Theorem C06_proposer_must_be_member :
  forall (sig : Type) (sv : key -> signmsg -> sig -> bool) (tx ev : Type)
         (ev_valid : ev -> bool) (ev_size : list ev -> Z)
         (Hc : list (slot sig) -> hv) (Hd : list tx -> hv) (He : list ev -> hv)
         (Hv : list validator -> hv) (Hp : Z -> Z -> hv) (st : state) (b : block sig tx ev),
    validate_block sv ev_valid ev_size Hc Hd He Hv Hp st b = None ->
    has_address (st_vals st) (hv_id (h_proposer (b_h b))) = true.
Proof. exact proposer_must_be_member. Qed.
Print Assumptions C06_proposer_must_be_member.

(* The header binds the body, or a collision of the content hash is exhibited. *)
Theorem C06_body_bound_by_header :
  forall (sig : Type) (sv : key -> signmsg -> sig -> bool) (tx ev : Type)
         (ev_valid : ev -> bool) (ev_size : list ev -> Z)
         (Hc : list (slot sig) -> hv) (Hd : list tx -> hv) (He : list ev -> hv)
         (Hv : list validator -> hv) (Hp : Z -> Z -> hv) (st : state) (b b' : block sig tx ev)
         (c c' : commit6 sig),
    validate_block sv ev_valid ev_size Hc Hd He Hv Hp st b = None ->
    validate_block sv ev_valid ev_size Hc Hd He Hv Hp st b' = None ->
    b_h b = b_h b' -> b_lc b = Some c -> b_lc b' = Some c' ->
    (b_txs b <> b_txs b' -> exists x y, x <> y /\ Hd x = Hd y) /\
    (b_ev b <> b_ev b' -> exists x y, x <> y /\ He x = He y) /\
    (cm_sigs c <> cm_sigs c' -> exists x y, x <> y /\ Hc x = Hc y).
Proof. exact body_bound_by_header. Qed.
Print Assumptions C06_body_bound_by_header.

(* ---- a correct proposer's block is accepted ---------------------------------------------- *)

(* For ANY transactions and evidence (evidence items pass ValidateBasic and fit
   Evidence.MaxBytes — what the evidence pool hands out), any well-formed state, a member of the
   validator set as proposer, and a commit that VerifyCommit accepts whose median time is later
   than the last block (see C06_median_between_honest for when that is guaranteed): the block
   built by MakeBlock passes validateBlock.  32-byte outputs are required only of the hash values
   that actually occur. *)
Theorem C06_proposer_block_valid :
  forall (sig : Type) (sv : key -> signmsg -> sig -> bool) (tx ev : Type)
         (ev_valid : ev -> bool) (ev_size : list ev -> Z)
         (Hc : list (slot sig) -> hv) (Hd : list tx -> hv) (He : list ev -> hv)
         (Hv : list validator -> hv) (Hp : Z -> Z -> hv)
         (st : state) (height : Z) (txs : list tx) (c : commit6 sig) (evs : list ev) (p : hv),
    st_vblock st = block_protocol -> hv_len (st_chain st) <= max_chain_id_len ->
    1 <= st_initial st -> (st_last_height st = 0 \/ st_initial st <= st_last_height st) ->
    bid_validate_basic (st_last_bid st) = true -> validate_hash (st_results_hash st) = true ->
    hv_len (Hc (cm_sigs c)) = tmhash_size -> hv_len (Hd txs) = tmhash_size ->
    hv_len (He evs) = tmhash_size -> hv_len (Hv (st_vals st)) = tmhash_size ->
    hv_len (Hv (st_next_vals st)) = tmhash_size ->
    hv_len (Hp (p_max_bytes (st_params st)) (p_max_gas (st_params st))) = tmhash_size ->
    height = (if st_last_height st =? 0 then st_initial st else st_last_height st + 1) ->
    hv_len p = address_size -> has_address (st_vals st) (hv_id p) = true ->
    forallb ev_valid evs = true -> ev_byte_size ev_size evs <= p_ev_max_bytes (st_params st) ->
    commit_validate_basic c = true ->
    (if height =? st_initial st then cm_sigs c = []
     else verify_commit sv (st_last_vals st) (hv_id (st_chain st)) (bi_code (st_last_bid st))
                        (height - 1) (to_commit c) = R_ok
          /\ st_last_time st < median_time c (st_last_vals st)) ->
    validate_block sv ev_valid ev_size Hc Hd He Hv Hp st
                   (make_block Hc Hd He Hv Hp st height txs c evs p) = None.
Proof. exact proposer_block_valid. Qed.
Print Assumptions C06_proposer_block_valid.

(* ---- the weighted median ------------------------------------------------------------------ *)

(* Go's sort.Slice is not stable.  Whatever time-sorted arrangement [s] of the entries it
   produces, the loop of WeightedMedian returns what the model (a stable sort) returns.
   [in_range]: times whose UnixNano() is exact; [nonneg]: weights >= 0. *)
Theorem C06_weighted_median_any_sort :
  forall (l s : list wt) (total : Z),
    in_range l -> nonneg l -> Permutation l s -> tsorted s ->
    median_scan s (Z.quot total 2) = weighted_median l total.
Proof. exact weighted_median_any_sort. Qed.
Print Assumptions C06_weighted_median_any_sort.

(* The result does not depend on the order in which the votes are listed. *)
Theorem C06_weighted_median_perm :
  forall (l l' : list wt) (total : Z),
    in_range l -> nonneg l -> Permutation l l' ->
    weighted_median l total = weighted_median l' total.
Proof. exact weighted_median_perm. Qed.
Print Assumptions C06_weighted_median_perm.

(* What is returned: the earliest time of the list up to which the entries weigh at least
   total/2 (integer division). *)
Theorem C06_weighted_median_spec :
  forall (l : list wt) (total : Z),
    in_range l -> nonneg l -> l <> [] -> Z.quot total 2 <= wsum l ->
    let t := weighted_median l total in
    In t (map fst l) /\ Z.quot total 2 <= cumle l t /\
    forall t', In t' (map fst l) -> t' < t -> cumle l t' < Z.quot total 2.
Proof. exact weighted_median_spec. Qed.
Print Assumptions C06_weighted_median_spec.

(* If the entries of faulty validators weigh strictly less than total/2 (integer division) and
   the honest ones at least total/2, the median lies between the earliest and the latest honest
   time.  With lo = last block time + 1 this gives the premise of C06_proposer_block_valid. *)
Theorem C06_median_between_honest :
  forall (honest : wt -> bool) (l : list wt) (lo hi : Z),
    in_range l -> nonneg l ->
    let total := wsum l in
    wsum_if (fun e => negb (honest e)) l < Z.quot total 2 ->
    Z.quot total 2 <= wsum_if honest l ->
    (forall e, In e l -> honest e = true -> lo <= fst e <= hi) ->
    lo <= weighted_median l total <= hi.
Proof. exact median_between_honest. Qed.
Print Assumptions C06_median_between_honest.

(* The threshold of the previous theorem is sharp, and weaker than "faulty < 1/3 of all": with
   N = 3f+1 equal validators and a commit of exactly 2f+1 of them the f faulty entries weigh
   exactly floor((2f+1)/2) = f and their (earlier) time is returned — known finding 1. *)
Example C06_median_threshold_sharp_refuted :
  weighted_median [(100, 1); (5, 1); (101, 1)] 3 = 5 /\
  ~ (100 <= weighted_median [(100, 1); (5, 1); (101, 1)] 3 <= 101).
Proof. split; [vm_compute; reflexivity | vm_compute; intros [H _]; apply H; reflexivity]. Qed.

(* ---- sizes ---------------------------------------------------------------------------------- *)

Theorem C06_slot_size_le :
  forall (sig : Type) (s : slot sig),
    slot_validate_basic s = true -> slot_size s <= max_commit_sig_bytes.
Proof. exact slot_size_le. Qed.
Print Assumptions C06_slot_size_le.

(* for ALL numbers of signatures *)
Theorem C06_commit_size_le :
  forall (sig : Type) (c : commit6 sig),
    0 <= cm_height c < 9223372036854775808 -> 0 <= cm_round c < 2147483648 ->
    bid_validate_basic (cm_bid c) = true -> 0 <= bi_total (cm_bid c) < 4294967296 ->
    forallb slot_validate_basic (cm_sigs c) = true ->
    0 <= commit_size c <= max_commit_bytes (Z.of_nat (length (cm_sigs c))).
Proof. exact commit_size_le. Qed.
Print Assumptions C06_commit_size_le.

(* a header that passes ValidateBasic (chain id <= 50 bytes) takes at most 434 bytes plus the
   application hash field: 468 with a 32-byte hash, against MaxHeaderBytes = 626 *)
Theorem C06_header_size_le :
  forall h : header,
    header_validate_basic h = None ->
    0 <= h_vapp h < 18446744073709551616 -> h_height h < 9223372036854775808 ->
    0 <= bi_total (h_last_bid h) < 4294967296 -> 0 <= hv_len (h_app_hash h) ->
    0 <= header_size h <= 434 + bf (hv_len (h_app_hash h)).
Proof. exact header_size_le. Qed.
Print Assumptions C06_header_size_le.

(* The block fits: for every number of validators/signatures, every chain id up to 50 bytes,
   every evidence size, application hashes up to 182 bytes, MaxBytes up to MaxBlockSizeBytes —
   provided the transactions stay within MaxDataBytes(MaxBytes, evidence size, number of
   signatures IN THE COMMIT THE BLOCK CARRIES) (fix F31; the unfixed code budgets with the size of
   the current validator set instead). *)
Theorem C06_proposer_block_fits :
  forall (sig tx ev : Type) (tx_len : tx -> Z) (ev_size : list ev -> Z),
    (forall x, 0 <= tx_len x) ->
    forall (h : header) (txs : list tx) (evs : list ev) (c : commit6 sig) (max_bytes budget : Z),
    header_validate_basic h = None ->
    0 <= h_vapp h < 18446744073709551616 -> h_height h < 9223372036854775808 ->
    0 <= bi_total (h_last_bid h) < 4294967296 ->
    0 <= hv_len (h_app_hash h) <= 182 ->
    0 <= cm_height c < 9223372036854775808 -> 0 <= cm_round c < 2147483648 ->
    bid_validate_basic (cm_bid c) = true -> 0 <= bi_total (cm_bid c) < 4294967296 ->
    forallb slot_validate_basic (cm_sigs c) = true ->
    0 <= ev_size evs ->
    max_bytes <= max_block_size_bytes ->
    max_data_bytes max_bytes (ev_size evs) (Z.of_nat (length (cm_sigs c))) = Some budget ->
    data_size tx_len txs <= budget ->
    block_size tx_len ev_size {| b_h := h; b_txs := txs; b_ev := evs; b_lc := Some c |} <= max_bytes.
Proof. exact proposer_block_fits. Qed.
Print Assumptions C06_proposer_block_fits.

(* ---- the state transition --------------------------------------------------------------- *)

Theorem C06_update_state_shift :
  forall (results : Type) (Hr : results -> hv)
         (vs_update : list validator -> list validator -> option (list validator))
         (st : state) (id : bid) (h : header) (res : results) (ups : list validator)
         (pu : option param_update) (s' : state),
    update_state Hr vs_update st id h res ups pu = US_ok s' ->
    st_last_height s' = h_height h /\ st_last_bid s' = id /\ st_last_time s' = h_time h /\
    st_vals s' = st_next_vals st /\ st_last_vals s' = st_vals st /\
    st_chain s' = st_chain st /\ st_initial s' = st_initial st /\ st_vblock s' = st_vblock st /\
    st_results_hash s' = Hr res /\
    (ups = [] -> st_next_vals s' = st_next_vals st /\ st_lhvc s' = st_lhvc st) /\
    (ups <> [] -> vs_update (st_next_vals st) ups = Some (st_next_vals s') /\ st_lhvc s' = h_height h + 2) /\
    (pu = None -> st_params s' = st_params st /\ st_lhpc s' = st_lhpc st /\ st_vapp s' = st_vapp st).
Proof. exact update_state_shift. Qed.
Print Assumptions C06_update_state_shift.

(* The next state is a function of (state, block id, header height and time, responses): no
   other part of the block enters it. *)
Theorem C06_update_state_function :
  forall (results : Type) (Hr : results -> hv)
         (vs_update : list validator -> list validator -> option (list validator))
         (st : state) (id : bid) (h h' : header) (res : results) (ups : list validator)
         (pu : option param_update),
    h_height h = h_height h' -> h_time h = h_time h' ->
    update_state Hr vs_update st id h res ups pu = update_state Hr vs_update st id h' res ups pu.
Proof. exact update_state_header_irrelevant. Qed.
Print Assumptions C06_update_state_function.

(* With a parameter update in EndBlock (complements C06_update_state_shift, which covers the case
   without one): the next parameters are UpdateConsensusParams of the old ones and passed
   ValidateConsensusParams, LastHeightConsensusParamsChanged is the next height, the application
   version follows the parameters; AppHash is left empty in every case. *)
Theorem C06_update_state_params :
  forall (results : Type) (Hr : results -> hv)
         (vs_update : list validator -> list validator -> option (list validator))
         (st : state) (id : bid) (h : header) (res : results) (ups : list validator)
         (pu : option param_update) (s' : state),
    update_state Hr vs_update st id h res ups pu = US_ok s' ->
    st_app_hash s' = hv_empty /\
    forall u, pu = Some u ->
      st_params s' = update_params (st_params st) u /\ validate_params (st_params s') = 0 /\
      st_lhpc s' = h_height h + 1 /\ st_vapp s' = p_app_version (st_params s').
Proof. exact update_state_params. Qed.
Print Assumptions C06_update_state_params.

(* ---- what enters LastResultsHash -------------------------------------------------------- *)

(* [results_hash root rs] transcribes ABCIResponsesResultsHash: the Merkle root ([root], arbitrary)
   of the marshalled deterministicResponseDeliverTx(r) of every response.  Its input is a function
   of (Code, Data, GasWanted, GasUsed) of the responses only: Log, Info, Events and Codespace — which
   applications may fill differently on different nodes — do not enter it. *)
Theorem C06_results_hash_fields :
  forall (root : list bytes -> hv) (rs : list dresp),
    results_hash root rs = root (map enc_det (map det_fields rs)).
Proof. exact results_hash_fields. Qed.
Print Assumptions C06_results_hash_fields.

Theorem C06_results_hash_ignores_nondeterministic :
  forall (root : list bytes -> hv) (rs rs' : list dresp),
    map det_fields rs = map det_fields rs' -> results_hash root rs = results_hash root rs'.
Proof. exact results_hash_ignores_nondet. Qed.
Print Assumptions C06_results_hash_ignores_nondeterministic.

(* hence two nodes whose applications agree on the deterministic fields compute the same next
   state from the same block *)
Theorem C06_update_state_ignores_nondeterministic :
  forall (root : list bytes -> hv)
         (vs_update : list validator -> list validator -> option (list validator))
         (st : state) (id : bid) (h : header) (rs rs' : list dresp) (ups : list validator)
         (pu : option param_update),
    map det_fields rs = map det_fields rs' ->
    update_state (results_hash root) vs_update st id h rs ups pu =
    update_state (results_hash root) vs_update st id h rs' ups pu.
Proof. exact update_state_ignores_nondet. Qed.
Print Assumptions C06_update_state_ignores_nondeterministic.

(* Conversely every deterministic field is bound by the hash: for values of the Go types (Code
   uint32, GasWanted/GasUsed int64) equal hashes mean equal (Code, Data, GasWanted, GasUsed) for
   every transaction, or a collision of the Merkle root is exhibited. *)
Theorem C06_results_hash_binds_fields :
  forall (root : list bytes -> hv) (rs rs' : list dresp),
    Forall det_in_range (map det_fields rs) -> Forall det_in_range (map det_fields rs') ->
    results_hash root rs = results_hash root rs' ->
    map det_fields rs = map det_fields rs' \/ exists x y, x <> y /\ root x = root y.
Proof. exact results_hash_binds_fields. Qed.
Print Assumptions C06_results_hash_binds_fields.

(* ---- non-vacuity: a concrete chain state, a commit of three validators, a built block ----- *)

Definition ex_Hc (l : list (slot isig)) : hv := {| hv_id := 100 + Z.of_nat (length l); hv_len := 32 |}.
Definition ex_Hd (l : list Z) : hv := {| hv_id := 200 + fold_right Z.add 0 l; hv_len := 32 |}.
Definition ex_He (l : list bool) : hv := {| hv_id := 300 + Z.of_nat (length l); hv_len := 32 |}.
Definition ex_Hv (l : list validator) : hv := {| hv_id := 400 + sum_power l; hv_len := 32 |}.
Definition ex_Hp (a b : Z) : hv := {| hv_id := 500 + a + b; hv_len := 32 |}.
Definition ex_vals : list validator :=
  [ {| v_addr := 1; v_key := 11; v_power := 5 |}; {| v_addr := 2; v_key := 12; v_power := 5 |};
    {| v_addr := 3; v_key := 13; v_power := 5 |} ].
Definition ex_bid : bid := {| bi_code := 7; bi_hlen := 32; bi_total := 1; bi_plen := 32 |}.
Definition ex_params : params :=
  {| p_max_bytes := 3000; p_max_gas := -1; p_time_iota := 1000; p_ev_age_blocks := 100;
     p_ev_age_dur := 100; p_ev_max_bytes := 0; p_pk_types := [1]; p_app_version := 0 |}.
Definition ex_st : state :=
  {| st_vblock := 11; st_vapp := 0; st_chain := {| hv_id := 1; hv_len := 5 |}; st_initial := 1;
     st_last_height := 1; st_last_bid := ex_bid; st_last_time := 1000;
     st_next_vals := ex_vals; st_vals := ex_vals; st_last_vals := ex_vals; st_lhvc := 1;
     st_params := ex_params; st_lhpc := 1;
     st_results_hash := {| hv_id := 9; hv_len := 32 |}; st_app_hash := {| hv_id := 8; hv_len := 32 |} |}.
Definition ex_slot (a k ts : Z) : slot isig :=
  {| s_flag := 2; s_addr := a; s_alen := 20; s_ts := ts;
     s_sig := Signed k (sign_msg 1 1 0 7 ts); s_slen := 64 |}.
Definition ex_commit : commit6 isig :=
  {| cm_height := 1; cm_round := 0; cm_bid := ex_bid;
     cm_sigs := [ex_slot 1 11 2000; ex_slot 2 12 3000; ex_slot 3 13 2500] |}.
Definition ex_block : block isig Z bool :=
  make_block ex_Hc ex_Hd ex_He ex_Hv ex_Hp ex_st 2 [10; 20] ex_commit [] {| hv_id := 2; hv_len := 20 |}.
Definition ex_validate := validate_block ideal_verify (fun x : bool => x) (fun _ => 0) ex_Hc ex_Hd ex_He ex_Hv ex_Hp ex_st.
Definition ex_with_header (h : header) : block isig Z bool :=
  {| b_h := h; b_txs := b_txs ex_block; b_ev := b_ev ex_block; b_lc := b_lc ex_block |}.
Definition ex_h := b_h ex_block.

(* the built block is accepted (its time is the median 2500); moving the time by one nanosecond,
   or the height, or the application hash, is rejected; another member as proposer is accepted *)
Example C06_exact_nonvacuous :
  ex_validate ex_block = None /\ h_time ex_h = 2500 /\
  ex_validate (ex_with_header
     {| h_vblock := h_vblock ex_h; h_vapp := h_vapp ex_h; h_chain := h_chain ex_h;
        h_height := h_height ex_h; h_time := 2501; h_last_bid := h_last_bid ex_h;
        h_lc_hash := h_lc_hash ex_h; h_data_hash := h_data_hash ex_h; h_vals_hash := h_vals_hash ex_h;
        h_nvals_hash := h_nvals_hash ex_h; h_cons_hash := h_cons_hash ex_h; h_app_hash := h_app_hash ex_h;
        h_results_hash := h_results_hash ex_h; h_ev_hash := h_ev_hash ex_h;
        h_proposer := h_proposer ex_h |}) = Some E_time_median /\
  ex_validate (ex_with_header
     {| h_vblock := h_vblock ex_h; h_vapp := h_vapp ex_h; h_chain := h_chain ex_h;
        h_height := h_height ex_h; h_time := h_time ex_h; h_last_bid := h_last_bid ex_h;
        h_lc_hash := h_lc_hash ex_h; h_data_hash := h_data_hash ex_h; h_vals_hash := h_vals_hash ex_h;
        h_nvals_hash := h_nvals_hash ex_h; h_cons_hash := h_cons_hash ex_h;
        h_app_hash := {| hv_id := 77; hv_len := 32 |};
        h_results_hash := h_results_hash ex_h; h_ev_hash := h_ev_hash ex_h;
        h_proposer := h_proposer ex_h |}) = Some E_app_hash /\
  ex_validate (ex_with_header
     {| h_vblock := h_vblock ex_h; h_vapp := h_vapp ex_h; h_chain := h_chain ex_h;
        h_height := h_height ex_h; h_time := h_time ex_h; h_last_bid := h_last_bid ex_h;
        h_lc_hash := h_lc_hash ex_h; h_data_hash := h_data_hash ex_h; h_vals_hash := h_vals_hash ex_h;
        h_nvals_hash := h_nvals_hash ex_h; h_cons_hash := h_cons_hash ex_h; h_app_hash := h_app_hash ex_h;
        h_results_hash := h_results_hash ex_h; h_ev_hash := h_ev_hash ex_h;
        h_proposer := {| hv_id := 3; hv_len := 20 |} |}) = None.
Proof. vm_compute. repeat split; reflexivity. Qed.

(* the premises of C06_proposer_block_fits hold for it and the bound is meaningful *)
Example C06_fits_nonvacuous :
  header_validate_basic ex_h = None /\
  forallb slot_validate_basic (cm_sigs ex_commit) = true /\
  max_data_bytes 3000 0 3 = Some 1936 /\ data_size (fun x : Z => x) [10; 20] = 34 /\
  block_size (fun x : Z => x) (fun _ : list bool => 0) ex_block = 797 /\
  commit_size ex_commit = 367 /\ max_commit_bytes 3 = 427.
Proof. vm_compute. repeat split; reflexivity. Qed.

(* in_range / nonneg / tsorted are satisfiable with ties *)
Example C06_median_nonvacuous :
  weighted_median [(30, 2); (10, 1); (10, 3); (20, 4)] 10 = 20 /\
  median_scan [(10, 3); (10, 1); (20, 4); (30, 2)] (Z.quot 10 2) = 20 /\
  tsorted [(10, 3); (10, 1); (20, 4); (30, 2)] /\ in_range [(30, 2); (10, 1); (10, 3); (20, 4)].
Proof.
  split; [vm_compute; reflexivity|]. split; [vm_compute; reflexivity|]. split.
  - repeat constructor; cbn; discriminate.
  - repeat constructor.
Qed.

(* two responses that differ in Log, Info, Events and Codespace only have the same leaf (the bytes
   are those of ResponseDeliverTx{Code:1, Data:ab, GasWanted:-1, GasUsed:300}.Marshal()); changing
   Code changes it *)
Definition ex_resp (code : Z) (log : bytes) (evs : list bytes) : dresp :=
  {| r_code := code; r_data := [171%N]; r_log := log; r_info := log; r_gas_wanted := -1;
     r_gas_used := 300; r_events := evs; r_codespace := log |}.
Example C06_results_nonvacuous :
  results_leaves [ex_resp 1 [] []] = results_leaves [ex_resp 1 [108; 111; 103]%N [[10; 1; 97]%N]] /\
  results_leaves [ex_resp 1 [] []]
    = [[8; 1; 18; 1; 171; 40; 255; 255; 255; 255; 255; 255; 255; 255; 255; 1; 48; 172; 2]%N] /\
  enc_response (ex_resp 1 [108; 111; 103]%N [[10; 1; 97]%N])
    <> enc_response (deterministic_response (ex_resp 1 [108; 111; 103]%N [[10; 1; 97]%N])) /\
  results_leaves [ex_resp 1 [] []] <> results_leaves [ex_resp 2 [] []] /\
  det_in_range (det_fields (ex_resp 1 [] [])).
Proof.
  split; [vm_compute; reflexivity|]. split; [vm_compute; reflexivity|].
  split; [vm_compute; discriminate|]. split; [vm_compute; discriminate|].
  vm_compute. repeat split; discriminate.
Qed.

(* ---- F84: the weights of the median are those of the verified signers ------------------- *)

(* [validate_block] above transcribes validateBlock as it stands.  VerifyCommit finds the signer of
   slot i by position and never reads the slot's ValidatorAddress; MedianTime weighs the timestamp
   of slot i by looking that (unsigned) address up and skips a slot that names nobody.  So
   "time = weighted median of the previous commit" holds only for the weights the proposer chose
   to write into the commit: C06_median_between_honest cannot be applied to an accepted block.
   The regression witness: four validators of power 5, the first three stamp 2000/3000/2500, the
   fourth 9000000; relabelling the first three slots with the address 99 of nobody leaves
   VerifyCommit satisfied, the unrepaired function accepts the block and its time is 9000000. *)
Definition f84_vals : list validator := ex_vals ++ [ {| v_addr := 4; v_key := 14; v_power := 5 |} ].
Definition f84_st : state :=
  {| st_vblock := 11; st_vapp := 0; st_chain := {| hv_id := 1; hv_len := 5 |}; st_initial := 1;
     st_last_height := 1; st_last_bid := ex_bid; st_last_time := 1000;
     st_next_vals := f84_vals; st_vals := f84_vals; st_last_vals := f84_vals; st_lhvc := 1;
     st_params := ex_params; st_lhpc := 1;
     st_results_hash := {| hv_id := 9; hv_len := 32 |}; st_app_hash := {| hv_id := 8; hv_len := 32 |} |}.
Definition f84_commit (a1 a2 a3 : Z) : commit6 isig :=
  {| cm_height := 1; cm_round := 0; cm_bid := ex_bid;
     cm_sigs := [ex_slot a1 11 2000; ex_slot a2 12 3000; ex_slot a3 13 2500; ex_slot 4 14 9000000] |}.
Definition f84_block (c : commit6 isig) : block isig Z bool :=
  make_block ex_Hc ex_Hd ex_He ex_Hv ex_Hp f84_st 2 [10; 20] c [] {| hv_id := 4; hv_len := 20 |}.
Definition f84_validate :=
  validate_block ideal_verify (fun x : bool => x) (fun _ => 0) ex_Hc ex_Hd ex_He ex_Hv ex_Hp f84_st.
Definition f84_validate_r :=
  validate_block_r ideal_verify (fun x : bool => x) (fun _ => 0) ex_Hc ex_Hd ex_He ex_Hv ex_Hp f84_st.

Example C06_median_by_address_refuted :
  f84_validate (f84_block (f84_commit 99 99 99)) = None /\
  h_time (b_h (f84_block (f84_commit 99 99 99))) = 9000000 /\
  signer_entries f84_vals (cm_sigs (f84_commit 99 99 99))
    = [(2000, 5); (3000, 5); (2500, 5); (9000000, 5)] /\
  ~ (2000 <= h_time (b_h (f84_block (f84_commit 99 99 99))) <= 3000).
Proof.
  split; [vm_compute; reflexivity|]. split; [vm_compute; reflexivity|].
  split; [vm_compute; reflexivity|]. vm_compute. intros [_ H]. apply H. reflexivity.
Qed.

(* The repaired validateBlock ([validate_block_r], ModelF84.v: after VerifyCommit every non-absent
   slot i must name LastValidators[i]) accepts exactly when the conjunction of the property holds
   WITH that conjunct.  C06_validate_exact stays true of the unrepaired transcription; this is the
   statement for the repaired one. *)
Theorem C06_validate_exact_repaired :
  forall (sig : Type) (sv : key -> signmsg -> sig -> bool) (tx ev : Type)
         (ev_valid : ev -> bool) (ev_size : list ev -> Z)
         (Hc : list (slot sig) -> hv) (Hd : list tx -> hv) (He : list ev -> hv)
         (Hv : list validator -> hv) (Hp : Z -> Z -> hv) (st : state) (b : block sig tx ev),
    validate_block_r sv ev_valid ev_size Hc Hd He Hv Hp st b = None <->
    specb sv ev_valid ev_size Hc Hd He Hv Hp st b = true /\ commit_addresses_ok st b = true.
Proof. exact validate_r_exact_conj. Qed.
Print Assumptions C06_validate_exact_repaired.

(* C06_accepted_commit_and_time with the new conjunct *)
Theorem C06_accepted_commit_and_time_repaired :
  forall (sig : Type) (sv : key -> signmsg -> sig -> bool) (tx ev : Type)
         (ev_valid : ev -> bool) (ev_size : list ev -> Z)
         (Hc : list (slot sig) -> hv) (Hd : list tx -> hv) (He : list ev -> hv)
         (Hv : list validator -> hv) (Hp : Z -> Z -> hv) (st : state) (b : block sig tx ev),
    validate_block_r sv ev_valid ev_size Hc Hd He Hv Hp st b = None ->
    exists c, b_lc b = Some c /\
      ((h_height (b_h b) = st_initial st /\ cm_sigs c = [] /\ h_time (b_h b) = st_last_time st)
       \/
       (st_initial st < h_height (b_h b) /\
        verify_commit sv (st_last_vals st) (hv_id (st_chain st)) (bi_code (st_last_bid st))
                      (h_height (b_h b) - 1) (to_commit c) = R_ok /\
        slots_name_validators (st_last_vals st) (cm_sigs c) = true /\
        st_last_time st < h_time (b_h b) /\ h_time (b_h b) = median_time c (st_last_vals st))).
Proof. exact accepted_commit_and_time_r. Qed.
Print Assumptions C06_accepted_commit_and_time_repaired.

(* For an accepted block after the first, over a validator set with distinct addresses: the
   (time, weight) entries MedianTime uses are exactly (timestamp of slot i, power of validator i)
   for the non-absent slots — the validators whose signatures VerifyCommit checked — and the block
   time is their weighted median for their total weight. *)
Theorem C06_accepted_median_entries_are_signers :
  forall (sig : Type) (sv : key -> signmsg -> sig -> bool) (tx ev : Type)
         (ev_valid : ev -> bool) (ev_size : list ev -> Z)
         (Hc : list (slot sig) -> hv) (Hd : list tx -> hv) (He : list ev -> hv)
         (Hv : list validator -> hv) (Hp : Z -> Z -> hv) (st : state) (b : block sig tx ev)
         (c : commit6 sig),
    wf_valset (st_last_vals st) -> NoDup (map v_addr (st_last_vals st)) ->
    validate_block_r sv ev_valid ev_size Hc Hd He Hv Hp st b = None ->
    b_lc b = Some c -> h_height (b_h b) <> st_initial st ->
    length (st_last_vals st) = length (cm_sigs c) /\
    median_entries (st_last_vals st) (cm_sigs c) = signer_entries (st_last_vals st) (cm_sigs c) /\
    h_time (b_h b) = weighted_median (signer_entries (st_last_vals st) (cm_sigs c))
                                     (wsum (signer_entries (st_last_vals st) (cm_sigs c))).
Proof. exact accepted_entries_are_signers. Qed.
Print Assumptions C06_accepted_median_entries_are_signers.

(* Hence C06_median_between_honest applies to every accepted block: [honest] marks the entries of
   correct signers; if the others weigh less than half (integer division) of what the commit
   carries, the block time lies between the earliest and the latest honest timestamp ... *)
Theorem C06_accepted_block_time_between_honest :
  forall (sig : Type) (sv : key -> signmsg -> sig -> bool) (tx ev : Type)
         (ev_valid : ev -> bool) (ev_size : list ev -> Z)
         (Hc : list (slot sig) -> hv) (Hd : list tx -> hv) (He : list ev -> hv)
         (Hv : list validator -> hv) (Hp : Z -> Z -> hv) (st : state) (b : block sig tx ev)
         (c : commit6 sig) (honest : wt -> bool) (lo hi : Z),
    wf_valset (st_last_vals st) -> NoDup (map v_addr (st_last_vals st)) ->
    validate_block_r sv ev_valid ev_size Hc Hd He Hv Hp st b = None ->
    b_lc b = Some c -> h_height (b_h b) <> st_initial st ->
    let l := signer_entries (st_last_vals st) (cm_sigs c) in
    in_range l ->
    wsum_if (fun e => negb (honest e)) l < Z.quot (wsum l) 2 ->
    Z.quot (wsum l) 2 <= wsum_if honest l ->
    (forall e, In e l -> honest e = true -> lo <= fst e <= hi) ->
    lo <= h_time (b_h b) <= hi.
Proof. exact accepted_time_between_honest. Qed.
Print Assumptions C06_accepted_block_time_between_honest.

(* ... in particular when the faulty signers hold less than one third of the power the commit
   carries (at least 2). *)
Theorem C06_accepted_block_time_third :
  forall (sig : Type) (sv : key -> signmsg -> sig -> bool) (tx ev : Type)
         (ev_valid : ev -> bool) (ev_size : list ev -> Z)
         (Hc : list (slot sig) -> hv) (Hd : list tx -> hv) (He : list ev -> hv)
         (Hv : list validator -> hv) (Hp : Z -> Z -> hv) (st : state) (b : block sig tx ev)
         (c : commit6 sig) (honest : wt -> bool) (lo hi : Z),
    wf_valset (st_last_vals st) -> NoDup (map v_addr (st_last_vals st)) ->
    validate_block_r sv ev_valid ev_size Hc Hd He Hv Hp st b = None ->
    b_lc b = Some c -> h_height (b_h b) <> st_initial st ->
    let l := signer_entries (st_last_vals st) (cm_sigs c) in
    in_range l -> 2 <= wsum l ->
    3 * wsum_if (fun e => negb (honest e)) l < wsum l ->
    (forall e, In e l -> honest e = true -> lo <= fst e <= hi) ->
    lo <= h_time (b_h b) <= hi.
Proof. exact accepted_time_between_honest_third. Qed.
Print Assumptions C06_accepted_block_time_third.

(* non-vacuity: the repaired function refuses the relabelled commit of the witness above, accepts
   the same commit with the validators' own addresses, whose block time 2500 lies between the
   honest timestamps although the fourth validator stamped 9000000; the premises hold *)
Example C06_repaired_nonvacuous :
  f84_validate_r (f84_block (f84_commit 99 99 99)) = Some VR_commit_address /\
  f84_validate_r (f84_block (f84_commit 2 1 3)) = Some VR_commit_address /\
  f84_validate_r (f84_block (f84_commit 1 2 3)) = None /\
  h_time (b_h (f84_block (f84_commit 1 2 3))) = 2500 /\
  wf_valsetb f84_vals = true /\ map v_addr f84_vals = [1; 2; 3; 4] /\
  wsum (signer_entries f84_vals (cm_sigs (f84_commit 1 2 3))) = 20 /\
  wsum_if (fun e => negb (fst e <? 5000)) (signer_entries f84_vals (cm_sigs (f84_commit 1 2 3))) = 5.
Proof. vm_compute. repeat split; reflexivity. Qed.
