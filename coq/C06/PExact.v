(* C06 — proofs, part 1: validate_block accepts exactly when the reference predicate holds. *)
From Coq Require Import List ZArith NArith Bool Lia Permutation Sorted.
From TM Require Import Generated.Consts C07.Model C06.Model.
Import ListNotations.
Open Scope Z_scope.

(* ------------------------------------------------------------------ validate_block = specb *)

Section Exact.
Variable sig : Type.
Variable sig_verify : key -> signmsg -> sig -> bool.
Variable tx ev : Type.
Variable ev_valid : ev -> bool.
Variable ev_size : list ev -> Z.
Variable Hcommit : list (slot sig) -> hv.
Variable Hdata : list tx -> hv.
Variable Hev : list ev -> hv.
Variable Hvals : list validator -> hv.
Variable Hparams : Z -> Z -> hv.

Notation validate := (validate_block sig_verify ev_valid ev_size Hcommit Hdata Hev Hvals Hparams).
Notation spec := (specb sig_verify ev_valid ev_size Hcommit Hdata Hev Hvals Hparams).

Ltac peel H :=
  repeat (cbn [andb orb negb] in H;
  match type of H with
  | (if negb ?c then Some _ else _) = None => destruct c eqn:?; cbn [negb] in H; [|discriminate H]
  | (if ?c then Some _ else _) = None => destruct c eqn:?; [discriminate H|]
  | match ?o with Some _ => _ | None => _ end = None => destruct o eqn:?; [discriminate H|]
  end).

Ltac use_eqs :=
  repeat match goal with
  | E : ?c = true |- _ => rewrite E
  | E : ?c = false |- _ => rewrite E
  end.

Ltac split_and H :=
  repeat (apply andb_true_iff in H; let H2 := fresh "A" in destruct H as [H H2]);
  repeat match goal with
  | E : _ && _ = true |- _ => let E2 := fresh "A" in apply andb_true_iff in E; destruct E as [E E2]
  end;
  repeat match goal with
  | E : negb _ = true |- _ => apply negb_true_iff in E
  end.

Lemma header_exact : forall h, header_validate_basic h = None <-> header_wf h = true.
Proof.
  intro h. unfold header_validate_basic, header_wf. split; intro H.
  - peel H. use_eqs. reflexivity.
  - split_and H. use_eqs. reflexivity.
Qed.

Lemma validate_exact : forall st b, validate st b = None <-> spec st b = true.
Proof.
  intros st b.
  unfold validate_block, specb, block_validate_basic, expected_height_ok.
  destruct (header_validate_basic (b_h b)) eqn:Hh.
  - assert (Hw : header_wf (b_h b) = false).
    { destruct (header_wf (b_h b)) eqn:E; [|reflexivity].
      apply header_exact in E. congruence. }
    rewrite Hw. destruct (b_lc b); split; intro H; discriminate H.
  - apply header_exact in Hh.
    assert (Hp : (hv_len (h_proposer (b_h b)) =? address_size) = true).
    { pose proof Hh as Hh'. unfold header_wf in Hh'. split_and Hh'. assumption. }
    rewrite Hh, Hp.
    destruct (b_lc b) as [c|]; [|split; intro H; discriminate H].
    cbv zeta.
    destruct (h_vapp (b_h b) =? st_vapp st); destruct (h_vblock (b_h b) =? st_vblock st);
    destruct (st_last_height st =? 0); destruct (st_last_height st >? 0);
    destruct (h_height (b_h b) =? st_initial st); destruct (h_height (b_h b) >? st_initial st);
    destruct (verify_commit sig_verify (st_last_vals st) (hv_id (st_chain st))
                (bi_code (st_last_bid st)) (h_height (b_h b) - 1) (to_commit c));
    cbn [andb orb negb];
    (split; intro H;
     [ peel H; repeat match goal with E : (if _ then _ else _) = None |- _ => progress peel E end;
       use_eqs; try reflexivity; try discriminate H
     | repeat (rewrite ?andb_false_r in H; cbn [andb orb negb] in H); try discriminate H;
       split_and H; use_eqs; try reflexivity ]).
Qed.

End Exact.
