(* C06 — model of block validation, block construction, block time and the state transition:
   state/validation.go validateBlock; types/block.go Block.ValidateBasic, Header.ValidateBasic,
   Commit.ValidateBasic, CommitSig.ValidateBasic, BlockID.ValidateBasic, MaxDataBytes,
   MaxDataBytesNoEvidence, MaxCommitBytes, fillHeader; types/validation.go ValidateHash;
   state/state.go MakeBlock, MedianTime; types/time/time.go WeightedMedian;
   state/execution.go CreateProposalBlock (size budget), updateState; types/params.go
   UpdateConsensusParams, ValidateConsensusParams; the gogoproto Size() functions of Header,
   Consensus, BlockID, PartSetHeader, CommitSig, Commit, Data, Block and of the std-time
   Timestamp (proto/tendermint/types/{types,block}.pb.go).
   Transcribed by hand, check by check in the order of the source.  No proofs in this file.

   Abstractions (what the harness maps Go values to):
   * a byte string / string (hash, chain id, address) is [hv]: an integer naming its content
     (equal Go values <-> equal integers, chosen by the harness) and its length.
   * a BlockID is [bid]: an integer naming (hash, total, part-set hash) — 0 for the zero BlockID —
     plus the two hash lengths and the part count, which ValidateBasic and the sizes need.
   * validators, signatures, sign-bytes and VerifyCommit are TM.C07.Model's.
   * times are integers: nanoseconds since the Unix epoch (time.Time{} = [zero_time]).
   * hash functions (Commit.Hash, Data.Hash, EvidenceData.Hash, ValidatorSet.Hash,
     HashConsensusParams, ABCIResponsesResultsHash), Evidence.ValidateBasic, the proto size of an
     evidence list and ValidatorSet.UpdateWithChangeSet+IncrementProposerPriority (C08) are
     parameters, SHARED between the block builder and the validator.
   * ABCIResponsesResultsHash is refined at the end of the file: types/results.go NewResults /
     deterministicResponseDeliverTx (which fields of a DeliverTx response enter the hash) and the
     gogoproto encoding of the stripped response are transcribed; only the Merkle root stays a
     parameter. *)
From Coq Require Import List ZArith NArith Bool.
From TM Require Import Common.Hex Generated.Consts C07.Model.
Import ListNotations.
Open Scope Z_scope.

(* version.BlockProtocol and types.MaxSignatureSize are Go variables, not constants (genconsts
   cannot evaluate them); the harness sends their run-time values and Exec compares them with
   these literals (observable 60). *)
Definition block_protocol : Z := 11.
Definition max_signature_size : Z := 64.

(* time.Time{} in nanoseconds since the Unix epoch: 0001-01-01T00:00:00Z *)
Definition zero_time : Z := -62135596800000000000.

(* ------------------------------------------------------------------ abstract byte strings *)

Record hv := { hv_id : Z; hv_len : Z }.
Definition hv_eqb (a b : hv) : bool := (hv_id a =? hv_id b) && (hv_len a =? hv_len b).
Definition hv_empty : hv := {| hv_id := 0; hv_len := 0 |}.

(* types/validation.go ValidateHash *)
Definition validate_hash (h : hv) : bool := negb ((hv_len h >? 0) && negb (hv_len h =? tmhash_size)).

Record bid := { bi_code : blockid; bi_hlen : Z; bi_total : Z; bi_plen : Z }.
Definition bid_eqb (a b : bid) : bool :=
  (bi_code a =? bi_code b) && (bi_hlen a =? bi_hlen b) && (bi_total a =? bi_total b)
  && (bi_plen a =? bi_plen b).
(* BlockID.ValidateBasic (PartSetHeader.ValidateBasic: Total is a uint32, only the hash length) *)
Definition bid_validate_basic (b : bid) : bool :=
  validate_hash {| hv_id := 0; hv_len := bi_hlen b |} && validate_hash {| hv_id := 0; hv_len := bi_plen b |}.
(* BlockID.IsZero *)
Definition bid_is_zero (b : bid) : bool := (bi_hlen b =? 0) && (bi_total b =? 0) && (bi_plen b =? 0).

(* ------------------------------------------------------------------ weighted median *)

(* Time.UnixNano(): int64 wrap-around outside 1678..2262 *)
Definition unix_nano (t : Z) : Z := wrap64 t.

Definition wt := (Z * Z)%type.      (* (time, weight) — a non-nil *WeightedTime *)

Fixpoint wt_insert (x : wt) (l : list wt) : list wt :=
  match l with
  | [] => [x]
  | y :: r => if unix_nano (fst y) <=? unix_nano (fst x) then y :: wt_insert x r else x :: y :: r
  end.
(* sort.Slice by UnixNano; Go's sort is not stable, the model's is: C06_weighted_median_perm
   shows the result does not depend on the order among equal keys *)
Fixpoint wt_sort (l : list wt) : list wt :=
  match l with [] => [] | x :: r => wt_insert x (wt_sort r) end.

(* the loop of WeightedMedian over the sorted slice; res starts as time.Time{} *)
Fixpoint median_scan (l : list wt) (median : Z) : Z :=
  match l with
  | [] => zero_time
  | (t, w) :: r => if median <=? w then t else median_scan r (median - w)
  end.

Definition weighted_median (l : list wt) (total : Z) : Z :=
  median_scan (wt_sort l) (Z.quot total 2).

(* ------------------------------------------------------------------ commits *)

Section WithSig.

Variable sig : Type.
Variable sig_verify : key -> signmsg -> sig -> bool.

(* CommitSig with the lengths CommitSig.ValidateBasic and the sizes need *)
Record slot := { s_flag : Z; s_addr : addr; s_alen : Z; s_ts : Z; s_sig : sig; s_slen : Z }.
Record commit6 := { cm_height : Z; cm_round : Z; cm_bid : bid; cm_sigs : list slot }.

Definition to_cs (s : slot) : commitsig sig :=
  {| cs_flag := s_flag s; cs_addr := s_addr s; cs_ts := s_ts s; cs_sig := s_sig s |}.
Definition to_commit (c : commit6) : commit sig :=
  {| c_height := cm_height c; c_round := cm_round c; c_bid := bi_code (cm_bid c);
     c_sigs := map to_cs (cm_sigs c) |}.

(* CommitSig.ValidateBasic *)
Definition slot_validate_basic (s : slot) : bool :=
  if (s_flag s =? block_id_flag_absent) then
    (s_alen s =? 0) && (s_ts s =? zero_time) && (s_slen s =? 0)
  else if (s_flag s =? block_id_flag_commit) || (s_flag s =? block_id_flag_nil) then
    (s_alen s =? address_size) && negb (s_slen s =? 0) && (s_slen s <=? max_signature_size)
  else false.

(* Commit.ValidateBasic *)
Definition commit_validate_basic (c : commit6) : bool :=
  if cm_height c <? 0 then false
  else if cm_round c <? 0 then false
  else if 1 <=? cm_height c then
    negb (bid_is_zero (cm_bid c)) && negb (Nat.eqb (length (cm_sigs c)) 0)
    && forallb slot_validate_basic (cm_sigs c)
  else true.

(* state/state.go MedianTime *)
Fixpoint median_entries (vals : list validator) (sigs : list slot) : list wt :=
  match sigs with
  | [] => []
  | s :: r =>
    if s_flag s =? block_id_flag_absent then median_entries vals r
    else match get_by_address vals (s_addr s) O with
         | Some (_, v) => (s_ts s, v_power v) :: median_entries vals r
         | None => median_entries vals r
         end
  end.
Definition median_time (c : commit6) (vals : list validator) : Z :=
  let es := median_entries vals (cm_sigs c) in
  weighted_median es (fold_left (fun a e => wrap64 (a + snd e)) es 0).

(* ------------------------------------------------------------------ blocks and state *)

Variable tx : Type.             (* a transaction; only its length matters here *)
Variable tx_len : tx -> Z.
Variable ev : Type.             (* a piece of evidence *)
Variable ev_valid : ev -> bool. (* Evidence.ValidateBasic() == nil *)
Variable ev_size : list ev -> Z.       (* proto size of the EvidenceList = EvidenceData.ByteSize *)
Variable Hcommit : list slot -> hv.    (* Commit.Hash: Merkle root of the CommitSigs *)
Variable Hdata : list tx -> hv.
Variable Hev : list ev -> hv.
Variable Hvals : list validator -> hv. (* ValidatorSet.Hash *)
Variable Hparams : Z -> Z -> hv.       (* HashConsensusParams: Block.MaxBytes, Block.MaxGas only *)

Record header := {
  h_vblock : Z; h_vapp : Z; h_chain : hv; h_height : Z; h_time : Z; h_last_bid : bid;
  h_lc_hash : hv; h_data_hash : hv; h_vals_hash : hv; h_nvals_hash : hv; h_cons_hash : hv;
  h_app_hash : hv; h_results_hash : hv; h_ev_hash : hv; h_proposer : hv }.

Record block := { b_h : header; b_txs : list tx; b_ev : list ev; b_lc : option commit6 }.

Record params := {
  p_max_bytes : Z; p_max_gas : Z; p_time_iota : Z;
  p_ev_age_blocks : Z; p_ev_age_dur : Z; p_ev_max_bytes : Z;
  p_pk_types : list Z;           (* 1 ed25519, 2 secp256k1 (the keys of ABCIPubKeyTypesToNames), anything else unknown *)
  p_app_version : Z }.

Record state := {
  st_vblock : Z; st_vapp : Z; st_chain : hv; st_initial : Z;
  st_last_height : Z; st_last_bid : bid; st_last_time : Z;
  st_next_vals : list validator; st_vals : list validator; st_last_vals : list validator;
  st_lhvc : Z; st_params : params; st_lhpc : Z; st_results_hash : hv; st_app_hash : hv }.

(* error classes, one per check, numbered in source order *)
Inductive verr :=
| E_hdr_version | E_hdr_chain_len | E_hdr_height_neg | E_hdr_height_zero | E_hdr_last_bid
| E_hdr_lc_hash_len | E_hdr_data_hash_len | E_hdr_ev_hash_len | E_hdr_proposer_len
| E_hdr_vals_hash_len | E_hdr_nvals_hash_len | E_hdr_cons_hash_len | E_hdr_results_hash_len
| E_nil_commit | E_commit_basic | E_lc_hash | E_data_hash | E_ev_basic | E_ev_hash
| E_version | E_chain | E_height_initial | E_height | E_last_bid | E_app_hash | E_cons_hash
| E_results_hash | E_vals_hash | E_nvals_hash | E_initial_sigs | E_commit (r : vresult)
| E_proposer_len | E_proposer_unknown | E_time_not_after | E_time_median | E_time_genesis
| E_height_low | E_ev_overflow.

(* Header.ValidateBasic *)
Definition header_validate_basic (h : header) : option verr :=
  if negb (h_vblock h =? block_protocol) then Some E_hdr_version
  else if hv_len (h_chain h) >? max_chain_id_len then Some E_hdr_chain_len
  else if h_height h <? 0 then Some E_hdr_height_neg
  else if h_height h =? 0 then Some E_hdr_height_zero
  else if negb (bid_validate_basic (h_last_bid h)) then Some E_hdr_last_bid
  else if negb (validate_hash (h_lc_hash h)) then Some E_hdr_lc_hash_len
  else if negb (validate_hash (h_data_hash h)) then Some E_hdr_data_hash_len
  else if negb (validate_hash (h_ev_hash h)) then Some E_hdr_ev_hash_len
  else if negb (hv_len (h_proposer h) =? address_size) then Some E_hdr_proposer_len
  else if negb (validate_hash (h_vals_hash h)) then Some E_hdr_vals_hash_len
  else if negb (validate_hash (h_nvals_hash h)) then Some E_hdr_nvals_hash_len
  else if negb (validate_hash (h_cons_hash h)) then Some E_hdr_cons_hash_len
  else if negb (validate_hash (h_results_hash h)) then Some E_hdr_results_hash_len
  else None.

(* Block.ValidateBasic *)
Definition block_validate_basic (b : block) : option verr :=
  match header_validate_basic (b_h b) with
  | Some e => Some e
  | None =>
    match b_lc b with
    | None => Some E_nil_commit
    | Some c =>
      if negb (commit_validate_basic c) then Some E_commit_basic
      else if negb (hv_eqb (h_lc_hash (b_h b)) (Hcommit (cm_sigs c))) then Some E_lc_hash
      else if negb (hv_eqb (h_data_hash (b_h b)) (Hdata (b_txs b))) then Some E_data_hash
      else if negb (forallb ev_valid (b_ev b)) then Some E_ev_basic
      else if negb (hv_eqb (h_ev_hash (b_h b)) (Hev (b_ev b))) then Some E_ev_hash
      else None
    end
  end.

(* ValidatorSet.HasAddress *)
Definition has_address (vs : list validator) (a : addr) : bool :=
  existsb (fun v => v_addr v =? a) vs.

(* EvidenceData.ByteSize: 0 for an empty list without looking at the encoding *)
Definition ev_byte_size (l : list ev) : Z := match l with [] => 0 | _ => ev_size l end.

(* state/validation.go validateBlock; None = nil error *)
Definition validate_block (st : state) (b : block) : option verr :=
  match block_validate_basic b with
  | Some e => Some e
  | None =>
    let h := b_h b in
    if negb (h_vapp h =? st_vapp st) || negb (h_vblock h =? st_vblock st) then Some E_version
    else if negb (hv_eqb (h_chain h) (st_chain st)) then Some E_chain
    else if (st_last_height st =? 0) && negb (h_height h =? st_initial st) then Some E_height_initial
    else if (st_last_height st >? 0) && negb (h_height h =? st_last_height st + 1) then Some E_height
    else if negb (bid_eqb (h_last_bid h) (st_last_bid st)) then Some E_last_bid
    else if negb (hv_eqb (h_app_hash h) (st_app_hash st)) then Some E_app_hash
    else if negb (hv_eqb (h_cons_hash h)
                         (Hparams (p_max_bytes (st_params st)) (p_max_gas (st_params st))))
         then Some E_cons_hash
    else if negb (hv_eqb (h_results_hash h) (st_results_hash st)) then Some E_results_hash
    else if negb (hv_eqb (h_vals_hash h) (Hvals (st_vals st))) then Some E_vals_hash
    else if negb (hv_eqb (h_nvals_hash h) (Hvals (st_next_vals st))) then Some E_nvals_hash
    else
      match b_lc b with
      | None => Some E_nil_commit            (* unreachable: ValidateBasic refused it *)
      | Some c =>
        let commit_err :=
          if h_height h =? st_initial st then
            (if negb (Nat.eqb (length (cm_sigs c)) 0) then Some E_initial_sigs else None)
          else
            match verify_commit sig_verify (st_last_vals st) (hv_id (st_chain st))
                                (bi_code (st_last_bid st)) (h_height h - 1) (to_commit c) with
            | R_ok => None
            | r => Some (E_commit r)
            end in
        match commit_err with
        | Some e => Some e
        | None =>
          if negb (hv_len (h_proposer h) =? address_size) then Some E_proposer_len
          else if negb (has_address (st_vals st) (hv_id (h_proposer h))) then Some E_proposer_unknown
          else
            let time_err :=
              if h_height h >? st_initial st then
                (if negb (h_time h >? st_last_time st) then Some E_time_not_after
                 else if negb (h_time h =? median_time c (st_last_vals st)) then Some E_time_median
                 else None)
              else if h_height h =? st_initial st then
                (if negb (h_time h =? st_last_time st) then Some E_time_genesis else None)
              else Some E_height_low in
            match time_err with
            | Some e => Some e
            | None =>
              if ev_byte_size (b_ev b) >? p_ev_max_bytes (st_params st) then Some E_ev_overflow
              else None
            end
        end
      end
  end.

(* The reference predicate: the conjunction the property states, as a boolean.  Exec evaluates it
   on the implementation's verdicts (monitor); C06_validate_exact proves that validate_block
   accepts exactly when it holds. *)
Definition expected_height_ok (st : state) (h : Z) : bool :=
  (negb (st_last_height st =? 0) || (h =? st_initial st))
  && (negb (st_last_height st >? 0) || (h =? st_last_height st + 1)).

Definition header_wf (h : header) : bool :=
  (h_vblock h =? block_protocol) && negb (hv_len (h_chain h) >? max_chain_id_len)
  && negb (h_height h <? 0) && negb (h_height h =? 0) && bid_validate_basic (h_last_bid h)
  && validate_hash (h_lc_hash h) && validate_hash (h_data_hash h) && validate_hash (h_ev_hash h)
  && (hv_len (h_proposer h) =? address_size)
  && validate_hash (h_vals_hash h) && validate_hash (h_nvals_hash h)
  && validate_hash (h_cons_hash h) && validate_hash (h_results_hash h).

Definition specb (st : state) (b : block) : bool :=
  match b_lc b with
  | None => false
  | Some c =>
    let h := b_h b in
    (* internal consistency *)
    header_wf h && commit_validate_basic c && forallb ev_valid (b_ev b)
    (* content hashes *)
    && hv_eqb (h_lc_hash h) (Hcommit (cm_sigs c)) && hv_eqb (h_data_hash h) (Hdata (b_txs b))
    && hv_eqb (h_ev_hash h) (Hev (b_ev b))
    (* header fields equal the values derived from the state *)
    && (h_vapp h =? st_vapp st) && (h_vblock h =? st_vblock st)
    && hv_eqb (h_chain h) (st_chain st) && expected_height_ok st (h_height h)
    && bid_eqb (h_last_bid h) (st_last_bid st)
    && hv_eqb (h_app_hash h) (st_app_hash st)
    && hv_eqb (h_cons_hash h) (Hparams (p_max_bytes (st_params st)) (p_max_gas (st_params st)))
    && hv_eqb (h_results_hash h) (st_results_hash st)
    && hv_eqb (h_vals_hash h) (Hvals (st_vals st))
    && hv_eqb (h_nvals_hash h) (Hvals (st_next_vals st))
    (* last commit: empty for the first block, else a +2/3 commit of the previous set *)
    && (if h_height h =? st_initial st then Nat.eqb (length (cm_sigs c)) 0
        else match verify_commit sig_verify (st_last_vals st) (hv_id (st_chain st))
                                 (bi_code (st_last_bid st)) (h_height h - 1) (to_commit c) with
             | R_ok => true | _ => false end)
    (* proposer is a validator *)
    && has_address (st_vals st) (hv_id (h_proposer h))
    (* time: median of the last commit and later than the last block, or genesis time *)
    && (if h_height h >? st_initial st
        then (h_time h >? st_last_time st) && (h_time h =? median_time c (st_last_vals st))
        else if h_height h =? st_initial st then h_time h =? st_last_time st else false)
    (* evidence within the byte limit *)
    && negb (ev_byte_size (b_ev b) >? p_ev_max_bytes (st_params st))
  end.

(* ------------------------------------------------------------------ building a block *)

(* state.MakeBlock = types.MakeBlock + fillHeader + Header.Populate.  The proposer passes a
   non-nil commit. *)
Definition make_block (st : state) (height : Z) (txs : list tx) (c : commit6) (evs : list ev)
           (proposer : hv) : block :=
  {| b_h := {| h_vblock := st_vblock st; h_vapp := st_vapp st; h_chain := st_chain st;
               h_height := height;
               h_time := if height =? st_initial st then st_last_time st
                         else median_time c (st_last_vals st);
               h_last_bid := st_last_bid st;
               h_lc_hash := Hcommit (cm_sigs c); h_data_hash := Hdata txs;
               h_vals_hash := Hvals (st_vals st); h_nvals_hash := Hvals (st_next_vals st);
               h_cons_hash := Hparams (p_max_bytes (st_params st)) (p_max_gas (st_params st));
               h_app_hash := st_app_hash st; h_results_hash := st_results_hash st;
               h_ev_hash := Hev evs; h_proposer := proposer |};
     b_txs := txs; b_ev := evs; b_lc := Some c |}.

(* ------------------------------------------------------------------ protobuf sizes *)

(* sovTypes: length of the uvarint encoding of a uint64 *)
Definition sov (x : Z) : Z :=
  if x <? 128 then 1 else if x <? 16384 then 2 else if x <? 2097152 then 3
  else if x <? 268435456 then 4 else if x <? 34359738368 then 5
  else if x <? 4398046511104 then 6 else if x <? 562949953421312 then 7
  else if x <? 72057594037927936 then 8 else if x <? 9223372036854775808 then 9 else 10.
(* an int64/int32 field is converted with uint64(x): negative values take 10 bytes *)
Definition sov_i (x : Z) : Z := if x <? 0 then 10 else sov x.
Definition varint_field (x : Z) : Z := if x =? 0 then 0 else 1 + sov_i x.
(* embedded message / always-emitted length-delimited field of payload length l *)
Definition ld (l : Z) : Z := 1 + l + sov l.
(* bytes/string field: omitted when empty *)
Definition bf (l : Z) : Z := if l >? 0 then ld l else 0.

(* google.protobuf.Timestamp of a time.Time *)
Definition ts_size (t : Z) : Z := varint_field (t / 1000000000) + varint_field (t mod 1000000000).

Definition bid_size (b : bid) : Z :=
  bf (bi_hlen b) + ld (varint_field (bi_total b) + bf (bi_plen b)).

Definition header_size (h : header) : Z :=
  ld (varint_field (h_vblock h) + varint_field (h_vapp h))
  + bf (hv_len (h_chain h)) + varint_field (h_height h) + ld (ts_size (h_time h))
  + ld (bid_size (h_last_bid h))
  + bf (hv_len (h_lc_hash h)) + bf (hv_len (h_data_hash h)) + bf (hv_len (h_vals_hash h))
  + bf (hv_len (h_nvals_hash h)) + bf (hv_len (h_cons_hash h)) + bf (hv_len (h_app_hash h))
  + bf (hv_len (h_results_hash h)) + bf (hv_len (h_ev_hash h)) + bf (hv_len (h_proposer h)).

Definition slot_size (s : slot) : Z :=
  varint_field (s_flag s) + bf (s_alen s) + ld (ts_size (s_ts s)) + bf (s_slen s).

Fixpoint sum_ld {A} (f : A -> Z) (l : list A) : Z :=
  match l with [] => 0 | x :: r => ld (f x) + sum_ld f r end.

Definition commit_size (c : commit6) : Z :=
  varint_field (cm_height c) + varint_field (cm_round c) + ld (bid_size (cm_bid c))
  + sum_ld slot_size (cm_sigs c).

(* types.ComputeProtoSizeForTxs / Data.Size *)
Definition data_size (txs : list tx) : Z := sum_ld tx_len txs.

Definition block_size (b : block) : Z :=
  ld (header_size (b_h b)) + ld (data_size (b_txs b)) + ld (ev_size (b_ev b))
  + match b_lc b with Some c => ld (commit_size c) | None => 0 end.

(* types.MaxCommitBytes, MaxDataBytes (None = panic), MaxDataBytesNoEvidence *)
Definition max_commit_bytes (n : Z) : Z := max_commit_overhead_bytes + (max_commit_sig_bytes + 2) * n.
Definition max_data_bytes (max_bytes ev_bytes n : Z) : option Z :=
  let m := max_bytes - max_overhead_for_block - max_header_bytes - max_commit_bytes n - ev_bytes in
  if m <? 0 then None else Some m.
Definition max_data_bytes_no_evidence (max_bytes n : Z) : option Z :=
  let m := max_bytes - max_overhead_for_block - max_header_bytes - max_commit_bytes n in
  if m <? 0 then None else Some m.

(* the byte budget CreateProposalBlock hands to the mempool: the block will carry [c] *)
Definition proposal_data_budget (st : state) (c : commit6) (evs : list ev) : option Z :=
  max_data_bytes (p_max_bytes (st_params st)) (ev_size evs) (Z.of_nat (length (cm_sigs c))).

(* ------------------------------------------------------------------ the state transition *)

(* abci.ConsensusParams update: every sub-message is optional *)
Record param_update := {
  pu_block : option (Z * Z);              (* MaxBytes, MaxGas *)
  pu_evidence : option (Z * Z * Z);       (* MaxAgeNumBlocks, MaxAgeDuration, MaxBytes *)
  pu_validator : option (list Z);
  pu_version : option Z }.

(* types.UpdateConsensusParams *)
Definition update_params (p : params) (u : param_update) : params :=
  let p1 := match pu_block u with
            | Some (mb, mg) =>
              {| p_max_bytes := mb; p_max_gas := mg; p_time_iota := p_time_iota p;
                 p_ev_age_blocks := p_ev_age_blocks p; p_ev_age_dur := p_ev_age_dur p;
                 p_ev_max_bytes := p_ev_max_bytes p; p_pk_types := p_pk_types p;
                 p_app_version := p_app_version p |}
            | None => p end in
  let p2 := match pu_evidence u with
            | Some (ab, ad, mb) =>
              {| p_max_bytes := p_max_bytes p1; p_max_gas := p_max_gas p1; p_time_iota := p_time_iota p1;
                 p_ev_age_blocks := ab; p_ev_age_dur := ad; p_ev_max_bytes := mb;
                 p_pk_types := p_pk_types p1; p_app_version := p_app_version p1 |}
            | None => p1 end in
  let p3 := match pu_validator u with
            | Some ts =>
              {| p_max_bytes := p_max_bytes p2; p_max_gas := p_max_gas p2; p_time_iota := p_time_iota p2;
                 p_ev_age_blocks := p_ev_age_blocks p2; p_ev_age_dur := p_ev_age_dur p2;
                 p_ev_max_bytes := p_ev_max_bytes p2; p_pk_types := ts;
                 p_app_version := p_app_version p2 |}
            | None => p2 end in
  match pu_version u with
  | Some v =>
    {| p_max_bytes := p_max_bytes p3; p_max_gas := p_max_gas p3; p_time_iota := p_time_iota p3;
       p_ev_age_blocks := p_ev_age_blocks p3; p_ev_age_dur := p_ev_age_dur p3;
       p_ev_max_bytes := p_ev_max_bytes p3; p_pk_types := p_pk_types p3; p_app_version := v |}
  | None => p3
  end.

(* types.ValidateConsensusParams; the number of the first failing check, 0 = nil *)
Definition validate_params (p : params) : Z :=
  if p_max_bytes p <=? 0 then 1
  else if p_max_bytes p >? max_block_size_bytes then 2
  else if p_max_gas p <? -1 then 3
  else if p_time_iota p <=? 0 then 4
  else if p_ev_age_blocks p <=? 0 then 5
  else if p_ev_age_dur p <=? 0 then 6
  else if p_ev_max_bytes p >? p_max_bytes p then 7
  else if p_ev_max_bytes p <? 0 then 8
  else if Nat.eqb (length (p_pk_types p)) 0 then 9
  else if negb (forallb (fun t => (1 <=? t) && (t <=? 2)) (p_pk_types p)) then 10
  else 0.

Variable results : Type.                 (* the DeliverTx responses *)
Variable Hresults : results -> hv.       (* ABCIResponsesResultsHash *)
(* NextValidators.Copy().UpdateWithChangeSet(updates) (C08), projected to (address, key, power);
   None = error.  IncrementProposerPriority changes priorities only. *)
Variable vs_update : list validator -> list validator -> option (list validator).

Inductive us_result := US_ok (s : state) | US_err_valset | US_err_params (code : Z).

(* state/execution.go updateState *)
Definition update_state (st : state) (block_id : bid) (h : header) (res : results)
           (val_updates : list validator) (pu : option param_update) : us_result :=
  let nvals :=
    match val_updates with
    | [] => Some (st_next_vals st, st_lhvc st)
    | _ => match vs_update (st_next_vals st) val_updates with
           | Some vs => Some (vs, h_height h + 1 + 1)
           | None => None
           end
    end in
  match nvals with
  | None => US_err_valset
  | Some (nv, lhvc) =>
    let pres :=
      match pu with
      | None => inl (st_params st, st_lhpc st, st_vapp st)
      | Some u =>
        let np := update_params (st_params st) u in
        let code := validate_params np in
        if code =? 0 then inl (np, h_height h + 1, p_app_version np) else inr code
      end in
    match pres with
    | inr code => US_err_params code
    | inl (np, lhpc, vapp) =>
      US_ok {| st_vblock := st_vblock st; st_vapp := vapp; st_chain := st_chain st;
               st_initial := st_initial st; st_last_height := h_height h;
               st_last_bid := block_id; st_last_time := h_time h;
               st_next_vals := nv; st_vals := st_next_vals st; st_last_vals := st_vals st;
               st_lhvc := lhvc; st_params := np; st_lhpc := lhpc;
               st_results_hash := Hresults res; st_app_hash := hv_empty |}
    end
  end.

End WithSig.

Arguments s_flag {sig}. Arguments s_addr {sig}. Arguments s_alen {sig}. Arguments s_ts {sig}.
Arguments s_sig {sig}. Arguments s_slen {sig}.
Arguments cm_height {sig}. Arguments cm_round {sig}. Arguments cm_bid {sig}. Arguments cm_sigs {sig}.
Arguments b_h {sig tx ev}. Arguments b_txs {sig tx ev}. Arguments b_ev {sig tx ev}.
Arguments b_lc {sig tx ev}.
Arguments to_cs {sig}. Arguments to_commit {sig}. Arguments slot_validate_basic {sig}.
Arguments commit_validate_basic {sig}. Arguments median_entries {sig}. Arguments median_time {sig}.
Arguments block_validate_basic {sig tx ev}. Arguments validate_block {sig} _ {tx ev}.
Arguments specb {sig} _ {tx ev}. Arguments make_block {sig tx ev}.
Arguments ev_byte_size {ev}. Arguments slot_size {sig}. Arguments commit_size {sig}.
Arguments data_size {tx}. Arguments block_size {sig tx} _ {ev}.
Arguments proposal_data_budget {sig ev}. Arguments update_state {results}.

(* ------------------------------------------------------------------ what enters LastResultsHash *)

(* state/store.go ABCIResponsesResultsHash = types.NewResults(DeliverTxs).Hash():
   every response is replaced by deterministicResponseDeliverTx(response), marshalled
   (abci/types/types.pb.go ResponseDeliverTx.Marshal) and the byte strings are the leaves of a
   Merkle tree (crypto/merkle, C10). *)

(* abci.ResponseDeliverTx; an event is represented by its proto encoding *)
Record dresp := {
  r_code : Z;                (* uint32, field 1 *)
  r_data : bytes;            (* field 2 *)
  r_log : bytes;             (* string, field 3 *)
  r_info : bytes;            (* string, field 4 *)
  r_gas_wanted : Z;          (* int64, field 5 *)
  r_gas_used : Z;            (* int64, field 6 *)
  r_events : list bytes;     (* repeated Event, field 7 *)
  r_codespace : bytes }.     (* string, field 8 *)

(* types/results.go deterministicResponseDeliverTx *)
Definition deterministic_response (r : dresp) : dresp :=
  {| r_code := r_code r; r_data := r_data r; r_log := []; r_info := [];
     r_gas_wanted := r_gas_wanted r; r_gas_used := r_gas_used r; r_events := [];
     r_codespace := [] |}.

(* encoding/binary PutUvarint *)
Fixpoint uvarint_f (fuel : nat) (n : Z) : bytes :=
  match fuel with
  | O => []
  | S f => if n <? 128 then [Z.to_N n] else Z.to_N (n mod 128 + 128) :: uvarint_f f (n / 128)
  end.
Definition uvarint (n : Z) : bytes := uvarint_f 10 n.
(* uint64(x) of an int64 *)
Definition u64 (n : Z) : Z := if n <? 0 then n + 18446744073709551616 else n.
(* proto3 scalar field: omitted when zero *)
Definition pb_varint (num v : Z) : bytes :=
  if v =? 0 then [] else uvarint (num * 8) ++ uvarint (u64 v).
(* bytes / string field: omitted when empty *)
Definition pb_bytes (num : Z) (b : bytes) : bytes :=
  match b with
  | [] => []
  | _ => uvarint (num * 8 + 2) ++ uvarint (Z.of_nat (length b)) ++ b
  end.
(* element of a repeated message field: always emitted *)
Definition pb_msg (num : Z) (b : bytes) : bytes :=
  uvarint (num * 8 + 2) ++ uvarint (Z.of_nat (length b)) ++ b.

(* ResponseDeliverTx.Marshal (fields in ascending order) *)
Definition enc_response (r : dresp) : bytes :=
  pb_varint 1 (r_code r) ++ pb_bytes 2 (r_data r) ++ pb_bytes 3 (r_log r) ++ pb_bytes 4 (r_info r)
  ++ pb_varint 5 (r_gas_wanted r) ++ pb_varint 6 (r_gas_used r)
  ++ flat_map (pb_msg 7) (r_events r) ++ pb_bytes 8 (r_codespace r).

(* ABCIResults.toByteSlices of NewResults(responses): the leaves of the results tree *)
Definition results_leaves (rs : list dresp) : list bytes :=
  map (fun r => enc_response (deterministic_response r)) rs.

(* ABCIResponsesResultsHash; [root] = merkle.HashFromByteSlices *)
Definition results_hash (root : list bytes -> hv) (rs : list dresp) : hv := root (results_leaves rs).

(* the four fields the application must compute deterministically, and their encoding *)
Definition det_fields (r : dresp) : Z * bytes * Z * Z :=
  (r_code r, r_data r, r_gas_wanted r, r_gas_used r).
Definition enc_det (f : Z * bytes * Z * Z) : bytes :=
  let '(code, data, gw, gu) := f in
  pb_varint 1 code ++ pb_bytes 2 data ++ pb_varint 5 gw ++ pb_varint 6 gu.
