(* C06 — finding F84 and its repair (fixes/F84-lastcommit-slot-address-matches-validator.diff).

   validateBlock verifies block.LastCommit with LastValidators.VerifyCommit, which finds the signer
   of slot i BY POSITION and never reads CommitSig.ValidatorAddress (the address is not in the sign
   bytes either); MedianTime — which fixes the only admissible block time — takes the WEIGHT of the
   timestamp of slot i by looking that unsigned address up and skips a slot naming nobody
   (Model.v median_entries transcribes that faithfully).  A proposer can therefore relabel slots and
   make any signer's timestamp "the weighted median".

   The repair adds one check to validateBlock, directly after VerifyCommit (so only for
   height <> InitialHeight): every non-absent slot i must carry the address of
   LastValidators.Validators[i].  This file transcribes the repaired function on top of the
   transcription of the unrepaired one (Model.v validate_block, which stays as the regression
   witness).  No proofs in this file. *)
From Coq Require Import List ZArith NArith Bool.
From TM Require Import Common.Hex Generated.Consts C07.Model C06.Model.
Import ListNotations.
Open Scope Z_scope.

Section F84.

Variable sig : Type.
Variable sig_verify : key -> signmsg -> sig -> bool.
Variable tx : Type.
Variable ev : Type.
Variable ev_valid : ev -> bool.
Variable ev_size : list ev -> Z.
Variable Hcommit : list (slot sig) -> hv.
Variable Hdata : list tx -> hv.
Variable Hev : list ev -> hv.
Variable Hvals : list validator -> hv.
Variable Hparams : Z -> Z -> hv.

(* the loop of the repair: slot i is absent or names validator i (the two lists have the same
   length once VerifyCommit has accepted) *)
Fixpoint slots_name_validators (vals : list validator) (sigs : list (slot sig)) : bool :=
  match vals, sigs with
  | v :: vr, s :: sr =>
    ((s_flag s =? block_id_flag_absent) || (s_addr s =? v_addr v)) && slots_name_validators vr sr
  | _, _ => true
  end.

(* the check as validateBlock reaches it: not for the first block, whose LastCommit is empty *)
Definition commit_addresses_ok (st : state) (b : block sig tx ev) : bool :=
  match b_lc b with
  | Some c => (h_height (b_h b) =? st_initial st) || slots_name_validators (st_last_vals st) (cm_sigs c)
  | None => true
  end.

(* errors of the repaired function: those of the unrepaired one plus the new check *)
Inductive verr_r := VR (e : verr) | VR_commit_address.

(* the checks that come AFTER VerifyCommit in validateBlock *)
Definition after_commit_check (e : verr) : bool :=
  match e with
  | E_proposer_len | E_proposer_unknown | E_time_not_after | E_time_median | E_time_genesis
  | E_height_low | E_ev_overflow => true
  | _ => false
  end.

(* state/validation.go validateBlock with the repair: the new check sits between VerifyCommit and
   the proposer check, so it fires exactly when the unrepaired function got past VerifyCommit
   (returned nil or an error of a later check) and a slot names somebody else *)
Definition validate_block_r (st : state) (b : block sig tx ev) : option verr_r :=
  match validate_block sig_verify ev_valid ev_size Hcommit Hdata Hev Hvals Hparams st b with
  | Some e =>
    if after_commit_check e && negb (commit_addresses_ok st b) then Some VR_commit_address
    else Some (VR e)
  | None => if commit_addresses_ok st b then None else Some VR_commit_address
  end.

(* the reference predicate with the conjunct the property needs: the weights of the median are
   those of the validators whose signatures the commit carries *)
Definition specb_r (st : state) (b : block sig tx ev) : bool :=
  specb sig_verify ev_valid ev_size Hcommit Hdata Hev Hvals Hparams st b && commit_addresses_ok st b.

(* the (timestamp, weight) entries of the verified signers: slot i non-absent => (its timestamp,
   the power of validator i) *)
Fixpoint signer_entries (vals : list validator) (sigs : list (slot sig)) : list wt :=
  match vals, sigs with
  | v :: vr, s :: sr =>
    if s_flag s =? block_id_flag_absent then signer_entries vr sr
    else (s_ts s, v_power v) :: signer_entries vr sr
  | _, _ => []
  end.

End F84.

Arguments slots_name_validators {sig}. Arguments commit_addresses_ok {sig tx ev}.
Arguments validate_block_r {sig} _ {tx ev}. Arguments specb_r {sig} _ {tx ev}.
Arguments signer_entries {sig}.
