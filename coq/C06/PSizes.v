(* C06 — proofs, part 3: protobuf sizes and the block size budget. *)
From Coq Require Import List ZArith NArith Bool Lia.
From TM Require Import Generated.Consts C07.Model C06.Model.
Import ListNotations.
Open Scope Z_scope.

Ltac sov_cases :=
  unfold sov;
  repeat match goal with
  | |- context [if ?a <? ?b then _ else _] => destruct (Z.ltb_spec a b)
  end; try lia.

Lemma sov_range : forall x, 1 <= sov x <= 10.
Proof. intro x. sov_cases. Qed.
Lemma sov_small : forall x, x < 128 -> sov x = 1.
Proof. intros x H. sov_cases. Qed.
Lemma sov_2 : forall x, x < 16384 -> sov x <= 2.
Proof. intros x H. sov_cases. Qed.
Lemma sov_4 : forall x, x < 268435456 -> sov x <= 4.
Proof. intros x H. sov_cases. Qed.
Lemma sov_5 : forall x, x < 34359738368 -> sov x <= 5.
Proof. intros x H. sov_cases. Qed.
Lemma sov_9 : forall x, x < 9223372036854775808 -> sov x <= 9.
Proof. intros x H. sov_cases. Qed.

Lemma vf_range : forall x, 0 <= varint_field x <= 11.
Proof.
  intro x. unfold varint_field, sov_i. pose proof (sov_range x).
  destruct (x =? 0); destruct (x <? 0); lia.
Qed.
Lemma vf_pos_le : forall x k b, 0 <= x -> (forall y, y < b -> sov y <= k) -> x < b -> varint_field x <= 1 + k.
Proof.
  intros x k b H0 Hs Hb. unfold varint_field, sov_i. specialize (Hs x Hb). pose proof (sov_range x).
  destruct (x =? 0); [lia|]. destruct (Z.ltb_spec x 0); lia.
Qed.

Lemma ts_size_range : forall t, 0 <= ts_size t <= 17.
Proof.
  intro t. unfold ts_size. pose proof (vf_range (t / 1000000000)).
  pose proof (Z.mod_pos_bound t 1000000000 ltac:(lia)).
  pose proof (vf_pos_le (t mod 1000000000) 5 34359738368 ltac:(lia) sov_5 ltac:(lia)).
  pose proof (vf_range (t mod 1000000000)). lia.
Qed.

Lemma ld_small : forall l, l < 128 -> ld l = l + 2.
Proof. intros l H. unfold ld. rewrite (sov_small l H). lia. Qed.
Lemma ld_mono_4 : forall l, l < 268435456 -> ld l <= l + 5.
Proof. intros l H. unfold ld. pose proof (sov_4 l H). lia. Qed.

Lemma bf_hash : forall h, validate_hash h = true -> 0 <= bf (hv_len h) <= 34.
Proof.
  intros [i l] H. unfold validate_hash in H. cbn in *. unfold bf.
  destruct (Z.gtb_spec l 0); cbn in H; [|lia].
  apply negb_true_iff, negb_false_iff, Z.eqb_eq in H. rewrite H. vm_compute. split; discriminate.
Qed.

Lemma bf_nonneg_le : forall l k, l <= k -> 0 <= k < 128 -> 0 <= bf l <= k + 2.
Proof.
  intros l k H Hk. unfold bf. destruct (Z.gtb_spec l 0); [|lia]. rewrite ld_small; lia.
Qed.

Lemma bid_size_range : forall b, bid_validate_basic b = true -> 0 <= bi_total b < 4294967296 ->
  0 <= bid_size b <= 76.
Proof.
  intros b H Ht. unfold bid_validate_basic in H. apply andb_true_iff in H. destruct H as [H1 H2].
  apply bf_hash in H1. apply bf_hash in H2. cbn [hv_len] in *.
  unfold bid_size.
  pose proof (vf_pos_le (bi_total b) 5 34359738368 ltac:(lia) sov_5 ltac:(lia)).
  pose proof (vf_range (bi_total b)).
  rewrite ld_small by lia. lia.
Qed.

Lemma slot_size_le : forall sig (s : slot sig),
  slot_validate_basic s = true -> slot_size s <= max_commit_sig_bytes.
Proof.
  intros sig s H. unfold slot_validate_basic in H. unfold slot_size.
  pose proof (ts_size_range (s_ts s)) as Ht.
  assert (Hl : ld (ts_size (s_ts s)) <= 19) by (rewrite ld_small; lia).
  change max_commit_sig_bytes with 109.
  change block_id_flag_absent with 1 in H. change block_id_flag_commit with 2 in H.
  change block_id_flag_nil with 3 in H. change address_size with 20 in H.
  change max_signature_size with 64 in H.
  destruct (s_flag s =? 1) eqn:E1.
  - apply Z.eqb_eq in E1. rewrite E1.
    apply andb_true_iff in H. destruct H as [H H3]. apply andb_true_iff in H. destruct H as [H1 H2].
    apply Z.eqb_eq in H1, H3. rewrite H1, H3. change (varint_field 1) with 2. change (bf 0) with 0. lia.
  - destruct ((s_flag s =? 2) || (s_flag s =? 3)) eqn:E2; [|discriminate].
    apply andb_true_iff in H. destruct H as [H H3]. apply andb_true_iff in H. destruct H as [H1 H2].
    apply Z.eqb_eq in H1. apply Z.leb_le in H3. rewrite H1. change (bf 20) with 22.
    pose proof (bf_nonneg_le (s_slen s) 64 H3 ltac:(lia)).
    assert (varint_field (s_flag s) = 2).
    { apply orb_true_iff in E2. destruct E2 as [E|E]; apply Z.eqb_eq in E; rewrite E; reflexivity. }
    lia.
Qed.

Lemma sum_ld_slots_le : forall sig (l : list (slot sig)),
  forallb slot_validate_basic l = true ->
  0 <= sum_ld slot_size l <= (max_commit_sig_bytes + 2) * Z.of_nat (length l).
Proof.
  induction l as [|s r IH]; intro H; [cbn; lia|].
  cbn [forallb] in H. apply andb_true_iff in H. destruct H as [H1 H2]. specialize (IH H2).
  pose proof (slot_size_le sig s H1) as Hs. change max_commit_sig_bytes with 109 in *.
  cbn [sum_ld length]. rewrite Nat2Z.inj_succ.
  assert (0 <= slot_size s).
  { unfold slot_size. pose proof (vf_range (s_flag s)). pose proof (ts_size_range (s_ts s)).
    unfold bf, ld. pose proof (sov_range (s_alen s)). pose proof (sov_range (s_slen s)).
    pose proof (sov_range (ts_size (s_ts s))).
    destruct (Z.gtb_spec (s_alen s) 0); destruct (Z.gtb_spec (s_slen s) 0); lia. }
  rewrite ld_small by lia. lia.
Qed.

(* Commit proto size <= MaxCommitBytes(number of signatures) *)
Lemma commit_size_le : forall sig (c : commit6 sig),
  0 <= cm_height c < 9223372036854775808 -> 0 <= cm_round c < 2147483648 ->
  bid_validate_basic (cm_bid c) = true -> 0 <= bi_total (cm_bid c) < 4294967296 ->
  forallb slot_validate_basic (cm_sigs c) = true ->
  0 <= commit_size c <= max_commit_bytes (Z.of_nat (length (cm_sigs c))).
Proof.
  intros sig c Hh Hr Hb Ht Hs. unfold commit_size, max_commit_bytes.
  pose proof (bid_size_range _ Hb Ht). pose proof (sum_ld_slots_le sig _ Hs).
  pose proof (vf_pos_le (cm_height c) 9 9223372036854775808 ltac:(lia) sov_9 ltac:(lia)).
  pose proof (vf_pos_le (cm_round c) 5 34359738368 ltac:(lia) sov_5 ltac:(lia)).
  pose proof (vf_range (cm_height c)). pose proof (vf_range (cm_round c)).
  change max_commit_overhead_bytes with 94. change max_commit_sig_bytes with 109 in *.
  rewrite ld_small by lia. lia.
Qed.

(* Header proto size: 434 bytes plus the application hash field *)
Lemma header_size_le : forall h,
  header_validate_basic h = None ->
  0 <= h_vapp h < 18446744073709551616 -> h_height h < 9223372036854775808 ->
  0 <= bi_total (h_last_bid h) < 4294967296 -> 0 <= hv_len (h_app_hash h) ->
  0 <= header_size h <= 434 + bf (hv_len (h_app_hash h)).
Proof.
  intros h H Hva Hhh Ht Ha.
  unfold header_validate_basic in H.
  repeat match type of H with
  | (if negb ?c then Some _ else _) = None => destruct c eqn:?; cbn [negb] in H; [|discriminate H]
  | (if ?c then Some _ else _) = None => destruct c eqn:?; [discriminate H|]
  end.
  unfold header_size.
  repeat match goal with E : validate_hash _ = true |- _ => apply bf_hash in E end.
  match goal with E : bid_validate_basic _ = true |- _ => pose proof (bid_size_range _ E Ht) end.
  match goal with E : (h_vblock h =? block_protocol) = true |- _ => apply Z.eqb_eq in E; rewrite E end.
  change (varint_field block_protocol) with 2.
  match goal with E : (hv_len (h_proposer h) =? address_size) = true |- _ => apply Z.eqb_eq in E; rewrite E end.
  change (bf address_size) with 22.
  pose proof (vf_range (h_vapp h)). pose proof (ts_size_range (h_time h)).
  assert (hv_len (h_chain h) <= 50) by (change max_chain_id_len with 50 in *; lia).
  pose proof (bf_nonneg_le (hv_len (h_chain h)) 50 ltac:(lia) ltac:(lia)).
  assert (0 <= h_height h) by lia.
  pose proof (vf_pos_le (h_height h) 9 9223372036854775808 ltac:(lia) sov_9 ltac:(lia)).
  pose proof (vf_range (h_height h)).
  assert (0 <= bf (hv_len (h_app_hash h))).
  { unfold bf, ld. pose proof (sov_range (hv_len (h_app_hash h))). destruct (hv_len (h_app_hash h) >? 0); lia. }
  rewrite !ld_small by lia. lia.
Qed.

Lemma sum_ld_nonneg : forall A (f : A -> Z) l, (forall x, 0 <= f x) -> 0 <= sum_ld f l.
Proof.
  intros A f l H. induction l as [|x r IH]; cbn; [lia|].
  unfold ld. pose proof (sov_range (f x)). specialize (H x). lia.
Qed.

(* The block a proposer builds fits into Block.MaxBytes when the mempool kept to the budget
   MaxDataBytes(MaxBytes, evidence size, number of commit signatures). *)
Section Fits.
Variable sig tx ev : Type.
Variable tx_len : tx -> Z.
Variable ev_size : list ev -> Z.
Hypothesis tx_len_nonneg : forall x, 0 <= tx_len x.

Lemma proposer_block_fits : forall (h : header) (txs : list tx) (evs : list ev) (c : commit6 sig) max_bytes budget,
  header_validate_basic h = None ->
  0 <= h_vapp h < 18446744073709551616 -> h_height h < 9223372036854775808 ->
  0 <= bi_total (h_last_bid h) < 4294967296 ->
  0 <= hv_len (h_app_hash h) <= 182 ->
  0 <= cm_height c < 9223372036854775808 -> 0 <= cm_round c < 2147483648 ->
  bid_validate_basic (cm_bid c) = true -> 0 <= bi_total (cm_bid c) < 4294967296 ->
  forallb slot_validate_basic (cm_sigs c) = true ->
  0 <= ev_size evs ->
  max_bytes <= max_block_size_bytes ->
  max_data_bytes max_bytes (ev_size evs) (Z.of_nat (length (cm_sigs c))) = Some budget ->
  data_size tx_len txs <= budget ->
  block_size tx_len ev_size {| b_h := h; b_txs := txs; b_ev := evs; b_lc := Some c |} <= max_bytes.
Proof.
  intros h txs evs c max_bytes budget Hh Hva Hhh Ht Ha Hch Hcr Hcb Hct Hcs Hev Hmax Hb Hd.
  unfold block_size. cbn [b_h b_txs b_ev b_lc].
  pose proof (header_size_le h Hh Hva Hhh Ht ltac:(lia)) as HS.
  pose proof (commit_size_le sig c Hch Hcr Hcb Hct Hcs) as CS.
  assert (Hbf : bf (hv_len (h_app_hash h)) <= 185).
  { unfold bf. destruct (Z.gtb_spec (hv_len (h_app_hash h)) 0); [|lia].
    unfold ld. pose proof (sov_2 (hv_len (h_app_hash h)) ltac:(lia)). lia. }
  unfold max_data_bytes in Hb.
  change max_overhead_for_block with 11 in Hb. change max_header_bytes with 626 in Hb.
  change max_block_size_bytes with 104857600 in Hmax.
  destruct (Z.ltb_spec (max_bytes - 11 - 626 - max_commit_bytes (Z.of_nat (length (cm_sigs c))) - ev_size evs) 0);
    [discriminate|]. injection Hb as Hb.
  pose proof (sum_ld_nonneg tx tx_len txs tx_len_nonneg) as D0. fold (data_size tx_len txs) in D0.
  assert (L1 : ld (header_size h) <= header_size h + 3).
  { unfold ld. pose proof (sov_2 (header_size h) ltac:(lia)). lia. }
  pose proof (ld_mono_4 (data_size tx_len txs) ltac:(lia)).
  pose proof (ld_mono_4 (ev_size evs) ltac:(lia)).
  pose proof (ld_mono_4 (commit_size c) ltac:(lia)).
  lia.
Qed.
End Fits.

(* non-vacuity of the constants: the largest header/commit sig the limits were measured with *)
Example header_budget_slack : 434 + bf 32 = 468 /\ 468 < max_header_bytes.
Proof. vm_compute. split; reflexivity. Qed.
