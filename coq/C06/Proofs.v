(* C06 — proofs.  See Props.v for the statements.  (validate_exact is in PExact.v.) *)
From Coq Require Import List ZArith NArith Bool Lia Permutation Sorted.
From TM Require Import Generated.Consts C07.Model C06.Model C06.PExact.
Import ListNotations.
Open Scope Z_scope.

Section Exact.
Variable sig : Type.
Variable sig_verify : key -> signmsg -> sig -> bool.
Variable tx ev : Type.
Variable ev_valid : ev -> bool.
Variable ev_size : list ev -> Z.
Variable Hcommit : list (slot sig) -> hv.
Variable Hdata : list tx -> hv.
Variable Hev : list ev -> hv.
Variable Hvals : list validator -> hv.
Variable Hparams : Z -> Z -> hv.

Notation validate := (validate_block sig_verify ev_valid ev_size Hcommit Hdata Hev Hvals Hparams).
Notation spec := (specb sig_verify ev_valid ev_size Hcommit Hdata Hev Hvals Hparams).

Ltac split_and H :=
  repeat (apply andb_true_iff in H; let H2 := fresh "A" in destruct H as [H H2]);
  repeat match goal with
  | E : _ && _ = true |- _ => let E2 := fresh "A" in apply andb_true_iff in E; destruct E as [E E2]
  end;
  repeat match goal with
  | E : negb _ = true |- _ => apply negb_true_iff in E
  end.

Lemma hv_eqb_eq : forall a b, hv_eqb a b = true <-> a = b.
Proof.
  intros [i l] [i' l']. unfold hv_eqb. cbn. rewrite andb_true_iff, !Z.eqb_eq.
  split; [intros [-> ->]; reflexivity | intro E; inversion E; auto].
Qed.
Lemma hv_eqb_refl : forall a, hv_eqb a a = true.
Proof. intro a. apply hv_eqb_eq. reflexivity. Qed.
Lemma bid_eqb_eq : forall a b, bid_eqb a b = true <-> a = b.
Proof.
  intros [c h t p] [c' h' t' p']. unfold bid_eqb. cbn. rewrite !andb_true_iff, !Z.eqb_eq.
  split; [intros [[[-> ->] ->] ->]; reflexivity | intro E; inversion E; auto].
Qed.
Lemma bid_eqb_refl : forall a, bid_eqb a a = true.
Proof. intro a. apply bid_eqb_eq. reflexivity. Qed.
Lemma validate_hash_32 : forall h, hv_len h = tmhash_size -> validate_hash h = true.
Proof. intros h E. unfold validate_hash. rewrite E. reflexivity. Qed.

(* A block built by MakeBlock from a well-formed state, a good commit, a member of the validator
   set as proposer and usable evidence passes validateBlock. *)
Lemma proposer_block_valid :
  forall st height txs (c : commit6 sig) evs p,
    st_vblock st = block_protocol -> hv_len (st_chain st) <= max_chain_id_len ->
    1 <= st_initial st -> (st_last_height st = 0 \/ st_initial st <= st_last_height st) ->
    bid_validate_basic (st_last_bid st) = true -> validate_hash (st_results_hash st) = true ->
    hv_len (Hcommit (cm_sigs c)) = tmhash_size -> hv_len (Hdata txs) = tmhash_size ->
    hv_len (Hev evs) = tmhash_size -> hv_len (Hvals (st_vals st)) = tmhash_size ->
    hv_len (Hvals (st_next_vals st)) = tmhash_size ->
    hv_len (Hparams (p_max_bytes (st_params st)) (p_max_gas (st_params st))) = tmhash_size ->
    height = (if st_last_height st =? 0 then st_initial st else st_last_height st + 1) ->
    hv_len p = address_size -> has_address (st_vals st) (hv_id p) = true ->
    forallb ev_valid evs = true -> ev_byte_size ev_size evs <= p_ev_max_bytes (st_params st) ->
    commit_validate_basic c = true ->
    (if height =? st_initial st then cm_sigs c = []
     else verify_commit sig_verify (st_last_vals st) (hv_id (st_chain st)) (bi_code (st_last_bid st))
                        (height - 1) (to_commit c) = R_ok
          /\ st_last_time st < median_time c (st_last_vals st)) ->
    validate st (make_block Hcommit Hdata Hev Hvals Hparams st height txs c evs p) = None.
Proof.
  intros st height txs c evs p Hvb Hch Hini Hlast Hbid Hres H1 H2 H3 H4 H5 H6 Hh Hpl Hpa Hev1 Hev2 Hcb Hc.
  apply validate_exact. unfold specb, make_block, header_wf, expected_height_ok.
  cbn [b_lc b_h b_txs b_ev h_vblock h_vapp h_chain h_height h_time h_last_bid h_lc_hash h_data_hash
       h_vals_hash h_nvals_hash h_cons_hash h_app_hash h_results_hash h_ev_hash h_proposer].
  rewrite !hv_eqb_refl, bid_eqb_refl, !Z.eqb_refl, Hbid, Hres, Hpa, Hev1, Hcb, Hvb, Z.eqb_refl.
  rewrite (validate_hash_32 _ H1), (validate_hash_32 _ H2), (validate_hash_32 _ H3),
          (validate_hash_32 _ H4), (validate_hash_32 _ H5), (validate_hash_32 _ H6).
  assert (Hpl' : (hv_len p =? address_size) = true) by (apply Z.eqb_eq; exact Hpl).
  assert (Hch' : (hv_len (st_chain st) >? max_chain_id_len) = false) by lia.
  assert (Hev' : (ev_byte_size ev_size evs >? p_ev_max_bytes (st_params st)) = false) by lia.
  rewrite Hpl', Hch', Hev'. cbn [andb negb orb].
  destruct (st_last_height st =? 0) eqn:E0.
  - apply Z.eqb_eq in E0. subst height. rewrite Z.eqb_refl in *. rewrite Hc. rewrite E0.
    assert (X1 : (st_initial st <? 0) = false) by lia.
    assert (X2 : (st_initial st =? 0) = false) by lia.
    assert (X3 : (st_initial st >? st_initial st) = false) by lia.
    rewrite X1, X2, X3, ?Z.eqb_refl. reflexivity.
  - apply Z.eqb_neq in E0. destruct Hlast as [Hl|Hl]; [contradiction|].
    subst height.
    assert (X0 : (st_last_height st + 1 =? st_initial st) = false) by lia.
    rewrite X0 in *. destruct Hc as [Hc Ht]. rewrite Hc.
    assert (X1 : (st_last_height st + 1 <? 0) = false) by lia.
    assert (X2 : (st_last_height st + 1 =? 0) = false) by lia.
    assert (X3 : (st_last_height st + 1 >? st_initial st) = true) by lia.
    assert (X4 : (st_last_height st >? 0) = true) by lia.
    assert (X5 : (median_time c (st_last_vals st) >? st_last_time st) = true) by lia.
    rewrite X1, X2, X3, X4, X5, ?Z.eqb_refl. reflexivity.
Qed.

(* Two blocks with the same body accepted for the same state have the same header, except
   possibly for the proposer address (any member of the validator set is accepted). *)
Lemma header_determined :
  forall st (b b' : block sig tx ev),
    0 <= st_last_height st ->
    spec st b = true -> spec st b' = true ->
    b_txs b = b_txs b' -> b_ev b = b_ev b' -> b_lc b = b_lc b' ->
    let h := b_h b in let h' := b_h b' in
    h_vblock h = h_vblock h' /\ h_vapp h = h_vapp h' /\ h_chain h = h_chain h' /\
    h_height h = h_height h' /\ h_time h = h_time h' /\ h_last_bid h = h_last_bid h' /\
    h_lc_hash h = h_lc_hash h' /\ h_data_hash h = h_data_hash h' /\
    h_vals_hash h = h_vals_hash h' /\ h_nvals_hash h = h_nvals_hash h' /\
    h_cons_hash h = h_cons_hash h' /\ h_app_hash h = h_app_hash h' /\
    h_results_hash h = h_results_hash h' /\ h_ev_hash h = h_ev_hash h'.
Proof.
  intros st b b' Hl S S' Et Ee Ec. cbv zeta.
  unfold specb in S, S'. rewrite <- Et, <- Ee, <- Ec in S'.
  destruct (b_lc b) as [c|]; [|discriminate S].
  split_and S. split_and S'.
  repeat match goal with
  | E : hv_eqb _ _ = true |- _ => apply hv_eqb_eq in E
  | E : bid_eqb _ _ = true |- _ => apply bid_eqb_eq in E
  | E : (_ =? _) = true |- _ => apply Z.eqb_eq in E
  end.
  assert (Hh : h_height (b_h b) = h_height (b_h b')).
  { unfold expected_height_ok in *.
    repeat match goal with
    | E : _ && _ = true |- _ => apply andb_true_iff in E; destruct E
    | E : _ || _ = true |- _ => apply orb_true_iff in E
    end.
    lia. }
  repeat split; try congruence.
  rewrite <- Hh in *.
  destruct (h_height (b_h b) >? st_initial st).
  - repeat match goal with
    | E : _ && _ = true |- _ => apply andb_true_iff in E; destruct E
    end. lia.
  - destruct (h_height (b_h b) =? st_initial st); [lia | discriminate].
Qed.

Lemma header_eta : forall h h' : header,
  h_vblock h = h_vblock h' -> h_vapp h = h_vapp h' -> h_chain h = h_chain h' ->
  h_height h = h_height h' -> h_time h = h_time h' -> h_last_bid h = h_last_bid h' ->
  h_lc_hash h = h_lc_hash h' -> h_data_hash h = h_data_hash h' ->
  h_vals_hash h = h_vals_hash h' -> h_nvals_hash h = h_nvals_hash h' ->
  h_cons_hash h = h_cons_hash h' -> h_app_hash h = h_app_hash h' ->
  h_results_hash h = h_results_hash h' -> h_ev_hash h = h_ev_hash h' ->
  h_proposer h = h_proposer h' -> h = h'.
Proof. intros [] []; cbn; intros; subst; reflexivity. Qed.

(* Changing any header field other than the proposer address of an accepted block (same body)
   gives a block that is rejected. *)
Lemma header_perturbation_rejected :
  forall st (b b' : block sig tx ev),
    0 <= st_last_height st ->
    validate st b = None ->
    b_txs b' = b_txs b -> b_ev b' = b_ev b -> b_lc b' = b_lc b ->
    h_proposer (b_h b') = h_proposer (b_h b) ->
    b_h b' <> b_h b ->
    validate st b' <> None.
Proof.
  intros st b b' Hl V Et Ee Ec Ep Hne V'.
  apply validate_exact in V. apply validate_exact in V'.
  pose proof (header_determined st b b' Hl V V' (eq_sym Et) (eq_sym Ee) (eq_sym Ec)) as D.
  cbv zeta in D. destruct D as (D1&D2&D3&D4&D5&D6&D7&D8&D9&D10&D11&D12&D13&D14).
  apply Hne. apply header_eta; congruence.
Qed.

(* ... and the proposer field is checked for membership only *)
Lemma proposer_must_be_member :
  forall st (b : block sig tx ev),
    validate st b = None -> has_address (st_vals st) (hv_id (h_proposer (b_h b))) = true.
Proof.
  intros st b V. apply validate_exact in V. unfold specb in V.
  destruct (b_lc b); [|discriminate]. split_and V. assumption.
Qed.

(* The header binds the body: two accepted blocks with the same header and different
   transactions / evidence / commit signatures exhibit a collision of the content hash. *)
Lemma body_bound_by_header :
  forall st (b b' : block sig tx ev) c c',
    validate st b = None -> validate st b' = None -> b_h b = b_h b' ->
    b_lc b = Some c -> b_lc b' = Some c' ->
    (b_txs b <> b_txs b' -> exists x y, x <> y /\ Hdata x = Hdata y) /\
    (b_ev b <> b_ev b' -> exists x y, x <> y /\ Hev x = Hev y) /\
    (cm_sigs c <> cm_sigs c' -> exists x y, x <> y /\ Hcommit x = Hcommit y).
Proof.
  intros st b b' c c' V V' Eh Ec Ec'.
  apply validate_exact in V. apply validate_exact in V'. unfold specb in V, V'.
  rewrite Ec in V. rewrite Ec' in V'. rewrite <- Eh in V'.
  split_and V. split_and V'.
  repeat match goal with E : hv_eqb _ _ = true |- _ => apply hv_eqb_eq in E end.
  repeat split; intro Hne.
  - exists (b_txs b), (b_txs b'). split; [exact Hne | congruence].
  - exists (b_ev b), (b_ev b'). split; [exact Hne | congruence].
  - exists (cm_sigs c), (cm_sigs c'). split; [exact Hne | congruence].
Qed.

(* what acceptance says about the last commit and the time, spelled out *)
Lemma accepted_commit_and_time :
  forall st (b : block sig tx ev),
    validate st b = None ->
    exists c, b_lc b = Some c /\
      ((h_height (b_h b) = st_initial st /\ cm_sigs c = [] /\ h_time (b_h b) = st_last_time st)
       \/
       (st_initial st < h_height (b_h b) /\
        verify_commit sig_verify (st_last_vals st) (hv_id (st_chain st)) (bi_code (st_last_bid st))
                      (h_height (b_h b) - 1) (to_commit c) = R_ok /\
        st_last_time st < h_time (b_h b) /\ h_time (b_h b) = median_time c (st_last_vals st))).
Proof.
  intros st b V. apply validate_exact in V. unfold specb in V.
  destruct (b_lc b) as [c|]; [|discriminate]. exists c. split; [reflexivity|].
  split_and V.
  destruct (h_height (b_h b) >? st_initial st) eqn:G.
  - right. destruct (h_height (b_h b) =? st_initial st) eqn:E; [lia|].
    destruct (verify_commit sig_verify (st_last_vals st) (hv_id (st_chain st))
                (bi_code (st_last_bid st)) (h_height (b_h b) - 1) (to_commit c)); try discriminate.
    repeat match goal with
    | E : _ && _ = true |- _ => apply andb_true_iff in E; destruct E
    end. repeat split; try lia.
  - destruct (h_height (b_h b) =? st_initial st) eqn:E; [|discriminate].
    left. repeat split; try lia.
    destruct (cm_sigs c); [reflexivity | discriminate].
Qed.

End Exact.

(* ------------------------------------------------------------------ the state transition *)

Section Update.
Variable results : Type.
Variable Hresults : results -> hv.
Variable vs_update : list validator -> list validator -> option (list validator).

(* updateState shifts the validator sets by one height and records exactly the block it was
   given; nothing else of the block enters the next state. *)
Lemma update_state_shift : forall st bid h res ups pu s',
  update_state Hresults vs_update st bid h res ups pu = US_ok s' ->
  st_last_height s' = h_height h /\ st_last_bid s' = bid /\ st_last_time s' = h_time h /\
  st_vals s' = st_next_vals st /\ st_last_vals s' = st_vals st /\
  st_chain s' = st_chain st /\ st_initial s' = st_initial st /\ st_vblock s' = st_vblock st /\
  st_results_hash s' = Hresults res /\
  (ups = [] -> st_next_vals s' = st_next_vals st /\ st_lhvc s' = st_lhvc st) /\
  (ups <> [] -> vs_update (st_next_vals st) ups = Some (st_next_vals s') /\ st_lhvc s' = h_height h + 2) /\
  (pu = None -> st_params s' = st_params st /\ st_lhpc s' = st_lhpc st /\ st_vapp s' = st_vapp st).
Proof.
  intros st bid h res ups pu s' H. unfold update_state in H.
  destruct ups as [|u ups].
  - destruct pu as [u|].
    + destruct (validate_params (update_params (st_params st) u) =? 0); [|discriminate].
      injection H as <-. cbn. repeat split; try reflexivity; intros; try discriminate; congruence.
    + injection H as <-. cbn. repeat split; try reflexivity; intros; try discriminate; congruence.
  - destruct (vs_update (st_next_vals st) (u :: ups)) as [nv|] eqn:E; [|discriminate].
    destruct pu as [pu|].
    + destruct (validate_params (update_params (st_params st) pu) =? 0); [|discriminate].
      injection H as <-. cbn. repeat split; try reflexivity; intros; try discriminate; try congruence; lia.
    + injection H as <-. cbn. repeat split; try reflexivity; intros; try discriminate; try congruence; lia.
Qed.

(* the header fields other than height and time, the transactions, the evidence and the last
   commit do not influence the next state *)
Lemma update_state_header_irrelevant : forall st bid h h' res ups pu,
  h_height h = h_height h' -> h_time h = h_time h' ->
  update_state Hresults vs_update st bid h res ups pu =
  update_state Hresults vs_update st bid h' res ups pu.
Proof. intros. unfold update_state. rewrite H, H0. reflexivity. Qed.

(* with a parameter update in EndBlock: the next parameters are UpdateConsensusParams of the old
   ones, they passed ValidateConsensusParams, they are recorded as changed at the next height and
   the application version follows them; the application hash is left empty in every case *)
Lemma update_state_params : forall st bid h res ups pu s',
  update_state Hresults vs_update st bid h res ups pu = US_ok s' ->
  st_app_hash s' = hv_empty /\
  forall u, pu = Some u ->
    st_params s' = update_params (st_params st) u /\ validate_params (st_params s') = 0 /\
    st_lhpc s' = h_height h + 1 /\ st_vapp s' = p_app_version (st_params s').
Proof.
  intros st bid h res ups pu s' H. unfold update_state in H.
  destruct (match ups with
            | [] => Some (st_next_vals st, st_lhvc st)
            | _ :: _ => match vs_update (st_next_vals st) ups with
                        | Some vs => Some (vs, h_height h + 1 + 1)
                        | None => None
                        end
            end) as [[nv lhvc]|]; [|discriminate].
  destruct pu as [u|].
  - destruct (validate_params (update_params (st_params st) u) =? 0) eqn:E; [|discriminate].
    apply Z.eqb_eq in E. injection H as <-. cbn. split; [reflexivity|].
    intros u' Eu. injection Eu as <-. repeat split; try reflexivity. exact E.
  - injection H as <-. cbn. split; [reflexivity|]. intros u Eu. discriminate.
Qed.
End Update.
