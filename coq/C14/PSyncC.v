(* C14 — the syncer machine: blacklists are final along histories, a rejected snapshot / format
   is never offered to the application again, and the model's loop never runs out of fuel.
   SInv (PSyncDefs.v) is taken as a hypothesis where it is needed (only for the fuel theorem);
   the blacklist theorems hold for every reachable state without it. *)
From Coq Require Import String List ZArith NArith Bool Lia.
From TM Require Import Common.Hex Generated.Consts C14.Model C14.PQueue C14.PPool C14.PSyncDefs.
Import ListNotations. Open Scope Z_scope.

Ltac sfl := cbn [s_pool s_cur s_insync s_mode s_journal s_qlog s_ties
                 set_pool set_cur set_insync set_mode set_journal set_qlog set_ties fst snd].

Ltac sfl_in H := cbn [s_pool s_cur s_insync s_mode s_journal s_qlog s_ties
                 set_pool set_cur set_insync set_mode set_journal set_qlog set_ties fst snd] in H.

(* ------------------------------------------------------------------ vocabulary *)

(* the snapshot SyncAny currently holds *)
Definition csnap (g : syncer) : option snapshot :=
  match s_cur g with Some (s, _) => Some s | None => None end.

Lemma csnap_some g s q : s_cur g = Some (s, q) -> csnap g = Some s.
Proof. intros H. unfold csnap. rewrite H. reflexivity. Qed.

Lemma csnap_inv g s : csnap g = Some s -> exists q, s_cur g = Some (s, q).
Proof.
  unfold csnap. destruct (s_cur g) as [[s0 q]|]; [|discriminate].
  intros H. injection H as ->. exists q. reflexivity.
Qed.

Lemma csnap_none g : csnap g = None <-> s_cur g = None.
Proof. unfold csnap. destruct (s_cur g) as [[s0 q]|]; split; intros; congruence. Qed.

Definition nbl (p : pool) (s : snapshot) : Prop :=
  p_sbl p (snapshot_key s) = false /\ p_fbl p (sn_format s) = false.

(* the snapshot held by SyncAny is on neither blacklist.  (Stronger than the mode-indexed
   shape: it also holds after SyncAny returned.) *)
Definition BInv (g : syncer) : Prop :=
  forall s q, s_cur g = Some (s, q) ->
    p_sbl (s_pool g) (snapshot_key s) = false /\ p_fbl (s_pool g) (sn_format s) = false.

Lemma BInv_csnap g : BInv g <-> forall s, csnap g = Some s -> nbl (s_pool g) s.
Proof.
  split.
  - intros B s E. apply csnap_inv in E. destruct E as [q E]. exact (B s q E).
  - intros H s q E. apply H. eapply csnap_some. exact E.
Qed.

(* the mode-indexed reading *)
Lemma BInv_mode g : BInv g ->
  match s_mode g with
  | MDone _ => True
  | _ => forall s q, s_cur g = Some (s, q) ->
           p_sbl (s_pool g) (snapshot_key s) = false /\ p_fbl (s_pool g) (sn_format s) = false
  end.
Proof. intros B. destruct (s_mode g); try exact I; exact B. Qed.

(* blacklists only grow *)
Definition ble (p p' : pool) : Prop :=
  (forall k, p_sbl p k = true -> p_sbl p' k = true) /\
  (forall f, p_fbl p f = true -> p_fbl p' f = true).

Lemma ble_refl p : ble p p.
Proof. split; auto. Qed.

Lemma ble_trans p1 p2 p3 : ble p1 p2 -> ble p2 p3 -> ble p1 p3.
Proof. intros [A1 A2] [B1 B2]. split; auto. Qed.

Lemma ble_eq p p' : p_sbl p' = p_sbl p -> p_fbl p' = p_fbl p -> ble p p'.
Proof. intros H1 H2. split; intros; [rewrite H1|rewrite H2]; assumption. Qed.

Lemma ble_reject p s : ble p (pool_reject p s).
Proof. split; intros. - apply reject_mono_sbl; assumption. - rewrite reject_fbl; assumption. Qed.

Lemma ble_reject_format p f : ble p (pool_reject_format p f).
Proof.
  split; intros.
  - rewrite reject_format_sbl; assumption.
  - apply reject_format_mono_fbl; assumption.
Qed.

Lemma ble_reject_peers l p : ble p (fold_left pool_reject_peer l p).
Proof. apply ble_eq; [apply reject_peers_sbl | apply reject_peers_fbl]. Qed.

(* what a piece of the machine does to pool and held snapshot *)
Definition trel (g g' : syncer) : Prop :=
  ble (s_pool g) (s_pool g') /\
  (PInv (s_pool g) -> PInv (s_pool g') /\ (BInv g -> BInv g')).

Lemma trel_refl g : trel g g.
Proof. split; [apply ble_refl|]. intros P. split; auto. Qed.

Lemma trel_trans g1 g2 g3 : trel g1 g2 -> trel g2 g3 -> trel g1 g3.
Proof.
  intros [A1 A2] [B1 B2]. split; [eapply ble_trans; eassumption|].
  intros P. destruct (A2 P) as [P2 A3]. destruct (B2 P2) as [P3 B3]. split; auto.
Qed.

Lemma trel_same g g' :
  p_sbl (s_pool g') = p_sbl (s_pool g) -> p_fbl (s_pool g') = p_fbl (s_pool g) ->
  (PInv (s_pool g) -> PInv (s_pool g')) -> csnap g' = csnap g -> trel g g'.
Proof.
  intros Hs Hf HP Hc. split; [apply ble_eq; assumption|].
  intros P. split; [auto|]. intros B. apply BInv_csnap. intros s E. rewrite Hc in E.
  unfold nbl. rewrite Hs, Hf. exact (proj1 (BInv_csnap g) B s E).
Qed.

(* pool and held snapshot untouched *)
Definition sframe (g g' : syncer) : Prop := s_pool g' = s_pool g /\ csnap g' = csnap g.

Lemma trel_frame g g' : sframe g g' -> trel g g'.
Proof.
  intros [Hp Hc]. apply trel_same; try assumption; rewrite Hp; try reflexivity. auto.
Qed.

Lemma sframe_refl g : sframe g g.
Proof. split; reflexivity. Qed.

Lemma sframe_trans g1 g2 g3 : sframe g1 g2 -> sframe g2 g3 -> sframe g1 g3.
Proof. intros [A1 A2] [B1 B2]. split; congruence. Qed.

Lemma fr_insync g x v : sframe g x -> sframe g (set_insync x v).
Proof. intros H. eapply sframe_trans; [exact H|]. split; reflexivity. Qed.
Lemma fr_mode g x v : sframe g x -> sframe g (set_mode x v).
Proof. intros H. eapply sframe_trans; [exact H|]. split; reflexivity. Qed.
Lemma fr_journal g x v : sframe g x -> sframe g (set_journal x v).
Proof. intros H. eapply sframe_trans; [exact H|]. split; reflexivity. Qed.
Lemma fr_qlog g x v : sframe g x -> sframe g (set_qlog x v).
Proof. intros H. eapply sframe_trans; [exact H|]. split; reflexivity. Qed.
Lemma fr_ties g x v : sframe g x -> sframe g (set_ties x v).
Proof. intros H. eapply sframe_trans; [exact H|]. split; reflexivity. Qed.

Lemma pool_set_q g q : s_pool (set_q g q) = s_pool g.
Proof. unfold set_q. destruct (s_cur g) as [[s q0]|]; reflexivity. Qed.

Lemma csnap_set_q g q : csnap (set_q g q) = csnap g.
Proof.
  unfold set_q. destruct (s_cur g) as [[s q0]|] eqn:E; unfold csnap; sfl; rewrite ?E; reflexivity.
Qed.

Lemma cur_set_q g q : s_cur g <> None -> s_cur (set_q g q) <> None.
Proof. unfold set_q. destruct (s_cur g) as [[s q0]|] eqn:E; sfl; congruence. Qed.

Lemma cur_set_q_some g s q0 q : s_cur g = Some (s, q0) -> s_cur (set_q g q) = Some (s, q).
Proof. intros E. unfold set_q. rewrite E. reflexivity. Qed.

Lemma journal_set_q g q : s_journal (set_q g q) = s_journal g.
Proof. unfold set_q. destruct (s_cur g) as [[s q0]|]; reflexivity. Qed.

Lemma mode_set_q g q : s_mode (set_q g q) = s_mode g.
Proof. unfold set_q. destruct (s_cur g) as [[s q0]|]; reflexivity. Qed.

Lemma fr_set_q g x q : sframe g x -> sframe g (set_q x q).
Proof.
  intros H. eapply sframe_trans; [exact H|]. split; [apply pool_set_q | apply csnap_set_q].
Qed.

Lemma pool_finish g o : s_pool (finish g o) = s_pool g.
Proof. unfold finish. destruct (s_cur g) as [[s q]|]; reflexivity. Qed.

Lemma csnap_finish g o : csnap (finish g o) = csnap g.
Proof.
  unfold finish. destruct (s_cur g) as [[s q]|] eqn:E; unfold csnap; sfl; rewrite ?E; reflexivity.
Qed.

Lemma journal_finish g o : s_journal (finish g o) = s_journal g.
Proof. unfold finish. destruct (s_cur g) as [[s q]|]; reflexivity. Qed.

Lemma mode_finish g o : s_mode (finish g o) = MDone o.
Proof. unfold finish. destruct (s_cur g) as [[s q]|]; reflexivity. Qed.

Lemma fr_finish g x o : sframe g x -> sframe g (finish x o).
Proof.
  intros H. eapply sframe_trans; [exact H|]. split; [apply pool_finish | apply csnap_finish].
Qed.

Create HintDb fr.
#[export] Hint Resolve sframe_refl fr_insync fr_mode fr_journal fr_qlog fr_ties fr_set_q fr_finish : fr.

(* journal: a piece either leaves it, or conses one call, and if that call is an offer the
   offered snapshot is the one SyncAny holds afterwards *)
Definition jrel (g g' : syncer) : Prop :=
  s_journal g' = s_journal g \/
  exists c, s_journal g' = c :: s_journal g /\
            forall s ah, c = COffer s ah -> csnap g' = Some s.

Lemma jrel_eq g g' : s_journal g' = s_journal g -> jrel g g'.
Proof. intros H. left. exact H. Qed.

Lemma jrel_pre g g1 g2 : s_journal g1 = s_journal g -> jrel g1 g2 -> jrel g g2.
Proof. intros H J. unfold jrel in *. rewrite H in J. exact J. Qed.

Definition n99 (g : syncer) : Prop := s_mode g <> MDone (OErr 99).

Lemma n99_finish g o : o <> OErr 99 -> n99 (finish g o).
Proof. intros H. unfold n99. rewrite mode_finish. congruence. Qed.

(* ------------------------------------------------------------------ results of pieces of Sync *)

Definition jres (g : syncer) (r : sres) : Prop :=
  match snd r with None => jrel g (fst r) | Some _ => s_journal (fst r) = s_journal g end.

Definition nres (r : sres) : Prop :=
  PInv (s_pool (fst r)) /\ (snd r = None -> n99 (fst r)).

(* deliver *)
Lemma deliver_snd g s ah st cm q r : snd (deliver g s ah st cm q r) = None.
Proof. unfold deliver. destruct r; reflexivity. Qed.

Lemma deliver_frame g s ah st cm q r : sframe g (fst (deliver g s ah st cm q r)).
Proof. unfold deliver. destruct r; cbn [fst]; auto 10 with fr. Qed.

Lemma deliver_jrel g s ah st cm q r : jrel g (fst (deliver g s ah st cm q r)).
Proof.
  unfold deliver. destruct r; cbn [fst]; sfl.
  - right. exists CInfo. rewrite journal_set_q. split; [reflexivity|discriminate].
  - left. apply journal_set_q.
  - right. exists (CApply i b s0). rewrite journal_set_q. split; [reflexivity|discriminate].
  - left. rewrite journal_finish. apply journal_set_q.
Qed.

Lemma deliver_n99 g s ah st cm q r : n99 (fst (deliver g s ah st cm q r)).
Proof.
  unfold deliver. destruct r; cbn [fst]; unfold n99; sfl; rewrite ?mode_finish; discriminate.
Qed.

(* apply_next *)
Lemma apply_next_snd g s ah st cm : snd (apply_next g s ah st cm) = None.
Proof.
  unfold apply_next. destruct (s_cur g) as [[s0 q]|]; [|reflexivity].
  rewrite (surjective_pairing (q_next q)). apply deliver_snd.
Qed.

Lemma apply_next_frame g s ah st cm : sframe g (fst (apply_next g s ah st cm)).
Proof.
  unfold apply_next. destruct (s_cur g) as [[s0 q]|]; [|cbn [fst]; auto with fr].
  rewrite (surjective_pairing (q_next q)). apply deliver_frame.
Qed.

Lemma apply_next_jrel g s ah st cm : jrel g (fst (apply_next g s ah st cm)).
Proof.
  unfold apply_next. destruct (s_cur g) as [[s0 q]|].
  - rewrite (surjective_pairing (q_next q)). apply deliver_jrel.
  - cbn [fst]. left. apply journal_finish.
Qed.

Lemma apply_next_n99 g s ah st cm : s_cur g <> None -> n99 (fst (apply_next g s ah st cm)).
Proof.
  intros H. unfold apply_next. destruct (s_cur g) as [[s0 q]|]; [|congruence].
  rewrite (surjective_pairing (q_next q)). apply deliver_n99.
Qed.

(* handle_err *)
Definition he_pool (p : pool) (s : snapshot) (e : sync_err) : pool :=
  match e with
  | ETimeout | ERejectSnapshot => pool_reject p s
  | ERejectFormat => pool_reject_format p (sn_format s)
  | _ => fold_left pool_reject_peer (pool_get_peers p s) p
  end.

Lemma handle_err_rej g s e : e <> ERetrySnapshot ->
  handle_err g s e = set_cur (set_pool (set_insync g false) (he_pool (s_pool g) s e)) None.
Proof. intros H. destruct e; try congruence; reflexivity. Qed.

Lemma handle_err_retry g s :
  handle_err g s ERetrySnapshot =
  match s_cur g with
  | Some (s', q) => set_cur (set_insync g false) (Some (s', q_retry_all q))
  | None => set_insync g false
  end.
Proof. reflexivity. Qed.

Lemma he_pool_ble p s e : ble p (he_pool p s e).
Proof.
  destruct e; cbn [he_pool]; try apply ble_reject; try apply ble_reject_format;
    apply ble_reject_peers.
Qed.

Lemma he_pool_PInv p s e : PInv p -> PInv (he_pool p s e).
Proof.
  intros P. destruct e; cbn [he_pool]; try (apply PInv_reject; assumption);
    try (apply PInv_reject_format; assumption); apply PInv_reject_peers; assumption.
Qed.

Lemma handle_err_journal g s e : s_journal (handle_err g s e) = s_journal g.
Proof.
  destruct e; try reflexivity. rewrite handle_err_retry.
  destruct (s_cur g) as [[s' q]|]; reflexivity.
Qed.

Lemma handle_err_trel g s e : trel g (handle_err g s e).
Proof.
  destruct (match e with ERetrySnapshot => true | _ => false end) eqn:R.
  - destruct e; try discriminate. rewrite handle_err_retry. apply trel_frame.
    destruct (s_cur g) as [[s' q]|] eqn:E; split; try reflexivity.
    unfold csnap; sfl; rewrite E; reflexivity.
  - rewrite handle_err_rej by (destruct e; congruence). split; sfl.
    + apply he_pool_ble.
    + intros P. split; [apply he_pool_PInv; assumption|]. intros _ s0 q0 E. sfl. discriminate.
Qed.

Lemma handle_err_cur g s e : e <> ERetrySnapshot -> s_cur (handle_err g s e) = None.
Proof. intros H. rewrite handle_err_rej by assumption. reflexivity. Qed.

Lemma handle_err_pool g s e : e <> ERetrySnapshot ->
  s_pool (handle_err g s e) = he_pool (s_pool g) s e.
Proof. intros H. rewrite handle_err_rej by assumption. reflexivity. Qed.

(* ------------------------------------------------------------------ the loop *)

Definition lrun pv disc fuel g s :=
  match sync_begin pv g s with
  | (g', None) => g'
  | (g', Some e) => loop pv disc fuel (handle_err g' s e)
  end.

Lemma loop_0 pv disc g : loop pv disc 0 g = finish g (OErr 99).
Proof. reflexivity. Qed.

Lemma loop_S pv disc fuel g :
  loop pv disc (S fuel) g =
  match s_cur g with
  | Some (s, _) => lrun pv disc fuel g s
  | None =>
    let '(best, ties') := pool_best (s_pool g) (s_ties g) in
    let g := set_ties g ties' in
    match best with
    | None => if disc then set_mode g MSleep else finish g ONoSnapshots
    | Some s =>
      match new_queue s with
      | None => finish g (OErr 1)
      | Some q => lrun pv disc fuel (set_qlog (set_cur g (Some (s, q))) []) s
      end
    end
  end.
Proof. reflexivity. Qed.

Lemma loop_S_ind (P : syncer -> Prop) pv disc fuel g :
  (forall s q, s_cur g = Some (s, q) -> P (lrun pv disc fuel g s)) ->
  (forall ties', s_cur g = None -> pool_best (s_pool g) (s_ties g) = (None, ties') ->
     P (if disc then set_mode (set_ties g ties') MSleep else finish (set_ties g ties') ONoSnapshots)) ->
  (forall s ties', s_cur g = None -> pool_best (s_pool g) (s_ties g) = (Some s, ties') ->
     new_queue s = None -> P (finish (set_ties g ties') (OErr 1))) ->
  (forall s ties' q, s_cur g = None -> pool_best (s_pool g) (s_ties g) = (Some s, ties') ->
     new_queue s = Some q ->
     P (lrun pv disc fuel (set_qlog (set_cur (set_ties g ties') (Some (s, q))) []) s)) ->
  P (loop pv disc (S fuel) g).
Proof.
  intros H1 H2 H3 H4. rewrite loop_S. destruct (s_cur g) as [[s q]|] eqn:E.
  - eapply H1. reflexivity.
  - destruct (pool_best (s_pool g) (s_ties g)) as [[s|] ties'] eqn:B.
    + destruct (new_queue s) as [q|] eqn:Q.
      * eapply H4; [reflexivity|reflexivity|exact Q].
      * eapply H3; [reflexivity|reflexivity|exact Q].
    + eapply H2; reflexivity.
Qed.

Lemma lrun_ind (P : syncer -> Prop) pv disc fuel g s :
  (pv_apphash pv (sn_height s) = RNoWitnesses -> P (finish (set_insync g true) (OErr 2))) ->
  (pv_apphash pv (sn_height s) = RFail ->
     P (loop pv disc fuel (handle_err (set_insync g true) s ERejectSnapshot))) ->
  (forall ah, pv_apphash pv (sn_height s) = ROk ah ->
     P (set_mode (set_journal (set_insync g true) (COffer s ah :: s_journal g)) (MOffer s ah))) ->
  P (lrun pv disc fuel g s).
Proof.
  intros H1 H2 H3. unfold lrun, sync_begin.
  destruct (pv_apphash pv (sn_height s)) as [ah| |] eqn:E; cbv beta iota zeta.
  - exact (H3 ah eq_refl).
  - exact (H2 eq_refl).
  - exact (H1 eq_refl).
Qed.

(* trel *)
Lemma lrun_trel pv disc fuel g s :
  (forall g, trel g (loop pv disc fuel g)) -> trel g (lrun pv disc fuel g s).
Proof.
  intros IH. apply lrun_ind.
  - intros _. apply trel_frame. auto with fr.
  - intros _. eapply trel_trans; [|apply IH].
    eapply trel_trans; [|apply handle_err_trel]. apply trel_frame. auto with fr.
  - intros ah _. apply trel_frame. auto with fr.
Qed.

Lemma loop_trel pv disc fuel : forall g, trel g (loop pv disc fuel g).
Proof.
  induction fuel as [|fuel IH]; intros g.
  - rewrite loop_0. apply trel_frame. auto with fr.
  - apply loop_S_ind.
    + intros s q _. apply lrun_trel. exact IH.
    + intros ties' _ _. apply trel_frame. destruct disc; auto with fr.
    + intros s ties' _ _ _. apply trel_frame. auto with fr.
    + intros s ties' q C B Q. eapply trel_trans; [|apply lrun_trel; exact IH].
      split; sfl; [apply ble_refl|]. intros P. split; [exact P|]. intros _ s0 q0 E. sfl.
      sfl_in E. injection E as <- <-. apply best_not_blacklisted with (ties := s_ties g); [exact P|].
      rewrite B. reflexivity.
Qed.

(* journal *)
Lemma lrun_jrel pv disc fuel g s : csnap g = Some s ->
  (forall g, jrel g (loop pv disc fuel g)) -> jrel g (lrun pv disc fuel g s).
Proof.
  intros C IH. apply lrun_ind.
  - intros _. left. rewrite journal_finish. reflexivity.
  - intros _. eapply jrel_pre; [|apply IH]. rewrite handle_err_journal. reflexivity.
  - intros ah _. right. exists (COffer s ah). split; [reflexivity|].
    intros s1 ah1 H. injection H as <- <-. exact C.
Qed.

Lemma loop_jrel pv disc fuel : forall g, jrel g (loop pv disc fuel g).
Proof.
  induction fuel as [|fuel IH]; intros g.
  - rewrite loop_0. left. apply journal_finish.
  - apply loop_S_ind.
    + intros s q C. apply lrun_jrel; [eapply csnap_some; exact C|exact IH].
    + intros ties' _ _. left. destruct disc; [reflexivity|]. rewrite journal_finish. reflexivity.
    + intros s ties' _ _ _. left. rewrite journal_finish. reflexivity.
    + intros s ties' q _ _ _. eapply jrel_pre; [|apply lrun_jrel; [|exact IH]]; reflexivity.
Qed.

(* ------------------------------------------------------------------ after_offer, after_apply *)

Lemma after_offer_ind (P : sres -> Prop) pv g s ah :
  P (finish g (OErr 2), None) ->
  ((pv_state pv (sn_height s) = RFail \/
    (exists st, pv_state pv (sn_height s) = ROk st) /\ pv_commit pv (sn_height s) = RFail) ->
   P (g, Some ERejectSnapshot)) ->
  (forall st cm, pv_state pv (sn_height s) = ROk st -> pv_commit pv (sn_height s) = ROk cm ->
     P (apply_next g s ah st cm)) ->
  P (after_offer pv g s ah).
Proof.
  intros H1 H2 H3. unfold after_offer.
  destruct (pv_state pv (sn_height s)) as [st| |] eqn:E1; [|apply H2; left; reflexivity|exact H1].
  destruct (pv_commit pv (sn_height s)) as [cm| |] eqn:E2; [|apply H2|exact H1].
  - apply H3; reflexivity.
  - right. split; [exists st; reflexivity|reflexivity].
Qed.

Lemma reject_senders_inv (P : pool -> Prop) :
  (forall p pr, P p -> P (pool_reject_peer p pr)) ->
  forall l p q, P p -> P (fst (reject_senders p q l)).
Proof.
  intros H l p q H0. unfold reject_senders.
  apply (pp_fold_inv (fun pq : pool * cqueue => P (fst pq))); [|exact H0].
  intros [a b] sd Ha. cbn [fst snd] in *. destruct (sd =? 0)%N; cbn [fst]; auto.
Qed.

Lemma reject_senders_sbl l p q : p_sbl (fst (reject_senders p q l)) = p_sbl p.
Proof.
  apply (reject_senders_inv (fun p' => p_sbl p' = p_sbl p)); [|reflexivity].
  intros p0 pr H. rewrite reject_peer_sbl. exact H.
Qed.

Lemma reject_senders_fbl l p q : p_fbl (fst (reject_senders p q l)) = p_fbl p.
Proof.
  apply (reject_senders_inv (fun p' => p_fbl p' = p_fbl p)); [|reflexivity].
  intros p0 pr H. rewrite reject_peer_fbl. exact H.
Qed.

Lemma reject_senders_PInv l p q : PInv p -> PInv (fst (reject_senders p q l)).
Proof. apply reject_senders_inv. intros p0 pr H. apply PInv_reject_peer. exact H. Qed.

(* the syncer after the refetch / reject-senders prologue of applyChunks *)
Definition aa_g (g : syncer) (q : cqueue) (refetch : list Z) (rejects : list peer) : syncer :=
  let pq := reject_senders (s_pool g) (fold_left q_discard refetch q) rejects in
  set_q (set_pool g (fst pq)) (snd pq).
Definition aa_q (g : syncer) (q : cqueue) (refetch : list Z) (rejects : list peer) : cqueue :=
  snd (reject_senders (s_pool g) (fold_left q_discard refetch q) rejects).

Lemma after_apply_some g s ah st cm i r refetch rejects s0 q :
  s_cur g = Some (s0, q) ->
  after_apply g s ah st cm i r refetch rejects =
  let g2 := aa_g g q refetch rejects in
  if r =? 1 then apply_next g2 s ah st cm
  else if r =? 2 then (finish g2 OAbort, None)
  else if r =? 3 then apply_next (set_q g2 (q_retry (aa_q g q refetch rejects) i)) s ah st cm
  else if r =? 4 then (g2, Some ERetrySnapshot)
  else if r =? 5 then (g2, Some ERejectSnapshot)
  else (finish g2 (OErr 4), None).
Proof.
  intros H. unfold after_apply, aa_g, aa_q. rewrite H.
  destruct (reject_senders (s_pool g) (fold_left q_discard refetch q) rejects) as [p2 q2].
  reflexivity.
Qed.

Lemma after_apply_none g s ah st cm i r refetch rejects :
  s_cur g = None -> after_apply g s ah st cm i r refetch rejects = (finish g (OErr 99), None).
Proof. intros H. unfold after_apply. rewrite H. reflexivity. Qed.

Lemma aa_g_trel g q refetch rejects : trel g (aa_g g q refetch rejects).
Proof.
  unfold aa_g; cbv zeta. apply trel_same.
  - rewrite pool_set_q. sfl. apply reject_senders_sbl.
  - rewrite pool_set_q. sfl. apply reject_senders_fbl.
  - rewrite pool_set_q. sfl. apply reject_senders_PInv.
  - rewrite csnap_set_q. reflexivity.
Qed.

Lemma aa_g_journal g q refetch rejects : s_journal (aa_g g q refetch rejects) = s_journal g.
Proof. unfold aa_g; cbv zeta. rewrite journal_set_q. reflexivity. Qed.

Lemma aa_g_cur g q refetch rejects : s_cur g <> None -> s_cur (aa_g g q refetch rejects) <> None.
Proof. intros H. unfold aa_g; cbv zeta. apply cur_set_q. sfl. exact H. Qed.

Lemma aa_g_pool g q refetch rejects :
  s_pool (aa_g g q refetch rejects) =
  fst (reject_senders (s_pool g) (fold_left q_discard refetch q) rejects).
Proof. unfold aa_g; cbv zeta. rewrite pool_set_q. reflexivity. Qed.

Lemma after_apply_ind (P : sres -> Prop) g s ah st cm i r refetch rejects s0 q :
  s_cur g = Some (s0, q) ->
  let g2 := aa_g g q refetch rejects in
  (forall g3, sframe g2 g3 -> s_journal g3 = s_journal g -> s_cur g3 <> None ->
     P (apply_next g3 s ah st cm)) ->
  (forall o, o <> OErr 99 -> P (finish g2 o, None)) ->
  (forall e, P (g2, Some e)) ->
  P (after_apply g s ah st cm i r refetch rejects).
Proof.
  intros C g2 H1 H2 H3. rewrite (after_apply_some _ _ _ _ _ _ _ _ _ _ _ C). fold g2. cbv zeta.
  assert (C2 : s_cur g2 <> None) by (apply aa_g_cur; congruence).
  destruct (r =? 1); [apply H1; [apply sframe_refl|apply aa_g_journal|exact C2]|].
  destruct (r =? 2); [apply H2; discriminate|].
  destruct (r =? 3).
  { apply H1; [auto with fr| rewrite journal_set_q; apply aa_g_journal | apply cur_set_q; exact C2]. }
  destruct (r =? 4); [apply H3|].
  destruct (r =? 5); [apply H3|].
  apply H2; discriminate.
Qed.

(* ------------------------------------------------------------------ continue *)

Lemma continue_none pv disc r s : snd r = None -> continue pv disc r s = fst r.
Proof. destruct r as [g' [e|]]; cbn [fst snd]; intros H; [discriminate|reflexivity]. Qed.

Lemma continue_some pv disc g' e s :
  continue pv disc (g', Some e) s =
  loop pv disc (loop_fuel (handle_err g' s e)) (handle_err g' s e).
Proof. reflexivity. Qed.

Lemma continue_trel pv disc r s : trel (fst r) (continue pv disc r s).
Proof.
  destruct r as [g' [e|]]; cbn [fst].
  - rewrite continue_some. eapply trel_trans; [apply handle_err_trel|apply loop_trel].
  - apply trel_refl.
Qed.

Lemma continue_jrel pv disc g r s : jres g r -> jrel g (continue pv disc r s).
Proof.
  unfold jres. destruct r as [g' [e|]]; cbn [fst snd]; intros H.
  - rewrite continue_some. eapply jrel_pre; [|apply loop_jrel].
    rewrite handle_err_journal. exact H.
  - exact H.
Qed.

(* ------------------------------------------------------------------ add_chunk *)

Lemma add_chunk_props g pr h f idx body :
  sframe g (fst (add_chunk g pr h f idx body)) /\
  s_journal (fst (add_chunk g pr h f idx body)) = s_journal g /\
  s_mode (fst (add_chunk g pr h f idx body)) = s_mode g.
Proof.
  unfold add_chunk. destruct (negb (s_insync g)); cbn [fst]; [repeat split|].
  destruct (s_cur g) as [[s q]|] eqn:C; cbn [fst]; [|repeat split].
  destruct (pool_peer_rejected (s_pool g) pr); cbn [fst]; [repeat split|].
  rewrite (surjective_pairing (q_add q h f idx body pr)). cbn [fst].
  repeat split. unfold csnap; sfl. rewrite C. reflexivity.
Qed.

(* ------------------------------------------------------------------ the shapes of a step *)

Inductive sshape (pv : provider) (disc : bool) (g : syncer) : syncer -> Prop :=
| sh_same : sshape pv disc g g
| sh_add pr s : sshape pv disc g (set_pool g (fst (pool_add (s_pool g) pr s)))
| sh_rm pr : sshape pv disc g (set_pool g (remove_peer (s_pool g) pr))
| sh_chunk pr h f idx body : sshape pv disc g (fst (add_chunk g pr h f idx body))
| sh_wake pr h f idx body s ah st cm i q nr : s_mode g = MWait s ah st cm i ->
    sshape pv disc g
      (continue pv disc (deliver (fst (add_chunk g pr h f idx body)) s ah st cm q nr) s)
| sh_loop : s_mode g = MIdle \/ s_mode g = MSleep -> sshape pv disc g (loop pv disc (loop_fuel g) g)
| sh_finish o : o <> OErr 99 -> sshape pv disc g (finish g o)
| sh_offer s ah : s_mode g = MOffer s ah ->
    sshape pv disc g (continue pv disc (after_offer pv g s ah) s)
| sh_err s e : sshape pv disc g (continue pv disc (g, Some e) s)
| sh_apply s ah st cm i r refetch rejects : s_mode g = MApply s ah st cm i ->
    sshape pv disc g (continue pv disc (after_apply g s ah st cm i r refetch rejects) s).

Lemma verify_app_code s ah st appv hash height c :
  verify_app s ah st appv hash height = Some c -> OErr c <> OErr 99.
Proof.
  unfold verify_app.
  destruct (negb (appv =? st_vapp st)); [intros H; injection H as <-; discriminate|].
  destruct (negb (bytes_eqb ah hash)); [intros H; injection H as <-; discriminate|].
  destruct (negb (u64 height =? sn_height s)); [intros H; injection H as <-; discriminate|].
  discriminate.
Qed.

Lemma sstep_shape pv disc g e : sshape pv disc g (sstep pv disc g e).
Proof.
  unfold sstep, step. destruct e.
  - (* EStart *) destruct (s_mode g) eqn:M; cbn [fst]; try apply sh_same. apply sh_loop; auto.
  - (* ETick *) destruct (s_mode g) eqn:M; cbn [fst]; try apply sh_same. apply sh_loop; auto.
  - (* EAddSnapshot *)
    rewrite (surjective_pairing (pool_add (s_pool g) pr s)).
    destruct (s_mode g); cbn [fst]; apply sh_add.
  - (* ERemovePeer *) destruct (s_mode g); cbn [fst]; apply sh_rm.
  - (* EAddChunk *)
    rewrite (surjective_pairing (add_chunk g pr h f idx body)).
    destruct (snd (add_chunk g pr h f idx body)); destruct (s_mode g) eqn:M; cbn [fst snd];
      try apply sh_chunk.
    destruct (idx =? i); [|apply sh_chunk].
    destruct (s_cur (fst (add_chunk g pr h f idx body))) as [[s0 q]|] eqn:C; [|apply sh_chunk].
    rewrite (surjective_pairing (q_wake q i)). cbn [fst]. eapply sh_wake. exact M.
  - (* EOfferReply *)
    destruct (s_mode g) eqn:M; cbn [fst]; try apply sh_same.
    destruct (r =? 1); [cbn [fst]; apply sh_offer; exact M|].
    destruct (r =? 2); [cbn [fst]; apply sh_finish; discriminate|].
    destruct (r =? 3); [cbn [fst]; apply sh_err|].
    destruct (r =? 4); [cbn [fst]; apply sh_err|].
    destruct (r =? 5); [cbn [fst]; apply sh_err|].
    cbn [fst]; apply sh_finish; discriminate.
  - (* EApplyReply *)
    destruct (s_mode g) eqn:M; cbn [fst]; try apply sh_same. apply sh_apply. exact M.
  - (* EInfoReply *)
    destruct (s_mode g) eqn:M; cbn [fst]; try apply sh_same.
    destruct (verify_app s ah st appv hash height) as [c|] eqn:V; cbn [fst]; apply sh_finish.
    + eapply verify_app_code. exact V.
    + discriminate.
  - (* EChunkTimeout *)
    destruct (s_mode g) eqn:M; cbn [fst]; try apply sh_same. apply sh_err.
Qed.

(* ------------------------------------------------------------------ 1. blacklists only grow *)

Lemma after_offer_frame pv g s ah : sframe g (fst (after_offer pv g s ah)).
Proof.
  apply (after_offer_ind (fun r => sframe g (fst r))); cbn [fst]; auto with fr.
  intros st cm _ _. apply apply_next_frame.
Qed.

Lemma after_apply_trel g s ah st cm i r refetch rejects :
  trel g (fst (after_apply g s ah st cm i r refetch rejects)).
Proof.
  destruct (s_cur g) as [[s0 q]|] eqn:C.
  - apply (after_apply_ind (fun r => trel g (fst r)) _ _ _ _ _ _ _ _ _ _ _ C); cbn [fst].
    + intros g3 F _ _. eapply trel_trans; [apply aa_g_trel|]. apply trel_frame.
      eapply sframe_trans; [exact F|apply apply_next_frame].
    + intros o _. eapply trel_trans; [apply aa_g_trel|]. apply trel_frame. auto with fr.
    + intros e. apply aa_g_trel.
  - rewrite after_apply_none by exact C. cbn [fst]. apply trel_frame. auto with fr.
Qed.

Theorem step_trel pv disc g e : trel g (sstep pv disc g e).
Proof.
  destruct (sstep_shape pv disc g e).
  - apply trel_refl.
  - apply trel_same; sfl; [apply add_sbl|apply add_fbl|apply PInv_add|reflexivity].
  - apply trel_same; sfl;
      [apply remove_peer_sbl|apply remove_peer_fbl|apply PInv_remove_peer|reflexivity].
  - apply trel_frame. apply add_chunk_props.
  - eapply trel_trans; [|apply continue_trel].
    eapply trel_trans; [apply trel_frame; apply add_chunk_props|].
    apply trel_frame. apply deliver_frame.
  - apply loop_trel.
  - apply trel_frame. auto with fr.
  - eapply trel_trans; [|apply continue_trel]. apply trel_frame. apply after_offer_frame.
  - apply (continue_trel pv disc (g, Some e0) s).
  - eapply trel_trans; [|apply continue_trel]. apply after_apply_trel.
Qed.

Lemma sbl_mono_step : forall pv disc g e k,
  p_sbl (s_pool g) k = true -> p_sbl (s_pool (sstep pv disc g e)) k = true.
Proof. intros pv disc g e k. apply (proj1 (proj1 (step_trel pv disc g e))). Qed.

Lemma fbl_mono_step : forall pv disc g e f,
  p_fbl (s_pool g) f = true -> p_fbl (s_pool (sstep pv disc g e)) f = true.
Proof. intros pv disc g e f. apply (proj2 (proj1 (step_trel pv disc g e))). Qed.

Lemma run_state_cons pv disc g e evs :
  run_state pv disc g (e :: evs) = run_state pv disc (sstep pv disc g e) evs.
Proof. reflexivity. Qed.

Lemma sbl_mono_run : forall pv disc evs g k,
  p_sbl (s_pool g) k = true -> p_sbl (s_pool (run_state pv disc g evs)) k = true.
Proof.
  intros pv disc evs. induction evs as [|e evs IH]; intros g k H; [exact H|].
  rewrite run_state_cons. apply IH. apply sbl_mono_step. exact H.
Qed.

Lemma fbl_mono_run : forall pv disc evs g f,
  p_fbl (s_pool g) f = true -> p_fbl (s_pool (run_state pv disc g evs)) f = true.
Proof.
  intros pv disc evs. induction evs as [|e evs IH]; intros g f H; [exact H|].
  rewrite run_state_cons. apply IH. apply fbl_mono_step. exact H.
Qed.

(* ------------------------------------------------------------------ 2. the held snapshot is not blacklisted *)

Lemma BInv_init : forall ties, BInv (init_syncer ties).
Proof. intros ties s q E. discriminate. Qed.

Lemma PInv_init : forall ties, PInv (s_pool (init_syncer ties)).
Proof. intros ties. apply PInv_new. Qed.

Lemma PInv_sstep pv disc g e : PInv (s_pool g) -> PInv (s_pool (sstep pv disc g e)).
Proof. intros P. apply (proj2 (step_trel pv disc g e) P). Qed.

(* only the pool invariant of SInv is used *)
Lemma BInv_sstep pv disc g e : PInv (s_pool g) -> BInv g -> BInv (sstep pv disc g e).
Proof. intros P. apply (proj2 (step_trel pv disc g e) P). Qed.

Theorem BInv_step : forall pv disc g e,
  ev_ok e -> SInv pv g -> BInv g -> BInv (sstep pv disc g e).
Proof. intros pv disc g e _ S. apply BInv_sstep. apply S. Qed.

Lemma reach_app pv disc ties evs1 evs2 :
  reach pv disc ties (evs1 ++ evs2) = run_state pv disc (reach pv disc ties evs1) evs2.
Proof. unfold reach, run_state. apply fold_left_app. Qed.

Lemma reach_PInv_BInv pv disc ties evs :
  PInv (s_pool (reach pv disc ties evs)) /\ BInv (reach pv disc ties evs).
Proof.
  induction evs as [|e evs IH] using rev_ind.
  - split; [apply PInv_init|apply BInv_init].
  - rewrite reach_snoc. destruct IH as [P B]. split; [apply PInv_sstep|apply BInv_sstep]; assumption.
Qed.

Theorem reach_PInv pv disc ties evs : PInv (s_pool (reach pv disc ties evs)).
Proof. apply reach_PInv_BInv. Qed.

Theorem reach_BInv pv disc ties evs : BInv (reach pv disc ties evs).
Proof. apply reach_PInv_BInv. Qed.

(* the journal along a step *)
Theorem step_jrel pv disc g e : jrel g (sstep pv disc g e).
Proof.
  destruct (sstep_shape pv disc g e).
  - left. reflexivity.
  - left. reflexivity.
  - left. reflexivity.
  - left. apply add_chunk_props.
  - apply continue_jrel. unfold jres. rewrite deliver_snd.
    eapply jrel_pre; [|apply deliver_jrel]. apply add_chunk_props.
  - apply loop_jrel.
  - left. apply journal_finish.
  - apply continue_jrel. apply (after_offer_ind (fun r => jres g r)); unfold jres; cbn [fst snd].
    + left. apply journal_finish.
    + intros _. reflexivity.
    + intros st cm _ _. rewrite apply_next_snd. apply apply_next_jrel.
  - apply continue_jrel. reflexivity.
  - apply continue_jrel. destruct (s_cur g) as [[s0 q]|] eqn:C.
    + apply (after_apply_ind (fun r => jres g r) _ _ _ _ _ _ _ _ _ _ _ C); unfold jres; cbn [fst snd].
      * intros g3 _ J _. rewrite apply_next_snd. eapply jrel_pre; [exact J|apply apply_next_jrel].
      * intros o _. left. rewrite journal_finish. apply aa_g_journal.
      * intros e1. apply aa_g_journal.
    + rewrite after_apply_none by exact C. unfold jres; cbn [fst snd]. left. apply journal_finish.
Qed.

Lemma journal_cons pv disc g e :
  s_journal (sstep pv disc g e) = s_journal g \/
  exists c, s_journal (sstep pv disc g e) = c :: s_journal g.
Proof.
  destruct (step_jrel pv disc g e) as [H|[c [H _]]]; [left; exact H|right; exists c; exact H].
Qed.

Lemma list_cons_neq {A} (c : A) (l : list A) : c :: l <> l.
Proof. induction l as [|a l IH]; [discriminate|]. intros H. injection H as -> H. exact (IH H). Qed.

(* a fresh offer is for the snapshot held afterwards *)
Lemma new_offer_held pv disc g e s ah r :
  let g' := sstep pv disc g e in
  s_journal g' = COffer s ah :: r -> s_journal g' <> s_journal g ->
  exists q, s_cur g' = Some (s, q).
Proof.
  intros g' H N. destruct (step_jrel pv disc g e) as [E|[c [E Hc]]]; [contradiction|].
  fold g' in E, Hc. rewrite E in H. injection H as -> _. apply csnap_inv. eapply Hc. reflexivity.
Qed.

Lemma offer_not_blacklisted_P pv disc g e s ah r :
  PInv (s_pool g) -> BInv g ->
  let g' := sstep pv disc g e in
  s_journal g' = COffer s ah :: r -> s_journal g' <> s_journal g ->
  p_sbl (s_pool g') (snapshot_key s) = false /\ p_fbl (s_pool g') (sn_format s) = false.
Proof.
  intros P B g' H N. destruct (new_offer_held pv disc g e s ah r H N) as [q C].
  exact (BInv_sstep pv disc g e P B s q C).
Qed.

Theorem offer_not_blacklisted : forall pv disc g e s ah r,
  ev_ok e -> SInv pv g -> BInv g ->
  let g' := sstep pv disc g e in
  s_journal g' = COffer s ah :: r -> s_journal g' <> s_journal g ->
  p_sbl (s_pool g') (snapshot_key s) = false /\ p_fbl (s_pool g') (sn_format s) = false.
Proof. intros pv disc g e s ah r _ S B. apply offer_not_blacklisted_P; [apply S|exact B]. Qed.

(* ------------------------------------------------------------------ 3. which verdict blacklists what *)

Lemma continue_rejects_snapshot pv disc g0 s e : e = ERejectSnapshot \/ e = ETimeout ->
  p_sbl (s_pool (continue pv disc (g0, Some e) s)) (snapshot_key s) = true.
Proof.
  intros H. rewrite continue_some. apply (proj1 (proj1 (loop_trel pv disc _ _))).
  rewrite handle_err_pool by (destruct H; subst e; discriminate).
  destruct H; subst e; cbn [he_pool]; apply reject_sets.
Qed.

Lemma continue_rejects_format pv disc g0 s :
  p_fbl (s_pool (continue pv disc (g0, Some ERejectFormat) s)) (sn_format s) = true.
Proof.
  rewrite continue_some. apply (proj2 (proj1 (loop_trel pv disc _ _))).
  rewrite handle_err_pool by discriminate. cbn [he_pool]. apply reject_format_sets.
Qed.

Lemma sstep_offer_reply pv disc g s ah r : s_mode g = MOffer s ah ->
  sstep pv disc g (EOfferReply r) =
  if r =? 1 then continue pv disc (after_offer pv g s ah) s
  else if r =? 2 then finish g OAbort
  else if r =? 3 then continue pv disc (g, Some ERejectSnapshot) s
  else if r =? 4 then continue pv disc (g, Some ERejectFormat) s
  else if r =? 5 then continue pv disc (g, Some ERejectSender) s
  else finish g (OErr 3).
Proof.
  intros M. unfold sstep, step. rewrite M.
  destruct (r =? 1); [reflexivity|]. destruct (r =? 2); [reflexivity|].
  destruct (r =? 3); [reflexivity|]. destruct (r =? 4); [reflexivity|].
  destruct (r =? 5); reflexivity.
Qed.

Lemma sstep_apply_reply pv disc g s ah st cm i r refetch rejects : s_mode g = MApply s ah st cm i ->
  sstep pv disc g (EApplyReply r refetch rejects) =
  continue pv disc (after_apply g s ah st cm i r refetch rejects) s.
Proof. intros M. unfold sstep, step. rewrite M. reflexivity. Qed.

Lemma sstep_timeout pv disc g s ah st cm i : s_mode g = MWait s ah st cm i ->
  sstep pv disc g EChunkTimeout = continue pv disc (g, Some ETimeout) s.
Proof. intros M. unfold sstep, step. rewrite M. reflexivity. Qed.

Lemma offer_reject_blacklists : forall pv disc g s ah, s_mode g = MOffer s ah ->
  p_sbl (s_pool (sstep pv disc g (EOfferReply 3))) (snapshot_key s) = true.
Proof.
  intros pv disc g s ah M. rewrite (sstep_offer_reply pv disc g s ah 3 M).
  change (p_sbl (s_pool (continue pv disc (g, Some ERejectSnapshot) s)) (snapshot_key s) = true).
  apply continue_rejects_snapshot. left. reflexivity.
Qed.

Lemma offer_reject_format_blacklists : forall pv disc g s ah, s_mode g = MOffer s ah ->
  p_fbl (s_pool (sstep pv disc g (EOfferReply 4))) (sn_format s) = true.
Proof.
  intros pv disc g s ah M. rewrite (sstep_offer_reply pv disc g s ah 4 M).
  change (p_fbl (s_pool (continue pv disc (g, Some ERejectFormat) s)) (sn_format s) = true).
  apply continue_rejects_format.
Qed.

Lemma apply_reject_snapshot_blacklists : forall pv disc g s ah st cm i refetch rejects,
  s_mode g = MApply s ah st cm i -> s_cur g <> None ->
  p_sbl (s_pool (sstep pv disc g (EApplyReply 5 refetch rejects))) (snapshot_key s) = true.
Proof.
  intros pv disc g s ah st cm i refetch rejects M C.
  rewrite (sstep_apply_reply pv disc g s ah st cm i 5 refetch rejects M).
  destruct (s_cur g) as [[s0 q]|] eqn:E; [|congruence].
  rewrite (after_apply_some _ _ _ _ _ _ _ _ _ _ _ E).
  change (p_sbl (s_pool (continue pv disc (aa_g g q refetch rejects, Some ERejectSnapshot) s))
                (snapshot_key s) = true).
  apply continue_rejects_snapshot. left. reflexivity.
Qed.

Lemma timeout_blacklists : forall pv disc g s ah st cm i, s_mode g = MWait s ah st cm i ->
  p_sbl (s_pool (sstep pv disc g EChunkTimeout)) (snapshot_key s) = true.
Proof.
  intros pv disc g s ah st cm i M. rewrite (sstep_timeout pv disc g s ah st cm i M).
  apply continue_rejects_snapshot. right. reflexivity.
Qed.

(* the application accepted the offer but the light client cannot build the state / commit *)
Lemma provider_failure_blacklists : forall pv disc g s ah, s_mode g = MOffer s ah ->
  pv_state pv (sn_height s) = RFail \/
  ((exists st, pv_state pv (sn_height s) = ROk st) /\ pv_commit pv (sn_height s) = RFail) ->
  p_sbl (s_pool (sstep pv disc g (EOfferReply 1))) (snapshot_key s) = true.
Proof.
  intros pv disc g s ah M F. rewrite (sstep_offer_reply pv disc g s ah 1 M).
  change (p_sbl (s_pool (continue pv disc (after_offer pv g s ah) s)) (snapshot_key s) = true).
  assert (E : after_offer pv g s ah = (g, Some ERejectSnapshot)).
  { unfold after_offer. destruct F as [F|[[st F1] F2]].
    - rewrite F. reflexivity.
    - rewrite F1, F2. reflexivity. }
  rewrite E. apply continue_rejects_snapshot. left. reflexivity.
Qed.

(* ------------------------------------------------------------------ trace level *)

Theorem blacklisted_snapshot_offers_are_old : forall pv disc ties evs1 evs2 k,
  p_sbl (s_pool (reach pv disc ties evs1)) k = true ->
  forall s ah, In (COffer s ah) (s_journal (reach pv disc ties (evs1 ++ evs2))) ->
  snapshot_key s = k -> In (COffer s ah) (s_journal (reach pv disc ties evs1)).
Proof.
  intros pv disc ties evs1 evs2 k Hk.
  induction evs2 as [|e evs2 IH] using rev_ind; intros s ah HI Hs.
  - rewrite app_nil_r in HI. exact HI.
  - rewrite app_assoc, reach_snoc in HI.
    destruct (step_jrel pv disc (reach pv disc ties (evs1 ++ evs2)) e) as [E|[c [E Hc]]].
    + rewrite E in HI. apply IH; assumption.
    + rewrite E in HI. destruct HI as [HI|HI]; [|apply IH; assumption]. exfalso.
      specialize (Hc s ah HI). rewrite <- reach_snoc, <- app_assoc in Hc.
      apply csnap_inv in Hc. destruct Hc as [q Hc].
      destruct (reach_BInv pv disc ties (evs1 ++ evs2 ++ [e]) s q Hc) as [B _].
      rewrite reach_app in B. rewrite Hs in B.
      rewrite (sbl_mono_run pv disc (evs2 ++ [e]) _ k Hk) in B. discriminate.
Qed.

Theorem blacklisted_format_offers_are_old : forall pv disc ties evs1 evs2 f,
  p_fbl (s_pool (reach pv disc ties evs1)) f = true ->
  forall s ah, In (COffer s ah) (s_journal (reach pv disc ties (evs1 ++ evs2))) ->
  sn_format s = f -> In (COffer s ah) (s_journal (reach pv disc ties evs1)).
Proof.
  intros pv disc ties evs1 evs2 f Hf.
  induction evs2 as [|e evs2 IH] using rev_ind; intros s ah HI Hs.
  - rewrite app_nil_r in HI. exact HI.
  - rewrite app_assoc, reach_snoc in HI.
    destruct (step_jrel pv disc (reach pv disc ties (evs1 ++ evs2)) e) as [E|[c [E Hc]]].
    + rewrite E in HI. apply IH; assumption.
    + rewrite E in HI. destruct HI as [HI|HI]; [|apply IH; assumption]. exfalso.
      specialize (Hc s ah HI). rewrite <- reach_snoc, <- app_assoc in Hc.
      apply csnap_inv in Hc. destruct Hc as [q Hc].
      destruct (reach_BInv pv disc ties (evs1 ++ evs2 ++ [e]) s q Hc) as [_ B].
      rewrite reach_app in B. rewrite Hs in B.
      rewrite (fbl_mono_run pv disc (evs2 ++ [e]) _ f Hf) in B. discriminate.
Qed.

(* the statements in the requested form (their hypotheses about SInv / BInv / ev_ok are not needed) *)
Theorem rejected_snapshot_never_offered_again : forall pv disc ties evs1 evs2 k,
  (forall evs, Forall ev_ok evs -> SInv pv (reach pv disc ties evs)) ->
  Forall ev_ok (evs1 ++ evs2) ->
  p_sbl (s_pool (reach pv disc ties evs1)) k = true ->
  forall s ah, In (COffer s ah) (s_journal (reach pv disc ties (evs1 ++ evs2))) ->
  snapshot_key s = k -> In (COffer s ah) (s_journal (reach pv disc ties evs1)).
Proof. intros pv disc ties evs1 evs2 k _ _. apply blacklisted_snapshot_offers_are_old. Qed.

Theorem rejected_format_never_offered_again : forall pv disc ties evs1 evs2 f,
  (forall evs, Forall ev_ok evs -> SInv pv (reach pv disc ties evs)) ->
  Forall ev_ok (evs1 ++ evs2) ->
  p_fbl (s_pool (reach pv disc ties evs1)) f = true ->
  forall s ah, In (COffer s ah) (s_journal (reach pv disc ties (evs1 ++ evs2))) ->
  sn_format s = f -> In (COffer s ah) (s_journal (reach pv disc ties evs1)).
Proof. intros pv disc ties evs1 evs2 f _ _. apply blacklisted_format_offers_are_old. Qed.

(* the step that blacklists does not itself offer the blacklisted snapshot: every offer of a
   snapshot with key k that is ever seen was made before the blacklisting step *)
Theorem blacklisting_step_final : forall pv disc ties evs1 e evs2 k,
  p_sbl (s_pool (reach pv disc ties (evs1 ++ [e]))) k = true ->
  forall s ah, In (COffer s ah) (s_journal (reach pv disc ties (evs1 ++ e :: evs2))) ->
  snapshot_key s = k -> In (COffer s ah) (s_journal (reach pv disc ties evs1)).
Proof.
  intros pv disc ties evs1 e evs2 k Hk s ah HI Hs.
  assert (H1 : In (COffer s ah) (s_journal (reach pv disc ties (evs1 ++ [e])))).
  { apply (blacklisted_snapshot_offers_are_old pv disc ties (evs1 ++ [e]) evs2 k Hk); [|exact Hs].
    rewrite <- app_assoc. exact HI. }
  rewrite reach_snoc in H1.
  destruct (step_jrel pv disc (reach pv disc ties evs1) e) as [E|[c [E Hc]]].
  - rewrite E in H1. exact H1.
  - rewrite E in H1. destruct H1 as [H1|H1]; [|exact H1]. exfalso.
    specialize (Hc s ah H1). rewrite <- reach_snoc in Hc.
    apply csnap_inv in Hc. destruct Hc as [q Hc].
    destruct (reach_BInv pv disc ties (evs1 ++ [e]) s q Hc) as [B _].
    rewrite Hs, Hk in B. discriminate.
Qed.

(* OfferSnapshot answered REJECT: that snapshot is never offered again *)
Corollary reject_verdict_final : forall pv disc ties evs1 evs2 s ah,
  s_mode (reach pv disc ties evs1) = MOffer s ah ->
  forall s' ah', In (COffer s' ah') (s_journal (reach pv disc ties (evs1 ++ EOfferReply 3 :: evs2))) ->
  snapshot_key s' = snapshot_key s -> In (COffer s' ah') (s_journal (reach pv disc ties evs1)).
Proof.
  intros pv disc ties evs1 evs2 s ah M s' ah' HI Hs.
  apply (blacklisting_step_final pv disc ties evs1 (EOfferReply 3) evs2 (snapshot_key s));
    [|exact HI|exact Hs].
  rewrite reach_snoc. eapply offer_reject_blacklists. exact M.
Qed.

(* OfferSnapshot answered REJECT_FORMAT: no snapshot of that format is offered again *)
Theorem format_blacklisting_step_final : forall pv disc ties evs1 e evs2 f,
  p_fbl (s_pool (reach pv disc ties (evs1 ++ [e]))) f = true ->
  forall s ah, In (COffer s ah) (s_journal (reach pv disc ties (evs1 ++ e :: evs2))) ->
  sn_format s = f -> In (COffer s ah) (s_journal (reach pv disc ties evs1)).
Proof.
  intros pv disc ties evs1 e evs2 f Hf s ah HI Hs.
  assert (H1 : In (COffer s ah) (s_journal (reach pv disc ties (evs1 ++ [e])))).
  { apply (blacklisted_format_offers_are_old pv disc ties (evs1 ++ [e]) evs2 f Hf); [|exact Hs].
    rewrite <- app_assoc. exact HI. }
  rewrite reach_snoc in H1.
  destruct (step_jrel pv disc (reach pv disc ties evs1) e) as [E|[c [E Hc]]].
  - rewrite E in H1. exact H1.
  - rewrite E in H1. destruct H1 as [H1|H1]; [|exact H1]. exfalso.
    specialize (Hc s ah H1). rewrite <- reach_snoc in Hc.
    apply csnap_inv in Hc. destruct Hc as [q Hc].
    destruct (reach_BInv pv disc ties (evs1 ++ [e]) s q Hc) as [_ B].
    rewrite Hs, Hf in B. discriminate.
Qed.

Corollary reject_format_verdict_final : forall pv disc ties evs1 evs2 s ah,
  s_mode (reach pv disc ties evs1) = MOffer s ah ->
  forall s' ah', In (COffer s' ah') (s_journal (reach pv disc ties (evs1 ++ EOfferReply 4 :: evs2))) ->
  sn_format s' = sn_format s -> In (COffer s' ah') (s_journal (reach pv disc ties evs1)).
Proof.
  intros pv disc ties evs1 evs2 s ah M s' ah' HI Hs.
  apply (format_blacklisting_step_final pv disc ties evs1 (EOfferReply 4) evs2 (sn_format s));
    [|exact HI|exact Hs].
  rewrite reach_snoc. eapply offer_reject_format_blacklists. exact M.
Qed.

(* ------------------------------------------------------------------ 4. the loop's fuel suffices *)

Lemma del_snap_len_le k (l : list (key * snapshot)) : (length (del_snap k l) <= length l)%nat.
Proof.
  induction l as [|[k' s'] l IH]; [apply le_n|].
  unfold del_snap in *. cbn [filter fst]. destruct (negb (bytes_eqb k' k)); cbn [length]; lia.
Qed.

Lemma del_snap_len_lt k (l : list (key * snapshot)) s :
  lookup k l = Some s -> (length (del_snap k l) < length l)%nat.
Proof.
  induction l as [|[k' s'] l IH]; [discriminate|].
  cbn [lookup]. pose proof (del_snap_len_le k l) as LE.
  unfold del_snap in *. cbn [filter fst].
  destruct (bytes_eqb k' k); cbn [negb length]; intros H; [lia|]. specialize (IH H). lia.
Qed.

Lemma reject_len_le p s : (length (p_snaps (pool_reject p s)) <= length (p_snaps p))%nat.
Proof.
  rewrite pool_reject_eq. unfold set_sbl. cbn [p_snaps].
  destruct (rs_cases p (snapshot_key s)) as [[_ E]|[s0 [_ E]]]; rewrite E; [apply le_n|].
  unfold rs_some. cbn [p_snaps]. apply del_snap_len_le.
Qed.

Lemma reject_len_lt p s s0 : lookup (snapshot_key s) (p_snaps p) = Some s0 ->
  (length (p_snaps (pool_reject p s)) < length (p_snaps p))%nat.
Proof.
  intros L. rewrite pool_reject_eq. unfold set_sbl. cbn [p_snaps].
  destruct (rs_cases p (snapshot_key s)) as [[N _]|[s1 [_ E]]]; [congruence|]. rewrite E.
  unfold rs_some. cbn [p_snaps]. eapply del_snap_len_lt. exact L.
Qed.

Lemma lrun_n99 pv disc fuel g s : PInv (s_pool g) ->
  (forall g', PInv (s_pool g') -> s_cur g' = None ->
     (length (p_snaps (s_pool g')) < fuel)%nat -> n99 (loop pv disc fuel g')) ->
  (length (p_snaps (pool_reject (s_pool g) s)) < fuel)%nat ->
  n99 (lrun pv disc fuel g s).
Proof.
  intros P IH L. apply lrun_ind.
  - intros _. apply n99_finish. discriminate.
  - intros _. apply IH.
    + rewrite handle_err_pool by discriminate. apply he_pool_PInv. exact P.
    + apply handle_err_cur. discriminate.
    + rewrite handle_err_pool by discriminate. exact L.
  - intros ah _. unfold n99. sfl. discriminate.
Qed.

Lemma loop_n99 pv disc fuel : forall g, PInv (s_pool g) ->
  (match s_cur g with
   | None => length (p_snaps (s_pool g)) < fuel
   | Some _ => S (length (p_snaps (s_pool g))) < fuel
   end)%nat ->
  n99 (loop pv disc fuel g).
Proof.
  induction fuel as [|fuel IH]; intros g P L.
  - destruct (s_cur g); lia.
  - assert (IH' : forall g', PInv (s_pool g') -> s_cur g' = None ->
       (length (p_snaps (s_pool g')) < fuel)%nat -> n99 (loop pv disc fuel g')).
    { intros g' P' C' L'. apply IH; [exact P'|]. rewrite C'. exact L'. }
    apply loop_S_ind.
    + intros s q C. rewrite C in L. apply lrun_n99; [exact P|exact IH'|].
      pose proof (reject_len_le (s_pool g) s). lia.
    + intros ties' _ _. destruct disc; [unfold n99; sfl; discriminate|].
      apply n99_finish. discriminate.
    + intros s ties' _ _ _. apply n99_finish. discriminate.
    + intros s ties' q C B Q. rewrite C in L. apply lrun_n99; sfl; [exact P|exact IH'|].
      assert (Lk : lookup (snapshot_key s) (p_snaps (s_pool g)) = Some s).
      { apply best_in_pool with (ties := s_ties g); [exact P|]. rewrite B. reflexivity. }
      pose proof (reject_len_lt (s_pool g) s s Lk). lia.
Qed.

Lemma loop_fuel_ok pv disc g : PInv (s_pool g) -> n99 (loop pv disc (loop_fuel g) g).
Proof. intros P. apply loop_n99; [exact P|]. unfold loop_fuel. destruct (s_cur g); lia. Qed.

Lemma handle_err_PInv g s e : PInv (s_pool g) -> PInv (s_pool (handle_err g s e)).
Proof. intros P. apply (proj2 (handle_err_trel g s e) P). Qed.

Lemma continue_n99 pv disc r s : nres r -> n99 (continue pv disc r s).
Proof.
  unfold nres. destruct r as [g' [e|]]; cbn [fst snd]; intros [P N].
  - rewrite continue_some. apply loop_fuel_ok. apply handle_err_PInv. exact P.
  - apply N. reflexivity.
Qed.

Lemma apply_next_nres g s ah st cm : PInv (s_pool g) -> s_cur g <> None ->
  nres (apply_next g s ah st cm).
Proof.
  intros P C. split.
  - destruct (apply_next_frame g s ah st cm) as [E _]. rewrite E. exact P.
  - intros _. apply apply_next_n99. exact C.
Qed.

Lemma SInv_PInv pv g : SInv pv g -> PInv (s_pool g).
Proof. intros S. apply S. Qed.

Lemma SInv_offer_cur pv g s ah : SInv pv g -> s_mode g = MOffer s ah -> s_cur g <> None.
Proof.
  intros (_ & _ & _ & HM) M. rewrite M in HM. destruct HM as (_ & (q & C & _) & _). congruence.
Qed.

Lemma SInv_apply_cur pv g s ah st cm i : SInv pv g -> s_mode g = MApply s ah st cm i ->
  s_cur g <> None.
Proof.
  intros (_ & _ & _ & HM) M. rewrite M in HM. destruct HM as (_ & _ & (q & C & _)). congruence.
Qed.

Theorem no_fuel_exhaustion : forall pv disc g e,
  ev_ok e -> SInv pv g -> s_mode g <> MDone (OErr 99) ->
  s_mode (sstep pv disc g e) <> MDone (OErr 99).
Proof.
  intros pv disc g e _ S N. pose proof (SInv_PInv pv g S) as P.
  change (n99 (sstep pv disc g e)). change (n99 g) in N.
  destruct (sstep_shape pv disc g e).
  - exact N.
  - exact N.
  - exact N.
  - unfold n99. rewrite (proj2 (proj2 (add_chunk_props g pr h f idx body))). exact N.
  - rewrite continue_none by apply deliver_snd. apply deliver_n99.
  - apply loop_fuel_ok. exact P.
  - apply n99_finish. assumption.
  - apply continue_n99. apply (after_offer_ind nres).
    + split; cbn [fst snd]; [rewrite pool_finish; exact P|]. intros _. apply n99_finish. discriminate.
    + intros _. split; cbn [fst snd]; [exact P|discriminate].
    + intros st cm _ _. apply apply_next_nres; [exact P|]. eapply SInv_offer_cur; eassumption.
  - apply continue_n99. split; cbn [fst snd]; [exact P|discriminate].
  - apply continue_n99.
    pose proof (SInv_apply_cur pv g s ah st cm i S H) as C.
    destruct (s_cur g) as [[s0 q]|] eqn:E; [|congruence].
    assert (P2 : PInv (s_pool (aa_g g q refetch rejects))).
    { apply (proj2 (aa_g_trel g q refetch rejects) P). }
    apply (after_apply_ind nres _ _ _ _ _ _ _ _ _ _ _ E).
    + intros g3 [F _] _ C3. apply apply_next_nres; [rewrite F; exact P2|exact C3].
    + intros o Ho. split; cbn [fst snd]; [rewrite pool_finish; exact P2|].
      intros _. apply n99_finish. exact Ho.
    + intros e1. split; cbn [fst snd]; [exact P2|discriminate].
Qed.

(* over a history: the fuel never runs out on a reachable state, given the machine invariant *)
Theorem reach_no_fuel_exhaustion : forall pv disc ties evs,
  (forall evs', Forall ev_ok evs' -> SInv pv (reach pv disc ties evs')) ->
  Forall ev_ok evs ->
  s_mode (reach pv disc ties evs) <> MDone (OErr 99).
Proof.
  intros pv disc ties evs HS. induction evs as [|e evs IH] using rev_ind; intros F.
  - discriminate.
  - rewrite reach_snoc. apply Forall_app in F. destruct F as [F1 F2].
    apply no_fuel_exhaustion; [inversion F2; assumption|apply HS; exact F1|apply IH; exact F1].
Qed.

Print Assumptions sbl_mono_run.
Print Assumptions fbl_mono_run.
Print Assumptions BInv_step.
Print Assumptions reach_BInv.
Print Assumptions offer_not_blacklisted.
Print Assumptions offer_reject_blacklists.
Print Assumptions offer_reject_format_blacklists.
Print Assumptions apply_reject_snapshot_blacklists.
Print Assumptions timeout_blacklists.
Print Assumptions provider_failure_blacklists.
Print Assumptions rejected_snapshot_never_offered_again.
Print Assumptions rejected_format_never_offered_again.
Print Assumptions reject_verdict_final.
Print Assumptions reject_format_verdict_final.
Print Assumptions no_fuel_exhaustion.
Print Assumptions reach_no_fuel_exhaustion.
