(* C14 — what the bootstrapped state has to be.  Written from the property and from what
   state.Store.Bootstrap / the block executor expect of a state "after block h", NOT from
   stateprovider.go: this file uses the records of Model.v (lightblock, sstate, res) and nothing
   of its transcriptions (lc_state, lc_apphash, lc_commit, lrpc_params).  NO proofs here; the
   relation to the model of State() is proved in PSpec.v and stated in Props.v; Exec.v evaluates
   [spec_state_b] on the answers of the real lightClientStateProvider (clause 17).

   [lc z] = what the light client vouches for at height z.  Heights are int64 in the light client
   and it refuses z <= 0, so a block is vouched for only at 0 < z < 2^63.

   The state after block h (snapshot height h), field by field:
     from the configuration      InitialHeight (0 means 1)
     from the verified block h   LastBlockHeight = h, LastBlockTime = its time, LastBlockID = the
                                 block id its commit signs, LastValidators = its validator set
                                 (the set that signed block h)
     from the verified block h+1 Version.Consensus (Block, App: the versions block h+1 is made
                                 with), AppHash and LastResultsHash (the results of executing
                                 block h, which only header h+1 commits to), Validators = its
                                 validator set, ConsensusParams = the params header h+1 commits
                                 to (ConsensusHash), LastHeightConsensusParamsChanged = h+1
                                 (Bootstrap stores the full params under h+1)
     from the verified block h+2 NextValidators = its validator set (an update returned by block
                                 h takes effect at h+2), LastHeightValidatorsChanged = h+2
                                 (Bootstrap stores the full next set under h+2)
   Consensus params are identified by types.HashConsensusParams (what a header commits to). *)
From Coq Require Import String List ZArith NArith Bool.
From TM Require Import Common.Hex C14.Model.
Import ListNotations.
Open Scope Z_scope.

Definition vouched (lc : Z -> res lightblock) (z : Z) (b : lightblock) : Prop :=
  0 < z < 2 ^ 63 /\ lc z = ROk b.

(* what is assumed of the light client (its own correctness is C09): it answers only for positive
   heights, with a block of the height asked for *)
Definition light_client_ok (lc : Z -> res lightblock) : Prop :=
  forall z b, lc z = ROk b -> 0 < z /\ lb_height b = z.

(* an RPC server that labels its consensus_params answers with the height it was asked for
   (Model.lrpc_params: the label is what light/rpc verifies the params against) *)
Definition honest_labels (rpc : Z -> option (Z * bytes)) : Prop :=
  forall req label ph, rpc req = Some (label, ph) -> label = req.

Definition state_spec (lc : Z -> res lightblock) (initial h : Z) (st : sstate) : Prop :=
  exists last cur next,
    vouched lc h last /\ vouched lc (h + 1) cur /\ vouched lc (h + 2) next /\
    st_initial st = (if initial =? 0 then 1 else initial) /\
    (* block h *)
    st_last_height st = h /\ st_last_time st = lb_time last /\
    st_last_blockid st = lb_blockid last /\ st_lastvals st = lb_vals last /\
    (* block h+1 *)
    st_vblock st = lb_vblock cur /\ st_vapp st = lb_vapp cur /\
    st_apphash st = lb_apphash cur /\ st_results st = lb_results cur /\
    st_vals st = lb_vals cur /\
    st_params st = lb_conshash cur /\ st_lhcpc st = h + 1 /\
    (* block h+2 *)
    st_nextvals st = lb_vals next /\ st_lhvc st = h + 2.

(* the app hash offered to / demanded of the application for a snapshot of height h: the one
   header h+1 commits to;  the commit handed to the node: the one of block h *)
Definition apphash_spec (lc : Z -> res lightblock) (h : Z) (ah : bytes) : Prop :=
  exists cur, vouched lc (h + 1) cur /\ ah = lb_apphash cur.
Definition commit_spec (lc : Z -> res lightblock) (h : Z) (cm : commit) : Prop :=
  exists last, vouched lc h last /\ cm = lb_commit last.

(* verifyApp: the node may start only if the application reports EXACTLY the trusted app hash
   (byte for byte, the empty hash included: only an empty report matches an empty trusted hash),
   the snapshot height (as the int64 it is reported in) and the app version of the state *)
Definition app_agrees (snap_height : Z) (trusted_hash : bytes) (st : sstate)
                      (appv : Z) (hash : bytes) (height : Z) : Prop :=
  appv = st_vapp st /\ hash = trusted_hash /\ height = snap_height.

(* ---- the same, decided (Exec.v runs these on the implementation's answers) ---- *)

Definition in_range (z : Z) : bool := (0 <? z) && (z <? 2 ^ 63).

Definition spec_state_b (lc : Z -> res lightblock) (initial h : Z) (st : sstate) : bool :=
  in_range h && in_range (h + 1) && in_range (h + 2) &&
  match lc h, lc (h + 1), lc (h + 2) with
  | ROk last, ROk cur, ROk next =>
    (st_initial st =? (if initial =? 0 then 1 else initial))
    && (st_last_height st =? h) && (st_last_time st =? lb_time last)
    && bytes_eqb (st_last_blockid st) (lb_blockid last) && bytes_eqb (st_lastvals st) (lb_vals last)
    && (st_vblock st =? lb_vblock cur) && (st_vapp st =? lb_vapp cur)
    && bytes_eqb (st_apphash st) (lb_apphash cur) && bytes_eqb (st_results st) (lb_results cur)
    && bytes_eqb (st_vals st) (lb_vals cur)
    && bytes_eqb (st_params st) (lb_conshash cur) && (st_lhcpc st =? h + 1)
    && bytes_eqb (st_nextvals st) (lb_vals next) && (st_lhvc st =? h + 2)
  | _, _, _ => false
  end.

Definition spec_apphash_b (lc : Z -> res lightblock) (h : Z) (ah : bytes) : bool :=
  in_range (h + 1) && match lc (h + 1) with ROk cur => bytes_eqb ah (lb_apphash cur) | _ => false end.
Definition spec_commit_b (lc : Z -> res lightblock) (h : Z) (cm : commit) : bool :=
  in_range h && match lc h with ROk last => bytes_eqb cm (lb_commit last) | _ => false end.

Definition app_agrees_b (snap_height : Z) (trusted_hash : bytes) (st : sstate)
                        (appv : Z) (hash : bytes) (height : Z) : bool :=
  (appv =? st_vapp st) && bytes_eqb hash trusted_hash && (height =? snap_height).
