(* C14 — what the bootstrapped state has to be.  Written from the property and from what
   state.Store.Bootstrap / the block executor expect of a state "after block h", NOT from
   stateprovider.go / state/store.go: this file uses the records of Model.v (lightblock, sstate,
   res, lookups) and nothing
   of its transcriptions (lc_state, lc_apphash, lc_commit, lrpc_params, store_bootstrap, store_save,
   load_validators, load_params).  NO proofs here; the
   relation to the model of State() is proved in PSpec.v and stated in Props.v; Exec.v evaluates
   [spec_state_b] on the answers of the real lightClientStateProvider (clause 17).

   [lc z] = what the light client vouches for at height z.  Heights are int64 in the light client
   and it refuses z <= 0, so a block is vouched for only at 0 < z < 2^63.

   The state after block h (snapshot height h), field by field:
     from the configuration      InitialHeight (0 means 1)
     from the verified block h   LastBlockHeight = h, LastBlockTime = its time, LastBlockID = the
                                 block id its commit signs, LastValidators = its validator set
                                 (the set that signed block h)
     from the verified block h+1 Version.Consensus (Block, App: the versions block h+1 is made
                                 with), AppHash and LastResultsHash (the results of executing
                                 block h, which only header h+1 commits to), Validators = its
                                 validator set, ConsensusParams = the params header h+1 commits
                                 to (ConsensusHash), LastHeightConsensusParamsChanged = h+1
                                 (Bootstrap stores the full params under h+1)
     from the verified block h+2 NextValidators = its validator set (an update returned by block
                                 h takes effect at h+2), LastHeightValidatorsChanged = h+2
                                 (Bootstrap stores the full next set under h+2)
   Consensus params are identified by types.HashConsensusParams (what a header commits to). *)
From Coq Require Import String List ZArith NArith Bool.
From TM Require Import Common.Hex C14.Model.
Import ListNotations.
Open Scope Z_scope.

Definition vouched (lc : Z -> res lightblock) (z : Z) (b : lightblock) : Prop :=
  0 < z < 2 ^ 63 /\ lc z = ROk b.

(* what is assumed of the light client (its own correctness is C09): it answers only for positive
   heights, with a block of the height asked for *)
Definition light_client_ok (lc : Z -> res lightblock) : Prop :=
  forall z b, lc z = ROk b -> 0 < z /\ lb_height b = z.

(* an RPC server that labels its consensus_params answers with the height it was asked for
   (Model.lrpc_params: the label is what light/rpc verifies the params against) *)
Definition honest_labels (rpc : Z -> option (Z * bytes)) : Prop :=
  forall req label ph, rpc req = Some (label, ph) -> label = req.

Definition state_spec (lc : Z -> res lightblock) (initial h : Z) (st : sstate) : Prop :=
  exists last cur next,
    vouched lc h last /\ vouched lc (h + 1) cur /\ vouched lc (h + 2) next /\
    st_initial st = (if initial =? 0 then 1 else initial) /\
    (* block h *)
    st_last_height st = h /\ st_last_time st = lb_time last /\
    st_last_blockid st = lb_blockid last /\ st_lastvals st = lb_vals last /\
    (* block h+1 *)
    st_vblock st = lb_vblock cur /\ st_vapp st = lb_vapp cur /\
    st_apphash st = lb_apphash cur /\ st_results st = lb_results cur /\
    st_vals st = lb_vals cur /\
    st_params st = lb_conshash cur /\ st_lhcpc st = h + 1 /\
    (* block h+2 *)
    st_nextvals st = lb_vals next /\ st_lhvc st = h + 2.

(* the app hash offered to / demanded of the application for a snapshot of height h: the one
   header h+1 commits to;  the commit handed to the node: the one of block h *)
Definition apphash_spec (lc : Z -> res lightblock) (h : Z) (ah : bytes) : Prop :=
  exists cur, vouched lc (h + 1) cur /\ ah = lb_apphash cur.
Definition commit_spec (lc : Z -> res lightblock) (h : Z) (cm : commit) : Prop :=
  exists last, vouched lc h last /\ cm = lb_commit last.

(* verifyApp: the node may start only if the application reports EXACTLY the trusted app hash
   (byte for byte, the empty hash included: only an empty report matches an empty trusted hash),
   the snapshot height (as the int64 it is reported in) and the app version of the state *)
Definition app_agrees (snap_height : Z) (trusted_hash : bytes) (st : sstate)
                      (appv : Z) (hash : bytes) (height : Z) : Prop :=
  appv = st_vapp st /\ hash = trusted_hash /\ height = snap_height.

(* ---- what the node's stores have to answer after startStateSync bootstrapped them ----

   node.startStateSync hands the state and commit SyncAny returned to stateStore.Bootstrap and
   blockStore.SaveSeenCommit; from then on the node (consensus, evidence verification, RPC
   /validators, light-block serving, rollback) reads validator sets and params by HEIGHT.  What
   these lookups have to return is the chain's, i.e. what the light client vouches for at that
   height - written here against the lookups only ([lookups] is a record of four functions),
   not against state/store.go. *)

Definition chain_vals (lc : Z -> res lightblock) (z : Z) : bytes :=
  match lc z with ROk b => lb_vals b | _ => [] end.
Definition chain_params (lc : Z -> res lightblock) (z : Z) : bytes :=
  match lc z with ROk b => lb_conshash b | _ => [] end.

(* right after Bootstrap(state) and SaveSeenCommit(h, commit) for a snapshot of height h *)
Definition bootstrapped_store_spec (lc : Z -> res lightblock) (h : Z) (st : sstate) (lk : lookups) : Prop :=
  (* every validator lookup in [h, h+2] returns the vouched set of THAT height *)
  (forall z, h <= z <= h + 2 -> exists b, vouched lc z b /\ lk_vals lk z = Some (lb_vals b)) /\
  (* the params the first block after the snapshot is validated with *)
  (exists cur, vouched lc (h + 1) cur /\ lk_params lk (h + 1) = Some (Some (lb_conshash cur))) /\
  (* the state record is the bootstrapped state *)
  lk_state lk = Some st /\
  (* the seen commit of the snapshot height is the vouched commit of block h *)
  (exists last, vouched lc h last /\ lk_seen lk h = Some (lb_commit last)).

(* a successor state as the block executor (updateState) derives it from [prev] by a block whose
   effects are the chain's: the sets shift by one, the new NextValidators are those the chain has
   at t+3, LastHeightValidatorsChanged moves to t+3 when block t+1 changed the set and stays
   otherwise (then the chain's sets at t+2 and t+3 are equal); params alike one height earlier *)
Definition follows_chain (lc : Z -> res lightblock) (prev next : sstate) : Prop :=
  let t := st_last_height prev in
  st_last_height next = t + 1 /\
  st_lastvals next = st_vals prev /\ st_vals next = st_nextvals prev /\
  st_nextvals next = chain_vals lc (t + 3) /\
  (st_lhvc next = t + 3 \/
   (st_lhvc next = st_lhvc prev /\ chain_vals lc (t + 3) = chain_vals lc (t + 2))) /\
  st_params next = chain_params lc (t + 2) /\
  (st_lhcpc next = t + 2 \/
   (st_lhcpc next = st_lhcpc prev /\ chain_params lc (t + 2) = chain_params lc (t + 1))).

Fixpoint follows_chain_all (lc : Z -> res lightblock) (prev : sstate) (succs : list sstate) : Prop :=
  match succs with
  | [] => True
  | t :: r => follows_chain lc prev t /\ follows_chain_all lc t r
  end.

(* after the states up to height t have been saved on top of the bootstrap at h: every validator
   lookup in [h, t+2] and every params lookup in [h+1, t+1] still returns the chain's value of that
   height (records that only point to the height of the last change resolve correctly, through
   the records Bootstrap wrote if need be) *)
Definition store_tracks_chain (lc : Z -> res lightblock) (h t : Z) (lk : lookups) : Prop :=
  (forall z, h <= z <= t + 2 -> lk_vals lk z = Some (chain_vals lc z)) /\
  (forall z, h + 1 <= z <= t + 1 -> lk_params lk z = Some (Some (chain_params lc z))).

(* ---- the same, decided (Exec.v runs these on the implementation's answers) ---- *)

Definition in_range (z : Z) : bool := (0 <? z) && (z <? 2 ^ 63).

Definition spec_state_b (lc : Z -> res lightblock) (initial h : Z) (st : sstate) : bool :=
  in_range h && in_range (h + 1) && in_range (h + 2) &&
  match lc h, lc (h + 1), lc (h + 2) with
  | ROk last, ROk cur, ROk next =>
    (st_initial st =? (if initial =? 0 then 1 else initial))
    && (st_last_height st =? h) && (st_last_time st =? lb_time last)
    && bytes_eqb (st_last_blockid st) (lb_blockid last) && bytes_eqb (st_lastvals st) (lb_vals last)
    && (st_vblock st =? lb_vblock cur) && (st_vapp st =? lb_vapp cur)
    && bytes_eqb (st_apphash st) (lb_apphash cur) && bytes_eqb (st_results st) (lb_results cur)
    && bytes_eqb (st_vals st) (lb_vals cur)
    && bytes_eqb (st_params st) (lb_conshash cur) && (st_lhcpc st =? h + 1)
    && bytes_eqb (st_nextvals st) (lb_vals next) && (st_lhvc st =? h + 2)
  | _, _, _ => false
  end.

Definition spec_apphash_b (lc : Z -> res lightblock) (h : Z) (ah : bytes) : bool :=
  in_range (h + 1) && match lc (h + 1) with ROk cur => bytes_eqb ah (lb_apphash cur) | _ => false end.
Definition spec_commit_b (lc : Z -> res lightblock) (h : Z) (cm : commit) : bool :=
  in_range h && match lc h with ROk last => bytes_eqb cm (lb_commit last) | _ => false end.

Definition app_agrees_b (snap_height : Z) (trusted_hash : bytes) (st : sstate)
                        (appv : Z) (hash : bytes) (height : Z) : bool :=
  (appv =? st_vapp st) && bytes_eqb hash trusted_hash && (height =? snap_height).

(* lookups *)
Definition obytes_eqb (a b : option bytes) : bool :=
  match a, b with Some x, Some y => bytes_eqb x y | None, None => true | _, _ => false end.

(* LoadValidators(z) answered [ans]: the vouched set of height z *)
Definition spec_vals_lookup_b (lc : Z -> res lightblock) (z : Z) (ans : option bytes) : bool :=
  in_range z && match lc z with ROk b => obytes_eqb ans (Some (lb_vals b)) | _ => false end.
(* LoadConsensusParams(z) answered [ans] *)
Definition spec_params_lookup_b (lc : Z -> res lightblock) (z : Z) (ans : option (option bytes)) : bool :=
  in_range z && match lc z, ans with ROk b, Some a => obytes_eqb a (Some (lb_conshash b)) | _, _ => false end.
(* LoadSeenCommit(z) answered [ans] *)
Definition spec_seen_lookup_b (lc : Z -> res lightblock) (z : Z) (ans : option commit) : bool :=
  in_range z && match lc z with ROk b => obytes_eqb ans (Some (lb_commit b)) | _ => false end.

Definition follows_chain_b (lc : Z -> res lightblock) (prev next : sstate) : bool :=
  let t := st_last_height prev in
  (st_last_height next =? t + 1)
  && bytes_eqb (st_lastvals next) (st_vals prev) && bytes_eqb (st_vals next) (st_nextvals prev)
  && bytes_eqb (st_nextvals next) (chain_vals lc (t + 3))
  && ((st_lhvc next =? t + 3)
      || ((st_lhvc next =? st_lhvc prev) && bytes_eqb (chain_vals lc (t + 3)) (chain_vals lc (t + 2))))
  && bytes_eqb (st_params next) (chain_params lc (t + 2))
  && ((st_lhcpc next =? t + 2)
      || ((st_lhcpc next =? st_lhcpc prev) && bytes_eqb (chain_params lc (t + 2)) (chain_params lc (t + 1)))).

Definition sstate_eqb (a b : sstate) : bool :=
  (st_initial a =? st_initial b) && (st_vblock a =? st_vblock b) && (st_vapp a =? st_vapp b)
  && (st_last_height a =? st_last_height b) && (st_last_time a =? st_last_time b)
  && bytes_eqb (st_last_blockid a) (st_last_blockid b)
  && bytes_eqb (st_apphash a) (st_apphash b) && bytes_eqb (st_results a) (st_results b)
  && bytes_eqb (st_lastvals a) (st_lastvals b) && bytes_eqb (st_vals a) (st_vals b)
  && bytes_eqb (st_nextvals a) (st_nextvals b) && (st_lhvc a =? st_lhvc b)
  && bytes_eqb (st_params a) (st_params b) && (st_lhcpc a =? st_lhcpc b).

Definition ostate_eqb (a : option sstate) (b : sstate) : bool :=
  match a with Some x => sstate_eqb x b | None => false end.

Fixpoint zrange (lo : Z) (n : nat) : list Z :=
  match n with O => [] | S k => lo :: zrange (lo + 1) k end.

(* bootstrapped_store_spec, decided on a record of lookups *)
Definition spec_boot_b (lc : Z -> res lightblock) (h : Z) (st : sstate) (lk : lookups) : bool :=
  forallb (fun z => spec_vals_lookup_b lc z (lk_vals lk z)) [h; h + 1; h + 2]
  && spec_params_lookup_b lc (h + 1) (lk_params lk (h + 1))
  && ostate_eqb (lk_state lk) st
  && spec_seen_lookup_b lc h (lk_seen lk h).

(* store_tracks_chain (with every height of the window vouched for), decided *)
Definition spec_tracks_b (lc : Z -> res lightblock) (h t : Z) (lk : lookups) : bool :=
  forallb (fun z => spec_vals_lookup_b lc z (lk_vals lk z)) (zrange h (Z.to_nat (t + 3 - h)))
  && forallb (fun z => spec_params_lookup_b lc z (lk_params lk z)) (zrange (h + 1) (Z.to_nat (t + 1 - h))).
