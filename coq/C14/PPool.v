(* C14 — proofs about the snapshot pool (statesync/snapshots.go as transcribed in C14/Model.v):
   the three blacklists are final over all operation sequences. *)
From Coq Require Import String List ZArith NArith Bool Lia.
From TM Require Import Common.Hex Generated.Consts C14.Model.
Import ListNotations. Open Scope Z_scope.

(* ------------------------------------------------------------------ generic helpers *)

Lemma pp_fold_inv {A B} (P : A -> Prop) (f : A -> B -> A) :
  (forall a b, P a -> P (f a b)) -> forall l a, P a -> P (fold_left f l a).
Proof. intros H l; induction l as [|b l IH]; intros a Ha; cbn [fold_left]; auto. Qed.

Lemma beq_neq a b : bytes_eqb a b = false <-> a <> b.
Proof.
  split.
  - intros E H. subst b. rewrite bytes_eqb_refl in E. discriminate.
  - intros H. destruct (bytes_eqb a b) eqn:E; [|reflexivity].
    apply bytes_eqb_eq in E. contradiction.
Qed.

Lemma beq_false a b : a <> b -> bytes_eqb a b = false.
Proof. apply beq_neq. Qed.

Lemma beq_sym a b : bytes_eqb a b = bytes_eqb b a.
Proof.
  destruct (bytes_eqb a b) eqn:E; symmetry.
  - apply bytes_eqb_eq in E. subst. apply bytes_eqb_refl.
  - apply beq_neq in E. apply beq_neq. congruence.
Qed.

Ltac beq a b :=
  let E := fresh "E" in
  destruct (bytes_eqb a b) eqn:E; [apply bytes_eqb_eq in E | apply beq_neq in E].

Ltac beqs :=
  repeat match goal with |- context [bytes_eqb ?a ?b] => beq a b end;
  cbn [negb andb orb]; try reflexivity; try congruence.

Ltac fields := cbn [p_snaps p_speers p_pidx p_fidx p_fbl p_pbl p_sbl].
Ltac fields_in H := cbn [p_snaps p_speers p_pidx p_fidx p_fbl p_pbl p_sbl] in H.

(* ---- lookup / del_snap *)

Lemma lookup_app k l1 l2 :
  lookup k (l1 ++ l2) = match lookup k l1 with Some s => Some s | None => lookup k l2 end.
Proof.
  induction l1 as [|[a s] l1 IH]; cbn [app lookup]; [reflexivity|].
  destruct (bytes_eqb a k); [reflexivity | exact IH].
Qed.

Lemma lookup_del k k' l :
  lookup k (del_snap k' l) = if bytes_eqb k k' then None else lookup k l.
Proof.
  unfold del_snap. induction l as [|[a s] l IH]; cbn [filter fst lookup].
  - destruct (bytes_eqb k k'); reflexivity.
  - beq a k'; cbn [negb].
    + rewrite IH. beq k k'; [reflexivity|]. beq a k; [congruence | reflexivity].
    + cbn [lookup]. rewrite IH. beq a k; [|reflexivity]. beq k k'; [congruence | reflexivity].
Qed.

Lemma lookup_del_same k l : lookup k (del_snap k l) = None.
Proof. rewrite lookup_del, bytes_eqb_refl. reflexivity. Qed.

Lemma lookup_del_sub k k' l s : lookup k (del_snap k' l) = Some s -> lookup k l = Some s.
Proof. rewrite lookup_del. destruct (bytes_eqb k k'); [discriminate | auto]. Qed.

Lemma In_del e k l : In e (del_snap k l) <-> In e l /\ fst e <> k.
Proof.
  unfold del_snap. rewrite filter_In. split; intros [H1 H2]; split; auto.
  - apply negb_true_iff in H2. apply beq_neq in H2. exact H2.
  - apply negb_true_iff. apply beq_neq. exact H2.
Qed.

Lemma lookup_In k l s : lookup k l = Some s -> In (k, s) l.
Proof.
  induction l as [|[a x] l IH]; cbn [lookup]; [discriminate|].
  beq a k.
  - intro H. injection H as ->. left. congruence.
  - intro H. right. auto.
Qed.

(* ---- mem_key / add_key / del_key *)

Lemma mem_key_app k l1 l2 : mem_key k (l1 ++ l2) = mem_key k l1 || mem_key k l2.
Proof.
  induction l1 as [|a l1 IH]; cbn [app mem_key]; [reflexivity|].
  rewrite IH, orb_assoc. reflexivity.
Qed.

Lemma mem_key_add k k' l : mem_key k (add_key k' l) = bytes_eqb k' k || mem_key k l.
Proof.
  unfold add_key. destruct (mem_key k' l) eqn:M.
  - beq k' k; cbn [orb]; [|reflexivity]. rewrite <- E. exact M.
  - rewrite mem_key_app. cbn [mem_key]. rewrite orb_false_r. apply orb_comm.
Qed.

Lemma mem_key_add_same k l : mem_key k (add_key k l) = true.
Proof. rewrite mem_key_add, bytes_eqb_refl. reflexivity. Qed.

Lemma mem_key_add_mono k k' l : mem_key k l = true -> mem_key k (add_key k' l) = true.
Proof. intro H. rewrite mem_key_add, H. apply orb_true_r. Qed.

Lemma mem_key_del k k' l : mem_key k (del_key k' l) = negb (bytes_eqb k k') && mem_key k l.
Proof.
  unfold del_key. induction l as [|a l IH]; cbn [filter mem_key].
  - rewrite andb_false_r. reflexivity.
  - beq a k'; cbn [negb].
    + rewrite IH. beq k k'; cbn [negb andb]; [reflexivity|].
      beq a k; [congruence | reflexivity].
    + cbn [mem_key]. rewrite IH. beq a k; cbn [orb]; [|reflexivity].
      beq k k'; [congruence | reflexivity].
Qed.

Lemma mem_key_del_sub k k' l : mem_key k (del_key k' l) = true -> mem_key k l = true.
Proof. rewrite mem_key_del. intro H. apply andb_true_iff in H. apply H. Qed.

Lemma mem_key_del_other k k' l : k <> k' -> mem_key k (del_key k' l) = mem_key k l.
Proof. intro H. rewrite mem_key_del, (beq_false _ _ H). reflexivity. Qed.

Lemma length_add_key k (l : list key) : (length (add_key k l) <= S (length l))%nat.
Proof.
  unfold add_key. destruct (mem_key k l); [lia|].
  rewrite app_length. cbn [length]. lia.
Qed.

Lemma length_del_key k (l : list key) : (length (del_key k l) <= length l)%nat.
Proof.
  unfold del_key. induction l as [|a l IH]; cbn [filter length]; [lia|].
  destruct (negb (bytes_eqb a k)); cbn [length]; lia.
Qed.

(* ---- mem_peer / add_peer / del_peer *)

Lemma mem_peer_add p q l : mem_peer p (add_peer q l) = (p =? q)%N || mem_peer p l.
Proof.
  induction l as [|x l IH]; cbn [add_peer mem_peer].
  - rewrite (N.eqb_sym q p). reflexivity.
  - destruct (N.eqb_spec q x) as [e|n].
    + subst x. cbn [mem_peer]. rewrite (N.eqb_sym q p).
      destruct (p =? q)%N; reflexivity.
    + destruct (q <? x)%N; cbn [mem_peer].
      * rewrite (N.eqb_sym q p). reflexivity.
      * rewrite IH. destruct (x =? p)%N, (p =? q)%N; reflexivity.
Qed.

Lemma mem_peer_del p q l : mem_peer p (del_peer q l) = negb (p =? q)%N && mem_peer p l.
Proof.
  unfold del_peer. induction l as [|x l IH]; cbn [filter mem_peer].
  - rewrite andb_false_r. reflexivity.
  - destruct (N.eqb_spec x q) as [e|n]; cbn [negb].
    + rewrite IH. subst x. rewrite (N.eqb_sym q p).
      destruct (p =? q)%N; reflexivity.
    + cbn [mem_peer]. rewrite IH.
      destruct (N.eqb_spec x p) as [e1|n1]; cbn [orb]; [|reflexivity].
      subst x. destruct (N.eqb_spec p q); [contradiction | reflexivity].
Qed.

Lemma mem_peer_del_same p l : mem_peer p (del_peer p l) = false.
Proof. rewrite mem_peer_del, N.eqb_refl. reflexivity. Qed.

Lemma mem_peer_del_sub p q l : mem_peer p (del_peer q l) = true -> mem_peer p l = true.
Proof. rewrite mem_peer_del. intro H. apply andb_true_iff in H. apply H. Qed.

Lemma mem_peer_In p l : mem_peer p l = true <-> In p l.
Proof.
  induction l as [|x l IH]; cbn [mem_peer In].
  - split; [discriminate | contradiction].
  - rewrite orb_true_iff, IH, N.eqb_eq. reflexivity.
Qed.

Lemma add_peer_not_nil p l : add_peer p l <> [].
Proof.
  destruct l as [|x l]; cbn [add_peer]; [discriminate|].
  destruct (p =? x)%N; [discriminate|]. destruct (p <? x)%N; discriminate.
Qed.

(* ------------------------------------------------------------------ operations and runs *)

Inductive pop :=
| PoAdd (pr : peer) (s : snapshot)
| PoReject (s : snapshot)
| PoRejectFormat (f : Z)
| PoRejectPeer (pr : peer)
| PoRemovePeer (pr : peer).

Definition pstep (p : pool) (o : pop) : pool :=
  match o with
  | PoAdd pr s => fst (pool_add p pr s)
  | PoReject s => pool_reject p s
  | PoRejectFormat f => pool_reject_format p f
  | PoRejectPeer pr => pool_reject_peer p pr
  | PoRemovePeer pr => remove_peer p pr
  end.

Definition prun (p : pool) (ops : list pop) : pool := fold_left pstep ops p.

Lemma prun_app p l1 l2 : prun p (l1 ++ l2) = prun (prun p l1) l2.
Proof. unfold prun. apply fold_left_app. Qed.

Lemma prun_cons p o l : prun p (o :: l) = prun (pstep p o) l.
Proof. reflexivity. Qed.

(* ------------------------------------------------------------------ the invariant *)

Definition PInv (p : pool) : Prop :=
  (* K  *) (forall k s, lookup k (p_snaps p) = Some s -> snapshot_key s = k) /\
  (* F  *) (forall k s, lookup k (p_snaps p) = Some s -> mem_key k (p_fidx p (sn_format s)) = true) /\
  (* X  *) (forall k pr, mem_peer pr (p_speers p k) = true -> mem_key k (p_pidx p pr) = true) /\
  (* S  *) (forall k, p_speers p k <> [] -> lookup k (p_snaps p) <> None) /\
  (* B1 *) (forall k, p_sbl p k = true -> lookup k (p_snaps p) = None) /\
  (* B2 *) (forall k s, lookup k (p_snaps p) = Some s -> p_fbl p (sn_format s) = false) /\
  (* B3 *) (forall pr k, p_pbl p pr = true -> mem_peer pr (p_speers p k) = false) /\
  (* D  *) (forall k s, In (k, s) (p_snaps p) -> lookup k (p_snaps p) = Some s).

Ltac pinv_split :=
  refine (conj _ (conj _ (conj _ (conj _ (conj _ (conj _ (conj _ _))))))); fields.

Lemma PInv_new : PInv new_pool.
Proof.
  unfold new_pool. pinv_split; cbn [lookup mem_peer In]; intros; try discriminate;
    try contradiction; try reflexivity; try congruence.
Qed.

(* ------------------------------------------------------------------ Add *)

Definition add_known (p : pool) (pr : peer) (s : snapshot) : pool :=
  mkP (p_snaps p)
      (updK (p_speers p) (snapshot_key s) (add_peer pr (p_speers p (snapshot_key s))))
      (updP (p_pidx p) pr (add_key (snapshot_key s) (p_pidx p pr)))
      (p_fidx p) (p_fbl p) (p_pbl p) (p_sbl p).

Definition add_new (p : pool) (pr : peer) (s : snapshot) : pool :=
  mkP (p_snaps p ++ [(snapshot_key s, s)])
      (updK (p_speers p) (snapshot_key s) (add_peer pr (p_speers p (snapshot_key s))))
      (updP (p_pidx p) pr (add_key (snapshot_key s) (p_pidx p pr)))
      (upd (p_fidx p) (sn_format s) (add_key (snapshot_key s) (p_fidx p (sn_format s))))
      (p_fbl p) (p_pbl p) (p_sbl p).

Lemma pool_add_spec p pr s :
  pool_add p pr s = (p, false) \/
  (p_fbl p (sn_format s) = false /\ p_pbl p pr = false /\ p_sbl p (snapshot_key s) = false /\
   Z.of_nat (length (p_pidx p pr)) < recent_snapshots /\
   ((exists s0, lookup (snapshot_key s) (p_snaps p) = Some s0 /\
                pool_add p pr s = (add_known p pr s, false)) \/
    (lookup (snapshot_key s) (p_snaps p) = None /\ pool_add p pr s = (add_new p pr s, true)))).
Proof.
  unfold pool_add, add_known, add_new; cbv zeta.
  destruct (p_fbl p (sn_format s)); [left; reflexivity|].
  destruct (p_pbl p pr); [left; reflexivity|].
  destruct (p_sbl p (snapshot_key s)); [left; reflexivity|].
  destruct (recent_snapshots <=? Z.of_nat (length (p_pidx p pr))) eqn:E; [left; reflexivity|].
  apply Z.leb_gt in E. right. repeat (split; [reflexivity || exact E|]).
  destruct (lookup (snapshot_key s) (p_snaps p)) as [s0|].
  - left. exists s0. split; reflexivity.
  - right. split; reflexivity.
Qed.

Lemma add_refused p pr s :
  (p_fbl p (sn_format s) = true \/ p_pbl p pr = true \/ p_sbl p (snapshot_key s) = true) ->
  pool_add p pr s = (p, false).
Proof.
  intros H. unfold pool_add; cbv zeta.
  destruct (p_fbl p (sn_format s)); [reflexivity|].
  destruct (p_pbl p pr); [reflexivity|].
  destruct (p_sbl p (snapshot_key s)); [reflexivity|].
  destruct H as [H|[H|H]]; discriminate.
Qed.

Lemma PInv_add_known p pr s s0 :
  PInv p -> p_pbl p pr = false -> lookup (snapshot_key s) (p_snaps p) = Some s0 ->
  PInv (add_known p pr s).
Proof.
  intros (K & F & X & S & B1 & B2 & B3 & D) Hp L. unfold add_known. pinv_split.
  - exact K.
  - exact F.
  - intros k x. unfold updK, updP.
    beq k (snapshot_key s); destruct (N.eqb_spec x pr) as [e|n].
    + intros _. rewrite E. apply mem_key_add_same.
    + rewrite mem_peer_add. rewrite (proj2 (N.eqb_neq x pr) n). cbn [orb].
      rewrite <- E. apply X.
    + intro M. apply mem_key_add_mono. subst x. apply X. exact M.
    + apply X.
  - intros k. unfold updK. beq k (snapshot_key s).
    + intros _. rewrite E, L. discriminate.
    + apply S.
  - exact B1.
  - exact B2.
  - intros x k Hb. unfold updK. beq k (snapshot_key s).
    + rewrite mem_peer_add. rewrite (B3 x _ Hb).
      destruct (N.eqb_spec x pr) as [e|n]; [|reflexivity]. congruence.
    + apply B3. exact Hb.
  - exact D.
Qed.

Lemma PInv_add_new p pr s :
  PInv p -> p_fbl p (sn_format s) = false -> p_pbl p pr = false ->
  p_sbl p (snapshot_key s) = false -> lookup (snapshot_key s) (p_snaps p) = None ->
  PInv (add_new p pr s).
Proof.
  intros (K & F & X & S & B1 & B2 & B3 & D) Hf Hp Hs L. unfold add_new. pinv_split.
  - intros k s'. rewrite lookup_app. destruct (lookup k (p_snaps p)) as [s1|] eqn:L1.
    + intro H. injection H as <-. apply K. exact L1.
    + cbn [lookup]. beq (snapshot_key s) k; [|discriminate].
      intro H. injection H as <-. exact E.
  - intros k s'. rewrite lookup_app. unfold upd.
    destruct (lookup k (p_snaps p)) as [s1|] eqn:L1.
    + intro H. injection H as <-.
      destruct (Z.eqb_spec (sn_format s1) (sn_format s)) as [e|n].
      * apply mem_key_add_mono. rewrite <- e. apply F. exact L1.
      * apply F. exact L1.
    + cbn [lookup]. beq (snapshot_key s) k; [|discriminate].
      intro H. injection H as <-. rewrite Z.eqb_refl. rewrite <- E. apply mem_key_add_same.
  - intros k x. unfold updK, updP.
    beq k (snapshot_key s); destruct (N.eqb_spec x pr) as [e|n].
    + intros _. rewrite E. apply mem_key_add_same.
    + rewrite mem_peer_add. rewrite (proj2 (N.eqb_neq x pr) n). cbn [orb].
      rewrite <- E. apply X.
    + intro M. apply mem_key_add_mono. subst x. apply X. exact M.
    + apply X.
  - intros k. unfold updK. rewrite lookup_app. beq k (snapshot_key s).
    + intros _. rewrite E, L. cbn [lookup]. rewrite bytes_eqb_refl. discriminate.
    + intro H. apply S in H. destruct (lookup k (p_snaps p)); [discriminate | congruence].
  - intros k Hb. rewrite lookup_app. rewrite (B1 k Hb). cbn [lookup].
    beq (snapshot_key s) k; [|reflexivity]. congruence.
  - intros k s'. rewrite lookup_app. destruct (lookup k (p_snaps p)) as [s1|] eqn:L1.
    + intro H. injection H as <-. apply (B2 k). exact L1.
    + cbn [lookup]. beq (snapshot_key s) k; [|discriminate].
      intro H. injection H as <-. exact Hf.
  - intros x k Hb. unfold updK. beq k (snapshot_key s).
    + rewrite mem_peer_add. rewrite (B3 x _ Hb).
      destruct (N.eqb_spec x pr) as [e|n]; [|reflexivity]. congruence.
    + apply B3. exact Hb.
  - intros k s' HI. rewrite lookup_app. apply in_app_or in HI. destruct HI as [HI|HI].
    + rewrite (D k s' HI). reflexivity.
    + cbn [In] in HI. destruct HI as [HI|[]]. injection HI as <- <-.
      rewrite L. cbn [lookup]. rewrite bytes_eqb_refl. reflexivity.
Qed.

Lemma PInv_add p pr s : PInv p -> PInv (fst (pool_add p pr s)).
Proof.
  intro H. destruct (pool_add_spec p pr s)
    as [E | (Hf & Hp & Hs & _ & [(s0 & L & E) | (L & E)])]; rewrite E; cbn [fst].
  - exact H.
  - eapply PInv_add_known; eauto.
  - apply PInv_add_new; auto.
Qed.

(* ------------------------------------------------------------------ removeSnapshot *)

Definition rs_some (p : pool) (k : key) (s : snapshot) : pool :=
  mkP (del_snap k (p_snaps p))
      (updK (p_speers p) k [])
      (fold_left (fun pi pr => updP pi pr (del_key k (pi pr))) (p_speers p k) (p_pidx p))
      (upd (p_fidx p) (sn_format s) (del_key k (p_fidx p (sn_format s))))
      (p_fbl p) (p_pbl p) (p_sbl p).

Lemma rs_cases p k :
  (lookup k (p_snaps p) = None /\ remove_snapshot p k = p) \/
  (exists s, lookup k (p_snaps p) = Some s /\ remove_snapshot p k = rs_some p k s).
Proof.
  unfold remove_snapshot, rs_some. destruct (lookup k (p_snaps p)) as [s|].
  - right. exists s. split; reflexivity.
  - left. split; reflexivity.
Qed.

Lemma pdel_fold_other (k k' : key) : k' <> k -> forall (l : list peer) (pi : peer -> list key) x,
  mem_key k' (fold_left (fun pi pr => updP pi pr (del_key k (pi pr))) l pi x) = mem_key k' (pi x).
Proof.
  intros Hne l. induction l as [|a l IH]; intros pi x; cbn [fold_left]; [reflexivity|].
  rewrite IH. unfold updP. destruct (N.eqb_spec x a) as [e|n]; [|reflexivity].
  subst a. apply mem_key_del_other. exact Hne.
Qed.

Lemma pdel_fold_sub (k k' : key) : forall (l : list peer) (pi : peer -> list key) x,
  mem_key k' (fold_left (fun pi pr => updP pi pr (del_key k (pi pr))) l pi x) = true ->
  mem_key k' (pi x) = true.
Proof.
  intros l. induction l as [|a l IH]; intros pi x; cbn [fold_left]; [auto|].
  intro H. apply IH in H. unfold updP in H. destruct (N.eqb_spec x a) as [e|n]; [|exact H].
  subst a. eapply mem_key_del_sub. exact H.
Qed.

Lemma pdel_fold_len (k : key) : forall (l : list peer) (pi : peer -> list key) x,
  (length (fold_left (fun pi pr => updP pi pr (del_key k (pi pr))) l pi x) <= length (pi x))%nat.
Proof.
  intros l. induction l as [|a l IH]; intros pi x; cbn [fold_left]; [lia|].
  etransitivity; [apply IH|]. unfold updP. destruct (N.eqb_spec x a) as [e|n]; [|lia].
  subst a. apply length_del_key.
Qed.

Lemma PInv_rs_some p k s : PInv p -> lookup k (p_snaps p) = Some s -> PInv (rs_some p k s).
Proof.
  intros (K & F & X & S & B1 & B2 & B3 & D) L. unfold rs_some. pinv_split.
  - intros k' s' H. apply lookup_del_sub in H. apply K. exact H.
  - intros k' s'. rewrite lookup_del. beq k' k; [discriminate|]. intro L'. unfold upd.
    destruct (Z.eqb_spec (sn_format s') (sn_format s)) as [e|n].
    + rewrite mem_key_del_other by exact E. rewrite <- e. apply F. exact L'.
    + apply F. exact L'.
  - intros k' x. unfold updK. beq k' k; [cbn [mem_peer]; discriminate|].
    intro M. rewrite pdel_fold_other by exact E. apply X. exact M.
  - intros k'. unfold updK. beq k' k; [congruence|].
    rewrite lookup_del, (beq_false _ _ E). apply S.
  - intros k' Hb. rewrite lookup_del. destruct (bytes_eqb k' k); [reflexivity | apply B1; exact Hb].
  - intros k' s' H. apply lookup_del_sub in H. eapply B2. exact H.
  - intros x k' Hb. unfold updK. destruct (bytes_eqb k' k); [reflexivity | apply B3; exact Hb].
  - intros k' s' HI. apply In_del in HI. cbn [fst] in HI. destruct HI as [HI Hne].
    rewrite lookup_del, (beq_false _ _ Hne). apply D. exact HI.
Qed.

Lemma PInv_remove_snapshot p k : PInv p -> PInv (remove_snapshot p k).
Proof.
  intro H. destruct (rs_cases p k) as [(_ & E) | (s & L & E)]; rewrite E.
  - exact H.
  - apply PInv_rs_some; assumption.
Qed.

(* what removeSnapshot does to the fields *)
Lemma rs_lookup p k k' :
  lookup k' (p_snaps (remove_snapshot p k)) = if bytes_eqb k' k then None else lookup k' (p_snaps p).
Proof.
  destruct (rs_cases p k) as [(L & E) | (s & L & E)]; rewrite E.
  - beq k' k; [|reflexivity]. rewrite E0. exact L.
  - unfold rs_some; fields. apply lookup_del.
Qed.

Lemma rs_lookup_same p k : lookup k (p_snaps (remove_snapshot p k)) = None.
Proof. rewrite rs_lookup, bytes_eqb_refl. reflexivity. Qed.

Lemma remove_snapshot_lookup_sub p k' k s :
  lookup k (p_snaps (remove_snapshot p k')) = Some s -> lookup k (p_snaps p) = Some s.
Proof. rewrite rs_lookup. destruct (bytes_eqb k k'); [discriminate | auto]. Qed.

Lemma remove_snapshot_In_sub p k' e : In e (p_snaps (remove_snapshot p k')) -> In e (p_snaps p).
Proof.
  destruct (rs_cases p k') as [(L & E) | (s & L & E)]; rewrite E; [auto|].
  unfold rs_some; fields. intro H. apply In_del in H. apply H.
Qed.

Lemma remove_snapshot_speers_sub p k' k pr :
  mem_peer pr (p_speers (remove_snapshot p k') k) = true -> mem_peer pr (p_speers p k) = true.
Proof.
  destruct (rs_cases p k') as [(L & E) | (s & L & E)]; rewrite E; [auto|].
  unfold rs_some; fields. unfold updK. destruct (bytes_eqb k k'); [discriminate | auto].
Qed.

Lemma rs_pidx_len p k x :
  (length (p_pidx (remove_snapshot p k) x) <= length (p_pidx p x))%nat.
Proof.
  destruct (rs_cases p k) as [(L & E) | (s & L & E)]; rewrite E; [lia|].
  unfold rs_some; fields. apply pdel_fold_len.
Qed.

Lemma rs_sbl p k : p_sbl (remove_snapshot p k) = p_sbl p.
Proof. unfold remove_snapshot. destruct (lookup k (p_snaps p)); reflexivity. Qed.
Lemma rs_fbl p k : p_fbl (remove_snapshot p k) = p_fbl p.
Proof. unfold remove_snapshot. destruct (lookup k (p_snaps p)); reflexivity. Qed.
Lemma rs_pbl p k : p_pbl (remove_snapshot p k) = p_pbl p.
Proof. unfold remove_snapshot. destruct (lookup k (p_snaps p)); reflexivity. Qed.

(* folds of removeSnapshot *)
Lemma rs_fold_PInv l : forall p, PInv p -> PInv (fold_left remove_snapshot l p).
Proof. apply pp_fold_inv. intros a b. apply PInv_remove_snapshot. Qed.

Lemma rs_fold_lookup l : forall p k s,
  lookup k (p_snaps (fold_left remove_snapshot l p)) = Some s ->
  lookup k (p_snaps p) = Some s /\ mem_key k l = false.
Proof.
  induction l as [|a l IH]; intros p k s; cbn [fold_left mem_key]; [auto|].
  intro H. apply IH in H. destruct H as [H1 H2]. rewrite rs_lookup in H1.
  beq k a; [discriminate|]. split; [exact H1|].
  rewrite (beq_false a k) by congruence. exact H2.
Qed.

Lemma rs_fold_speers_sub l : forall p k pr,
  mem_peer pr (p_speers (fold_left remove_snapshot l p) k) = true -> mem_peer pr (p_speers p k) = true.
Proof.
  induction l as [|a l IH]; intros p k pr; cbn [fold_left]; [auto|].
  intro H. apply IH in H. eapply remove_snapshot_speers_sub. exact H.
Qed.

Lemma rs_fold_pidx_len l : forall p x,
  (length (p_pidx (fold_left remove_snapshot l p) x) <= length (p_pidx p x))%nat.
Proof.
  induction l as [|a l IH]; intros p x; cbn [fold_left]; [lia|].
  etransitivity; [apply IH | apply rs_pidx_len].
Qed.

Lemma rs_fold_sbl l : forall p, p_sbl (fold_left remove_snapshot l p) = p_sbl p.
Proof. induction l as [|a l IH]; intros p; cbn [fold_left]; [reflexivity|]. rewrite IH. apply rs_sbl. Qed.
Lemma rs_fold_fbl l : forall p, p_fbl (fold_left remove_snapshot l p) = p_fbl p.
Proof. induction l as [|a l IH]; intros p; cbn [fold_left]; [reflexivity|]. rewrite IH. apply rs_fbl. Qed.
Lemma rs_fold_pbl l : forall p, p_pbl (fold_left remove_snapshot l p) = p_pbl p.
Proof. induction l as [|a l IH]; intros p; cbn [fold_left]; [reflexivity|]. rewrite IH. apply rs_pbl. Qed.

(* ------------------------------------------------------------------ removePeer *)

Definition rpk1 (pr : peer) (p : pool) (k : key) : pool :=
  mkP (p_snaps p) (updK (p_speers p) k (del_peer pr (p_speers p k)))
      (p_pidx p) (p_fidx p) (p_fbl p) (p_pbl p) (p_sbl p).

Lemma rpk_cases pr p k :
  remove_peer_key pr p k = rpk1 pr p k \/ remove_peer_key pr p k = remove_snapshot (rpk1 pr p k) k.
Proof.
  unfold remove_peer_key, rpk1; cbv zeta.
  destruct (del_peer pr (p_speers p k)); [right | left]; reflexivity.
Qed.

Lemma PInv_rpk1 pr p k : PInv p -> PInv (rpk1 pr p k).
Proof.
  intros (K & F & X & S & B1 & B2 & B3 & D). unfold rpk1. pinv_split.
  - exact K.
  - exact F.
  - intros k' x. unfold updK. beq k' k; [|apply X].
    intro M. apply mem_peer_del_sub in M. rewrite E. apply X. exact M.
  - intros k'. unfold updK. beq k' k; [|apply S].
    intro Hne. rewrite E. apply S. intro Hnil. rewrite Hnil in Hne. apply Hne. reflexivity.
  - exact B1.
  - exact B2.
  - intros x k' Hb. unfold updK. beq k' k; [|apply B3; exact Hb].
    rewrite mem_peer_del, (B3 x k Hb). apply andb_false_r.
  - exact D.
Qed.

Lemma PInv_remove_peer_key pr p k : PInv p -> PInv (remove_peer_key pr p k).
Proof.
  intro H. destruct (rpk_cases pr p k) as [E|E]; rewrite E.
  - apply PInv_rpk1. exact H.
  - apply PInv_remove_snapshot, PInv_rpk1. exact H.
Qed.

Lemma rpk_lookup_sub pr p k' k s :
  lookup k (p_snaps (remove_peer_key pr p k')) = Some s -> lookup k (p_snaps p) = Some s.
Proof.
  destruct (rpk_cases pr p k') as [E|E]; rewrite E; [auto|].
  intro H. apply remove_snapshot_lookup_sub in H. exact H.
Qed.

Lemma rpk1_speers_sub pr p k' k x :
  mem_peer x (p_speers (rpk1 pr p k') k) = true -> mem_peer x (p_speers p k) = true.
Proof.
  unfold rpk1; fields. unfold updK. beq k k'; [|auto].
  intro M. apply mem_peer_del_sub in M. rewrite E. exact M.
Qed.

Lemma rpk_speers_sub pr p k' k x :
  mem_peer x (p_speers (remove_peer_key pr p k') k) = true -> mem_peer x (p_speers p k) = true.
Proof.
  destruct (rpk_cases pr p k') as [E|E]; rewrite E; intro H.
  - eapply rpk1_speers_sub. exact H.
  - apply remove_snapshot_speers_sub in H. eapply rpk1_speers_sub. exact H.
Qed.

Lemma rpk1_clears pr p k : mem_peer pr (p_speers (rpk1 pr p k) k) = false.
Proof. unfold rpk1; fields. unfold updK. rewrite bytes_eqb_refl. apply mem_peer_del_same. Qed.

Lemma rpk_clears pr p k : mem_peer pr (p_speers (remove_peer_key pr p k) k) = false.
Proof.
  destruct (rpk_cases pr p k) as [E|E]; rewrite E.
  - apply rpk1_clears.
  - destruct (mem_peer pr (p_speers (remove_snapshot (rpk1 pr p k) k) k)) eqn:M; [|reflexivity].
    apply remove_snapshot_speers_sub in M. rewrite rpk1_clears in M. discriminate.
Qed.

Lemma rpk_pidx_len pr p k x :
  (length (p_pidx (remove_peer_key pr p k) x) <= length (p_pidx p x))%nat.
Proof.
  destruct (rpk_cases pr p k) as [E|E]; rewrite E.
  - unfold rpk1; fields. lia.
  - etransitivity; [apply rs_pidx_len|]. unfold rpk1; fields. lia.
Qed.

Lemma rpk_sbl pr p k : p_sbl (remove_peer_key pr p k) = p_sbl p.
Proof. destruct (rpk_cases pr p k) as [E|E]; rewrite E; [|rewrite rs_sbl]; reflexivity. Qed.
Lemma rpk_fbl pr p k : p_fbl (remove_peer_key pr p k) = p_fbl p.
Proof. destruct (rpk_cases pr p k) as [E|E]; rewrite E; [|rewrite rs_fbl]; reflexivity. Qed.
Lemma rpk_pbl pr p k : p_pbl (remove_peer_key pr p k) = p_pbl p.
Proof. destruct (rpk_cases pr p k) as [E|E]; rewrite E; [|rewrite rs_pbl]; reflexivity. Qed.

Lemma rpk_fold_PInv pr l : forall p, PInv p -> PInv (fold_left (remove_peer_key pr) l p).
Proof. apply pp_fold_inv. intros a b. apply PInv_remove_peer_key. Qed.

Lemma rpk_fold_lookup_sub pr l : forall p k s,
  lookup k (p_snaps (fold_left (remove_peer_key pr) l p)) = Some s -> lookup k (p_snaps p) = Some s.
Proof.
  induction l as [|a l IH]; intros p k s; cbn [fold_left]; [auto|].
  intro H. apply IH in H. eapply rpk_lookup_sub. exact H.
Qed.

Lemma rpk_fold_speers_sub pr l : forall p k x,
  mem_peer x (p_speers (fold_left (remove_peer_key pr) l p) k) = true ->
  mem_peer x (p_speers p k) = true.
Proof.
  induction l as [|a l IH]; intros p k x; cbn [fold_left]; [auto|].
  intro H. apply IH in H. eapply rpk_speers_sub. exact H.
Qed.

(* every key of the enumerated list loses [pr] *)
Lemma rpk_fold_clears pr l : forall p k,
  mem_peer pr (p_speers (fold_left (remove_peer_key pr) l p) k) = true ->
  mem_peer pr (p_speers p k) = true /\ mem_key k l = false.
Proof.
  induction l as [|a l IH]; intros p k; cbn [fold_left mem_key]; [auto|].
  intro H. apply IH in H. destruct H as [H1 H2]. split.
  - eapply rpk_speers_sub. exact H1.
  - beq a k; [|exact H2]. rewrite <- E, rpk_clears in H1. discriminate.
Qed.

Lemma rpk_fold_pidx_len pr l : forall p x,
  (length (p_pidx (fold_left (remove_peer_key pr) l p) x) <= length (p_pidx p x))%nat.
Proof.
  induction l as [|a l IH]; intros p x; cbn [fold_left]; [lia|].
  etransitivity; [apply IH | apply rpk_pidx_len].
Qed.

Lemma rpk_fold_sbl pr l : forall p, p_sbl (fold_left (remove_peer_key pr) l p) = p_sbl p.
Proof. induction l as [|a l IH]; intros p; cbn [fold_left]; [reflexivity|]. rewrite IH. apply rpk_sbl. Qed.
Lemma rpk_fold_fbl pr l : forall p, p_fbl (fold_left (remove_peer_key pr) l p) = p_fbl p.
Proof. induction l as [|a l IH]; intros p; cbn [fold_left]; [reflexivity|]. rewrite IH. apply rpk_fbl. Qed.
Lemma rpk_fold_pbl pr l : forall p, p_pbl (fold_left (remove_peer_key pr) l p) = p_pbl p.
Proof. induction l as [|a l IH]; intros p; cbn [fold_left]; [reflexivity|]. rewrite IH. apply rpk_pbl. Qed.

(* after removePeer the peer is in no peer set (needs peerIndex ⊇ snapshotPeers) *)
Lemma remove_peer_clears p pr k :
  PInv p -> mem_peer pr (p_speers (remove_peer p pr) k) = false.
Proof.
  intros (_ & _ & X & _). unfold remove_peer; cbv zeta; fields.
  destruct (mem_peer pr (p_speers (fold_left (remove_peer_key pr) (p_pidx p pr) p) k)) eqn:M;
    [|reflexivity].
  apply rpk_fold_clears in M. destruct M as [M1 M2]. apply X in M1. congruence.
Qed.

Lemma PInv_remove_peer p pr : PInv p -> PInv (remove_peer p pr).
Proof.
  intro H. pose proof (remove_peer_clears p pr) as C. specialize (fun k => C k H).
  pose proof (rpk_fold_PInv pr (p_pidx p pr) p H) as (K & F & X & S & B1 & B2 & B3 & D).
  unfold remove_peer in *; cbv zeta in *; fields_in C.
  pinv_split; auto.
  intros k x. unfold updP. destruct (N.eqb_spec x pr) as [e|n]; [|apply X].
  subst x. rewrite C. discriminate.
Qed.

Lemma remove_peer_lookup_sub p pr k s :
  lookup k (p_snaps (remove_peer p pr)) = Some s -> lookup k (p_snaps p) = Some s.
Proof. unfold remove_peer; cbv zeta; fields. apply rpk_fold_lookup_sub. Qed.

Lemma remove_peer_speers_sub p pr k x :
  mem_peer x (p_speers (remove_peer p pr) k) = true -> mem_peer x (p_speers p k) = true.
Proof. unfold remove_peer; cbv zeta; fields. apply rpk_fold_speers_sub. Qed.

Lemma remove_peer_sbl p pr : p_sbl (remove_peer p pr) = p_sbl p.
Proof. unfold remove_peer; cbv zeta; fields. apply rpk_fold_sbl. Qed.
Lemma remove_peer_fbl p pr : p_fbl (remove_peer p pr) = p_fbl p.
Proof. unfold remove_peer; cbv zeta; fields. apply rpk_fold_fbl. Qed.
Lemma remove_peer_pbl p pr : p_pbl (remove_peer p pr) = p_pbl p.
Proof. unfold remove_peer; cbv zeta; fields. apply rpk_fold_pbl. Qed.

Lemma remove_peer_pidx_len p pr x :
  (length (p_pidx (remove_peer p pr) x) <= length (p_pidx p x))%nat.
Proof.
  unfold remove_peer; cbv zeta; fields. unfold updP.
  destruct (x =? pr)%N; [cbn [length]; lia | apply rpk_fold_pidx_len].
Qed.

(* ------------------------------------------------------------------ Reject *)

Definition set_sbl (p : pool) v := mkP (p_snaps p) (p_speers p) (p_pidx p) (p_fidx p) (p_fbl p) (p_pbl p) v.
Definition set_fbl (p : pool) v := mkP (p_snaps p) (p_speers p) (p_pidx p) (p_fidx p) v (p_pbl p) (p_sbl p).
Definition set_pbl (p : pool) v := mkP (p_snaps p) (p_speers p) (p_pidx p) (p_fidx p) (p_fbl p) v (p_sbl p).

Lemma rs_set_sbl p v k : remove_snapshot (set_sbl p v) k = set_sbl (remove_snapshot p k) v.
Proof. unfold remove_snapshot, set_sbl; fields. destruct (lookup k (p_snaps p)); reflexivity. Qed.

Lemma rs_set_fbl p v k : remove_snapshot (set_fbl p v) k = set_fbl (remove_snapshot p k) v.
Proof. unfold remove_snapshot, set_fbl; fields. destruct (lookup k (p_snaps p)); reflexivity. Qed.

Lemma rs_fold_set_fbl v l : forall p,
  fold_left remove_snapshot l (set_fbl p v) = set_fbl (fold_left remove_snapshot l p) v.
Proof. induction l as [|a l IH]; intros p; cbn [fold_left]; [reflexivity|]. rewrite rs_set_fbl. apply IH. Qed.

Lemma pool_reject_eq p s :
  pool_reject p s =
  set_sbl (remove_snapshot p (snapshot_key s)) (updK (p_sbl p) (snapshot_key s) true).
Proof. unfold pool_reject; cbv zeta. rewrite <- rs_set_sbl. reflexivity. Qed.

Lemma pool_reject_format_eq p f :
  pool_reject_format p f =
  set_fbl (fold_left remove_snapshot (p_fidx p f) p) (upd (p_fbl p) f true).
Proof. unfold pool_reject_format; cbv zeta. rewrite <- rs_fold_set_fbl. reflexivity. Qed.

Lemma PInv_reject p s : PInv p -> PInv (pool_reject p s).
Proof.
  intro H. rewrite pool_reject_eq.
  pose proof (rs_lookup_same p (snapshot_key s)) as L0.
  pose proof (rs_sbl p (snapshot_key s)) as Eb.
  apply (PInv_remove_snapshot p (snapshot_key s)) in H.
  destruct H as (K & F & X & S & B1 & B2 & B3 & D).
  unfold set_sbl. pinv_split; auto.
  intros k. unfold updK. beq k (snapshot_key s).
  - intros _. rewrite E. exact L0.
  - intro Hb. apply B1. rewrite Eb. exact Hb.
Qed.

Lemma PInv_reject_format p f : PInv p -> PInv (pool_reject_format p f).
Proof.
  intro H. rewrite pool_reject_format_eq.
  assert (F0 : forall k s, lookup k (p_snaps p) = Some s -> mem_key k (p_fidx p (sn_format s)) = true)
    by apply H.
  pose proof (rs_fold_lookup (p_fidx p f) p) as L0.
  pose proof (rs_fold_fbl (p_fidx p f) p) as Eb.
  apply (rs_fold_PInv (p_fidx p f)) in H.
  destruct H as (K & F & X & S & B1 & B2 & B3 & D).
  unfold set_fbl. pinv_split; auto.
  intros k s L. unfold upd. destruct (Z.eqb_spec (sn_format s) f) as [e|n].
  - exfalso. apply L0 in L. destruct L as [L1 L2]. apply F0 in L1. rewrite e in L1. congruence.
  - rewrite <- Eb. eapply B2. exact L.
Qed.

Lemma pool_reject_peer_eq p pr :
  pool_reject_peer p pr =
  if (pr =? 0)%N then p else set_pbl (remove_peer p pr) (updP (p_pbl (remove_peer p pr)) pr true).
Proof. reflexivity. Qed.

Lemma PInv_reject_peer p pr : PInv p -> PInv (pool_reject_peer p pr).
Proof.
  intro H. rewrite pool_reject_peer_eq. destruct (pr =? 0)%N; [exact H|].
  pose proof (fun k => remove_peer_clears p pr k H) as C.
  apply (PInv_remove_peer p pr) in H.
  destruct H as (K & F & X & S & B1 & B2 & B3 & D).
  unfold set_pbl. pinv_split; auto.
  intros x k. unfold updP. destruct (N.eqb_spec x pr) as [e|n]; [|apply B3].
  intros _. subst x. apply C.
Qed.

Lemma PInv_reject_peers l : forall p, PInv p -> PInv (fold_left pool_reject_peer l p).
Proof. apply pp_fold_inv. intros a b. apply PInv_reject_peer. Qed.

Lemma PInv_step p o : PInv p -> PInv (pstep p o).
Proof.
  intro H. destruct o; cbn [pstep].
  - apply PInv_add; exact H.
  - apply PInv_reject; exact H.
  - apply PInv_reject_format; exact H.
  - apply PInv_reject_peer; exact H.
  - apply PInv_remove_peer; exact H.
Qed.

Lemma PInv_prun ops : forall p, PInv p -> PInv (prun p ops).
Proof. unfold prun. apply pp_fold_inv. intros a b. apply PInv_step. Qed.

Lemma PInv_run ops : PInv (prun new_pool ops).
Proof. apply PInv_prun, PInv_new. Qed.

(* ------------------------------------------------------------------ effects on the blacklists *)

Lemma add_sbl p pr s : p_sbl (fst (pool_add p pr s)) = p_sbl p.
Proof.
  destruct (pool_add_spec p pr s) as [E | (_ & _ & _ & _ & [(s0 & _ & E) | (_ & E)])];
    rewrite E; reflexivity.
Qed.
Lemma add_fbl p pr s : p_fbl (fst (pool_add p pr s)) = p_fbl p.
Proof.
  destruct (pool_add_spec p pr s) as [E | (_ & _ & _ & _ & [(s0 & _ & E) | (_ & E)])];
    rewrite E; reflexivity.
Qed.
Lemma add_pbl p pr s : p_pbl (fst (pool_add p pr s)) = p_pbl p.
Proof.
  destruct (pool_add_spec p pr s) as [E | (_ & _ & _ & _ & [(s0 & _ & E) | (_ & E)])];
    rewrite E; reflexivity.
Qed.

Lemma reject_sbl p s k :
  p_sbl (pool_reject p s) k = if bytes_eqb k (snapshot_key s) then true else p_sbl p k.
Proof. rewrite pool_reject_eq. reflexivity. Qed.
Lemma reject_fbl p s : p_fbl (pool_reject p s) = p_fbl p.
Proof. rewrite pool_reject_eq. unfold set_sbl; fields. apply rs_fbl. Qed.
Lemma reject_pbl p s : p_pbl (pool_reject p s) = p_pbl p.
Proof. rewrite pool_reject_eq. unfold set_sbl; fields. apply rs_pbl. Qed.

Lemma reject_format_sbl p f : p_sbl (pool_reject_format p f) = p_sbl p.
Proof. rewrite pool_reject_format_eq. unfold set_fbl; fields. apply rs_fold_sbl. Qed.
Lemma reject_format_fbl p f g :
  p_fbl (pool_reject_format p f) g = if g =? f then true else p_fbl p g.
Proof. rewrite pool_reject_format_eq. reflexivity. Qed.
Lemma reject_format_pbl p f : p_pbl (pool_reject_format p f) = p_pbl p.
Proof. rewrite pool_reject_format_eq. unfold set_fbl; fields. apply rs_fold_pbl. Qed.

Lemma reject_peer_sbl p pr : p_sbl (pool_reject_peer p pr) = p_sbl p.
Proof.
  rewrite pool_reject_peer_eq. destruct (pr =? 0)%N; [reflexivity|].
  unfold set_pbl; fields. apply remove_peer_sbl.
Qed.
Lemma reject_peer_fbl p pr : p_fbl (pool_reject_peer p pr) = p_fbl p.
Proof.
  rewrite pool_reject_peer_eq. destruct (pr =? 0)%N; [reflexivity|].
  unfold set_pbl; fields. apply remove_peer_fbl.
Qed.
Lemma reject_peer_pbl p pr x :
  p_pbl (pool_reject_peer p pr) x =
  if (pr =? 0)%N then p_pbl p x else if (x =? pr)%N then true else p_pbl p x.
Proof.
  rewrite pool_reject_peer_eq. destruct (pr =? 0)%N; [reflexivity|].
  unfold set_pbl; fields. unfold updP. rewrite remove_peer_pbl. reflexivity.
Qed.

Lemma reject_sets p s : p_sbl (pool_reject p s) (snapshot_key s) = true.
Proof. rewrite reject_sbl, bytes_eqb_refl. reflexivity. Qed.

Lemma reject_format_sets p f : p_fbl (pool_reject_format p f) f = true.
Proof. rewrite reject_format_fbl, Z.eqb_refl. reflexivity. Qed.

Lemma reject_peer_sets p pr : pr <> 0%N -> p_pbl (pool_reject_peer p pr) pr = true.
Proof.
  intro H. rewrite reject_peer_pbl. rewrite (proj2 (N.eqb_neq pr 0) H), N.eqb_refl. reflexivity.
Qed.

(* monotonicity, function by function *)
Lemma reject_mono_sbl p s k : p_sbl p k = true -> p_sbl (pool_reject p s) k = true.
Proof. intro H. rewrite reject_sbl, H. destruct (bytes_eqb k (snapshot_key s)); reflexivity. Qed.

Lemma reject_format_mono_fbl p f g : p_fbl p g = true -> p_fbl (pool_reject_format p f) g = true.
Proof. intro H. rewrite reject_format_fbl, H. destruct (g =? f); reflexivity. Qed.

Lemma reject_peer_mono_pbl p pr x : p_pbl p x = true -> p_pbl (pool_reject_peer p pr) x = true.
Proof.
  intro H. rewrite reject_peer_pbl, H. destruct (pr =? 0)%N; [reflexivity|].
  destruct (x =? pr)%N; reflexivity.
Qed.

Lemma reject_peers_sbl l : forall p, p_sbl (fold_left pool_reject_peer l p) = p_sbl p.
Proof.
  induction l as [|a l IH]; intros p; cbn [fold_left]; [reflexivity|].
  rewrite IH. apply reject_peer_sbl.
Qed.
Lemma reject_peers_fbl l : forall p, p_fbl (fold_left pool_reject_peer l p) = p_fbl p.
Proof.
  induction l as [|a l IH]; intros p; cbn [fold_left]; [reflexivity|].
  rewrite IH. apply reject_peer_fbl.
Qed.
Lemma reject_peers_mono_pbl l : forall p x,
  p_pbl p x = true -> p_pbl (fold_left pool_reject_peer l p) x = true.
Proof.
  induction l as [|a l IH]; intros p x H; cbn [fold_left]; [exact H|].
  apply IH. apply reject_peer_mono_pbl. exact H.
Qed.
Lemma reject_peers_sets l : forall p x,
  In x l -> x <> 0%N -> p_pbl (fold_left pool_reject_peer l p) x = true.
Proof.
  induction l as [|a l IH]; intros p x HI Hx; cbn [fold_left]; [destruct HI|].
  destruct HI as [->|HI].
  - apply reject_peers_mono_pbl. apply reject_peer_sets. exact Hx.
  - apply IH; assumption.
Qed.

Lemma mono_sbl p o k : p_sbl p k = true -> p_sbl (pstep p o) k = true.
Proof.
  intro H. destruct o; cbn [pstep].
  - rewrite add_sbl. exact H.
  - apply reject_mono_sbl. exact H.
  - rewrite reject_format_sbl. exact H.
  - rewrite reject_peer_sbl. exact H.
  - rewrite remove_peer_sbl. exact H.
Qed.

Lemma mono_fbl p o f : p_fbl p f = true -> p_fbl (pstep p o) f = true.
Proof.
  intro H. destruct o; cbn [pstep].
  - rewrite add_fbl. exact H.
  - rewrite reject_fbl. exact H.
  - apply reject_format_mono_fbl. exact H.
  - rewrite reject_peer_fbl. exact H.
  - rewrite remove_peer_fbl. exact H.
Qed.

Lemma mono_pbl p o pr : p_pbl p pr = true -> p_pbl (pstep p o) pr = true.
Proof.
  intro H. destruct o; cbn [pstep].
  - rewrite add_pbl. exact H.
  - rewrite reject_pbl. exact H.
  - rewrite reject_format_pbl. exact H.
  - apply reject_peer_mono_pbl. exact H.
  - rewrite remove_peer_pbl. exact H.
Qed.

Lemma mono_sbl_run ops : forall p k, p_sbl p k = true -> p_sbl (prun p ops) k = true.
Proof.
  induction ops as [|o ops IH]; intros p k H; [exact H|].
  rewrite prun_cons. apply IH. apply mono_sbl. exact H.
Qed.
Lemma mono_fbl_run ops : forall p f, p_fbl p f = true -> p_fbl (prun p ops) f = true.
Proof.
  induction ops as [|o ops IH]; intros p f H; [exact H|].
  rewrite prun_cons. apply IH. apply mono_fbl. exact H.
Qed.
Lemma mono_pbl_run ops : forall p pr, p_pbl p pr = true -> p_pbl (prun p ops) pr = true.
Proof.
  induction ops as [|o ops IH]; intros p pr H; [exact H|].
  rewrite prun_cons. apply IH. apply mono_pbl. exact H.
Qed.

(* ------------------------------------------------------------------ removal never adds *)

Lemma reject_lookup_sub p s0 k s :
  lookup k (p_snaps (pool_reject p s0)) = Some s -> lookup k (p_snaps p) = Some s.
Proof. rewrite pool_reject_eq. unfold set_sbl; fields. apply remove_snapshot_lookup_sub. Qed.

Lemma reject_speers_sub p s0 k x :
  mem_peer x (p_speers (pool_reject p s0) k) = true -> mem_peer x (p_speers p k) = true.
Proof. rewrite pool_reject_eq. unfold set_sbl; fields. apply remove_snapshot_speers_sub. Qed.

Lemma reject_format_lookup_sub p f k s :
  lookup k (p_snaps (pool_reject_format p f)) = Some s -> lookup k (p_snaps p) = Some s.
Proof.
  rewrite pool_reject_format_eq. unfold set_fbl; fields. intro H.
  apply rs_fold_lookup in H. apply H.
Qed.

Lemma reject_format_speers_sub p f k x :
  mem_peer x (p_speers (pool_reject_format p f) k) = true -> mem_peer x (p_speers p k) = true.
Proof. rewrite pool_reject_format_eq. unfold set_fbl; fields. apply rs_fold_speers_sub. Qed.

Lemma reject_peer_lookup_sub p pr k s :
  lookup k (p_snaps (pool_reject_peer p pr)) = Some s -> lookup k (p_snaps p) = Some s.
Proof.
  rewrite pool_reject_peer_eq. destruct (pr =? 0)%N; [auto|].
  unfold set_pbl; fields. apply remove_peer_lookup_sub.
Qed.

Lemma reject_peer_speers_sub p pr k x :
  mem_peer x (p_speers (pool_reject_peer p pr) k) = true -> mem_peer x (p_speers p k) = true.
Proof.
  rewrite pool_reject_peer_eq. destruct (pr =? 0)%N; [auto|].
  unfold set_pbl; fields. apply remove_peer_speers_sub.
Qed.

Lemma reject_peers_lookup_sub l : forall p k s,
  lookup k (p_snaps (fold_left pool_reject_peer l p)) = Some s -> lookup k (p_snaps p) = Some s.
Proof.
  induction l as [|a l IH]; intros p k s; cbn [fold_left]; [auto|].
  intro H. apply IH in H. eapply reject_peer_lookup_sub. exact H.
Qed.

Lemma reject_peers_speers_sub l : forall p k x,
  mem_peer x (p_speers (fold_left pool_reject_peer l p) k) = true -> mem_peer x (p_speers p k) = true.
Proof.
  induction l as [|a l IH]; intros p k x; cbn [fold_left]; [auto|].
  intro H. apply IH in H. eapply reject_peer_speers_sub. exact H.
Qed.

(* ------------------------------------------------------------------ the readers *)

Lemma insert_ranked_In p s x l : In x (insert_ranked p s l) -> x = s \/ In x l.
Proof.
  induction l as [|y l IH]; cbn [insert_ranked In].
  - intros [H|[]]; auto.
  - destruct (better p s y); cbn [In].
    + intros [H|[H|H]]; auto.
    + intros [H|H]; auto. apply IH in H. destruct H; auto.
Qed.

Lemma ranked_fold_In p : forall (l : list (key * snapshot)) acc x,
  In x (fold_left (fun acc e => insert_ranked p (snd e) acc) l acc) ->
  In x acc \/ exists k, In (k, x) l.
Proof.
  induction l as [|[k s] l IH]; intros acc x; cbn [fold_left snd]; [auto|].
  intro H. apply IH in H. destruct H as [H|(k' & H)].
  - apply insert_ranked_In in H. destruct H as [->|H]; [|auto].
    right. exists k. left. reflexivity.
  - right. exists k'. right. exact H.
Qed.

Lemma ranked_in_pool p s : In s (pool_ranked p) -> exists k, In (k, s) (p_snaps p).
Proof.
  unfold pool_ranked. intro H. apply ranked_fold_In in H. destruct H as [[]|H]. exact H.
Qed.

Lemma ranked_in_pool_inv p s :
  PInv p -> In s (pool_ranked p) -> lookup (snapshot_key s) (p_snaps p) = Some s.
Proof.
  intros (K & _ & _ & _ & _ & _ & _ & D) H. apply ranked_in_pool in H. destruct H as (k & H).
  apply D in H. rewrite (K k s H). exact H.
Qed.

Lemma best_in_pool p ties s :
  PInv p -> fst (pool_best p ties) = Some s -> lookup (snapshot_key s) (p_snaps p) = Some s.
Proof.
  intros HI. unfold pool_best; cbv zeta.
  assert (Dflt : match pool_ranked p with [] => None | s0 :: _ => Some s0 end = Some s ->
                 lookup (snapshot_key s) (p_snaps p) = Some s).
  { destruct (pool_ranked p) as [|s0 r] eqn:R; [discriminate|].
    intro H. injection H as ->. apply ranked_in_pool_inv; [exact HI|]. rewrite R. left. reflexivity. }
  destruct ties as [|k r]; cbn [fst]; [exact Dflt|].
  destruct (lookup k (p_snaps p)) as [s0|] eqn:L; cbn [fst]; [|exact Dflt].
  destruct (is_best p s0); cbn [fst]; [|exact Dflt].
  intro H. injection H as ->. destruct HI as (K & _). rewrite (K k s L). exact L.
Qed.

Lemma best_not_blacklisted p ties s :
  PInv p -> fst (pool_best p ties) = Some s ->
  p_sbl p (snapshot_key s) = false /\ p_fbl p (sn_format s) = false.
Proof.
  intros HI H. pose proof (best_in_pool p ties s HI H) as L.
  destruct HI as (_ & _ & _ & _ & B1 & B2 & _). split.
  - destruct (p_sbl p (snapshot_key s)) eqn:Hb; [|reflexivity].
    apply B1 in Hb. congruence.
  - eapply B2. exact L.
Qed.

Lemma ranked_not_blacklisted p s :
  PInv p -> In s (pool_ranked p) ->
  p_sbl p (snapshot_key s) = false /\ p_fbl p (sn_format s) = false.
Proof.
  intros HI H. pose proof (ranked_in_pool_inv p s HI H) as L.
  destruct HI as (_ & _ & _ & _ & B1 & B2 & _). split.
  - destruct (p_sbl p (snapshot_key s)) eqn:Hb; [|reflexivity].
    apply B1 in Hb. congruence.
  - eapply B2. exact L.
Qed.

Lemma get_peers_not_blacklisted p s pr :
  PInv p -> In pr (pool_get_peers p s) -> p_pbl p pr = false.
Proof.
  intros (_ & _ & _ & _ & _ & _ & B3 & _) H. unfold pool_get_peers in H.
  apply mem_peer_In in H. destruct (p_pbl p pr) eqn:Hb; [|reflexivity].
  rewrite (B3 pr _ Hb) in H. discriminate.
Qed.

(* ------------------------------------------------------------------ the property over histories *)

Theorem blacklists_final : forall ops1 o ops2,
  let p := prun new_pool (ops1 ++ o :: ops2) in
  match o with
  | PoReject s =>
      (forall ties, fst (pool_best p ties) <> Some s) /\
      ~ In s (pool_ranked p) /\
      lookup (snapshot_key s) (p_snaps p) = None /\
      forall pr, pool_add p pr s = (p, false)
  | PoRejectFormat f =>
      (forall s, In s (pool_ranked p) -> sn_format s <> f) /\
      (forall ties s, fst (pool_best p ties) = Some s -> sn_format s <> f) /\
      forall pr s, sn_format s = f -> pool_add p pr s = (p, false)
  | PoRejectPeer pr =>
      pr <> 0%N ->
      (forall s, ~ In pr (pool_get_peers p s)) /\
      forall s, pool_add p pr s = (p, false)
  | _ => True
  end.
Proof.
  intros ops1 o ops2 p.
  assert (HI : PInv p) by apply PInv_run.
  assert (Ep : p = prun (pstep (prun new_pool ops1) o) ops2).
  { unfold p. rewrite prun_app, prun_cons. reflexivity. }
  destruct o as [pr s | s | f | pr | pr]; [exact I | | | | exact I].
  - assert (Hb : p_sbl p (snapshot_key s) = true).
    { rewrite Ep. apply mono_sbl_run. cbn [pstep]. apply reject_sets. }
    assert (L : lookup (snapshot_key s) (p_snaps p) = None).
    { destruct HI as (_ & _ & _ & _ & B1 & _). apply B1. exact Hb. }
    split; [|split; [|split]].
    + intros ties H. apply (best_in_pool p ties s HI) in H. congruence.
    + intro H. apply (ranked_in_pool_inv p s HI) in H. congruence.
    + exact L.
    + intro pr. apply add_refused. right. right. exact Hb.
  - assert (Hb : p_fbl p f = true).
    { rewrite Ep. apply mono_fbl_run. cbn [pstep]. apply reject_format_sets. }
    split; [|split].
    + intros s H E. apply (ranked_not_blacklisted p s HI) in H. destruct H as [_ H]. congruence.
    + intros ties s H E. apply (best_not_blacklisted p ties s HI) in H. destruct H as [_ H]. congruence.
    + intros pr s E. apply add_refused. left. rewrite E. exact Hb.
  - intro Hne.
    assert (Hb : p_pbl p pr = true).
    { rewrite Ep. apply mono_pbl_run. cbn [pstep]. apply reject_peer_sets. exact Hne. }
    split.
    + intros s H. apply (get_peers_not_blacklisted p s pr HI) in H. congruence.
    + intro s. apply add_refused. right. left. exact Hb.
Qed.

(* ------------------------------------------------------------------ the per-peer cap *)

Definition PCap (p : pool) : Prop :=
  forall pr, Z.of_nat (length (p_pidx p pr)) <= Z.max 0 recent_snapshots.

Lemma PCap_new : PCap new_pool.
Proof. intro pr. cbn [new_pool p_pidx length]. lia. Qed.

Lemma PCap_le p q :
  (forall x, (length (p_pidx q x) <= length (p_pidx p x))%nat) -> PCap p -> PCap q.
Proof. intros H C pr. specialize (H pr). specialize (C pr). lia. Qed.

Lemma PCap_add p pr s : PCap p -> PCap (fst (pool_add p pr s)).
Proof.
  intros C. destruct (pool_add_spec p pr s)
    as [E | (_ & _ & _ & Hlen & [(s0 & _ & E) | (_ & E)])]; rewrite E; cbn [fst]; [exact C| |];
    intro x; unfold add_known, add_new; fields; unfold updP;
    (destruct (N.eqb_spec x pr) as [e|n]; [|apply C]);
    pose proof (length_add_key (snapshot_key s) (p_pidx p pr)); lia.
Qed.

Lemma reject_pidx_len p s x : (length (p_pidx (pool_reject p s) x) <= length (p_pidx p x))%nat.
Proof. rewrite pool_reject_eq. unfold set_sbl; fields. apply rs_pidx_len. Qed.

Lemma reject_format_pidx_len p f x :
  (length (p_pidx (pool_reject_format p f) x) <= length (p_pidx p x))%nat.
Proof. rewrite pool_reject_format_eq. unfold set_fbl; fields. apply rs_fold_pidx_len. Qed.

Lemma reject_peer_pidx_len p pr x :
  (length (p_pidx (pool_reject_peer p pr) x) <= length (p_pidx p x))%nat.
Proof.
  rewrite pool_reject_peer_eq. destruct (pr =? 0)%N; [lia|].
  unfold set_pbl; fields. apply remove_peer_pidx_len.
Qed.

Lemma PCap_step p o : PCap p -> PCap (pstep p o).
Proof.
  intro C. destruct o; cbn [pstep].
  - apply PCap_add; exact C.
  - eapply PCap_le; [|exact C]. intro x. apply reject_pidx_len.
  - eapply PCap_le; [|exact C]. intro x. apply reject_format_pidx_len.
  - eapply PCap_le; [|exact C]. intro x. apply reject_peer_pidx_len.
  - eapply PCap_le; [|exact C]. intro x. apply remove_peer_pidx_len.
Qed.

Theorem peer_cap ops pr :
  Z.of_nat (length (p_pidx (prun new_pool ops) pr)) <= Z.max 0 recent_snapshots.
Proof.
  revert pr. change (PCap (prun new_pool ops)). unfold prun.
  apply pp_fold_inv; [intros a b; apply PCap_step | apply PCap_new].
Qed.

Print Assumptions blacklists_final.
Print Assumptions PInv_step.
Print Assumptions peer_cap.
