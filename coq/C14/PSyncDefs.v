(* C14 — definitions shared by the proofs about the syncer machine (PSyncA/B/C.v). *)
From Coq Require Import String List ZArith NArith Bool Lia.
From TM Require Import Common.Hex Generated.Consts C14.Model C14.PQueue C14.PPool.
Import ListNotations.
Open Scope Z_scope.

Definition sstep (pv : provider) (disc : bool) (g : syncer) (e : event) : syncer := fst (step pv disc g e).

Definition reach (pv : provider) (disc : bool) (ties : list key) (evs : list event) : syncer :=
  run_state pv disc (init_syncer ties) evs.

Lemma reach_snoc : forall pv disc ties evs e,
  reach pv disc ties (evs ++ [e]) = sstep pv disc (reach pv disc ties evs) e.
Proof. intros. unfold reach, run_state, sstep. rewrite fold_left_app. reflexivity. Qed.

(* what the Go types guarantee about events: uint32 fields are not negative *)
Definition ev_ok (e : event) : Prop :=
  match e with
  | EAddChunk _ _ _ idx _ => 0 <= idx
  | EAddSnapshot _ s => 0 <= sn_chunks s
  | _ => True
  end.

(* the syncer goroutine is inside Sync for snapshot s, its queue is open and satisfies P *)
Definition in_sync (g : syncer) (s : snapshot) (P : cqueue -> Prop) : Prop :=
  exists q, s_cur g = Some (s, q) /\ s_insync g = true /\ q_open q = true /\ P q.

(* light-verified context of a restoration *)
Definition ctx1 (pv : provider) (s : snapshot) (ah : bytes) : Prop :=
  pv_apphash pv (sn_height s) = ROk ah.
Definition ctx2 (pv : provider) (s : snapshot) (st : sstate) (cm : commit) : Prop :=
  pv_state pv (sn_height s) = ROk st /\ pv_commit pv (sn_height s) = ROk cm.

Definition SInv (pv : provider) (g : syncer) : Prop :=
  PInv (s_pool g) /\
  (forall k s, lookup k (p_snaps (s_pool g)) = Some s -> 0 <= sn_chunks s) /\
  (forall s q, s_cur g = Some (s, q) ->
     QInv q /\ q_height q = sn_height s /\ q_format q = sn_format s /\ q_chunks q = sn_chunks s) /\
  match s_mode g with
  | MIdle | MSleep => s_insync g = false /\ s_cur g = None
  | MOffer s ah =>
    ctx1 pv s ah /\ in_sync g s (fun _ => True) /\ exists r, s_journal g = COffer s ah :: r
  | MApply s ah st cm i =>
    ctx1 pv s ah /\ ctx2 pv s st cm /\
    in_sync g s (fun q => exists b sd r l,
      s_journal g = CApply i b sd :: r /\ s_qlog g = (i, b, sd) :: l /\
      0 <= i < q_chunks q /\ q_files q i = Some b /\ q_senders q i = Some sd /\
      q_ret q i = true /\ forall j, 0 <= j < i -> q_ret q j = true)
  | MWait s ah st cm i =>
    ctx1 pv s ah /\ ctx2 pv s st cm /\
    in_sync g s (fun q => 0 <= i < q_chunks q /\ q_files q i = None /\ q_ret q i = false /\
                          forall j, 0 <= j < i -> q_ret q j = true)
  | MInfo s ah st cm =>
    ctx1 pv s ah /\ ctx2 pv s st cm /\
    in_sync g s (fun q => forall j, 0 <= j < q_chunks q -> q_ret q j = true) /\
    exists r, s_journal g = CInfo :: r
  | MDone o =>
    s_insync g = false /\ (forall s q, s_cur g = Some (s, q) -> q_open q = false) /\
    o <> OErr 8
  end.
