(* C14 — proofs about the chunk queue (statesync/chunks.go as transcribed in C14/Model.v).

   * QInv: an invariant of the queue, preserved by every method.
   * queue_refines: the queue refines a simple specification (one map
     index -> (bytes, sender) "the chunk recorded at arrival" and one set "returned"),
     for all operation sequences, with equal results of Add and Next.
   * next_chunk_least / next_wait_least / next_done_all: Next hands chunks out in index order.
   * state-level effect lemmas for discard / DiscardSender / Retry / Allocate / Add.

   Deviations from the first statement of the task (all forced by the model, see the comments
   at the definitions):
   - QInv: the "a stored chunk has a recorded sender" part is guarded by [q_open q = true]
     (DiscardSender on a CLOSED queue deletes sender entries but discard() returns early, so the
     files stay).
   - abs_eq: the contents part is guarded by [q_open q = true] for the same reason.
   - [qop_ok]: Add with a negative index (impossible in Go: uint32) would break the range part
     of QInv; QInv preservation over ops asks [qop_ok o] (0 <= idx for OAdd).  The refinement
     itself needs only the weaker invariant [QW], which every op preserves, so
     [queue_refines_run] has NO side condition on the ops.
   - discard_sender_effect: second conjunct guarded by [q_open q = true]. *)
From Coq Require Import String List ZArith NArith Bool Lia.
From TM Require Import Common.Hex Generated.Consts C14.Model.
Import ListNotations. Open Scope Z_scope.

Ltac qs := cbn [q_open q_height q_format q_chunks q_files q_senders q_alloc q_ret
                set_open set_files set_senders set_alloc set_ret fst snd] in *.

(* ------------------------------------------------------------------ first_idx *)

Lemma first_idx_S P s n :
  first_idx P s (S n) = if P s then Some s else first_idx P (s + 1) n.
Proof. reflexivity. Qed.

Lemma first_idx_some P : forall n start i,
  first_idx P start n = Some i <->
  start <= i < start + Z.of_nat n /\ P i = true /\ forall j, start <= j < i -> P j = false.
Proof.
  induction n; intros start i.
  - cbn [first_idx]. split; [discriminate|]. intros [H _]. change (Z.of_nat 0) with 0 in H. lia.
  - rewrite first_idx_S, Nat2Z.inj_succ. destruct (P start) eqn:E.
    + split.
      * intros H; injection H as <-. split; [lia|]. split; [assumption|]. intros; lia.
      * intros (H1 & H2 & H3). f_equal. destruct (Z.eq_dec start i); [assumption|].
        rewrite H3 in E by lia. discriminate.
    + rewrite IHn. split.
      * intros (H1 & H2 & H3). split; [lia|]. split; [assumption|]. intros j Hj.
        destruct (Z.eq_dec j start) as [->|]; [assumption|]. apply H3; lia.
      * intros (H1 & H2 & H3). assert (start <> i) by (intros ->; congruence).
        split; [lia|]. split; [assumption|]. intros; apply H3; lia.
Qed.

Lemma first_idx_none P : forall n start,
  first_idx P start n = None <->
  forall j, start <= j < start + Z.of_nat n -> P j = false.
Proof.
  induction n; intros start.
  - cbn [first_idx]. split; [|reflexivity]. intros _ j H. change (Z.of_nat 0) with 0 in H. lia.
  - rewrite first_idx_S, Nat2Z.inj_succ. destruct (P start) eqn:E.
    + split; [discriminate|]. intros H. rewrite H in E by lia. discriminate.
    + rewrite IHn. split.
      * intros H j Hj. destruct (Z.eq_dec j start) as [->|]; [assumption|]. apply H; lia.
      * intros H j Hj. apply H; lia.
Qed.

Lemma first_idx_ext P Q : (forall i, P i = Q i) ->
  forall n start, first_idx P start n = first_idx Q start n.
Proof.
  intros E; induction n; intros start; [reflexivity|].
  rewrite !first_idx_S, E, IHn. reflexivity.
Qed.

Lemma upd_same {A} (f : Z -> A) k v : upd f k v k = v.
Proof. unfold upd. rewrite Z.eqb_refl. reflexivity. Qed.

Lemma upd_other {A} (f : Z -> A) k v j : j <> k -> upd f k v j = f j.
Proof. unfold upd. intros H. destruct (Z.eqb_spec j k); [contradiction|reflexivity]. Qed.

(* ------------------------------------------------------------------ operations *)

Inductive qop :=
| OAdd (h f idx : Z) (body : option bytes) (sender : peer)
| OAllocate
| OClose
| ODiscard (idx : Z)
| ODiscardSender (p : peer)
| ONext
| ORetry (idx : Z)
| ORetryAll.

Definition qstep (q : cqueue) (o : qop) : cqueue :=
  match o with
  | OAdd h f idx body sender => fst (q_add q h f idx body sender)
  | OAllocate => fst (q_allocate q)
  | OClose => q_close q
  | ODiscard idx => q_discard q idx
  | ODiscardSender p => q_discard_sender q p
  | ONext => fst (q_next q)
  | ORetry idx => q_retry q idx
  | ORetryAll => q_retry_all q
  end.

Definition qrun (q : cqueue) (ops : list qop) : cqueue := fold_left qstep ops q.

(* Go's index type is uint32: an Add carries a non-negative index *)
Definition qop_ok (o : qop) : Prop :=
  match o with OAdd _ _ idx _ _ => 0 <= idx | _ => True end.

(* ------------------------------------------------------------------ the invariant *)

(* The sender part is guarded by [q_open q = true]: DiscardSender on a closed queue deletes
   chunkSenders[i] although discard(i) returned early and left chunkFiles[i] in place. *)
Definition QInv (q : cqueue) : Prop :=
  0 <= q_chunks q /\
  (forall i b, q_files q i = Some b ->
     0 <= i < q_chunks q /\ (q_open q = true -> exists s, q_senders q i = Some s)) /\
  (forall i, q_ret q i = true -> q_files q i <> None).

(* the part of QInv the refinement needs; preserved by every op without side condition *)
Definition QW (q : cqueue) : Prop :=
  q_open q = true -> forall i b, q_files q i = Some b -> exists s, q_senders q i = Some s.

Lemma QInv_QW q : QInv q -> QW q.
Proof. intros (_ & H & _) Ho i b E. destruct (H i b E) as [_ H']. auto. Qed.

Lemma QInv_sender q i b :
  QInv q -> q_open q = true -> q_files q i = Some b -> exists s, q_senders q i = Some s.
Proof. intros H Ho E. exact (QInv_QW q H Ho i b E). Qed.

Lemma QInv_range q i b : QInv q -> q_files q i = Some b -> 0 <= i < q_chunks q.
Proof. intros (_ & H & _) E. apply (H i b E). Qed.

Lemma QInv_new s q : new_queue s = Some q -> 0 <= sn_chunks s -> QInv q.
Proof.
  unfold new_queue. destruct (sn_chunks s =? 0); [discriminate|].
  intros H; injection H as <-. intros Hn. unfold QInv; qs.
  split; [assumption|]. split; intros; discriminate.
Qed.

(* 0 <= idx: Go's index is a uint32 *)
Lemma QInv_add q h f idx body sd :
  0 <= idx -> QInv q -> QInv (fst (q_add q h f idx body sd)).
Proof.
  intros Hidx HI. unfold q_add.
  destruct body as [b|]; [|exact HI].
  destruct (negb (q_open q)); [exact HI|].
  destruct (negb (h =? q_height q)); [exact HI|].
  destruct (negb (f =? q_format q)); [exact HI|].
  destruct (Z.leb_spec (q_chunks q) idx); [exact HI|].
  destruct (q_files q idx) eqn:Ef; [exact HI|].
  destruct HI as (H0 & H1 & H2). unfold QInv; qs.
  split; [assumption|]. split.
  - intros i b'. unfold upd. destruct (Z.eqb_spec i idx) as [->|Hne].
    + intros _. split; [lia|]. intros _. eexists; reflexivity.
    + apply H1.
  - intros i Hr. unfold upd. destruct (Z.eqb_spec i idx); [discriminate|]. apply H2, Hr.
Qed.

Lemma QW_add q h f idx body sd : QW q -> QW (fst (q_add q h f idx body sd)).
Proof.
  intros HI. unfold q_add.
  destruct body as [b|]; [|exact HI].
  destruct (negb (q_open q)); [exact HI|].
  destruct (negb (h =? q_height q)); [exact HI|].
  destruct (negb (f =? q_format q)); [exact HI|].
  destruct (q_chunks q <=? idx); [exact HI|].
  destruct (q_files q idx) eqn:Ef; [exact HI|].
  unfold QW in *; qs. intros Ho i b'. unfold upd. destruct (Z.eqb_spec i idx).
  - intros _. eexists; reflexivity.
  - apply HI, Ho.
Qed.

Lemma allocate_shape q :
  fst (q_allocate q) = q \/ exists i, fst (q_allocate q) = set_alloc q (upd (q_alloc q) i true).
Proof.
  unfold q_allocate. destruct (negb (q_open q)); [left; reflexivity|].
  destruct (q_chunks q <=? _); [left; reflexivity|].
  destruct (first_idx _ 0 (q_n q)); [right; eexists|left]; reflexivity.
Qed.

Lemma QInv_allocate q : QInv q -> QInv (fst (q_allocate q)).
Proof.
  intros HI. destruct (allocate_shape q) as [->|[i ->]]; [exact HI|]. exact HI.
Qed.

Lemma QW_allocate q : QW q -> QW (fst (q_allocate q)).
Proof.
  intros HI. destruct (allocate_shape q) as [->|[i ->]]; [exact HI|]. exact HI.
Qed.

Lemma QInv_close q : QInv q -> QInv (q_close q).
Proof.
  intros HI. unfold q_close. destruct (q_open q) eqn:Eo; [|exact HI].
  destruct HI as (H0 & H1 & H2). unfold QInv; qs.
  split; [assumption|]. split; [|assumption].
  intros i b E. split; [apply (H1 i b E)|discriminate].
Qed.

Lemma QW_close q : QW q -> QW (q_close q).
Proof.
  intros HI. unfold q_close. destruct (q_open q) eqn:Eo; [|exact HI].
  unfold QW; qs. discriminate.
Qed.

Lemma QInv_discard q idx : QInv q -> QInv (q_discard q idx).
Proof.
  intros HI. unfold q_discard. destruct (negb (q_open q)); [exact HI|].
  destruct (q_files q idx) eqn:Ef; [|exact HI].
  destruct HI as (H0 & H1 & H2). unfold QInv; qs.
  split; [assumption|]. split.
  - intros i b'. unfold upd. destruct (Z.eqb_spec i idx); [discriminate|]. apply H1.
  - intros i. unfold upd. destruct (Z.eqb_spec i idx); [discriminate|]. apply H2.
Qed.

Lemma QW_discard q idx : QW q -> QW (q_discard q idx).
Proof.
  intros HI. unfold q_discard. destruct (negb (q_open q)); [exact HI|].
  destruct (q_files q idx) eqn:Ef; [|exact HI].
  unfold QW in *; qs. intros Ho i b'. unfold upd.
  destruct (Z.eqb_spec i idx); [discriminate|]. apply HI, Ho.
Qed.

Lemma QInv_discards l : forall q, QInv q -> QInv (fold_left q_discard l q).
Proof.
  induction l as [|x l IH]; intros q HI; [exact HI|].
  cbn [fold_left]. apply IH, QInv_discard, HI.
Qed.

Lemma QW_discard_sender q p : QW q -> QW (q_discard_sender q p).
Proof.
  unfold QW, q_discard_sender; qs. intros HI Ho i b. rewrite Ho.
  destruct (q_files q i) as [b0|] eqn:Ef.
  - destruct (HI Ho i b0 Ef) as [s Es]. rewrite Es.
    destruct ((s =? p)%N && negb (q_ret q i)); cbn [andb].
    + discriminate.
    + intros _. eexists; reflexivity.
  - rewrite !andb_false_r. discriminate.
Qed.

Lemma QInv_discard_sender q p : QInv q -> QInv (q_discard_sender q p).
Proof.
  intros HI. pose proof (QW_discard_sender q p (QInv_QW q HI)) as HW.
  destruct HI as (H0 & H1 & H2). unfold QInv. split; [exact H0|]. split.
  - intros i b E. split.
    + unfold q_discard_sender in E; qs.
      destruct (_ && _ && _) in E; [discriminate|]. apply (H1 i b E).
    + intros Ho. apply (HW Ho i b E).
  - unfold q_discard_sender; qs. intros i Hr. pose proof (H2 i Hr) as Hf.
    rewrite Hr. cbn [negb]. destruct (q_senders q i); rewrite ?andb_false_r; exact Hf.
Qed.

Lemma QInv_retry q idx : QInv q -> QInv (q_retry q idx).
Proof.
  intros (H0 & H1 & H2). unfold QInv, q_retry; qs.
  split; [assumption|]. split; [assumption|].
  intros i. unfold upd. destruct (Z.eqb_spec i idx); [discriminate|]. apply H2.
Qed.

Lemma QInv_retry_all q : QInv q -> QInv (q_retry_all q).
Proof.
  intros (H0 & H1 & H2). unfold QInv, q_retry_all; qs.
  split; [assumption|]. split; [assumption|]. discriminate.
Qed.

Lemma next_shape q :
  q_next q = (q, snd (q_next q)) \/
  exists i b, q_files q i = Some b /\ fst (q_next q) = set_ret q (upd (q_ret q) i true).
Proof.
  unfold q_next. destruct (q_next_up q) as [i|]; [|left; reflexivity].
  destruct (q_files q i) as [b|] eqn:Ef; [right; exists i, b; split; [assumption|reflexivity]|left; reflexivity].
Qed.

Lemma QInv_set_ret_true q i b :
  q_files q i = Some b -> QInv q -> QInv (set_ret q (upd (q_ret q) i true)).
Proof.
  intros Ef (H0 & H1 & H2). unfold QInv; qs.
  split; [assumption|]. split; [assumption|].
  intros j. unfold upd. destruct (Z.eqb_spec j i) as [->|]; [intros _; congruence|apply H2].
Qed.

Lemma QInv_next q : QInv q -> QInv (fst (q_next q)).
Proof.
  intros HI. destruct (next_shape q) as [E|(i & b & Ef & ->)].
  - rewrite E. exact HI.
  - apply (QInv_set_ret_true q i b Ef HI).
Qed.

Lemma QW_next q : QW q -> QW (fst (q_next q)).
Proof.
  intros HI. destruct (next_shape q) as [E|(i & b & Ef & ->)].
  - rewrite E. exact HI.
  - exact HI.
Qed.

(* q_wake sets chunkReturned[i] even when the file is absent (the NNil case); with the file
   present it preserves the invariant *)
Lemma QInv_wake q i b : q_files q i = Some b -> QInv q -> QInv (fst (q_wake q i)).
Proof.
  intros Ef HI. unfold q_wake. rewrite Ef. qs. apply (QInv_set_ret_true q i b Ef HI).
Qed.

Lemma QInv_step q o : qop_ok o -> QInv q -> QInv (qstep q o).
Proof.
  intros Hok HI. destruct o; cbn [qstep].
  - apply QInv_add; assumption.
  - apply QInv_allocate, HI.
  - apply QInv_close, HI.
  - apply QInv_discard, HI.
  - apply QInv_discard_sender, HI.
  - apply QInv_next, HI.
  - apply QInv_retry, HI.
  - apply QInv_retry_all, HI.
Qed.

Lemma QInv_run ops : forall q, Forall qop_ok ops -> QInv q -> QInv (qrun q ops).
Proof.
  unfold qrun. induction ops as [|o ops IH]; intros q Hok HI; [exact HI|].
  cbn [fold_left]. inversion Hok; subst. apply IH; [assumption|]. apply QInv_step; assumption.
Qed.

Lemma QW_step q o : QW q -> QW (qstep q o).
Proof.
  intros HI. destruct o; cbn [qstep].
  - apply QW_add, HI.
  - apply QW_allocate, HI.
  - apply QW_close, HI.
  - apply QW_discard, HI.
  - apply QW_discard_sender, HI.
  - apply QW_next, HI.
  - exact HI.
  - exact HI.
Qed.

Lemma QW_run ops : forall q, QW q -> QW (qrun q ops).
Proof.
  unfold qrun. induction ops as [|o ops IH]; intros q HI; [exact HI|].
  cbn [fold_left]. apply IH, QW_step, HI.
Qed.

(* ------------------------------------------------------------------ the specification *)

Record squeue := mkSQ {
  sq_open : bool; sq_h : Z; sq_f : Z; sq_n : Z;
  sq_cont : Z -> option (bytes * peer);     (* the chunk recorded at arrival *)
  sq_ret : Z -> bool }.                      (* returned *)

Definition s_add (a : squeue) (h f idx : Z) (body : option bytes) (sender : peer)
  : squeue * add_res :=
  match body with
  | None => (a, AddErr)
  | Some b =>
    if negb (sq_open a) then (a, AddFalse)
    else if negb (h =? sq_h a) then (a, AddErr)
    else if negb (f =? sq_f a) then (a, AddErr)
    else if sq_n a <=? idx then (a, AddErr)
    else match sq_cont a idx with
         | Some _ => (a, AddFalse)
         | None => (mkSQ (sq_open a) (sq_h a) (sq_f a) (sq_n a)
                         (upd (sq_cont a) idx (Some (b, sender))) (sq_ret a), AddTrue)
         end
  end.

Definition s_discard (a : squeue) (idx : Z) : squeue :=
  if negb (sq_open a) then a
  else match sq_cont a idx with
       | None => a
       | Some _ => mkSQ (sq_open a) (sq_h a) (sq_f a) (sq_n a)
                        (upd (sq_cont a) idx None) (upd (sq_ret a) idx false)
       end.

Definition s_discard_sender (a : squeue) (p : peer) : squeue :=
  if negb (sq_open a) then a
  else mkSQ (sq_open a) (sq_h a) (sq_f a) (sq_n a)
            (fun i => match sq_cont a i with
                      | Some (b, s) => if (s =? p)%N && negb (sq_ret a i) then None else Some (b, s)
                      | None => None
                      end)
            (sq_ret a).

Definition s_next (a : squeue) : squeue * next_res :=
  if negb (sq_open a) then (a, NDone)
  else match first_idx (fun i => negb (sq_ret a i)) 0 (Z.to_nat (sq_n a)) with
       | None => (a, NDone)
       | Some i =>
         match sq_cont a i with
         | Some (b, s) => (mkSQ (sq_open a) (sq_h a) (sq_f a) (sq_n a) (sq_cont a)
                                (upd (sq_ret a) i true), NChunk i b s)
         | None => (a, NWait i)
         end
       end.

Definition s_retry (a : squeue) (idx : Z) : squeue :=
  mkSQ (sq_open a) (sq_h a) (sq_f a) (sq_n a) (sq_cont a) (upd (sq_ret a) idx false).
Definition s_retry_all (a : squeue) : squeue :=
  mkSQ (sq_open a) (sq_h a) (sq_f a) (sq_n a) (sq_cont a) (fun _ => false).
Definition s_close (a : squeue) : squeue :=
  mkSQ false (sq_h a) (sq_f a) (sq_n a) (sq_cont a) (sq_ret a).
Definition s_allocate (a : squeue) : squeue := a.

Definition sstep (a : squeue) (o : qop) : squeue :=
  match o with
  | OAdd h f idx body sender => fst (s_add a h f idx body sender)
  | OAllocate => s_allocate a
  | OClose => s_close a
  | ODiscard idx => s_discard a idx
  | ODiscardSender p => s_discard_sender a p
  | ONext => fst (s_next a)
  | ORetry idx => s_retry a idx
  | ORetryAll => s_retry_all a
  end.

Definition srun (a : squeue) (ops : list qop) : squeue := fold_left sstep ops a.

(* observable result of an operation (Allocate's answer is not part of the specification) *)
Inductive qres := RAdd (r : add_res) | RNext (r : next_res) | RUnit.

Definition qout (q : cqueue) (o : qop) : qres :=
  match o with
  | OAdd h f idx body sender => RAdd (snd (q_add q h f idx body sender))
  | ONext => RNext (snd (q_next q))
  | _ => RUnit
  end.

Definition sout (a : squeue) (o : qop) : qres :=
  match o with
  | OAdd h f idx body sender => RAdd (snd (s_add a h f idx body sender))
  | ONext => RNext (snd (s_next a))
  | _ => RUnit
  end.

Fixpoint qtrace (q : cqueue) (ops : list qop) : list qres :=
  match ops with [] => [] | o :: r => qout q o :: qtrace (qstep q o) r end.
Fixpoint strace (a : squeue) (ops : list qop) : list qres :=
  match ops with [] => [] | o :: r => sout a o :: strace (sstep a o) r end.

(* ------------------------------------------------------------------ abstraction *)

Definition q_cont (q : cqueue) (i : Z) : option (bytes * peer) :=
  match q_files q i with Some b => Some (b, q_get_sender q i) | None => None end.

(* contents are compared while the queue is open (see QInv); once closed every Add is refused
   and every Next answers NDone, in the model and in the specification *)
Definition abs_eq (q : cqueue) (a : squeue) : Prop :=
  q_open q = sq_open a /\ q_height q = sq_h a /\ q_format q = sq_f a /\ q_chunks q = sq_n a /\
  (q_open q = true -> forall i, q_cont q i = sq_cont a i) /\
  (forall i, q_ret q i = sq_ret a i).

(* the canonical abstraction *)
Definition abs_of (q : cqueue) : squeue :=
  mkSQ (q_open q) (q_height q) (q_format q) (q_chunks q) (q_cont q) (q_ret q).

Lemma abs_eq_abs_of q : abs_eq q (abs_of q).
Proof. unfold abs_eq, abs_of; cbn. repeat split; reflexivity. Qed.

Ltac sq := cbn [sq_open sq_h sq_f sq_n sq_cont sq_ret fst snd] in *.

Lemma q_cont_none q i : q_cont q i = None <-> q_files q i = None.
Proof. unfold q_cont. destruct (q_files q i); split; congruence. Qed.

Lemma refines_add q a h f idx body sd :
  abs_eq q a ->
  abs_eq (fst (q_add q h f idx body sd)) (fst (s_add a h f idx body sd)) /\
  snd (q_add q h f idx body sd) = snd (s_add a h f idx body sd).
Proof.
  intros HA. pose proof HA as (Ho & Hh & Hf & Hn & Hc & Hr).
  unfold q_add, s_add. rewrite <- Ho, <- Hh, <- Hf, <- Hn.
  destruct body as [b|]; [|split; [exact HA|reflexivity]].
  destruct (q_open q) eqn:Eo; cbn [negb]; [|split; [exact HA|reflexivity]].
  destruct (negb (h =? q_height q)); [split; [exact HA|reflexivity]|].
  destruct (negb (f =? q_format q)); [split; [exact HA|reflexivity]|].
  destruct (q_chunks q <=? idx); [split; [exact HA|reflexivity]|].
  specialize (Hc eq_refl). rewrite <- (Hc idx). unfold q_cont.
  destruct (q_files q idx) eqn:Ef; [split; [exact HA|reflexivity]|].
  split; [|reflexivity]. unfold abs_eq; qs; sq.
  repeat split; try assumption.
  intros _ i. unfold q_cont, q_get_sender; qs. unfold upd.
  destruct (Z.eqb_spec i idx); [reflexivity|]. apply (Hc i).
Qed.

Lemma refines_allocate q a : abs_eq q a -> abs_eq (fst (q_allocate q)) (s_allocate a).
Proof.
  intros HA. destruct (allocate_shape q) as [->|[i ->]]; exact HA.
Qed.

Lemma refines_close q a : abs_eq q a -> abs_eq (q_close q) (s_close a).
Proof.
  intros (Ho & Hh & Hf & Hn & Hc & Hr). unfold q_close, s_close, abs_eq.
  destruct (q_open q) eqn:Eo; qs; sq; repeat split; try assumption; try reflexivity.
  all: try rewrite Eo; intros E; discriminate E.
Qed.

Lemma refines_discard q a idx : abs_eq q a -> abs_eq (q_discard q idx) (s_discard a idx).
Proof.
  intros HA. pose proof HA as (Ho & Hh & Hf & Hn & Hc & Hr).
  unfold q_discard, s_discard. rewrite <- Ho.
  destruct (q_open q) eqn:Eo; cbn [negb]; [|exact HA].
  specialize (Hc eq_refl). rewrite <- (Hc idx). unfold q_cont.
  destruct (q_files q idx) eqn:Ef; [|exact HA].
  unfold abs_eq; qs; sq. repeat split; try assumption.
  - intros _ i. unfold q_cont, q_get_sender; qs. unfold upd.
    destruct (Z.eqb_spec i idx); [reflexivity|]. apply (Hc i).
  - intros i. unfold upd. destruct (i =? idx); [reflexivity|apply Hr].
Qed.

Lemma refines_discard_sender q a p :
  QW q -> abs_eq q a -> abs_eq (q_discard_sender q p) (s_discard_sender a p).
Proof.
  intros HW HA. pose proof HA as (Ho & Hh & Hf & Hn & Hc & Hr).
  unfold s_discard_sender. rewrite <- Ho.
  destruct (q_open q) eqn:Eo; cbn [negb].
  - specialize (Hc eq_refl). specialize (HW Eo).
    unfold abs_eq. unfold q_discard_sender at 1 2 3 4 6. qs; sq.
    repeat split; try assumption.
    intros _ i. rewrite <- (Hc i), <- (Hr i).
    unfold q_cont, q_discard_sender, q_get_sender; qs. rewrite Eo.
    destruct (q_files q i) as [b|] eqn:Ef.
    + destruct (HW i b Ef) as [s Es]. rewrite Es.
      destruct ((s =? p)%N && negb (q_ret q i)); cbn [andb]; [reflexivity|].
      reflexivity.
    + rewrite ?andb_false_r. reflexivity.
  - unfold abs_eq, q_discard_sender; qs.
    repeat split; try assumption.
    + rewrite Eo; exact Ho.
    + rewrite Eo. intros E; discriminate E.
Qed.

Lemma refines_next q a :
  QW q -> abs_eq q a ->
  abs_eq (fst (q_next q)) (fst (s_next a)) /\ snd (q_next q) = snd (s_next a).
Proof.
  intros HW HA. pose proof HA as (Ho & Hh & Hf & Hn & Hc & Hr).
  unfold q_next, q_next_up, s_next, q_n. rewrite <- Ho, <- Hn.
  destruct (q_open q) eqn:Eo; cbn [negb]; [|split; [exact HA|reflexivity]].
  rewrite (first_idx_ext (fun i => negb (sq_ret a i)) (fun i => negb (q_ret q i)))
    by (intros i; rewrite Hr; reflexivity).
  destruct (first_idx _ 0 (Z.to_nat (q_chunks q))) as [i|]; [|split; [exact HA|reflexivity]].
  specialize (Hc eq_refl). rewrite <- (Hc i). unfold q_cont.
  destruct (q_files q i) as [b|] eqn:Ef; [|split; [exact HA|reflexivity]].
  split; [|reflexivity]. unfold abs_eq; qs; sq. repeat split; try assumption.
  - intros _ j. apply (Hc j).
  - intros j. unfold upd. destruct (j =? i); [reflexivity|apply Hr].
Qed.

Lemma refines_retry q a idx : abs_eq q a -> abs_eq (q_retry q idx) (s_retry a idx).
Proof.
  intros (Ho & Hh & Hf & Hn & Hc & Hr). unfold q_retry, s_retry, abs_eq; qs; sq.
  repeat split; try assumption.
  intros i. unfold upd. destruct (i =? idx); [reflexivity|apply Hr].
Qed.

Lemma refines_retry_all q a : abs_eq q a -> abs_eq (q_retry_all q) (s_retry_all a).
Proof.
  intros (Ho & Hh & Hf & Hn & Hc & Hr). unfold q_retry_all, s_retry_all, abs_eq; qs; sq.
  repeat split; try assumption.
Qed.

(* one step, from the weak invariant *)
Lemma queue_refines_weak q a o :
  QW q -> abs_eq q a -> abs_eq (qstep q o) (sstep a o) /\ qout q o = sout a o.
Proof.
  intros HW HA. destruct o; cbn [qstep sstep qout sout].
  - destruct (refines_add q a h f idx body sender HA) as [H1 H2]. rewrite H2. split; [exact H1|reflexivity].
  - split; [apply refines_allocate, HA|reflexivity].
  - split; [apply refines_close, HA|reflexivity].
  - split; [apply refines_discard, HA|reflexivity].
  - split; [apply refines_discard_sender; assumption|reflexivity].
  - destruct (refines_next q a HW HA) as [H1 H2]. rewrite H2. split; [exact H1|reflexivity].
  - split; [apply refines_retry, HA|reflexivity].
  - split; [apply refines_retry_all, HA|reflexivity].
Qed.

(* [qout q o = sout a o] says: for OAdd the add_res of q_add and s_add are equal, for ONext the
   next_res of q_next and s_next are equal (see queue_refines_add / queue_refines_next) *)
Theorem queue_refines : forall q a o,
  QInv q -> abs_eq q a -> abs_eq (qstep q o) (sstep a o) /\ qout q o = sout a o.
Proof. intros q a o HI. apply queue_refines_weak, QInv_QW, HI. Qed.

Corollary queue_refines_next : forall q a,
  QInv q -> abs_eq q a ->
  abs_eq (fst (q_next q)) (fst (s_next a)) /\ snd (q_next q) = snd (s_next a).
Proof. intros q a HI. apply refines_next, QInv_QW, HI. Qed.

Corollary queue_refines_add : forall q a h f idx body sd,
  QInv q -> abs_eq q a ->
  abs_eq (fst (q_add q h f idx body sd)) (fst (s_add a h f idx body sd)) /\
  snd (q_add q h f idx body sd) = snd (s_add a h f idx body sd).
Proof. intros q a h f idx body sd _. apply refines_add. Qed.

(* all operation sequences: the final states are related and all results are equal.
   No side condition on [ops] (negative Add indices included). *)
Theorem queue_refines_run : forall ops q a,
  QInv q -> abs_eq q a ->
  abs_eq (qrun q ops) (srun a ops) /\ qtrace q ops = strace a ops.
Proof.
  intros ops q a HI. pose proof (QInv_QW q HI) as HW. clear HI. revert q a HW.
  unfold qrun, srun. induction ops as [|o ops IH]; intros q a HW HA.
  - split; [exact HA|reflexivity].
  - cbn [fold_left qtrace strace].
    destruct (queue_refines_weak q a o HW HA) as [H1 H2].
    destruct (IH (qstep q o) (sstep a o) (QW_step q o HW) H1) as [H3 H4].
    split; [exact H3|]. rewrite H2, H4. reflexivity.
Qed.

(* from a fresh queue *)
Corollary queue_refines_new : forall s q ops,
  new_queue s = Some q -> 0 <= sn_chunks s ->
  abs_eq (qrun q ops) (srun (abs_of q) ops) /\ qtrace q ops = strace (abs_of q) ops.
Proof.
  intros s q ops E Hn. apply queue_refines_run; [apply (QInv_new s q E Hn)|apply abs_eq_abs_of].
Qed.

(* ------------------------------------------------------------------ order *)

Lemma q_n_id q : QInv q -> Z.of_nat (q_n q) = q_chunks q.
Proof. intros (H0 & _). unfold q_n. apply Z2Nat.id, H0. Qed.

Theorem next_chunk_least : forall q q' i b s,
  QInv q -> q_next q = (q', NChunk i b s) ->
  q_open q = true /\ 0 <= i < q_chunks q /\ (forall j, 0 <= j < i -> q_ret q j = true) /\
  q_ret q i = false /\ q_files q i = Some b /\ q_senders q i = Some s /\
  q' = set_ret q (upd (q_ret q) i true).
Proof.
  intros q q' i b s HI. unfold q_next, q_next_up.
  destruct (q_open q) eqn:Eo; cbn [negb]; [|discriminate].
  destruct (first_idx _ 0 (q_n q)) as [k|] eqn:Ek; [|discriminate].
  destruct (q_files q k) as [b0|] eqn:Ef; [|discriminate].
  intros H; injection H as <- <- <- <-.
  apply first_idx_some in Ek. destruct Ek as (Hk & Hp & Hl).
  rewrite (q_n_id q HI) in Hk.
  destruct (QInv_sender q k b0 HI Eo Ef) as [s0 Es].
  split; [reflexivity|]. split; [lia|]. split.
  - intros j Hj. specialize (Hl j ltac:(lia)). apply negb_false_iff in Hl. exact Hl.
  - split; [apply negb_true_iff, Hp|]. split; [exact Ef|]. split; [|reflexivity].
    unfold q_get_sender. rewrite Es. reflexivity.
Qed.

Theorem next_wait_least : forall q q' i,
  QInv q -> q_next q = (q', NWait i) ->
  q' = q /\ q_open q = true /\ 0 <= i < q_chunks q /\
  (forall j, 0 <= j < i -> q_ret q j = true) /\ q_ret q i = false /\ q_files q i = None.
Proof.
  intros q q' i HI. unfold q_next, q_next_up.
  destruct (q_open q) eqn:Eo; cbn [negb]; [|discriminate].
  destruct (first_idx _ 0 (q_n q)) as [k|] eqn:Ek; [|discriminate].
  destruct (q_files q k) as [b0|] eqn:Ef; [discriminate|].
  intros H; injection H as <- <-.
  apply first_idx_some in Ek. destruct Ek as (Hk & Hp & Hl).
  rewrite (q_n_id q HI) in Hk.
  split; [reflexivity|]. split; [reflexivity|]. split; [lia|]. split.
  - intros j Hj. specialize (Hl j ltac:(lia)). apply negb_false_iff in Hl. exact Hl.
  - split; [apply negb_true_iff, Hp|exact Ef].
Qed.

Theorem next_done_all : forall q q',
  QInv q -> q_next q = (q', NDone) ->
  q' = q /\ (q_open q = false \/ forall j, 0 <= j < q_chunks q -> q_ret q j = true).
Proof.
  intros q q' HI. unfold q_next, q_next_up.
  destruct (q_open q) eqn:Eo; cbn [negb].
  - destruct (first_idx _ 0 (q_n q)) as [k|] eqn:Ek.
    + destruct (q_files q k); discriminate.
    + intros H; injection H as <-. split; [reflexivity|]. right.
      intros j Hj. pose proof (proj1 (first_idx_none _ _ _) Ek j) as Hl.
      rewrite (q_n_id q HI) in Hl. apply negb_false_iff, Hl. lia.
  - intros H; injection H as <-. split; [reflexivity|left; reflexivity].
Qed.

(* q_next never answers NNil *)
Lemma next_not_nil q : snd (q_next q) <> NNil.
Proof.
  unfold q_next. destruct (q_next_up q) as [i|]; [|discriminate].
  destruct (q_files q i); discriminate.
Qed.

(* ------------------------------------------------------------------ effects *)

Lemma discard_effect : forall q idx, q_open q = true ->
  let q' := q_discard q idx in
  q_files q' idx = None /\
  (q_files q idx <> None -> q_ret q' idx = false /\ q_alloc q' idx = false) /\
  forall j, j <> idx ->
    q_files q' j = q_files q j /\ q_ret q' j = q_ret q j /\ q_senders q' j = q_senders q j.
Proof.
  intros q idx Eo. cbv zeta. unfold q_discard. rewrite Eo. cbn [negb].
  destruct (q_files q idx) eqn:Ef.
  - qs. rewrite !upd_same. split; [reflexivity|]. split; [intros _; split; reflexivity|].
    intros j Hj. rewrite !upd_other by assumption. repeat split; reflexivity.
  - split; [assumption|]. split; [intros H; contradiction|]. intros; repeat split; reflexivity.
Qed.

(* second conjunct: [q_open q = true] added — on a closed queue DiscardSender deletes the
   sender entry of a not-returned chunk of p while discard() leaves the file in place *)
Lemma discard_sender_effect : forall q p i, QInv q ->
  let q' := q_discard_sender q p in
  (q_files q' i <> None -> q_senders q' i = Some p -> q_ret q' i = true) /\
  (q_open q = true -> forall b, q_files q' i = Some b ->
     q_files q i = Some b /\ q_senders q' i = q_senders q i) /\
  (forall j, q_ret q' j = q_ret q j).
Proof.
  intros q p i _. cbv zeta. unfold q_discard_sender; qs. split; [|split].
  - intros _. destruct (q_senders q i) as [s|] eqn:Es; [|discriminate].
    destruct (N.eqb_spec s p) as [->|Hne]; cbn [andb].
    + destruct (q_ret q i); [reflexivity|discriminate].
    + intros H; injection H as ->. contradiction.
  - intros Eo b. rewrite Eo.
    destruct (q_files q i) as [b0|] eqn:Ef.
    + rewrite !andb_true_r.
      destruct (match q_senders q i with Some s => _ | None => false end); [discriminate|].
      intros H; split; [exact H|reflexivity].
    + rewrite !andb_false_r. discriminate.
  - reflexivity.
Qed.

Lemma retry_effect : forall q i,
  q_ret (q_retry q i) i = false /\
  (forall j, j <> i -> q_ret (q_retry q i) j = q_ret q j) /\
  q_files (q_retry q i) = q_files q /\ q_senders (q_retry q i) = q_senders q /\
  q_alloc (q_retry q i) = q_alloc q /\ q_open (q_retry q i) = q_open q /\
  q_height (q_retry q i) = q_height q /\ q_format (q_retry q i) = q_format q /\
  q_chunks (q_retry q i) = q_chunks q.
Proof.
  intros q i. unfold q_retry; qs. rewrite upd_same. split; [reflexivity|].
  split; [intros j Hj; apply upd_other, Hj|]. repeat split; reflexivity.
Qed.

Lemma retry_all_effect : forall q,
  (forall j, q_ret (q_retry_all q) j = false) /\
  q_files (q_retry_all q) = q_files q /\ q_senders (q_retry_all q) = q_senders q /\
  q_alloc (q_retry_all q) = q_alloc q /\ q_open (q_retry_all q) = q_open q /\
  q_height (q_retry_all q) = q_height q /\ q_format (q_retry_all q) = q_format q /\
  q_chunks (q_retry_all q) = q_chunks q.
Proof. intros q. unfold q_retry_all; qs. repeat split; reflexivity. Qed.

Lemma allocate_least : forall q q' i, q_allocate q = (q', Some i) ->
  q_alloc q i = false /\ 0 <= i < q_chunks q /\ (forall j, 0 <= j < i -> q_alloc q j = true) /\
  q' = set_alloc q (upd (q_alloc q) i true).
Proof.
  intros q q' i. unfold q_allocate.
  destruct (negb (q_open q)); [discriminate|].
  destruct (q_chunks q <=? _); [discriminate|].
  destruct (first_idx _ 0 (q_n q)) as [k|] eqn:Ek; [|discriminate].
  intros H; injection H as <- <-.
  apply first_idx_some in Ek. destruct Ek as (Hk & Hp & Hl). unfold q_n in Hk.
  split; [apply negb_true_iff, Hp|]. split; [lia|]. split; [|reflexivity].
  intros j Hj. specialize (Hl j ltac:(lia)). apply negb_false_iff in Hl. exact Hl.
Qed.

Lemma add_effect : forall q h f idx body sd q',
  q_add q h f idx body sd = (q', AddTrue) ->
  exists b, body = Some b /\ q_open q = true /\ h = q_height q /\ f = q_format q /\
    idx < q_chunks q /\ q_files q idx = None /\
    q_files q' idx = Some b /\ q_senders q' idx = Some sd /\ q_ret q' = q_ret q /\
    forall j, j <> idx -> q_files q' j = q_files q j /\ q_senders q' j = q_senders q j.
Proof.
  intros q h f idx body sd q'. unfold q_add.
  destruct body as [b|]; [|discriminate].
  destruct (q_open q) eqn:Eo; cbn [negb]; [|discriminate].
  destruct (Z.eqb_spec h (q_height q)); cbn [negb]; [|discriminate].
  destruct (Z.eqb_spec f (q_format q)); cbn [negb]; [|discriminate].
  destruct (Z.leb_spec (q_chunks q) idx); [discriminate|].
  destruct (q_files q idx) eqn:Ef; [discriminate|].
  intros HH; injection HH as <-. exists b; qs. rewrite !upd_same.
  repeat split; try assumption; try reflexivity; apply upd_other; assumption.
Qed.

Lemma add_noop : forall q h f idx body sd q' r,
  q_add q h f idx body sd = (q', r) -> r <> AddTrue -> q' = q.
Proof.
  intros q h f idx body sd q' r. unfold q_add.
  destruct body as [b|]; [|intros H; injection H as <- <-; reflexivity].
  destruct (negb (q_open q)); [intros H; injection H as <- <-; reflexivity|].
  destruct (negb (h =? q_height q)); [intros H; injection H as <- <-; reflexivity|].
  destruct (negb (f =? q_format q)); [intros H; injection H as <- <-; reflexivity|].
  destruct (q_chunks q <=? idx); [intros H; injection H as <- <-; reflexivity|].
  destruct (q_files q idx); [intros H; injection H as <- <-; reflexivity|].
  intros H; injection H as <- <-. intros Hr; contradiction.
Qed.

(* why the sender parts of QInv / abs_eq / discard_sender_effect are guarded by [q_open]:
   Add(0) from peer 5, Close, DiscardSender(5) leaves file 0 in place without a sender entry *)
Example closed_discard_sender_drops_sender :
  let q := qrun (mkQ true 1 1 1 (fun _ => None) (fun _ => None) (fun _ => false) (fun _ => false))
                [OAdd 1 1 0 (Some []) 5%N; OClose; ODiscardSender 5%N] in
  new_queue (mkSnap 1 1 1 [] []) =
    Some (mkQ true 1 1 1 (fun _ => None) (fun _ => None) (fun _ => false) (fun _ => false)) /\
  q_open q = false /\ q_files q 0 = Some [] /\ q_senders q 0 = None.
Proof. repeat split; reflexivity. Qed.

(* why QInv_step asks [qop_ok]: Add with a negative index is accepted by the model *)
Example negative_add_accepted :
  let q := mkQ true 1 1 1 (fun _ => None) (fun _ => None) (fun _ => false) (fun _ => false) in
  snd (q_add q 1 1 (-1) (Some []) 5%N) = AddTrue /\
  q_files (fst (q_add q 1 1 (-1) (Some []) 5%N)) (-1) = Some [].
Proof. split; reflexivity. Qed.

Print Assumptions queue_refines.
Print Assumptions queue_refines_run.
Print Assumptions next_chunk_least.
