(* C14 — State sync bootstraps only to light-verified state that the app reproduces.
   Only the property statements; each is closed by [exact] of a lemma of the proof files
   (C14/Proofs.v re-exports PQueue, PPool, PSyncA..D) and followed by Print Assumptions.

   Vocabulary.  [reach pv disc ties evs] is the state of the syncer machine of Model.v after the
   history [evs] of events (reactor deliveries, application replies, chunk timeouts), for an
   arbitrary state provider [pv], discovery flag and tie-breaking of Best(); [s_journal] is the
   list of calls the application has received (newest first); [ev_ok]: uint32 fields of events
   are not negative.  The theorems are about the code WITH the F20 repair (AddChunk refuses a
   rejected sender). *)
From Coq Require Import String List ZArith NArith Bool.
From TM Require Import Common.Hex Generated.Consts C14.Model C14.Spec C14.Proofs.
Import ListNotations.
Open Scope Z_scope.

(* ---- chunks reach the application in index order with the bytes and sender recorded ---- *)

(* The chunk queue refines, for every operation sequence, a specification that keeps ONE map
   index -> (bytes, sender) "recorded at arrival" and one set "returned": same answers of Add and
   Next, same abstract state (while the queue is open). *)
Theorem C14_queue_refines_spec : forall (s : snapshot) (q : cqueue) (ops : list qop),
  new_queue s = Some q -> 0 <= sn_chunks s ->
  let a0 := mkSQ true (sn_height s) (sn_format s) (sn_chunks s) (fun _ => None) (fun _ => false) in
  abs_eq (qrun q ops) (srun a0 ops) /\ qtrace q ops = strace a0 ops.
Proof. exact queue_refines_from_new. Qed.
Print Assumptions C14_queue_refines_spec.

(* Next hands out the least index not returned, with the file content and the sender recorded. *)
Theorem C14_next_least_unreturned : forall (q q' : cqueue) (i : Z) (b : bytes) (s : peer),
  QInv q -> q_next q = (q', NChunk i b s) ->
  q_open q = true /\ 0 <= i < q_chunks q /\ (forall j, 0 <= j < i -> q_ret q j = true) /\
  q_ret q i = false /\ q_files q i = Some b /\ q_senders q i = Some s /\
  q' = set_ret q (upd (q_ret q) i true).
Proof. exact next_chunk_least. Qed.
Print Assumptions C14_next_least_unreturned.

(* Every ApplySnapshotChunk(i, b, sd) the application ever receives, in every history: at the
   moment of the call i is the least index of the current queue that is not returned before it,
   and (b, sd) are the queue's recorded content and sender of i. *)
Theorem C14_chunks_in_order : forall pv disc ties (evs : list event) e i b sd r,
  Forall ev_ok (evs ++ [e]) ->
  let g := reach pv disc ties evs in
  let g' := PSyncDefs.sstep pv disc g e in
  s_journal g' = CApply i b sd :: r -> s_journal g' <> s_journal g ->
  exists s q, s_cur g' = Some (s, q) /\ q_open q = true /\ 0 <= i < q_chunks q /\
    q_files q i = Some b /\ q_senders q i = Some sd /\ q_ret q i = true /\
    (forall j, 0 <= j < i -> q_ret q j = true).
Proof. exact chunks_in_order. Qed.
Print Assumptions C14_chunks_in_order.

(* ---- refetch and retry requests are honoured ---- *)

(* After applyChunks processed a reply, a chunk listed in RefetchChunks is not in the queue any
   more, whatever the verdict and the RejectSenders list (so Next waits for a new arrival). *)
Theorem C14_refetch_honoured : forall g s ah st cm i r refetch rejects s0 q j s' q',
  s_cur g = Some (s0, q) -> q_open q = true -> In j refetch ->
  s_cur (fst (after_apply g s ah st cm i r refetch rejects)) = Some (s', q') ->
  q_files q' j = None.
Proof. exact refetch_honoured_sync. Qed.
Print Assumptions C14_refetch_honoured.

(* A discarded index is unreturned and unallocated again (a fetcher can be given it). *)
Theorem C14_discard_reopens : forall q idx, q_open q = true ->
  let q' := q_discard q idx in
  q_files q' idx = None /\
  (q_files q idx <> None -> q_ret q' idx = false /\ q_alloc q' idx = false) /\
  forall j, j <> idx ->
    q_files q' j = q_files q j /\ q_ret q' j = q_ret q j /\ q_senders q' j = q_senders q j.
Proof. exact discard_effect. Qed.
Print Assumptions C14_discard_reopens.

(* After RETRY of chunk i the next chunk handed over (or waited for) has an index <= i. *)
Theorem C14_retry_honoured : forall q i q' r,
  QInv q -> q_open q = true -> 0 <= i < q_chunks q ->
  q_next (q_retry q i) = (q', r) ->
  match r with
  | NChunk k _ _ | NWait k => 0 <= k <= i
  | NDone | NNil => False
  end.
Proof. exact retry_honoured. Qed.
Print Assumptions C14_retry_honoured.

(* ---- a rejected snapshot, format or sender is never used again ---- *)

(* Pool level, all operation sequences: after Reject / RejectFormat / RejectPeer nothing of the
   rejected kind is returned by Best / Ranked / GetPeers or accepted by Add, ever. *)
Theorem C14_blacklists_final : forall ops1 o ops2,
  let p := prun new_pool (ops1 ++ o :: ops2) in
  match o with
  | PoReject s =>
      (forall ties, fst (pool_best p ties) <> Some s) /\
      ~ In s (pool_ranked p) /\
      lookup (snapshot_key s) (p_snaps p) = None /\
      forall pr, pool_add p pr s = (p, false)
  | PoRejectFormat f =>
      (forall s, In s (pool_ranked p) -> sn_format s <> f) /\
      (forall ties s, fst (pool_best p ties) = Some s -> sn_format s <> f) /\
      forall pr s, sn_format s = f -> pool_add p pr s = (p, false)
  | PoRejectPeer pr =>
      pr <> 0%N ->
      (forall s, ~ In pr (pool_get_peers p s)) /\
      forall s, pool_add p pr s = (p, false)
  | _ => True
  end.
Proof. exact blacklists_final. Qed.
Print Assumptions C14_blacklists_final.

(* Syncer level: once a snapshot key is on the blacklist, every OfferSnapshot of a snapshot with
   that key in any continuation of the history had been made before. *)
Theorem C14_rejected_snapshot_never_offered_again : forall pv disc ties evs1 evs2 k,
  p_sbl (s_pool (reach pv disc ties evs1)) k = true ->
  forall s ah, In (COffer s ah) (s_journal (reach pv disc ties (evs1 ++ evs2))) ->
  snapshot_key s = k -> In (COffer s ah) (s_journal (reach pv disc ties evs1)).
Proof. exact blacklisted_snapshot_offers_are_old. Qed.
Print Assumptions C14_rejected_snapshot_never_offered_again.

Theorem C14_rejected_format_never_offered_again : forall pv disc ties evs1 evs2 f,
  p_fbl (s_pool (reach pv disc ties evs1)) f = true ->
  forall s ah, In (COffer s ah) (s_journal (reach pv disc ties (evs1 ++ evs2))) ->
  sn_format s = f -> In (COffer s ah) (s_journal (reach pv disc ties evs1)).
Proof. exact blacklisted_format_offers_are_old. Qed.
Print Assumptions C14_rejected_format_never_offered_again.

(* … and the verdicts put it there: REJECT on an offer (likewise REJECT_SNAPSHOT, a chunk
   timeout, a failing state provider: apply_reject_snapshot_blacklists, timeout_blacklists,
   provider_failure_blacklists in PSyncC.v), REJECT_FORMAT. *)
Theorem C14_reject_verdict_final : forall pv disc ties evs1 evs2 s ah,
  s_mode (reach pv disc ties evs1) = MOffer s ah ->
  forall s' ah', In (COffer s' ah') (s_journal (reach pv disc ties (evs1 ++ EOfferReply 3 :: evs2))) ->
  snapshot_key s' = snapshot_key s -> In (COffer s' ah') (s_journal (reach pv disc ties evs1)).
Proof. exact reject_verdict_final. Qed.
Print Assumptions C14_reject_verdict_final.

Theorem C14_reject_format_verdict_final : forall pv disc ties evs1 evs2 s ah,
  s_mode (reach pv disc ties evs1) = MOffer s ah ->
  forall s' ah', In (COffer s' ah') (s_journal (reach pv disc ties (evs1 ++ EOfferReply 4 :: evs2))) ->
  sn_format s' = sn_format s -> In (COffer s' ah') (s_journal (reach pv disc ties evs1)).
Proof. exact reject_format_verdict_final. Qed.
Print Assumptions C14_reject_format_verdict_final.

(* Senders.  RejectSenders / REJECT_SENDER put the sender on the peer blacklist, which never
   shrinks; a chunk from a blacklisted sender is refused; and an ApplySnapshotChunk whose sender
   is blacklisted at the time of the call can only be the re-application (RETRY,
   RETRY_SNAPSHOT) of a chunk the current queue had already handed over ([s_qlog]). *)
Theorem C14_reject_senders_blacklists : forall pv disc g s ah st cm i r refetch rejects sd,
  s_mode g = MApply s ah st cm i -> SInv pv g -> In sd rejects -> sd <> 0%N ->
  p_pbl (s_pool (PSyncDefs.sstep pv disc g (EApplyReply r refetch rejects))) sd = true.
Proof. exact apply_reply_blacklists. Qed.
Print Assumptions C14_reject_senders_blacklists.

Theorem C14_peer_blacklist_monotone : forall pv disc g e x,
  p_pbl (s_pool g) x = true -> p_pbl (s_pool (PSyncDefs.sstep pv disc g e)) x = true.
Proof. exact pbl_mono_step. Qed.
Print Assumptions C14_peer_blacklist_monotone.

Theorem C14_rejected_chunk_refused : forall g pr h f idx body,
  p_pbl (s_pool g) pr = true ->
  add_chunk g pr h f idx body = (g, AddErr) \/ add_chunk g pr h f idx body = (g, AddFalse).
Proof. exact rejected_chunk_refused. Qed.
Print Assumptions C14_rejected_chunk_refused.

Theorem C14_rejected_sender_not_reused : forall pv disc ties evs e i b p r,
  Forall ev_ok (evs ++ [e]) ->
  let g := reach pv disc ties evs in
  let g' := PSyncDefs.sstep pv disc g e in
  s_journal g' = CApply i b p :: r -> s_journal g' <> s_journal g ->
  p_pbl (s_pool g') p = true -> In (i, b, p) (s_qlog g).
Proof. exact rejected_sender_history. Qed.
Print Assumptions C14_rejected_sender_not_reused.

(* ---- restore only if the app agrees; nothing a peer claims flows into the state ---- *)

(* SyncAny returns (st, cm) only after an Info reply carrying exactly the app hash that was
   offered, the snapshot height (as uint64, the comparison the code makes) and the app version of
   st; the offered hash, st and cm are the state provider's answers for the snapshot height. *)
Theorem C14_restore_only_if_app_agrees : forall pv disc ties evs st cm,
  Forall ev_ok evs -> s_mode (reach pv disc ties evs) = MDone (OOk st cm) ->
  exists s ah appv hash height,
    In (EInfoReply appv hash height) evs /\
    In (COffer s ah) (s_journal (reach pv disc ties evs)) /\
    pv_apphash pv (sn_height s) = ROk ah /\ pv_state pv (sn_height s) = ROk st /\
    pv_commit pv (sn_height s) = ROk cm /\
    appv = st_vapp st /\ hash = ah /\ u64 height = sn_height s.
Proof. exact restore_only_if_app_agrees. Qed.
Print Assumptions C14_restore_only_if_app_agrees.

(* With the light-client state provider every field of the returned state and commit is a
   projection of the light-verified blocks at h, h+1, h+2 (and of the hash-checked consensus
   params); of everything the peers sent only the number h enters. *)
Theorem C14_state_fields_light_verified : forall lc cp initial disc ties evs st cm,
  Forall ev_ok evs ->
  s_mode (reach (lc_provider lc cp initial) disc ties evs) = MDone (OOk st cm) ->
  exists s last cur next params appv height, let h := sn_height s in
    In (COffer s (lb_apphash cur)) (s_journal (reach (lc_provider lc cp initial) disc ties evs)) /\
    lc (to_int64 h) = ROk last /\ lc (to_int64 (u64 (h + 1))) = ROk cur /\
    lc (to_int64 (u64 (h + 2))) = ROk next /\ cp (lb_height cur) = Some params /\
    st = mkState (if initial =? 0 then 1 else initial) (lb_vblock cur) (lb_vapp cur)
                 (lb_height last) (lb_time last) (lb_blockid last)
                 (lb_apphash cur) (lb_results cur)
                 (lb_vals last) (lb_vals cur) (lb_vals next) (lb_height next)
                 params (lb_height cur) /\
    cm = lb_commit last /\
    In (EInfoReply appv (lb_apphash cur) height) evs /\ appv = lb_vapp cur /\ u64 height = h.
Proof. exact state_fields_light_verified. Qed.
Print Assumptions C14_state_fields_light_verified.

(* ---- the bootstrapped state against the specification of Spec.v ---- *)

(* Spec.v says, independently of stateprovider.go, which verified block every field of the state
   after block h comes from: LastBlockHeight/ID/Time and LastValidators from h; Version.Consensus,
   AppHash, LastResultsHash, Validators, the consensus params (by the ConsensusHash header h+1
   commits to) and LastHeightConsensusParamsChanged = h+1 from h+1; NextValidators and
   LastHeightValidatorsChanged = h+2 from h+2.  The model of State() as the code is meets it when
   the consensus_params server labels its answer with the height it was asked for ... *)
Theorem C14_state_meets_spec : forall lc rpc initial h st,
  light_client_ok lc -> 0 <= h < 2 ^ 64 ->
  (forall label ph, rpc (h + 1) = Some (label, ph) -> label = h + 1) ->
  lc_state lc (lrpc_params lc rpc) initial h = ROk st -> state_spec lc initial h st.
Proof. exact state_meets_spec. Qed.
Print Assumptions C14_state_meets_spec.

(* ... and with the F66 repair (State() compares the params it got with the ConsensusHash of the
   block h+1 it verified) for EVERY consensus_params oracle. *)
Theorem C14_state_repaired_meets_spec : forall lc cp initial h st,
  light_client_ok lc -> 0 <= h < 2 ^ 64 ->
  lc_state_fixed lc cp initial h = ROk st -> state_spec lc initial h st.
Proof. exact state_fixed_meets_spec. Qed.
Print Assumptions C14_state_repaired_meets_spec.

Theorem C14_apphash_meets_spec : forall lc h ah,
  light_client_ok lc -> 0 <= h < 2 ^ 64 -> lc_apphash lc h = ROk ah -> apphash_spec lc h ah.
Proof. exact apphash_meets_spec. Qed.
Print Assumptions C14_apphash_meets_spec.

Theorem C14_commit_meets_spec : forall lc h cm,
  light_client_ok lc -> 0 <= h < 2 ^ 64 -> lc_commit lc h = ROk cm -> commit_spec lc h cm.
Proof. exact commit_meets_spec. Qed.
Print Assumptions C14_commit_meets_spec.

(* what the harness evaluates on the real provider's answers (clauses 14, 15, 17) decides the
   specification *)
Theorem C14_spec_decided : forall lc initial h st ah cm,
  (spec_state_b lc initial h st = true <-> state_spec lc initial h st) /\
  (spec_apphash_b lc h ah = true <-> apphash_spec lc h ah) /\
  (spec_commit_b lc h cm = true <-> commit_spec lc h cm).
Proof.
  intros. split; [apply spec_state_b_iff|]. split; [apply spec_apphash_b_iff|apply spec_commit_b_iff].
Qed.
Print Assumptions C14_spec_decided.

(* verifyApp passes exactly when the application reports the trusted hash byte for byte (an empty
   trusted hash is matched by the empty report only), the snapshot height and the state's app
   version - for snapshot heights a light client can vouch for and int64 reports. *)
Theorem C14_verify_app_exact : forall s ah st appv hash height,
  0 < sn_height s < 2 ^ 63 -> - 2 ^ 63 <= height < 2 ^ 63 ->
  (verify_app s ah st appv hash height = None <->
   app_agrees (sn_height s) ah st appv hash height).
Proof. exact verify_app_exact. Qed.
Print Assumptions C14_verify_app_exact.

(* End to end, over all histories: whatever SyncAny returns with the light-client provider is the
   specified state / commit of the restored snapshot's height, and the application was offered
   and has reported the specified app hash. *)
Theorem C14_restored_state_meets_spec : forall lc rpc initial disc ties evs st cm,
  light_client_ok lc -> honest_labels rpc -> Forall ev_ok evs ->
  s_mode (reach (lc_provider lc (lrpc_params lc rpc) initial) disc ties evs) = MDone (OOk st cm) ->
  exists s ah height, let h := sn_height s in
    In (COffer s ah) (s_journal (reach (lc_provider lc (lrpc_params lc rpc) initial) disc ties evs)) /\
    state_spec lc initial h st /\ commit_spec lc h cm /\ apphash_spec lc h ah /\
    In (EInfoReply (st_vapp st) ah height) evs /\ u64 height = h.
Proof. exact restored_state_meets_spec. Qed.
Print Assumptions C14_restored_state_meets_spec.

Theorem C14_restored_state_meets_spec_repaired : forall lc cp initial disc ties evs st cm,
  light_client_ok lc -> Forall ev_ok evs ->
  s_mode (reach (lc_provider_fixed lc cp initial) disc ties evs) = MDone (OOk st cm) ->
  exists s ah height, let h := sn_height s in
    In (COffer s ah) (s_journal (reach (lc_provider_fixed lc cp initial) disc ties evs)) /\
    state_spec lc initial h st /\ commit_spec lc h cm /\ apphash_spec lc h ah /\
    In (EInfoReply (st_vapp st) ah height) evs /\ u64 height = h.
Proof. exact restored_state_meets_spec_fixed. Qed.
Print Assumptions C14_restored_state_meets_spec_repaired.

(* ---- what the node boots from: the stores after node.startStateSync ---- *)

(* startStateSync hands the state and commit to stateStore.Bootstrap and blockStore.SaveSeenCommit.
   For a state that meets state_spec and the vouched commit, on top of ANY previous store
   content: both calls succeed and afterwards every LoadValidators in [h, h+2] returns the vouched
   set of THAT height, LoadConsensusParams(h+1) the params header h+1 commits to, Load() the
   state, LoadSeenCommit(h) the vouched commit of block h. *)
Theorem C14_bootstrap_meets_spec : forall lc initial h st cm s0,
  state_spec lc initial h st -> commit_spec lc h cm ->
  exists s, node_bootstrap s0 st cm = Some s /\ bootstrapped_store_spec lc h st (store_lookups s).
Proof. exact bootstrap_meets_spec. Qed.
Print Assumptions C14_bootstrap_meets_spec.

(* ... and it stays right while the node saves the states of the following blocks, for any number
   of them: when these follow the chain (follows_chain: what updateState derives from blocks whose
   effects are the chain's), every validator lookup in [h, t+2] and every params lookup in
   [h+1, t+1] returns the chain's value of that height - records that only point to the height of
   the last change resolve, through the records Bootstrap wrote if need be, checkpoint heights
   (valSetCheckpointInterval) included. *)
Theorem C14_bootstrap_successors_resolve : forall lc initial h st cm s0 succs,
  state_spec lc initial h st ->
  follows_chain_all lc st succs ->
  exists s1 s, node_bootstrap s0 st cm = Some s1 /\ save_all s1 succs = Some s /\
    store_tracks_chain lc h (st_last_height (last_of st succs)) (store_lookups s) /\
    lk_state (store_lookups s) = Some (last_of st succs) /\
    lk_seen (store_lookups s) h = Some cm.
Proof. exact successors_resolve. Qed.
Print Assumptions C14_bootstrap_successors_resolve.

(* End to end: whatever SyncAny returns (repaired State(), any consensus_params server, any
   history) and startStateSync then stores, the node reads back the light-verified values. *)
Theorem C14_restored_node_boots_from_verified : forall lc cp initial disc ties evs st cm s0,
  light_client_ok lc -> Forall ev_ok evs ->
  s_mode (reach (lc_provider_fixed lc cp initial) disc ties evs) = MDone (OOk st cm) ->
  exists s sn, node_bootstrap s0 st cm = Some s /\
    bootstrapped_store_spec lc (sn_height sn) st (store_lookups s).
Proof.
  intros lc cp initial disc ties evs st cm s0 OK HF H.
  destruct (restored_state_meets_spec_fixed lc cp initial disc ties evs st cm OK HF H)
    as (sn & ah & height & _ & HS & HC & _).
  destruct (bootstrap_meets_spec lc initial (sn_height sn) st cm s0 HS HC) as (s & E & B).
  exists s, sn. auto.
Qed.
Print Assumptions C14_restored_node_boots_from_verified.

(* the deciders the harness evaluates on the real stores' answers (clauses 18, 19) *)
Theorem C14_store_spec_decided : forall lc z ans prev next,
  (spec_vals_lookup_b lc z ans = true <-> exists b, vouched lc z b /\ ans = Some (lb_vals b)) /\
  (follows_chain_b lc prev next = true <-> follows_chain lc prev next).
Proof. intros. split; [apply spec_vals_lookup_b_iff | apply follows_chain_b_iff]. Qed.
Print Assumptions C14_store_spec_decided.

(* Two arbitrary histories (different peers, chunks, verdicts) that restore a snapshot of the
   same height return the same state, commit and offered app hash. *)
Theorem C14_noninterference : forall pv disc1 disc2 ties1 ties2 evs1 evs2 st1 cm1 st2 cm2,
  Forall ev_ok evs1 -> Forall ev_ok evs2 ->
  s_mode (reach pv disc1 ties1 evs1) = MDone (OOk st1 cm1) ->
  s_mode (reach pv disc2 ties2 evs2) = MDone (OOk st2 cm2) ->
  exists s1 ah1 s2 ah2,
    In (COffer s1 ah1) (s_journal (reach pv disc1 ties1 evs1)) /\
    pv_apphash pv (sn_height s1) = ROk ah1 /\ pv_state pv (sn_height s1) = ROk st1 /\
    pv_commit pv (sn_height s1) = ROk cm1 /\
    In (COffer s2 ah2) (s_journal (reach pv disc2 ties2 evs2)) /\
    pv_apphash pv (sn_height s2) = ROk ah2 /\ pv_state pv (sn_height s2) = ROk st2 /\
    pv_commit pv (sn_height s2) = ROk cm2 /\
    (sn_height s1 = sn_height s2 -> st1 = st2 /\ cm1 = cm2 /\ ah1 = ah2).
Proof. exact noninterference. Qed.
Print Assumptions C14_noninterference.

(* The uint64 comparison of verifyApp is exact for every height the light client can vouch for
   (it refuses heights <= 0). *)
Theorem C14_height_exact : forall (lc : Z -> res lightblock) (h height : Z) b,
  (forall z x, lc z = ROk x -> 0 < z) -> lc (to_int64 h) = ROk b ->
  0 <= h < 2 ^ 64 -> - 2 ^ 63 <= height < 2 ^ 63 -> u64 height = h -> height = h.
Proof. exact height_exact. Qed.
Print Assumptions C14_height_exact.

(* ---- no verdict sequence leads to an unhandled case or to the re-use of a closed queue ---- *)

(* [step] is a total function: every verdict value (incl. unknown ones) has a defined outcome.
   In every history: applyChunks never dereferences a nil chunk (the F15 scenario needs a
   Discard between WaitFor firing and load; all callers of Discard/Retry/Close run on the
   goroutine that calls Next), the model's loop never runs out of fuel, and whenever the syncer
   is inside Sync its queue is open. *)
Theorem C14_no_nil_chunk : forall pv disc ties evs,
  Forall ev_ok evs -> s_mode (reach pv disc ties evs) <> MDone (OErr 8).
Proof. exact no_nil_chunk. Qed.
Print Assumptions C14_no_nil_chunk.

Theorem C14_loop_terminates_within_fuel : forall pv disc ties evs,
  Forall ev_ok evs -> s_mode (reach pv disc ties evs) <> MDone (OErr 99).
Proof. exact no_fuel_exhaustion_history. Qed.
Print Assumptions C14_loop_terminates_within_fuel.

Theorem C14_queue_open_while_syncing : forall pv disc ties evs, Forall ev_ok evs ->
  let g := reach pv disc ties evs in
  (match s_mode g with
   | MOffer _ _ | MApply _ _ _ _ _ | MWait _ _ _ _ _ | MInfo _ _ _ _ => True
   | _ => False end) ->
  exists s q, s_cur g = Some (s, q) /\ q_open q = true /\ s_insync g = true.
Proof. exact queue_open_while_syncing. Qed.
Print Assumptions C14_queue_open_while_syncing.

(* The invariant behind these, and the per-peer cap of the pool. *)
Theorem C14_syncer_invariant : forall pv disc ties evs,
  Forall ev_ok evs -> SInv pv (reach pv disc ties evs).
Proof. exact SInv_reach. Qed.
Print Assumptions C14_syncer_invariant.

Theorem C14_peer_cap : forall ops pr,
  Z.of_nat (length (p_pidx (prun new_pool ops) pr)) <= Z.max 0 recent_snapshots.
Proof. exact peer_cap. Qed.
Print Assumptions C14_peer_cap.

(* ------------------------------------------------------------------ non-vacuity *)

Definition ex_snap : snapshot := mkSnap 3 1 2 [7%N] [].
Definition ex_lb (h : Z) : lightblock := mkLB h (100 + h) 11 5 [160%N; Z.to_N h] [] [Z.to_N h] [Z.to_N (50 + h)] [9%N] [1%N].
Definition ex_lc (h : Z) : res lightblock := if (0 <? h) && (h <=? 9) then ROk (ex_lb h) else RFail.
Definition ex_pv : provider := lc_provider ex_lc (fun _ => Some [1%N]) 0.

(* a complete restoration: snapshot from peer 1, accepted, chunks 1 then 0 arrive, the
   application asks to refetch chunk 0 and rejects its sender 2, peer 2's next chunk is refused,
   peer 3 delivers, Info agrees: SyncAny returns the light-verified state *)
Definition ex_history : list event :=
  [ EAddSnapshot 1%N ex_snap; EStart; EOfferReply 1;
    EAddChunk 1%N 3 1 1 (Some [11%N]); EAddChunk 2%N 3 1 0 (Some [10%N]);
    EApplyReply 1 [0] [2%N];
    EAddChunk 2%N 3 1 0 (Some [10%N]); EAddChunk 3%N 3 1 0 (Some [12%N]);
    EApplyReply 1 [] []; EApplyReply 1 [] [];
    EInfoReply 5 [160%N; 4%N] 3 ].

Example C14_restore_nonvacuous :
  Forall ev_ok ex_history /\
  (exists st cm, s_mode (reach ex_pv false [] ex_history) = MDone (OOk st cm) /\ st_apphash st = [160%N; 4%N]) /\
  rev (s_journal (reach ex_pv false [] ex_history)) =
    [ COffer ex_snap [160%N; 4%N]; CApply 0 [10%N] 2%N; CApply 0 [12%N] 3%N; CApply 1 [11%N] 1%N; CInfo ] /\
  p_pbl (s_pool (reach ex_pv false [] ex_history)) 2%N = true.
Proof.
  split; [repeat constructor; cbn; discriminate|].
  split; [eexists; eexists; split; vm_compute; reflexivity|].
  split; vm_compute; reflexivity.
Qed.

(* the rejected sender re-applied only because of RETRY (the allowed case of
   C14_rejected_sender_not_reused): reject sender 2 and RETRY the same chunk *)
Example C14_retry_of_rejected_sender_nonvacuous :
  let evs := [ EAddSnapshot 1%N ex_snap; EStart; EOfferReply 1; EAddChunk 2%N 3 1 0 (Some [10%N]) ] in
  let g := reach ex_pv false [] evs in
  let g' := PSyncDefs.sstep ex_pv false g (EApplyReply 3 [] [2%N]) in
  s_journal g' = CApply 0 [10%N] 2%N :: s_journal g /\ p_pbl (s_pool g') 2%N = true /\
  In (0, [10%N], 2%N) (s_qlog g).
Proof. vm_compute. repeat split; auto. Qed.

(* blacklists: a concrete pool history with each kind of rejection *)
Example C14_blacklists_nonvacuous :
  let s2 := mkSnap 4 2 1 [8%N] [] in
  let p := prun new_pool [PoAdd 1%N ex_snap; PoAdd 2%N ex_snap; PoAdd 2%N s2; PoReject ex_snap; PoAdd 3%N ex_snap;
                          PoRejectPeer 2%N; PoAdd 2%N s2] in
  p_snaps p = [] /\ p_sbl p (snapshot_key ex_snap) = true /\ p_pbl p 2%N = true.
Proof. vm_compute. repeat split. Qed.

(* F20 on the unrepaired code: chunkQueue.Add itself does not know about rejected senders, so
   without the check in syncer.AddChunk the rejected sender's chunk is taken and handed over *)
Example C14_unrepaired_addchunk_refuted :
  let p := pool_reject_peer new_pool 2%N in
  pool_peer_rejected p 2%N = true /\
  exists q q', new_queue ex_snap = Some q /\ q_add q 3 1 0 (Some [10%N]) 2%N = (q', AddTrue) /\
               snd (q_next q') = NChunk 0 [10%N] 2%N.
Proof. split; [vm_compute; reflexivity|]. eexists; eexists. repeat split; vm_compute; reflexivity. Qed.

(* the uint64 comparison alone is not exact: height -1 "equals" 2^64-1 (C14_height_exact shows
   this cannot pass with the light-client provider) *)
Example C14_uint64_height_wraps : u64 (-1) = 2 ^ 64 - 1.
Proof. vm_compute. reflexivity. Qed.

(* ---- Spec.v: non-vacuity, and the lying-label witness (F66) ---- *)

(* a chain whose consensus hash, validator set, app version, app hash differ at every height *)
Definition sp_lb (h : Z) : lightblock :=
  mkLB h (100 + h) 11 (20 + h) [160%N; Z.to_N h] [176%N; Z.to_N h] [Z.to_N h] [Z.to_N (50 + h)]
       [9%N; Z.to_N h] [1%N; Z.to_N h].
Definition sp_lc (h : Z) : res lightblock := if (0 <? h) && (h <=? 9) then ROk (sp_lb h) else RFail.
Definition sp_honest (req : Z) : option (Z * bytes) := Some (req, [1%N; Z.to_N req]).
(* answers consensus_params(req) with the genuine params of height req - 1, labelled req - 1 *)
Definition sp_liar (req : Z) : option (Z * bytes) := Some (req - 1, [1%N; Z.to_N (req - 1)]).

Example C14_state_spec_nonvacuous :
  light_client_ok sp_lc /\ honest_labels sp_honest /\
  (exists st, lc_state sp_lc (lrpc_params sp_lc sp_honest) 0 3 = ROk st /\
              spec_state_b sp_lc 0 3 st = true /\ st_params st = [1%N; 4%N] /\
              st_vals st = [9%N; 4%N] /\ st_nextvals st = [9%N; 5%N] /\ st_lastvals st = [9%N; 3%N] /\
              lc_state_fixed sp_lc (lrpc_params sp_lc sp_honest) 0 3 = ROk st).
Proof.
  split.
  - intros z b. unfold sp_lc. destruct (0 <? z) eqn:E1; cbn [andb]; [|discriminate].
    destruct (z <=? 9); [|discriminate]. intros E; injection E as <-. apply Z.ltb_lt in E1. auto.
  - split; [intros req label ph E; injection E as <- _; reflexivity|].
    eexists. repeat split; vm_compute; reflexivity.
Qed.

(* F66: the unrepaired State() accepts the params of height 3 for the state after block 3 (which
   needs those of height 4) from a server that labels them honestly as "height 3": the
   specification fails; the repaired State() refuses *)
Example C14_lying_label_refuted :
  (exists st, lc_state sp_lc (lrpc_params sp_lc sp_liar) 0 3 = ROk st /\
              st_params st = [1%N; 3%N] /\ spec_state_b sp_lc 0 3 st = false) /\
  lc_state_fixed sp_lc (lrpc_params sp_lc sp_liar) 0 3 = RFail.
Proof. split; [eexists; repeat split; vm_compute; reflexivity | vm_compute; reflexivity]. Qed.

(* verifyApp with an empty trusted hash: a non-empty report is refused, the empty one accepted *)
Example C14_verify_app_empty_trusted_hash :
  verify_app ex_snap [] (mkState 1 11 5 3 0 [] [] [] [] [] [] 5 [] 4) 5 [238%N] 3 = Some 6 /\
  verify_app ex_snap [] (mkState 1 11 5 3 0 [] [] [] [] [] [] 5 [] 4) 5 [] 3 = None /\
  verify_app ex_snap [160%N] (mkState 1 11 5 3 0 [] [] [] [] [] [] 5 [] 4) 5 [] 3 = Some 6 /\
  verify_app ex_snap [160%N] (mkState 1 11 5 3 0 [] [] [] [] [] [] 5 [] 4) 5 [160%N; 0%N] 3 = Some 6.
Proof. repeat split; vm_compute; reflexivity. Qed.

(* ---- the stores after startStateSync: non-vacuity, and the wrong-variable Bootstrap ---- *)

Definition sp_state3 : sstate :=
  match lc_state sp_lc (lrpc_params sp_lc sp_honest) 0 3 with ROk st => st | _ => mkState 0 0 0 0 0 [] [] [] [] [] [] 0 [] 0 end.
(* the state after block 4 when block 4 changed the validator set (sp_lc: every height differs)
   and the one after block 5 *)
Definition sp_state4 : sstate :=
  mkState 1 11 25 4 104 [4%N] [160%N; 5%N] [176%N; 5%N] [9%N; 4%N] [9%N; 5%N] [9%N; 6%N] 6 [1%N; 5%N] 5.
Definition sp_state5 : sstate :=
  mkState 1 11 26 5 105 [5%N] [160%N; 6%N] [176%N; 6%N] [9%N; 5%N] [9%N; 6%N] [9%N; 7%N] 7 [1%N; 6%N] 6.

Example C14_bootstrap_nonvacuous :
  state_spec sp_lc 0 3 sp_state3 /\ follows_chain_all sp_lc sp_state3 [sp_state4; sp_state5] /\
  (exists s, node_bootstrap store0 sp_state3 [53%N] = Some s /\
             spec_boot_b sp_lc 3 sp_state3 (store_lookups s) = true /\
             lk_vals (store_lookups s) 5 = Some [9%N; 5%N] /\
             exists s', save_all s [sp_state4; sp_state5] = Some s' /\
                        spec_tracks_b sp_lc 3 5 (store_lookups s') = true /\
                        lk_vals (store_lookups s') 7 = Some [9%N; 7%N]).
Proof.
  split; [apply spec_state_b_iff; vm_compute; reflexivity|].
  split; [cbn [follows_chain_all]; split; [apply follows_chain_b_iff; vm_compute; reflexivity|];
          split; [apply follows_chain_b_iff; vm_compute; reflexivity|exact I]|].
  eexists. split; [vm_compute; reflexivity|]. split; [vm_compute; reflexivity|].
  split; [vm_compute; reflexivity|].
  eexists. split; [vm_compute; reflexivity|]. split; vm_compute; reflexivity.
Qed.

(* a chain whose validator set changes at height 5 only (so that the states after the snapshot
   write pointer records) *)
Definition sq_lb (h : Z) : lightblock :=
  mkLB h (100 + h) 11 20 [160%N; Z.to_N h] [176%N; Z.to_N h] [Z.to_N h] [Z.to_N (50 + h)]
       [9%N; if h <? 5 then 1%N else 2%N] [1%N].
Definition sq_lc (h : Z) : res lightblock := if (0 <? h) && (h <=? 9) then ROk (sq_lb h) else RFail.
Definition sq_state3 : sstate :=
  match lc_state sq_lc (fun _ => Some [1%N]) 0 3 with ROk st => st | _ => mkState 0 0 0 0 0 [] [] [] [] [] [] 0 [] 0 end.
Definition sq_state4 : sstate :=   (* block 4 changed nothing: LastHeightValidatorsChanged stays 5 *)
  mkState 1 11 20 4 104 [4%N] [160%N; 5%N] [176%N; 5%N] [9%N; 1%N] [9%N; 2%N] [9%N; 2%N] 5 [1%N] 4.

(* Bootstrap with the record of height h+2 written from state.Validators (the variable of the line
   above) instead of state.NextValidators *)
Definition store_bootstrap_wrong (s : sstore) (st : sstate) : option sstore :=
  let height := st_last_height st + 1 in
  obind (save_vinfo s (height - 1) (height - 1) (st_lastvals st)) (fun s1 =>
  obind (save_vinfo s1 height height (st_vals st)) (fun s2 =>
  obind (save_vinfo s2 (height + 1) (height + 1) (st_vals st)) (fun s3 =>
  Some (set_sstate (save_pinfo s3 height (st_lhcpc st) (st_params st)) st)))).

(* it fails the specification exactly where it matters: the snapshot was taken where the set
   changes at h+2; Load() still looks right; and the wrong set is what every later pointer record
   resolves to *)
Example C14_bootstrap_wrong_variable_refuted :
  state_spec sq_lc 0 3 sq_state3 /\ follows_chain sq_lc sq_state3 sq_state4 /\
  (exists s, store_bootstrap_wrong store0 sq_state3 = Some s /\
     spec_boot_b sq_lc 3 sq_state3 (store_lookups (save_seen s 3 [53%N])) = false /\
     lk_state (store_lookups s) = Some sq_state3 /\
     lk_vals (store_lookups s) 5 = Some [9%N; 1%N] /\
     exists s', store_save s sq_state4 = Some s' /\
       lk_vals (store_lookups s') 6 = Some [9%N; 1%N] /\ chain_vals sq_lc 6 = [9%N; 2%N]) /\
  (exists s, node_bootstrap store0 sq_state3 [53%N] = Some s /\
     spec_boot_b sq_lc 3 sq_state3 (store_lookups s) = true /\
     exists s', store_save s sq_state4 = Some s' /\ lk_vals (store_lookups s') 6 = Some [9%N; 2%N]).
Proof.
  split; [apply spec_state_b_iff; vm_compute; reflexivity|].
  split; [apply follows_chain_b_iff; vm_compute; reflexivity|].
  split.
  - eexists. split; [vm_compute; reflexivity|]. split; [vm_compute; reflexivity|].
    split; [vm_compute; reflexivity|]. split; [vm_compute; reflexivity|].
    eexists. split; [vm_compute; reflexivity|]. split; vm_compute; reflexivity.
  - eexists. split; [vm_compute; reflexivity|]. split; [vm_compute; reflexivity|].
    eexists. split; vm_compute; reflexivity.
Qed.
