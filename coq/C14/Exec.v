(* C14 — executable side of the correspondence check.  The Go harness
   (harness/overlay/statesync/verif_c14_*_test.go) runs the real chunkQueue, snapshotPool,
   syncer.SyncAny (as a co-routine: scripted recording ABCI application, scripted peers, stub
   StateProvider, no fetcher goroutines) and lightClientStateProvider, and writes per case the
   inputs and what the implementation answered.  [check]
     (a) evaluates the property's monitors on the implementation's own answers with a small
         reference bookkeeping (one map index -> (bytes, sender) recorded at arrival, the set of
         returned indices, the sets of rejected things) that does not use Model.v's queue, pool
         or syncer, and
     (b) compares the implementation's answers with the model's.
   Depends on Model.v and Spec.v (definitions only, no proofs). *)
From Coq Require Import String List ZArith NArith Bool.
From TM Require Import Common.Hex Generated.Consts.
From TM Require Export C14.Model C14.Spec.
Import ListNotations.
Open Scope Z_scope.

Definition mism (b : bool) (code : N) : verdict := if b then V_ok else V_mismatch code.
Definition viol (b : bool) (clause : N) : verdict := if b then V_ok else V_violation clause.

Definition list_eqb {A B} (eqb : A -> B -> bool) (a : list A) (b : list B) : bool :=
  Nat.eqb (List.length a) (List.length b) && forallb (fun '(x, y) => eqb x y) (combine a b).

Definition snapT := (Z * Z * Z * string * string)%type.     (* height, format, chunks, hash, metadata *)
Definition mk_snap (t : snapT) : snapshot :=
  let '(h, f, c, hs, md) := t in mkSnap h f c (unhex hs) (unhex md).
Definition snap_eqb (a b : snapshot) : bool :=
  (sn_height a =? sn_height b) && (sn_format a =? sn_format b) && (sn_chunks a =? sn_chunks b)
  && bytes_eqb (sn_hash a) (sn_hash b) && bytes_eqb (sn_meta a) (sn_meta b).

Definition obody (o : option string) : option bytes :=
  match o with Some s => Some (unhex s) | None => None end.

(* ------------------------------------------------------------------ reference bookkeeping *)

Record mon := mkM {
  m_open : bool; m_h : Z; m_f : Z; m_n : Z;
  m_cont : Z -> option (bytes * peer);   (* chunk recorded at arrival, until discarded *)
  m_ret : Z -> bool;                     (* handed to the application and not retried/discarded *)
  m_seen : Z -> bool;                    (* handed to the application at least once since arrival *)
  m_rej : peer -> bool;                  (* senders / peers the application rejected *)
  m_rejk : list key;                     (* rejected snapshots *)
  m_rejf : list Z;                       (* rejected formats *)
  m_bad : list N }.                      (* violated clauses, newest first *)

Definition mon0 : mon :=
  mkM false 0 0 0 (fun _ => None) (fun _ => false) (fun _ => false) (fun _ => false) [] [] [].

Definition flag (m : mon) (ok : bool) (c : N) : mon :=
  if ok then m
  else mkM (m_open m) (m_h m) (m_f m) (m_n m) (m_cont m) (m_ret m) (m_seen m) (m_rej m) (m_rejk m) (m_rejf m) (c :: m_bad m).
Definition m_set_q (m : mon) o h f n cont ret seen : mon :=
  mkM o h f n cont ret seen (m_rej m) (m_rejk m) (m_rejf m) (m_bad m).
Definition m_with (m : mon) cont ret seen : mon := m_set_q m (m_open m) (m_h m) (m_f m) (m_n m) cont ret seen.

Definition a_new (m : mon) (h f n : Z) : mon :=
  m_set_q m true h f n (fun _ => None) (fun _ => false) (fun _ => false).
Definition a_close (m : mon) : mon := m_set_q m false (m_h m) (m_f m) (m_n m) (m_cont m) (m_ret m) (m_seen m).

Definition is_none {A} (o : option A) : bool := match o with None => true | Some _ => false end.

(* an arrival the implementation accepted *)
Definition a_added (m : mon) (h f idx : Z) (b : option bytes) (sd : peer) : mon :=
  match b with
  | None => flag m false 2
  | Some bs =>
    let m := flag m (m_open m && (h =? m_h m) && (f =? m_f m) && (0 <=? idx) && (idx <? m_n m)
                     && is_none (m_cont m idx)) 2 in
    let m := flag m (negb (m_rej m sd)) 6 in
    m_with m (upd (m_cont m) idx (Some (bs, sd))) (m_ret m) (upd (m_seen m) idx false)
  end.

Definition a_discard (m : mon) (idx : Z) : mon :=
  if m_open m && negb (is_none (m_cont m idx))
  then m_with m (upd (m_cont m) idx None) (upd (m_ret m) idx false) (upd (m_seen m) idx false)
  else m.

Definition a_discard_sender (m : mon) (p : peer) : mon :=
  if m_open m then
    let hit i := match m_cont m i with Some (_, s) => (s =? p)%N && negb (m_ret m i) | None => false end in
    m_with m (fun i => if hit i then None else m_cont m i) (m_ret m)
           (fun i => if hit i then false else m_seen m i)
  else m.

Definition a_retry (m : mon) (i : Z) : mon := m_with m (m_cont m) (upd (m_ret m) i false) (m_seen m).
Definition a_retry_all (m : mon) : mon := m_with m (m_cont m) (fun _ => false) (m_seen m).
Definition a_reject_sender (m : mon) (p : peer) : mon :=
  mkM (m_open m) (m_h m) (m_f m) (m_n m) (m_cont m) (m_ret m) (m_seen m) (updP (m_rej m) p true) (m_rejk m) (m_rejf m) (m_bad m).
Definition a_reject_key (m : mon) (k : key) : mon :=
  mkM (m_open m) (m_h m) (m_f m) (m_n m) (m_cont m) (m_ret m) (m_seen m) (m_rej m) (k :: m_rejk m) (m_rejf m) (m_bad m).
Definition a_reject_format (m : mon) (f : Z) : mon :=
  mkM (m_open m) (m_h m) (m_f m) (m_n m) (m_cont m) (m_ret m) (m_seen m) (m_rej m) (m_rejk m) (f :: m_rejf m) (m_bad m).

Definition least_unreturned (m : mon) : option Z :=
  if m_open m then first_idx (fun i => negb (m_ret m i)) 0 (Z.to_nat (m_n m)) else None.

Definition oz_eqb (a b : option Z) : bool :=
  match a, b with Some x, Some y => x =? y | None, None => true | _, _ => false end.

(* the implementation handed chunk (i, b, sd) to the application *)
Definition a_chunk (m : mon) (i : Z) (b : bytes) (sd : peer) : mon :=
  let m := flag m (oz_eqb (least_unreturned m) (Some i)) 1 in
  let m := match m_cont m i with
           | None => flag m false 3
           | Some (b', sd') => flag m (bytes_eqb b b' && (sd =? sd')%N) 2
           end in
  let m := flag m (negb (m_rej m sd) || m_seen m i) 5 in
  m_with m (m_cont m) (upd (m_ret m) i true) (upd (m_seen m) i true).

(* the implementation reports "all chunks returned" *)
Definition a_done (m : mon) : mon := flag m (is_none (least_unreturned m)) 4.
(* the implementation waits for index i *)
Definition a_wait (m : mon) (i : Z) : mon := flag m (oz_eqb (least_unreturned m) (Some i)) 1.

Definition mon_verdicts (m : mon) : list verdict := map V_violation (rev (m_bad m)).

(* ------------------------------------------------------------------ chunk queue cases *)

Inductive qopT :=
| QAdd (h f idx : Z) (body : option string) (sender : N)
| QAllocate | QClose | QDiscard (idx : Z) | QDiscardSender (p : N) | QGetSender (idx : Z)
| QHas (idx : Z) | QNext | QRetry (idx : Z) | QRetryAll | QSize | QWaitFor (idx : Z).

(* answer of one operation: (code, index, bytes, sender)
   Add: code 0 false / 1 true / 2 error.  Allocate: code 1 + index, 0 = errDone.
   Next: code 0 errDone, 1 would wait for index, 2 chunk (index, bytes, sender), 3 nil chunk.
   GetSender: sender.  Has: code.  Size: index.  WaitFor: code (see q_wait_for). *)
Definition qresT := (Z * Z * string * N)%type.

Definition qres_eqb (a b : qresT) : bool :=
  let '(c, i, s, p) := a in let '(c', i', s', p') := b in
  (c =? c') && (i =? i') && bytes_eqb (unhex s) (unhex s') && (p =? p')%N.

Definition hexless (b : bytes) : qresT -> qresT := fun r => r.

(* model answers are compared as (code, index, bytes, sender) with bytes kept as [bytes] *)
Definition qresM := (Z * Z * bytes * N)%type.
Definition qresM_eqb (a : qresM) (b : qresT) : bool :=
  let '(c, i, s, p) := a in let '(c', i', s', p') := b in
  (c =? c') && (i =? i') && bytes_eqb s (unhex s') && (p =? p')%N.

Definition q_op (q : cqueue) (o : qopT) : cqueue * qresM :=
  match o with
  | QAdd h f idx body sd =>
    let '(q', r) := q_add q h f idx (obody body) sd in (q', (add_code r, 0, [], 0%N))
  | QAllocate =>
    match q_allocate q with (q', Some i) => (q', (1, i, [], 0%N)) | (q', None) => (q', (0, 0, [], 0%N)) end
  | QClose => (q_close q, (0, 0, [], 0%N))
  | QDiscard idx => (q_discard q idx, (0, 0, [], 0%N))
  | QDiscardSender p => (q_discard_sender q p, (0, 0, [], 0%N))
  | QGetSender idx => (q, (0, 0, [], q_get_sender q idx))
  | QHas idx => (q, ((if q_has q idx then 1 else 0), 0, [], 0%N))
  | QNext =>
    match q_next q with
    | (q', NDone) => (q', (0, 0, [], 0%N))
    | (q', NWait i) => (q', (1, i, [], 0%N))
    | (q', NChunk i b s) => (q', (2, i, b, s))
    | (q', NNil) => (q', (3, 0, [], 0%N))
    end
  | QRetry idx => (q_retry q idx, (0, 0, [], 0%N))
  | QRetryAll => (q_retry_all q, (0, 0, [], 0%N))
  | QSize => (q, (0, q_size q, [], 0%N))
  | QWaitFor idx => (q, (q_wait_for q idx, 0, [], 0%N))
  end.

Fixpoint q_ops (q : cqueue) (ops : list qopT) : list qresM :=
  match ops with
  | [] => []
  | o :: r => let '(q', a) := q_op q o in a :: q_ops q' r
  end.

(* monitor of a queue history on the implementation's answers *)
Definition q_mon_op (m : mon) (o : qopT) (a : qresT) : mon :=
  let '(c, i, s, p) := a in
  match o with
  | QAdd h f idx body sd => if c =? 1 then a_added m h f idx (obody body) sd else m
  | QClose => a_close m
  | QDiscard idx => a_discard m idx
  | QDiscardSender pr => a_discard_sender m pr
  | QNext => if c =? 2 then a_chunk m i (unhex s) p
             else if c =? 1 then a_wait m i
             else if c =? 0 then a_done m
             else flag m false 3
  | QRetry idx => a_retry m idx
  | QRetryAll => a_retry_all m
  | _ => m
  end.

Fixpoint q_mon (m : mon) (ops : list qopT) (ans : list qresT) : mon :=
  match ops, ans with
  | o :: r, a :: ar => q_mon (q_mon_op m o a) r ar
  | _, _ => m
  end.

(* ------------------------------------------------------------------ pool cases *)

Inductive popT :=
| PAdd (pr : N) (s : nat) | PReject (s : nat) | PRejectFormat (f : Z) | PRejectPeer (pr : N)
| PRemovePeer (pr : N).

(* after each operation: result code (Add: 1 = true) and Ranked() as (table index, GetPeers) *)
Definition pobsT := (Z * list (nat * list N))%type.

Definition nth_snap (tbl : list snapshot) (i : nat) : snapshot := nth i tbl (mkSnap 0 0 0 [] []).

Definition p_op (tbl : list snapshot) (p : pool) (o : popT) : pool * Z :=
  match o with
  | PAdd pr s => let '(p', b) := pool_add p pr (nth_snap tbl s) in (p', if b then 1 else 0)
  | PReject s => (pool_reject p (nth_snap tbl s), 0)
  | PRejectFormat f => (pool_reject_format p f, 0)
  | PRejectPeer pr => (pool_reject_peer p pr, 0)
  | PRemovePeer pr => (remove_peer p pr, 0)
  end.

Definition peers_eqb (a b : list N) : bool := list_eqb N.eqb a b.

(* the implementation's Ranked() is an admissible answer for the model's pool: same snapshots
   (every model snapshot exactly once), same peers, no element better than its predecessor *)
Fixpoint sorted_by (p : pool) (l : list snapshot) : bool :=
  match l with
  | a :: ((b :: _) as r) => negb (better p b a) && sorted_by p r
  | _ => true
  end.
Fixpoint nodup_keys (l : list key) : bool :=
  match l with [] => true | k :: r => negb (mem_key k r) && nodup_keys r end.

Definition ranked_ok (tbl : list snapshot) (p : pool) (obs : list (nat * list N)) : bool :=
  let l := map (fun e => nth_snap tbl (fst e)) obs in
  Nat.eqb (List.length l) (List.length (p_snaps p))
  && nodup_keys (map snapshot_key l)
  && forallb (fun s => match lookup (snapshot_key s) (p_snaps p) with
                       | Some s' => snap_eqb s s' | None => false end) l
  && sorted_by p l
  && forallb (fun e => peers_eqb (pool_get_peers p (nth_snap tbl (fst e))) (snd e)) obs.

Fixpoint p_cmp (tbl : list snapshot) (p : pool) (ops : list popT) (obs : list pobsT) (n : N) : verdict :=
  match ops, obs with
  | o :: r, (c, rk) :: obr =>
    let '(p', c') := p_op tbl p o in
    if negb (c =? c') then V_mismatch 31
    else if negb (ranked_ok tbl p' rk) then V_mismatch 32
    else p_cmp tbl p' r obr (n + 1)
  | [], [] => V_ok
  | _, _ => V_mismatch 33
  end.

(* monitors on the implementation's answers alone *)
Definition better_obs (a b : snapshot * list N) : bool :=
  let '(sa, pa) := a in let '(sb, pb) := b in
  if sn_height sb <? sn_height sa then true
  else if sn_height sa <? sn_height sb then false
  else if sn_format sb <? sn_format sa then true
  else if sn_format sa <? sn_format sb then false
  else (List.length pb <? List.length pa)%nat.
Fixpoint sorted_obs (l : list (snapshot * list N)) : bool :=
  match l with
  | a :: ((b :: _) as r) => negb (better_obs b a) && sorted_obs r
  | _ => true
  end.

Definition mem_z (z : Z) (l : list Z) : bool := existsb (Z.eqb z) l.

Fixpoint p_mon (tbl : list snapshot) (m : mon) (ops : list popT) (obs : list pobsT) : mon :=
  match ops, obs with
  | o :: r, (c, rk) :: obr =>
    let m := match o with
             | PAdd pr s =>
               let sn := nth_snap tbl s in
               flag (flag m (negb (c =? 1) || negb (mem_key (snapshot_key sn) (m_rejk m) || mem_z (sn_format sn) (m_rejf m))) 7)
                    (negb (c =? 1) || negb (m_rej m pr)) 8
             | PReject s => a_reject_key m (snapshot_key (nth_snap tbl s))
             | PRejectFormat f => a_reject_format m f
             | PRejectPeer pr => if (pr =? 0)%N then m else a_reject_sender m pr
             | PRemovePeer _ => m
             end in
    let l := map (fun e => (nth_snap tbl (fst e), snd e)) rk in
    let m := flag m (forallb (fun e => negb (mem_key (snapshot_key (fst e)) (m_rejk m) || mem_z (sn_format (fst e)) (m_rejf m))) l) 7 in
    let m := flag m (forallb (fun e => forallb (fun pr => negb (m_rej m pr)) (snd e)) l) 8 in
    let m := flag m (sorted_obs l) 12 in
    let peers := flat_map snd l in
    let m := flag m (forallb (fun pr => Z.of_nat (List.length (filter (N.eqb pr) peers)) <=? statesync_recent_snapshots) peers) 13 in
    p_mon tbl m r obr
  | _, _ => m
  end.

(* ------------------------------------------------------------------ SyncAny cases *)

Inductive evT :=
| TStart
| TAddSnapshot (pr : N) (s : snapT)
| TRemovePeer (pr : N)
| TAddChunk (pr : N) (h f idx : Z) (body : option string)
| TOfferReply (r : Z)
| TApplyReply (r : Z) (refetch : list Z) (rejects : list N)
| TInfoReply (appv : Z) (hash : string) (height : Z).

Definition mk_event (e : evT) : event :=
  match e with
  | TStart => EStart
  | TAddSnapshot pr s => EAddSnapshot pr (mk_snap s)
  | TRemovePeer pr => ERemovePeer pr
  | TAddChunk pr h f idx body => EAddChunk pr h f idx (obody body)
  | TOfferReply r => EOfferReply r
  | TApplyReply r rf rj => EApplyReply r rf rj
  | TInfoReply v hs hg => EInfoReply v (unhex hs) hg
  end.

(* the time line of one run, as the harness saw it *)
Inductive item :=
| IEv (e : evT) (code : Z)                  (* the driver performed e; result of the call *)
| IOffer (s : snapT) (apphash : string)     (* the application received OfferSnapshot *)
| IApply (i : Z) (b : string) (sd : N)      (* the application received ApplySnapshotChunk *)
| IInfo                                     (* the application received Info *)
| IPeers (ps : list N)                      (* GetPeers(snapshot) read just before a REJECT_SENDER reply *)
| IDone (code : Z) (appv : Z) (mark : string) (lasth : Z) (cm : string).
   (* SyncAny returned: 0 ok (+ app version, AppHash, LastBlockHeight of the state, commit),
      1 abort, 2 no snapshots, 12 ErrNoWitnesses, 16 errVerifyFailed, 18 panic, 19 other error *)

(* stub StateProvider: per height (AppHash, State, Commit) results: 0 ok, 1 error, 2 ErrNoWitnesses *)
Definition provT := (Z * (Z * string) * (Z * Z * string) * (Z * string))%type.
   (* height, (apphash code, app hash), (state code, app version, marker = state.AppHash), (commit code, commit marker) *)

Definition mk_res {A} (c : Z) (a : A) : res A := if c =? 0 then ROk a else if c =? 2 then RNoWitnesses else RFail.
Definition mk_sstate (h appv : Z) (mark : bytes) : sstate :=
  mkState 1 11 appv h 0 [] mark [] [] [] [] 0 [] 0.

Fixpoint prov_find (t : list provT) (h : Z) : option provT :=
  match t with
  | [] => None
  | ((h', _, _, _) as e) :: r => if h' =? h then Some e else prov_find r h
  end.
Definition mk_provider (t : list provT) : provider :=
  mkProv (fun h => match prov_find t h with Some (_, (c, a), _, _) => mk_res c (unhex a) | None => RFail end)
         (fun h => match prov_find t h with Some (_, _, (c, v, mk), _) => mk_res c (mk_sstate h v (unhex mk)) | None => RFail end)
         (fun h => match prov_find t h with Some (_, _, _, (c, cm)) => mk_res c (unhex cm) | None => RFail end).

Definition events_of (tl : list item) : list (event * Z) :=
  flat_map (fun it => match it with IEv e c => [(mk_event e, c)] | _ => [] end) tl.

Definition calls_of (tl : list item) : list call :=
  flat_map (fun it => match it with
                      | IOffer s ah => [COffer (mk_snap s) (unhex ah)]
                      | IApply i b sd => [CApply i (unhex b) sd]
                      | IInfo => [CInfo]
                      | _ => [] end) tl.

Definition call_eqb (a b : call) : bool :=
  match a, b with
  | COffer s ah, COffer s' ah' => snap_eqb s s' && bytes_eqb ah ah'
  | CApply i b sd, CApply i' b' sd' => (i =? i') && bytes_eqb b b' && (sd =? sd')%N
  | CInfo, CInfo => true
  | _, _ => false
  end.

(* ties: the snapshots the implementation offered, in order, without the re-offers that follow a
   RETRY_SNAPSHOT verdict *)
Fixpoint ties_of (tl : list item) (retry : bool) : list key :=
  match tl with
  | [] => []
  | IOffer s _ :: r => if retry then ties_of r false else snapshot_key (mk_snap s) :: ties_of r false
  | IEv (TApplyReply v _ _) _ :: r => ties_of r (v =? 4)
  | _ :: r => ties_of r retry
  end.

Definition outcome_code (m : mode) : Z :=
  match m with
  | MDone (OOk _ _) => 0 | MDone OAbort => 1 | MDone ONoSnapshots => 2
  | MDone (OErr 2) => 12 | MDone (OErr 6) | MDone (OErr 7) => 16 | MDone (OErr 8) => 18
  | MDone (OErr 99) => 99 | MDone (OErr _) => 19
  | _ => -1
  end.

Definition done_of (tl : list item) : option (Z * Z * string * Z * string) :=
  match filter (fun it => match it with IDone _ _ _ _ _ => true | _ => false end) tl with
  | IDone c v mk lh cm :: _ => Some (c, v, mk, lh, cm)
  | _ => None
  end.

(* monitor over the time line *)
Record smon := mkSM {
  sm_m : mon;
  sm_cur : option (snapshot * bytes);   (* snapshot under restoration and the app hash offered with it *)
  sm_last_apply : Z;                    (* index of the outstanding / last ApplySnapshotChunk *)
  sm_retry : bool;                      (* the last verdict was RETRY_SNAPSHOT *)
  sm_peers : list N;                    (* last IPeers *)
  sm_info : option (Z * bytes * Z);     (* last Info reply *)
  sm_over : bool }.                     (* SyncAny returned or the application aborted *)

Definition sm_flag (s : smon) ok c := mkSM (flag (sm_m s) ok c) (sm_cur s) (sm_last_apply s) (sm_retry s) (sm_peers s) (sm_info s) (sm_over s).
Definition sm_setm (s : smon) m := mkSM m (sm_cur s) (sm_last_apply s) (sm_retry s) (sm_peers s) (sm_info s) (sm_over s).

Definition sm_reject_cur (s : smon) : smon :=
  match sm_cur s with
  | Some (sn, _) => mkSM (a_close (a_reject_key (sm_m s) (snapshot_key sn))) None (sm_last_apply s) false (sm_peers s) (sm_info s) (sm_over s)
  | None => s
  end.

Definition sm_item (pv : provider) (s : smon) (it : item) : smon :=
  match it with
  | IEv (TAddSnapshot pr sn) c =>
    let k := snapshot_key (mk_snap sn) in
    let m := sm_m s in
    sm_setm s (flag (flag m (negb (c =? 1) || negb (mem_key k (m_rejk m) || mem_z (sn_format (mk_snap sn)) (m_rejf m))) 7)
                    (negb (c =? 1) || negb (m_rej m pr)) 8)
  | IEv (TAddChunk pr h f idx body) c =>
    if c =? 1 then sm_setm s (a_added (sm_m s) h f idx (obody body) pr) else s
  | IEv (TOfferReply r) _ =>
    if r =? 1 then s
    else if r =? 2 then mkSM (sm_m s) (sm_cur s) (sm_last_apply s) false (sm_peers s) (sm_info s) true
    else if r =? 3 then sm_reject_cur s
    else if r =? 4 then
      match sm_cur s with
      | Some (sn, _) => mkSM (a_close (a_reject_format (sm_m s) (sn_format sn))) None (sm_last_apply s) false (sm_peers s) (sm_info s) (sm_over s)
      | None => s end
    else if r =? 5 then
      mkSM (a_close (fold_left a_reject_sender (filter (fun p => negb (p =? 0)%N) (sm_peers s)) (sm_m s))) None (sm_last_apply s) false (sm_peers s) (sm_info s) (sm_over s)
    else mkSM (sm_m s) (sm_cur s) (sm_last_apply s) false (sm_peers s) (sm_info s) true
  | IEv (TApplyReply r refetch rejects) _ =>
    let m := fold_left a_discard refetch (sm_m s) in
    let m := fold_left (fun m p => if (p =? 0)%N then m else a_discard_sender (a_reject_sender m p) p) rejects m in
    let s := sm_setm s m in
    if r =? 1 then s
    else if r =? 3 then sm_setm s (a_retry m (sm_last_apply s))
    else if r =? 4 then mkSM (a_retry_all m) (sm_cur s) (sm_last_apply s) true (sm_peers s) (sm_info s) (sm_over s)
    else if r =? 5 then sm_reject_cur s
    else mkSM m (sm_cur s) (sm_last_apply s) false (sm_peers s) (sm_info s) true
  | IEv (TInfoReply v hs hg) _ => mkSM (sm_m s) (sm_cur s) (sm_last_apply s) (sm_retry s) (sm_peers s) (Some (v, unhex hs, hg)) (sm_over s)
  | IEv _ _ => s
  | IPeers ps => mkSM (sm_m s) (sm_cur s) (sm_last_apply s) (sm_retry s) ps (sm_info s) (sm_over s)
  | IOffer sn ah =>
    let sp := mk_snap sn in
    let k := snapshot_key sp in
    let s := sm_flag s (negb (sm_over s)) 11 in
    let m := sm_m s in
    (* never offer a rejected snapshot or format *)
    let m := flag m (negb (mem_key k (m_rejk m) || mem_z (sn_format sp) (m_rejf m))) 7 in
    (* the app hash offered is the state provider's for that height *)
    let m := flag m (match pv_apphash pv (sn_height sp) with ROk a => bytes_eqb a (unhex ah) | _ => false end) 9 in
    let m := if sm_retry s then m else a_new m (sn_height sp) (sn_format sp) (sn_chunks sp) in
    mkSM m (Some (sp, unhex ah)) (sm_last_apply s) false (sm_peers s) None (sm_over s)
  | IApply i b sd =>
    let s := sm_flag s (negb (sm_over s)) 11 in
    mkSM (a_chunk (sm_m s) i (unhex b) sd) (sm_cur s) i false (sm_peers s) (sm_info s) (sm_over s)
  | IInfo =>
    let s := sm_flag s (negb (sm_over s)) 11 in
    sm_setm s (a_done (sm_m s))
  | IDone c v mk lh cm =>
    let s :=
      if c =? 0 then
        match sm_cur s, sm_info s with
        | Some (sp, ah), Some (iv, ihash, ih) =>
          let h := sn_height sp in
          sm_flag s ((iv =? v) && bytes_eqb ihash ah && (ih =? h)
                     && match pv_state pv h with
                        | ROk st => (st_vapp st =? v) && bytes_eqb (st_apphash st) (unhex mk) && (st_last_height st =? lh)
                        | _ => false end
                     && match pv_commit pv h with ROk c' => bytes_eqb c' (unhex cm) | _ => false end
                     && match pv_apphash pv h with ROk a => bytes_eqb a ah | _ => false end) 9
        | _, _ => sm_flag s false 9
        end
      else s in
    mkSM (sm_m s) (sm_cur s) (sm_last_apply s) false (sm_peers s) (sm_info s) true
  end.

Definition sm0 : smon := mkSM mon0 None 0 false [] None false.

(* ------------------------------------------------------------------ state provider cases *)

Definition lbT := (Z * Z * Z * Z * string * string * string * string * string * string)%type.
Definition mk_lb (t : lbT) : lightblock :=
  let '(h, tm, vb, va, ah, rs, bid, cm, vals, ch) := t in
  mkLB h tm vb va (unhex ah) (unhex rs) (unhex bid) (unhex cm) (unhex vals) (unhex ch).

(* oracle: heights the light client verifies (others fail) *)
Fixpoint lc_find (t : list lbT) (h : Z) : res lightblock :=
  match t with
  | [] => RFail
  | e :: r => if lb_height (mk_lb e) =? h then ROk (mk_lb e) else lc_find r h
  end.

(* the consensus_params stub: requested height -> answer (label = BlockHeight, hash of the
   params served); None / not listed = error (or params ValidateConsensusParams refuses) *)
Definition rpcT := (Z * option (Z * string))%type.
Fixpoint rpc_find (t : list rpcT) (req : Z) : option (Z * bytes) :=
  match t with
  | [] => None
  | (r, a) :: rest =>
    if r =? req then match a with Some (l, p) => Some (l, unhex p) | None => None end
    else rpc_find rest req
  end.

Definition stateT := (Z * Z * Z * Z * Z * string * string * string * string * string * string * Z * string * Z)%type.
Definition state_eqb (a : sstate) (t : stateT) : bool :=
  let '(ini, vb, va, lh, lt, lbid, ah, rs, lv, v, nv, lhvc, pr, lhcpc) := t in
  (st_initial a =? ini) && (st_vblock a =? vb) && (st_vapp a =? va) && (st_last_height a =? lh)
  && (st_last_time a =? lt) && bytes_eqb (st_last_blockid a) (unhex lbid)
  && bytes_eqb (st_apphash a) (unhex ah) && bytes_eqb (st_results a) (unhex rs)
  && bytes_eqb (st_lastvals a) (unhex lv) && bytes_eqb (st_vals a) (unhex v)
  && bytes_eqb (st_nextvals a) (unhex nv) && (st_lhvc a =? lhvc)
  && bytes_eqb (st_params a) (unhex pr) && (st_lhcpc a =? lhcpc).

Definition mk_state_of (t : stateT) : sstate :=
  let '(ini, vb, va, lh, lt, lbid, ah, rs, lv, v, nv, lhvc, pr, lhcpc) := t in
  mkState ini vb va lh lt (unhex lbid) (unhex ah) (unhex rs) (unhex lv) (unhex v) (unhex nv) lhvc
          (unhex pr) lhcpc.

(* ------------------------------------------------------------------ bootstrap cases *)

(* what the harness read back from a real state store / block store *)
Inductive bobs :=
| OVals (phase z code : Z) (v : string)    (* LoadValidators(z): 0 ok (hash of the set), 1 error *)
| OParams (phase z code : Z) (v : string)  (* LoadConsensusParams(z): 0 ok (HashConsensusParams), 1 error, 2 the empty params *)
| OState (phase code : Z) (st : stateT)    (* Load(): 0 ok *)
| OSeen (phase z code : Z) (v : string).   (* LoadSeenCommit(z): 0 ok (hash of the commit), 1 none *)
   (* phase k: read after k successor states were saved on top of the bootstrap *)

Fixpoint obs_vals (obs : list bobs) (ph z : Z) : option bytes :=
  match obs with
  | [] => None
  | OVals p z' c v :: r => if (p =? ph) && (z' =? z) then (if c =? 0 then Some (unhex v) else None) else obs_vals r ph z
  | _ :: r => obs_vals r ph z
  end.
Fixpoint obs_params (obs : list bobs) (ph z : Z) : option (option bytes) :=
  match obs with
  | [] => None
  | OParams p z' c v :: r =>
    if (p =? ph) && (z' =? z) then (if c =? 0 then Some (Some (unhex v)) else if c =? 2 then Some None else None)
    else obs_params r ph z
  | _ :: r => obs_params r ph z
  end.
Fixpoint obs_state (obs : list bobs) (ph : Z) : option sstate :=
  match obs with
  | [] => None
  | OState p c st :: r => if p =? ph then (if c =? 0 then Some (mk_state_of st) else None) else obs_state r ph
  | _ :: r => obs_state r ph
  end.
Fixpoint obs_seen (obs : list bobs) (ph z : Z) : option bytes :=
  match obs with
  | [] => None
  | OSeen p z' c v :: r => if (p =? ph) && (z' =? z) then (if c =? 0 then Some (unhex v) else None) else obs_seen r ph z
  | _ :: r => obs_seen r ph z
  end.

(* the implementation's lookups of one phase *)
Definition lk_of_obs (obs : list bobs) (ph : Z) : lookups :=
  mkLk (obs_vals obs ph) (obs_params obs ph) (obs_state obs ph) (obs_seen obs ph).

Definition oobytes_eqb (a b : option (option bytes)) : bool :=
  match a, b with Some x, Some y => obytes_eqb x y | None, None => true | _, _ => false end.

(* every observation agrees with the lookups [lk] (of the model's store) *)
Definition obs_agree (ph : Z) (lk : lookups) (o : bobs) : bool :=
  match o with
  | OVals p z c v => negb (p =? ph) || obytes_eqb (lk_vals lk z) (if c =? 0 then Some (unhex v) else None)
  | OParams p z c v => negb (p =? ph) ||
      oobytes_eqb (lk_params lk z) (if c =? 0 then Some (Some (unhex v)) else if c =? 2 then Some None else None)
  | OState p c st => negb (p =? ph) ||
      match lk_state lk with Some x => (c =? 0) && sstate_eqb x (mk_state_of st) | None => negb (c =? 0) end
  | OSeen p z c v => negb (p =? ph) || obytes_eqb (lk_seen lk z) (if c =? 0 then Some (unhex v) else None)
  end.

(* the stores of the model after the first k successors: list of (phase, store) *)
Fixpoint model_phases (s : sstore) (ph : Z) (succs : list sstate) : list (Z * option sstore) :=
  (ph, Some s) ::
  match succs with
  | [] => []
  | t :: r => match store_save s t with
              | Some s' => model_phases s' (ph + 1) r
              | None => [(ph + 1, None)]
              end
  end.

(* clause 19 over the successors: after the k-th one the store tracks the chain up to h+k *)
Fixpoint tracks_all (lc : Z -> res lightblock) (h : Z) (cm : bytes) (obs : list bobs) (k : Z) (succs : list sstate) : bool :=
  match succs with
  | [] => true
  | t :: r =>
    let lk := lk_of_obs obs k in
    spec_tracks_b lc h (h + k) lk && ostate_eqb (lk_state lk) t && obytes_eqb (lk_seen lk h) (Some cm)
    && tracks_all lc h cm obs (k + 1) r
  end.

Fixpoint follows_all_b (lc : Z -> res lightblock) (prev : sstate) (succs : list sstate) : bool :=
  match succs with
  | [] => true
  | t :: r => follows_chain_b lc prev t && follows_all_b lc t r
  end.

(* ------------------------------------------------------------------ cases *)

Inductive case :=
(* chunk queue: snapshot, operations, answers *)
| CQueue (s : snapT) (ops : list qopT) (ans : list qresT)
(* pool: snapshot table, operations, observation after each *)
| CPool (tbl : list snapT) (ops : list popT) (obs : list pobsT)
(* SyncAny: stub state provider table, time line *)
| CSync (prov : list provT) (tl : list item)
(* lightClientStateProvider over a real light client: the chain's blocks (what an honest light
   client verifies), the answers of the consensus_params stub per requested height, initial
   height, queried height, (ChainID of the returned state, chain id of the chain);
   AppHash / Commit / State answers (code 0 ok, 1 error) *)
| CProv (blocks : list lbT) (rpc : list rpcT) (initial h : Z) (ids : string * string)
        (apphash : Z * string) (cm : Z * string) (st : Z * stateT)
(* what node.startStateSync does with a (state, commit) that State(h) / Commit(h) or SyncAny
   returned, on a real state store and block store: states saved before ([pre]: nothing, or the
   genesis state), Bootstrap(st) + SaveSeenCommit(h, cm), then Save of the successor states
   [succs] (built like updateState from the chain's sets and params); [obs] = the lookups read
   back after each phase.  [blocks] = the chain (what an honest light client vouches for) *)
| CBoot (blocks : list lbT) (h : Z) (pre : list stateT) (st : stateT) (cm : string)
        (succs : list stateT) (obs : list bobs).

Definition check (c : case) : verdict :=
  match c with
  | CQueue s ops ans =>
    let sn := mk_snap s in
    match new_queue sn with
    | None => mism (match ops with [] => true | _ => false end) 21
    | Some q =>
      let m := q_mon (a_new mon0 (sn_height sn) (sn_format sn) (sn_chunks sn)) ops ans in
      first_of (mon_verdicts m ++
                [ mism (list_eqb qresM_eqb (q_ops q ops) ans) 22 ])
    end
  | CPool tbl ops obs =>
    let t := map mk_snap tbl in
    first_of (mon_verdicts (p_mon t mon0 ops obs) ++ [ p_cmp t new_pool ops obs 0 ])
  | CSync prov tl =>
    let pv := mk_provider prov in
    let evs := events_of tl in
    let '(g, codes) := run pv false (init_syncer (ties_of tl false)) (map fst evs) in
    let sm := fold_left (sm_item pv) tl sm0 in
    first_of (mon_verdicts (sm_m sm) ++
      [ mism (list_eqb Z.eqb codes (map snd evs)) 41;
        mism (list_eqb call_eqb (rev (s_journal g)) (calls_of tl)) 42;
        mism (match done_of tl with
              | Some (c, v, mk, lh, cm) =>
                (outcome_code (s_mode g) =? c)
                && match s_mode g with
                   | MDone (OOk st cm') => (st_vapp st =? v) && bytes_eqb (st_apphash st) (unhex mk)
                                           && (st_last_height st =? lh) && bytes_eqb cm' (unhex cm)
                   | _ => true end
              | None => outcome_code (s_mode g) =? -1
              end) 43 ])
  | CProv blocks rpc initial h (id_st, id_chain) (ac, ah) (cc, cm) (sc, st) =>
    let lc := lc_find blocks in
    let cp := lrpc_params lc (rpc_find rpc) in
    let pv := lc_provider lc cp initial in
    let stm := mk_state_of st in
    first_of [
      (* every field handed to the node is the projection of a verified block *)
      viol (negb (ac =? 0) || match lc (to_int64 (u64 (h + 1))) with ROk b => bytes_eqb (lb_apphash b) (unhex ah) | _ => false end) 14;
      viol (negb (ac =? 0) || spec_apphash_b lc h (unhex ah)) 14;
      viol (negb (cc =? 0) || match lc (to_int64 h) with ROk b => bytes_eqb (lb_commit b) (unhex cm) | _ => false end) 15;
      viol (negb (cc =? 0) || spec_commit_b lc h (unhex cm)) 15;
      viol (negb (sc =? 0) || match lc_state lc cp initial h with ROk s => state_eqb s st | _ => false end) 16;
      (* the specification of Spec.v (independent of the model of State()) *)
      viol (negb (sc =? 0) || (spec_state_b lc initial h stm && bytes_eqb (unhex id_st) (unhex id_chain))) 17;
      mism (match pv_apphash pv h with ROk a => (ac =? 0) && bytes_eqb a (unhex ah) | _ => negb (ac =? 0) end) 51;
      mism (match pv_commit pv h with ROk a => (cc =? 0) && bytes_eqb a (unhex cm) | _ => negb (cc =? 0) end) 52;
      (* the implementation is the transcribed State() or the one with the F66 repair (they
         differ only when the stub labels an answer with another height than the requested) *)
      mism ((match pv_state pv h with ROk a => (sc =? 0) && state_eqb a st | _ => negb (sc =? 0) end)
            || (match lc_state_fixed lc cp initial h with ROk a => (sc =? 0) && state_eqb a st | _ => negb (sc =? 0) end)) 53 ]
  | CBoot blocks h pre st cm succs obs =>
    let lc := lc_find blocks in
    let stm := mk_state_of st in
    let sm := map mk_state_of succs in
    first_of [
      (* the stores answer with the light-verified values right after the bootstrap ... *)
      viol (spec_boot_b lc h stm (lk_of_obs obs 0)) 18;
      (* ... and after the following states were saved (when these follow the chain) *)
      viol (negb (follows_all_b lc stm sm) || tracks_all lc h (unhex cm) obs 1 sm) 19;
      mism (follows_all_b lc stm sm) 55;
      mism (match obind (save_all store0 (map mk_state_of pre)) (fun s0 => node_bootstrap s0 stm (unhex cm)) with
            | Some s1 =>
              forallb (fun '(ph, os) =>
                         match os with
                         | Some s => forallb (obs_agree ph (store_lookups s)) obs
                         | None => false
                         end) (model_phases s1 0 sm)
            | None => false
            end) 54 ]
  end.
