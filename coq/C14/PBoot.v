(* C14 — the model of state.Store.Bootstrap / Save / LoadValidators / LoadConsensusParams and of
   node.startStateSync (Model.v) against the store specifications of Spec.v. *)
From Coq Require Import String List ZArith NArith Bool Lia.
From TM Require Import Common.Hex Generated.Consts C14.Model C14.Spec.
Import ListNotations. Open Scope Z_scope.

Lemma K_pos : 0 < valset_checkpoint_interval.
Proof. reflexivity. Qed.

Lemma upd_same : forall A (f : Z -> A) k v, upd f k v k = v.
Proof. intros. unfold upd. rewrite Z.eqb_refl. reflexivity. Qed.
Lemma upd_other : forall A (f : Z -> A) k v x, x <> k -> upd f k v x = f x.
Proof. intros. unfold upd. destruct (Z.eqb_spec x k); congruence. Qed.

Lemma obytes_eqb_eq : forall a b, obytes_eqb a b = true <-> a = b.
Proof.
  intros [a|] [b|]; cbn; try (split; congruence).
  rewrite bytes_eqb_eq. split; congruence.
Qed.

(* ---- the shape of what the store operations write ---- *)

Lemma save_vinfo_spec : forall s height lhc set s',
  save_vinfo s height lhc set = Some s' ->
  lhc <= height /\
  ss_vals s' = upd (ss_vals s) height
    (Some (mkVI lhc (if (height =? lhc) || (height mod valset_checkpoint_interval =? 0)
                     then Some set else None))) /\
  ss_params s' = ss_params s /\ ss_state s' = ss_state s /\ ss_seen s' = ss_seen s.
Proof.
  intros s height lhc set s'. unfold save_vinfo.
  destruct (Z.ltb_spec height lhc); [discriminate|].
  intros E; injection E as <-. cbn. auto.
Qed.

Lemma save_vinfo_some : forall s height lhc set, lhc <= height -> exists s', save_vinfo s height lhc set = Some s'.
Proof.
  intros. unfold save_vinfo. destruct (Z.ltb_spec height lhc); [lia|]. eauto.
Qed.

Section Boot.
  Variable lc : Z -> res lightblock.
  Variable h : Z.
  Let V := chain_vals lc.
  Let C := chain_params lc.
  Let K := valset_checkpoint_interval.

  Definition Full (s : sstore) (z : Z) : Prop := exists l, ss_vals s z = Some (mkVI l (Some (V z))).

  Definition VRec (s : sstore) (z : Z) : Prop :=
    exists vi, ss_vals s z = Some vi /\
      (vi_set vi = Some (V z) \/
       (vi_set vi = None /\ h <= vi_lhc vi <= z /\ Full s (vi_lhc vi) /\
        forall y, vi_lhc vi <= y <= z -> V y = V z)).

  (* t = LastBlockHeight of the state saved last, L = its LastHeightValidatorsChanged *)
  Definition VInv (s : sstore) (t L : Z) : Prop :=
    h + 2 <= L <= t + 2 /\ (forall y, L <= y <= t + 2 -> V y = V L) /\ Full s L /\
    (forall z, h <= z <= t + 2 -> VRec s z) /\
    (forall z, h <= z <= t + 2 -> z mod K = 0 -> Full s z).

  Lemma VInv_load : forall s t L z, VInv s t L -> h <= z <= t + 2 -> load_validators s z = Some (V z).
  Proof.
    intros s t L z (HL & Hc & HF & HR & HK) Hz.
    destruct (HR z Hz) as (vi & E & [S | (S & Hl & FL & Hconst)]); unfold load_validators; rewrite E, S.
    - reflexivity.
    - fold K. set (c0 := z - z mod K).
      pose proof K_pos as KP. fold K in KP.
      assert (M : 0 <= z mod K < K) by (apply Z.mod_pos_bound; exact KP).
      destruct (Z.max_spec c0 (vi_lhc vi)) as [[Hlt ->] | [Hge ->]].
      + destruct FL as (l & EL). rewrite EL. cbn. f_equal. apply Hconst. lia.
      + assert (c0 mod K = 0).
        { unfold c0. rewrite Zminus_mod, Z.mod_mod by lia. rewrite Z.sub_diag. apply Z.mod_0_l. lia. }
        assert (Hc0 : h <= c0 <= t + 2) by (unfold c0 in *; lia).
        destruct (HK c0 Hc0 H) as (l & EL). rewrite EL. cbn. f_equal. apply Hconst. unfold c0 in *. lia.
  Qed.

  Lemma Full_upd : forall s s' k v z, ss_vals s' = upd (ss_vals s) k v -> z <> k -> Full s z -> Full s' z.
  Proof. intros s s' k v z E N (l & F). exists l. rewrite E, upd_other; assumption. Qed.

  (* one more record: height t+3 *)
  Lemma VInv_step : forall s t L s' L',
    VInv s t L ->
    (L' = t + 3 \/ (L' = L /\ V (t + 3) = V (t + 2))) ->
    save_vinfo s (t + 3) L' (V (t + 3)) = Some s' ->
    VInv s' (t + 1) L'.
  Proof.
    intros s t L s' L' (HL & Hc & HF & HR & HK) HL' Sv.
    apply save_vinfo_spec in Sv. destruct Sv as (Hle & EV & _). fold K in EV.
    assert (Old : forall z, z <= t + 2 -> Full s z -> Full s' z).
    { intros z Hz F. eapply Full_upd; eauto. lia. }
    assert (OldR : forall z, h <= z <= t + 2 -> VRec s' z).
    { intros z Hz. destruct (HR z Hz) as (vi & E & D). exists vi. split.
      - rewrite EV, upd_other by lia. exact E.
      - destruct D as [S | (S & Hl & FL & Hconst)]; [left; exact S|].
        right. split; [exact S|]. split; [exact Hl|]. split; [apply Old; [lia|exact FL]|exact Hconst]. }
    destruct HL' as [-> | [-> EQ]].
    - (* the set changed: a full record *)
      assert (FN : Full s' (t + 3)).
      { exists (t + 3). rewrite EV, upd_same, Z.eqb_refl. reflexivity. }
      split; [lia|]. split; [intros y Hy; f_equal; lia|]. split; [exact FN|].
      split.
      + intros z Hz. destruct (Z.eq_dec z (t + 3)) as [->|N].
        * exists (mkVI (t + 3) (Some (V (t + 3)))). split; [|left; reflexivity].
          rewrite EV, upd_same, Z.eqb_refl. reflexivity.
        * apply OldR. lia.
      + intros z Hz M. destruct (Z.eq_dec z (t + 3)) as [->|N]; [exact FN|].
        apply Old; [lia|]. apply HK; [lia|exact M].
    - (* no change: a pointer to L, or a full record at a checkpoint height *)
      assert (Hconst' : forall y, L <= y <= t + 3 -> V y = V L).
      { intros y Hy. destruct (Z.eq_dec y (t + 3)) as [->|N].
        - rewrite EQ. apply Hc. lia.
        - apply Hc. lia. }
      split; [lia|]. split; [intros y Hy; apply Hconst'; lia|]. split; [apply Old; [lia|exact HF]|].
      split.
      + intros z Hz. destruct (Z.eq_dec z (t + 3)) as [->|N]; [|apply OldR; lia].
        eexists. split; [rewrite EV, upd_same; reflexivity|]. cbn [vi_set vi_lhc].
        destruct ((t + 3 =? L) || ((t + 3) mod K =? 0)); [left; reflexivity|].
        right. split; [reflexivity|]. split; [lia|]. split; [apply Old; [lia|exact HF]|].
        intros y Hy. rewrite (Hconst' y) by lia. symmetry. apply Hconst'. lia.
      + intros z Hz M. destruct (Z.eq_dec z (t + 3)) as [->|N].
        * exists L. rewrite EV, upd_same. apply Z.eqb_eq in M. rewrite M, orb_true_r. reflexivity.
        * apply Old; [lia|]. apply HK; [lia|exact M].
  Qed.

  (* ---- consensus params ---- *)

  Definition FullP (s : sstore) (z : Z) : Prop := exists l, ss_params s z = Some (mkPI l (Some (C z))).

  Definition PRec (s : sstore) (t z : Z) : Prop :=
    exists pi, ss_params s z = Some pi /\
      (pi_params pi = Some (C z) \/
       (pi_params pi = None /\ h + 1 <= pi_lhc pi <= t + 1 /\ FullP s (pi_lhc pi) /\ C (pi_lhc pi) = C z)).

  (* P = LastHeightConsensusParamsChanged of the state saved last *)
  Definition PInv (s : sstore) (t P : Z) : Prop :=
    h + 1 <= P <= t + 1 /\ C (t + 1) = C P /\ FullP s P /\
    (forall z, h + 1 <= z <= t + 1 -> PRec s t z).

  Lemma PInv_load : forall s t P z, PInv s t P -> h + 1 <= z <= t + 1 -> load_params s z = Some (Some (C z)).
  Proof.
    intros s t P z (HP & Hc & HF & HR) Hz.
    destruct (HR z Hz) as (pi & E & [S | (S & Hl & (l & FL) & EC)]); unfold load_params; rewrite E, S.
    - reflexivity.
    - rewrite FL. cbn. rewrite EC. reflexivity.
  Qed.

  Lemma PInv_step : forall s t P P',
    PInv s t P ->
    (P' = t + 2 \/ (P' = P /\ C (t + 2) = C (t + 1))) ->
    PInv (save_pinfo s (t + 2) P' (C (t + 2))) (t + 1) P'.
  Proof.
    intros s t P P' (HP & Hc & HF & HR) HP'.
    set (s' := save_pinfo s (t + 2) P' (C (t + 2))).
    assert (EP : ss_params s' = upd (ss_params s) (t + 2)
                   (Some (mkPI P' (if P' =? t + 2 then Some (C (t + 2)) else None)))) by reflexivity.
    assert (Old : forall z, z <= t + 1 -> FullP s z -> FullP s' z).
    { intros z Hz (l & F). exists l. rewrite EP, upd_other by lia. exact F. }
    assert (OldR : forall z, h + 1 <= z <= t + 1 -> PRec s' (t + 1) z).
    { intros z Hz. destruct (HR z Hz) as (pi & E & D). exists pi. split.
      - rewrite EP, upd_other by lia. exact E.
      - destruct D as [S | (S & Hl & FL & EC)]; [left; exact S|].
        right. split; [exact S|]. split; [lia|]. split; [apply Old; [lia|exact FL]|exact EC]. }
    unfold PInv. replace (t + 1 + 1) with (t + 2) by lia.
    destruct HP' as [-> | [-> EQ]].
    - assert (FN : FullP s' (t + 2)).
      { exists (t + 2). rewrite EP, upd_same, Z.eqb_refl. reflexivity. }
      split; [lia|]. split; [reflexivity|]. split; [exact FN|].
      intros z Hz. destruct (Z.eq_dec z (t + 2)) as [->|N]; [|apply OldR; lia].
      destruct FN as (l & F). eexists. split; [exact F|]. left. reflexivity.
    - split; [lia|]. split; [congruence|]. split; [apply Old; [lia|exact HF]|].
      intros z Hz. destruct (Z.eq_dec z (t + 2)) as [->|N]; [|apply OldR; lia].
      eexists. split; [rewrite EP, upd_same; reflexivity|]. cbn [pi_params pi_lhc].
      destruct (P =? t + 2); [left; reflexivity|].
      right. split; [reflexivity|]. split; [lia|]. split; [apply Old; [lia|exact HF]|]. congruence.
  Qed.

  (* ---- Save of a successor that follows the chain ---- *)

  Definition SInvB (s : sstore) (T : sstate) : Prop :=
    h <= st_last_height T /\ 0 < h /\
    VInv s (st_last_height T) (st_lhvc T) /\ PInv s (st_last_height T) (st_lhcpc T) /\
    ss_state s = Some T.

  Lemma save_step : forall s prev next,
    SInvB s prev -> follows_chain lc prev next ->
    exists s', store_save s next = Some s' /\ SInvB s' next /\ ss_seen s' = ss_seen s.
  Proof.
    intros s prev next (Ht & Hh & HV & HP & _) (F1 & _ & _ & F4 & F5 & F6 & F7).
    set (t := st_last_height prev) in *.
    unfold store_save. rewrite F1.
    destruct (Z.eqb_spec (t + 1 + 1) 1) as [E|_]; [lia|]. cbn [obind].
    replace (t + 1 + 1 + 1) with (t + 3) by lia. replace (t + 1 + 1) with (t + 2) by lia.
    assert (Hle : st_lhvc next <= t + 3).
    { destruct HV as (HL & _). destruct F5 as [->|[-> _]]; lia. }
    destruct (save_vinfo_some s (t + 3) (st_lhvc next) (st_nextvals next) Hle) as (s2 & E2).
    rewrite E2. cbn [obind]. eexists. split; [reflexivity|].
    pose proof E2 as E2'. rewrite F4 in E2'. fold V in E2'.
    assert (HV' : VInv s2 (t + 1) (st_lhvc next)).
    { eapply VInv_step; [exact HV| |exact E2']. exact F5. }
    apply save_vinfo_spec in E2. destruct E2 as (_ & EV & EP & ES & EC).
    split; [|cbn; exact EC].
    split; [lia|]. split; [exact Hh|]. rewrite F1.
    split.
    - (* the params and state records do not touch the validator records *)
      destruct HV' as (A & B & (l & FL) & D & E). split; [exact A|]. split; [exact B|].
      split; [exists l; exact FL|]. split.
      + intros z Hz. destruct (D z Hz) as (vi & X & Y). exists vi. split; [exact X|].
        destruct Y as [Y|(Y1 & Y2 & (l2 & Y3) & Y4)]; [left; exact Y|].
        right. split; [exact Y1|]. split; [exact Y2|]. split; [exists l2; exact Y3|exact Y4].
      + intros z Hz M. destruct (E z Hz M) as (l2 & X). exists l2. exact X.
    - split; [|reflexivity].
      rewrite F6. fold C.
      assert (HP2 : PInv s2 t (st_lhcpc prev)).
      { destruct HP as (A & B & (l & FL) & D). split; [exact A|]. split; [exact B|].
        split; [exists l; rewrite EP; exact FL|].
        intros z Hz. destruct (D z Hz) as (pi & X & Y). exists pi. split; [rewrite EP; exact X|].
        destruct Y as [Y|(Y1 & Y2 & (l2 & Y3) & Y4)]; [left; exact Y|].
        right. split; [exact Y1|]. split; [exact Y2|]. split; [exists l2; rewrite EP; exact Y3|exact Y4]. }
      pose proof (PInv_step s2 t (st_lhcpc prev) (st_lhcpc next) HP2 F7) as HP3.
      destruct HP3 as (A & B & (l & FL) & D). split; [exact A|]. split; [exact B|].
      split; [exists l; exact FL|].
      intros z Hz. destruct (D z Hz) as (pi & X & Y). exists pi. split; [exact X|].
      destruct Y as [Y|(Y1 & Y2 & (l2 & Y3) & Y4)]; [left; exact Y|].
      right. split; [exact Y1|]. split; [exact Y2|]. split; [exists l2; exact Y3|exact Y4].
  Qed.

  Lemma save_all_steps : forall succs s prev,
    SInvB s prev -> follows_chain_all lc prev succs ->
    exists s', save_all s succs = Some s' /\ SInvB s' (last_of prev succs) /\ ss_seen s' = ss_seen s.
  Proof.
    induction succs as [|T r IH]; intros s prev HI HF.
    - exists s. cbn. auto.
    - destruct HF as [F1 F2].
      destruct (save_step s prev T HI F1) as (s1 & E1 & I1 & C1).
      destruct (IH s1 T I1 F2) as (s' & E' & I' & C').
      exists s'. cbn [save_all]. rewrite E1. cbn [obind]. split; [exact E'|].
      split; [exact I'|congruence].
  Qed.
End Boot.

(* ---- Bootstrap ---- *)

Lemma chain_vals_vouched : forall lc z b, vouched lc z b -> chain_vals lc z = lb_vals b.
Proof. intros lc z b [_ E]. unfold chain_vals. rewrite E. reflexivity. Qed.
Lemma chain_params_vouched : forall lc z b, vouched lc z b -> chain_params lc z = lb_conshash b.
Proof. intros lc z b [_ E]. unfold chain_params. rewrite E. reflexivity. Qed.

(* Bootstrap of a state that meets Spec.state_spec, on top of ANY store *)
Lemma bootstrap_inv : forall lc initial h st s0,
  state_spec lc initial h st ->
  exists s, store_bootstrap s0 st = Some s /\ SInvB lc h s st /\ ss_seen s = ss_seen s0.
Proof.
  intros lc initial h st s0 (last & cur & next & V0 & V1 & V2 & _ & E1 & _ & _ & E4 & _ & _ & _ & _ & E9 & E10 & E11 & E12 & E13).
  assert (Hh : 0 < h) by (destruct V0 as [R _]; lia).
  unfold store_bootstrap. rewrite E1.
  destruct (Z.eqb_spec (h + 1) 1) as [X|_]; [lia|].
  destruct (Z.ltb_spec 1 (h + 1)) as [_|X]; [|lia].
  replace (h + 1 - 1) with h by lia. replace (h + 1 + 1) with (h + 2) by lia.
  destruct (save_vinfo_some s0 h h (st_lastvals st) (Z.le_refl _)) as (s1 & S1). rewrite S1. cbn [obind].
  destruct (save_vinfo_some s1 (h + 1) (h + 1) (st_vals st) (Z.le_refl _)) as (s2 & S2). rewrite S2. cbn [obind].
  destruct (save_vinfo_some s2 (h + 2) (h + 2) (st_nextvals st) (Z.le_refl _)) as (s3 & S3). rewrite S3. cbn [obind].
  eexists. split; [reflexivity|].
  apply save_vinfo_spec in S1. destruct S1 as (_ & A1 & P1 & _ & C1).
  apply save_vinfo_spec in S2. destruct S2 as (_ & A2 & P2 & _ & C2).
  apply save_vinfo_spec in S3. destruct S3 as (_ & A3 & P3 & _ & C3).
  rewrite Z.eqb_refl in A1, A2, A3. cbn [orb] in A1, A2, A3.
  assert (R0 : ss_vals s3 h = Some (mkVI h (Some (chain_vals lc h)))).
  { rewrite A3, upd_other, A2, upd_other, A1, upd_same by lia.
    rewrite (chain_vals_vouched _ _ _ V0), E4. reflexivity. }
  assert (R1 : ss_vals s3 (h + 1) = Some (mkVI (h + 1) (Some (chain_vals lc (h + 1))))).
  { rewrite A3, upd_other, A2, upd_same by lia.
    rewrite (chain_vals_vouched _ _ _ V1), E9. reflexivity. }
  assert (R2 : ss_vals s3 (h + 2) = Some (mkVI (h + 2) (Some (chain_vals lc (h + 2))))).
  { rewrite A3, upd_same. rewrite (chain_vals_vouched _ _ _ V2), E12. reflexivity. }
  split; [|cbn; congruence].
  split; [lia|]. split; [exact Hh|]. rewrite E1, E13, E11.
  split; [|split; [|reflexivity]].
  - (* validators *)
    assert (FullAll : forall z, h <= z <= h + 2 -> Full lc (set_sstate (save_pinfo s3 (h + 1) (h + 1) (st_params st)) st) z).
    { intros z Hz. assert (D : z = h \/ z = h + 1 \/ z = h + 2) by lia.
      destruct D as [-> | [-> | ->]]; eexists; cbn; eassumption. }
    split; [lia|]. split; [intros y Hy; f_equal; lia|]. split; [apply FullAll; lia|].
    split.
    + intros z Hz. destruct (FullAll z Hz) as (l & F). eexists. split; [exact F|]. left. reflexivity.
    + intros z Hz _. apply FullAll. exact Hz.
  - (* params *)
    assert (FP : FullP lc (set_sstate (save_pinfo s3 (h + 1) (h + 1) (st_params st)) st) (h + 1)).
    { exists (h + 1). cbn. rewrite upd_same, Z.eqb_refl.
      rewrite (chain_params_vouched _ _ _ V1), E10. reflexivity. }
    split; [lia|]. split; [reflexivity|]. split; [exact FP|].
    intros z Hz. assert (z = h + 1) by lia. subst z.
    destruct FP as (l & F). eexists. split; [exact F|]. left. reflexivity.
Qed.

(* what node.startStateSync leaves in the stores meets the specification *)
Theorem bootstrap_meets_spec : forall lc initial h st cm s0,
  state_spec lc initial h st -> commit_spec lc h cm ->
  exists s, node_bootstrap s0 st cm = Some s /\ bootstrapped_store_spec lc h st (store_lookups s).
Proof.
  intros lc initial h st cm s0 HS (last & VL & ->).
  destruct (bootstrap_inv lc initial h st s0 HS) as (s & EB & (Ht & Hh & HV & HP & ES) & _).
  pose proof HS as (last' & cur & next & V0 & V1 & V2 & _ & E1 & _).
  unfold node_bootstrap. rewrite EB. cbn [obind]. eexists. split; [reflexivity|].
  unfold bootstrapped_store_spec, store_lookups. cbn [lk_vals lk_params lk_state lk_seen].
  split; [|split; [|split]].
  - intros z Hz.
    assert (EL : load_validators s z = Some (chain_vals lc z)).
    { eapply VInv_load; [exact HV|]. rewrite E1. exact Hz. }
    assert (D : z = h \/ z = h + 1 \/ z = h + 2) by lia.
    destruct D as [-> | [-> | ->]]; [exists last'|exists cur|exists next];
      (split; [assumption|]); unfold load_validators in *; cbn [save_seen ss_vals];
      rewrite EL; f_equal; apply chain_vals_vouched; assumption.
  - exists cur. split; [exact V1|].
    assert (EL : load_params s (h + 1) = Some (Some (chain_params lc (h + 1)))).
    { eapply PInv_load; [exact HP|]. rewrite E1. lia. }
    unfold load_params in *. cbn [save_seen ss_params]. rewrite EL.
    rewrite (chain_params_vouched _ _ _ V1). reflexivity.
  - cbn. exact ES.
  - exists last. split; [exact VL|]. cbn. rewrite E1, upd_same. reflexivity.
Qed.

(* ... and stays right while the node saves the states of the following blocks *)
Theorem successors_resolve : forall lc initial h st cm s0 succs,
  state_spec lc initial h st ->
  follows_chain_all lc st succs ->
  exists s1 s, node_bootstrap s0 st cm = Some s1 /\ save_all s1 succs = Some s /\
    store_tracks_chain lc h (st_last_height (last_of st succs)) (store_lookups s) /\
    lk_state (store_lookups s) = Some (last_of st succs) /\
    lk_seen (store_lookups s) h = Some cm.
Proof.
  intros lc initial h st cm s0 succs HS HF.
  destruct (bootstrap_inv lc initial h st s0 HS) as (sb & EB & IB & _).
  pose proof HS as (_ & _ & _ & _ & _ & _ & _ & E1 & _).
  unfold node_bootstrap. rewrite EB. cbn [obind].
  set (s1 := save_seen sb (st_last_height st) cm).
  assert (I1 : SInvB lc h s1 st).
  { destruct IB as (A & B & HV & HP & ES). split; [exact A|]. split; [exact B|].
    split; [exact HV|]. split; [exact HP|exact ES]. }
  destruct (save_all_steps lc h succs s1 st I1 HF) as (s & ES & (Ht & Hh & HV & HP & EST) & EC).
  exists s1, s. split; [reflexivity|]. split; [exact ES|].
  unfold store_tracks_chain, store_lookups. cbn [lk_vals lk_params lk_state lk_seen].
  split; [split|split].
  - intros z Hz. eapply VInv_load; eauto.
  - intros z Hz. eapply PInv_load; eauto.
  - exact EST.
  - rewrite EC. unfold s1. cbn. rewrite E1, upd_same. reflexivity.
Qed.

(* ---- the deciders ---- *)

Lemma spec_vals_lookup_b_iff : forall lc z ans,
  spec_vals_lookup_b lc z ans = true <-> exists b, vouched lc z b /\ ans = Some (lb_vals b).
Proof.
  intros lc z ans. unfold spec_vals_lookup_b, vouched, in_range.
  rewrite !andb_true_iff, !Z.ltb_lt. split.
  - intros [R M]. destruct (lc z) as [b| |]; try discriminate. apply obytes_eqb_eq in M. eauto.
  - intros (b & [R E] & ->). rewrite E. split; [exact R|]. apply obytes_eqb_eq. reflexivity.
Qed.

Lemma follows_chain_b_iff : forall lc prev next,
  follows_chain_b lc prev next = true <-> follows_chain lc prev next.
Proof.
  intros. unfold follows_chain_b, follows_chain.
  rewrite !andb_true_iff, !orb_true_iff, !andb_true_iff, !Z.eqb_eq, !bytes_eqb_eq. tauto.
Qed.
