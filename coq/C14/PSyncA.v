(* C14 — the syncer machine: invariant, order of application calls, restoration only on
   agreement with the light-verified state.  Definitions: PSyncDefs.v. *)
From Coq Require Import String List ZArith NArith Bool Lia.
From TM Require Import Common.Hex Generated.Consts C14.Model C14.PQueue C14.PPool C14.PSyncDefs.
Import ListNotations. Open Scope Z_scope.

Ltac sy := cbn [s_pool s_cur s_insync s_mode s_journal s_qlog s_ties
                set_pool set_cur set_insync set_mode set_journal set_qlog set_ties fst snd] in *.
Ltac qy := cbn [q_open q_height q_format q_chunks q_files q_senders q_alloc q_ret
                set_open set_files set_senders set_alloc set_ret] in *.

(* ------------------------------------------------------------------ pool part *)

Definition PoolOK (p : pool) : Prop :=
  PInv p /\ forall k s, lookup k (p_snaps p) = Some s -> 0 <= sn_chunks s.

Lemma PoolOK_new : PoolOK new_pool.
Proof. split; [apply PInv_new|]. cbn. discriminate. Qed.

Lemma PoolOK_sub p p' :
  PoolOK p -> PInv p' ->
  (forall k s, lookup k (p_snaps p') = Some s -> lookup k (p_snaps p) = Some s) -> PoolOK p'.
Proof. intros [_ HC] HP Hs. split; [exact HP|]. intros k s L. eapply HC, Hs, L. Qed.

Lemma PoolOK_add p pr s : 0 <= sn_chunks s -> PoolOK p -> PoolOK (fst (pool_add p pr s)).
Proof.
  intros Hs [HP HC]. split; [apply PInv_add; exact HP|].
  destruct (pool_add_spec p pr s) as [E | (_ & _ & _ & _ & [(s0 & L & E) | (L & E)])];
    rewrite E; cbn [fst].
  - exact HC.
  - unfold add_known; cbn [p_snaps]. exact HC.
  - unfold add_new; cbn [p_snaps]. intros k s1. rewrite lookup_app.
    destruct (lookup k (p_snaps p)) eqn:E1.
    + intros X; injection X as <-. eapply HC; eauto.
    + cbn [lookup]. destruct (bytes_eqb _ _); [|discriminate].
      intros X; injection X as <-. exact Hs.
Qed.

Lemma PoolOK_remove_peer p pr : PoolOK p -> PoolOK (remove_peer p pr).
Proof.
  intros H. apply (PoolOK_sub p); [exact H | apply PInv_remove_peer, H |].
  intros k s. apply remove_peer_lookup_sub.
Qed.

Lemma PoolOK_reject p s : PoolOK p -> PoolOK (pool_reject p s).
Proof.
  intros H. apply (PoolOK_sub p); [exact H | apply PInv_reject, H |].
  intros k s1. apply reject_lookup_sub.
Qed.

Lemma PoolOK_reject_format p f : PoolOK p -> PoolOK (pool_reject_format p f).
Proof.
  intros H. apply (PoolOK_sub p); [exact H | apply PInv_reject_format, H |].
  intros k s1. apply reject_format_lookup_sub.
Qed.

Lemma PoolOK_reject_peer p pr : PoolOK p -> PoolOK (pool_reject_peer p pr).
Proof.
  intros H. apply (PoolOK_sub p); [exact H | apply PInv_reject_peer, H |].
  intros k s1. apply reject_peer_lookup_sub.
Qed.

Lemma PoolOK_reject_peers l p : PoolOK p -> PoolOK (fold_left pool_reject_peer l p).
Proof.
  intros H. apply (PoolOK_sub p); [exact H | apply PInv_reject_peers, H |].
  intros k s1. apply reject_peers_lookup_sub.
Qed.

(* ------------------------------------------------------------------ queue part *)

Definition qsame (q q' : cqueue) : Prop :=
  q_open q' = q_open q /\ q_height q' = q_height q /\ q_format q' = q_format q /\
  q_chunks q' = q_chunks q.

Lemma qsame_refl q : qsame q q.
Proof. unfold qsame; tauto. Qed.

Lemma qsame_trans a b c : qsame a b -> qsame b c -> qsame a c.
Proof. unfold qsame; intuition congruence. Qed.

Lemma qsame_discard q idx : qsame q (q_discard q idx).
Proof.
  unfold qsame, q_discard. destruct (negb (q_open q)); [tauto|].
  destruct (q_files q idx); qy; tauto.
Qed.

Lemma qsame_discards l : forall q, qsame q (fold_left q_discard l q).
Proof.
  induction l as [|a l IH]; intros q; cbn [fold_left]; [apply qsame_refl|].
  eapply qsame_trans; [apply qsame_discard | apply IH].
Qed.

Lemma qsame_discard_sender q p : qsame q (q_discard_sender q p).
Proof. unfold qsame, q_discard_sender; qy; tauto. Qed.

Lemma qsame_retry q i : qsame q (q_retry q i).
Proof. unfold qsame, q_retry; qy; tauto. Qed.

Lemma qsame_retry_all q : qsame q (q_retry_all q).
Proof. unfold qsame, q_retry_all; qy; tauto. Qed.

Lemma qsame_set_ret q v : qsame q (set_ret q v).
Proof. unfold qsame; qy; tauto. Qed.

Lemma q_close_closed q : q_open (q_close q) = false.
Proof. unfold q_close. destruct (q_open q) eqn:E; qy; auto. Qed.

Lemma q_close_dims q :
  q_height (q_close q) = q_height q /\ q_format (q_close q) = q_format q /\
  q_chunks (q_close q) = q_chunks q.
Proof. unfold q_close. destruct (q_open q); qy; tauto. Qed.

Lemma q_add_cases q h f idx body sd q' r :
  q_add q h f idx body sd = (q', r) ->
  (q' = q /\ r <> AddTrue) \/
  (r = AddTrue /\ exists b, q_files q idx = None /\ q_open q = true /\ idx < q_chunks q /\
     q' = set_senders (set_files q (upd (q_files q) idx (Some b)))
                      (upd (q_senders q) idx (Some sd))).
Proof.
  unfold q_add.
  destruct body as [b|]; [|intros H; injection H as <- <-; left; split; [reflexivity|discriminate]].
  destruct (q_open q) eqn:Eo; cbn [negb];
    [|intros H; injection H as <- <-; left; split; [reflexivity|discriminate]].
  destruct (negb (h =? q_height q));
    [intros H; injection H as <- <-; left; split; [reflexivity|discriminate]|].
  destruct (negb (f =? q_format q));
    [intros H; injection H as <- <-; left; split; [reflexivity|discriminate]|].
  destruct (Z.leb_spec (q_chunks q) idx) as [Hle|Hlt];
    [intros H; injection H as <- <-; left; split; [reflexivity|discriminate]|].
  destruct (q_files q idx) eqn:Ef;
    [intros H; injection H as <- <-; left; split; [reflexivity|discriminate]|].
  intros H; injection H as <- <-. right. split; [reflexivity|]. exists b. auto.
Qed.

Definition QOK (s : snapshot) (q : cqueue) : Prop :=
  QInv q /\ q_height q = sn_height s /\ q_format q = sn_format s /\ q_chunks q = sn_chunks s.

Lemma QOK_same s q q' : QOK s q -> qsame q q' -> QInv q' -> QOK s q'.
Proof. unfold QOK, qsame. intuition congruence. Qed.

Lemma QOK_new s q : new_queue s = Some q -> 0 <= sn_chunks s -> QOK s q /\ q_open q = true.
Proof.
  intros E H. split; [split; [eapply QInv_new; eauto|]|];
    unfold new_queue in E; destruct (sn_chunks s =? 0); try discriminate;
    injection E as <-; qy; tauto.
Qed.

Lemma QOK_close s q : QOK s q -> QOK s (q_close q).
Proof.
  intros (H1 & H2 & H3 & H4). destruct (q_close_dims q) as (A & B & C).
  split; [apply QInv_close, H1|]. intuition congruence.
Qed.

Lemma reject_senders_ok rejects : forall p q,
  PoolOK p -> QInv q ->
  PoolOK (fst (reject_senders p q rejects)) /\ QInv (snd (reject_senders p q rejects)) /\
  qsame q (snd (reject_senders p q rejects)).
Proof.
  unfold reject_senders.
  induction rejects as [|a l IH]; intros p q HP HQ; cbn [fold_left fst snd].
  - split; [exact HP|]. split; [exact HQ | apply qsame_refl].
  - destruct (a =? 0)%N.
    + apply IH; assumption.
    + destruct (IH (pool_reject_peer p a) (q_discard_sender q a)) as (A & B & C).
      * apply PoolOK_reject_peer, HP.
      * apply QInv_discard_sender, HQ.
      * split; [exact A|]. split; [exact B|].
        eapply qsame_trans; [apply qsame_discard_sender | exact C].
Qed.

(* ------------------------------------------------------------------ syncer: invariant pieces *)

Definition Core (g : syncer) : Prop :=
  PoolOK (s_pool g) /\ forall s q, s_cur g = Some (s, q) -> QOK s q.

Definition ModeInv (pv : provider) (g : syncer) : Prop :=
  match s_mode g with
  | MIdle | MSleep => s_insync g = false /\ s_cur g = None
  | MOffer s ah =>
    ctx1 pv s ah /\ in_sync g s (fun _ => True) /\ exists r, s_journal g = COffer s ah :: r
  | MApply s ah st cm i =>
    ctx1 pv s ah /\ ctx2 pv s st cm /\
    in_sync g s (fun q => exists b sd r l,
      s_journal g = CApply i b sd :: r /\ s_qlog g = (i, b, sd) :: l /\
      0 <= i < q_chunks q /\ q_files q i = Some b /\ q_senders q i = Some sd /\
      q_ret q i = true /\ forall j, 0 <= j < i -> q_ret q j = true)
  | MWait s ah st cm i =>
    ctx1 pv s ah /\ ctx2 pv s st cm /\
    in_sync g s (fun q => 0 <= i < q_chunks q /\ q_files q i = None /\ q_ret q i = false /\
                          forall j, 0 <= j < i -> q_ret q j = true)
  | MInfo s ah st cm =>
    ctx1 pv s ah /\ ctx2 pv s st cm /\
    in_sync g s (fun q => forall j, 0 <= j < q_chunks q -> q_ret q j = true) /\
    exists r, s_journal g = CInfo :: r
  | MDone o =>
    s_insync g = false /\ (forall s q, s_cur g = Some (s, q) -> q_open q = false) /\
    o <> OErr 8
  end.

Lemma SInv_split pv g : SInv pv g <-> Core g /\ ModeInv pv g.
Proof. unfold SInv, Core, PoolOK, QOK, ModeInv. tauto. Qed.

(* The extra conjunct.  SInv of PSyncDefs.v is inductive by itself; to know in addition that the
   offer of the snapshot being restored is in the journal, the proofs are carried out for
   SInv' = SInv /\ JInv, where JInv is parametrised by a predicate K on (snapshot, app hash,
   journal) that holds right after the offer and is stable under growth of the journal.
   K = "COffer s ah is in the journal" gives the strengthened invariant, K = True gives SInv. *)
Section WithK.
Variable K : snapshot -> bytes -> list call -> Prop.
Hypothesis K_offer : forall s ah r, K s ah (COffer s ah :: r).
Hypothesis K_cons : forall s ah c j, K s ah j -> K s ah (c :: j).

Definition JInv (g : syncer) : Prop :=
  match s_mode g with
  | MApply s ah _ _ _ | MWait s ah _ _ _ | MInfo s ah _ _ => K s ah (s_journal g)
  | _ => True
  end.

Definition SInv' (pv : provider) (g : syncer) : Prop := SInv pv g /\ JInv g.

Lemma SInv'_intro pv g : Core g -> ModeInv pv g -> JInv g -> SInv' pv g.
Proof. intros. split; [apply SInv_split; split; assumption | assumption]. Qed.

Lemma SInv'_Core pv g : SInv' pv g -> Core g.
Proof. intros [H _]. apply SInv_split in H. apply H. Qed.

Lemma SInv'_Mode pv g : SInv' pv g -> ModeInv pv g.
Proof. intros [H _]. apply SInv_split in H. apply H. Qed.

(* finish *)
Lemma finish_mode g o : s_mode (finish g o) = MDone o.
Proof. reflexivity. Qed.
Lemma finish_insync g o : s_insync (finish g o) = false.
Proof. reflexivity. Qed.
Lemma finish_journal g o : s_journal (finish g o) = s_journal g.
Proof. unfold finish. destruct (s_cur g) as [[s q]|]; reflexivity. Qed.
Lemma finish_pool g o : s_pool (finish g o) = s_pool g.
Proof. unfold finish. destruct (s_cur g) as [[s q]|]; reflexivity. Qed.
Lemma finish_cur g o :
  s_cur (finish g o) = match s_cur g with Some (s, q) => Some (s, q_close q) | None => None end.
Proof. unfold finish. destruct (s_cur g) as [[s q]|] eqn:E; sy; auto. Qed.

Lemma Core_finish g o : Core g -> Core (finish g o).
Proof.
  intros [HP HC]. split; [rewrite finish_pool; exact HP|].
  intros s q. rewrite finish_cur. destruct (s_cur g) as [[s0 q0]|]; [|discriminate].
  intros E; injection E as <- <-. apply QOK_close, HC. reflexivity.
Qed.

Lemma finish_SInv' pv g o : Core g -> o <> OErr 8 -> SInv' pv (finish g o).
Proof.
  intros HC Ho. apply SInv'_intro.
  - apply Core_finish, HC.
  - unfold ModeInv. rewrite finish_mode. split; [apply finish_insync|]. split; [|exact Ho].
    intros s q. rewrite finish_cur. destruct (s_cur g) as [[s0 q0]|]; [|discriminate].
    intros E; injection E as <- <-. apply q_close_closed.
  - unfold JInv. rewrite finish_mode. exact I.
Qed.

(* ------------------------------------------------------------------ post-conditions *)

Definition JStep (j : list call) (g' : syncer) : Prop :=
  s_journal g' = j \/
  exists c, s_journal g' = c :: j /\
    match c with
    | COffer s ah => s_mode g' = MOffer s ah
    | CApply i b sd => exists s ah st cm, s_mode g' = MApply s ah st cm i
    | CInfo => exists s ah st cm, s_mode g' = MInfo s ah st cm
    end.

Definition NotOk (g : syncer) : Prop := forall st cm, s_mode g <> MDone (OOk st cm).

Definition Post (pv : provider) (j : list call) (g' : syncer) : Prop :=
  SInv' pv g' /\ JStep j g' /\ NotOk g'.

(* precondition of handle_err *)
Definition HPre (g : syncer) : Prop :=
  Core g /\ forall s q, s_cur g = Some (s, q) -> q_open q = true.

(* precondition of loop *)
Definition LoopPre (g : syncer) : Prop := HPre g /\ s_insync g = false.

Definition SRes (pv : provider) (j : list call) (r : sres) : Prop :=
  match snd r with
  | None => Post pv j (fst r)
  | Some _ => HPre (fst r) /\ s_journal (fst r) = j
  end.

Lemma finish_Post pv g o :
  Core g -> o <> OErr 8 -> (forall st cm, o <> OOk st cm) -> Post pv (s_journal g) (finish g o).
Proof.
  intros HC H8 Hok. split; [apply finish_SInv'; assumption|]. split.
  - left. apply finish_journal.
  - intros st cm. rewrite finish_mode. intros E; injection E as E. eapply Hok, E.
Qed.

(* ------------------------------------------------------------------ deliver / apply_next *)

Definition DelPre (q : cqueue) (r : next_res) : Prop :=
  match r with
  | NDone => forall j, 0 <= j < q_chunks q -> q_ret q j = true
  | NWait i => 0 <= i < q_chunks q /\ q_files q i = None /\ q_ret q i = false /\
               forall j, 0 <= j < i -> q_ret q j = true
  | NChunk i b sd => 0 <= i < q_chunks q /\ q_files q i = Some b /\ q_senders q i = Some sd /\
                     q_ret q i = true /\ forall j, 0 <= j < i -> q_ret q j = true
  | NNil => False
  end.

Lemma deliver_post pv g s ah st cm q0 q r :
  PoolOK (s_pool g) -> s_cur g = Some (s, q0) -> s_insync g = true ->
  ctx1 pv s ah -> ctx2 pv s st cm -> K s ah (s_journal g) ->
  QOK s q -> q_open q = true -> DelPre q r ->
  SRes pv (s_journal g) (deliver g s ah st cm q r).
Proof.
  intros HP Hc Hi C1 C2 HJ HQ Ho HD.
  unfold deliver, set_q. rewrite Hc.
  assert (HCore : forall g', s_pool g' = s_pool g -> s_cur g' = Some (s, q) -> Core g').
  { intros g' E1 E2. split; [rewrite E1; exact HP|]. intros s1 q1. rewrite E2.
    intros E; injection E as <- <-. exact HQ. }
  destruct r as [|i|i b sd|]; unfold SRes; sy; unfold DelPre in HD.
  - split; [apply SInv'_intro|split].
    + apply HCore; reflexivity.
    + unfold ModeInv; sy. split; [exact C1|]. split; [exact C2|]. split; [|eexists; reflexivity].
      exists q; sy. auto.
    + unfold JInv; sy. apply K_cons, HJ.
    + right. exists CInfo; sy. split; [reflexivity|]. do 4 eexists; reflexivity.
    + intros st' cm'; sy; discriminate.
  - split; [apply SInv'_intro|split].
    + apply HCore; reflexivity.
    + unfold ModeInv; sy. split; [exact C1|]. split; [exact C2|].
      exists q; sy. auto.
    + unfold JInv; sy. exact HJ.
    + left; reflexivity.
    + intros st' cm'; sy; discriminate.
  - split; [apply SInv'_intro|split].
    + apply HCore; reflexivity.
    + unfold ModeInv; sy. split; [exact C1|]. split; [exact C2|].
      exists q; sy. split; [reflexivity|]. split; [exact Hi|]. split; [exact Ho|].
      exists b, sd, (s_journal g), (s_qlog g). split; [reflexivity|]. split; [reflexivity|]. exact HD.
    + unfold JInv; sy. apply K_cons, HJ.
    + right. exists (CApply i b sd); sy. split; [reflexivity|]. do 4 eexists; reflexivity.
    + intros st' cm'; sy; discriminate.
  - contradiction.
Qed.

Lemma apply_next_post pv g s ah st cm q :
  PoolOK (s_pool g) -> s_cur g = Some (s, q) -> s_insync g = true ->
  ctx1 pv s ah -> ctx2 pv s st cm -> K s ah (s_journal g) ->
  QOK s q -> q_open q = true ->
  SRes pv (s_journal g) (apply_next g s ah st cm).
Proof.
  intros HP Hc Hi C1 C2 HJ HQ Ho.
  unfold apply_next. rewrite Hc. destruct (q_next q) as [q' r] eqn:E.
  assert (HI : QInv q) by apply HQ.
  destruct r as [|i|i b sd|].
  - destruct (next_done_all q q' HI E) as (-> & [Hx|Hx]); [congruence|].
    eapply deliver_post; eauto.
  - destruct (next_wait_least q q' i HI E) as (-> & _ & H1 & H2 & H3 & H4).
    eapply deliver_post; eauto. cbn [DelPre]. auto.
  - destruct (next_chunk_least q q' i b sd HI E) as (_ & H1 & H2 & H3 & H4 & H5 & ->).
    eapply deliver_post; eauto.
    + eapply QOK_same; [exact HQ | apply qsame_set_ret | eapply QInv_set_ret_true; eauto].
    + cbn [DelPre]; qy. split; [exact H1|]. split; [exact H4|]. split; [exact H5|].
      split; [apply upd_same|]. intros j Hj. rewrite upd_other by lia. apply H2, Hj.
  - exfalso. apply (next_not_nil q). rewrite E. reflexivity.
Qed.

(* ------------------------------------------------------------------ handle_err / loop *)

Lemma handle_err_post g s e :
  HPre g -> LoopPre (handle_err g s e) /\ s_journal (handle_err g s e) = s_journal g.
Proof.
  intros [[HP HC] Ho]. unfold handle_err, LoopPre, HPre, Core.
  assert (X : forall p', PoolOK p' ->
     let g' := set_cur (set_pool (set_insync g false) p') None in
     (((PoolOK (s_pool g') /\ (forall s q, s_cur g' = Some (s, q) -> QOK s q)) /\
       (forall s q, s_cur g' = Some (s, q) -> q_open q = true)) /\ s_insync g' = false) /\
     s_journal g' = s_journal g).
  { intros p' Hp'; sy. split; [split; [split; [split|]|]|]; try reflexivity; try exact Hp';
    intros; discriminate. }
  destruct e; sy.
  - destruct (s_cur g) as [[s' q]|] eqn:Ec; sy.
    + split; [split; [split; [split|]|]|]; try reflexivity; try exact HP.
      * intros s1 q1 E; injection E as <- <-.
        eapply QOK_same; [apply HC; reflexivity | apply qsame_retry_all | apply QInv_retry_all].
        apply (HC s' q eq_refl).
      * intros s1 q1 E; injection E as <- <-.
        destruct (qsame_retry_all q) as [-> _]. apply (Ho s' q eq_refl).
    + rewrite Ec. split; [split; [split; [split|]|]|]; try reflexivity; try exact HP;
      intros; discriminate.
  - apply X, PoolOK_reject, HP.
  - apply X, PoolOK_reject, HP.
  - apply X, PoolOK_reject_format, HP.
  - apply X, PoolOK_reject_peers, HP.
Qed.

Definition loop_run pv disc fuel' (g : syncer) (s : snapshot) : syncer :=
  match sync_begin pv g s with
  | (g', None) => g'
  | (g', Some e) => loop pv disc fuel' (handle_err g' s e)
  end.

Lemma loop_S pv disc fuel' g :
  loop pv disc (S fuel') g =
  match s_cur g with
  | Some (s, _) => loop_run pv disc fuel' g s
  | None =>
    let '(best, ties') := pool_best (s_pool g) (s_ties g) in
    let g := set_ties g ties' in
    match best with
    | None => if disc then set_mode g MSleep else finish g ONoSnapshots
    | Some s =>
      match new_queue s with
      | None => finish g (OErr 1)
      | Some q => loop_run pv disc fuel' (set_qlog (set_cur g (Some (s, q))) []) s
      end
    end
  end.
Proof. reflexivity. Qed.

Lemma loop_post pv disc : forall fuel g,
  LoopPre g -> Post pv (s_journal g) (loop pv disc fuel g).
Proof.
  induction fuel as [|fuel IH]; intros g [[HC Ho] Hi].
  - cbn [loop]. apply finish_Post; [exact HC | discriminate | discriminate].
  - assert (R : forall g s q, Core g -> s_cur g = Some (s, q) -> q_open q = true ->
                  Post pv (s_journal g) (loop_run pv disc fuel g s)).
    { clear g HC Ho Hi. intros g s q HC Hc Hq. unfold loop_run, sync_begin.
      assert (HC1 : Core (set_insync g true)) by exact HC.
      destruct (pv_apphash pv (sn_height s)) as [ah| |] eqn:EA.
      - split; [apply SInv'_intro|split].
        + exact HC.
        + unfold ModeInv; sy. split; [exact EA|]. split; [|eexists; reflexivity].
          exists q; sy. auto.
        + exact I.
        + right. exists (COffer s ah); sy. split; reflexivity.
        + intros st cm; sy; discriminate.
      - destruct (handle_err_post (set_insync g true) s ERejectSnapshot) as [L J].
        { split; [exact HC1|]. sy. intros s1 q1 E. rewrite Hc in E. injection E as <- <-. exact Hq. }
        specialize (IH _ L). rewrite J in IH. exact IH.
      - apply (finish_Post pv (set_insync g true)); [exact HC1 | discriminate | discriminate]. }
    rewrite loop_S. destruct (s_cur g) as [[s q]|] eqn:Ec.
    + eapply R; eauto.
    + destruct (pool_best (s_pool g) (s_ties g)) as [best ties'] eqn:EB.
      assert (HCt : Core (set_ties g ties')).
      { split; [apply HC|]. sy. rewrite Ec. discriminate. }
      destruct best as [s|].
      * assert (Hs : 0 <= sn_chunks s).
        { destruct HC as [[HP Hch] _]. eapply Hch. eapply best_in_pool; [exact HP|].
          rewrite EB. reflexivity. }
        destruct (new_queue s) as [q|] eqn:EN.
        -- destruct (QOK_new s q EN Hs) as [HQ Hopen].
           apply (R (set_qlog (set_cur (set_ties g ties') (Some (s, q))) []) s q).
           ++ split; [apply HC|]. sy. intros s1 q1 E; injection E as <- <-. exact HQ.
           ++ reflexivity.
           ++ exact Hopen.
        -- apply (finish_Post pv (set_ties g ties')); [exact HCt | discriminate | discriminate].
      * destruct disc.
        -- split; [apply SInv'_intro|split].
           ++ exact HCt.
           ++ unfold ModeInv; sy. split; assumption.
           ++ exact I.
           ++ left; reflexivity.
           ++ intros st cm; sy; discriminate.
        -- apply (finish_Post pv (set_ties g ties')); [exact HCt | discriminate | discriminate].
Qed.

Lemma continue_post pv disc j r s : SRes pv j r -> Post pv j (continue pv disc r s).
Proof.
  destruct r as [g' [e|]]; unfold SRes, continue; cbn [fst snd].
  - intros [H J]. destruct (handle_err_post g' s e H) as [L J2].
    rewrite <- J, <- J2. apply loop_post, L.
  - auto.
Qed.

(* ------------------------------------------------------------------ after_offer / after_apply *)

Lemma in_sync_HPre g s P : Core g -> in_sync g s P -> HPre g.
Proof.
  intros HC (q & Hc & Hi & Ho & _). split; [exact HC|].
  intros s1 q1 E. rewrite Hc in E. injection E as <- <-. exact Ho.
Qed.

Lemma after_offer_post pv g s ah :
  SInv' pv g -> s_mode g = MOffer s ah -> SRes pv (s_journal g) (after_offer pv g s ah).
Proof.
  intros HS EM. pose proof (SInv'_Core _ _ HS) as HC. pose proof (SInv'_Mode _ _ HS) as HM.
  unfold ModeInv in HM; rewrite EM in HM. destruct HM as (C1 & IS & (r & J)).
  pose proof (in_sync_HPre _ _ _ HC IS) as HH. destruct IS as (q & Hc & Hi & Ho & _).
  unfold after_offer.
  destruct (pv_state pv (sn_height s)) as [st| |] eqn:E1.
  - destruct (pv_commit pv (sn_height s)) as [cm| |] eqn:E2.
    + eapply apply_next_post; eauto.
      * apply HC.
      * split; assumption.
      * rewrite J; apply K_offer.
      * apply HC; exact Hc.
    + unfold SRes; cbn [fst snd]. split; [exact HH | reflexivity].
    + unfold SRes; cbn [fst snd]. apply finish_Post; [exact HC | discriminate | discriminate].
  - unfold SRes; cbn [fst snd]. split; [exact HH | reflexivity].
  - unfold SRes; cbn [fst snd]. apply finish_Post; [exact HC | discriminate | discriminate].
Qed.

Lemma set_q_cur g s q0 q : s_cur g = Some (s, q0) -> set_q g q = set_cur g (Some (s, q)).
Proof. intros E. unfold set_q. rewrite E. reflexivity. Qed.

Lemma after_apply_post pv g s ah st cm i r refetch rejects :
  SInv' pv g -> s_mode g = MApply s ah st cm i ->
  SRes pv (s_journal g) (after_apply g s ah st cm i r refetch rejects).
Proof.
  intros HS EM. pose proof (SInv'_Core _ _ HS) as HC. pose proof (SInv'_Mode _ _ HS) as HM.
  destruct HS as [_ HJ]. unfold JInv in HJ; rewrite EM in HJ.
  unfold ModeInv in HM; rewrite EM in HM. destruct HM as (C1 & C2 & IS).
  destruct IS as (q & Hc & Hi & Ho & _).
  destruct HC as [HP HQ]. specialize (HQ s q Hc).
  unfold after_apply. rewrite Hc.
  set (q1 := fold_left q_discard refetch q).
  assert (HQ1 : QInv q1) by (apply QInv_discards, HQ).
  assert (S1 : qsame q q1) by apply qsame_discards.
  destruct (reject_senders_ok rejects (s_pool g) q1 HP HQ1) as (A & B & C).
  destruct (reject_senders (s_pool g) q1 rejects) as [p2 q2]. cbn [fst snd] in A, B, C.
  assert (S2 : qsame q q2) by (eapply qsame_trans; eauto).
  assert (HQ2 : QOK s q2) by (eapply QOK_same; eauto).
  assert (Ho2 : q_open q2 = true) by (destruct S2 as [-> _]; exact Ho).
  rewrite (set_q_cur (set_pool g p2) s q q2 Hc).
  set (g2 := set_cur (set_pool g p2) (Some (s, q2))).
  assert (HC2 : Core g2).
  { split; [exact A|]. unfold g2; sy. intros s1 q1' E; injection E as <- <-. exact HQ2. }
  assert (HH2 : HPre g2).
  { split; [exact HC2|]. unfold g2; sy. intros s1 q1' E; injection E as <- <-. exact Ho2. }
  change (s_journal g) with (s_journal g2).
  destruct (r =? 1).
  { apply (apply_next_post pv g2 s ah st cm q2); auto; reflexivity. }
  destruct (r =? 2).
  { unfold SRes; cbn [fst snd]. apply finish_Post; [exact HC2 | discriminate | discriminate]. }
  destruct (r =? 3).
  { rewrite (set_q_cur g2 s q2 (q_retry q2 i) eq_refl).
    change (s_journal g2) with (s_journal (set_cur g2 (Some (s, q_retry q2 i)))).
    apply (apply_next_post pv _ s ah st cm (q_retry q2 i)); auto; try reflexivity.
    eapply QOK_same; [exact HQ2 | apply qsame_retry | apply QInv_retry, B]. }
  destruct (r =? 4).
  { unfold SRes; cbn [fst snd]. split; [exact HH2 | reflexivity]. }
  destruct (r =? 5).
  { unfold SRes; cbn [fst snd]. split; [exact HH2 | reflexivity]. }
  unfold SRes; cbn [fst snd]. apply finish_Post; [exact HC2 | discriminate | discriminate].
Qed.

(* ------------------------------------------------------------------ add_chunk *)

Lemma add_chunk_cases g pr h f idx body g' r :
  add_chunk g pr h f idx body = (g', r) ->
  (g' = g /\ r <> AddTrue) \/
  (exists s q q', s_insync g = true /\ s_cur g = Some (s, q) /\
     q_add q h f idx body pr = (q', r) /\ g' = set_cur g (Some (s, q'))).
Proof.
  unfold add_chunk. destruct (s_insync g); cbn [negb];
    [|intros E; injection E as <- <-; left; split; [reflexivity|discriminate]].
  destruct (s_cur g) as [[s q]|];
    [|intros E; injection E as <- <-; left; split; [reflexivity|discriminate]].
  destruct (pool_peer_rejected (s_pool g) pr);
    [intros E; injection E as <- <-; left; split; [reflexivity|discriminate]|].
  destruct (q_add q h f idx body pr) as [q' r'] eqn:E.
  intros X; injection X as <- <-. right. exists s, q, q'. auto.
Qed.

Lemma set_cur_same g v : s_cur g = v -> set_cur g v = g.
Proof. destruct g; sy. intros <-. reflexivity. Qed.

Lemma SInv'_set_pool pv g p' : SInv' pv g -> PoolOK p' -> SInv' pv (set_pool g p').
Proof.
  intros HS HP. pose proof (SInv'_Core _ _ HS) as HC. pose proof (SInv'_Mode _ _ HS) as HM.
  destruct HS as [_ HJ]. apply SInv'_intro.
  - split; [exact HP | exact (proj2 HC)].
  - exact HM.
  - exact HJ.
Qed.

Lemma SInv'_newq pv g s q q' :
  SInv' pv g -> s_cur g = Some (s, q) -> QInv q' -> qsame q q' -> q_ret q' = q_ret q ->
  (forall j, q_files q j <> None -> q_files q' j = q_files q j /\ q_senders q' j = q_senders q j) ->
  (forall s0 ah st cm i, s_mode g = MWait s0 ah st cm i -> q_files q' i = None) ->
  SInv' pv (set_cur g (Some (s, q'))).
Proof.
  intros HS Hc HI Sm Hr Hf Hw.
  pose proof (SInv'_Core _ _ HS) as HC. pose proof (SInv'_Mode _ _ HS) as HM.
  destruct HS as [_ HJ]. apply SInv'_intro.
  - split; [apply HC|]. sy. intros s1 q1 E; injection E as <- <-.
    eapply QOK_same; [apply HC; exact Hc | exact Sm | exact HI].
  - assert (Hopen : q_open q' = q_open q) by apply Sm.
    assert (Hch : q_chunks q' = q_chunks q) by apply Sm.
    unfold ModeInv in *; sy. destruct (s_mode g) as [| |s0 ah|s0 ah st cm i|s0 ah st cm i|s0 ah st cm|o].
    + destruct HM as [_ X]; congruence.
    + destruct HM as [_ X]; congruence.
    + destruct HM as (C1 & (q0 & Hc0 & Hi & Ho & _) & J).
      assert (X : s0 = s /\ q0 = q) by (split; congruence). destruct X as [-> ->].
      split; [exact C1|]. split; [|exact J]. exists q'; sy.
      split; [reflexivity|]. split; [exact Hi|]. split; [congruence | exact I].
    + destruct HM as (C1 & C2 & (q0 & Hc0 & Hi & Ho & (b & sd & r & l & J & L & Hr1 & Hf1 & Hs1 & Hr2 & Hr3))).
      assert (X : s0 = s /\ q0 = q) by (split; congruence). destruct X as [-> ->].
      split; [exact C1|]. split; [exact C2|]. exists q'; sy.
      split; [reflexivity|]. split; [exact Hi|]. split; [congruence|].
      exists b, sd, r, l. destruct (Hf i) as [F1 F2]; [congruence|].
      rewrite Hr, Hch, F1, F2. auto 10.
    + destruct HM as (C1 & C2 & (q0 & Hc0 & Hi & Ho & (Hr1 & Hf1 & Hr2 & Hr3))).
      assert (X : s0 = s /\ q0 = q) by (split; congruence). destruct X as [-> ->].
      split; [exact C1|]. split; [exact C2|]. exists q'; sy.
      split; [reflexivity|]. split; [exact Hi|]. split; [congruence|].
      rewrite Hr, Hch. split; [exact Hr1|]. split; [eapply Hw; reflexivity|]. auto.
    + destruct HM as (C1 & C2 & (q0 & Hc0 & Hi & Ho & Hr1) & J).
      assert (X : s0 = s /\ q0 = q) by (split; congruence). destruct X as [-> ->].
      split; [exact C1|]. split; [exact C2|]. split; [|exact J]. exists q'; sy.
      split; [reflexivity|]. split; [exact Hi|]. split; [congruence|].
      rewrite Hr, Hch. exact Hr1.
    + destruct HM as (Hi & Hcl & Ho). split; [exact Hi|]. split; [|exact Ho].
      intros s1 q1 E; injection E as <- <-. rewrite Hopen. apply (Hcl s q Hc).
  - exact HJ.
Qed.

(* ------------------------------------------------------------------ one step *)

Definition StepRes (pv : provider) (g : syncer) (e : event) (g' : syncer) : Prop :=
  SInv' pv g' /\
  ((s_mode g' = s_mode g /\ s_journal g' = s_journal g) \/
   (JStep (s_journal g) g' /\ NotOk g') \/
   (exists s ah st cm appv hash height,
      s_mode g = MInfo s ah st cm /\ e = EInfoReply appv hash height /\
      s_journal g' = s_journal g /\
      s_mode g' = MDone (match verify_app s ah st appv hash height with
                         | Some c => OErr c | None => OOk st cm end))).

Lemma StepRes_same pv g e : SInv' pv g -> StepRes pv g e g.
Proof. intros H. split; [exact H|]. left. split; reflexivity. Qed.

Lemma StepRes_post pv g e g' : Post pv (s_journal g) g' -> StepRes pv g e g'.
Proof. intros (A & B & C). split; [exact A|]. right; left. split; assumption. Qed.

Lemma StepRes_pool pv g e p' : SInv' pv g -> PoolOK p' -> StepRes pv g e (set_pool g p').
Proof. intros H HP. split; [apply SInv'_set_pool; assumption|]. left. split; reflexivity. Qed.

Lemma verify_app_code s ah st appv hash height c :
  verify_app s ah st appv hash height = Some c -> c = 5 \/ c = 6 \/ c = 7.
Proof.
  unfold verify_app.
  destruct (negb (appv =? st_vapp st)); [intros E; injection E as <-; auto|].
  destruct (negb (bytes_eqb ah hash)); [intros E; injection E as <-; auto|].
  destruct (negb (u64 height =? sn_height s)); [intros E; injection E as <-; auto|].
  discriminate.
Qed.

Lemma step_cases pv disc g e :
  ev_ok e -> SInv' pv g -> StepRes pv g e (sstep pv disc g e).
Proof.
  intros Hev HS.
  pose proof (SInv'_Core _ _ HS) as HC. pose proof (SInv'_Mode _ _ HS) as HM.
  unfold sstep, step. destruct e.
  - (* EStart *)
    destruct (s_mode g) eqn:EM; cbn [fst]; try (apply StepRes_same; exact HS).
    apply StepRes_post, loop_post. unfold ModeInv in HM; rewrite EM in HM. destruct HM as [Hi Hc].
    split; [split; [exact HC|]|exact Hi]. intros s q E; congruence.
  - (* ETick *)
    destruct (s_mode g) eqn:EM; cbn [fst]; try (apply StepRes_same; exact HS).
    apply StepRes_post, loop_post. unfold ModeInv in HM; rewrite EM in HM. destruct HM as [Hi Hc].
    split; [split; [exact HC|]|exact Hi]. intros s0 q E; congruence.
  - (* EAddSnapshot *)
    pose proof (PoolOK_add (s_pool g) pr s Hev (proj1 HC)) as HP.
    destruct (pool_add (s_pool g) pr s) as [p' b]. cbn [fst] in *.
    apply StepRes_pool; assumption.
  - (* ERemovePeer *)
    cbn [fst]. apply StepRes_pool; [exact HS | apply PoolOK_remove_peer, HC].
  - (* EAddChunk *)
    destruct (add_chunk g pr h f idx body) as [g' r] eqn:EA.
    destruct (add_chunk_cases _ _ _ _ _ _ _ _ EA) as [[-> Hr] | (s & q & q' & Hi & Hc & EQ & ->)].
    { destruct r; try congruence; cbn [fst]; apply StepRes_same; exact HS. }
    assert (HQ : QOK s q) by (apply HC; exact Hc).
    destruct (q_add_cases _ _ _ _ _ _ _ _ EQ) as [[-> Hr] | (-> & b & Hf & Ho & Hlt & Eq')].
    { rewrite (set_cur_same g _ Hc).
      destruct r; try congruence; cbn [fst]; apply StepRes_same; exact HS. }
    assert (HI' : QInv q').
    { pose proof (QInv_add q h f idx body pr Hev (proj1 HQ)) as X. rewrite EQ in X. exact X. }
    assert (Sm : qsame q q') by (rewrite Eq'; unfold qsame; qy; tauto).
    assert (Hret : q_ret q' = q_ret q) by (rewrite Eq'; reflexivity).
    assert (Hfs : forall j, j <> idx -> q_files q' j = q_files q j /\ q_senders q' j = q_senders q j).
    { intros j Hj. rewrite Eq'; qy. rewrite !upd_other by exact Hj. auto. }
    assert (Hfs' : forall j, q_files q j <> None ->
                     q_files q' j = q_files q j /\ q_senders q' j = q_senders q j).
    { intros j Hj. apply Hfs. congruence. }
    assert (Hnew : q_files q' idx = Some b /\ q_senders q' idx = Some pr).
    { rewrite Eq'; qy. rewrite !upd_same. auto. }
    assert (Plain : (forall s0 ah st cm i, s_mode g = MWait s0 ah st cm i -> idx <> i) ->
                    StepRes pv g (EAddChunk pr h f idx body) (set_cur g (Some (s, q')))).
    { intros Hne. split; [|left; split; reflexivity].
      eapply SInv'_newq; eauto. intros s0 ah st cm i EM.
      destruct (Hfs i) as [F _]; [intro; subst; eapply Hne; eauto|]. rewrite F.
      unfold ModeInv in HM; rewrite EM in HM.
      destruct HM as (_ & _ & (q0 & Hc0 & _ & _ & (_ & X & _))).
      assert (q0 = q) by congruence. subst q0. exact X. }
    destruct (s_mode g) as [| |s0 ah|s0 ah st cm i|s0 ah st cm i|s0 ah st cm|o] eqn:EM;
      cbn [fst]; try (apply Plain; intros; discriminate).
    destruct (Z.eqb_spec idx i) as [->|Hne]; cbn [fst];
      [|apply Plain; intros ? ? ? ? ? E; injection E as _ _ _ _ <-; exact Hne].
    sy. unfold q_wake. destruct Hnew as [Hn1 Hn2]. rewrite Hn1. unfold q_get_sender. rewrite Hn2.
    cbn [fst]. apply StepRes_post.
    unfold ModeInv in HM; rewrite EM in HM.
    destruct HM as (C1 & C2 & (q0 & Hc0 & _ & _ & (R1 & R2 & R3 & R4))).
    assert (X : s0 = s /\ q0 = q) by (split; congruence). destruct X as [-> ->].
    destruct HS as [_ HJ]. unfold JInv in HJ; rewrite EM in HJ.
    apply continue_post.
    change (s_journal g) with (s_journal (set_cur g (Some (s, q')))).
    eapply deliver_post; try eassumption; try reflexivity.
    + apply HC.
    + eapply QOK_same; [exact HQ | eapply qsame_trans; [exact Sm | apply qsame_set_ret] |
                        eapply QInv_set_ret_true; eauto].
    + qy. destruct Sm as [-> _]. exact Ho.
    + cbn [DelPre]; qy. destruct Sm as (_ & _ & _ & ->).
      split; [exact R1|]. split; [exact Hn1|]. split; [exact Hn2|]. split; [apply upd_same|].
      intros j Hj. rewrite upd_other by lia. rewrite Hret. apply R4, Hj.
  - (* EOfferReply *)
    destruct (s_mode g) eqn:EM; cbn [fst]; try (apply StepRes_same; exact HS).
    assert (HH : HPre g).
    { unfold ModeInv in HM; rewrite EM in HM. destruct HM as (_ & IS & _).
      eapply in_sync_HPre; eauto. }
    destruct (r =? 1); cbn [fst].
    { apply StepRes_post, continue_post, after_offer_post; assumption. }
    destruct (r =? 2); cbn [fst].
    { apply StepRes_post, finish_Post; [exact HC | discriminate | discriminate]. }
    destruct (r =? 3); cbn [fst].
    { apply StepRes_post, continue_post. split; [exact HH | reflexivity]. }
    destruct (r =? 4); cbn [fst].
    { apply StepRes_post, continue_post. split; [exact HH | reflexivity]. }
    destruct (r =? 5); cbn [fst].
    { apply StepRes_post, continue_post. split; [exact HH | reflexivity]. }
    apply StepRes_post, finish_Post; [exact HC | discriminate | discriminate].
  - (* EApplyReply *)
    destruct (s_mode g) eqn:EM; cbn [fst]; try (apply StepRes_same; exact HS).
    apply StepRes_post, continue_post, after_apply_post; assumption.
  - (* EInfoReply *)
    destruct (s_mode g) eqn:EM; cbn [fst]; try (apply StepRes_same; exact HS).
    destruct (verify_app s ah st appv hash height) as [c|] eqn:EV; cbn [fst].
    + split.
      * apply finish_SInv'; [exact HC|]. apply verify_app_code in EV.
        intros E; injection E as E. lia.
      * right; right. exists s, ah, st, cm, appv, hash, height. rewrite EV.
        split; [exact EM|]. split; [reflexivity|]. split; [apply finish_journal | reflexivity].
    + split.
      * apply finish_SInv'; [exact HC | discriminate].
      * right; right. exists s, ah, st, cm, appv, hash, height. rewrite EV.
        split; [exact EM|]. split; [reflexivity|]. split; [apply finish_journal | reflexivity].
  - (* EChunkTimeout *)
    destruct (s_mode g) eqn:EM; cbn [fst]; try (apply StepRes_same; exact HS).
    apply StepRes_post, continue_post.
    unfold ModeInv in HM; rewrite EM in HM. destruct HM as (_ & _ & IS).
    split; [eapply in_sync_HPre; eauto | reflexivity].
Qed.

End WithK.

(* ------------------------------------------------------------------ the two instances *)

Definition KIn (s : snapshot) (ah : bytes) (j : list call) : Prop := In (COffer s ah) j.
Definition KTrue (s : snapshot) (ah : bytes) (j : list call) : Prop := True.

Lemma KIn_offer : forall s ah r, KIn s ah (COffer s ah :: r).
Proof. intros; left; reflexivity. Qed.
Lemma KIn_cons : forall s ah c j, KIn s ah j -> KIn s ah (c :: j).
Proof. intros; right; assumption. Qed.
Lemma KTrue_offer : forall s ah r, KTrue s ah (COffer s ah :: r).
Proof. intros; exact I. Qed.
Lemma KTrue_cons : forall s ah c j, KTrue s ah j -> KTrue s ah (c :: j).
Proof. intros; exact I. Qed.

(* SInv strengthened: in the modes after the offer, the offer is in the journal *)
Definition SInvJ (pv : provider) (g : syncer) : Prop := SInv' KIn pv g.

Lemma SInvJ_SInv pv g : SInvJ pv g -> SInv pv g.
Proof. intros [H _]; exact H. Qed.

Lemma SInvJ_offer pv g : SInvJ pv g ->
  match s_mode g with
  | MOffer s ah | MApply s ah _ _ _ | MWait s ah _ _ _ | MInfo s ah _ _ =>
    In (COffer s ah) (s_journal g)
  | _ => True
  end.
Proof.
  intros HS. pose proof (SInv'_Mode _ _ _ HS) as HM. destruct HS as [_ HJ].
  unfold JInv, ModeInv in *. destruct (s_mode g); try exact I; try exact HJ.
  destruct HM as (_ & _ & (r & ->)). left; reflexivity.
Qed.

Lemma SInv_True pv g : SInv pv g <-> SInv' KTrue pv g.
Proof.
  split; [|intros [H _]; exact H].
  intros H; split; [exact H|]. unfold JInv. destruct (s_mode g); exact I.
Qed.

Lemma step_casesT pv disc g e :
  ev_ok e -> SInv pv g -> StepRes KTrue pv g e (sstep pv disc g e).
Proof. intros He H. apply (step_cases KTrue KTrue_offer KTrue_cons); [exact He | apply SInv_True, H]. Qed.

Lemma step_casesJ pv disc g e :
  ev_ok e -> SInvJ pv g -> StepRes KIn pv g e (sstep pv disc g e).
Proof. intros He H. apply (step_cases KIn KIn_offer KIn_cons); assumption. Qed.

(* ------------------------------------------------------------------ A. the invariant *)

Lemma SInv'_init K pv ties : SInv' K pv (init_syncer ties).
Proof.
  apply SInv'_intro.
  - split; [apply PoolOK_new|]. cbn. discriminate.
  - unfold ModeInv; cbn. split; reflexivity.
  - exact I.
Qed.

Lemma SInv_init : forall pv ties, SInv pv (init_syncer ties).
Proof. intros. apply SInv_True, SInv'_init. Qed.

Theorem SInv_step : forall pv disc g e, ev_ok e -> SInv pv g -> SInv pv (sstep pv disc g e).
Proof. intros pv disc g e He H. apply SInv_True. apply (step_casesT pv disc g e He H). Qed.

Lemma SInvJ_init : forall pv ties, SInvJ pv (init_syncer ties).
Proof. intros. apply SInv'_init. Qed.

Theorem SInvJ_step : forall pv disc g e, ev_ok e -> SInvJ pv g -> SInvJ pv (sstep pv disc g e).
Proof. intros pv disc g e He H. apply (step_casesJ pv disc g e He H). Qed.

Lemma reach_nil pv disc ties : reach pv disc ties [] = init_syncer ties.
Proof. reflexivity. Qed.

Corollary SInv_reach : forall pv disc ties evs,
  Forall ev_ok evs -> SInv pv (reach pv disc ties evs).
Proof.
  intros pv disc ties evs. induction evs as [|e evs IH] using rev_ind; intros H.
  - rewrite reach_nil. apply SInv_init.
  - rewrite reach_snoc. apply Forall_app in H as [H1 H2]. inversion H2; subst.
    apply SInv_step; auto.
Qed.

Corollary SInvJ_reach : forall pv disc ties evs,
  Forall ev_ok evs -> SInvJ pv (reach pv disc ties evs).
Proof.
  intros pv disc ties evs. induction evs as [|e evs IH] using rev_ind; intros H.
  - rewrite reach_nil. apply SInvJ_init.
  - rewrite reach_snoc. apply Forall_app in H as [H1 H2]. inversion H2; subst.
    apply SInvJ_step; auto.
Qed.

(* ------------------------------------------------------------------ B. application calls *)

Lemma journal_step : forall pv disc g e, ev_ok e -> SInv pv g ->
  let g' := sstep pv disc g e in
  s_journal g' = s_journal g \/
  exists c, s_journal g' = c :: s_journal g /\
    match c with
    | COffer s ah => s_mode g' = MOffer s ah
    | CApply i b sd => exists s ah st cm, s_mode g' = MApply s ah st cm i
    | CInfo => exists s ah st cm, s_mode g' = MInfo s ah st cm
    end.
Proof.
  intros pv disc g e He H. cbv zeta.
  destruct (step_casesT pv disc g e He H) as [_ [[_ J] | [[J _] | X]]].
  - left; exact J.
  - exact J.
  - destruct X as (s & ah & st & cm & appv & hash & height & _ & _ & J & _). left; exact J.
Qed.

Corollary chunks_in_order : forall pv disc ties evs e i b sd r,
  Forall ev_ok (evs ++ [e]) ->
  let g := reach pv disc ties evs in
  let g' := sstep pv disc g e in
  s_journal g' = CApply i b sd :: r -> s_journal g' <> s_journal g ->
  exists s q, s_cur g' = Some (s, q) /\ q_open q = true /\ 0 <= i < q_chunks q /\
    q_files q i = Some b /\ q_senders q i = Some sd /\ q_ret q i = true /\
    (forall j, 0 <= j < i -> q_ret q j = true).
Proof.
  intros pv disc ties evs e i b sd r HF. cbv zeta.
  set (g := reach pv disc ties evs). set (g' := sstep pv disc g e). intros HJ Hne.
  apply Forall_app in HF as [HF1 HF2]. inversion HF2 as [|? ? He _]; subst.
  pose proof (SInv_reach pv disc ties evs HF1) as HS. fold g in HS.
  pose proof (SInv_step pv disc g e He HS) as HS'. fold g' in HS'.
  pose proof (journal_step pv disc g e He HS) as X. cbv zeta in X. fold g' in X.
  destruct X as [X | (c & X & Y)]; [contradiction|].
  rewrite HJ in X. injection X as <- _.
  destruct Y as (s & ah & st & cm & EM).
  apply SInv_split in HS'. destruct HS' as [_ HM]. unfold ModeInv in HM. rewrite EM in HM.
  destruct HM as (_ & _ & (q & Hc & Hi & Ho & (b' & sd' & r' & l & J & L & P))).
  rewrite HJ in J. injection J as <- <- _.
  exists s, q. split; [exact Hc|]. split; [exact Ho|]. exact P.
Qed.

(* ------------------------------------------------------------------ C. restoration *)

Lemma done_absorbing : forall pv disc g e o, s_mode g = MDone o ->
  s_mode (sstep pv disc g e) = MDone o /\ s_journal (sstep pv disc g e) = s_journal g.
Proof.
  intros pv disc g e o EM. unfold sstep, step.
  destruct e; try (rewrite EM; cbn [fst]; split; [exact EM | reflexivity]).
  - destruct (pool_add (s_pool g) pr s) as [p' b]. cbn [fst]. sy. split; [exact EM | reflexivity].
  - cbn [fst]. sy. split; [exact EM | reflexivity].
  - destruct (add_chunk g pr h f idx body) as [g' r] eqn:EA.
    destruct (add_chunk_cases _ _ _ _ _ _ _ _ EA) as [[-> _] | (s & q & q' & _ & _ & _ & ->)];
      rewrite EM; destruct r; cbn [fst]; sy; split; solve [exact EM | reflexivity].
Qed.

Lemma journal_mono : forall pv disc g e c, ev_ok e -> SInv pv g ->
  In c (s_journal g) -> In c (s_journal (sstep pv disc g e)).
Proof.
  intros pv disc g e c He H Hin.
  destruct (journal_step pv disc g e He H) as [-> | (c' & -> & _)]; [exact Hin | right; exact Hin].
Qed.

Lemma verify_app_none s ah st appv hash height :
  verify_app s ah st appv hash height = None ->
  appv = st_vapp st /\ hash = ah /\ u64 height = sn_height s.
Proof.
  unfold verify_app.
  destruct (Z.eqb_spec appv (st_vapp st)); cbn [negb]; [|discriminate].
  destruct (bytes_eqb ah hash) eqn:EB; cbn [negb]; [|discriminate].
  destruct (Z.eqb_spec (u64 height) (sn_height s)); cbn [negb]; [|discriminate].
  intros _. apply bytes_eqb_eq in EB. auto.
Qed.

Lemma ok_origin pv disc g e st cm :
  ev_ok e -> SInvJ pv g -> s_mode (sstep pv disc g e) = MDone (OOk st cm) ->
  (s_mode g = MDone (OOk st cm) /\ s_journal (sstep pv disc g e) = s_journal g) \/
  exists s ah appv hash height,
    s_mode g = MInfo s ah st cm /\ e = EInfoReply appv hash height /\
    verify_app s ah st appv hash height = None /\
    s_journal (sstep pv disc g e) = s_journal g.
Proof.
  intros He HS H.
  destruct (step_casesJ pv disc g e He HS) as [_ [[M J] | [[_ N] | X]]].
  - left. split; congruence.
  - exfalso. eapply N; eauto.
  - destruct X as (s & ah & st' & cm' & appv & hash & height & M & -> & J & M').
    rewrite M' in H. destruct (verify_app s ah st' appv hash height) eqn:EV; [discriminate|].
    injection H as -> ->. right. exists s, ah, appv, hash, height. auto.
Qed.

Theorem restore_only_if_app_agrees : forall pv disc ties evs st cm,
  Forall ev_ok evs -> s_mode (reach pv disc ties evs) = MDone (OOk st cm) ->
  exists s ah appv hash height,
    In (EInfoReply appv hash height) evs /\
    In (COffer s ah) (s_journal (reach pv disc ties evs)) /\
    pv_apphash pv (sn_height s) = ROk ah /\ pv_state pv (sn_height s) = ROk st /\
    pv_commit pv (sn_height s) = ROk cm /\
    appv = st_vapp st /\ hash = ah /\ u64 height = sn_height s.
Proof.
  intros pv disc ties evs st cm. induction evs as [|e evs IH] using rev_ind; intros HF H.
  - rewrite reach_nil in H. discriminate.
  - rewrite reach_snoc in *. apply Forall_app in HF as [HF1 HF2]. inversion HF2 as [|? ? He _]; subst.
    pose proof (SInvJ_reach pv disc ties evs HF1) as HS.
    destruct (ok_origin pv disc _ e st cm He HS H) as [[M J] | X].
    + destruct (IH HF1 M) as (s & ah & appv & hash & height & I1 & I2 & R).
      exists s, ah, appv, hash, height. split; [apply in_or_app; left; exact I1|].
      split; [rewrite J; exact I2 | exact R].
    + destruct X as (s & ah & appv & hash & height & M & -> & EV & J).
      pose proof (SInvJ_offer _ _ HS) as HO. rewrite M in HO.
      pose proof (SInv'_Mode _ _ _ HS) as HM. unfold ModeInv in HM. rewrite M in HM.
      destruct HM as (C1 & (C2 & C3) & _).
      apply verify_app_none in EV.
      exists s, ah, appv, hash, height. split; [apply in_or_app; right; left; reflexivity|].
      split; [rewrite J; exact HO|]. unfold ctx1 in C1. tauto.
Qed.

Lemma lc_state_inv : forall lc cp initial h st, lc_state lc cp initial h = ROk st ->
  exists last cur next params,
    lc (to_int64 h) = ROk last /\ lc (to_int64 (u64 (h + 1))) = ROk cur /\
    lc (to_int64 (u64 (h + 2))) = ROk next /\ cp (lb_height cur) = Some params /\
    st = mkState (if initial =? 0 then 1 else initial) (lb_vblock cur) (lb_vapp cur)
                 (lb_height last) (lb_time last) (lb_blockid last)
                 (lb_apphash cur) (lb_results cur)
                 (lb_vals last) (lb_vals cur) (lb_vals next) (lb_height next)
                 params (lb_height cur).
Proof.
  intros lc cp initial h st. unfold lc_state, rbind.
  destruct (lc (to_int64 h)) as [last| |]; try discriminate.
  destruct (lc (to_int64 (u64 (h + 1)))) as [cur| |]; try discriminate.
  destruct (lc (to_int64 (u64 (h + 2)))) as [next| |]; try discriminate.
  destruct (cp (lb_height cur)) as [params|] eqn:EC; try discriminate.
  intros E; injection E as <-. exists last, cur, next, params. auto 10.
Qed.

Lemma lc_apphash_inv : forall lc h ah, lc_apphash lc h = ROk ah ->
  exists cur next, lc (to_int64 (u64 (h + 1))) = ROk cur /\
    lc (to_int64 (u64 (h + 2))) = ROk next /\ ah = lb_apphash cur.
Proof.
  intros lc h ah. unfold lc_apphash, rbind.
  destruct (lc (to_int64 (u64 (h + 1)))) as [cur| |]; try discriminate.
  destruct (lc (to_int64 (u64 (h + 2)))) as [next| |]; try discriminate.
  intros E; injection E as <-. exists cur, next. auto.
Qed.

Lemma lc_commit_inv : forall lc h cm, lc_commit lc h = ROk cm ->
  exists last, lc (to_int64 h) = ROk last /\ cm = lb_commit last.
Proof.
  intros lc h cm. unfold lc_commit, rbind.
  destruct (lc (to_int64 h)) as [last| |]; try discriminate.
  intros E; injection E as <-. exists last. auto.
Qed.

Theorem state_fields_light_verified : forall lc cp initial disc ties evs st cm,
  Forall ev_ok evs ->
  s_mode (reach (lc_provider lc cp initial) disc ties evs) = MDone (OOk st cm) ->
  exists s last cur next params appv height, let h := sn_height s in
    In (COffer s (lb_apphash cur)) (s_journal (reach (lc_provider lc cp initial) disc ties evs)) /\
    lc (to_int64 h) = ROk last /\ lc (to_int64 (u64 (h + 1))) = ROk cur /\
    lc (to_int64 (u64 (h + 2))) = ROk next /\ cp (lb_height cur) = Some params /\
    st = mkState (if initial =? 0 then 1 else initial) (lb_vblock cur) (lb_vapp cur)
                 (lb_height last) (lb_time last) (lb_blockid last)
                 (lb_apphash cur) (lb_results cur)
                 (lb_vals last) (lb_vals cur) (lb_vals next) (lb_height next)
                 params (lb_height cur) /\
    cm = lb_commit last /\
    In (EInfoReply appv (lb_apphash cur) height) evs /\ appv = lb_vapp cur /\ u64 height = h.
Proof.
  intros lc cp initial disc ties evs st cm HF H.
  destruct (restore_only_if_app_agrees _ _ _ _ _ _ HF H)
    as (s & ah & appv & hash & height & I1 & I2 & A & S & C & E1 & E2 & E3).
  cbn [lc_provider pv_apphash pv_state pv_commit] in A, S, C.
  apply lc_apphash_inv in A. destruct A as (cur' & next' & A1 & A2 & A3).
  apply lc_state_inv in S. destruct S as (last & cur & next & params & S1 & S2 & S3 & S4 & S5).
  apply lc_commit_inv in C. destruct C as (last' & C1 & C2).
  rewrite S2 in A1. injection A1 as <-. rewrite S1 in C1. injection C1 as <-.
  subst ah hash. exists s, last, cur, next, params, appv, height. cbv zeta.
  split; [exact I2|]. split; [exact S1|]. split; [exact S2|]. split; [exact S3|].
  split; [exact S4|]. split; [exact S5|]. split; [exact C2|]. split; [exact I1|].
  split; [|exact E3]. rewrite E1, S5. reflexivity.
Qed.

Lemma height_exact : forall (lc : Z -> res lightblock) (h height : Z) b,
  (forall z x, lc z = ROk x -> 0 < z) -> lc (to_int64 h) = ROk b ->
  0 <= h < 2 ^ 64 -> - 2 ^ 63 <= height < 2 ^ 63 -> u64 height = h -> height = h.
Proof.
  intros lc h height b Hpos Hlc Hh Hheight Hu.
  apply Hpos in Hlc. unfold to_int64 in Hlc. unfold u64 in Hu.
  change (2 ^ 64) with 18446744073709551616 in *.
  change (2 ^ 63) with 9223372036854775808 in *.
  Z.div_mod_to_equations. lia.
Qed.

Lemma provider_functional : forall pv h (st1 st2 : sstate),
  pv_state pv h = ROk st1 -> pv_state pv h = ROk st2 -> st1 = st2.
Proof. intros pv h st1 st2 H1 H2. congruence. Qed.

(* two histories under the same provider that both restore: the restored state, commit and the
   app hash the application was offered are functions of the height of the restored snapshot *)
Corollary noninterference : forall pv disc1 disc2 ties1 ties2 evs1 evs2 st1 cm1 st2 cm2,
  Forall ev_ok evs1 -> Forall ev_ok evs2 ->
  s_mode (reach pv disc1 ties1 evs1) = MDone (OOk st1 cm1) ->
  s_mode (reach pv disc2 ties2 evs2) = MDone (OOk st2 cm2) ->
  exists s1 ah1 s2 ah2,
    In (COffer s1 ah1) (s_journal (reach pv disc1 ties1 evs1)) /\
    pv_apphash pv (sn_height s1) = ROk ah1 /\ pv_state pv (sn_height s1) = ROk st1 /\
    pv_commit pv (sn_height s1) = ROk cm1 /\
    In (COffer s2 ah2) (s_journal (reach pv disc2 ties2 evs2)) /\
    pv_apphash pv (sn_height s2) = ROk ah2 /\ pv_state pv (sn_height s2) = ROk st2 /\
    pv_commit pv (sn_height s2) = ROk cm2 /\
    (sn_height s1 = sn_height s2 -> st1 = st2 /\ cm1 = cm2 /\ ah1 = ah2).
Proof.
  intros pv disc1 disc2 ties1 ties2 evs1 evs2 st1 cm1 st2 cm2 F1 F2 H1 H2.
  destruct (restore_only_if_app_agrees _ _ _ _ _ _ F1 H1)
    as (s1 & ah1 & _ & _ & _ & _ & I1 & A1 & S1 & C1 & _).
  destruct (restore_only_if_app_agrees _ _ _ _ _ _ F2 H2)
    as (s2 & ah2 & _ & _ & _ & _ & I2 & A2 & S2 & C2 & _).
  exists s1, ah1, s2, ah2. repeat (split; [assumption|]).
  intros E. rewrite E in *. repeat split; congruence.
Qed.

(* ------------------------------------------------------------------ D. totality *)

Corollary no_nil_chunk : forall pv disc ties evs,
  Forall ev_ok evs -> s_mode (reach pv disc ties evs) <> MDone (OErr 8).
Proof.
  intros pv disc ties evs HF E.
  pose proof (SInv_reach pv disc ties evs HF) as HS. apply SInv_split in HS.
  destruct HS as [_ HM]. unfold ModeInv in HM. rewrite E in HM.
  destruct HM as (_ & _ & X). apply X; reflexivity.
Qed.

Corollary queue_open_while_syncing : forall pv disc ties evs, Forall ev_ok evs ->
  let g := reach pv disc ties evs in
  (match s_mode g with
   | MOffer _ _ | MApply _ _ _ _ _ | MWait _ _ _ _ _ | MInfo _ _ _ _ => True
   | _ => False end) ->
  exists s q, s_cur g = Some (s, q) /\ q_open q = true /\ s_insync g = true.
Proof.
  intros pv disc ties evs HF. cbv zeta.
  pose proof (SInv_reach pv disc ties evs HF) as HS. apply SInv_split in HS.
  destruct HS as [_ HM]. unfold ModeInv in HM.
  destruct (s_mode (reach pv disc ties evs)); intros X; try contradiction.
  - destruct HM as (_ & (q & Hc & Hi & Ho & _) & _). exists s, q. auto.
  - destruct HM as (_ & _ & (q & Hc & Hi & Ho & _)). exists s, q. auto.
  - destruct HM as (_ & _ & (q & Hc & Hi & Ho & _)). exists s, q. auto.
  - destruct HM as (_ & _ & (q & Hc & Hi & Ho & _) & _). exists s, q. auto.
Qed.

Print Assumptions SInv_step.
Print Assumptions restore_only_if_app_agrees.
Print Assumptions state_fields_light_verified.
Print Assumptions chunks_in_order.
