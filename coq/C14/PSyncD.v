(* C14 — refetch and retry requests of the application are honoured by applyChunks
   (after_apply of Model.v): a chunk listed in RefetchChunks is gone from the queue (so Next
   waits for a new arrival and the index can be allocated to a fetcher again); after RETRY the
   next chunk handed over has an index <= the retried one. *)
From Coq Require Import String List ZArith NArith Bool Lia.
From TM Require Import Common.Hex Generated.Consts C14.Model C14.PQueue.
Import ListNotations. Open Scope Z_scope.

Ltac qq := cbn [q_open q_height q_format q_chunks q_files q_senders q_alloc q_ret
                set_open set_files set_senders set_alloc set_ret] in *.

Lemma discard_open q k : q_open (q_discard q k) = q_open q.
Proof. unfold q_discard. destruct (q_open q) eqn:E; cbn [negb]; [|exact E].
  destruct (q_files q k); qq; auto. Qed.

Lemma discard_none_pres q k j : q_files q j = None -> q_files (q_discard q k) j = None.
Proof.
  intro H. unfold q_discard. destruct (negb (q_open q)); [exact H|].
  destruct (q_files q k); [|exact H]. qq. unfold upd. destruct (j =? k); [reflexivity|exact H].
Qed.

Lemma discard_sender_open q p : q_open (q_discard_sender q p) = q_open q.
Proof. reflexivity. Qed.

Lemma discard_sender_none_pres q p j : q_files q j = None -> q_files (q_discard_sender q p) j = None.
Proof.
  intro H. unfold q_discard_sender. qq.
  match goal with |- (if ?c then _ else _) = _ => destruct c end; [reflexivity|exact H].
Qed.

Lemma discards_none_pres : forall l q j, q_files q j = None -> q_files (fold_left q_discard l q) j = None.
Proof. induction l as [|k l IH]; intros q j H; cbn [fold_left]; [exact H|]. apply IH, discard_none_pres, H. Qed.

Lemma discards_open : forall l q, q_open (fold_left q_discard l q) = q_open q.
Proof. induction l as [|k l IH]; intros q; cbn [fold_left]; [reflexivity|]. rewrite IH. apply discard_open. Qed.

Lemma discards_files : forall l q j, q_open q = true -> In j l -> q_files (fold_left q_discard l q) j = None.
Proof.
  induction l as [|k l IH]; intros q j Ho Hin; [destruct Hin|].
  cbn [fold_left]. destruct Hin as [->|Hin].
  - apply discards_none_pres. apply (discard_effect q j Ho).
  - apply IH; [rewrite discard_open; exact Ho|exact Hin].
Qed.

Lemma reject_senders_none_pres : forall rejects p q j,
  q_files q j = None -> q_files (snd (reject_senders p q rejects)) j = None.
Proof.
  unfold reject_senders. induction rejects as [|sd l IH]; intros p q j H; cbn [fold_left snd]; [exact H|].
  destruct (sd =? 0)%N; cbn [fst snd].
  - apply IH, H.
  - apply IH, discard_sender_none_pres, H.
Qed.

(* the queue as applyChunks leaves it after the RefetchChunks and RejectSenders loops *)
Definition after_lists (p : pool) (q : cqueue) (refetch : list Z) (rejects : list peer) : cqueue :=
  snd (reject_senders p (fold_left q_discard refetch q) rejects).

Theorem refetch_honoured : forall p q refetch rejects j,
  q_open q = true -> In j refetch -> q_files (after_lists p q refetch rejects) j = None.
Proof.
  intros. unfold after_lists. apply reject_senders_none_pres, discards_files; assumption.
Qed.

(* … and it stays gone through the verdict handling and the following Next: in the syncer after
   [after_apply], whatever the verdict, the current queue (if any) has no chunk j *)
Lemma set_q_cur' g q :
  s_cur (set_q g q) = match s_cur g with Some (s, _) => Some (s, q) | None => None end.
Proof. unfold set_q. destruct (s_cur g) as [[s q0]|] eqn:E; [reflexivity|exact E]. Qed.

Lemma finish_cur' g o :
  s_cur (finish g o) = match s_cur g with Some (s, q) => Some (s, q_close q) | None => None end.
Proof. unfold finish. destruct (s_cur g) as [[s q0]|] eqn:E; cbn; [reflexivity|exact E]. Qed.

Lemma close_files q : q_files (q_close q) = q_files q.
Proof. unfold q_close. destruct (q_open q); reflexivity. Qed.

Lemma next_files q : q_files (fst (q_next q)) = q_files q.
Proof.
  unfold q_next. destruct (q_next_up q) as [i|]; [|reflexivity].
  destruct (q_files q i); reflexivity.
Qed.

Lemma deliver_cur_files g s ah st cm q r j s' q' :
  s_cur g <> None -> q_files q j = None ->
  s_cur (fst (deliver g s ah st cm q r)) = Some (s', q') -> q_files q' j = None.
Proof.
  intros Hc Hq. unfold deliver.
  assert (Hs : s_cur (set_q g q) = match s_cur g with Some (s, _) => Some (s, q) | None => None end)
    by apply set_q_cur'.
  destruct r; cbn [fst s_cur set_mode set_journal set_qlog].
  - rewrite Hs. destruct (s_cur g) as [[a b]|]; [|congruence]. intro E; inversion E; subst; exact Hq.
  - rewrite Hs. destruct (s_cur g) as [[a b]|]; [|congruence]. intro E; inversion E; subst; exact Hq.
  - rewrite Hs. destruct (s_cur g) as [[a b0]|]; [|congruence]. intro E; inversion E; subst; exact Hq.
  - rewrite finish_cur', Hs. destruct (s_cur g) as [[a b]|]; [|congruence].
    intro E; inversion E; subst. rewrite close_files. exact Hq.
Qed.

Lemma apply_next_cur_files g s ah st cm j s' q' :
  (forall s0 q0, s_cur g = Some (s0, q0) -> q_files q0 j = None) ->
  s_cur (fst (apply_next g s ah st cm)) = Some (s', q') -> q_files q' j = None.
Proof.
  intros H. unfold apply_next. destruct (s_cur g) as [[s0 q0]|] eqn:E.
  - pose proof (next_files q0) as Hn. destruct (q_next q0) as [q1 r]. cbn [fst] in Hn.
    apply deliver_cur_files; [congruence|]. rewrite Hn. eapply H; reflexivity.
  - cbn [fst]. rewrite finish_cur', E. discriminate.
Qed.

Theorem refetch_honoured_sync : forall g s ah st cm i r refetch rejects s0 q j s' q',
  s_cur g = Some (s0, q) -> q_open q = true -> In j refetch ->
  s_cur (fst (after_apply g s ah st cm i r refetch rejects)) = Some (s', q') ->
  q_files q' j = None.
Proof.
  intros g s ah st cm i r refetch rejects s0 q j s' q' Hc Ho Hin.
  unfold after_apply. rewrite Hc.
  pose proof (refetch_honoured (s_pool g) q refetch rejects j Ho Hin) as Hf. unfold after_lists in Hf.
  destruct (reject_senders (s_pool g) (fold_left q_discard refetch q) rejects) as [p2 q2] eqn:Er.
  cbn [snd] in Hf.
  set (g1 := set_q (set_pool g p2) q2).
  assert (Hg1 : s_cur g1 = Some (s0, q2)).
  { unfold g1. rewrite set_q_cur'. cbn [s_cur set_pool]. rewrite Hc. reflexivity. }
  destruct (r =? 1).
  { apply apply_next_cur_files. intros a b E. rewrite Hg1 in E. inversion E; subst. exact Hf. }
  destruct (r =? 2).
  { cbn [fst]. rewrite finish_cur', Hg1. intro E; inversion E; subst. rewrite close_files. exact Hf. }
  destruct (r =? 3).
  { apply apply_next_cur_files. intros a b E. rewrite set_q_cur', Hg1 in E. inversion E; subst.
    unfold q_retry. qq. exact Hf. }
  destruct (r =? 4). { cbn [fst]. rewrite Hg1. intro E; inversion E; subst. exact Hf. }
  destruct (r =? 5). { cbn [fst]. rewrite Hg1. intro E; inversion E; subst. exact Hf. }
  cbn [fst]. rewrite finish_cur', Hg1. intro E; inversion E; subst. rewrite close_files. exact Hf.
Qed.

(* RETRY: the chunk is not marked returned any more, so the next chunk handed over (or waited
   for) is at an index <= i *)
Theorem retry_honoured : forall q i q' r,
  QInv q -> q_open q = true -> 0 <= i < q_chunks q ->
  q_next (q_retry q i) = (q', r) ->
  match r with
  | NChunk k _ _ | NWait k => 0 <= k <= i
  | NDone | NNil => False
  end.
Proof.
  intros q i q' r Hinv Ho Hi Hn.
  pose proof (retry_effect q i) as (Hr & _ & Hfl & Hsd & _ & Hop & _ & _ & Hch).
  assert (Hinv' : QInv (q_retry q i)) by (apply QInv_retry; exact Hinv).
  destruct r as [|k|k b sd|].
  - apply next_done_all in Hn; [|exact Hinv']. destruct Hn as [_ [Hc|Hall]].
    + rewrite Hop in Hc. congruence.
    + rewrite Hch in Hall. specialize (Hall i Hi). congruence.
  - apply next_wait_least in Hn; [|exact Hinv']. destruct Hn as (_ & _ & Hk & Hlt & _).
    split; [lia|]. destruct (Z_le_gt_dec k i) as [|Hgt]; [assumption|].
    specialize (Hlt i ltac:(lia)). congruence.
  - apply next_chunk_least in Hn; [|exact Hinv']. destruct Hn as (_ & Hk & Hlt & _).
    split; [lia|]. destruct (Z_le_gt_dec k i) as [|Hgt]; [assumption|].
    specialize (Hlt i ltac:(lia)). congruence.
  - pose proof (next_not_nil (q_retry q i)) as Hnn. rewrite Hn in Hnn. cbn in Hnn. congruence.
Qed.

Print Assumptions refetch_honoured_sync.
Print Assumptions retry_honoured.
