(* C14 — "a rejected sender is never used again" (after the F20 repair), on the syncer machine.

   * pbl_mono_step: the peer blacklist of the pool only grows.
   * FInv: every chunk of a blacklisted sender that is still in the (open) queue, and every
     returned chunk, is in the ghost log s_qlog of chunks the current queue has handed over.
     FInv_init, FInv_step (under the shape invariant SInv of PSyncDefs), FInv_reach.
   * rejected_sender_not_reused: a new ApplySnapshotChunk call whose sender is blacklisted is a
     re-application of a chunk the current queue had already handed over.
   * rejected_chunk_refused: AddChunk from a blacklisted sender changes nothing.
   * reject_senders_blacklists / apply_reply_blacklists / offer_reject_sender_blacklists: what
     puts a sender on the blacklist. *)
From Coq Require Import String List ZArith NArith Bool Lia.
From TM Require Import Common.Hex Generated.Consts C14.Model C14.PQueue C14.PPool C14.PSyncDefs.
Import ListNotations. Open Scope Z_scope.

Ltac ss := cbn [s_pool s_cur s_insync s_mode s_journal s_qlog s_ties
                set_pool set_cur set_insync set_mode set_journal set_qlog set_ties fst snd] in *.

(* ------------------------------------------------------------------ projections *)

Lemma set_q_pool g q : s_pool (set_q g q) = s_pool g.
Proof. unfold set_q. destruct (s_cur g) as [[s q0]|]; reflexivity. Qed.
Lemma set_q_journal g q : s_journal (set_q g q) = s_journal g.
Proof. unfold set_q. destruct (s_cur g) as [[s q0]|]; reflexivity. Qed.
Lemma set_q_qlog g q : s_qlog (set_q g q) = s_qlog g.
Proof. unfold set_q. destruct (s_cur g) as [[s q0]|]; reflexivity. Qed.
Lemma set_q_cur g q :
  s_cur (set_q g q) = match s_cur g with Some (s, _) => Some (s, q) | None => None end.
Proof. unfold set_q. destruct (s_cur g) as [[s q0]|] eqn:E; [reflexivity|exact E]. Qed.

Lemma finish_pool g o : s_pool (finish g o) = s_pool g.
Proof. unfold finish. destruct (s_cur g) as [[s q0]|]; reflexivity. Qed.
Lemma finish_journal g o : s_journal (finish g o) = s_journal g.
Proof. unfold finish. destruct (s_cur g) as [[s q0]|]; reflexivity. Qed.
Lemma finish_qlog g o : s_qlog (finish g o) = s_qlog g.
Proof. unfold finish. destruct (s_cur g) as [[s q0]|]; reflexivity. Qed.
Lemma finish_cur g o :
  s_cur (finish g o) = match s_cur g with Some (s, q) => Some (s, q_close q) | None => None end.
Proof. unfold finish. destruct (s_cur g) as [[s q0]|] eqn:E; ss; [reflexivity|exact E]. Qed.

Lemma q_close_open q : q_open (q_close q) = false.
Proof. unfold q_close. destruct (q_open q) eqn:E; [reflexivity|exact E]. Qed.

Lemma deliver_snd g s ah st cm q r : snd (deliver g s ah st cm q r) = None.
Proof. destruct r; reflexivity. Qed.

Lemma deliver_pool g s ah st cm q r : s_pool (fst (deliver g s ah st cm q r)) = s_pool g.
Proof. destruct r; unfold deliver; ss; rewrite ?finish_pool; apply set_q_pool. Qed.

Lemma apply_next_snd g s ah st cm : snd (apply_next g s ah st cm) = None.
Proof.
  unfold apply_next. destruct (s_cur g) as [[s0 q]|]; [|reflexivity].
  destruct (q_next q) as [q' r]. apply deliver_snd.
Qed.

Lemma apply_next_pool g s ah st cm : s_pool (fst (apply_next g s ah st cm)) = s_pool g.
Proof.
  unfold apply_next. destruct (s_cur g) as [[s0 q]|]; [|apply finish_pool].
  destruct (q_next q) as [q' r]. apply deliver_pool.
Qed.

Lemma continue_none pv disc r s : snd r = None -> continue pv disc r s = fst r.
Proof. destruct r as [g' [e|]]; cbn [snd fst]; [discriminate|reflexivity]. Qed.

Lemma reject_senders_nil P q : reject_senders P q [] = (P, q).
Proof. reflexivity. Qed.

Lemma reject_senders_cons P q sd l :
  reject_senders P q (sd :: l) =
  if (sd =? 0)%N then reject_senders P q l
  else reject_senders (pool_reject_peer P sd) (q_discard_sender q sd) l.
Proof. unfold reject_senders. cbn [fold_left fst snd]. destruct (sd =? 0)%N; reflexivity. Qed.

(* ------------------------------------------------------------------ the loop of SyncAny, generically *)

Definition loop_run (pv : provider) (disc : bool) (fuel' : nat) (g : syncer) (s : snapshot) : syncer :=
  match sync_begin pv g s with
  | (g', None) => g'
  | (g', Some e) => loop pv disc fuel' (handle_err g' s e)
  end.

Lemma loop_S pv disc fuel' g :
  loop pv disc (S fuel') g =
  match s_cur g with
  | Some (s, _) => loop_run pv disc fuel' g s
  | None =>
    let '(best, ties') := pool_best (s_pool g) (s_ties g) in
    let g := set_ties g ties' in
    match best with
    | None => if disc then set_mode g MSleep else finish g ONoSnapshots
    | Some s =>
      match new_queue s with
      | None => finish g (OErr 1)
      | Some q => loop_run pv disc fuel' (set_qlog (set_cur g (Some (s, q))) []) s
      end
    end
  end.
Proof. reflexivity. Qed.

Section LoopRel.
  Variable R : syncer -> syncer -> Prop.
  Hypothesis R_refl : forall g, R g g.
  Hypothesis R_trans : forall a b c, R a b -> R b c -> R a c.
  Hypothesis R_finish : forall g o, R g (finish g o).
  Hypothesis R_insync : forall g v, R g (set_insync g v).
  Hypothesis R_mode : forall g m, R g (set_mode g m).
  Hypothesis R_ties : forall g t, R g (set_ties g t).
  Hypothesis R_offer : forall g s ah, R g (set_journal g (COffer s ah :: s_journal g)).
  Hypothesis R_handle : forall g s e, R g (handle_err g s e).
  Hypothesis R_newq : forall g s q, new_queue s = Some q -> R g (set_qlog (set_cur g (Some (s, q))) []).

  Lemma R_sync_begin pv g s : R g (fst (sync_begin pv g s)).
  Proof.
    unfold sync_begin. destruct (pv_apphash pv (sn_height s)); cbn [fst].
    - eapply R_trans; [apply R_insync|]. eapply R_trans; [apply R_offer|]. apply R_mode.
    - apply R_insync.
    - eapply R_trans; [apply R_insync|]. apply R_finish.
  Qed.

  Lemma R_loop pv disc : forall fuel g, R g (loop pv disc fuel g).
  Proof.
    induction fuel as [|fuel IH]; intros g.
    - apply R_finish.
    - assert (Hrun : forall g s, R g (loop_run pv disc fuel g s)).
      { intros g0 s. unfold loop_run. pose proof (R_sync_begin pv g0 s) as H.
        destruct (sync_begin pv g0 s) as [g1 [e|]]; cbn [fst] in H; [|exact H].
        eapply R_trans; [exact H|]. eapply R_trans; [apply R_handle|]. apply IH. }
      rewrite loop_S. destruct (s_cur g) as [[s q0]|]; [apply Hrun|].
      destruct (pool_best (s_pool g) (s_ties g)) as [best ties'].
      destruct best as [s|].
      + destruct (new_queue s) as [q|] eqn:En.
        * eapply R_trans; [apply R_ties|]. eapply R_trans; [apply (R_newq _ s q En)|]. apply Hrun.
        * eapply R_trans; [apply R_ties|]. apply R_finish.
      + destruct disc.
        * eapply R_trans; [apply R_ties|]. apply R_mode.
        * eapply R_trans; [apply R_ties|]. apply R_finish.
  Qed.

  Lemma R_continue pv disc r s : R (fst r) (continue pv disc r s).
  Proof.
    destruct r as [g' [e|]]; cbn [fst continue]; [|apply R_refl].
    eapply R_trans; [apply R_handle|]. apply R_loop.
  Qed.
End LoopRel.

(* ------------------------------------------------------------------ the blacklist only grows *)

Definition ple (g g' : syncer) : Prop :=
  forall x, p_pbl (s_pool g) x = true -> p_pbl (s_pool g') x = true.

Lemma ple_eq g g' : s_pool g' = s_pool g -> ple g g'.
Proof. intros E x H. rewrite E. exact H. Qed.

Lemma ple_handle g s e : ple g (handle_err g s e).
Proof.
  intros x H. unfold handle_err. destruct e; ss.
  - destruct (s_cur g) as [[s' q]|]; ss; exact H.
  - rewrite reject_pbl. exact H.
  - rewrite reject_pbl. exact H.
  - rewrite reject_format_pbl. exact H.
  - apply reject_peers_mono_pbl. exact H.
Qed.

Lemma ple_loop pv disc fuel g : ple g (loop pv disc fuel g).
Proof.
  apply R_loop.
  - intros a b c H1 H2 x H. apply H2, H1, H.
  - intros; apply ple_eq, finish_pool.
  - intros; apply ple_eq; reflexivity.
  - intros; apply ple_eq; reflexivity.
  - intros; apply ple_eq; reflexivity.
  - intros; apply ple_eq; reflexivity.
  - apply ple_handle.
  - intros; apply ple_eq; reflexivity.
Qed.

Lemma ple_continue pv disc r s : ple (fst r) (continue pv disc r s).
Proof.
  apply R_continue.
  - intros g0 x H; exact H.
  - intros a b c H1 H2 x H. apply H2, H1, H.
  - intros; apply ple_eq, finish_pool.
  - intros; apply ple_eq; reflexivity.
  - intros; apply ple_eq; reflexivity.
  - intros; apply ple_eq; reflexivity.
  - intros; apply ple_eq; reflexivity.
  - apply ple_handle.
  - intros; apply ple_eq; reflexivity.
Qed.

Lemma add_chunk_pool g pr h f idx body : s_pool (fst (add_chunk g pr h f idx body)) = s_pool g.
Proof.
  unfold add_chunk. destruct (negb (s_insync g)); [reflexivity|].
  destruct (s_cur g) as [[s q]|]; [|reflexivity].
  destruct (pool_peer_rejected (s_pool g) pr); [reflexivity|].
  destruct (q_add q h f idx body pr) as [q' r]. reflexivity.
Qed.

Lemma after_offer_pool pv g s ah : s_pool (fst (after_offer pv g s ah)) = s_pool g.
Proof.
  unfold after_offer. destruct (pv_state pv (sn_height s)); cbn [fst]; try reflexivity.
  - destruct (pv_commit pv (sn_height s)); cbn [fst]; try reflexivity.
    + apply apply_next_pool.
    + apply finish_pool.
  - apply finish_pool.
Qed.

Lemma after_apply_pool g s ah st cm i r refetch rejects s0 q :
  s_cur g = Some (s0, q) ->
  s_pool (fst (after_apply g s ah st cm i r refetch rejects)) =
  fst (reject_senders (s_pool g) (fold_left q_discard refetch q) rejects).
Proof.
  intros E. unfold after_apply. rewrite E.
  destruct (reject_senders (s_pool g) (fold_left q_discard refetch q) rejects) as [p2 q2].
  cbn [fst].
  destruct (r =? 1); [rewrite apply_next_pool, set_q_pool; reflexivity|].
  destruct (r =? 2); [cbn [fst]; rewrite finish_pool, set_q_pool; reflexivity|].
  destruct (r =? 3); [rewrite apply_next_pool, !set_q_pool; reflexivity|].
  destruct (r =? 4); [cbn [fst]; rewrite set_q_pool; reflexivity|].
  destruct (r =? 5); [cbn [fst]; rewrite set_q_pool; reflexivity|].
  cbn [fst]; rewrite finish_pool, set_q_pool; reflexivity.
Qed.

Lemma reject_senders_mono rejects : forall P q x,
  p_pbl P x = true -> p_pbl (fst (reject_senders P q rejects)) x = true.
Proof.
  induction rejects as [|sd l IH]; intros P q x H; [exact H|].
  rewrite reject_senders_cons. destruct (sd =? 0)%N; [apply IH, H|].
  apply IH. apply reject_peer_mono_pbl. exact H.
Qed.

Lemma reject_senders_blacklists : forall rejects p q sd,
  In sd rejects -> sd <> 0%N -> p_pbl (fst (reject_senders p q rejects)) sd = true.
Proof.
  induction rejects as [|a l IH]; intros P q sd HI Hsd; [destruct HI|].
  rewrite reject_senders_cons. destruct HI as [->|HI].
  - rewrite (proj2 (N.eqb_neq sd 0) Hsd). apply reject_senders_mono, reject_peer_sets, Hsd.
  - destruct (a =? 0)%N; apply IH; assumption.
Qed.

Lemma ple_after_apply g s ah st cm i r refetch rejects :
  ple g (fst (after_apply g s ah st cm i r refetch rejects)).
Proof.
  destruct (s_cur g) as [[s0 q]|] eqn:E.
  - intros x H. rewrite (after_apply_pool _ _ _ _ _ _ _ _ _ s0 q E).
    apply reject_senders_mono, H.
  - unfold after_apply. rewrite E. cbn [fst]. apply ple_eq, finish_pool.
Qed.

Lemma pbl_mono_step : forall pv disc g e x,
  p_pbl (s_pool g) x = true -> p_pbl (s_pool (sstep pv disc g e)) x = true.
Proof.
  intros pv disc g e x H. unfold sstep, step. destruct e.
  - destruct (s_mode g); cbn [fst]; try exact H. apply ple_loop, H.
  - destruct (s_mode g); cbn [fst]; try exact H. apply ple_loop, H.
  - pose proof (add_pbl (s_pool g) pr s) as E.
    destruct (pool_add (s_pool g) pr s) as [p' b]. cbn [fst] in *. ss. rewrite E. exact H.
  - cbn [fst]. ss. rewrite remove_peer_pbl. exact H.
  - pose proof (add_chunk_pool g pr h f idx body) as E.
    destruct (add_chunk g pr h f idx body) as [g1 ar]. cbn [fst] in E.
    destruct ar; cbn [fst]; try (rewrite E; exact H).
    destruct (s_mode g); cbn [fst]; try (rewrite E; exact H).
    destruct (idx =? i); cbn [fst]; try (rewrite E; exact H).
    destruct (s_cur g1) as [[s1 q1]|]; cbn [fst]; try (rewrite E; exact H).
    destruct (q_wake q1 i) as [q' nr]. cbn [fst].
    apply ple_continue. rewrite deliver_pool, E. exact H.
  - destruct (s_mode g); cbn [fst]; try exact H.
    destruct (r =? 1); [cbn [fst]; apply ple_continue; rewrite after_offer_pool; exact H|].
    destruct (r =? 2); [cbn [fst]; rewrite finish_pool; exact H|].
    destruct (r =? 3); [cbn [fst]; apply ple_continue; exact H|].
    destruct (r =? 4); [cbn [fst]; apply ple_continue; exact H|].
    destruct (r =? 5); [cbn [fst]; apply ple_continue; exact H|].
    cbn [fst]; rewrite finish_pool; exact H.
  - destruct (s_mode g); cbn [fst]; try exact H.
    apply ple_continue. apply ple_after_apply. exact H.
  - destruct (s_mode g); cbn [fst]; try exact H.
    destruct (verify_app s ah st appv hash height); cbn [fst]; rewrite finish_pool; exact H.
  - destruct (s_mode g); cbn [fst]; try exact H. apply ple_continue. exact H.
Qed.

(* ------------------------------------------------------------------ the invariant, on (pool, queue, log) *)

Definition FInv (g : syncer) : Prop :=
  (forall s q i b p, s_cur g = Some (s, q) -> q_open q = true -> q_files q i = Some b ->
     q_senders q i = Some p -> p_pbl (s_pool g) p = true -> In (i, b, p) (s_qlog g)) /\
  (forall s q i b p, s_cur g = Some (s, q) -> q_open q = true -> q_ret q i = true ->
     q_files q i = Some b -> q_senders q i = Some p -> In (i, b, p) (s_qlog g)).

Definition FQ (P : pool) (q : cqueue) (l : list (Z * bytes * peer)) : Prop :=
  q_open q = true ->
  (forall i b p, q_files q i = Some b -> q_senders q i = Some p -> p_pbl P p = true -> In (i, b, p) l) /\
  (forall i b p, q_ret q i = true -> q_files q i = Some b -> q_senders q i = Some p -> In (i, b, p) l).

Lemma FInv_FQ g : FInv g <-> (forall s q, s_cur g = Some (s, q) -> FQ (s_pool g) q (s_qlog g)).
Proof.
  split.
  - intros [A B] s q E Ho. split; intros i b p.
    + apply (A s q i b p E Ho).
    + apply (B s q i b p E Ho).
  - intros H. split; intros s q i b p E Ho; destruct (H s q E Ho) as [A B].
    + apply A.
    + apply B.
Qed.

Lemma FInv_none g : s_cur g = None -> FInv g.
Proof. intros E. apply FInv_FQ. intros s q E'. rewrite E in E'. discriminate. Qed.

Lemma FInv_ext g g' :
  s_pool g' = s_pool g -> s_cur g' = s_cur g -> s_qlog g' = s_qlog g -> FInv g -> FInv g'.
Proof. unfold FInv. intros -> -> ->. exact (fun H => H). Qed.

Lemma FQ_closed P q l : q_open q = false -> FQ P q l.
Proof. intros E Ho. rewrite E in Ho. discriminate. Qed.

Lemma FQ_cons P q l x : FQ P q l -> FQ P q (x :: l).
Proof.
  intros H Ho. destruct (H Ho) as [A B]. split; intros i b p.
  - intros H1 H2 H3. right. apply (A i b p H1 H2 H3).
  - intros H1 H2 H3. right. apply (B i b p H1 H2 H3).
Qed.

Lemma FQ_pbl P P' q l : p_pbl P' = p_pbl P -> FQ P q l -> FQ P' q l.
Proof. unfold FQ. intros ->. exact (fun H => H). Qed.

Lemma FQ_new P s q l : new_queue s = Some q -> FQ P q l.
Proof.
  unfold new_queue. destruct (sn_chunks s =? 0); [discriminate|].
  intros H; injection H as <-. intros _. qs. split; intros; discriminate.
Qed.

Lemma FQ_discard P q l idx : FQ P q l -> FQ P (q_discard q idx) l.
Proof.
  intros H. unfold q_discard. destruct (negb (q_open q)); [exact H|].
  destruct (q_files q idx) as [b0|] eqn:Ef; [|exact H].
  intros Ho. qs. destruct (H Ho) as [A B]. split; intros i b p; unfold upd.
  - destruct (Z.eqb_spec i idx); [discriminate|]. apply A.
  - destruct (Z.eqb_spec i idx); [discriminate|]. apply B.
Qed.

Lemma FQ_discards P l refetch : forall q, FQ P q l -> FQ P (fold_left q_discard refetch q) l.
Proof.
  induction refetch as [|x r IH]; intros q H; [exact H|].
  cbn [fold_left]. apply IH, FQ_discard, H.
Qed.

Lemma discard_sender_open q sd : q_open (q_discard_sender q sd) = q_open q.
Proof. reflexivity. Qed.

Lemma FQ_discard_sender P q l sd :
  QInv q -> FQ P q l -> sd <> 0%N -> FQ (pool_reject_peer P sd) (q_discard_sender q sd) l.
Proof.
  intros HQ H Hsd Ho. rewrite discard_sender_open in Ho. destruct (H Ho) as [A B].
  split; intros i b p.
  - intros Hf Hs Hp.
    destruct (discard_sender_effect q sd i HQ) as (E1 & E2 & E3).
    destruct (E2 Ho b Hf) as [Hf0 Hs0].
    rewrite reject_peer_pbl in Hp. rewrite (proj2 (N.eqb_neq sd 0) Hsd) in Hp.
    destruct (N.eqb_spec p sd) as [->|Hne].
    + apply (B i b sd).
      * rewrite <- E3. apply E1; [rewrite Hf; discriminate|exact Hs].
      * exact Hf0.
      * rewrite <- Hs0. exact Hs.
    + apply (A i b p Hf0); [rewrite <- Hs0; exact Hs|exact Hp].
  - intros Hr Hf Hs.
    destruct (discard_sender_effect q sd i HQ) as (E1 & E2 & E3).
    destruct (E2 Ho b Hf) as [Hf0 Hs0].
    apply (B i b p); [rewrite <- E3; exact Hr|exact Hf0|rewrite <- Hs0; exact Hs].
Qed.

Lemma FQ_reject_senders l rejects : forall P q,
  QInv q -> FQ P q l ->
  QInv (snd (reject_senders P q rejects)) /\
  FQ (fst (reject_senders P q rejects)) (snd (reject_senders P q rejects)) l.
Proof.
  induction rejects as [|sd r IH]; intros P q HQ H; [split; assumption|].
  rewrite reject_senders_cons. destruct (N.eqb_spec sd 0) as [->|Hsd]; [apply IH; assumption|].
  apply IH; [apply QInv_discard_sender, HQ|apply FQ_discard_sender; assumption].
Qed.

Lemma FQ_retry P q l i : FQ P q l -> FQ P (q_retry q i) l.
Proof.
  intros H Ho. unfold q_retry in *. qs. destruct (H Ho) as [A B]. split; intros j b p.
  - apply A.
  - unfold upd. destruct (Z.eqb_spec j i); [discriminate|]. apply B.
Qed.

Lemma FQ_retry_all P q l : FQ P q l -> FQ P (q_retry_all q) l.
Proof.
  intros H Ho. unfold q_retry_all in *. qs. destruct (H Ho) as [A B]. split; intros j b p.
  - apply A.
  - discriminate.
Qed.

Lemma FQ_set_ret P q l i b :
  FQ P q l -> q_files q i = Some b ->
  FQ P (set_ret q (upd (q_ret q) i true)) ((i, b, q_get_sender q i) :: l).
Proof.
  intros H Ef Ho. qs. destruct (H Ho) as [A B]. split; intros j b' p.
  - intros H1 H2 H3. right. apply (A j b' p H1 H2 H3).
  - unfold upd. destruct (Z.eqb_spec j i) as [->|Hne].
    + intros _ Hf Hs. left. unfold q_get_sender. rewrite Hs. congruence.
    + intros H1 H2 H3. right. apply (B j b' p H1 H2 H3).
Qed.

Definition log_after (r : next_res) (l : list (Z * bytes * peer)) :=
  match r with NChunk i b sd => (i, b, sd) :: l | _ => l end.

Lemma FQ_next P q l q' r : FQ P q l -> q_next q = (q', r) -> FQ P q' (log_after r l).
Proof.
  intros H. unfold q_next. destruct (q_next_up q) as [i|].
  - destruct (q_files q i) as [b|] eqn:Ef; intros E; injection E as <- <-; cbn [log_after].
    + apply FQ_set_ret; assumption.
    + exact H.
  - intros E; injection E as <- <-. exact H.
Qed.

Lemma FQ_wake P q l i q' r : FQ P q l -> q_wake q i = (q', r) -> FQ P q' (log_after r l).
Proof.
  intros H. unfold q_wake. destruct (q_files q i) as [b|] eqn:Ef; intros E; injection E as <- <-;
    cbn [log_after].
  - apply FQ_set_ret; assumption.
  - intros Ho. qs. destruct (H Ho) as [A B]. split; intros j b' p.
    + apply A.
    + unfold upd. destruct (Z.eqb_spec j i) as [->|Hne]; [intros _ Hf; congruence|apply B].
Qed.

Lemma FQ_add P q l h f idx body pr q' r :
  QInv q -> FQ P q l -> q_add q h f idx body pr = (q', r) -> p_pbl P pr = false -> FQ P q' l.
Proof.
  intros HQ H Ea Hp. destruct r.
  - rewrite (add_noop _ _ _ _ _ _ _ _ Ea); [exact H|discriminate].
  - rewrite (add_noop _ _ _ _ _ _ _ _ Ea); [exact H|discriminate].
  - destruct (add_effect _ _ _ _ _ _ _ Ea)
      as (b0 & _ & Ho & _ & _ & _ & Ef & Ef' & Es' & Er & Hoth).
    intros _. destruct (H Ho) as [A B]. split; intros i b p.
    + destruct (Z.eq_dec i idx) as [->|Hne].
      * rewrite Es'. intros _ Hs. injection Hs as <-. congruence.
      * destruct (Hoth i Hne) as [-> ->]. apply A.
    + rewrite Er. destruct (Z.eq_dec i idx) as [->|Hne].
      * intros Hr. destruct HQ as (_ & _ & H2). destruct (H2 idx Hr Ef).
      * destruct (Hoth i Hne) as [-> ->]. apply B.
Qed.

(* ------------------------------------------------------------------ FInv through the pieces of the machine *)

Lemma FInv_finish g o : FInv (finish g o).
Proof.
  apply FInv_FQ. intros s q. rewrite finish_cur.
  destruct (s_cur g) as [[s0 q0]|]; [|discriminate].
  intros E; injection E as <- <-. apply FQ_closed, q_close_open.
Qed.

Lemma FInv_handle_err g s e : FInv g -> FInv (handle_err g s e).
Proof.
  intros H. unfold handle_err.
  destruct e; try (apply FInv_none; reflexivity).
  ss. destruct (s_cur g) as [[s' q]|] eqn:E.
  - apply FInv_FQ. ss. intros s1 q1 E1; injection E1 as <- <-.
    apply FQ_retry_all. apply (proj1 (FInv_FQ g) H s' q E).
  - apply FInv_none. ss. exact E.
Qed.

Definition Fpres (g g' : syncer) : Prop := FInv g -> FInv g'.

Lemma Fpres_ext g g' :
  s_pool g' = s_pool g -> s_cur g' = s_cur g -> s_qlog g' = s_qlog g -> Fpres g g'.
Proof. intros. unfold Fpres. apply FInv_ext; assumption. Qed.

Lemma Fpres_newq g s q : new_queue s = Some q -> Fpres g (set_qlog (set_cur g (Some (s, q))) []).
Proof.
  intros En _. apply FInv_FQ. ss. intros s1 q1 E; injection E as <- <-. apply (FQ_new _ s), En.
Qed.

Lemma FInv_loop pv disc fuel g : FInv g -> FInv (loop pv disc fuel g).
Proof.
  change (Fpres g (loop pv disc fuel g)). apply R_loop.
  - intros a b c H1 H2 H. apply H2, H1, H.
  - intros g0 o _. apply FInv_finish.
  - intros; apply Fpres_ext; reflexivity.
  - intros; apply Fpres_ext; reflexivity.
  - intros; apply Fpres_ext; reflexivity.
  - intros; apply Fpres_ext; reflexivity.
  - intros g0 s e. exact (FInv_handle_err g0 s e).
  - apply Fpres_newq.
Qed.

Lemma FInv_continue pv disc r s : FInv (fst r) -> FInv (continue pv disc r s).
Proof.
  change (Fpres (fst r) (continue pv disc r s)). apply R_continue.
  - intros g0 H; exact H.
  - intros a b c H1 H2 H. apply H2, H1, H.
  - intros g0 o _. apply FInv_finish.
  - intros; apply Fpres_ext; reflexivity.
  - intros; apply Fpres_ext; reflexivity.
  - intros; apply Fpres_ext; reflexivity.
  - intros; apply Fpres_ext; reflexivity.
  - intros g0 s0 e. exact (FInv_handle_err g0 s0 e).
  - apply Fpres_newq.
Qed.

Lemma FInv_deliver g s ah st cm q r :
  (forall s0 q0, s_cur g = Some (s0, q0) -> FQ (s_pool g) q (log_after r (s_qlog g))) ->
  FInv (fst (deliver g s ah st cm q r)).
Proof.
  intros H. destruct (s_cur g) as [[s0 q0]|] eqn:E.
  - specialize (H s0 q0 eq_refl).
    destruct r; unfold deliver, set_q; rewrite E; cbn [fst log_after] in *;
      try (apply FInv_FQ; ss; intros sx qx Ex; injection Ex as <- <-; exact H).
    apply FInv_finish.
  - destruct r; unfold deliver, set_q; rewrite E; cbn [fst];
      try (apply FInv_none; ss; exact E).
    apply FInv_finish.
Qed.

Lemma FInv_apply_next g s ah st cm : FInv g -> FInv (fst (apply_next g s ah st cm)).
Proof.
  intros H. unfold apply_next. destruct (s_cur g) as [[s0 q]|] eqn:E; [|apply FInv_finish].
  destruct (q_next q) as [q' r] eqn:En. apply FInv_deliver. intros s1 q1 _.
  apply (FQ_next _ q _ q' r); [|exact En]. apply (proj1 (FInv_FQ g) H s0 q E).
Qed.

Lemma FInv_after_offer pv g s ah : FInv g -> FInv (fst (after_offer pv g s ah)).
Proof.
  intros H. unfold after_offer. destruct (pv_state pv (sn_height s)); cbn [fst].
  - destruct (pv_commit pv (sn_height s)); cbn [fst].
    + apply FInv_apply_next, H.
    + exact H.
    + apply FInv_finish.
  - exact H.
  - apply FInv_finish.
Qed.

Lemma FInv_add_chunk g pr h f idx body :
  (forall s q, s_cur g = Some (s, q) -> QInv q) -> FInv g -> FInv (fst (add_chunk g pr h f idx body)).
Proof.
  intros HQ H. unfold add_chunk. destruct (negb (s_insync g)); [exact H|].
  destruct (s_cur g) as [[s q]|] eqn:E; [|exact H].
  unfold pool_peer_rejected. destruct (p_pbl (s_pool g) pr) eqn:Ep; [exact H|].
  destruct (q_add q h f idx body pr) as [q' r] eqn:Ea. cbn [fst].
  apply FInv_FQ. ss. intros s1 q1 E1; injection E1 as <- <-.
  apply (FQ_add _ q _ h f idx body pr q' r (HQ s q eq_refl)); try assumption.
  apply (proj1 (FInv_FQ g) H s q E).
Qed.

(* the state applyChunks is in after it has processed the reply: refetch chunks discarded,
   rejected senders blacklisted and their not yet returned chunks discarded *)
Lemma mid_state g s0 q refetch rejects :
  s_cur g = Some (s0, q) -> QInv q -> FInv g ->
  let pq := reject_senders (s_pool g) (fold_left q_discard refetch q) rejects in
  QInv (snd pq) /\ FQ (fst pq) (snd pq) (s_qlog g).
Proof.
  intros E HQ H. cbv zeta. apply FQ_reject_senders.
  - apply QInv_discards, HQ.
  - apply FQ_discards. apply (proj1 (FInv_FQ g) H s0 q E).
Qed.

Lemma FInv_after_apply g s ah st cm i r refetch rejects :
  (forall s q, s_cur g = Some (s, q) -> QInv q) -> FInv g ->
  FInv (fst (after_apply g s ah st cm i r refetch rejects)).
Proof.
  intros HQ H. unfold after_apply. destruct (s_cur g) as [[s0 q]|] eqn:E; [|apply FInv_finish].
  destruct (mid_state g s0 q refetch rejects E (HQ s0 q eq_refl) H) as [HQ2 HF2]. cbv zeta in *.
  destruct (reject_senders (s_pool g) (fold_left q_discard refetch q) rejects) as [p2 q2].
  cbn [fst snd] in *.
  assert (H1 : FInv (set_q (set_pool g p2) q2)).
  { apply FInv_FQ. unfold set_q. ss. rewrite E. ss. intros s1 q1 E1; injection E1 as <- <-. exact HF2. }
  destruct (r =? 1); [apply FInv_apply_next, H1|].
  destruct (r =? 2); [apply FInv_finish|].
  destruct (r =? 3).
  { apply FInv_apply_next. apply FInv_FQ. unfold set_q. ss. rewrite E. ss.
    intros s1 q1 E1; injection E1 as <- <-. apply FQ_retry, HF2. }
  destruct (r =? 4); [exact H1|].
  destruct (r =? 5); [exact H1|].
  apply FInv_finish.
Qed.

Lemma SInv_QInv pv g : SInv pv g -> forall s q, s_cur g = Some (s, q) -> QInv q.
Proof. intros (_ & _ & H & _) s q E. apply (H s q E). Qed.

Lemma FInv_init : forall ties, FInv (init_syncer ties).
Proof. intros ties. apply FInv_none. reflexivity. Qed.

Theorem FInv_step : forall pv disc g e, ev_ok e -> SInv pv g -> FInv g -> FInv (sstep pv disc g e).
Proof.
  intros pv disc g e Hok HS H. pose proof (SInv_QInv pv g HS) as HQ.
  unfold sstep, step. destruct e.
  - destruct (s_mode g); cbn [fst]; try exact H. apply FInv_loop, H.
  - destruct (s_mode g); cbn [fst]; try exact H. apply FInv_loop, H.
  - pose proof (add_pbl (s_pool g) pr s) as E.
    destruct (pool_add (s_pool g) pr s) as [p' b]. cbn [fst] in *.
    apply FInv_FQ. ss. intros s1 q1 E1. apply (FQ_pbl (s_pool g)); [exact E|].
    apply (proj1 (FInv_FQ g) H s1 q1 E1).
  - cbn [fst]. apply FInv_FQ. ss. intros s1 q1 E1.
    apply (FQ_pbl (s_pool g)); [apply remove_peer_pbl|].
    apply (proj1 (FInv_FQ g) H s1 q1 E1).
  - pose proof (FInv_add_chunk g pr h f idx body HQ H) as H1.
    destruct (add_chunk g pr h f idx body) as [g1 ar]. cbn [fst] in H1.
    destruct ar; cbn [fst]; try exact H1.
    destruct (s_mode g); cbn [fst]; try exact H1.
    destruct (idx =? i); cbn [fst]; try exact H1.
    destruct (s_cur g1) as [[s1 q1]|] eqn:E1; cbn [fst]; try exact H1.
    destruct (q_wake q1 i) as [q' nr] eqn:Ew. cbn [fst].
    apply FInv_continue. apply FInv_deliver. intros s2 q2 E2.
    apply (FQ_wake _ q1 _ i q' nr); [|exact Ew].
    apply (proj1 (FInv_FQ g1) H1 s1 q1 E1).
  - destruct (s_mode g); cbn [fst]; try exact H.
    destruct (r =? 1); [cbn [fst]; apply FInv_continue, FInv_after_offer, H|].
    destruct (r =? 2); [cbn [fst]; apply FInv_finish|].
    destruct (r =? 3); [cbn [fst]; apply FInv_continue, H|].
    destruct (r =? 4); [cbn [fst]; apply FInv_continue, H|].
    destruct (r =? 5); [cbn [fst]; apply FInv_continue, H|].
    cbn [fst]; apply FInv_finish.
  - destruct (s_mode g); cbn [fst]; try exact H.
    apply FInv_continue, FInv_after_apply; assumption.
  - destruct (s_mode g); cbn [fst]; try exact H.
    destruct (verify_app s ah st appv hash height); cbn [fst]; apply FInv_finish.
  - destruct (s_mode g); cbn [fst]; try exact H. apply FInv_continue, H.
Qed.

Corollary FInv_reach : forall pv disc ties evs,
  Forall ev_ok evs ->
  (forall evs', Forall ev_ok evs' -> SInv pv (reach pv disc ties evs')) ->
  FInv (reach pv disc ties evs).
Proof.
  intros pv disc ties evs Hok HS. induction evs as [|e evs IH] using rev_ind.
  - apply FInv_init.
  - rewrite reach_snoc. apply Forall_app in Hok. destruct Hok as [Hok He].
    apply FInv_step.
    + inversion He; assumption.
    + apply HS, Hok.
    + apply IH, Hok.
Qed.

(* ------------------------------------------------------------------ the journal *)

(* the journal is unchanged, or its head is an OfferSnapshot *)
Definition jrel (g g' : syncer) : Prop :=
  s_journal g' = s_journal g \/ exists s ah r, s_journal g' = COffer s ah :: r.

Lemma jrel_eq g g' : s_journal g' = s_journal g -> jrel g g'.
Proof. intros E. left. exact E. Qed.

Lemma jrel_trans a b c : jrel a b -> jrel b c -> jrel a c.
Proof.
  intros [E1|(s & ah & r & E1)] [E2|(s' & ah' & r' & E2)].
  - left. congruence.
  - right. exists s', ah', r'. exact E2.
  - right. exists s, ah, r. congruence.
  - right. exists s', ah', r'. exact E2.
Qed.

Lemma handle_err_journal g s e : s_journal (handle_err g s e) = s_journal g.
Proof.
  unfold handle_err. destruct e; try reflexivity.
  ss. destruct (s_cur g) as [[s' q]|]; reflexivity.
Qed.

Lemma jrel_loop pv disc fuel g : jrel g (loop pv disc fuel g).
Proof.
  apply R_loop.
  - apply jrel_trans.
  - intros; apply jrel_eq, finish_journal.
  - intros; apply jrel_eq; reflexivity.
  - intros; apply jrel_eq; reflexivity.
  - intros; apply jrel_eq; reflexivity.
  - intros g0 s ah. right. exists s, ah, (s_journal g0). reflexivity.
  - intros; apply jrel_eq, handle_err_journal.
  - intros; apply jrel_eq; reflexivity.
Qed.

Lemma jrel_continue pv disc r s : jrel (fst r) (continue pv disc r s).
Proof.
  apply R_continue.
  - intros; apply jrel_eq; reflexivity.
  - apply jrel_trans.
  - intros; apply jrel_eq, finish_journal.
  - intros; apply jrel_eq; reflexivity.
  - intros; apply jrel_eq; reflexivity.
  - intros; apply jrel_eq; reflexivity.
  - intros g0 s0 ah. right. exists s0, ah, (s_journal g0). reflexivity.
  - intros; apply jrel_eq, handle_err_journal.
  - intros; apply jrel_eq; reflexivity.
Qed.

Lemma jrel_absurd g g' i b p r :
  jrel g g' -> s_journal g' = CApply i b p :: r -> s_journal g' <> s_journal g -> False.
Proof.
  intros [E|(s & ah & r' & E)] H1 H2; [contradiction|]. rewrite E in H1. discriminate.
Qed.

(* ------------------------------------------------------------------ the new call *)

Lemma apply_next_call g s ah st cm s0 q P l j :
  s_cur g = Some (s0, q) -> s_pool g = P -> s_qlog g = l -> s_journal g = j ->
  QInv q -> FQ P q l ->
  forall i b p r,
    s_journal (fst (apply_next g s ah st cm)) = CApply i b p :: r ->
    s_journal (fst (apply_next g s ah st cm)) <> j ->
    p_pbl P p = true -> In (i, b, p) l.
Proof.
  intros E <- <- <- HQ HF i b p r. unfold apply_next. rewrite E.
  destruct (q_next q) as [q' nr] eqn:En.
  destruct nr as [|iw|i0 b0 sd|]; unfold deliver, set_q; rewrite E; ss.
  - discriminate.
  - intros _ Hne; contradiction.
  - intros Hj _ Hp. injection Hj as -> -> -> _.
    destruct (next_chunk_least q q' i b p HQ En) as (Ho & _ & _ & _ & Hf & Hs & _).
    destruct (HF Ho) as [A _]. apply (A i b p Hf Hs Hp).
  - rewrite finish_journal. ss. intros _ Hne; contradiction.
Qed.

Lemma add_chunk_true g pr h f idx body g1 :
  add_chunk g pr h f idx body = (g1, AddTrue) ->
  p_pbl (s_pool g) pr = false /\ s_pool g1 = s_pool g /\ s_journal g1 = s_journal g /\
  exists s q1 b, s_cur g1 = Some (s, q1) /\ q_files q1 idx = Some b /\ q_senders q1 idx = Some pr.
Proof.
  unfold add_chunk. destruct (negb (s_insync g)); [discriminate|].
  destruct (s_cur g) as [[s q]|]; [|discriminate].
  unfold pool_peer_rejected. destruct (p_pbl (s_pool g) pr) eqn:Ep; [discriminate|].
  destruct (q_add q h f idx body pr) as [q' r] eqn:Ea.
  intros H; injection H as <- ->.
  destruct (add_effect _ _ _ _ _ _ _ Ea) as (b0 & _ & _ & _ & _ & _ & _ & Ef' & Es' & _).
  split; [reflexivity|]. split; [reflexivity|]. split; [reflexivity|].
  exists s, q', b0. ss. repeat split; assumption.
Qed.

Lemma add_chunk_journal g pr h f idx body : s_journal (fst (add_chunk g pr h f idx body)) = s_journal g.
Proof.
  unfold add_chunk. destruct (negb (s_insync g)); [reflexivity|].
  destruct (s_cur g) as [[s q]|]; [|reflexivity].
  destruct (pool_peer_rejected (s_pool g) pr); [reflexivity|].
  destruct (q_add q h f idx body pr) as [q' r]. reflexivity.
Qed.

Theorem rejected_sender_not_reused : forall pv disc g e i b p r,
  ev_ok e -> SInv pv g -> FInv g ->
  let g' := sstep pv disc g e in
  s_journal g' = CApply i b p :: r -> s_journal g' <> s_journal g ->
  p_pbl (s_pool g') p = true -> In (i, b, p) (s_qlog g).
Proof.
  intros pv disc g e i b p r Hok HS H. cbv zeta. pose proof (SInv_QInv pv g HS) as HQ.
  assert (Habs : forall g', jrel g g' -> s_journal g' = CApply i b p :: r ->
                 s_journal g' <> s_journal g -> p_pbl (s_pool g') p = true ->
                 In (i, b, p) (s_qlog g)).
  { intros g' Hj H1 H2 _. destruct (jrel_absurd g g' i b p r Hj H1 H2). }
  unfold sstep, step. destruct e.
  - destruct (s_mode g); cbn [fst]; apply Habs; try (left; reflexivity). apply jrel_loop.
  - destruct (s_mode g); cbn [fst]; apply Habs; try (left; reflexivity). apply jrel_loop.
  - destruct (pool_add (s_pool g) pr s) as [p' b0]. cbn [fst]. apply Habs. left; reflexivity.
  - cbn [fst]. apply Habs. left; reflexivity.
  - pose proof (add_chunk_journal g pr h f idx body) as Ej.
    destruct (add_chunk g pr h f idx body) as [g1 ar] eqn:Ea. cbn [fst] in Ej.
    destruct ar; cbn [fst]; try (apply Habs; left; exact Ej).
    destruct (s_mode g); cbn [fst]; try (apply Habs; left; exact Ej).
    destruct (Z.eqb_spec idx i0) as [->|]; cbn [fst]; try (apply Habs; left; exact Ej).
    destruct (add_chunk_true _ _ _ _ _ _ _ Ea) as (Hp & Epool & _ & s1 & q1 & b1 & E1 & Ef & Es).
    rewrite E1. unfold q_wake. rewrite Ef. cbn [fst].
    rewrite continue_none by apply deliver_snd.
    unfold deliver, set_q. rewrite E1. ss. rewrite Epool.
    intros Hj _ Hpp. injection Hj as _ _ <- _.
    unfold q_get_sender in Hpp. rewrite Es in Hpp. congruence.
  - destruct (s_mode g) eqn:Em; cbn [fst]; try (apply Habs; left; reflexivity).
    destruct (r0 =? 1).
    { cbn [fst]. unfold after_offer.
      destruct (pv_state pv (sn_height s));
        try (apply Habs; apply (jrel_trans _ (fst (finish g (OErr 2), @None sync_err)));
             [left; apply finish_journal|apply jrel_continue]);
        try (apply Habs; apply (jrel_continue pv disc (g, Some ERejectSnapshot) s)).
      destruct (pv_commit pv (sn_height s));
        try (apply Habs; apply (jrel_trans _ (fst (finish g (OErr 2), @None sync_err)));
             [left; apply finish_journal|apply jrel_continue]);
        try (apply Habs; apply (jrel_continue pv disc (g, Some ERejectSnapshot) s)).
      rewrite continue_none by apply apply_next_snd.
      destruct HS as (_ & _ & _ & HM). rewrite Em in HM.
      destruct HM as (_ & (q & Ec & _) & _).
      rewrite apply_next_pool. intros H1 H2 H3.
      apply (apply_next_call g s ah a a0 s q (s_pool g) (s_qlog g) (s_journal g) Ec
               eq_refl eq_refl eq_refl (HQ s q Ec) (proj1 (FInv_FQ g) H s q Ec) i b p r H1 H2 H3). }
    destruct (r0 =? 2); [cbn [fst]; apply Habs; left; apply finish_journal|].
    destruct (r0 =? 3); [cbn [fst]; apply Habs; apply (jrel_continue pv disc (g, Some ERejectSnapshot) s)|].
    destruct (r0 =? 4); [cbn [fst]; apply Habs; apply (jrel_continue pv disc (g, Some ERejectFormat) s)|].
    destruct (r0 =? 5); [cbn [fst]; apply Habs; apply (jrel_continue pv disc (g, Some ERejectSender) s)|].
    cbn [fst]; apply Habs; left; apply finish_journal.
  - destruct (s_mode g) eqn:Em; cbn [fst]; try (apply Habs; left; reflexivity).
    unfold after_apply. destruct (s_cur g) as [[s0 q]|] eqn:Ec.
    2:{ apply Habs. cbn [continue]. left. apply finish_journal. }
    destruct (mid_state g s0 q refetch rejects Ec (HQ s0 q eq_refl) H) as [HQ2 HF2]. cbv zeta in *.
    destruct (reject_senders (s_pool g) (fold_left q_discard refetch q) rejects) as [p2 q2].
    cbn [fst snd] in *.
    assert (Ec1 : s_cur (set_q (set_pool g p2) q2) = Some (s0, q2)).
    { unfold set_q. ss. rewrite Ec. reflexivity. }
    assert (Ep1 : s_pool (set_q (set_pool g p2) q2) = p2) by (rewrite set_q_pool; reflexivity).
    assert (El1 : s_qlog (set_q (set_pool g p2) q2) = s_qlog g) by (rewrite set_q_qlog; reflexivity).
    assert (Ej1 : s_journal (set_q (set_pool g p2) q2) = s_journal g) by (rewrite set_q_journal; reflexivity).
    assert (Hj1 : jrel g (set_q (set_pool g p2) q2)) by (left; exact Ej1).
    destruct (r0 =? 1).
    { rewrite continue_none by apply apply_next_snd. rewrite apply_next_pool, Ep1.
      apply (apply_next_call _ s ah st cm s0 q2 p2 (s_qlog g) (s_journal g) Ec1 Ep1 El1 Ej1 HQ2 HF2). }
    destruct (r0 =? 2).
    { apply Habs. cbn [continue]. left. rewrite finish_journal. exact Ej1. }
    destruct (r0 =? 3).
    { rewrite continue_none by apply apply_next_snd. rewrite apply_next_pool, set_q_pool, Ep1.
      apply (apply_next_call _ s ah st cm s0 (q_retry q2 i0) p2 (s_qlog g) (s_journal g)).
      - rewrite set_q_cur, Ec1. reflexivity.
      - rewrite set_q_pool. exact Ep1.
      - rewrite set_q_qlog. exact El1.
      - rewrite set_q_journal. exact Ej1.
      - apply QInv_retry, HQ2.
      - apply FQ_retry, HF2. }
    destruct (r0 =? 4).
    { apply Habs. eapply jrel_trans; [exact Hj1|].
      apply (jrel_continue pv disc (set_q (set_pool g p2) q2, Some ERetrySnapshot) s). }
    destruct (r0 =? 5).
    { apply Habs. eapply jrel_trans; [exact Hj1|].
      apply (jrel_continue pv disc (set_q (set_pool g p2) q2, Some ERejectSnapshot) s). }
    apply Habs. cbn [continue]. left. rewrite finish_journal. exact Ej1.
  - destruct (s_mode g); cbn [fst]; try (apply Habs; left; reflexivity).
    destruct (verify_app s ah st appv hash height); cbn [fst]; apply Habs; left; apply finish_journal.
  - destruct (s_mode g); cbn [fst]; try (apply Habs; left; reflexivity).
    apply Habs. apply (jrel_continue pv disc (g, Some ETimeout) s).
Qed.

(* ------------------------------------------------------------------ refusal and blacklisting *)

Lemma rejected_chunk_refused : forall g pr h f idx body,
  p_pbl (s_pool g) pr = true ->
  add_chunk g pr h f idx body = (g, AddErr) \/ add_chunk g pr h f idx body = (g, AddFalse).
Proof.
  intros g pr h f idx body Hp. unfold add_chunk.
  destruct (negb (s_insync g)); [left; reflexivity|].
  destruct (s_cur g) as [[s q]|]; [|left; reflexivity].
  unfold pool_peer_rejected. rewrite Hp. right; reflexivity.
Qed.

Lemma apply_reply_blacklists : forall pv disc g s ah st cm i r refetch rejects sd,
  s_mode g = MApply s ah st cm i -> SInv pv g -> In sd rejects -> sd <> 0%N ->
  p_pbl (s_pool (sstep pv disc g (EApplyReply r refetch rejects))) sd = true.
Proof.
  intros pv disc g s ah st cm i r refetch rejects sd Em HS HI Hsd.
  unfold sstep, step. rewrite Em. cbn [fst]. apply ple_continue.
  destruct HS as (_ & _ & _ & HM). rewrite Em in HM.
  destruct HM as (_ & _ & q & Ec & _).
  rewrite (after_apply_pool _ _ _ _ _ _ _ _ _ s q Ec).
  apply reject_senders_blacklists; assumption.
Qed.

Lemma offer_reject_sender_blacklists : forall pv disc g s ah sd,
  s_mode g = MOffer s ah -> In sd (pool_get_peers (s_pool g) s) -> sd <> 0%N ->
  p_pbl (s_pool (sstep pv disc g (EOfferReply 5))) sd = true.
Proof.
  intros pv disc g s ah sd Em HI Hsd. unfold sstep, step. rewrite Em.
  change (5 =? 1) with false. change (5 =? 2) with false. change (5 =? 3) with false.
  change (5 =? 4) with false. change (5 =? 5) with true. cbv iota. cbn [fst continue].
  apply ple_loop. unfold handle_err. ss. apply reject_peers_sets; assumption.
Qed.

Print Assumptions pbl_mono_step.
Print Assumptions FInv_step.
Print Assumptions FInv_reach.
Print Assumptions rejected_sender_not_reused.
Print Assumptions rejected_chunk_refused.
Print Assumptions apply_reply_blacklists.
Print Assumptions offer_reject_sender_blacklists.
