(* C14 — the model of lightClientStateProvider (Model.lc_state / lc_state_fixed / lc_apphash /
   lc_commit, lrpc_params) and of verifyApp against the specification of Spec.v. *)
From Coq Require Import String List ZArith NArith Bool Lia.
From TM Require Import Common.Hex Generated.Consts C14.Model C14.Spec C14.PQueue C14.PPool
  C14.PSyncDefs C14.PSyncA.
Import ListNotations. Open Scope Z_scope.

(* ---- the decision procedures of Spec.v decide the specifications ---- *)

Lemma in_range_iff : forall z, in_range z = true <-> 0 < z < 2 ^ 63.
Proof. intro z. unfold in_range. rewrite andb_true_iff, !Z.ltb_lt. tauto. Qed.

Lemma spec_state_b_iff : forall lc initial h st,
  spec_state_b lc initial h st = true <-> state_spec lc initial h st.
Proof.
  intros lc initial h st. unfold spec_state_b, state_spec, vouched.
  rewrite !andb_true_iff, !in_range_iff. split.
  - intros [[[R0 R1] R2] M].
    destruct (lc h) as [last| |]; try discriminate.
    destruct (lc (h + 1)) as [cur| |]; try discriminate.
    destruct (lc (h + 2)) as [next| |]; try discriminate.
    rewrite !andb_true_iff, !Z.eqb_eq, !bytes_eqb_eq in M.
    exists last, cur, next. intuition.
  - intros (last & cur & next & [R0 L0] & [R1 L1] & [R2 L2] & M).
    rewrite L0, L1, L2. rewrite !andb_true_iff, !Z.eqb_eq, !bytes_eqb_eq. intuition.
Qed.

Lemma spec_apphash_b_iff : forall lc h ah, spec_apphash_b lc h ah = true <-> apphash_spec lc h ah.
Proof.
  intros lc h ah. unfold spec_apphash_b, apphash_spec, vouched.
  rewrite andb_true_iff, in_range_iff. split.
  - intros [R M]. destruct (lc (h + 1)) as [cur| |]; try discriminate.
    apply bytes_eqb_eq in M. exists cur. auto.
  - intros (cur & [R L] & ->). rewrite L, bytes_eqb_refl. auto.
Qed.

Lemma spec_commit_b_iff : forall lc h cm, spec_commit_b lc h cm = true <-> commit_spec lc h cm.
Proof.
  intros lc h cm. unfold spec_commit_b, commit_spec, vouched.
  rewrite andb_true_iff, in_range_iff. split.
  - intros [R M]. destruct (lc h) as [last| |]; try discriminate.
    apply bytes_eqb_eq in M. exists last. auto.
  - intros (last & [R L] & ->). rewrite L, bytes_eqb_refl. auto.
Qed.

Lemma app_agrees_b_iff : forall sh th st appv hash height,
  app_agrees_b sh th st appv hash height = true <-> app_agrees sh th st appv hash height.
Proof.
  intros. unfold app_agrees_b, app_agrees.
  rewrite !andb_true_iff, !Z.eqb_eq, bytes_eqb_eq. tauto.
Qed.

(* ---- uint64 / int64 conversions of the snapshot height are exact where the light client
        answers ---- *)

Lemma heights_exact : forall h,
  0 <= h < 2 ^ 64 -> 0 < to_int64 h -> 0 < to_int64 (u64 (h + 1)) -> 0 < to_int64 (u64 (h + 2)) ->
  to_int64 h = h /\ to_int64 (u64 (h + 1)) = h + 1 /\ to_int64 (u64 (h + 2)) = h + 2 /\
  0 < h /\ h + 2 < 2 ^ 63.
Proof.
  intros h Hh H0 H1 H2. unfold to_int64, u64 in *.
  change (2 ^ 64) with 18446744073709551616 in *.
  change (2 ^ 63) with 9223372036854775808 in *.
  assert (E0 : h < 9223372036854775808) by (Z.div_mod_to_equations; lia).
  assert (A1 : (h + 1) mod 18446744073709551616 = h + 1) by (apply Z.mod_small; lia).
  rewrite A1 in *.
  assert (E1 : h + 1 < 9223372036854775808) by (Z.div_mod_to_equations; lia).
  assert (A2 : (h + 2) mod 18446744073709551616 = h + 2) by (apply Z.mod_small; lia).
  rewrite A2 in *.
  assert (E2 : h + 2 < 9223372036854775808) by (Z.div_mod_to_equations; lia).
  assert (E3 : 0 < h) by (Z.div_mod_to_equations; lia).
  repeat split; try lia.
  - rewrite Z.mod_small by lia. lia.
  - rewrite Z.mod_small by lia. lia.
  - rewrite Z.mod_small by lia. lia.
Qed.

(* the three blocks State()/AppHash()/Commit() fetch are the blocks vouched for at h, h+1, h+2 *)
Lemma blocks_vouched : forall lc h last cur next,
  light_client_ok lc -> 0 <= h < 2 ^ 64 ->
  lc (to_int64 h) = ROk last -> lc (to_int64 (u64 (h + 1))) = ROk cur ->
  lc (to_int64 (u64 (h + 2))) = ROk next ->
  vouched lc h last /\ vouched lc (h + 1) cur /\ vouched lc (h + 2) next /\
  lb_height last = h /\ lb_height cur = h + 1 /\ lb_height next = h + 2.
Proof.
  intros lc h last cur next OK Hh L0 L1 L2.
  destruct (OK _ _ L0) as [P0 Q0]. destruct (OK _ _ L1) as [P1 Q1]. destruct (OK _ _ L2) as [P2 Q2].
  destruct (heights_exact h Hh P0 P1 P2) as (X0 & X1 & X2 & Y0 & Y1).
  rewrite X0 in *. rewrite X1 in *. rewrite X2 in *.
  unfold vouched. repeat split; auto; lia.
Qed.

(* ---- State() ---- *)

(* the code as it is, for a server that labels its answer with the requested height *)
Theorem state_meets_spec : forall lc rpc initial h st,
  light_client_ok lc -> 0 <= h < 2 ^ 64 ->
  (forall label ph, rpc (h + 1) = Some (label, ph) -> label = h + 1) ->
  lc_state lc (lrpc_params lc rpc) initial h = ROk st -> state_spec lc initial h st.
Proof.
  intros lc rpc initial h st OK Hh HL S.
  apply lc_state_inv in S. destruct S as (last & cur & next & params & S1 & S2 & S3 & S4 & ->).
  destruct (blocks_vouched lc h last cur next OK Hh S1 S2 S3) as (V0 & V1 & V2 & E0 & E1 & E2).
  assert (P : params = lb_conshash cur).
  { rewrite E1 in S4. unfold lrpc_params in S4.
    destruct (rpc (h + 1)) as [[label ph]|] eqn:ER; [|discriminate].
    rewrite (HL label ph eq_refl) in S4.
    destruct (h + 1 <=? 0); [discriminate|].
    destruct V1 as [_ V1]. rewrite V1 in S4.
    destruct (bytes_eqb ph (lb_conshash cur)) eqn:EB; [|discriminate].
    apply bytes_eqb_eq in EB. injection S4 as <-. exact EB. }
  exists last, cur, next. cbn. rewrite E0, E1, E2. intuition.
Qed.

(* the repaired code (F66), for ANY consensus_params server *)
Theorem state_fixed_meets_spec : forall lc cp initial h st,
  light_client_ok lc -> 0 <= h < 2 ^ 64 ->
  lc_state_fixed lc cp initial h = ROk st -> state_spec lc initial h st.
Proof.
  intros lc cp initial h st OK Hh S. unfold lc_state_fixed, rbind in S.
  destruct (lc_state lc cp initial h) as [st'| |] eqn:S'; try discriminate.
  apply lc_state_inv in S'. destruct S' as (last & cur & next & params & S1 & S2 & S3 & S4 & E).
  rewrite S2 in S.
  destruct (bytes_eqb (st_params st') (lb_conshash cur)) eqn:EB; [|discriminate].
  injection S as <-. apply bytes_eqb_eq in EB. subst st'. cbn in EB.
  destruct (blocks_vouched lc h last cur next OK Hh S1 S2 S3) as (V0 & V1 & V2 & E0 & E1 & E2).
  exists last, cur, next. cbn. rewrite E0, E1, E2. intuition.
Qed.

(* the repair changes nothing when the server is honest about the height *)
Lemma state_fixed_same_when_honest : forall lc rpc initial h st,
  light_client_ok lc -> 0 <= h < 2 ^ 64 ->
  (forall label ph, rpc (h + 1) = Some (label, ph) -> label = h + 1) ->
  lc_state lc (lrpc_params lc rpc) initial h = ROk st ->
  lc_state_fixed lc (lrpc_params lc rpc) initial h = ROk st.
Proof.
  intros lc rpc initial h st OK Hh HL S.
  pose proof (state_meets_spec lc rpc initial h st OK Hh HL S) as (last & cur & next & V0 & V1 & V2 & M).
  unfold lc_state_fixed, rbind. rewrite S.
  pose proof S as S'. apply lc_state_inv in S'.
  destruct S' as (last' & cur' & next' & params & S1 & S2 & S3 & _).
  destruct (blocks_vouched lc h last' cur' next' OK Hh S1 S2 S3) as (_ & [_ V1'] & _).
  destruct V1 as [_ V1]. rewrite V1 in V1'. injection V1' as <-.
  rewrite S2. destruct M as (_ & _ & _ & _ & _ & _ & _ & _ & _ & _ & P & _).
  rewrite P, bytes_eqb_refl. reflexivity.
Qed.

(* ---- AppHash() and Commit() ---- *)

Theorem apphash_meets_spec : forall lc h ah,
  light_client_ok lc -> 0 <= h < 2 ^ 64 -> lc_apphash lc h = ROk ah -> apphash_spec lc h ah.
Proof.
  intros lc h ah OK Hh A. apply lc_apphash_inv in A. destruct A as (cur & next & A1 & A2 & ->).
  destruct (OK _ _ A1) as [P1 _].
  unfold to_int64, u64 in P1.
  exists cur. split; [|reflexivity]. unfold vouched.
  assert (E : to_int64 (u64 (h + 1)) = h + 1 /\ 0 < h + 1 < 2 ^ 63).
  { unfold to_int64, u64.
    change (2 ^ 64) with 18446744073709551616 in *.
    change (2 ^ 63) with 9223372036854775808 in *.
    Z.div_mod_to_equations. lia. }
  destruct E as [E R]. rewrite E in A1. auto.
Qed.

Theorem commit_meets_spec : forall lc h cm,
  light_client_ok lc -> 0 <= h < 2 ^ 64 -> lc_commit lc h = ROk cm -> commit_spec lc h cm.
Proof.
  intros lc h cm OK Hh C. apply lc_commit_inv in C. destruct C as (last & C1 & ->).
  destruct (OK _ _ C1) as [P0 _].
  exists last. split; [|reflexivity]. unfold vouched.
  assert (E : to_int64 h = h /\ 0 < h < 2 ^ 63).
  { unfold to_int64 in *.
    change (2 ^ 64) with 18446744073709551616 in *.
    change (2 ^ 63) with 9223372036854775808 in *.
    Z.div_mod_to_equations. lia. }
  destruct E as [E R]. rewrite E in C1. auto.
Qed.

(* ---- verifyApp ---- *)

(* for a snapshot height a light client can vouch for and a reported int64 height, verifyApp
   passes exactly when the application agrees *)
Theorem verify_app_exact : forall s ah st appv hash height,
  0 < sn_height s < 2 ^ 63 -> - 2 ^ 63 <= height < 2 ^ 63 ->
  (verify_app s ah st appv hash height = None <->
   app_agrees (sn_height s) ah st appv hash height).
Proof.
  intros s ah st appv hash height Hs Hh. unfold app_agrees. split.
  - intro V. apply verify_app_none in V. destruct V as (-> & -> & U).
    repeat split. unfold u64 in U.
    change (2 ^ 64) with 18446744073709551616 in *.
    change (2 ^ 63) with 9223372036854775808 in *.
    Z.div_mod_to_equations. lia.
  - intros (-> & -> & ->). unfold verify_app.
    rewrite Z.eqb_refl, bytes_eqb_refl. cbn [negb].
    replace (u64 (sn_height s) =? sn_height s) with true; [reflexivity|].
    symmetry. apply Z.eqb_eq. unfold u64. apply Z.mod_small.
    change (2 ^ 64) with 18446744073709551616.
    change (2 ^ 63) with 9223372036854775808 in *. lia.
Qed.

(* in particular an empty trusted hash is matched by the empty report only *)
Corollary verify_app_empty_hash : forall s st appv hash height,
  verify_app s [] st appv hash height = None -> hash = [].
Proof. intros. apply verify_app_none in H. tauto. Qed.

(* ---- end to end: what SyncAny returns ---- *)

Section EndToEnd.
  Variable lc : Z -> res lightblock.
  Variable state_of : Z -> res sstate.
  Variable initial : Z.
  Hypothesis OK : light_client_ok lc.
  Hypothesis state_ok : forall h st, 0 <= h < 2 ^ 64 -> state_of h = ROk st -> state_spec lc initial h st.

  Let pv := mkProv (lc_apphash lc) state_of (lc_commit lc).

  Lemma restored_generic : forall disc ties evs st cm,
    Forall ev_ok evs -> s_mode (reach pv disc ties evs) = MDone (OOk st cm) ->
    exists s ah height, let h := sn_height s in
      In (COffer s ah) (s_journal (reach pv disc ties evs)) /\
      state_spec lc initial h st /\ commit_spec lc h cm /\ apphash_spec lc h ah /\
      In (EInfoReply (st_vapp st) ah height) evs /\ u64 height = h.
  Proof.
    intros disc ties evs st cm HF H.
    destruct (restore_only_if_app_agrees _ _ _ _ _ _ HF H)
      as (s & ah & appv & hash & height & I1 & I2 & A & S & C & E1 & E2 & E3).
    cbn [pv pv_apphash pv_state pv_commit] in A, S, C.
    assert (Hh : 0 <= sn_height s < 2 ^ 64).
    { rewrite <- E3. unfold u64. apply Z.mod_pos_bound. reflexivity. }
    subst appv hash. exists s, ah, height. cbv zeta.
    split; [exact I2|]. split; [apply state_ok; assumption|].
    split; [apply commit_meets_spec; assumption|].
    split; [apply apphash_meets_spec; assumption|].
    split; assumption.
  Qed.
End EndToEnd.

Theorem restored_state_meets_spec : forall lc rpc initial disc ties evs st cm,
  light_client_ok lc -> honest_labels rpc -> Forall ev_ok evs ->
  s_mode (reach (lc_provider lc (lrpc_params lc rpc) initial) disc ties evs) = MDone (OOk st cm) ->
  exists s ah height, let h := sn_height s in
    In (COffer s ah) (s_journal (reach (lc_provider lc (lrpc_params lc rpc) initial) disc ties evs)) /\
    state_spec lc initial h st /\ commit_spec lc h cm /\ apphash_spec lc h ah /\
    In (EInfoReply (st_vapp st) ah height) evs /\ u64 height = h.
Proof.
  intros lc rpc initial disc ties evs st cm OK HL HF H.
  apply (restored_generic lc (lc_state lc (lrpc_params lc rpc) initial) initial OK); try assumption.
  intros h st' Hh S. eapply state_meets_spec; eauto.
Qed.

Definition lc_provider_fixed (lc : Z -> res lightblock) (cp : Z -> option bytes) (initial : Z) : provider :=
  mkProv (lc_apphash lc) (lc_state_fixed lc cp initial) (lc_commit lc).

Theorem restored_state_meets_spec_fixed : forall lc cp initial disc ties evs st cm,
  light_client_ok lc -> Forall ev_ok evs ->
  s_mode (reach (lc_provider_fixed lc cp initial) disc ties evs) = MDone (OOk st cm) ->
  exists s ah height, let h := sn_height s in
    In (COffer s ah) (s_journal (reach (lc_provider_fixed lc cp initial) disc ties evs)) /\
    state_spec lc initial h st /\ commit_spec lc h cm /\ apphash_spec lc h ah /\
    In (EInfoReply (st_vapp st) ah height) evs /\ u64 height = h.
Proof.
  intros lc cp initial disc ties evs st cm OK HF H.
  apply (restored_generic lc (lc_state_fixed lc cp initial) initial OK); try assumption.
  intros h st' Hh S. eapply state_fixed_meets_spec; eauto.
Qed.
