(* C14 — proofs.  The development is split by subject:
     PQueue.v    chunk queue: invariant, refinement to the one-map specification, order lemmas
     PPool.v     snapshot pool: invariant, blacklists are final over all histories, per-peer cap
     PSyncDefs.v the invariant SInv of the syncer machine
     PSyncA.v    SInv is inductive; chunks in order; restore only if the app agrees; provenance
     PSyncB.v    a rejected sender is never used again (with the F20 repair)
     PSyncC.v    a rejected snapshot / format is never offered again; the loop never runs dry
     PSyncD.v    refetch and retry requests are honoured by applyChunks
     PSpec.v     State()/AppHash()/Commit()/verifyApp against the specification of Spec.v
     PBoot.v     state.Store.Bootstrap/Save/LoadValidators/LoadConsensusParams against the store specifications of Spec.v
   This file re-exports them and closes the history-level statements whose hypotheses are
   discharged by SInv_reach. *)
From Coq Require Import String List ZArith NArith Bool Lia.
From TM Require Import Common.Hex Generated.Consts C14.Model.
From TM Require Export C14.PQueue C14.PPool C14.PSyncDefs C14.PSyncA C14.PSyncB C14.PSyncC C14.PSyncD C14.PSpec C14.PBoot.
Import ListNotations. Open Scope Z_scope.

(* the refinement, started from the empty specification queue *)
Lemma queue_refines_from_new : forall s q ops,
  new_queue s = Some q -> 0 <= sn_chunks s ->
  let a0 := mkSQ true (sn_height s) (sn_format s) (sn_chunks s) (fun _ => None) (fun _ => false) in
  abs_eq (qrun q ops) (srun a0 ops) /\ qtrace q ops = strace a0 ops.
Proof.
  intros s q ops Hn Hc a0. apply queue_refines_run.
  - eapply QInv_new; eassumption.
  - unfold new_queue in Hn. destruct (sn_chunks s =? 0); [discriminate|].
    inversion Hn; subst. unfold abs_eq, a0, q_cont; cbn. repeat split; reflexivity.
Qed.

(* FInv holds in every reachable state *)
Lemma FInv_reachable : forall pv disc ties evs, Forall ev_ok evs -> FInv (reach pv disc ties evs).
Proof.
  intros. apply FInv_reach; [assumption|]. intros. apply SInv_reach; assumption.
Qed.

(* history form of rejected_sender_not_reused *)
Lemma rejected_sender_history : forall pv disc ties evs e i b p r,
  Forall ev_ok (evs ++ [e]) ->
  let g := reach pv disc ties evs in
  let g' := PSyncDefs.sstep pv disc g e in
  s_journal g' = CApply i b p :: r -> s_journal g' <> s_journal g ->
  p_pbl (s_pool g') p = true -> In (i, b, p) (s_qlog g).
Proof.
  intros pv disc ties evs e i b p r Hok g g' Hj Hne Hb.
  apply Forall_app in Hok as [Hevs He]. inversion He; subst.
  eapply rejected_sender_not_reused; eauto.
  - apply SInv_reach; assumption.
  - apply FInv_reachable; assumption.
Qed.

Lemma no_fuel_exhaustion_history : forall pv disc ties evs,
  Forall ev_ok evs -> s_mode (reach pv disc ties evs) <> MDone (OErr 99).
Proof.
  intros. apply reach_no_fuel_exhaustion; [|assumption]. intros. apply SInv_reach; assumption.
Qed.
