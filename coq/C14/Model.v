(* C14 — State sync bootstraps only to light-verified state that the app reproduces.
   Gallina transcription of
     statesync/chunks.go      (chunkQueue, all methods; Next in its non-blocking form)
     statesync/snapshots.go   (snapshotPool: Add, Best/Ranked, GetPeers, Reject, RejectFormat,
                               RejectPeer, RemovePeer, removePeer, removeSnapshot)
     statesync/syncer.go      (AddChunk, AddSnapshot, RemovePeer, SyncAny, Sync, offerSnapshot,
                               applyChunks, verifyApp) as an event-driven machine, see below
     statesync/stateprovider.go (AppHash, Commit, State over an oracle of light-verified blocks)
   NO proofs in this file.

   Conventions.  Peer ids are numbers (0 = the empty p2p.ID ""), the order of numbers is the
   order of the id strings.  Go maps are total functions (absent = None / false / []), except
   where the code enumerates a map (pool.snapshots: association list).  Chunk files are a map
   index -> bytes (a present file = Some).  The temp directory, logging, and errors of
   os.WriteFile/os.Remove are not modelled.

   The syncer goroutine (SyncAny) is modelled between its *yield points*: the places where it
   waits for somebody else — the ABCI application (OfferSnapshot, ApplySnapshotChunk, Info), the
   arrival of the chunk Next() is blocked on, the discovery sleep.  Events are what the other
   parties do: the reactor delivering snapshots/chunks/peer removals, the application replying,
   the chunk timeout firing.  [step] applies one event and runs the syncer goroutine to its next
   yield point.  Interleavings finer than that (a reactor call between two statements of
   applyChunks) and the fetchChunks goroutines (which only call Allocate/WaitFor/GetPeer and send
   requests) are outside the model.

   F20 repair (fixes/F20-addchunk-rejected-sender.diff): syncer.AddChunk refuses a chunk whose
   sender is on the pool's peer blacklist.  [add_chunk] transcribes the repaired code. *)
From Coq Require Import String List ZArith NArith Bool.
From TM Require Import Common.Hex Generated.Consts.
Import ListNotations.
Open Scope Z_scope.

(* ------------------------------------------------------------------ small helpers *)

Definition peer := N.
Definition key := bytes.

Definition upd {A} (f : Z -> A) (k : Z) (v : A) : Z -> A := fun x => if x =? k then v else f x.
Definition updP {A} (f : peer -> A) (k : peer) (v : A) : peer -> A :=
  fun x => if (x =? k)%N then v else f x.
Definition updK {A} (f : key -> A) (k : key) (v : A) : key -> A :=
  fun x => if bytes_eqb x k then v else f x.

(* first index i in [start, start+n) with P i *)
Fixpoint first_idx (P : Z -> bool) (start : Z) (n : nat) : option Z :=
  match n with
  | O => None
  | S n' => if P start then Some start else first_idx P (start + 1) n'
  end.

Fixpoint count_idx (P : Z -> bool) (start : Z) (n : nat) : Z :=
  match n with
  | O => 0
  | S n' => (if P start then 1 else 0) + count_idx P (start + 1) n'
  end.

Fixpoint mem_key (k : key) (l : list key) : bool :=
  match l with [] => false | x :: r => bytes_eqb x k || mem_key k r end.
Definition add_key (k : key) (l : list key) : list key := if mem_key k l then l else l ++ [k].
Definition del_key (k : key) (l : list key) : list key := filter (fun x => negb (bytes_eqb x k)) l.

Fixpoint mem_peer (p : peer) (l : list peer) : bool :=
  match l with [] => false | x :: r => (x =? p)%N || mem_peer p r end.
(* peer sets are kept sorted by id: GetPeers sorts its answer *)
Fixpoint add_peer (p : peer) (l : list peer) : list peer :=
  match l with
  | [] => [p]
  | x :: r => if (p =? x)%N then l else if (p <? x)%N then p :: l else x :: add_peer p r
  end.
Definition del_peer (p : peer) (l : list peer) : list peer := filter (fun x => negb (x =? p)%N) l.

(* fmt.Sprintf("%v", n) of an unsigned number: decimal digits *)
Fixpoint dec_f (fuel : nat) (n : N) (acc : bytes) : bytes :=
  match fuel with
  | O => acc
  | S f => let acc' := (48 + n mod 10)%N :: acc in
           if (n <? 10)%N then acc' else dec_f f (n / 10)%N acc'
  end.
Definition dec (z : Z) : bytes := dec_f 40 (Z.to_N z) [].

(* ------------------------------------------------------------------ snapshots *)

Record snapshot := mkSnap {
  sn_height : Z;      (* uint64 *)
  sn_format : Z;      (* uint32 *)
  sn_chunks : Z;      (* uint32 *)
  sn_hash : bytes;
  sn_meta : bytes }.

(* snapshot.Key(): sha256 of "%v:%v:%v" height format chunks ‖ Hash ‖ Metadata.  The key is
   modelled by that pre-image (SHA-256 treated as injective on pre-images; note that the
   pre-image itself does not separate Chunks/Hash/Metadata from one another). *)
Definition snapshot_key (s : snapshot) : key :=
  dec (sn_height s) ++ [58%N] ++ dec (sn_format s) ++ [58%N] ++ dec (sn_chunks s)
  ++ sn_hash s ++ sn_meta s.

(* ------------------------------------------------------------------ chunks.go *)

Record cqueue := mkQ {
  q_open : bool;                      (* snapshot != nil *)
  q_height : Z; q_format : Z; q_chunks : Z;
  q_files : Z -> option bytes;        (* chunkFiles + file contents *)
  q_senders : Z -> option peer;       (* chunkSenders *)
  q_alloc : Z -> bool;                (* chunkAllocated *)
  q_ret : Z -> bool }.                (* chunkReturned *)

Definition set_open (q : cqueue) v := mkQ v (q_height q) (q_format q) (q_chunks q) (q_files q) (q_senders q) (q_alloc q) (q_ret q).
Definition set_files (q : cqueue) v := mkQ (q_open q) (q_height q) (q_format q) (q_chunks q) v (q_senders q) (q_alloc q) (q_ret q).
Definition set_senders (q : cqueue) v := mkQ (q_open q) (q_height q) (q_format q) (q_chunks q) (q_files q) v (q_alloc q) (q_ret q).
Definition set_alloc (q : cqueue) v := mkQ (q_open q) (q_height q) (q_format q) (q_chunks q) (q_files q) (q_senders q) v (q_ret q).
Definition set_ret (q : cqueue) v := mkQ (q_open q) (q_height q) (q_format q) (q_chunks q) (q_files q) (q_senders q) (q_alloc q) v.

(* newChunkQueue *)
Definition new_queue (s : snapshot) : option cqueue :=
  if sn_chunks s =? 0 then None
  else Some (mkQ true (sn_height s) (sn_format s) (sn_chunks s)
                 (fun _ => None) (fun _ => None) (fun _ => false) (fun _ => false)).

Inductive add_res := AddErr | AddFalse | AddTrue.

(* Add; [body = None]: nil chunk body *)
Definition q_add (q : cqueue) (h f idx : Z) (body : option bytes) (sender : peer) : cqueue * add_res :=
  match body with
  | None => (q, AddErr)
  | Some b =>
    if negb (q_open q) then (q, AddFalse)
    else if negb (h =? q_height q) then (q, AddErr)
    else if negb (f =? q_format q) then (q, AddErr)
    else if q_chunks q <=? idx then (q, AddErr)
    else match q_files q idx with
         | Some _ => (q, AddFalse)
         | None => (set_senders (set_files q (upd (q_files q) idx (Some b)))
                                (upd (q_senders q) idx (Some sender)), AddTrue)
         end
  end.

Definition q_n (q : cqueue) : nat := Z.to_nat (q_chunks q).

(* Allocate: Some i, or None = errDone *)
Definition q_allocate (q : cqueue) : cqueue * option Z :=
  if negb (q_open q) then (q, None)
  else if q_chunks q <=? count_idx (q_alloc q) 0 (q_n q) then (q, None)
  else match first_idx (fun i => negb (q_alloc q i)) 0 (q_n q) with
       | Some i => (set_alloc q (upd (q_alloc q) i true), Some i)
       | None => (q, None)
       end.

Definition q_close (q : cqueue) : cqueue := if q_open q then set_open q false else q.

(* discard (lock held) *)
Definition q_discard (q : cqueue) (idx : Z) : cqueue :=
  if negb (q_open q) then q
  else match q_files q idx with
       | None => q
       | Some _ =>
         set_alloc (set_ret (set_files q (upd (q_files q) idx None)) (upd (q_ret q) idx false))
                   (upd (q_alloc q) idx false)
       end.

(* DiscardSender: every index whose recorded sender is [p] and that is not returned is
   discarded and its sender entry deleted (map iteration: the indices are independent) *)
Definition q_discard_sender (q : cqueue) (p : peer) : cqueue :=
  let hit i := match q_senders q i with
               | Some s => (s =? p)%N && negb (q_ret q i)
               | None => false end in
  let live i := hit i && q_open q && match q_files q i with Some _ => true | None => false end in
  mkQ (q_open q) (q_height q) (q_format q) (q_chunks q)
      (fun i => if live i then None else q_files q i)
      (fun i => if hit i then None else q_senders q i)
      (fun i => if live i then false else q_alloc q i)
      (q_ret q).     (* a hit index is not returned; discard deletes a false entry *)

Definition q_get_sender (q : cqueue) (idx : Z) : peer :=
  match q_senders q idx with Some p => p | None => 0%N end.

Definition q_has (q : cqueue) (idx : Z) : bool :=
  match q_files q idx with Some _ => true | None => false end.

(* nextUp *)
Definition q_next_up (q : cqueue) : option Z :=
  if negb (q_open q) then None else first_idx (fun i => negb (q_ret q i)) 0 (q_n q).

Inductive next_res :=
| NDone                                   (* errDone *)
| NWait (i : Z)                           (* would block in WaitFor(i) *)
| NChunk (i : Z) (b : bytes) (s : peer)
| NNil.                                   (* (nil, nil): applyChunks would dereference nil *)

(* Next, first critical section *)
Definition q_next (q : cqueue) : cqueue * next_res :=
  match q_next_up q with
  | None => (q, NDone)
  | Some i =>
    match q_files q i with
    | Some b => (set_ret q (upd (q_ret q) i true), NChunk i b (q_get_sender q i))
    | None => (q, NWait i)
    end
  end.

(* Next, second critical section: the waiter for [i] fired with a value *)
Definition q_wake (q : cqueue) (i : Z) : cqueue * next_res :=
  match q_files q i with
  | Some b => (set_ret q (upd (q_ret q) i true), NChunk i b (q_get_sender q i))
  | None => (set_ret q (upd (q_ret q) i true), NNil)
  end.

Definition q_retry (q : cqueue) (idx : Z) : cqueue := set_ret q (upd (q_ret q) idx false).
Definition q_retry_all (q : cqueue) : cqueue := set_ret q (fun _ => false).
Definition q_size (q : cqueue) : Z := if q_open q then q_chunks q else 0.

(* WaitFor: 0 = channel closed without value, 1 = fires at once, 2 = waiter registered *)
Definition q_wait_for (q : cqueue) (idx : Z) : Z :=
  if negb (q_open q) then 0
  else if q_chunks q <=? idx then 0
  else if q_has q idx then 1 else 2.

(* ------------------------------------------------------------------ snapshots.go *)

Record pool := mkP {
  p_snaps : list (key * snapshot);       (* snapshots *)
  p_speers : key -> list peer;           (* snapshotPeers *)
  p_pidx : peer -> list key;             (* peerIndex *)
  p_fidx : Z -> list key;                (* formatIndex; heightIndex is write-only, omitted *)
  p_fbl : Z -> bool;                     (* formatBlacklist *)
  p_pbl : peer -> bool;                  (* peerBlacklist *)
  p_sbl : key -> bool }.                 (* snapshotBlacklist *)

Definition new_pool : pool :=
  mkP [] (fun _ => []) (fun _ => []) (fun _ => []) (fun _ => false) (fun _ => false) (fun _ => false).

Fixpoint lookup (k : key) (l : list (key * snapshot)) : option snapshot :=
  match l with
  | [] => None
  | (k', s) :: r => if bytes_eqb k' k then Some s else lookup k r
  end.
Definition del_snap (k : key) (l : list (key * snapshot)) : list (key * snapshot) :=
  filter (fun e => negb (bytes_eqb (fst e) k)) l.

Definition recent_snapshots : Z := statesync_recent_snapshots.

(* Add *)
Definition pool_add (p : pool) (pr : peer) (s : snapshot) : pool * bool :=
  let k := snapshot_key s in
  if p_fbl p (sn_format s) then (p, false)
  else if p_pbl p pr then (p, false)
  else if p_sbl p k then (p, false)
  else if recent_snapshots <=? Z.of_nat (List.length (p_pidx p pr)) then (p, false)
  else
    let sp := updK (p_speers p) k (add_peer pr (p_speers p k)) in
    let pi := updP (p_pidx p) pr (add_key k (p_pidx p pr)) in
    match lookup k (p_snaps p) with
    | Some _ => (mkP (p_snaps p) sp pi (p_fidx p) (p_fbl p) (p_pbl p) (p_sbl p), false)
    | None =>
      (mkP (p_snaps p ++ [(k, s)]) sp pi
           (upd (p_fidx p) (sn_format s) (add_key k (p_fidx p (sn_format s))))
           (p_fbl p) (p_pbl p) (p_sbl p), true)
    end.

(* removeSnapshot *)
Definition remove_snapshot (p : pool) (k : key) : pool :=
  match lookup k (p_snaps p) with
  | None => p
  | Some s =>
    mkP (del_snap k (p_snaps p))
        (updK (p_speers p) k [])
        (fold_left (fun pi pr => updP pi pr (del_key k (pi pr))) (p_speers p k) (p_pidx p))
        (upd (p_fidx p) (sn_format s) (del_key k (p_fidx p (sn_format s))))
        (p_fbl p) (p_pbl p) (p_sbl p)
  end.

(* removePeer *)
Definition remove_peer_key (pr : peer) (p : pool) (k : key) : pool :=
  let l := del_peer pr (p_speers p k) in
  let p1 := mkP (p_snaps p) (updK (p_speers p) k l) (p_pidx p) (p_fidx p) (p_fbl p) (p_pbl p) (p_sbl p) in
  match l with [] => remove_snapshot p1 k | _ => p1 end.

Definition remove_peer (p : pool) (pr : peer) : pool :=
  let p1 := fold_left (remove_peer_key pr) (p_pidx p pr) p in
  mkP (p_snaps p1) (p_speers p1) (updP (p_pidx p1) pr []) (p_fidx p1) (p_fbl p1) (p_pbl p1) (p_sbl p1).

(* Reject *)
Definition pool_reject (p : pool) (s : snapshot) : pool :=
  let k := snapshot_key s in
  remove_snapshot (mkP (p_snaps p) (p_speers p) (p_pidx p) (p_fidx p) (p_fbl p) (p_pbl p) (updK (p_sbl p) k true)) k.

(* RejectFormat *)
Definition pool_reject_format (p : pool) (f : Z) : pool :=
  let p1 := mkP (p_snaps p) (p_speers p) (p_pidx p) (p_fidx p) (upd (p_fbl p) f true) (p_pbl p) (p_sbl p) in
  fold_left remove_snapshot (p_fidx p f) p1.

(* RejectPeer *)
Definition pool_reject_peer (p : pool) (pr : peer) : pool :=
  if (pr =? 0)%N then p
  else let p1 := remove_peer p pr in
       mkP (p_snaps p1) (p_speers p1) (p_pidx p1) (p_fidx p1) (p_fbl p1) (updP (p_pbl p1) pr true) (p_sbl p1).

(* GetPeers (sorted by id) *)
Definition pool_get_peers (p : pool) (s : snapshot) : list peer := p_speers p (snapshot_key s).

(* Ranked: the comparator of sort.Slice *)
Definition npeers (p : pool) (s : snapshot) : Z := Z.of_nat (List.length (p_speers p (snapshot_key s))).
Definition better (p : pool) (a b : snapshot) : bool :=
  if sn_height b <? sn_height a then true
  else if sn_height a <? sn_height b then false
  else if sn_format b <? sn_format a then true
  else if sn_format a <? sn_format b then false
  else npeers p b <? npeers p a.

(* sort.Slice is not stable and the candidates come out of a Go map: among snapshots that the
   comparator does not separate the order is arbitrary.  The model's Ranked is the stable
   insertion sort of the pool in insertion order (one of the admissible answers). *)
Fixpoint insert_ranked (p : pool) (s : snapshot) (l : list snapshot) : list snapshot :=
  match l with
  | [] => [s]
  | x :: r => if better p s x then s :: l else x :: insert_ranked p s r
  end.
Definition pool_ranked (p : pool) : list snapshot :=
  fold_left (fun acc e => insert_ranked p (snd e) acc) (p_snaps p) [].

(* s is an admissible answer of Best(): in the pool and no other candidate is better *)
Definition is_best (p : pool) (s : snapshot) : bool :=
  match lookup (snapshot_key s) (p_snaps p) with
  | None => false
  | Some _ => forallb (fun e => negb (better p (snd e) s)) (p_snaps p)
  end.

(* Best().  The arbitrary choice among ties is resolved by a preference list [ties]: its head is
   taken (and consumed) when it is an admissible answer, otherwise the head of [pool_ranked]. *)
Definition pool_best (p : pool) (ties : list key) : option snapshot * list key :=
  let dflt := match pool_ranked p with [] => None | s :: _ => Some s end in
  match ties with
  | [] => (dflt, [])
  | k :: r => match lookup k (p_snaps p) with
              | Some s => if is_best p s then (Some s, r) else (dflt, ties)
              | None => (dflt, ties)
              end
  end.

(* F20 repair: new read accessor of the peer blacklist *)
Definition pool_peer_rejected (p : pool) (pr : peer) : bool := p_pbl p pr.

(* ------------------------------------------------------------------ stateprovider.go *)

(* a light block as far as State()/Commit()/AppHash() project it; validator sets, block ids and
   commits are identified by their hashes *)
Record lightblock := mkLB {
  lb_height : Z; lb_time : Z; lb_vblock : Z; lb_vapp : Z;
  lb_apphash : bytes; lb_results : bytes;
  lb_blockid : bytes;      (* Commit.BlockID *)
  lb_commit : bytes;       (* the commit *)
  lb_vals : bytes;         (* ValidatorSet *)
  lb_conshash : bytes }.   (* Header.ConsensusHash *)

Inductive res (A : Type) := ROk (a : A) | RFail | RNoWitnesses.
Arguments ROk {A}. Arguments RFail {A}. Arguments RNoWitnesses {A}.

Definition rbind {A B} (r : res A) (f : A -> res B) : res B :=
  match r with ROk a => f a | RFail => RFail | RNoWitnesses => RNoWitnesses end.

Record sstate := mkState {
  st_initial : Z; st_vblock : Z; st_vapp : Z;
  st_last_height : Z; st_last_time : Z; st_last_blockid : bytes;
  st_apphash : bytes; st_results : bytes;
  st_lastvals : bytes; st_vals : bytes; st_nextvals : bytes; st_lhvc : Z;
  st_params : bytes; st_lhcpc : Z }.

Definition commit := bytes.

(* what the syncer sees of a StateProvider *)
Record provider := mkProv {
  pv_apphash : Z -> res bytes;
  pv_state : Z -> res sstate;
  pv_commit : Z -> res commit }.

(* lightClientStateProvider over an oracle [lc h] = result of VerifyLightBlockAtHeight(h)
   (the light client itself is C09) and [cp h] = result of the light-rpc ConsensusParams(h)
   call, which checks the params against the ConsensusHash of the verified header (C20);
   [initial] = configured initial height *)
(* uint64 arithmetic on the snapshot height and the conversion int64(…) of the Go code *)
Definition u64 (z : Z) : Z := z mod 2 ^ 64.
Definition to_int64 (z : Z) : Z := (z + 2 ^ 63) mod 2 ^ 64 - 2 ^ 63.

Definition lc_apphash (lc : Z -> res lightblock) (h : Z) : res bytes :=
  rbind (lc (to_int64 (u64 (h + 1)))) (fun hdr =>
  rbind (lc (to_int64 (u64 (h + 2)))) (fun _ => ROk (lb_apphash hdr))).

Definition lc_commit (lc : Z -> res lightblock) (h : Z) : res commit :=
  rbind (lc (to_int64 h)) (fun hdr => ROk (lb_commit hdr)).

Definition lc_state (lc : Z -> res lightblock) (cp : Z -> option bytes) (initial : Z) (h : Z) : res sstate :=
  rbind (lc (to_int64 h)) (fun last =>
  rbind (lc (to_int64 (u64 (h + 1)))) (fun cur =>
  rbind (lc (to_int64 (u64 (h + 2)))) (fun next =>
  match cp (lb_height cur) with
  | None => RFail
  | Some params =>
    ROk (mkState (if initial =? 0 then 1 else initial) (lb_vblock cur) (lb_vapp cur)
                 (lb_height last) (lb_time last) (lb_blockid last)
                 (lb_apphash cur) (lb_results cur)
                 (lb_vals last) (lb_vals cur) (lb_vals next) (lb_height next)
                 params (lb_height cur))
  end))).

Definition lc_provider (lc : Z -> res lightblock) (cp : Z -> option bytes) (initial : Z) : provider :=
  mkProv (lc_apphash lc) (lc_state lc cp initial) (lc_commit lc).

(* light/rpc Client.ConsensusParams(&height), the [cp] of State(): [rpc req] is what the
   (untrusted) RPC server of the primary answers to consensus_params(req): None = transport
   error or params refused by ValidateConsensusParams, Some (label, ph) = ResultConsensusParams
   with BlockHeight = label and params whose HashConsensusParams is ph (consensus params are
   identified by that hash, which covers Block.MaxBytes and Block.MaxGas only: the other fields
   of the params are not committed to by any header and are taken from the server as they come).
   The client checks label > 0, has the light client verify the block at height LABEL
   (updateLightClientIfNeededTo(&res.BlockHeight)) and compares ph with that header's
   ConsensusHash.  The requested height is not compared with the label. *)
Definition lrpc_params (lc : Z -> res lightblock) (rpc : Z -> option (Z * bytes)) (req : Z) : option bytes :=
  match rpc req with
  | None => None
  | Some (label, ph) =>
    if label <=? 0 then None
    else match lc label with
         | ROk l => if bytes_eqb ph (lb_conshash l) then Some ph else None
         | _ => None
         end
  end.

(* State() with the F66 repair (fixes/F66-statesync-params-of-requested-height.diff): the params
   the RPC client hands back are compared with the ConsensusHash of the light block h+1 that
   State() verified itself *)
Definition lc_state_fixed (lc : Z -> res lightblock) (cp : Z -> option bytes) (initial : Z) (h : Z) : res sstate :=
  rbind (lc_state lc cp initial h) (fun st =>
  match lc (to_int64 (u64 (h + 1))) with
  | ROk cur => if bytes_eqb (st_params st) (lb_conshash cur) then ROk st else RFail
  | _ => RFail
  end).

(* ------------------------------------------------------------------ state/store.go, node.go *)

(* What node.startStateSync does with the (state, commit) SyncAny returned:
     stateStore.Bootstrap(state); blockStore.SaveSeenCommit(state.LastBlockHeight, commit)
   and what the node reads back later: LoadValidators, LoadConsensusParams, Load, LoadSeenCommit;
   state.Store.Save of the successor states (what ApplyBlock does after every block).
   Validator sets are identified by their hashes (proposer priorities are not modelled: the
   IncrementProposerPriority replay of LoadValidators is C18's), consensus params by
   HashConsensusParams.  A record holds the set / params in full or only LastHeightChanged
   (a pointer).  Sets that come out of a light block are never empty (ValidatorSet.ValidateBasic),
   so Bootstrap's IsNilOrEmpty test of LastValidators is false here. *)
Record vinfo := mkVI { vi_lhc : Z; vi_set : option bytes }.
Record pinfo := mkPI { pi_lhc : Z; pi_params : option bytes }.
Record sstore := mkStore {
  ss_vals : Z -> option vinfo;      (* validatorsKey:<height> *)
  ss_params : Z -> option pinfo;    (* consensusParamsKey:<height> *)
  ss_state : option sstate;         (* stateKey *)
  ss_seen : Z -> option commit }.   (* block store: SC:<height> *)

Definition store0 : sstore := mkStore (fun _ => None) (fun _ => None) None (fun _ => None).

Definition obind {A B} (o : option A) (f : A -> option B) : option B :=
  match o with Some a => f a | None => None end.

(* saveValidatorsInfo *)
Definition save_vinfo (s : sstore) (height lhc : Z) (set : bytes) : option sstore :=
  if height <? lhc then None
  else Some (mkStore
    (upd (ss_vals s) height
         (Some (mkVI lhc (if (height =? lhc) || (height mod valset_checkpoint_interval =? 0)
                          then Some set else None))))
    (ss_params s) (ss_state s) (ss_seen s)).

(* saveConsensusParamsInfo *)
Definition save_pinfo (s : sstore) (next change : Z) (params : bytes) : sstore :=
  mkStore (ss_vals s)
          (upd (ss_params s) next (Some (mkPI change (if change =? next then Some params else None))))
          (ss_state s) (ss_seen s).

Definition set_sstate (s : sstore) (st : sstate) : sstore :=
  mkStore (ss_vals s) (ss_params s) (Some st) (ss_seen s).

(* dbStore.Bootstrap *)
Definition store_bootstrap (s : sstore) (st : sstate) : option sstore :=
  let height := if st_last_height st + 1 =? 1 then st_initial st else st_last_height st + 1 in
  obind (if 1 <? height then save_vinfo s (height - 1) (height - 1) (st_lastvals st) else Some s) (fun s1 =>
  obind (save_vinfo s1 height height (st_vals st)) (fun s2 =>
  obind (save_vinfo s2 (height + 1) (height + 1) (st_nextvals st)) (fun s3 =>
  Some (set_sstate (save_pinfo s3 height (st_lhcpc st) (st_params st)) st)))).

(* dbStore.Save *)
Definition store_save (s : sstore) (st : sstate) : option sstore :=
  let first := st_last_height st + 1 =? 1 in
  let next := if first then st_initial st else st_last_height st + 1 in
  obind (if first then save_vinfo s next next (st_vals st) else Some s) (fun s1 =>
  obind (save_vinfo s1 (next + 1) (st_lhvc st) (st_nextvals st)) (fun s2 =>
  Some (set_sstate (save_pinfo s2 next (st_lhcpc st) (st_params st)) st))).

(* BlockStore.SaveSeenCommit *)
Definition save_seen (s : sstore) (height : Z) (cm : commit) : sstore :=
  mkStore (ss_vals s) (ss_params s) (ss_state s) (upd (ss_seen s) height (Some cm)).

(* the two statements of startStateSync after a successful Sync *)
Definition node_bootstrap (s : sstore) (st : sstate) (cm : commit) : option sstore :=
  obind (store_bootstrap s st) (fun s' => Some (save_seen s' (st_last_height st) cm)).

(* LoadValidators: None = error *)
Definition load_validators (s : sstore) (height : Z) : option bytes :=
  match ss_vals s height with
  | None => None
  | Some vi =>
    match vi_set vi with
    | Some set => Some set
    | None =>
      let stored := Z.max (height - height mod valset_checkpoint_interval) (vi_lhc vi) in
      match ss_vals s stored with
      | Some vi2 => vi_set vi2
      | None => None
      end
    end
  end.

(* LoadConsensusParams: None = error, Some None = the empty params without an error (a pointer
   record whose target holds no params) *)
Definition load_params (s : sstore) (height : Z) : option (option bytes) :=
  match ss_params s height with
  | None => None
  | Some pi =>
    match pi_params pi with
    | Some p => Some (Some p)
    | None => match ss_params s (pi_lhc pi) with
              | Some pi2 => Some (pi_params pi2)
              | None => None
              end
    end
  end.

(* what a node can read back from its stores *)
Record lookups := mkLk {
  lk_vals : Z -> option bytes;             (* LoadValidators *)
  lk_params : Z -> option (option bytes);  (* LoadConsensusParams *)
  lk_state : option sstate;                (* Load *)
  lk_seen : Z -> option commit }.          (* LoadSeenCommit *)

Definition store_lookups (s : sstore) : lookups :=
  mkLk (load_validators s) (load_params s) (ss_state s) (ss_seen s).

(* the state saved last: the last of [succs], [st] if there is none *)
Definition last_of (st : sstate) (succs : list sstate) : sstate := fold_left (fun _ t => t) succs st.

Fixpoint save_all (s : sstore) (succs : list sstate) : option sstore :=
  match succs with
  | [] => Some s
  | t :: r => obind (store_save s t) (fun s' => save_all s' r)
  end.

(* ------------------------------------------------------------------ syncer.go *)

(* calls the application receives *)
Inductive call :=
| COffer (s : snapshot) (apphash : bytes)
| CApply (i : Z) (b : bytes) (sender : peer)
| CInfo.

(* result of SyncAny: 0 ok; otherwise an error class *)
Inductive outcome :=
| OOk (st : sstate) (cm : commit)
| OAbort              (* errAbort *)
| ONoSnapshots        (* errNoSnapshots *)
| OErr (code : Z).    (* 1 chunk queue creation failed, 2 light.ErrNoWitnesses, 3 unknown
                         OfferSnapshot result, 4 unknown ApplySnapshotChunk result, 5 app version
                         mismatch, 6 errVerifyFailed (hash), 7 errVerifyFailed (height),
                         8 nil chunk dereference (panic), 99 model fuel exhausted *)

Inductive mode :=
| MIdle                                                         (* SyncAny not called yet *)
| MSleep                                                        (* discovery sleep *)
| MOffer (s : snapshot) (ah : bytes)                            (* in OfferSnapshotSync *)
| MApply (s : snapshot) (ah : bytes) (st : sstate) (cm : commit) (i : Z)   (* in ApplySnapshotChunkSync *)
| MWait (s : snapshot) (ah : bytes) (st : sstate) (cm : commit) (i : Z)    (* Next blocked on i *)
| MInfo (s : snapshot) (ah : bytes) (st : sstate) (cm : commit) (* in InfoSync *)
| MDone (o : outcome).

Record syncer := mkS {
  s_pool : pool;
  s_cur : option (snapshot * cqueue);  (* SyncAny's locals snapshot / chunks *)
  s_insync : bool;                     (* s.chunks != nil: between entry and exit of Sync *)
  s_mode : mode;
  s_journal : list call;               (* newest first *)
  s_qlog : list (Z * bytes * peer);    (* ghost: chunks the current queue has handed over *)
  s_ties : list key }.                 (* ghost: how Best() breaks ties, one entry per call *)

Definition set_pool g v := mkS v (s_cur g) (s_insync g) (s_mode g) (s_journal g) (s_qlog g) (s_ties g).
Definition set_cur g v := mkS (s_pool g) v (s_insync g) (s_mode g) (s_journal g) (s_qlog g) (s_ties g).
Definition set_insync g v := mkS (s_pool g) (s_cur g) v (s_mode g) (s_journal g) (s_qlog g) (s_ties g).
Definition set_mode g v := mkS (s_pool g) (s_cur g) (s_insync g) v (s_journal g) (s_qlog g) (s_ties g).
Definition set_journal g v := mkS (s_pool g) (s_cur g) (s_insync g) (s_mode g) v (s_qlog g) (s_ties g).
Definition set_qlog g v := mkS (s_pool g) (s_cur g) (s_insync g) (s_mode g) (s_journal g) v (s_ties g).
Definition set_ties g v := mkS (s_pool g) (s_cur g) (s_insync g) (s_mode g) (s_journal g) (s_qlog g) v.

Definition set_q (g : syncer) (q : cqueue) : syncer :=
  match s_cur g with Some (s, _) => set_cur g (Some (s, q)) | None => g end.

(* SyncAny returns: deferred chunks.Close(), Sync's deferred s.chunks = nil *)
Definition finish (g : syncer) (o : outcome) : syncer :=
  let g1 := match s_cur g with Some (s, q) => set_cur g (Some (s, q_close q)) | None => g end in
  set_mode (set_insync g1 false) (MDone o).

(* errors Sync hands back to the loop of SyncAny *)
Inductive sync_err := ERetrySnapshot | ETimeout | ERejectSnapshot | ERejectFormat | ERejectSender.

(* a piece of Sync: the syncer afterwards, and None = reached a yield point (or SyncAny
   returned), Some e = Sync returned error e to the loop of SyncAny *)
Definition sres := (syncer * option sync_err)%type.

(* applyChunks from the result of Next on *)
Definition deliver (g : syncer) (s : snapshot) ah st cm (q : cqueue) (r : next_res) : sres :=
  let g := set_q g q in
  match r with
  | NDone => (set_mode (set_journal g (CInfo :: s_journal g)) (MInfo s ah st cm), None)
  | NWait i => (set_mode g (MWait s ah st cm i), None)
  | NChunk i b sd =>
    (set_mode (set_qlog (set_journal g (CApply i b sd :: s_journal g)) ((i, b, sd) :: s_qlog g))
              (MApply s ah st cm i), None)
  | NNil => (finish g (OErr 8), None)
  end.

Definition apply_next (g : syncer) (s : snapshot) ah st cm : sres :=
  match s_cur g with
  | Some (_, q) => let '(q', r) := q_next q in deliver g s ah st cm q' r
  | None => (finish g (OErr 99), None)
  end.

(* the part of Sync before the first yield: install the queue, fetch the app hash, offer *)
Definition sync_begin (pv : provider) (g : syncer) (s : snapshot) : sres :=
  let g := set_insync g true in
  match pv_apphash pv (sn_height s) with
  | RNoWitnesses => (finish g (OErr 2), None)
  | RFail => (g, Some ERejectSnapshot)
  | ROk ah => (set_mode (set_journal g (COffer s ah :: s_journal g)) (MOffer s ah), None)
  end.

(* the switch of SyncAny on the error of Sync, then "Discard snapshot and chunks" *)
Definition handle_err (g : syncer) (s : snapshot) (e : sync_err) : syncer :=
  let g := set_insync g false in
  match e with
  | ERetrySnapshot =>
    match s_cur g with Some (s', q) => set_cur g (Some (s', q_retry_all q)) | None => g end
  | _ =>
    let p := s_pool g in
    let p' := match e with
              | ETimeout | ERejectSnapshot => pool_reject p s
              | ERejectFormat => pool_reject_format p (sn_format s)
              | _ => fold_left pool_reject_peer (pool_get_peers p s) p
              end in
    set_cur (set_pool g p') None
  end.

(* the loop of SyncAny from its head to the next yield point.  Every pass that comes back
   without yielding has rejected a snapshot of the pool, so [fuel] = pool size + 2 suffices. *)
Fixpoint loop (pv : provider) (discovery : bool) (fuel : nat) (g : syncer) : syncer :=
  match fuel with
  | O => finish g (OErr 99)
  | S fuel' =>
    let run g s :=
      match sync_begin pv g s with
      | (g', None) => g'
      | (g', Some e) => loop pv discovery fuel' (handle_err g' s e)
      end in
    match s_cur g with
    | Some (s, _) => run g s                     (* retry of the same snapshot and queue *)
    | None =>
      let '(best, ties') := pool_best (s_pool g) (s_ties g) in
      let g := set_ties g ties' in
      match best with
      | None => if discovery then set_mode g MSleep else finish g ONoSnapshots
      | Some s =>
        match new_queue s with
        | None => finish g (OErr 1)
        | Some q => run (set_qlog (set_cur g (Some (s, q))) []) s
        end
      end
    end
  end.

Definition loop_fuel (g : syncer) : nat := S (S (List.length (p_snaps (s_pool g)))).

Definition continue (pv : provider) (discovery : bool) (r : sres) (s : snapshot) : syncer :=
  match r with
  | (g', None) => g'
  | (g', Some e) => let g'' := handle_err g' s e in loop pv discovery (loop_fuel g'') g''
  end.

(* events *)
Inductive event :=
| EStart                                                    (* SyncAny is called *)
| ETick                                                     (* discovery sleep over *)
| EAddSnapshot (pr : peer) (s : snapshot)                   (* reactor: SnapshotsResponse *)
| ERemovePeer (pr : peer)                                   (* reactor: RemovePeer *)
| EAddChunk (pr : peer) (h f idx : Z) (body : option bytes) (* reactor: ChunkResponse *)
| EOfferReply (r : Z)            (* 1 ACCEPT 2 ABORT 3 REJECT 4 REJECT_FORMAT 5 REJECT_SENDER, other: unknown *)
| EApplyReply (r : Z) (refetch : list Z) (rejects : list peer)
                                 (* 1 ACCEPT 2 ABORT 3 RETRY 4 RETRY_SNAPSHOT 5 REJECT_SNAPSHOT *)
| EInfoReply (appv : Z) (hash : bytes) (height : Z)
| EChunkTimeout.                                            (* time.After(chunkTimeout) in Next *)

(* syncer.AddChunk (with the F20 repair) *)
Definition add_chunk (g : syncer) (pr : peer) (h f idx : Z) (body : option bytes) : syncer * add_res :=
  if negb (s_insync g) then (g, AddErr)
  else match s_cur g with
       | None => (g, AddErr)
       | Some (s, q) =>
         if pool_peer_rejected (s_pool g) pr then (g, AddFalse)
         else let '(q', r) := q_add q h f idx body pr in (set_cur g (Some (s, q')), r)
       end.

(* the rest of Sync after the application accepted the offer *)
Definition after_offer (pv : provider) (g : syncer) (s : snapshot) (ah : bytes) : sres :=
  match pv_state pv (sn_height s) with
  | RNoWitnesses => (finish g (OErr 2), None)
  | RFail => (g, Some ERejectSnapshot)
  | ROk st =>
    match pv_commit pv (sn_height s) with
    | RNoWitnesses => (finish g (OErr 2), None)
    | RFail => (g, Some ERejectSnapshot)
    | ROk cm => apply_next g s ah st cm
    end
  end.

(* applyChunks: the RejectSenders loop *)
Definition reject_senders (p : pool) (q : cqueue) (rejects : list peer) : pool * cqueue :=
  fold_left (fun (pq : pool * cqueue) sd =>
               if (sd =? 0)%N then pq
               else (pool_reject_peer (fst pq) sd, q_discard_sender (snd pq) sd))
            rejects (p, q).

(* applyChunks after the application answered *)
Definition after_apply (g : syncer) (s : snapshot) ah st cm (i r : Z) (refetch : list Z) (rejects : list peer)
  : sres :=
  match s_cur g with
  | None => (finish g (OErr 99), None)
  | Some (_, q) =>
    let q1 := fold_left q_discard refetch q in
    let '(p2, q2) := reject_senders (s_pool g) q1 rejects in
    let g := set_q (set_pool g p2) q2 in
    if r =? 1 then apply_next g s ah st cm
    else if r =? 2 then (finish g OAbort, None)
    else if r =? 3 then apply_next (set_q g (q_retry q2 i)) s ah st cm
    else if r =? 4 then (g, Some ERetrySnapshot)
    else if r =? 5 then (g, Some ERejectSnapshot)
    else (finish g (OErr 4), None)
  end.

(* verifyApp: None = verified, Some c = error class *)
Definition verify_app (s : snapshot) (ah : bytes) (st : sstate) (appv : Z) (hash : bytes) (height : Z) : option Z :=
  if negb (appv =? st_vapp st) then Some 5
  else if negb (bytes_eqb ah hash) then Some 6
  else if negb (u64 height =? sn_height s) then Some 7
  else None.

Definition add_code (r : add_res) : Z := match r with AddErr => 2 | AddFalse => 0 | AddTrue => 1 end.

(* one event; the Z is the result of the call the event stands for: AddSnapshot/AddChunk
   0 = false, 1 = true, 2 = error; other events 0 *)
Definition step (pv : provider) (discovery : bool) (g : syncer) (e : event) : syncer * Z :=
  match e, s_mode g with
  | EAddSnapshot pr s, _ =>
    let '(p', b) := pool_add (s_pool g) pr s in (set_pool g p', if b then 1 else 0)
  | ERemovePeer pr, _ => (set_pool g (remove_peer (s_pool g) pr), 0)
  | EAddChunk pr h f idx body, m =>
    let '(g', r) := add_chunk g pr h f idx body in
    match r, m with
    | AddTrue, MWait s ah st cm i =>
      if idx =? i
      then match s_cur g' with
           | Some (_, q) => let '(q', nr) := q_wake q i in
                            (continue pv discovery (deliver g' s ah st cm q' nr) s, add_code r)
           | None => (g', add_code r)
           end
      else (g', add_code r)
    | _, _ => (g', add_code r)
    end
  | EStart, MIdle => (loop pv discovery (loop_fuel g) g, 0)
  | ETick, MSleep => (loop pv discovery (loop_fuel g) g, 0)
  | EOfferReply r, MOffer s ah =>
    if r =? 1 then (continue pv discovery (after_offer pv g s ah) s, 0)
    else if r =? 2 then (finish g OAbort, 0)
    else if r =? 3 then (continue pv discovery (g, Some ERejectSnapshot) s, 0)
    else if r =? 4 then (continue pv discovery (g, Some ERejectFormat) s, 0)
    else if r =? 5 then (continue pv discovery (g, Some ERejectSender) s, 0)
    else (finish g (OErr 3), 0)
  | EApplyReply r refetch rejects, MApply s ah st cm i =>
    (continue pv discovery (after_apply g s ah st cm i r refetch rejects) s, 0)
  | EInfoReply appv hash height, MInfo s ah st cm =>
    match verify_app s ah st appv hash height with
    | Some c => (finish g (OErr c), 0)
    | None => (finish g (OOk st cm), 0)
    end
  | EChunkTimeout, MWait s ah st cm i => (continue pv discovery (g, Some ETimeout) s, 0)
  | _, _ => (g, 0)
  end.

Definition init_syncer (ties : list key) : syncer :=
  mkS new_pool None false MIdle [] [] ties.

(* a whole history: final state and the result codes of the events, in order *)
Fixpoint run (pv : provider) (discovery : bool) (g : syncer) (evs : list event) : syncer * list Z :=
  match evs with
  | [] => (g, [])
  | e :: r => let '(g', c) := step pv discovery g e in
              let '(g'', cs) := run pv discovery g' r in (g'', c :: cs)
  end.

Definition run_state (pv : provider) (discovery : bool) (g : syncer) (evs : list event) : syncer :=
  fold_left (fun g e => fst (step pv discovery g e)) evs g.
