(* C15 — model of the consensus write-ahead log:
     consensus/wal.go      WALEncoder.Encode, WALDecoder.Decode, SearchForEndHeight,
                           Write / WriteSync / FlushAndSync, BaseWAL.OnStart
     libs/autofile/group.go  buffered head (bufio.Writer of 4096*10 bytes), RotateFile,
                           checkHeadSizeLimit, checkTotalSizeLimit, readGroupInfo, GroupReader
     consensus/state.go    OnStart catch-up loop, repairWalFile
     consensus/replay.go   catchupReplay (the search / decode part; the replay of the decoded
                           messages into the consensus state machine is C02's model)
   Transcribed by hand; tied to /repo by Generated/Consts.v (maxMsgSizeBytes, maxFilesToRemove)
   and by the correspondence run (harness/overlay/consensus, harness/overlay/libs/autofile),
   which compares every file byte-for-byte.  No proofs in this file.

   The payload of a record is the opaque protobuf encoding of a TimedWALMessage.  What the
   decoder does with it after the checksum test is represented by two functions of the bytes:
     valid d  = proto.Unmarshal and WALFromProto succeed
     eh_of d  = Some h when the message is EndHeightMessage{h}
   The checksum is a function [crc] returning the four bytes written in front of the record. *)
From Coq Require Import List ZArith NArith Bool.
From TM Require Import Common.Hex Generated.Consts.
Import ListNotations.
Open Scope Z_scope.

Definition len (b : bytes) : Z := Z.of_nat (length b).

(* binary.BigEndian.PutUint32 / Uint32 *)
Definition be32 (n : N) : bytes :=
  [ (n / 16777216) mod 256; (n / 65536) mod 256; (n / 256) mod 256; n mod 256 ]%N.
Definition rd32 (b : bytes) : N := fold_left (fun a x => a * 256 + x)%N b 0%N.

(* bufio.NewWriterSize(head, 4096*10) in OpenGroup (an expression, not a named constant) *)
Definition buf_cap : Z := 40960.

Section WAL.
Variable crc : bytes -> bytes.
Variable valid : bytes -> bool.
Variable eh_of : bytes -> option Z.
(* [fx] = true: WALDecoder.Decode with the F8 repair (a non-empty short read of the checksum
   field is a DataCorruptionError); false: the code before the repair (clean io.EOF). *)
Variable fx : bool.

(* ---------------------------------------------------------------- WALEncoder.Encode *)
Definition frame (d : bytes) : bytes := crc d ++ be32 (N.of_nat (length d)) ++ d.
(* None = "msg is too big" (nothing is written) *)
Definition encode (d : bytes) : option bytes :=
  if wal_max_msg_size_bytes <? len d then None else Some (frame d).

(* ---------------------------------------------------------------- the two io.Readers
   RGroup: GroupReader.Read — fills the slice across file boundaries; at the end of the group it
           returns (n, io.EOF) with n < len(p), possibly n > 0; an empty slice is an error.
   RPlain: os.File.Read (used by repairWalFile) — returns what is left with a nil error, and
           (0, io.EOF) only when nothing is left; an empty slice reads (0, nil).
   The result is the caller's buffer (zero-initialised by make, so zero-padded after a short
   read), the number of bytes read, the remaining stream and the error class. *)
Inductive rkind := RGroup | RPlain.
Inductive rerr := RNil | REof | RErr.

Definition pad (k : nat) (got : bytes) : bytes := got ++ repeat 0%N (k - length got).

Definition read (kd : rkind) (s : bytes) (k : nat) : bytes * nat * bytes * rerr :=
  let got := firstn k s in
  let n := length got in
  match kd with
  | RGroup =>
    if Nat.eqb k 0 then ([], O, s, RErr)
    else (pad k got, n, skipn k s, if Nat.ltb n k then REof else RNil)
  | RPlain =>
    if Nat.eqb k 0 then ([], O, s, RNil)
    else match s with
         | [] => (pad k [], O, [], REof)
         | _ => (pad k got, n, skipn k s, RNil)
         end
  end.

(* ---------------------------------------------------------------- WALDecoder.Decode
   DCorrupt carries the position of the reader after the failed call (SearchForEndHeight with
   IgnoreDataCorruptionErrors continues from there). *)
Inductive dres := DRec (d : bytes) (rest : bytes) | DEof | DCorrupt (rest : bytes).

Definition decode1 (kd : rkind) (s : bytes) : dres :=
  let '(b, n, s1, e) := read kd s 4 in
  match e with
  | REof => if fx && Nat.ltb 0 n then DCorrupt s1 else DEof
  | RErr => DCorrupt s1
  | RNil =>
    let '(b2, _, s2, e2) := read kd s1 4 in
    match e2 with
    | RNil =>
      let l := rd32 b2 in
      if wal_max_msg_size_bytes <? Z.of_N l then DCorrupt s2
      else
        let '(d, _, s3, e3) := read kd s2 (N.to_nat l) in
        match e3 with
        | RNil => if bytes_eqb (crc d) b
                  then (if valid d then DRec d s3 else DCorrupt s3)
                  else DCorrupt s3
        | _ => DCorrupt s3
        end
    | _ => DCorrupt s2
    end
  end.

(* decode until the first error, as catchupReplay and repairWalFile do *)
Inductive term := TEof | TCorrupt.
Fixpoint decode_all_f (fuel : nat) (kd : rkind) (s : bytes) : list bytes * term :=
  match fuel with
  | O => ([], TCorrupt)
  | S f =>
    match decode1 kd s with
    | DEof => ([], TEof)
    | DCorrupt _ => ([], TCorrupt)
    | DRec d rest => let '(l, t) := decode_all_f f kd rest in (d :: l, t)
    end
  end.
Definition decode_all (kd : rkind) (s : bytes) : list bytes * term :=
  decode_all_f (S (length s)) kd s.

(* ---------------------------------------------------------------- SearchForEndHeight
   inner loop over one GroupReader; [last] = lastHeightFound *)
Inductive scan_res := SFound (rest : bytes) | SEof (last : Z) | SErr.
Fixpoint scan_f (fuel : nat) (ignore : bool) (h last : Z) (s : bytes) : scan_res :=
  match fuel with
  | O => SErr
  | S f =>
    match decode1 RGroup s with
    | DEof => SEof last
    | DCorrupt rest => if ignore then scan_f f ignore h last rest else SErr
    | DRec d rest =>
      match eh_of d with
      | Some m => if m =? h then SFound rest else scan_f f ignore h m rest
      | None => scan_f f ignore h last rest
      end
    end
  end.
Definition scan (ignore : bool) (h last : Z) (s : bytes) : scan_res :=
  scan_f (S (length s)) ignore h last s.

(* ---------------------------------------------------------------- the group
   On disk: the indexed files (contiguous indices gmax - length files .. gmax - 1, oldest
   first), the head file, and the size of the other directory entries whose name starts with
   the head's name (the .CORRUPTED backup left by OnStart; readGroupInfo counts it).
   In memory: the bufio buffer in front of the head, minIndex (set by OpenGroup only) and
   maxIndex (set by OpenGroup from the directory: highest number + 1, of any number of digits;
   incremented by RotateFile).  [synced] = length of the prefix of the head known to be on stable storage. *)
Record st := {
  files : list bytes;
  head : bytes;
  synced : Z;
  buf : bytes;
  gmin : Z;
  gmax : Z;
  junk : Z;
  head_limit : Z;
  total_limit : Z
}.

Definition set_disk (s : st) (fs : list bytes) (h : bytes) (sy : Z) (b : bytes) : st :=
  {| files := fs; head := h; synced := sy; buf := b; gmin := gmin s; gmax := gmax s;
     junk := junk s; head_limit := head_limit s; total_limit := total_limit s |}.

Definition init (hl tl : Z) : st :=
  {| files := []; head := []; synced := 0; buf := []; gmin := 0; gmax := 0; junk := 0;
     head_limit := hl; total_limit := tl |}.

(* A directory that already holds rolled files <head>.<base>, <head>.<base+1>, ... (a node that
   has been running for a while) and no head file.  File indices are data: the indexed files
   are numbered gmax - length files .. gmax - 1 whatever their magnitude (filePathForIndex
   prints at least three digits, readGroupInfo reads three OR MORE), and nothing below assumes
   that the first file is number 0.  [pre] = the records of each file, oldest file first. *)
Definition init_at (hl tl base : Z) (pre : list (list bytes)) : st :=
  {| files := map (fun rs => concat (map frame rs)) pre; head := []; synced := 0; buf := [];
     gmin := base; gmax := base + Z.of_nat (length pre); junk := 0;
     head_limit := hl; total_limit := tl |}.

(* the numbers of the indexed files in the directory *)
Definition disk_indices (s : st) : list Z :=
  map (fun k => gmax s - Z.of_nat (length (files s)) + Z.of_nat k) (seq 0 (length (files s))).

(* bufio.Writer.Write on top of the head file *)
Definition buf_write (h b p : bytes) : bytes * bytes :=
  if len p <=? buf_cap - len b then (h, b ++ p)
  else match b with
       | [] => (h ++ p, [])
       | _ => let n := Z.to_nat (buf_cap - len b) in
              let h1 := h ++ b ++ firstn n p in
              let p1 := skipn n p in
              if len p1 <=? buf_cap then (h1, p1) else (h1 ++ p1, [])
       end.

(* BaseWAL.Write; false = error returned, nothing written *)
Definition write (s : st) (d : bytes) : st * bool :=
  match encode d with
  | None => (s, false)
  | Some fr => let '(h, b) := buf_write (head s) (buf s) fr in
               (set_disk s (files s) h (synced s) b, true)
  end.

(* Group.FlushAndSync *)
Definition flush_sync (s : st) : st :=
  let h := head s ++ buf s in set_disk s (files s) h (len h) [].

(* BaseWAL.WriteSync *)
Definition write_sync (s : st) (d : bytes) : st * bool :=
  let '(s1, ok) := write s d in if ok then (flush_sync s1, true) else (s1, false).

(* Group.RotateFile *)
Definition rotate (s : st) : st :=
  let h := head s ++ buf s in
  {| files := files s ++ [h]; head := []; synced := 0; buf := []; gmin := gmin s;
     gmax := gmax s + 1; junk := junk s; head_limit := head_limit s;
     total_limit := total_limit s |}.

(* Group.checkHeadSizeLimit: the size is the one of the file (buffered bytes not counted) *)
Definition check_head (s : st) : st :=
  if head_limit s =? 0 then s
  else if head_limit s <=? len (head s) then rotate s else s.

(* Group.checkTotalSizeLimit: at most maxFilesToRemove oldest indexed files, never the head.
   (The os.Stat failure branch needs a hole in the index range, which the operations here
   never produce.) *)
Fixpoint prune_f (n : nat) (total limit : Z) (fs : list bytes) : list bytes :=
  match n with
  | O => fs
  | S n' =>
    if total <? limit then fs
    else match fs with
         | [] => []
         | f :: r => prune_f n' (total - len f) limit r
         end
  end.
Definition total_size (s : st) : Z :=
  fold_right (fun f a => len f + a) 0 (files s) + len (head s) + junk s.
Definition check_total (s : st) : st :=
  if total_limit s =? 0 then s
  else set_disk s (prune_f (Z.to_nat autofile_max_files_to_remove) (total_size s)
                           (total_limit s) (files s))
                (head s) (synced s) (buf s).

(* readGroupInfo, as used by OpenGroup: (minIndex, maxIndex) from the directory *)
Definition disk_min (s : st) : Z :=
  match files s with [] => 0 | _ => gmax s - Z.of_nat (length (files s)) end.
Definition disk_max (s : st) : Z :=
  match files s with [] => 0 | _ => gmax s end.

(* GroupReader positioned at file [idx]: openFile uses O_CREATE, so reading at an index whose
   file was removed re-creates it empty, and so does crossing over one. *)
Definition ensure (s : st) (idx : Z) : st :=
  let base := gmax s - Z.of_nat (length (files s)) in
  if idx <? base
  then set_disk s (repeat [] (Z.to_nat (base - idx)) ++ files s) (head s) (synced s) (buf s)
  else s.
Definition stream (s : st) (idx : Z) : bytes :=
  let base := gmax s - Z.of_nat (length (files s)) in
  concat (skipn (Z.to_nat (idx - base)) (files s)) ++ head s.

Inductive sres := Found (rest : bytes) | NotFound | SearchErr.
Fixpoint search_loop (n : nat) (idx : Z) (ignore : bool) (h last : Z) (s : st) : sres * st :=
  match n with
  | O => (NotFound, s)
  | S n' =>
    let s' := ensure s idx in
    match scan ignore h last (stream s' idx) with
    | SFound rest => (Found rest, s')
    | SErr => (SearchErr, s')
    | SEof last' =>
      if (0 <? last') && (last' <? h) then (NotFound, s')
      else search_loop n' (idx - 1) ignore h last' s'
    end
  end.
Definition search (s : st) (h : Z) (ignore : bool) : sres * st :=
  search_loop (Z.to_nat (gmax s - gmin s + 1)) (gmax s) ignore h (-1) s.

(* ---------------------------------------------------------------- crash, restart
   Crash: the head keeps its synced prefix and [keep] bytes of what was written after it
   (buffered or handed to the OS, the model does not distinguish: every prefix is allowed).
   keep >= the unsynced length is a clean stop. *)
Definition crash (s : st) (keep : Z) : st :=
  let all := head s ++ buf s in
  let h := firstn (Z.to_nat (Z.min (synced s + Z.max 0 keep) (len all))) all in
  set_disk s (files s) h (len h) [].

(* OpenGroup (minIndex/maxIndex from the directory) + BaseWAL.OnStart (an empty head gets
   EndHeightMessage{0}; [d0] is its encoding, which contains the wall-clock time) *)
Definition open_wal (s : st) (d0 : bytes) : st :=
  let s1 := {| files := files s; head := head s; synced := synced s; buf := [];
               gmin := disk_min s; gmax := disk_max s; junk := junk s;
               head_limit := head_limit s; total_limit := total_limit s |} in
  match head s1 with
  | [] => fst (write_sync s1 d0)
  | _ => s1
  end.

(* catchupReplay(H), the part that touches the WAL.
   CNoReplay: a non-corruption error ("wal should not contain #ENDHEIGHT H", "cannot replay
   height H. WAL does not contain #ENDHEIGHT for H-1", or a search error) — OnStart logs it and
   starts anyway.  COk: the records after the marker H-1, decoded up to a clean EOF.
   CCorrupt: DataCorruptionError while decoding them. *)
Inductive cres := COk (recs : list bytes) | CNoReplay | CCorrupt.
Definition catchup (s : st) (h : Z) : cres * st :=
  let '(r1, s1) := search s h true in
  match r1 with
  | SearchErr => (CNoReplay, s1)
  | Found _ => (CNoReplay, s1)
  | NotFound =>
    if h <? 1 then (CNoReplay, s1)   (* below the initial height (1 in the harness) *)
    else
    let '(r2, s2) := search s1 (h - 1) true in
    match r2 with
    | Found rest =>
      match decode_all RGroup rest with
      | (l, TEof) => (COk l, s2)
      | (_, TCorrupt) => (CCorrupt, s2)
      end
    | _ => (CNoReplay, s2)
    end
  end.

(* repairWalFile on the head file (plain file reader), preceded by the backup copy *)
Definition repair (s : st) : st :=
  let recs := fst (decode_all RPlain (head s)) in
  let h := concat (map frame recs) in
  {| files := files s; head := h; synced := len h; buf := []; gmin := gmin s; gmax := gmax s;
     junk := len (head s); head_limit := head_limit s; total_limit := total_limit s |}.

(* State.OnStart: status 0 = catch-up replay ran to the end; 1 = started without replay
   (logged error); 2 = start failed (corruption again after the repair); 3 = doWALCatchup was
   false (the consensus reactor clears it when blocks were synced before consensus starts). *)
Definition restart (s : st) (keep h : Z) (cu : bool) (d0a d0b : bytes)
  : st * (N * bool * list bytes) :=
  let s0 := open_wal (crash s keep) d0a in
  if negb cu then (s0, (3%N, false, [])) else
  let '(c, s1) := catchup s0 h in
  match c with
  | COk l => (s1, (0%N, false, l))
  | CNoReplay => (s1, (1%N, false, []))
  | CCorrupt =>
    let s2 := open_wal (repair (flush_sync s1)) d0b in
    let '(c2, s3) := catchup s2 h in
    match c2 with
    | COk l => (s3, (0%N, true, l))
    | CNoReplay => (s3, (1%N, true, []))
    | CCorrupt => (s3, (2%N, true, []))
    end
  end.

(* single-byte damage on disk: file [idx] (gmax = the head), offset, xor mask *)
Fixpoint xor_at (l : bytes) (off : nat) (x : N) : bytes :=
  match l, off with
  | [], _ => []
  | b :: r, O => N.lxor b x :: r
  | b :: r, S o => b :: xor_at r o x
  end.
Fixpoint map_nth {A} (f : A -> A) (n : nat) (l : list A) : list A :=
  match l, n with
  | [], _ => []
  | a :: r, O => f a :: r
  | a :: r, S n' => a :: map_nth f n' r
  end.
Definition flip (s : st) (idx off : Z) (x : N) : st :=
  let base := gmax s - Z.of_nat (length (files s)) in
  if idx =? gmax s
  then set_disk s (files s) (xor_at (head s) (Z.to_nat off) x) (synced s) (buf s)
  else set_disk s (map_nth (fun f => xor_at f (Z.to_nat off) x) (Z.to_nat (idx - base)) (files s))
                (head s) (synced s) (buf s).

(* all records a reader opened at the oldest file on disk returns *)
Definition read_all (s : st) : list bytes * term :=
  decode_all RGroup (concat (files s) ++ head s).

(* ---------------------------------------------------------------- operations *)
Inductive op :=
| OWrite (d : bytes)
| OWriteSync (d : bytes)
| OFlush
| ORotate
| OCheckHead
| OCheckTotal
| ORestart (keep h : Z) (cu : bool) (d0a d0b : bytes)
| OFlip (idx off : Z) (x : N)
| OSearch (h : Z) (ignore : bool)
| ORead (idx : Z).

Inductive ans :=
| AAck (ok : bool)
| ANone
| ARestart (status : N) (repaired : bool) (replayed : list bytes) (all : list bytes) (t : term)
| ASearch (res : N) (after : list bytes) (t : term)      (* 0 not found, 1 found, 2 error *)
| ARead (recs : list bytes) (t : term).

Definition step (s : st) (o : op) : st * ans :=
  match o with
  | OWrite d => let '(s', ok) := write s d in (s', AAck ok)
  | OWriteSync d => let '(s', ok) := write_sync s d in (s', AAck ok)
  | OFlush => (flush_sync s, AAck true)
  | ORotate => (rotate s, ANone)
  | OCheckHead => (check_head s, ANone)
  | OCheckTotal => (check_total s, ANone)
  | ORestart keep h cu d0a d0b =>
    let '(s', (status, rep, l)) := restart s keep h cu d0a d0b in
    let '(all, t) := read_all s' in
    (s', ARestart status rep l all t)
  | OFlip idx off x => (flip s idx off x, ANone)
  | OSearch h ignore =>
    let '(r, s') := search s h ignore in
    match r with
    | Found rest => let '(l, t) := decode_all RGroup rest in (s', ASearch 1 l t)
    | NotFound => (s', ASearch 0 [] TEof)
    | SearchErr => (s', ASearch 2 [] TEof)
    end
  | ORead idx =>
    let s' := ensure s idx in
    let '(l, t) := decode_all RGroup (stream s' idx) in (s', ARead l t)
  end.

Fixpoint run (s : st) (ops : list op) : st * list ans :=
  match ops with
  | [] => (s, [])
  | o :: r => let '(s1, a) := step s o in
              let '(s2, l) := run s1 r in (s2, a :: l)
  end.

End WAL.
