(* C15 — State.OnStart when consensus is started on a SYNCED state (finding F88).

   consensus/reactor.go SwitchToConsensus(state, skipWAL = true) sets doWALCatchup = false and
   starts the state machine at height H+1, H = state.LastBlockHeight: the blocks up to H came
   from block sync or state sync, so this node never ran finalizeCommit(H) — the only place that
   writes #ENDHEIGHT H.  The code before the repair starts writing the records of height H+1
   into a WAL without that marker; after a crash inside H+1, catchupReplay(H+1) does not find
   #ENDHEIGHT H ("cannot replay height"), OnStart proceeds anyway and nothing is replayed.

   After the repair (fixes/F88-endheight-marker-on-synced-start.diff), State.OnStart with
   doWALCatchup = false calls markSyncedHeight(H): for H > 0, unless SearchForEndHeight(H,
   IgnoreDataCorruptionErrors) finds the marker, WriteSync(EndHeightMessage{H}) — before the
   first record of the new height.  [dH] is the encoding of that message (it carries the wall
   clock time).  [fixd] = false: the code before the repair.  No proofs in this file. *)
From Coq Require Import List ZArith NArith Bool.
From TM Require Import Common.Hex Generated.Consts C15.Model.
Import ListNotations.
Open Scope Z_scope.

Section Sync.
Variable crc : bytes -> bytes.
Variable valid : bytes -> bool.
Variable eh_of : bytes -> option Z.
Variable fx : bool.

(* State.markSyncedHeight on an open WAL *)
Definition mark_synced (fixd : bool) (s : st) (H : Z) (dH : bytes) : st :=
  if fixd && (0 <? H) then
    let '(r, s1) := search crc valid eh_of fx s H true in
    match r with
    | NotFound => fst (write_sync crc s1 dH)
    | _ => s1
    end
  else s.

(* the start on a synced state: crash of the previous incarnation (keep), OpenGroup +
   BaseWAL.OnStart ([d0]: #ENDHEIGHT 0 into an empty head), no catch-up, the marker *)
Definition start_synced (fixd : bool) (s : st) (keep H : Z) (d0 dH : bytes) : st :=
  mark_synced fixd (open_wal crc (crash s keep) d0) H dH.

End Sync.
