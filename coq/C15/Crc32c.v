(* Executable CRC-32C (Castagnoli, reflected polynomial 0x82F63B78) over [bytes], used ONLY to
   run the WAL model next to the implementation (the theorems are parametric in the checksum
   function).  Primitive 63-bit integers, bitwise.  Its agreement with Go's hash/crc32 is not
   trusted: every correspondence case compares the frames written by the real encoder
   byte-for-byte with the ones computed here. *)
From Coq Require Import List NArith ZArith Uint63.
From TM Require Import Common.Hex.
Import ListNotations.
Open Scope uint63_scope.

Definition crc_poly : int := 0x82F63B78.

Definition crc_bit (c : int) : int :=
  if (c land 1) =? 1 then (c >> 1) lxor crc_poly else c >> 1.

Definition crc_byte (c : int) (b : N) : int :=
  let c := c lxor (of_Z (Z.of_N b) land 0xFF) in
  crc_bit (crc_bit (crc_bit (crc_bit (crc_bit (crc_bit (crc_bit (crc_bit c))))))).

Definition crc32c_int (d : bytes) : int :=
  (fold_left crc_byte d 0xFFFFFFFF) lxor 0xFFFFFFFF.

Definition crc32c (d : bytes) : N := Z.to_N (to_Z (crc32c_int d)).

(* the four bytes the WAL encoder writes: binary.BigEndian.PutUint32 of the checksum *)
Definition crc32c_be (d : bytes) : bytes :=
  let c := crc32c_int d in
  map (fun x => Z.to_N (to_Z x))
      [(c >> 24) land 0xFF; (c >> 16) land 0xFF; (c >> 8) land 0xFF; c land 0xFF].

(* check value of the CRC catalogue: CRC-32C("123456789") = 0xE3069283 *)
Example crc32c_check :
  crc32c [49;50;51;52;53;54;55;56;57]%N = 0xE3069283%N.
Proof. vm_compute. reflexivity. Qed.
