From TM Require Import C15.Model.
