(* C15 — lemmas and proofs about the WAL model (coq/C15/Model.v). *)
From Coq Require Import List ZArith NArith Bool Lia.
From TM Require Import Common.Hex Generated.Consts C15.Model.
Import ListNotations.
Open Scope Z_scope.

Definition CrcCollision (crc : bytes -> bytes) : Prop :=
  exists x y : bytes, x <> y /\ crc x = crc y.

(* ------------------------------------------------------------------ be32 / rd32 *)
Lemma be32_length : forall n, length (be32 n) = 4%nat.
Proof. reflexivity. Qed.

Lemma rd32_be32 : forall n, (n < 4294967296)%N -> rd32 (be32 n) = n.
Proof.
  intros n Hn. unfold rd32, be32. cbn [fold_left].
  rewrite N.mul_0_l, N.add_0_l.
  pose proof (N.div_mod n 256 ltac:(lia)) as E0.
  pose proof (N.div_mod (n/256) 256 ltac:(lia)) as E1.
  pose proof (N.div_mod (n/256/256) 256 ltac:(lia)) as E2.
  rewrite !N.div_div in * by lia.
  change (256*256)%N with 65536%N in *. change (65536*256)%N with 16777216%N in *.
  assert (n / 16777216 < 256)%N by (apply N.div_lt_upper_bound; lia).
  rewrite (N.mod_small (n / 16777216) 256) by lia.
  lia.
Qed.

Lemma max_lt_2_32 : wal_max_msg_size_bytes < 4294967296.
Proof. unfold wal_max_msg_size_bytes. lia. Qed.

(* ------------------------------------------------------------------ list helpers *)
Lemma firstn_exact : forall (x t : bytes), firstn (length x) (x ++ t) = x.
Proof. intros. rewrite firstn_app, Nat.sub_diag, firstn_all. cbn. apply app_nil_r. Qed.
Lemma skipn_exact : forall (x t : bytes), skipn (length x) (x ++ t) = t.
Proof. intros. rewrite skipn_app, Nat.sub_diag, skipn_all. reflexivity. Qed.

Lemma pad_full : forall (k : nat) (x : bytes), length x = k -> pad k x = x.
Proof. intros k x E. unfold pad. rewrite E, Nat.sub_diag. cbn. apply app_nil_r. Qed.

Lemma read_exact : forall kd (x t : bytes) (k : nat),
  length x = k -> (0 < k)%nat -> read kd (x ++ t) k = (x, k, t, RNil).
Proof.
  intros kd x t k E Hk. unfold read. subst k.
  rewrite firstn_exact, skipn_exact, (pad_full (length x) x eq_refl).
  destruct (Nat.eqb (length x) 0) eqn:E0; [apply Nat.eqb_eq in E0; lia|].
  destruct kd.
  - rewrite Nat.ltb_irrefl. reflexivity.
  - destruct x; [cbn in Hk; lia|]. reflexivity.
Qed.

(* ------------------------------------------------------------------ one frame *)
Section Frames.
Variable crc : bytes -> bytes.
Variable valid : bytes -> bool.
Variable eh_of : bytes -> option Z.
Hypothesis crc_len : forall d, length (crc d) = 4%nat.

Notation frame := (frame crc).
Notation decode1 := (decode1 crc valid true).
Notation decode_all := (decode_all crc valid true).
Notation decode_all_f := (decode_all_f crc valid true).

(* what Encode accepts and the decoder hands back: non-empty (a TimedWALMessage always carries
   its time stamp), within the size limit, and decodable *)
Definition okrec (d : bytes) : Prop :=
  (0 < length d)%nat /\ len d <= wal_max_msg_size_bytes /\ valid d = true.

Definition frames (rs : list bytes) : bytes := concat (map frame rs).

Lemma frames_cons : forall d rs, frames (d :: rs) = frame d ++ frames rs.
Proof. reflexivity. Qed.
Lemma frames_one : forall d, frames [d] = frame d.
Proof. intro d. unfold frames. cbn [map concat]. apply app_nil_r. Qed.
Lemma frames_app : forall a b, frames (a ++ b) = frames a ++ frames b.
Proof. intros. unfold frames. rewrite map_app, concat_app. reflexivity. Qed.
Lemma frame_length : forall d, length (frame d) = (8 + length d)%nat.
Proof. intro d. unfold Model.frame. rewrite !app_length, crc_len, be32_length. lia. Qed.

Lemma okrec_n : forall d, okrec d ->
  rd32 (be32 (N.of_nat (length d))) = N.of_nat (length d) /\
  (wal_max_msg_size_bytes <? Z.of_N (N.of_nat (length d))) = false.
Proof.
  intros d (H0 & H1 & _). pose proof max_lt_2_32. unfold len in H1. split.
  - apply rd32_be32. lia.
  - apply Z.ltb_ge. lia.
Qed.

(* the decoder on header + any data of the announced length *)
Lemma decode1_shape : forall kd (c d t : bytes),
  length c = 4%nat -> (0 < length d)%nat -> len d <= wal_max_msg_size_bytes ->
  decode1 kd (c ++ be32 (N.of_nat (length d)) ++ d ++ t) =
    if bytes_eqb (crc d) c then (if valid d then DRec d t else DCorrupt t) else DCorrupt t.
Proof.
  intros kd c d t Hc H0 H1. unfold Model.decode1.
  rewrite (read_exact kd c _ 4 Hc ltac:(lia)).
  rewrite (read_exact kd (be32 _) _ 4 (be32_length _) ltac:(lia)).
  assert (okn : rd32 (be32 (N.of_nat (length d))) = N.of_nat (length d)).
  { apply rd32_be32. pose proof max_lt_2_32. unfold len in H1. lia. }
  rewrite okn.
  assert (E : (wal_max_msg_size_bytes <? Z.of_N (N.of_nat (length d))) = false).
  { apply Z.ltb_ge. unfold len in H1. lia. }
  rewrite E, Nat2N.id.
  rewrite (read_exact kd d t (length d) eq_refl H0).
  reflexivity.
Qed.

Lemma decode1_frame : forall kd d t, okrec d -> decode1 kd (frame d ++ t) = DRec d t.
Proof.
  intros kd d t (H0 & H1 & H2). unfold Model.frame. rewrite <- !app_assoc.
  rewrite decode1_shape by auto. rewrite bytes_eqb_refl, H2. reflexivity.
Qed.

Lemma decode1_nil : forall kd, decode1 kd [] = DEof.
Proof. intros []; reflexivity. Qed.

(* ------------------------------------------------------------------ reads never lengthen *)
Lemma read_rest_le : forall kd s k b n s' e,
  read kd s k = (b, n, s', e) -> (length s' <= length s)%nat.
Proof.
  intros kd s k b n s' e. unfold read.
  destruct kd; destruct (Nat.eqb k 0).
  - intro E. assert (s' = s) by congruence. subst; lia.
  - intro E. assert (s' = skipn k s) by congruence. subst. rewrite skipn_length. lia.
  - intro E. assert (s' = s) by congruence. subst; lia.
  - destruct s as [|x s0]; intro E.
    + assert (s' = []) by congruence. subst; lia.
    + assert (s' = skipn k (x :: s0)) by congruence. subst. rewrite skipn_length. lia.
Qed.

Lemma read_first_lt : forall kd s b n s',
  read kd s 4 = (b, n, s', RNil) -> (length s' < length s)%nat.
Proof.
  intros kd s b n s'. unfold read. change (Nat.eqb 4 0) with false. cbv iota.
  destruct kd.
  - destruct (Nat.ltb (length (firstn 4 s)) 4) eqn:L; intro E; [discriminate|].
    assert (E' : s' = skipn 4 s) by congruence. subst s'.
    apply Nat.ltb_ge in L. rewrite firstn_length in L. rewrite skipn_length. lia.
  - destruct s as [|x s0]; intro E; [discriminate|].
    assert (E' : s' = skipn 4 (x :: s0)) by congruence. subst s'.
    rewrite skipn_length. cbn [length]. lia.
Qed.

Lemma decode1_rec_shorter : forall kd s d rest,
  decode1 kd s = DRec d rest -> (length rest < length s)%nat.
Proof.
  intros kd s d rest. unfold Model.decode1.
  destruct (read kd s 4) as [[[b n] s1] e] eqn:R1.
  destruct e; try discriminate.
  2:{ destruct (true && Nat.ltb 0 n); discriminate. }
  apply read_first_lt in R1.
  destruct (read kd s1 4) as [[[b2 n2] s2] e2] eqn:R2.
  apply read_rest_le in R2.
  destruct e2; try discriminate.
  destruct (wal_max_msg_size_bytes <? Z.of_N (rd32 b2)); try discriminate.
  destruct (read kd s2 (N.to_nat (rd32 b2))) as [[[d3 n3] s3] e3] eqn:R3.
  apply read_rest_le in R3.
  destruct e3; try discriminate.
  destruct (bytes_eqb (crc d3) b); try discriminate.
  destruct (valid d3); try discriminate.
  intro E; inversion E; subst. lia.
Qed.

Lemma decode_all_f_mono : forall kd f1 f2 s,
  (length s < f1)%nat -> (length s < f2)%nat -> decode_all_f f1 kd s = decode_all_f f2 kd s.
Proof.
  intros kd f1. induction f1 as [|f1 IH]; intros f2 s H1 H2; [lia|].
  destruct f2 as [|f2]; [lia|]. cbn [Model.decode_all_f].
  destruct (decode1 kd s) as [d rest| |rest] eqn:D; try reflexivity.
  apply decode1_rec_shorter in D.
  rewrite (IH f2 rest) by lia. reflexivity.
Qed.

Lemma decode_all_step : forall kd d t, okrec d ->
  decode_all kd (frame d ++ t) = let '(l, tm) := decode_all kd t in (d :: l, tm).
Proof.
  intros kd d t Hd. unfold Model.decode_all at 1. cbn [Model.decode_all_f].
  rewrite decode1_frame by assumption.
  rewrite (decode_all_f_mono kd _ (S (length t)) t).
  - reflexivity.
  - rewrite app_length, frame_length. lia.
  - lia.
Qed.

(* frames are self-delimiting: the records of a clean prefix come out first, whatever follows *)
Lemma decode_all_app : forall kd rs t, Forall okrec rs ->
  decode_all kd (frames rs ++ t) = let '(l, tm) := decode_all kd t in (rs ++ l, tm).
Proof.
  intros kd rs t H. induction H as [|d rs Hd Hrs IH].
  - change (frames [] ++ t) with t. destruct (decode_all kd t). reflexivity.
  - rewrite frames_cons, <- app_assoc, decode_all_step by assumption.
    rewrite IH. destruct (decode_all kd t). reflexivity.
Qed.

Lemma decode_all_nil : forall kd, decode_all kd [] = ([], TEof).
Proof. intros []; reflexivity. Qed.

Lemma roundtrip : forall kd rs, Forall okrec rs -> decode_all kd (frames rs) = (rs, TEof).
Proof.
  intros kd rs H. rewrite <- (app_nil_r (frames rs)), decode_all_app by assumption.
  rewrite decode_all_nil, app_nil_r. reflexivity.
Qed.

(* ------------------------------------------------------------------ torn tails *)
Lemma read_short_group : forall (s : bytes) k, (0 < k)%nat -> (length s < k)%nat ->
  read RGroup s k = (pad k s, length s, [], REof).
Proof.
  intros s k H0 H. unfold read.
  destruct (Nat.eqb k 0) eqn:E0; [apply Nat.eqb_eq in E0; lia|].
  rewrite firstn_all2 by lia. rewrite skipn_all2 by lia.
  assert (L : Nat.ltb (length s) k = true) by (apply Nat.ltb_lt; lia). rewrite L. reflexivity.
Qed.

Lemma read_plain_nil : forall k, (0 < k)%nat -> read RPlain [] k = (pad k [], O, [], REof).
Proof. intros k H. unfold read. destruct (Nat.eqb k 0) eqn:E0; [apply Nat.eqb_eq in E0; lia|]. reflexivity. Qed.

Lemma read_plain_short : forall (s : bytes) k, s <> [] -> (length s <= k)%nat ->
  read RPlain s k = (pad k s, length s, [], RNil).
Proof.
  intros s k Hs H. unfold read.
  destruct (Nat.eqb k 0) eqn:E0.
  { apply Nat.eqb_eq in E0. destruct s; [congruence|cbn in H; lia]. }
  rewrite firstn_all2 by lia. rewrite skipn_all2 by lia. destruct s; [congruence|reflexivity].
Qed.

Lemma firstn_frame_split : forall (c x : bytes) k, length c = 4%nat -> (4 <= k)%nat ->
  firstn k (c ++ x) = c ++ firstn (k - 4) x.
Proof. intros c x k Hc Hk. rewrite firstn_app, Hc. rewrite firstn_all2 by lia. reflexivity. Qed.

Lemma decode1_short_group : forall s : bytes, (0 < length s < 4)%nat ->
  decode1 RGroup s = DCorrupt [].
Proof.
  intros s H. unfold Model.decode1. rewrite read_short_group by lia.
  assert (L : Nat.ltb 0 (length s) = true) by (apply Nat.ltb_lt; lia). rewrite L. reflexivity.
Qed.

(* a strict, non-empty prefix of a frame at the end of the group: DataCorruptionError (with the
   F8 repair also when fewer than four bytes are left), the reader ends up at the end *)
Lemma decode1_torn_group : forall r k,
  len r <= wal_max_msg_size_bytes -> (0 < k < length (frame r))%nat ->
  decode1 RGroup (firstn k (frame r)) = DCorrupt [].
Proof.
  intros r k Hmax Hk. rewrite frame_length in Hk.
  destruct (Nat.ltb k 4) eqn:K4.
  { apply Nat.ltb_lt in K4. apply decode1_short_group.
    rewrite firstn_length, frame_length. lia. }
  apply Nat.ltb_ge in K4. unfold Model.frame.
  rewrite (firstn_frame_split (crc r) _ k (crc_len r) K4).
  destruct (Nat.ltb k 8) eqn:K8.
  { apply Nat.ltb_lt in K8. unfold Model.decode1.
    rewrite (read_exact RGroup (crc r) _ 4 (crc_len r) ltac:(lia)).
    rewrite read_short_group; [reflexivity|lia|].
    rewrite firstn_length, app_length, be32_length. lia. }
  apply Nat.ltb_ge in K8.
  rewrite (firstn_frame_split (be32 _) r (k - 4) (be32_length _) ltac:(lia)).
  unfold Model.decode1.
  rewrite (read_exact RGroup (crc r) _ 4 (crc_len r) ltac:(lia)).
  rewrite (read_exact RGroup (be32 _) _ 4 (be32_length _) ltac:(lia)).
  assert (okn : rd32 (be32 (N.of_nat (length r))) = N.of_nat (length r)).
  { apply rd32_be32. pose proof max_lt_2_32. unfold len in Hmax. lia. }
  rewrite okn.
  assert (E : (wal_max_msg_size_bytes <? Z.of_N (N.of_nat (length r))) = false).
  { apply Z.ltb_ge. unfold len in Hmax. lia. }
  rewrite E, Nat2N.id.
  rewrite read_short_group; [reflexivity|lia|].
  rewrite firstn_length. lia.
Qed.

Lemma decode_all_corrupt1 : forall kd s rest, decode1 kd s = DCorrupt rest ->
  decode_all kd s = ([], TCorrupt).
Proof. intros kd s rest E. unfold Model.decode_all. cbn [Model.decode_all_f]. rewrite E. reflexivity. Qed.

(* the same tail read through os.File by repairWalFile: an error, except that a cut inside the
   data whose missing bytes are "made up" by the zero-initialised buffer yields a record with
   the checksum of the record being written *)
Lemma decode1_torn_plain : forall r k,
  valid [] = false ->
  len r <= wal_max_msg_size_bytes -> (0 < k < length (frame r))%nat ->
  decode1 RPlain (firstn k (frame r)) = DCorrupt [] \/
  exists d', decode1 RPlain (firstn k (frame r)) = DRec d' [] /\
             crc d' = crc r /\ length d' = length r /\ valid d' = true.
Proof.
  intros r k Vnil Hmax Hk. rewrite frame_length in Hk.
  destruct (Nat.ltb k 4) eqn:K4.
  { apply Nat.ltb_lt in K4. left. unfold Model.decode1.
    rewrite read_plain_short.
    - rewrite read_plain_nil by lia. reflexivity.
    - intro E. apply (f_equal (@length N)) in E. rewrite firstn_length, frame_length in E. cbn in E. lia.
    - rewrite firstn_length, frame_length. lia. }
  apply Nat.ltb_ge in K4. unfold Model.frame.
  rewrite (firstn_frame_split (crc r) _ k (crc_len r) K4).
  destruct (Nat.ltb k 8) eqn:K8.
  { apply Nat.ltb_lt in K8. left. unfold Model.decode1.
    rewrite (read_exact RPlain (crc r) _ 4 (crc_len r) ltac:(lia)).
    set (y := firstn (k - 4) (be32 (N.of_nat (length r)) ++ r)).
    assert (Ly : (length y < 4)%nat).
    { unfold y. rewrite firstn_length, app_length, be32_length. lia. }
    destruct y as [|y0 y'] eqn:Ey.
    { rewrite read_plain_nil by lia. reflexivity. }
    rewrite read_plain_short by (try discriminate; lia).
    destruct (wal_max_msg_size_bytes <? Z.of_N (rd32 (pad 4 (y0 :: y')))); [reflexivity|].
    destruct (N.to_nat (rd32 (pad 4 (y0 :: y')))) as [|m] eqn:Em.
    - unfold read at 1. cbn [Nat.eqb]. cbv iota.
      destruct (bytes_eqb (crc []) (crc r)); [rewrite Vnil|]; reflexivity.
    - rewrite read_plain_nil by lia. reflexivity. }
  apply Nat.ltb_ge in K8.
  rewrite (firstn_frame_split (be32 _) r (k - 4) (be32_length _) ltac:(lia)).
  unfold Model.decode1.
  rewrite (read_exact RPlain (crc r) _ 4 (crc_len r) ltac:(lia)).
  rewrite (read_exact RPlain (be32 _) _ 4 (be32_length _) ltac:(lia)).
  assert (okn : rd32 (be32 (N.of_nat (length r))) = N.of_nat (length r)).
  { apply rd32_be32. pose proof max_lt_2_32. unfold len in Hmax. lia. }
  rewrite okn.
  assert (E : (wal_max_msg_size_bytes <? Z.of_N (N.of_nat (length r))) = false).
  { apply Z.ltb_ge. unfold len in Hmax. lia. }
  rewrite E, Nat2N.id.
  set (z := firstn (k - 4 - 4) r).
  assert (Lz : (length z < length r)%nat) by (unfold z; rewrite firstn_length; lia).
  destruct z as [|z0 z'] eqn:Ez.
  { left. rewrite read_plain_nil by lia. reflexivity. }
  rewrite read_plain_short by (try discriminate; lia).
  destruct (bytes_eqb (crc (pad (length r) (z0 :: z'))) (crc r)) eqn:C; [|left; reflexivity].
  destruct (valid (pad (length r) (z0 :: z'))) eqn:V; [|left; reflexivity].
  right. exists (pad (length r) (z0 :: z')). split; [reflexivity|].
  split; [apply bytes_eqb_eq; exact C|]. split; [|exact V].
  unfold pad. rewrite app_length, repeat_length. lia.
Qed.

Lemma torn_tail_no_phantom : forall (rs : list bytes) (r : bytes) (k : nat),
  Forall okrec rs -> len r <= wal_max_msg_size_bytes -> (k < length (frame r))%nat ->
  decode_all RGroup (frames rs ++ firstn k (frame r)) =
    (rs, if Nat.eqb k 0 then TEof else TCorrupt).
Proof.
  intros rs r k Hrs Hr Hk. rewrite decode_all_app by assumption.
  destruct k as [|k].
  - cbn [firstn Nat.eqb]. rewrite decode_all_nil, app_nil_r. reflexivity.
  - cbn [Nat.eqb].
    rewrite (decode_all_corrupt1 RGroup _ [] (decode1_torn_group r (S k) Hr ltac:(lia))).
    rewrite app_nil_r. reflexivity.
Qed.

Lemma repair_keeps_intact : valid [] = false ->
  forall (rs : list bytes) (r : bytes) (k : nat),
  Forall okrec rs -> len r <= wal_max_msg_size_bytes -> (k < length (frame r))%nat ->
  let out := fst (decode_all RPlain (frames rs ++ firstn k (frame r))) in
  out = rs \/ out = rs ++ [r] \/ CrcCollision crc.
Proof.
  intros Vnil rs r k Hrs Hr Hk out. subst out. rewrite decode_all_app by assumption.
  destruct k as [|k].
  { cbn [firstn]. rewrite decode_all_nil. left. cbn. apply app_nil_r. }
  destruct (decode1_torn_plain r (S k) Vnil Hr ltac:(lia)) as [E|(d' & E & C & L & V)].
  - rewrite (decode_all_corrupt1 RPlain _ [] E). left. cbn. apply app_nil_r.
  - assert (EA : decode_all RPlain (firstn (S k) (frame r)) = ([d'], TEof)).
    { unfold Model.decode_all. cbn [Model.decode_all_f]. rewrite E.
      destruct (length (firstn (S k) (frame r))) eqn:L0.
      - rewrite firstn_length, frame_length in L0. lia.
      - cbn [Model.decode_all_f]. rewrite decode1_nil. reflexivity. }
    rewrite EA. cbn [fst].
    destruct (list_eq_dec N.eq_dec d' r) as [->|Hne].
    + right; left. reflexivity.
    + right; right. exists d', r. split; assumption.
Qed.

(* ------------------------------------------------------------------ damage is detected *)
Lemma crc_field_damage : forall kd (c d t : bytes),
  length c = 4%nat -> (0 < length d)%nat -> len d <= wal_max_msg_size_bytes -> c <> crc d ->
  decode1 kd (c ++ be32 (N.of_nat (length d)) ++ d ++ t) = DCorrupt t.
Proof.
  intros kd c d t Hc H0 H1 Hne. rewrite decode1_shape by assumption.
  destruct (bytes_eqb (crc d) c) eqn:E; [|reflexivity].
  apply bytes_eqb_eq in E. congruence.
Qed.

Lemma data_damage : forall kd (d0 d' t : bytes),
  (0 < length d0)%nat -> len d0 <= wal_max_msg_size_bytes ->
  length d' = length d0 -> d' <> d0 ->
  decode1 kd (crc d0 ++ be32 (N.of_nat (length d0)) ++ d' ++ t) = DCorrupt t \/ CrcCollision crc.
Proof.
  intros kd d0 d' t H0 H1 HL Hne. rewrite <- HL.
  rewrite decode1_shape; [|apply crc_len|lia|unfold len in *; lia].
  destruct (bytes_eqb (crc d') (crc d0)) eqn:E.
  - right. exists d', d0. split; [assumption|apply bytes_eqb_eq; exact E].
  - left. reflexivity.
Qed.

Lemma read_group_ok : forall (s : bytes) k b n s',
  read RGroup s k = (b, n, s', RNil) -> s = b ++ s' /\ length b = k.
Proof.
  intros s k b n s'. unfold read.
  destruct (Nat.eqb k 0); [discriminate|].
  destruct (Nat.ltb (length (firstn k s)) k) eqn:L; [discriminate|].
  intro E. apply Nat.ltb_ge in L.
  assert (Eb : b = pad k (firstn k s)) by congruence.
  assert (Es : s' = skipn k s) by congruence. subst b s'.
  assert (Lk : length (firstn k s) = k) by (pose proof (firstn_le_length k s); lia).
  rewrite (pad_full k _ Lk). split; [symmetry; apply firstn_skipn|exact Lk].
Qed.

(* whatever the group reader hands back as a record stands on disk behind its own checksum *)
Lemma decode1_sound : forall s d rest,
  decode1 RGroup s = DRec d rest ->
  exists l4, s = crc d ++ l4 ++ d ++ rest /\ length l4 = 4%nat /\
             rd32 l4 = N.of_nat (length d) /\ valid d = true /\ (0 < length d)%nat.
Proof.
  intros s d rest. unfold Model.decode1.
  destruct (read RGroup s 4) as [[[b n] s1] e] eqn:R1.
  destruct e; try discriminate.
  2:{ destruct (true && Nat.ltb 0 n); discriminate. }
  apply read_group_ok in R1 as [E1 L1].
  destruct (read RGroup s1 4) as [[[b2 n2] s2] e2] eqn:R2.
  destruct e2; try discriminate.
  apply read_group_ok in R2 as [E2 L2].
  destruct (wal_max_msg_size_bytes <? Z.of_N (rd32 b2)); try discriminate.
  destruct (read RGroup s2 (N.to_nat (rd32 b2))) as [[[d3 n3] s3] e3] eqn:R3.
  destruct e3; try discriminate.
  assert (K0 : N.to_nat (rd32 b2) <> O).
  { intro K. rewrite K in R3. unfold read in R3. cbn in R3. discriminate. }
  apply read_group_ok in R3 as [E3 L3].
  destruct (bytes_eqb (crc d3) b) eqn:C; try discriminate.
  destruct (valid d3) eqn:V; try discriminate.
  intro E. assert (d3 = d) by congruence. assert (s3 = rest) by congruence. subst d3 s3.
  apply bytes_eqb_eq in C. exists b2. subst s s1 s2. rewrite C.
  repeat split; try assumption; lia.
Qed.

(* ------------------------------------------------------------------ limits *)
Lemma prune_f_skipn : forall n total limit (fs : list bytes),
  exists k, (k <= n)%nat /\ prune_f n total limit fs = skipn k fs.
Proof.
  induction n as [|n IH]; intros total limit fs.
  - exists O. split; [lia|reflexivity].
  - cbn [prune_f]. destruct (total <? limit).
    + exists O. split; [lia|reflexivity].
    + destruct fs as [|f r].
      * exists O. split; [lia|reflexivity].
      * destruct (IH (total - len f) limit r) as (k & Hk & E).
        exists (S k). split; [lia|exact E].
Qed.

Lemma check_total_whole_oldest : forall s,
  exists k, Z.of_nat k <= autofile_max_files_to_remove /\
    files (check_total s) = skipn k (files s) /\
    head (check_total s) = head s /\ buf (check_total s) = buf s /\
    synced (check_total s) = synced s /\ gmax (check_total s) = gmax s.
Proof.
  intro s. unfold check_total. destruct (total_limit s =? 0).
  - exists O. cbn. unfold autofile_max_files_to_remove. repeat split; lia.
  - destruct (prune_f_skipn (Z.to_nat autofile_max_files_to_remove) (total_size s)
                (total_limit s) (files s)) as (k & Hk & E).
    exists k. unfold set_disk. cbn [files head buf synced gmax]. rewrite E.
    unfold autofile_max_files_to_remove in *. repeat split; lia.
Qed.

Lemma rotate_whole_head : forall s,
  files (rotate s) = files s ++ [head s ++ buf s] /\ head (rotate s) = [] /\ buf (rotate s) = [].
Proof. intro s. repeat split. Qed.

End Frames.

(* ------------------------------------------------------------------ crash / repair cycles *)
Section Cycle.
Variable crc : bytes -> bytes.
Variable valid : bytes -> bool.
Hypothesis crc_len : forall d, length (crc d) = 4%nat.
Hypothesis valid_nil : valid [] = false.

Notation frame := (frame crc).
Notation frames := (frames crc).
Notation okrec := (okrec valid).
Notation decode_all := (decode_all crc valid true).

Lemma firstn_frames : forall rs k, Forall okrec rs ->
  exists pre post t, rs = pre ++ post /\ firstn k (frames rs) = frames pre ++ t /\
    (t = [] \/ exists r post' j, post = r :: post' /\ (0 < j < length (frame r))%nat /\
                                 t = firstn j (frame r)).
Proof.
  induction rs as [|d rs IH]; intros k H.
  - exists [], [], []. rewrite firstn_nil. repeat split. left; reflexivity.
  - inversion H as [|? ? Hd Hrs]; subst.
    rewrite frames_cons.
    destruct (Nat.ltb k (length (frame d))) eqn:K.
    + apply Nat.ltb_lt in K. destruct k as [|k].
      * exists [], (d :: rs), []. repeat split. left; reflexivity.
      * exists [], (d :: rs), (firstn (S k) (frame d)). split; [reflexivity|]. split.
        { rewrite firstn_app. replace (S k - length (frame d))%nat with O by lia.
          cbn [firstn]. rewrite app_nil_r. reflexivity. }
        right. exists d, rs, (S k). repeat split; lia.
    + apply Nat.ltb_ge in K.
      destruct (IH (k - length (frame d))%nat Hrs) as (pre & post & t & E1 & E2 & E3).
      exists (d :: pre), post, t. split; [cbn; congruence|]. split; [|exact E3].
      rewrite firstn_app, firstn_all2 by lia. rewrite E2, frames_cons, app_assoc. reflexivity.
Qed.

Lemma frames_concat : forall fs, concat (map frames fs) = frames (concat fs).
Proof.
  induction fs as [|f fs IH]; [reflexivity|].
  cbn [map concat]. rewrite IH, frames_app. reflexivity.
Qed.

Record Inv (s : st) (fs : list (list bytes)) (hs hu : list bytes) : Prop := {
  inv_files : files s = map frames fs;
  inv_head : head s ++ buf s = frames (hs ++ hu);
  inv_synced : synced s = len (frames hs);
  inv_ok : Forall okrec (concat fs ++ hs ++ hu) }.

Definition crash_repair (s : st) (keep : Z) : st := repair crc valid true (crash s keep).

Lemma crash_repair_cycle : forall s fs hs hu keep,
  Inv s fs hs hu ->
  (exists kept lost, hu = kept ++ lost /\
     Inv (crash_repair s keep) fs (hs ++ kept) [] /\
     buf (crash_repair s keep) = [] /\
     read_all crc valid true (crash_repair s keep) = (concat fs ++ hs ++ kept, TEof))
  \/ CrcCollision crc.
Proof.
  intros s fs hs hu keep [Hf Hh Hs Hok].
  apply Forall_app in Hok as [Hfs Hok]. apply Forall_app in Hok as [Hhs Hhu].
  set (all := head s ++ buf s).
  set (n := Z.to_nat (Z.min (synced s + Z.max 0 keep) (len all))).
  assert (Hall : all = frames hs ++ frames hu) by (unfold all; rewrite Hh, frames_app; reflexivity).
  assert (Hn : (length (frames hs) <= n)%nat).
  { unfold n. rewrite Hs, Hall. unfold len. rewrite app_length. lia. }
  destruct (firstn_frames hu (n - length (frames hs))%nat Hhu)
    as (pre & post & t & E1 & E2 & E3).
  assert (Hcr : head (crash s keep) = frames (hs ++ pre) ++ t).
  { unfold crash. fold all. fold n. cbn [head set_disk]. rewrite Hall.
    rewrite firstn_app, firstn_all2 by lia. rewrite E2, frames_app, app_assoc. reflexivity. }
  assert (Hpre : Forall okrec (hs ++ pre)).
  { apply Forall_app; split; [assumption|]. subst hu. apply Forall_app in Hhu as [? ?]. assumption. }
  assert (Fin : forall kept lost, hu = kept ++ lost -> Forall okrec kept ->
            head (crash_repair s keep) = frames (hs ++ kept) ->
            exists kept lost, hu = kept ++ lost /\
              Inv (crash_repair s keep) fs (hs ++ kept) [] /\
              buf (crash_repair s keep) = [] /\
              read_all crc valid true (crash_repair s keep) = (concat fs ++ hs ++ kept, TEof)).
  { intros kept lost Ehu Hk Hhead. exists kept, lost. split; [assumption|].
    assert (Hall2 : Forall okrec (concat fs ++ hs ++ kept)).
    { apply Forall_app; split; [assumption|]. apply Forall_app; split; assumption. }
    split; [|split].
    - constructor.
      + exact Hf.
      + change (buf (crash_repair s keep)) with (@nil N). rewrite !app_nil_r. exact Hhead.
      + change (synced (crash_repair s keep)) with (len (head (crash_repair s keep))).
        rewrite Hhead. reflexivity.
      + rewrite app_nil_r. exact Hall2.
    - reflexivity.
    - unfold read_all. change (files (crash_repair s keep)) with (files s).
      rewrite Hf, Hhead, frames_concat, <- frames_app.
      apply roundtrip; assumption. }
  assert (Hrep : head (crash_repair s keep) =
                 frames (fst (decode_all RPlain (frames (hs ++ pre) ++ t)))).
  { unfold crash_repair, repair. cbn [head]. rewrite Hcr. reflexivity. }
  destruct E3 as [->|(r & post' & j & Ep & Hj & ->)].
  - left. apply (Fin pre post E1).
    + subst hu. apply Forall_app in Hhu as [? ?]. assumption.
    + rewrite Hrep, app_nil_r, (roundtrip crc valid crc_len) by assumption. reflexivity.
  - assert (Hr : okrec r).
    { subst hu post. apply Forall_app in Hhu as [_ Hp]. inversion Hp; assumption. }
    pose proof (repair_keeps_intact crc valid crc_len valid_nil (hs ++ pre) r j Hpre
                  (proj1 (proj2 Hr)) ltac:(lia)) as R. cbv zeta in R.
    destruct R as [R|[R|R]]; [| |right; exact R]; left.
    + apply (Fin pre post E1).
      * subst hu. apply Forall_app in Hhu as [? ?]. assumption.
      * rewrite Hrep, R. reflexivity.
    + apply (Fin (pre ++ [r]) post').
      * subst hu post. rewrite <- app_assoc. reflexivity.
      * apply Forall_app; split; [|constructor; [assumption|constructor]].
        subst hu. apply Forall_app in Hhu as [? ?]. assumption.
      * rewrite Hrep, R, app_assoc. reflexivity.
Qed.

Lemma buf_write_app : forall h b p,
  fst (buf_write h b p) ++ snd (buf_write h b p) = h ++ b ++ p.
Proof.
  intros h b p. unfold buf_write.
  destruct (len p <=? buf_cap - len b); [reflexivity|].
  destruct b as [|b0 b']; [cbn [fst snd]; rewrite app_nil_r; reflexivity|].
  set (n := Z.to_nat (buf_cap - len (b0 :: b'))).
  destruct (len (skipn n p) <=? buf_cap); cbn [fst snd].
  - rewrite <- !app_assoc. rewrite firstn_skipn. reflexivity.
  - rewrite app_nil_r, <- !app_assoc. rewrite firstn_skipn. reflexivity.
Qed.

Lemma inv_read_all : forall s fs hs hu, Inv s fs hs hu -> buf s = [] ->
  read_all crc valid true s = (concat fs ++ hs ++ hu, TEof).
Proof.
  intros s fs hs hu [Hf Hh Hs Hok] Hb. unfold read_all.
  rewrite Hb, app_nil_r in Hh. rewrite Hf, Hh, frames_concat, <- frames_app.
  apply roundtrip; assumption.
Qed.

Lemma write_inv : forall s fs hs hu d, okrec d -> Inv s fs hs hu ->
  snd (write crc s d) = true /\ Inv (fst (write crc s d)) fs hs (hu ++ [d]).
Proof.
  intros s fs hs hu d Hd [Hf Hh Hs Hok]. unfold write, encode.
  assert (E : (wal_max_msg_size_bytes <? len d) = false).
  { apply Z.ltb_ge. apply Hd. }
  rewrite E. pose proof (buf_write_app (head s) (buf s) (frame d)) as B.
  destruct (buf_write (head s) (buf s) (frame d)) as [h b]. cbn [fst snd] in *.
  split; [reflexivity|]. constructor; cbn [files head buf synced set_disk].
  - exact Hf.
  - rewrite B, app_assoc, Hh. rewrite (app_assoc hs hu [d]), (frames_app crc (hs ++ hu) [d]).
    f_equal. symmetry. apply frames_one.
  - exact Hs.
  - rewrite !app_assoc. apply Forall_app; split; [rewrite <- !app_assoc; exact Hok|].
    constructor; [exact Hd|constructor].
Qed.

Lemma flush_inv : forall s fs hs hu, Inv s fs hs hu -> Inv (flush_sync s) fs (hs ++ hu) [].
Proof.
  intros s fs hs hu [Hf Hh Hs Hok]. constructor; cbn [files head buf synced set_disk flush_sync].
  - exact Hf.
  - rewrite !app_nil_r. exact Hh.
  - rewrite Hh. reflexivity.
  - rewrite app_nil_r. exact Hok.
Qed.

Lemma rotate_inv : forall s fs hs hu, Inv s fs hs hu -> Inv (rotate s) (fs ++ [hs ++ hu]) [] [].
Proof.
  intros s fs hs hu [Hf Hh Hs Hok]. constructor; cbn [files head buf synced rotate].
  - rewrite map_app, Hf, Hh. reflexivity.
  - reflexivity.
  - reflexivity.
  - rewrite !app_nil_r, concat_app. cbn [concat]. rewrite app_nil_r. exact Hok.
Qed.

Lemma check_head_inv : forall s fs hs hu, Inv s fs hs hu ->
  Inv (check_head s) fs hs hu \/ Inv (check_head s) (fs ++ [hs ++ hu]) [] [].
Proof.
  intros s fs hs hu H. unfold check_head.
  destruct (head_limit s =? 0); [left; exact H|].
  destruct (head_limit s <=? len (head s)); [right; apply rotate_inv; exact H|left; exact H].
Qed.

Lemma check_total_inv : forall s fs hs hu, Inv s fs hs hu ->
  exists k, Z.of_nat k <= autofile_max_files_to_remove /\ Inv (check_total s) (skipn k fs) hs hu.
Proof.
  intros s fs hs hu [Hf Hh Hs Hok].
  destruct (check_total_whole_oldest s) as (k & Hk & E1 & E2 & E3 & E4 & _).
  exists k. split; [exact Hk|]. constructor.
  - rewrite E1, Hf. apply skipn_map.
  - rewrite E2, E3. exact Hh.
  - rewrite E4. exact Hs.
  - apply Forall_app in Hok as [Hfs Hr]. apply Forall_app; split; [|exact Hr].
    rewrite <- (firstn_skipn k fs), concat_app in Hfs. apply Forall_app in Hfs as [_ ?]. assumption.
Qed.

(* ---- the reduced machine and its journal ---- *)
Inductive dop :=
| DWrite (d : bytes) | DWriteSync (d : bytes) | DFlush | DRotate | DCheckHead | DCheckTotal
| DCrash (keep : Z).

Definition dstep (s : st) (o : dop) : st :=
  match o with
  | DWrite d => fst (write crc s d)
  | DWriteSync d => fst (write_sync crc s d)
  | DFlush => flush_sync s
  | DRotate => rotate s
  | DCheckHead => check_head s
  | DCheckTotal => check_total s
  | DCrash keep => crash_repair s keep
  end.

Definition okop (o : dop) : Prop :=
  match o with DWrite d | DWriteSync d => okrec d | _ => True end.

Record jst := J { jf : list (list bytes); js : list bytes; ju : list bytes }.

Inductive jstep : jst -> dop -> jst -> Prop :=
| JWrite j d : jstep j (DWrite d) (J (jf j) (js j) (ju j ++ [d]))
| JWriteSync j d : jstep j (DWriteSync d) (J (jf j) (js j ++ ju j ++ [d]) [])
| JFlush j : jstep j DFlush (J (jf j) (js j ++ ju j) [])
| JRotate j : jstep j DRotate (J (jf j ++ [js j ++ ju j]) [] [])
| JHeadKeep j : jstep j DCheckHead j
| JHeadRotate j : jstep j DCheckHead (J (jf j ++ [js j ++ ju j]) [] [])
| JTotal j k : Z.of_nat k <= autofile_max_files_to_remove ->
    jstep j DCheckTotal (J (skipn k (jf j)) (js j) (ju j))
| JCrash j keep kept lost : ju j = kept ++ lost ->
    jstep j (DCrash keep) (J (jf j) (js j ++ kept) []).

Inductive jsteps : jst -> list dop -> jst -> Prop :=
| JNil j : jsteps j [] j
| JCons j o j1 ops j2 : jstep j o j1 -> jsteps j1 ops j2 -> jsteps j (o :: ops) j2.

Definition JInv (s : st) (j : jst) : Prop := Inv s (jf j) (js j) (ju j).

Lemma dstep_refines : forall s j o, JInv s j -> okop o ->
  (exists j', jstep j o j' /\ JInv (dstep s o) j') \/ CrcCollision crc.
Proof.
  intros s [fs hs hu] o H Ho. unfold JInv in *. cbn [jf js ju] in *.
  destruct o as [d|d| | | | |keep]; cbn [dstep okop] in *.
  - left. eexists. split; [apply JWrite|]. cbn [jf js ju]. apply write_inv; assumption.
  - left. eexists. split; [apply JWriteSync|]. cbn [jf js ju].
    unfold write_sync. destruct (write_inv s fs hs hu d Ho H) as [Ok I].
    destruct (write crc s d) as [s1 ok]. cbn [fst snd] in *. subst ok. cbn [fst].
    apply flush_inv in I. exact I.
  - left. eexists. split; [apply JFlush|]. apply flush_inv; assumption.
  - left. eexists. split; [apply JRotate|]. apply rotate_inv; assumption.
  - left. destruct (check_head_inv s fs hs hu H) as [I|I].
    + eexists. split; [apply JHeadKeep|exact I].
    + eexists. split; [apply JHeadRotate|exact I].
  - left. destruct (check_total_inv s fs hs hu H) as (k & Hk & I).
    eexists. split; [apply (JTotal (J fs hs hu) k Hk)|exact I].
  - destruct (crash_repair_cycle s fs hs hu keep H) as [(kept & lost & E & I & _)|C]; [left|right; exact C].
    eexists. split; [apply (JCrash (J fs hs hu) keep kept lost E)|exact I].
Qed.

Lemma dsteps_refine : forall ops s j, JInv s j -> Forall okop ops ->
  (exists j', jsteps j ops j' /\ JInv (fold_left dstep ops s) j') \/ CrcCollision crc.
Proof.
  induction ops as [|o ops IH]; intros s j H Hok.
  - left. exists j. split; [constructor|exact H].
  - inversion Hok as [|? ? Ho Hops]; subst.
    destruct (dstep_refines s j o H Ho) as [(j1 & S1 & I1)|C]; [|right; exact C].
    destruct (IH (dstep s o) j1 I1 Hops) as [(j2 & S2 & I2)|C]; [|right; exact C].
    left. exists j2. split; [econstructor; eassumption|exact I2].
Qed.

Lemma init_inv : forall hl tl, JInv (init hl tl) (J [] [] []).
Proof. intros. constructor; cbn; try reflexivity. constructor. Qed.

(* a directory that already holds rolled files numbered base, base+1, ... (any base) *)
Lemma init_at_inv : forall hl tl base (pre : list (list bytes)),
  Forall okrec (concat pre) -> JInv (init_at crc hl tl base pre) (J pre [] []).
Proof.
  intros hl tl base pre H. constructor; cbn [jf js ju init_at files head buf synced app].
  - reflexivity.
  - reflexivity.
  - reflexivity.
  - rewrite app_nil_r. exact H.
Qed.

(* the numbering: rotation gives the old head the number maxIndex and opens number maxIndex+1;
   the indexed files stay numbered contiguously up to maxIndex-1 whatever the base *)
Lemma disk_indices_init_at : forall hl tl base (pre : list (list bytes)),
  disk_indices (init_at crc hl tl base pre) = map (fun k => base + Z.of_nat k) (seq 0 (length pre)).
Proof.
  intros. unfold disk_indices, init_at. cbn [files gmax]. rewrite map_length.
  apply map_ext. intro k. lia.
Qed.
Lemma disk_indices_rotate : forall s,
  disk_indices (rotate s) = disk_indices s ++ [gmax s].
Proof.
  intro s. unfold disk_indices, rotate. cbn [files gmax]. rewrite app_length. cbn [length].
  replace (length (files s) + 1)%nat with (S (length (files s))) by lia.
  rewrite seq_S, map_app. cbn [map]. f_equal.
  - apply map_ext. intro k. lia.
  - f_equal. lia.
Qed.

(* what a journal step can do to the durable part (files and synced records of the head):
   drop at most maxFilesToRemove whole oldest files, append to the newest segment, open a new
   empty segment behind it — nothing else *)
Lemma journal_step_durable : forall j o j', jstep j o j' ->
  exists k add, Z.of_nat k <= autofile_max_files_to_remove /\
    (jf j' ++ [js j'] = skipn k (jf j) ++ [js j ++ add] \/
     jf j' ++ [js j'] = skipn k (jf j) ++ [js j ++ add; []]).
Proof.
  intros j o j' H. assert (Z0 : Z.of_nat 0 <= autofile_max_files_to_remove)
    by (unfold autofile_max_files_to_remove; lia).
  inversion H; subst; cbn [jf js ju].
  - exists O, []. split; [exact Z0|]. left. rewrite app_nil_r. reflexivity.
  - exists O, (ju j ++ [d]). split; [exact Z0|]. left. reflexivity.
  - exists O, (ju j). split; [exact Z0|]. left. reflexivity.
  - exists O, (ju j). split; [exact Z0|]. right. cbn [skipn]. rewrite <- app_assoc. reflexivity.
  - exists O, []. split; [exact Z0|]. left. rewrite app_nil_r. reflexivity.
  - exists O, (ju j). split; [exact Z0|]. right. cbn [skipn]. rewrite <- app_assoc. reflexivity.
  - exists k, []. split; [assumption|]. left. rewrite app_nil_r. reflexivity.
  - exists O, kept. split; [exact Z0|]. left. reflexivity.
Qed.

End Cycle.
