(* C15 — The consensus write-ahead log returns what was durably written, in order.
   Only the property statements; each is closed by [exact] of a lemma of Proofs.v and followed
   by Print Assumptions.  [crc] is an arbitrary checksum function with a four-byte result:
   nothing is assumed about its strength — where it matters the conclusion carries the disjunct
   [CrcCollision crc], built from the inputs of the theorem.  [valid] is the (opaque) success of
   proto.Unmarshal + WALFromProto on the payload.  The decoder is the one with the F8 repair
   (last argument [true] of decode1/decode_all). *)
From Coq Require Import List ZArith NArith Bool Lia.
From TM Require Import Common.Hex Generated.Consts C15.Crc32c C15.Model C15.ModelSync C15.Proofs C15.ProofsSearch C15.ProofsSync.
Import ListNotations.
Open Scope Z_scope.

(* Clause "in write order and byte-identical": whatever was framed by Encode is decoded back,
   record for record, ending in a clean io.EOF — through the group reader and through the
   plain file reader of repairWalFile. *)
Theorem C15_roundtrip :
  forall (crc : bytes -> bytes) (valid : bytes -> bool), (forall d, length (crc d) = 4%nat) ->
  forall (kd : rkind) (rs : list bytes), Forall (okrec valid) rs ->
    decode_all crc valid true kd (frames crc rs) = (rs, TEof).
Proof. exact roundtrip. Qed.
Print Assumptions C15_roundtrip.

(* Frames are self-delimiting: the records of an intact prefix are returned first and in
   order, whatever bytes follow (rotation boundaries, a torn record, damage). *)
Theorem C15_prefix_records_first :
  forall (crc : bytes -> bytes) (valid : bytes -> bool), (forall d, length (crc d) = 4%nat) ->
  forall (kd : rkind) (rs : list bytes) (t : bytes), Forall (okrec valid) rs ->
    decode_all crc valid true kd (frames crc rs ++ t) =
      let '(l, tm) := decode_all crc valid true kd t in (rs ++ l, tm).
Proof. exact decode_all_app. Qed.
Print Assumptions C15_prefix_records_first.

(* Clause "a crash that leaves a partial record at the end ... never returns a record that was
   not written": for EVERY strict non-empty prefix of a frame appended to intact records the
   reader returns exactly the intact records and then reports corruption (which makes OnStart
   repair the file); a clean EOF is reported only when no byte of the next record is there.
   No assumption on the checksum. *)
Theorem C15_torn_tail_no_phantom :
  forall (crc : bytes -> bytes) (valid : bytes -> bool), (forall d, length (crc d) = 4%nat) ->
  forall (rs : list bytes) (r : bytes) (k : nat),
    Forall (okrec valid) rs -> len r <= wal_max_msg_size_bytes ->
    (k < length (frame crc r))%nat ->
    decode_all crc valid true RGroup (frames crc rs ++ firstn k (frame crc r)) =
      (rs, if Nat.eqb k 0 then TEof else TCorrupt).
Proof. exact torn_tail_no_phantom. Qed.
Print Assumptions C15_torn_tail_no_phantom.

(* The same tail seen by repairWalFile (os.File semantics: short reads are not errors and the
   buffer is zero-initialised): the repaired file holds the intact records, plus at most the
   record that was being written (when exactly its trailing zero bytes were cut off) — or the
   checksum collides. *)
Theorem C15_repair_keeps_intact_records :
  forall (crc : bytes -> bytes) (valid : bytes -> bool), (forall d, length (crc d) = 4%nat) ->
  valid [] = false ->
  forall (rs : list bytes) (r : bytes) (k : nat),
    Forall (okrec valid) rs -> len r <= wal_max_msg_size_bytes ->
    (k < length (frame crc r))%nat ->
    let out := fst (decode_all crc valid true RPlain (frames crc rs ++ firstn k (frame crc r))) in
    out = rs \/ out = rs ++ [r] \/ CrcCollision crc.
Proof. exact repair_keeps_intact. Qed.
Print Assumptions C15_repair_keeps_intact_records.

(* Clause "single-byte corruptions": a record the group reader returns stands on disk behind
   its own checksum and announced length ... *)
Theorem C15_returned_record_is_checksummed :
  forall (crc : bytes -> bytes) (valid : bytes -> bool) (s d rest : bytes),
    decode1 crc valid true RGroup s = DRec d rest ->
    exists l4, s = crc d ++ l4 ++ d ++ rest /\ length l4 = 4%nat /\
               rd32 l4 = N.of_nat (length d) /\ valid d = true /\ (0 < length d)%nat.
Proof. exact decode1_sound. Qed.
Print Assumptions C15_returned_record_is_checksummed.

(* ... so damage to the data of a frame (same length, any number of bytes) is reported as
   corruption unless the checksum collides, and damage to the checksum field always is. *)
Theorem C15_data_damage_detected :
  forall (crc : bytes -> bytes) (valid : bytes -> bool), (forall d, length (crc d) = 4%nat) ->
  forall (kd : rkind) (d0 d' t : bytes),
    (0 < length d0)%nat -> len d0 <= wal_max_msg_size_bytes ->
    length d' = length d0 -> d' <> d0 ->
    decode1 crc valid true kd (crc d0 ++ be32 (N.of_nat (length d0)) ++ d' ++ t) = DCorrupt t
    \/ CrcCollision crc.
Proof. exact data_damage. Qed.
Print Assumptions C15_data_damage_detected.

Theorem C15_checksum_damage_detected :
  forall (crc : bytes -> bytes) (valid : bytes -> bool) (kd : rkind) (c d t : bytes),
    length c = 4%nat -> (0 < length d)%nat -> len d <= wal_max_msg_size_bytes -> c <> crc d ->
    decode1 crc valid true kd (c ++ be32 (N.of_nat (length d)) ++ d ++ t) = DCorrupt t.
Proof. exact crc_field_damage. Qed.
Print Assumptions C15_checksum_damage_detected.

(* Clause "the size limit may discard only whole oldest files": checkTotalSizeLimit drops at
   most maxFilesToRemove files from the old end and touches neither the remaining files nor
   the head; RotateFile moves the whole head (with what was buffered) behind the newest file. *)
Theorem C15_prune_whole_oldest_files :
  forall s : st, exists k : nat,
    Z.of_nat k <= autofile_max_files_to_remove /\
    files (check_total s) = skipn k (files s) /\
    head (check_total s) = head s /\ buf (check_total s) = buf s /\
    synced (check_total s) = synced s /\ gmax (check_total s) = gmax s.
Proof. exact check_total_whole_oldest. Qed.
Print Assumptions C15_prune_whole_oldest_files.

Theorem C15_rotate_moves_whole_head :
  forall s : st,
    files (rotate s) = files s ++ [head s ++ buf s] /\ head (rotate s) = [] /\ buf (rotate s) = [].
Proof. exact rotate_whole_head. Qed.
Print Assumptions C15_rotate_moves_whole_head.

(* ------------------------------------------------------------------ crash / reopen cycles
   [Inv s fs hs hu]: the indexed files of state s are the frames of the record lists fs, the
   head (file plus buffer) is the frames of hs ++ hu, and the synced prefix is exactly hs.
   The write-side operations, rotation, both limit checks and crash(any offset)+repair are
   modelled by [dstep]; [jstep] is the journal they must follow: a crash loses nothing but a
   suffix of the records that were never covered by a sync. *)

(* One cycle, EVERY truncation offset of the unsynced tail: after the crash and the repair the
   reader returns all records of the files, all synced records of the head and a prefix of the
   unsynced ones, in order, byte-identical, ending in a clean EOF; the invariant holds again. *)
Theorem C15_crash_cycle_keeps_synced :
  forall (crc : bytes -> bytes) (valid : bytes -> bool),
  (forall d, length (crc d) = 4%nat) -> valid [] = false ->
  forall (s : st) (fs : list (list bytes)) (hs hu : list bytes) (keep : Z),
    Inv crc valid s fs hs hu ->
    (exists kept lost, hu = kept ++ lost /\
       Inv crc valid (crash_repair crc valid s keep) fs (hs ++ kept) [] /\
       buf (crash_repair crc valid s keep) = [] /\
       read_all crc valid true (crash_repair crc valid s keep) = (concat fs ++ hs ++ kept, TEof))
    \/ CrcCollision crc.
Proof. intros crc valid H1 H2. exact (crash_repair_cycle crc valid H1 H2). Qed.
Print Assumptions C15_crash_cycle_keeps_synced.

(* Any number of cycles interleaved with any writes, synced writes, flushes, rotations and limit
   checks: the state always corresponds to a journal reached by [jsteps] — or the checksum
   collides.  PARTIAL with respect to the property: the restart is crash + repairWalFile applied
   unconditionally (on an intact head the repair is the identity, see C15_roundtrip); that
   State.OnStart reaches the repair whenever the head ends in a torn record (catchupReplay finds
   the marker, then hits the DataCorruptionError of C15_torn_tail_no_phantom) is checked on the
   implementation by the harness monitors, not proved here.  Full statement intended:
     forall ops over Model.op (incl. ORestart with the catch-up search), all restart statuses 0
       -> exists j, jsteps j0 (erase ops) j /\ JInv (fst (run ... ops)) j  \/ CrcCollision. *)
Theorem C15_durable_across_cycles_partial :
  forall (crc : bytes -> bytes) (valid : bytes -> bool),
  (forall d, length (crc d) = 4%nat) -> valid [] = false ->
  (* the directory may already hold rolled files numbered base, base+1, ... for ANY base (file
     numbers of any magnitude); [pre] = their records *)
  forall (hl tl base : Z) (pre : list (list bytes)) (ops : list dop),
    Forall (okrec valid) (concat pre) -> Forall (okop valid) ops ->
    (exists j, jsteps (J pre [] []) ops j /\
               JInv crc valid (fold_left (dstep crc valid) ops (init_at crc hl tl base pre)) j)
    \/ CrcCollision crc.
Proof.
  intros crc valid H1 H2 hl tl base pre ops Hpre Hops.
  exact (dsteps_refine crc valid H1 H2 ops (init_at crc hl tl base pre) (J pre [] [])
           (init_at_inv crc valid hl tl base pre Hpre) Hops).
Qed.
Print Assumptions C15_durable_across_cycles_partial.

(* What the journal allows: per step the durable part (files + synced records of the head) can
   only lose at most maxFilesToRemove whole oldest files, grow at the end, or get a new empty
   last segment. *)
Theorem C15_journal_step_durable :
  forall (j : jst) (o : dop) (j' : jst), jstep j o j' ->
  exists (k : nat) (add : list bytes), Z.of_nat k <= autofile_max_files_to_remove /\
    (jf j' ++ [js j'] = skipn k (jf j) ++ [js j ++ add] \/
     jf j' ++ [js j'] = skipn k (jf j) ++ [js j ++ add; []]).
Proof. exact journal_step_durable. Qed.
Print Assumptions C15_journal_step_durable.

(* ... and a reader over a state that corresponds to a journal (buffer flushed) returns exactly
   the journal, in order, ending in EOF. *)
Theorem C15_reader_returns_journal :
  forall (crc : bytes -> bytes) (valid : bytes -> bool), (forall d, length (crc d) = 4%nat) ->
  forall (s : st) (fs : list (list bytes)) (hs hu : list bytes),
    Inv crc valid s fs hs hu -> buf s = [] ->
    read_all crc valid true s = (concat fs ++ hs ++ hu, TEof).
Proof. intros crc valid H1. exact (inv_read_all crc valid H1). Qed.
Print Assumptions C15_reader_returns_journal.

(* rolled files are numbered contiguously from any base; rotation gives the head the number
   maxIndex (so a group whose files are numbered 999, 1000 continues with 1001) *)
Example C15_large_indices_nonvacuous :
  let s0 := init_at crc32c_be 0 0 999 [[[10; 2; 8; 1]%N]; [[10; 2; 8; 2]%N]] in
  disk_indices s0 = [999; 1000] /\
  disk_indices (rotate (open_wal crc32c_be s0 [10; 2; 8; 3]%N)) = [999; 1000; 1001] /\
  gmin (open_wal crc32c_be s0 [10; 2; 8; 3]%N) = 999 /\
  gmax (open_wal crc32c_be (rotate (open_wal crc32c_be s0 [10; 2; 8; 3]%N)) [10; 2; 8; 4]%N) = 1002.
Proof. vm_compute. repeat split; reflexivity. Qed.

(* ---- non-vacuity and the F8 witness, on concrete data with the real CRC-32C ---- *)
Definition ex_r1 : bytes := [10; 2; 8; 1; 18; 4; 26; 2; 8; 1]%N.
Definition ex_r2 : bytes := [10; 2; 8; 2; 18; 6; 34; 4; 8; 7; 16; 0]%N.
Definition vtrue (d : bytes) : bool := negb (Nat.eqb (length d) 0).

Example C15_roundtrip_nonvacuous :
  Forall (okrec vtrue) [ex_r1; ex_r2] /\
  decode_all crc32c_be vtrue true RGroup (frames crc32c_be [ex_r1; ex_r2]) = ([ex_r1; ex_r2], TEof).
Proof.
  split; [|vm_compute; reflexivity].
  repeat constructor; unfold len, wal_max_msg_size_bytes; cbn; lia.
Qed.

(* F8: two bytes of the next record after an intact one.  The decoder before the repair reports
   a clean EOF (so OnStart does not repair and later frames are appended behind the two bytes);
   the repaired decoder reports corruption. *)
Example C15_torn_checksum_F8 :
  let s := frames crc32c_be [ex_r1] ++ firstn 2 (frame crc32c_be ex_r2) in
  decode_all crc32c_be vtrue false RGroup s = ([ex_r1], TEof) /\
  decode_all crc32c_be vtrue true RGroup s = ([ex_r1], TCorrupt) /\
  (* unrepaired, with a later acknowledged record appended: that record is unreadable *)
  decode_all crc32c_be vtrue false RGroup (s ++ frame crc32c_be ex_r2) = ([ex_r1], TCorrupt).
Proof. vm_compute. repeat split; reflexivity. Qed.

(* a cycle on a concrete state: two synced and one unsynced record, crash 3 bytes into it *)
Example C15_cycle_nonvacuous :
  let s0 := init 0 0 in
  let s1 := fold_left (dstep crc32c_be vtrue) [DWriteSync ex_r1; DWriteSync ex_r2; DWrite ex_r1; DCrash 3] s0 in
  read_all crc32c_be vtrue true s1 = ([ex_r1; ex_r2], TEof).
Proof. vm_compute. reflexivity. Qed.

(* ================================================================== SearchForEndHeight, the
   catch-up search and the repair loop of State.OnStart (coq/C15/ProofsSearch.v).

   [SInv crc valid s fs hr t]: the indexed files of s are the frames of the record lists fs, the
   head FILE (what a reader sees; bytes still in the bufio buffer are not in it) is the frames of
   hr followed by t.  [tail_ok crc tb t]: t is empty (tb = false) or a non-empty strict prefix
   of a frame (tb = true), the torn record left by a crash or by an unflushed buffer.
   J = concat fs ++ hr is the journal of surviving records, [markers eh_of J] its #ENDHEIGHT
   heights.  [Idx s]: minIndex is not above the oldest file on disk.  [MonoNZ eh_of J]: the
   non-zero markers increase strictly (finalizeCommit writes #ENDHEIGHT 1, 2, 3, ...; OnStart
   writes #ENDHEIGHT 0 into every empty head, so zero markers may stand anywhere).
   [torn_first eh_of tb ig h hr] = torn tail /\ IgnoreDataCorruptionErrors = false /\ marker h not
   in the head: the only way a torn record is met before the marker in scan order (the scan
   starts with the head and every reader runs to the end of the head). *)

(* (1) Clause 3.  found = true IFF the marker is a surviving record (and the torn record is not
   met first, in which case the result is the corruption error — also when an older file holds
   the marker); not found IFF it is not; the returned reader stands exactly behind the (only)
   marker: reading it to the end yields the records of J after the marker, then EOF, or the
   corruption error when the tail is torn.  Both option sets.  The state changes at most by
   empty files re-created below the oldest one (stale minIndex + O_CREATE). *)
Theorem C15_search_iff :
  forall (crc : bytes -> bytes) (valid : bytes -> bool) (eh_of : bytes -> option Z),
  (forall d, length (crc d) = 4%nat) ->
  forall (s : st) (fs : list (list bytes)) (hr : list bytes) (t : bytes) (tb ig : bool) (h : Z)
         (r : sres) (s' : st),
    SInv crc valid s fs hr t -> tail_ok crc tb t -> Idx s -> MonoNZ eh_of (concat fs ++ hr) ->
    search crc valid eh_of true s h ig = (r, s') ->
    ((exists rest, r = Found rest) <->
     In h (markers eh_of (concat fs ++ hr)) /\ ~ torn_first eh_of tb ig h hr) /\
    (r = SearchErr <-> torn_first eh_of tb ig h hr) /\
    (r = NotFound <-> ~ In h (markers eh_of (concat fs ++ hr)) /\ ~ torn_first eh_of tb ig h hr) /\
    (forall rest, r = Found rest -> exists pre d post,
       concat fs ++ hr = pre ++ d :: post /\ eh_of d = Some h /\
       rest = frames crc post ++ t /\
       decode_all crc valid true RGroup rest = (post, if tb then TCorrupt else TEof) /\
       (h <> 0 -> ~ In h (markers eh_of pre) /\ ~ In h (markers eh_of post))) /\
    (exists fs', SInv crc valid s' fs' hr t /\ concat fs' = concat fs /\ same_mem s s' /\ Idx s').
Proof. exact search_iff_mono. Qed.
Print Assumptions C15_search_iff.

(* The same without any assumption on the order of the markers except that the early-exit
   shortcut is harmless for h ([exit_free]: the LAST marker of the journal is not strictly
   between 0 and h — every turn of the loop reads to the end of the head, so lastHeightFound is
   always that marker).  A marker that occurs several times (#ENDHEIGHT 0) is found in the
   newest file that holds one (k, counted from the oldest file on disk; the head is number
   |fs|), at its first occurrence there. *)
Theorem C15_search_general :
  forall (crc : bytes -> bytes) (valid : bytes -> bool) (eh_of : bytes -> option Z),
  (forall d, length (crc d) = 4%nat) ->
  forall (s : st) (fs : list (list bytes)) (hr : list bytes) (t : bytes) (tb ig : bool) (h : Z)
         (r : sres) (s' : st),
    SInv crc valid s fs hr t -> tail_ok crc tb t -> Idx s ->
    exit_free eh_of h (concat fs ++ hr) ->
    search crc valid eh_of true s h ig = (r, s') ->
    let J := concat fs ++ hr in
    let segs := fs ++ [hr] in
    (exists fs', SInv crc valid s' fs' hr t /\ concat fs' = concat fs /\ same_mem s s' /\ Idx s') /\
    (torn_first eh_of tb ig h hr -> r = SearchErr) /\
    (~ torn_first eh_of tb ig h hr -> In h (markers eh_of J) ->
       exists k pre1 d post, (k <= length fs)%nat /\
         concat (skipn k segs) = pre1 ++ d :: post /\ eh_of d = Some h /\
         ~ In h (markers eh_of pre1) /\ ~ In h (markers eh_of (concat (skipn (S k) segs))) /\
         J = (concat (firstn k segs) ++ pre1) ++ d :: post /\
         r = Found (frames crc post ++ t) /\
         decode_all crc valid true RGroup (frames crc post ++ t) =
           (post, if tb then TCorrupt else TEof)) /\
    (~ torn_first eh_of tb ig h hr -> ~ In h (markers eh_of J) -> r = NotFound).
Proof. exact search_spec. Qed.
Print Assumptions C15_search_general.

(* the hypothesis in its usual form: non-zero markers strictly increasing *)
Theorem C15_increasing_markers :
  forall (eh_of : bytes -> option Z) (J : list bytes),
    Sorted.StronglySorted Z.lt (filter (fun m => negb (m =? 0)) (markers eh_of J)) ->
    MonoNZ eh_of J /\ forall h, exit_free eh_of h J.
Proof.
  intros eh_of J H. pose proof (sorted_MonoNZ eh_of J H) as M.
  split; [exact M|]. intro h. exact (MonoNZ_exit_free eh_of J h M).
Qed.
Print Assumptions C15_increasing_markers.

(* (1) over operation lists: every state reached from a directory with rolled files (any base)
   by writes, synced writes, flushes, rotations, limit checks and crash/repair cycles satisfies
   the hypotheses of C15_search_iff for the journal of C15_durable_across_cycles_partial; the
   head file holds the whole records hr of js ++ ju that left the buffer (all of them, without
   torn tail, when the buffer is empty). *)
Theorem C15_search_iff_reachable :
  forall (crc : bytes -> bytes) (valid : bytes -> bool) (eh_of : bytes -> option Z),
  (forall d, length (crc d) = 4%nat) -> valid [] = false ->
  forall (hl tl b : Z) (pre : list (list bytes)) (ops : list dop),
    Forall (okrec valid) (concat pre) -> Forall (okop valid) ops ->
    let s := fold_left (dstep crc valid) ops (init_at crc hl tl b pre) in
    (exists j hr lost t tb,
       jsteps (J pre [] []) ops j /\ JInv crc valid s j /\
       js j ++ ju j = hr ++ lost /\ (buf s = [] -> lost = [] /\ tb = false) /\
       SInv crc valid s (jf j) hr t /\ tail_ok crc tb t /\ Idx s /\
       forall h ig r s', MonoNZ eh_of (concat (jf j) ++ hr) ->
         search crc valid eh_of true s h ig = (r, s') ->
         ((exists rest, r = Found rest) <->
          In h (markers eh_of (concat (jf j) ++ hr)) /\ ~ torn_first eh_of tb ig h hr) /\
         (r = SearchErr <-> torn_first eh_of tb ig h hr) /\
         (r = NotFound <->
          ~ In h (markers eh_of (concat (jf j) ++ hr)) /\ ~ torn_first eh_of tb ig h hr) /\
         (forall rest, r = Found rest -> exists p d post,
            concat (jf j) ++ hr = p ++ d :: post /\ eh_of d = Some h /\
            rest = frames crc post ++ t /\
            decode_all crc valid true RGroup rest = (post, if tb then TCorrupt else TEof) /\
            (h <> 0 -> ~ In h (markers eh_of p) /\ ~ In h (markers eh_of post))))
    \/ CrcCollision crc.
Proof. exact search_iff_reachable. Qed.
Print Assumptions C15_search_iff_reachable.

(* (2) crash at ANY byte offset of the unsynced tail + repairWalFile: the marker of every
   durable (rolled or synced) #ENDHEIGHT record is still found — with either option — and the
   reader behind it returns exactly the durable records behind the marker, followed by the
   unsynced ones that happened to survive, then EOF; or the checksum collides. *)
Theorem C15_search_after_repair :
  forall (crc : bytes -> bytes) (valid : bytes -> bool) (eh_of : bytes -> option Z),
  (forall d, length (crc d) = 4%nat) -> valid [] = false ->
  forall (s : st) (fs : list (list bytes)) (hs hu : list bytes) (keep : Z) (ig : bool) (h : Z)
         (pre : list bytes) (d : bytes) (post : list bytes),
    Inv crc valid s fs hs hu -> Idx s -> MonoNZ eh_of (concat fs ++ hs ++ hu) -> h <> 0 ->
    concat fs ++ hs = pre ++ d :: post -> eh_of d = Some h ->
    (exists kept lost s',
       hu = kept ++ lost /\
       Inv crc valid (crash_repair crc valid s keep) fs (hs ++ kept) [] /\
       search crc valid eh_of true (crash_repair crc valid s keep) h ig =
         (Found (frames crc (post ++ kept)), s') /\
       decode_all crc valid true RGroup (frames crc (post ++ kept)) = (post ++ kept, TEof))
    \/ CrcCollision crc.
Proof. exact search_after_repair. Qed.
Print Assumptions C15_search_after_repair.

(* catchupReplay(h), WAL part (replay.go with the F53 repair: everything is decoded before
   anything is applied): marker h-1 in the head, no marker h anywhere — the sanity search does
   not find h, the second search stands behind the first marker h-1 of the head, and the decode
   loop ends with exactly the records behind it (COk) or, when the head ends in a torn record,
   with the DataCorruptionError that sends OnStart into the repair (CCorrupt).  No assumption on
   the order of the markers. *)
Theorem C15_catchup_replay :
  forall (crc : bytes -> bytes) (valid : bytes -> bool) (eh_of : bytes -> option Z),
  (forall d, length (crc d) = 4%nat) ->
  forall (s : st) (fs : list (list bytes)) (hr : list bytes) (t : bytes) (tb : bool) (h : Z)
         (pre : list bytes) (d : bytes) (post : list bytes),
    SInv crc valid s fs hr t -> tail_ok crc tb t -> Idx s -> 1 <= h ->
    hr = pre ++ d :: post -> eh_of d = Some (h - 1) -> ~ In (h - 1) (markers eh_of pre) ->
    ~ In h (markers eh_of (concat fs ++ hr)) ->
    exists s1 fs1,
      catchup crc valid eh_of true s h = ((if tb then CCorrupt else COk post), s1) /\
      SInv crc valid s1 fs1 hr t /\ concat fs1 = concat fs /\ same_mem s s1 /\ Idx s1.
Proof. exact catchup_replay. Qed.
Print Assumptions C15_catchup_replay.

(* (3) State.OnStart reaches the repair.  The crash leaves a head that ends in a strict,
   non-empty prefix of the frame of r and holds the marker for h-1 (no marker h in the log):
   Model.restart = open, catchupReplay -> DataCorruptionError, Stop (flush), backup,
   repairWalFile, reopen, catchupReplay again — returns status 0 after exactly one repair; the
   head is then exactly the intact records (x = []; or x = [r] when the cut removed nothing but
   trailing zero bytes of r, which os.File's short read + zero-initialised buffer restore, see
   C15_repair_keeps_intact_records), nothing is buffered, everything is synced, the backup
   .CORRUPTED has the size of the damaged head, a reader over the group returns all records and
   EOF, and the second replay is handed ALL records behind the marker — or the checksum
   collides.  [eh_of r <> Some h]: the torn record is not itself the #ENDHEIGHT h marker (its
   encoding ends in the non-zero varint of h, so the zero-padding case cannot restore it). *)
Theorem C15_restart_reaches_repair :
  forall (crc : bytes -> bytes) (valid : bytes -> bool) (eh_of : bytes -> option Z),
  (forall d, length (crc d) = 4%nat) -> valid [] = false ->
  forall (s : st) (keep h : Z) (d0a d0b : bytes) (fs : list (list bytes)) (hr : list bytes)
         (r : bytes) (k : nat) (pre : list bytes) (d : bytes) (post : list bytes),
    files s = map (frames crc) fs -> Forall (okrec valid) (concat fs ++ hr) ->
    okrec valid r -> (0 < k < length (frame crc r))%nat ->
    head (crash s keep) = frames crc hr ++ firstn k (frame crc r) ->
    1 <= h -> hr = pre ++ d :: post -> eh_of d = Some (h - 1) ->
    ~ In (h - 1) (markers eh_of pre) ->
    ~ In h (markers eh_of (concat fs ++ hr)) -> eh_of r <> Some h ->
    (exists x s', (x = [] \/ x = [r]) /\
       restart crc valid eh_of true s keep h true d0a d0b = (s', (0%N, true, post ++ x)) /\
       head s' = frames crc (hr ++ x) /\ buf s' = [] /\ synced s' = len (head s') /\
       junk s' = len (frames crc hr ++ firstn k (frame crc r)) /\
       read_all crc valid true s' = (concat fs ++ hr ++ x, TEof))
    \/ CrcCollision crc.
Proof. exact restart_reaches_repair. Qed.
Print Assumptions C15_restart_reaches_repair.

(* (3) from a journal state (hence from every state of C15_durable_across_cycles_partial): the
   node dies j bytes into writing the unsynced record r; the synced records hs and the complete
   unsynced ones pre' hold the marker for h-1. *)
Theorem C15_restart_reaches_repair_journal :
  forall (crc : bytes -> bytes) (valid : bytes -> bool) (eh_of : bytes -> option Z),
  (forall d, length (crc d) = 4%nat) -> valid [] = false ->
  forall (s : st) (fs : list (list bytes)) (hs hu pre' : list bytes) (r : bytes)
         (post' : list bytes) (j : nat) (h : Z) (d0a d0b : bytes)
         (p : list bytes) (d : bytes) (post : list bytes),
    Inv crc valid s fs hs hu -> hu = pre' ++ r :: post' -> (0 < j < length (frame crc r))%nat ->
    1 <= h -> hs ++ pre' = p ++ d :: post -> eh_of d = Some (h - 1) ->
    ~ In (h - 1) (markers eh_of p) ->
    ~ In h (markers eh_of (concat fs ++ hs ++ pre')) -> eh_of r <> Some h ->
    (exists x s', (x = [] \/ x = [r]) /\
       restart crc valid eh_of true s (len (frames crc pre') + Z.of_nat j) h true d0a d0b =
         (s', (0%N, true, post ++ x)) /\
       head s' = frames crc (hs ++ pre' ++ x) /\ buf s' = [] /\ synced s' = len (head s') /\
       read_all crc valid true s' = (concat fs ++ hs ++ pre' ++ x, TEof))
    \/ CrcCollision crc.
Proof. exact restart_reaches_repair_journal. Qed.
Print Assumptions C15_restart_reaches_repair_journal.

(* The same with the marker for h-1 >= 1 ANYWHERE in the log (typically in a rolled file, the
   head holding only records of height h), for logs whose non-zero markers increase: the search
   skips the torn tail (IgnoreDataCorruptionErrors = true), walks back to the file with the
   marker, and the decode loop runs through all newer files into the torn record. *)
Theorem C15_catchup_replay_any :
  forall (crc : bytes -> bytes) (valid : bytes -> bool) (eh_of : bytes -> option Z),
  (forall d, length (crc d) = 4%nat) ->
  forall (s : st) (fs : list (list bytes)) (hr : list bytes) (t : bytes) (tb : bool) (h : Z)
         (pre : list bytes) (d : bytes) (post : list bytes),
    SInv crc valid s fs hr t -> tail_ok crc tb t -> Idx s -> 2 <= h ->
    MonoNZ eh_of (concat fs ++ hr) ->
    concat fs ++ hr = pre ++ d :: post -> eh_of d = Some (h - 1) ->
    ~ In h (markers eh_of (concat fs ++ hr)) ->
    exists s1 fs1,
      catchup crc valid eh_of true s h = ((if tb then CCorrupt else COk post), s1) /\
      SInv crc valid s1 fs1 hr t /\ concat fs1 = concat fs /\ same_mem s s1 /\ Idx s1.
Proof. exact catchup_replay_any. Qed.
Print Assumptions C15_catchup_replay_any.

(* [hr <> []]: the head holds at least one whole record (OnStart writes #ENDHEIGHT 0 into an
   empty head before anything else is written).  [MonoNZ] includes the record r that was being
   written. *)
Theorem C15_restart_reaches_repair_any :
  forall (crc : bytes -> bytes) (valid : bytes -> bool) (eh_of : bytes -> option Z),
  (forall d, length (crc d) = 4%nat) -> valid [] = false ->
  forall (s : st) (keep h : Z) (d0a d0b : bytes) (fs : list (list bytes)) (hr : list bytes)
         (r : bytes) (k : nat) (pre : list bytes) (d : bytes) (post : list bytes),
    files s = map (frames crc) fs -> Forall (okrec valid) (concat fs ++ hr) ->
    okrec valid r -> (0 < k < length (frame crc r))%nat ->
    head (crash s keep) = frames crc hr ++ firstn k (frame crc r) ->
    hr <> [] -> MonoNZ eh_of (concat fs ++ hr ++ [r]) ->
    2 <= h -> concat fs ++ hr = pre ++ d :: post -> eh_of d = Some (h - 1) ->
    ~ In h (markers eh_of (concat fs ++ hr)) -> eh_of r <> Some h ->
    (exists x s', (x = [] \/ x = [r]) /\
       restart crc valid eh_of true s keep h true d0a d0b = (s', (0%N, true, post ++ x)) /\
       head s' = frames crc (hr ++ x) /\ buf s' = [] /\ synced s' = len (head s') /\
       junk s' = len (frames crc hr ++ firstn k (frame crc r)) /\
       read_all crc valid true s' = (concat fs ++ hr ++ x, TEof))
    \/ CrcCollision crc.
Proof. exact restart_reaches_repair_any. Qed.
Print Assumptions C15_restart_reaches_repair_any.

Theorem C15_restart_reaches_repair_journal_any :
  forall (crc : bytes -> bytes) (valid : bytes -> bool) (eh_of : bytes -> option Z),
  (forall d, length (crc d) = 4%nat) -> valid [] = false ->
  forall (s : st) (fs : list (list bytes)) (hs hu pre' : list bytes) (r : bytes)
         (post' : list bytes) (j : nat) (h : Z) (d0a d0b : bytes)
         (p : list bytes) (d : bytes) (post : list bytes),
    Inv crc valid s fs hs hu -> hu = pre' ++ r :: post' -> (0 < j < length (frame crc r))%nat ->
    hs ++ pre' <> [] -> MonoNZ eh_of (concat fs ++ hs ++ pre' ++ [r]) ->
    2 <= h -> concat fs ++ hs ++ pre' = p ++ d :: post -> eh_of d = Some (h - 1) ->
    ~ In h (markers eh_of (concat fs ++ hs ++ pre')) -> eh_of r <> Some h ->
    (exists x s', (x = [] \/ x = [r]) /\
       restart crc valid eh_of true s (len (frames crc pre') + Z.of_nat j) h true d0a d0b =
         (s', (0%N, true, post ++ x)) /\
       head s' = frames crc (hs ++ pre' ++ x) /\ buf s' = [] /\ synced s' = len (head s') /\
       read_all crc valid true s' = (concat fs ++ hs ++ pre' ++ x, TEof))
    \/ CrcCollision crc.
Proof. exact restart_reaches_repair_journal_any. Qed.
Print Assumptions C15_restart_reaches_repair_journal_any.

(* ---- non-vacuity on concrete data (real CRC-32C; a record that starts with byte 99 is the
   #ENDHEIGHT marker of its second byte) ---- *)
Definition ex_eh (d : bytes) : option Z :=
  match d with 99%N :: m :: _ => Some (Z.of_N m) | _ => None end.
Definition ex_mk (h : N) : bytes := [99; h; 1]%N.

(* a log with a rolled file and a head: markers 0 1 | 0 2, the last record unsynced and cut
   3 bytes in by the crash, then repaired *)
Definition ex_ops : list dop :=
  [DWriteSync (ex_mk 0); DWriteSync (ex_mk 1); DWriteSync ex_r1; DRotate;
   DWriteSync (ex_mk 0); DWriteSync (ex_mk 2); DWriteSync ex_r2; DWrite ex_r1; DCrash 3].
Definition ex_s : st := fold_left (dstep crc32c_be vtrue) ex_ops (init_at crc32c_be 0 0 7 []).
Definition ex_fs : list (list bytes) := [[ex_mk 0; ex_mk 1; ex_r1]].
Definition ex_hr : list bytes := [ex_mk 0; ex_mk 2; ex_r2].

Example C15_search_iff_nonvacuous :
  SInv crc32c_be vtrue ex_s ex_fs ex_hr [] /\ tail_ok crc32c_be false [] /\ Idx ex_s /\
  MonoNZ ex_eh (concat ex_fs ++ ex_hr) /\
  markers ex_eh (concat ex_fs ++ ex_hr) = [0; 1; 0; 2] /\
  fst (search crc32c_be vtrue ex_eh true ex_s 1 false) =
    Found (frames crc32c_be [ex_r1; ex_mk 0; ex_mk 2; ex_r2]) /\
  fst (search crc32c_be vtrue ex_eh true ex_s 2 true) = Found (frames crc32c_be [ex_r2]) /\
  fst (search crc32c_be vtrue ex_eh true ex_s 3 true) = NotFound /\
  (* the marker 0 occurs twice: the one of the newest file is found (C15_search_general) *)
  fst (search crc32c_be vtrue ex_eh true ex_s 0 true) = Found (frames crc32c_be [ex_mk 2; ex_r2]).
Proof.
  split; [|split; [reflexivity|split; [|split; [|vm_compute; repeat split; reflexivity]]]].
  - constructor; [vm_compute; reflexivity|vm_compute; reflexivity|].
    repeat constructor; unfold len, wal_max_msg_size_bytes; cbn; lia.
  - unfold Idx, base. vm_compute. discriminate.
  - apply sorted_MonoNZ. vm_compute. repeat constructor.
Qed.

(* a torn tail in front of the marker in scan order: the head (marker 2) ends in 5 bytes of a
   frame, the marker 1 is in the rolled file.  IgnoreDataCorruptionErrors = false: error;
   true: found, and the reader behind it runs into the corruption error at the end. *)
Definition ex_torn : st :=
  crash (fold_left (dstep crc32c_be vtrue)
           [DWriteSync (ex_mk 1); DWriteSync ex_r1; DRotate; DWriteSync (ex_mk 2); DWrite ex_r2]
           (init 0 0)) 5.
Example C15_search_torn_first_nonvacuous :
  head ex_torn = frames crc32c_be [ex_mk 2] ++ firstn 5 (frame crc32c_be ex_r2) /\
  torn_first ex_eh true false 1 [ex_mk 2] /\
  fst (search crc32c_be vtrue ex_eh true ex_torn 1 false) = SearchErr /\
  fst (search crc32c_be vtrue ex_eh true ex_torn 1 true) =
    Found (frames crc32c_be [ex_r1; ex_mk 2] ++ firstn 5 (frame crc32c_be ex_r2)) /\
  decode_all crc32c_be vtrue true RGroup
    (frames crc32c_be [ex_r1; ex_mk 2] ++ firstn 5 (frame crc32c_be ex_r2)) =
    ([ex_r1; ex_mk 2], TCorrupt) /\
  fst (search crc32c_be vtrue ex_eh true ex_torn 2 false) =
    Found (firstn 5 (frame crc32c_be ex_r2)).
Proof.
  split; [vm_compute; reflexivity|]. split.
  - repeat split. vm_compute. intros [H|[]]. discriminate.
  - vm_compute. repeat split; reflexivity.
Qed.

(* OnStart on a head cut 5 bytes into an unsynced record, node at height 2: one repair, the
   replay gets the record behind #ENDHEIGHT 1, the head is the intact records *)
Example C15_restart_reaches_repair_nonvacuous :
  let s := fold_left (dstep crc32c_be vtrue)
             [DWriteSync (ex_mk 0); DWriteSync (ex_mk 1); DWriteSync ex_r1; DWrite ex_r2] (init 0 0) in
  head (crash s 5) = frames crc32c_be [ex_mk 0; ex_mk 1; ex_r1] ++ firstn 5 (frame crc32c_be ex_r2) /\
  snd (restart crc32c_be vtrue ex_eh true s 5 2 true (ex_mk 0) (ex_mk 0)) = (0%N, true, [ex_r1]) /\
  head (fst (restart crc32c_be vtrue ex_eh true s 5 2 true (ex_mk 0) (ex_mk 0))) =
    frames crc32c_be [ex_mk 0; ex_mk 1; ex_r1] /\
  (* the decoder before the F8 repair on a 2-byte tail: clean EOF, no repair *)
  snd (restart crc32c_be vtrue ex_eh false s 2 2 true (ex_mk 0) (ex_mk 0)) = (0%N, false, [ex_r1]).
Proof. vm_compute. repeat split; reflexivity. Qed.

Example C15_search_after_repair_nonvacuous :
  let s := fold_left (dstep crc32c_be vtrue)
             [DWriteSync (ex_mk 1); DWriteSync ex_r1; DWrite ex_r2; DWrite ex_r1] (init 0 0) in
  (* the crash keeps the first unsynced record and 4 bytes of the second *)
  fst (search crc32c_be vtrue ex_eh true (crash_repair crc32c_be vtrue s 24) 1 false) =
    Found (frames crc32c_be [ex_r1; ex_r2]).
Proof. vm_compute. reflexivity. Qed.

(* the marker for h-1 in the rolled file, the head holds a record of height 2 and 5 bytes of
   the next one: the replay gets the records of both files behind the marker *)
Example C15_restart_reaches_repair_any_nonvacuous :
  let s := fold_left (dstep crc32c_be vtrue)
             [DWriteSync (ex_mk 0); DWriteSync (ex_mk 1); DWriteSync ex_r2; DRotate;
              DWriteSync ex_r1; DWrite ex_r2] (init 0 0) in
  head (crash s 5) = frames crc32c_be [ex_r1] ++ firstn 5 (frame crc32c_be ex_r2) /\
  snd (restart crc32c_be vtrue ex_eh true s 5 2 true (ex_mk 0) (ex_mk 0)) = (0%N, true, [ex_r2; ex_r1]) /\
  head (fst (restart crc32c_be vtrue ex_eh true s 5 2 true (ex_mk 0) (ex_mk 0))) =
    frames crc32c_be [ex_r1].
Proof. vm_compute. repeat split; reflexivity. Qed.

(* ================================================================== start on a synced state
   (finding F88; coq/C15/ModelSync.v, ProofsSync.v).  Only finalizeCommit writes #ENDHEIGHT h, so
   a node whose blocks up to H came from block sync / state sync started height H+1 on a WAL
   without #ENDHEIGHT H and the next restart could not replay the records of H+1.  After the
   repair State.OnStart with doWALCatchup = false runs markSyncedHeight(H) = [mark_synced true]:
   unless the search finds #ENDHEIGHT H it is written with WriteSync before the first record of
   the new height. *)

(* the marker is appended to the journal and synced; the journal invariant and Idx hold again *)
Theorem C15_mark_synced_appends :
  forall (crc : bytes -> bytes) (valid : bytes -> bool) (eh_of : bytes -> option Z),
  (forall d, length (crc d) = 4%nat) ->
  forall (s : st) (fs : list (list bytes)) (hr : list bytes) (H : Z) (dH : bytes),
    SInv crc valid s fs hr [] -> buf s = [] -> synced s = len (head s) -> Idx s ->
    okrec valid dH -> 1 <= H -> ~ In H (markers eh_of (concat fs ++ hr)) ->
    exists fs', Inv crc valid (mark_synced crc valid eh_of true true s H dH) fs' (hr ++ [dH]) [] /\
      concat fs' = concat fs /\ Idx (mark_synced crc valid eh_of true true s H dH).
Proof. exact mark_synced_spec. Qed.
Print Assumptions C15_mark_synced_appends.

(* Last clause of the property, WAL side, for the first height after a sync.  The node is
   started on a synced state at height H on ANY log J = concat fs ++ hr that has no #ENDHEIGHT H
   and whose non-zero markers lie below H (a fresh WAL, or the WAL of an earlier life), writes
   ANY records of height H+1 with Write / WriteSync / FlushAndSync (none of them a marker: the
   crash happens inside the height), crashes at ANY byte offset of the unsynced tail and
   restarts with catch-up at height H+1 (Model.restart = the OnStart loop): the start-up ends
   with status 0 (after exactly one repair when the crash tore a record) and the replay is
   handed exactly the synced records of height H+1 ([sy]) followed by the unsynced ones that
   survived ([kept], a prefix of [un]) — or the checksum collides.
   [wop]: DWrite d / DWriteSync d with okrec d and eh_of d = None, DFlush.
   [jrun [] [] ops] = (synced, unsynced) records written by ops. *)
Theorem C15_replay_after_sync :
  forall (crc : bytes -> bytes) (valid : bytes -> bool) (eh_of : bytes -> option Z),
  (forall d, length (crc d) = 4%nat) -> valid [] = false ->
  forall (s : st) (fs : list (list bytes)) (hr : list bytes) (H : Z) (dH : bytes)
         (ops : list dop) (keep : Z) (d0a d0b : bytes),
    SInv crc valid s fs hr [] -> buf s = [] -> synced s = len (head s) -> Idx s ->
    okrec valid dH -> eh_of dH = Some H -> 1 <= H ->
    MonoNZ eh_of ((concat fs ++ hr) ++ [dH]) -> ~ In H (markers eh_of (concat fs ++ hr)) ->
    Forall (wop valid eh_of) ops ->
    let s2 := fold_left (dstep crc valid) ops (mark_synced crc valid eh_of true true s H dH) in
    let sy := fst (jrun [] [] ops) in
    let un := snd (jrun [] [] ops) in
    (exists rep kept lost s', un = kept ++ lost /\
       restart crc valid eh_of true s2 keep (H + 1) true d0a d0b = (s', (0%N, rep, sy ++ kept)))
    \/ CrcCollision crc.
Proof. exact replay_after_sync. Qed.
Print Assumptions C15_replay_after_sync.

(* blocks 1..2 synced, fresh WAL (#ENDHEIGHT 0), the node writes proposal and prevote of height 3
   (synced) and 4 bytes of a further record, dies; restart at height 3 *)
Definition ex_sync_s0 : st := open_wal crc32c_be (init 0 0) (ex_mk 0).
Definition ex_sync_ops : list dop := [DWriteSync ex_r1; DWriteSync ex_r2; DWrite ex_r1].

Example C15_replay_after_sync_nonvacuous :
  SInv crc32c_be vtrue ex_sync_s0 [] [ex_mk 0] [] /\ buf ex_sync_s0 = [] /\
  synced ex_sync_s0 = len (head ex_sync_s0) /\ Idx ex_sync_s0 /\
  MonoNZ ex_eh (([] ++ [ex_mk 0]) ++ [ex_mk 2]) /\ ~ In 2 (markers ex_eh [ex_mk 0]) /\
  Forall (wop vtrue ex_eh) ex_sync_ops /\
  jrun [] [] ex_sync_ops = ([ex_r1; ex_r2], [ex_r1]) /\
  let s2 := fold_left (dstep crc32c_be vtrue) ex_sync_ops
              (mark_synced crc32c_be vtrue ex_eh true true ex_sync_s0 2 (ex_mk 2)) in
  snd (restart crc32c_be vtrue ex_eh true s2 4 3 true (ex_mk 0) (ex_mk 0)) = (0%N, true, [ex_r1; ex_r2]) /\
  snd (restart crc32c_be vtrue ex_eh true s2 0 3 true (ex_mk 0) (ex_mk 0)) = (0%N, false, [ex_r1; ex_r2]) /\
  snd (restart crc32c_be vtrue ex_eh true s2 1000 3 true (ex_mk 0) (ex_mk 0)) = (0%N, false, [ex_r1; ex_r2; ex_r1]).
Proof.
  split; [|split; [reflexivity|split; [vm_compute; reflexivity|split; [|split; [|split; [|split;
    [|split; [reflexivity|vm_compute; repeat split; reflexivity]]]]]]]].
  - constructor; [reflexivity|vm_compute; reflexivity|].
    repeat constructor; unfold len, wal_max_msg_size_bytes; cbn; lia.
  - unfold Idx, base. vm_compute. discriminate.
  - apply sorted_MonoNZ. vm_compute. repeat constructor.
  - vm_compute. intros [H|[]]. discriminate.
  - repeat constructor; unfold len, wal_max_msg_size_bytes; cbn; lia.
Qed.

(* REGRESSION WITNESS (F88), the transcription of the code BEFORE the repair ([mark_synced false]
   writes nothing): the same life — the proposal and the prevote of height 3 are synced and a
   reader returns them, but the restart ends with "cannot replay height 3. WAL does not contain
   #ENDHEIGHT for 2" (status 1) and nothing is replayed: the conclusion of C15_replay_after_sync
   fails for the unrepaired start-up. *)
Example C15_replay_after_sync_refuted :
  exists (s : st) (ops : list dop) (keep : Z),
    Forall (wop vtrue ex_eh) ops /\
    let s2 := fold_left (dstep crc32c_be vtrue) ops
                (mark_synced crc32c_be vtrue ex_eh true false s 2 (ex_mk 2)) in
    fst (jrun [] [] ops) = [ex_r1; ex_r2] /\
    read_all crc32c_be vtrue true (crash s2 keep) = ([ex_mk 0; ex_r1; ex_r2], TEof) /\
    snd (restart crc32c_be vtrue ex_eh true s2 keep 3 true (ex_mk 0) (ex_mk 0)) = (1%N, false, []).
Proof.
  exists ex_sync_s0, ex_sync_ops, 0. split.
  - repeat constructor; unfold len, wal_max_msg_size_bytes; cbn; lia.
  - vm_compute. repeat split; reflexivity.
Qed.
