(* C15 — The consensus write-ahead log returns what was durably written, in order.
   Only the property statements; each is closed by [exact] of a lemma of Proofs.v and followed
   by Print Assumptions.  [crc] is an arbitrary checksum function with a four-byte result:
   nothing is assumed about its strength — where it matters the conclusion carries the disjunct
   [CrcCollision crc], built from the inputs of the theorem.  [valid] is the (opaque) success of
   proto.Unmarshal + WALFromProto on the payload.  The decoder is the one with the F8 repair
   (last argument [true] of decode1/decode_all). *)
From Coq Require Import List ZArith NArith Bool Lia.
From TM Require Import Common.Hex Generated.Consts C15.Crc32c C15.Model C15.Proofs.
Import ListNotations.
Open Scope Z_scope.

(* Clause "in write order and byte-identical": whatever was framed by Encode is decoded back,
   record for record, ending in a clean io.EOF — through the group reader and through the
   plain file reader of repairWalFile. *)
Theorem C15_roundtrip :
  forall (crc : bytes -> bytes) (valid : bytes -> bool), (forall d, length (crc d) = 4%nat) ->
  forall (kd : rkind) (rs : list bytes), Forall (okrec valid) rs ->
    decode_all crc valid true kd (frames crc rs) = (rs, TEof).
Proof. exact roundtrip. Qed.
Print Assumptions C15_roundtrip.

(* Frames are self-delimiting: the records of an intact prefix are returned first and in
   order, whatever bytes follow (rotation boundaries, a torn record, damage). *)
Theorem C15_prefix_records_first :
  forall (crc : bytes -> bytes) (valid : bytes -> bool), (forall d, length (crc d) = 4%nat) ->
  forall (kd : rkind) (rs : list bytes) (t : bytes), Forall (okrec valid) rs ->
    decode_all crc valid true kd (frames crc rs ++ t) =
      let '(l, tm) := decode_all crc valid true kd t in (rs ++ l, tm).
Proof. exact decode_all_app. Qed.
Print Assumptions C15_prefix_records_first.

(* Clause "a crash that leaves a partial record at the end ... never returns a record that was
   not written": for EVERY strict non-empty prefix of a frame appended to intact records the
   reader returns exactly the intact records and then reports corruption (which makes OnStart
   repair the file); a clean EOF is reported only when no byte of the next record is there.
   No assumption on the checksum. *)
Theorem C15_torn_tail_no_phantom :
  forall (crc : bytes -> bytes) (valid : bytes -> bool), (forall d, length (crc d) = 4%nat) ->
  forall (rs : list bytes) (r : bytes) (k : nat),
    Forall (okrec valid) rs -> len r <= wal_max_msg_size_bytes ->
    (k < length (frame crc r))%nat ->
    decode_all crc valid true RGroup (frames crc rs ++ firstn k (frame crc r)) =
      (rs, if Nat.eqb k 0 then TEof else TCorrupt).
Proof. exact torn_tail_no_phantom. Qed.
Print Assumptions C15_torn_tail_no_phantom.

(* The same tail seen by repairWalFile (os.File semantics: short reads are not errors and the
   buffer is zero-initialised): the repaired file holds the intact records, plus at most the
   record that was being written (when exactly its trailing zero bytes were cut off) — or the
   checksum collides. *)
Theorem C15_repair_keeps_intact_records :
  forall (crc : bytes -> bytes) (valid : bytes -> bool), (forall d, length (crc d) = 4%nat) ->
  valid [] = false ->
  forall (rs : list bytes) (r : bytes) (k : nat),
    Forall (okrec valid) rs -> len r <= wal_max_msg_size_bytes ->
    (k < length (frame crc r))%nat ->
    let out := fst (decode_all crc valid true RPlain (frames crc rs ++ firstn k (frame crc r))) in
    out = rs \/ out = rs ++ [r] \/ CrcCollision crc.
Proof. exact repair_keeps_intact. Qed.
Print Assumptions C15_repair_keeps_intact_records.

(* Clause "single-byte corruptions": a record the group reader returns stands on disk behind
   its own checksum and announced length ... *)
Theorem C15_returned_record_is_checksummed :
  forall (crc : bytes -> bytes) (valid : bytes -> bool) (s d rest : bytes),
    decode1 crc valid true RGroup s = DRec d rest ->
    exists l4, s = crc d ++ l4 ++ d ++ rest /\ length l4 = 4%nat /\
               rd32 l4 = N.of_nat (length d) /\ valid d = true /\ (0 < length d)%nat.
Proof. exact decode1_sound. Qed.
Print Assumptions C15_returned_record_is_checksummed.

(* ... so damage to the data of a frame (same length, any number of bytes) is reported as
   corruption unless the checksum collides, and damage to the checksum field always is. *)
Theorem C15_data_damage_detected :
  forall (crc : bytes -> bytes) (valid : bytes -> bool), (forall d, length (crc d) = 4%nat) ->
  forall (kd : rkind) (d0 d' t : bytes),
    (0 < length d0)%nat -> len d0 <= wal_max_msg_size_bytes ->
    length d' = length d0 -> d' <> d0 ->
    decode1 crc valid true kd (crc d0 ++ be32 (N.of_nat (length d0)) ++ d' ++ t) = DCorrupt t
    \/ CrcCollision crc.
Proof. exact data_damage. Qed.
Print Assumptions C15_data_damage_detected.

Theorem C15_checksum_damage_detected :
  forall (crc : bytes -> bytes) (valid : bytes -> bool) (kd : rkind) (c d t : bytes),
    length c = 4%nat -> (0 < length d)%nat -> len d <= wal_max_msg_size_bytes -> c <> crc d ->
    decode1 crc valid true kd (c ++ be32 (N.of_nat (length d)) ++ d ++ t) = DCorrupt t.
Proof. exact crc_field_damage. Qed.
Print Assumptions C15_checksum_damage_detected.

(* Clause "the size limit may discard only whole oldest files": checkTotalSizeLimit drops at
   most maxFilesToRemove files from the old end and touches neither the remaining files nor
   the head; RotateFile moves the whole head (with what was buffered) behind the newest file. *)
Theorem C15_prune_whole_oldest_files :
  forall s : st, exists k : nat,
    Z.of_nat k <= autofile_max_files_to_remove /\
    files (check_total s) = skipn k (files s) /\
    head (check_total s) = head s /\ buf (check_total s) = buf s /\
    synced (check_total s) = synced s /\ gmax (check_total s) = gmax s.
Proof. exact check_total_whole_oldest. Qed.
Print Assumptions C15_prune_whole_oldest_files.

Theorem C15_rotate_moves_whole_head :
  forall s : st,
    files (rotate s) = files s ++ [head s ++ buf s] /\ head (rotate s) = [] /\ buf (rotate s) = [].
Proof. exact rotate_whole_head. Qed.
Print Assumptions C15_rotate_moves_whole_head.

(* ------------------------------------------------------------------ crash / reopen cycles
   [Inv s fs hs hu]: the indexed files of state s are the frames of the record lists fs, the
   head (file plus buffer) is the frames of hs ++ hu, and the synced prefix is exactly hs.
   The write-side operations, rotation, both limit checks and crash(any offset)+repair are
   modelled by [dstep]; [jstep] is the journal they must follow: a crash loses nothing but a
   suffix of the records that were never covered by a sync. *)

(* One cycle, EVERY truncation offset of the unsynced tail: after the crash and the repair the
   reader returns all records of the files, all synced records of the head and a prefix of the
   unsynced ones, in order, byte-identical, ending in a clean EOF; the invariant holds again. *)
Theorem C15_crash_cycle_keeps_synced :
  forall (crc : bytes -> bytes) (valid : bytes -> bool),
  (forall d, length (crc d) = 4%nat) -> valid [] = false ->
  forall (s : st) (fs : list (list bytes)) (hs hu : list bytes) (keep : Z),
    Inv crc valid s fs hs hu ->
    (exists kept lost, hu = kept ++ lost /\
       Inv crc valid (crash_repair crc valid s keep) fs (hs ++ kept) [] /\
       buf (crash_repair crc valid s keep) = [] /\
       read_all crc valid true (crash_repair crc valid s keep) = (concat fs ++ hs ++ kept, TEof))
    \/ CrcCollision crc.
Proof. intros crc valid H1 H2. exact (crash_repair_cycle crc valid H1 H2). Qed.
Print Assumptions C15_crash_cycle_keeps_synced.

(* Any number of cycles interleaved with any writes, synced writes, flushes, rotations and limit
   checks: the state always corresponds to a journal reached by [jsteps] — or the checksum
   collides.  PARTIAL with respect to the property: the restart is crash + repairWalFile applied
   unconditionally (on an intact head the repair is the identity, see C15_roundtrip); that
   State.OnStart reaches the repair whenever the head ends in a torn record (catchupReplay finds
   the marker, then hits the DataCorruptionError of C15_torn_tail_no_phantom) is checked on the
   implementation by the harness monitors, not proved here.  Full statement intended:
     forall ops over Model.op (incl. ORestart with the catch-up search), all restart statuses 0
       -> exists j, jsteps j0 (erase ops) j /\ JInv (fst (run ... ops)) j  \/ CrcCollision. *)
Theorem C15_durable_across_cycles_partial :
  forall (crc : bytes -> bytes) (valid : bytes -> bool),
  (forall d, length (crc d) = 4%nat) -> valid [] = false ->
  (* the directory may already hold rolled files numbered base, base+1, ... for ANY base (file
     numbers of any magnitude); [pre] = their records *)
  forall (hl tl base : Z) (pre : list (list bytes)) (ops : list dop),
    Forall (okrec valid) (concat pre) -> Forall (okop valid) ops ->
    (exists j, jsteps (J pre [] []) ops j /\
               JInv crc valid (fold_left (dstep crc valid) ops (init_at crc hl tl base pre)) j)
    \/ CrcCollision crc.
Proof.
  intros crc valid H1 H2 hl tl base pre ops Hpre Hops.
  exact (dsteps_refine crc valid H1 H2 ops (init_at crc hl tl base pre) (J pre [] [])
           (init_at_inv crc valid hl tl base pre Hpre) Hops).
Qed.
Print Assumptions C15_durable_across_cycles_partial.

(* What the journal allows: per step the durable part (files + synced records of the head) can
   only lose at most maxFilesToRemove whole oldest files, grow at the end, or get a new empty
   last segment. *)
Theorem C15_journal_step_durable :
  forall (j : jst) (o : dop) (j' : jst), jstep j o j' ->
  exists (k : nat) (add : list bytes), Z.of_nat k <= autofile_max_files_to_remove /\
    (jf j' ++ [js j'] = skipn k (jf j) ++ [js j ++ add] \/
     jf j' ++ [js j'] = skipn k (jf j) ++ [js j ++ add; []]).
Proof. exact journal_step_durable. Qed.
Print Assumptions C15_journal_step_durable.

(* ... and a reader over a state that corresponds to a journal (buffer flushed) returns exactly
   the journal, in order, ending in EOF. *)
Theorem C15_reader_returns_journal :
  forall (crc : bytes -> bytes) (valid : bytes -> bool), (forall d, length (crc d) = 4%nat) ->
  forall (s : st) (fs : list (list bytes)) (hs hu : list bytes),
    Inv crc valid s fs hs hu -> buf s = [] ->
    read_all crc valid true s = (concat fs ++ hs ++ hu, TEof).
Proof. intros crc valid H1. exact (inv_read_all crc valid H1). Qed.
Print Assumptions C15_reader_returns_journal.

(* rolled files are numbered contiguously from any base; rotation gives the head the number
   maxIndex (so a group whose files are numbered 999, 1000 continues with 1001) *)
Example C15_large_indices_nonvacuous :
  let s0 := init_at crc32c_be 0 0 999 [[[10; 2; 8; 1]%N]; [[10; 2; 8; 2]%N]] in
  disk_indices s0 = [999; 1000] /\
  disk_indices (rotate (open_wal crc32c_be s0 [10; 2; 8; 3]%N)) = [999; 1000; 1001] /\
  gmin (open_wal crc32c_be s0 [10; 2; 8; 3]%N) = 999 /\
  gmax (open_wal crc32c_be (rotate (open_wal crc32c_be s0 [10; 2; 8; 3]%N)) [10; 2; 8; 4]%N) = 1002.
Proof. vm_compute. repeat split; reflexivity. Qed.

(* ---- non-vacuity and the F8 witness, on concrete data with the real CRC-32C ---- *)
Definition ex_r1 : bytes := [10; 2; 8; 1; 18; 4; 26; 2; 8; 1]%N.
Definition ex_r2 : bytes := [10; 2; 8; 2; 18; 6; 34; 4; 8; 7; 16; 0]%N.
Definition vtrue (d : bytes) : bool := negb (Nat.eqb (length d) 0).

Example C15_roundtrip_nonvacuous :
  Forall (okrec vtrue) [ex_r1; ex_r2] /\
  decode_all crc32c_be vtrue true RGroup (frames crc32c_be [ex_r1; ex_r2]) = ([ex_r1; ex_r2], TEof).
Proof.
  split; [|vm_compute; reflexivity].
  repeat constructor; unfold len, wal_max_msg_size_bytes; cbn; lia.
Qed.

(* F8: two bytes of the next record after an intact one.  The decoder before the repair reports
   a clean EOF (so OnStart does not repair and later frames are appended behind the two bytes);
   the repaired decoder reports corruption. *)
Example C15_torn_checksum_F8 :
  let s := frames crc32c_be [ex_r1] ++ firstn 2 (frame crc32c_be ex_r2) in
  decode_all crc32c_be vtrue false RGroup s = ([ex_r1], TEof) /\
  decode_all crc32c_be vtrue true RGroup s = ([ex_r1], TCorrupt) /\
  (* unrepaired, with a later acknowledged record appended: that record is unreadable *)
  decode_all crc32c_be vtrue false RGroup (s ++ frame crc32c_be ex_r2) = ([ex_r1], TCorrupt).
Proof. vm_compute. repeat split; reflexivity. Qed.

(* a cycle on a concrete state: two synced and one unsynced record, crash 3 bytes into it *)
Example C15_cycle_nonvacuous :
  let s0 := init 0 0 in
  let s1 := fold_left (dstep crc32c_be vtrue) [DWriteSync ex_r1; DWriteSync ex_r2; DWrite ex_r1; DCrash 3] s0 in
  read_all crc32c_be vtrue true s1 = ([ex_r1; ex_r2], TEof).
Proof. vm_compute. reflexivity. Qed.
