(* C15 — SearchForEndHeight, the catch-up search of catchupReplay and the repair loop of
   State.OnStart, proved over the model of coq/C15/Model.v (decoder with the F8 repair).

   States are described at the level of records:
     [SInv s fs hr t]  the indexed files of s are the frames of the record lists fs, the head
                       FILE (what a reader sees; the bufio buffer is not part of it) is the frames
                       of hr followed by the bytes t;
     [tail_ok tb t]    t is empty (tb = false) or a non-empty strict prefix of a frame (tb = true:
                       the torn record a crash — or an unflushed buffer — leaves at the end).
   The journal of surviving records is J = concat fs ++ hr; [markers J] are its #ENDHEIGHT
   heights in order. *)
From Coq Require Import List ZArith NArith Bool Lia Sorted.
From TM Require Import Common.Hex Generated.Consts C15.Model C15.Proofs.
Import ListNotations.
Open Scope Z_scope.

(* ------------------------------------------------------------------ list helpers *)
Lemma last_cons_default : forall (l : list Z) (m d : Z), List.last (m :: l) d = List.last l m.
Proof.
  induction l as [|a l IH]; intros m d; [reflexivity|].
  change (List.last (m :: a :: l) d) with (List.last (a :: l) d).
  rewrite (IH a d), (IH a m). reflexivity.
Qed.

Lemma last_app_default : forall (x y : list Z) (d : Z),
  List.last (x ++ y) (List.last y d) = List.last (x ++ y) d.
Proof.
  intros x y d. destruct y as [|b y].
  - reflexivity.
  - revert d. induction x as [|a x IH]; intro d.
    + cbn [app]. rewrite !last_cons_default. reflexivity.
    + cbn [app]. rewrite !last_cons_default.
      destruct x as [|a' x]; cbn [app]; rewrite !last_cons_default; reflexivity.
Qed.

Lemma last_in : forall (l : list Z) (d : Z), List.last l d <> d -> In (List.last l d) l.
Proof.
  induction l as [|a l IH]; intros d H; [cbn in H; congruence|].
  rewrite last_cons_default in *.
  destruct (Z.eq_dec (List.last l a) a) as [E|E].
  - rewrite E. left. reflexivity.
  - right. apply IH. exact E.
Qed.

Lemma skipn_cons_nth : forall {A} (l : list A) (k : nat), (k < length l)%nat ->
  exists x, skipn k l = x :: skipn (S k) l.
Proof.
  intros A l. induction l as [|a l IH]; intros k H; [cbn in H; lia|].
  destruct k as [|k]; [exists a; reflexivity|].
  cbn [length] in H. destruct (IH k ltac:(lia)) as (x & E). exists x. exact E.
Qed.

Lemma map_repeat_nil : forall {A B} (f : list A -> list B) (m : nat),
  f [] = [] -> map f (repeat [] m) = repeat [] m.
Proof. intros A B f m H. induction m as [|m IH]; [reflexivity|]. cbn [repeat map]. rewrite H, IH. reflexivity. Qed.

Lemma concat_repeat_nil : forall {A} (m : nat), concat (repeat (@nil A) m) = [].
Proof. intros A m. induction m as [|m IH]; [reflexivity|]. cbn [repeat concat]. exact IH. Qed.

Section Search.
Variable crc : bytes -> bytes.
Variable valid : bytes -> bool.
Variable eh_of : bytes -> option Z.
Hypothesis crc_len : forall d, length (crc d) = 4%nat.

Notation frame := (frame crc).
Notation frames := (frames crc).
Notation okrec := (okrec valid).
Notation decode1 := (decode1 crc valid true).
Notation decode_all := (decode_all crc valid true).
Notation scan := (scan crc valid eh_of true).
Notation scan_f := (scan_f crc valid eh_of true).
Notation search_loop := (search_loop crc valid eh_of true).
Notation search := (search crc valid eh_of true).

(* the #ENDHEIGHT heights of a list of records, in order *)
Definition markers (rs : list bytes) : list Z :=
  flat_map (fun d => match eh_of d with Some m => [m] | None => [] end) rs.

Lemma markers_app : forall a b, markers (a ++ b) = markers a ++ markers b.
Proof. intros. apply flat_map_app. Qed.
Lemma markers_cons : forall d rs,
  markers (d :: rs) = match eh_of d with Some m => [m] | None => [] end ++ markers rs.
Proof. reflexivity. Qed.

(* the tail of the head file *)
Definition tail_ok (tb : bool) (t : bytes) : Prop :=
  if tb then exists r k, len r <= wal_max_msg_size_bytes /\ (0 < k < length (frame r))%nat /\
                         t = firstn k (frame r)
  else t = [].

(* ------------------------------------------------------------------ the inner loop on records *)
Inductive jres := JFound (post : list bytes) | JEof (lst : Z) | JErr.

Fixpoint jscan (ig tb : bool) (h lst : Z) (rs : list bytes) : jres :=
  match rs with
  | [] => if tb && negb ig then JErr else JEof lst
  | d :: rs' =>
    match eh_of d with
    | Some m => if m =? h then JFound rs' else jscan ig tb h m rs'
    | None => jscan ig tb h lst rs'
    end
  end.

Definition conv (t : bytes) (j : jres) : scan_res :=
  match j with
  | JFound post => SFound (frames post ++ t)
  | JEof l => SEof l
  | JErr => SErr
  end.

Lemma scan_f_spec : forall ig tb h t, tail_ok tb t ->
  forall rs lst fuel, Forall okrec rs -> (length (frames rs ++ t) < fuel)%nat ->
  scan_f fuel ig h lst (frames rs ++ t) = conv t (jscan ig tb h lst rs).
Proof.
  intros ig tb h t Ht rs. induction rs as [|d rs IH]; intros lst fuel Hok Hf.
  - change (frames [] ++ t) with t in *. cbn [jscan].
    destruct fuel as [|f]; [lia|]. cbn [Model.scan_f].
    destruct tb; cbn [tail_ok] in Ht.
    + destruct Ht as (r & k & Hr & Hk & ->).
      rewrite (decode1_torn_group crc valid crc_len r k Hr Hk).
      destruct ig; cbn [andb negb conv]; [|reflexivity].
      destruct f as [|f'].
      { rewrite firstn_length in Hf. lia. }
      cbn [Model.scan_f]. rewrite decode1_nil. reflexivity.
    + subst t. rewrite decode1_nil. reflexivity.
  - inversion Hok as [|? ? Hd Hrs]; subst.
    rewrite frames_cons, <- app_assoc in *.
    destruct fuel as [|f]; [lia|]. cbn [Model.scan_f jscan].
    rewrite (decode1_frame crc valid crc_len) by assumption.
    assert (Hf' : (length (frames rs ++ t) < f)%nat).
    { rewrite app_length, (frame_length crc crc_len) in Hf. lia. }
    destruct (eh_of d) as [m|].
    + destruct (m =? h); [reflexivity|]. apply IH; assumption.
    + apply IH; assumption.
Qed.

Lemma scan_spec : forall ig tb h t lst rs, tail_ok tb t -> Forall okrec rs ->
  scan ig h lst (frames rs ++ t) = conv t (jscan ig tb h lst rs).
Proof. intros. unfold Model.scan. apply scan_f_spec; [assumption|assumption|lia]. Qed.

(* what the three results of the inner loop mean *)
Lemma jscan_found : forall ig tb h rs lst post, jscan ig tb h lst rs = JFound post ->
  exists pre d, rs = pre ++ d :: post /\ eh_of d = Some h /\ ~ In h (markers pre).
Proof.
  intros ig tb h rs. induction rs as [|d rs IH]; intros lst post E; cbn [jscan] in E.
  - destruct (tb && negb ig); discriminate.
  - destruct (eh_of d) as [m|] eqn:Ed.
    + destruct (m =? h) eqn:Em.
      * apply Z.eqb_eq in Em. subst m. injection E as <-.
        exists [], d. repeat split; [assumption|intros []].
      * apply Z.eqb_neq in Em. destruct (IH _ _ E) as (pre & d' & E1 & E2 & E3).
        exists (d :: pre), d'. subst rs. repeat split; [assumption|].
        rewrite markers_cons, Ed. intros [H|H]; [congruence|exact (E3 H)].
    + destruct (IH _ _ E) as (pre & d' & E1 & E2 & E3).
      exists (d :: pre), d'. subst rs. repeat split; [assumption|].
      rewrite markers_cons, Ed. exact E3.
Qed.

Lemma jscan_eof : forall ig tb h rs lst l, jscan ig tb h lst rs = JEof l ->
  ~ In h (markers rs) /\ l = List.last (markers rs) lst /\ tb && negb ig = false.
Proof.
  intros ig tb h rs. induction rs as [|d rs IH]; intros lst l E; cbn [jscan] in E.
  - destruct (tb && negb ig); [discriminate|]. injection E as <-. repeat split. intros [].
  - rewrite markers_cons. destruct (eh_of d) as [m|] eqn:Ed.
    + destruct (m =? h) eqn:Em; [discriminate|]. apply Z.eqb_neq in Em.
      destruct (IH _ _ E) as (E1 & E2 & E3). repeat split; [|
        cbn [app]; rewrite last_cons_default; exact E2|exact E3].
      intros [H|H]; [congruence|exact (E1 H)].
    + exact (IH _ _ E).
Qed.

Lemma jscan_err : forall ig tb h rs lst, jscan ig tb h lst rs = JErr ->
  ~ In h (markers rs) /\ tb = true /\ ig = false.
Proof.
  intros ig tb h rs. induction rs as [|d rs IH]; intros lst E; cbn [jscan] in E.
  - destruct tb, ig; try discriminate. repeat split. intros [].
  - rewrite markers_cons. destruct (eh_of d) as [m|] eqn:Ed.
    + destruct (m =? h) eqn:Em; [discriminate|]. apply Z.eqb_neq in Em.
      destruct (IH _ E) as (E1 & E2 & E3). repeat split; try assumption.
      intros [H|H]; [congruence|exact (E1 H)].
    + exact (IH _ E).
Qed.

Lemma jscan_in : forall ig tb h rs lst, In h (markers rs) ->
  exists post, jscan ig tb h lst rs = JFound post.
Proof.
  intros ig tb h rs lst H. destruct (jscan ig tb h lst rs) as [post|l|] eqn:E.
  - exists post. reflexivity.
  - apply jscan_eof in E. tauto.
  - apply jscan_err in E. tauto.
Qed.

(* ------------------------------------------------------------------ states *)
Record SInv (s : st) (fs : list (list bytes)) (hr : list bytes) (t : bytes) : Prop := {
  si_files : files s = map frames fs;
  si_head : head s = frames hr ++ t;
  si_ok : Forall okrec (concat fs ++ hr) }.

(* the number of the oldest indexed file in the directory (of the head when there is none) *)
Definition base (s : st) : Z := gmax s - Z.of_nat (length (files s)).

(* everything but the list of indexed files *)
Definition same_mem (s s' : st) : Prop :=
  head s' = head s /\ buf s' = buf s /\ synced s' = synced s /\ gmin s' = gmin s /\
  gmax s' = gmax s /\ junk s' = junk s /\ head_limit s' = head_limit s /\
  total_limit s' = total_limit s.

Lemma same_mem_refl : forall s, same_mem s s.
Proof. intro s. repeat split. Qed.
Lemma same_mem_trans : forall a b c, same_mem a b -> same_mem b c -> same_mem a c.
Proof. unfold same_mem. intros a b c H1 H2. intuition congruence. Qed.

(* the records a reader opened at file number idx walks over *)
Lemma stream_spec : forall s fs hr t idx, SInv s fs hr t ->
  stream s idx = frames (concat (skipn (Z.to_nat (idx - base s)) fs) ++ hr) ++ t.
Proof.
  intros s fs hr t idx [Hf Hh _]. unfold stream, base. rewrite Hh.
  set (k := Z.to_nat _). rewrite Hf, skipn_map, frames_concat, frames_app, app_assoc.
  reflexivity.
Qed.

Lemma base_ensure : forall s idx,
  base (ensure s idx) = (if idx <? base s then idx else base s).
Proof.
  intros s idx. unfold ensure. fold (base s). destruct (idx <? base s) eqn:L; [|reflexivity].
  apply Z.ltb_lt in L. unfold base in *. cbn [files gmax set_disk].
  rewrite app_length, repeat_length, Nat2Z.inj_add, Z2Nat.id by lia.
  change (@length (list N) (files s)) with (@length bytes (files s)). lia.
Qed.

Lemma ensure_spec : forall s fs hr t idx, SInv s fs hr t ->
  exists fs', SInv (ensure s idx) fs' hr t /\ concat fs' = concat fs /\
    same_mem s (ensure s idx) /\
    base (ensure s idx) = (if idx <? base s then idx else base s) /\
    (base s <= idx -> ensure s idx = s).
Proof.
  intros s fs hr t idx H. unfold ensure. fold (base s).
  destruct (idx <? base s) eqn:L.
  - apply Z.ltb_lt in L. set (m := Z.to_nat (base s - idx)).
    exists (repeat [] m ++ fs). destruct H as [Hf Hh Hok]. split; [|split; [|split; [|split]]].
    + constructor; cbn [files head set_disk].
      * rewrite map_app, Hf. f_equal. symmetry. exact (map_repeat_nil frames m eq_refl).
      * exact Hh.
      * rewrite concat_app, concat_repeat_nil. exact Hok.
    + rewrite concat_app, concat_repeat_nil. reflexivity.
    + repeat split.
    + pose proof (base_ensure s idx) as B. unfold ensure in B. fold (base s) in B.
      apply Z.ltb_lt in L. rewrite L in B. exact B.
    + lia.
  - exists fs. repeat split; try assumption; apply H.
Qed.

(* one turn of the outer loop *)
Lemma search_loop_S : forall n idx ig h lst s,
  search_loop (S n) idx ig h lst s =
    let s' := ensure s idx in
    match scan ig h lst (stream s' idx) with
    | SFound rest => (Found rest, s')
    | SErr => (SearchErr, s')
    | SEof last' =>
      if (0 <? last') && (last' <? h) then (NotFound, s')
      else search_loop n (idx - 1) ig h last' s'
    end.
Proof. reflexivity. Qed.

Section Fixed.
Variables (hr : list bytes) (t : bytes) (tb ig : bool) (h : Z).
Hypothesis Htail : tail_ok tb t.

(* the records of the turn at idx, as a suffix of the journal *)
Lemma turn_spec : forall s fs idx lst, SInv s fs hr t ->
  exists A R, concat fs ++ hr = A ++ R /\
    scan ig h lst (stream s idx) = conv t (jscan ig tb h lst R) /\
    R = concat (skipn (Z.to_nat (idx - base s)) fs) ++ hr.
Proof.
  intros s fs idx lst H. set (k := Z.to_nat (idx - base s)).
  exists (concat (firstn k fs)), (concat (skipn k fs) ++ hr). split; [|split; [|reflexivity]].
  - rewrite app_assoc, <- concat_app, firstn_skipn. reflexivity.
  - rewrite (stream_spec s fs hr t idx H). fold k. apply scan_spec; [exact Htail|].
    destruct H as [_ _ Hok]. rewrite <- (firstn_skipn k fs), concat_app, <- app_assoc in Hok.
    apply Forall_app in Hok as [_ Hok]. exact Hok.
Qed.

(* Soundness and what happens to the state, for every number of turns, every start index and
   every value of lastHeightFound: a found marker is a record of the journal and the reader
   stands right behind it; an error needs a torn tail and IgnoreDataCorruptionErrors = false;
   the state only changes by empty files re-created below the oldest one. *)
Lemma search_loop_sound : forall n idx lst s fs r s',
  SInv s fs hr t -> search_loop n idx ig h lst s = (r, s') ->
  exists fs', SInv s' fs' hr t /\ concat fs' = concat fs /\ same_mem s s' /\
    match r with
    | Found rest => exists pre d post, concat fs ++ hr = pre ++ d :: post /\
                      eh_of d = Some h /\ rest = frames post ++ t
    | SearchErr => tb = true /\ ig = false
    | NotFound => True
    end.
Proof.
  induction n as [|n IH]; intros idx lst s fs r s' H E.
  - cbn in E. injection E as <- <-. exists fs. repeat split; try apply H.
  - rewrite search_loop_S in E. cbv zeta in E.
    destruct (ensure_spec s fs hr t idx H) as (fs1 & H1 & C1 & M1 & _).
    destruct (turn_spec (ensure s idx) fs1 idx lst H1) as (A & R & EJ & ES & _).
    rewrite ES in E. destruct (jscan ig tb h lst R) as [post|l|] eqn:EJS; cbn [conv] in E.
    + injection E as <- <-. exists fs1. repeat split; try apply H1; try apply M1; try assumption.
      destruct (jscan_found _ _ _ _ _ _ EJS) as (pre & d & -> & Ed & _).
      exists (A ++ pre), d, post. rewrite <- C1, EJ, <- app_assoc. repeat split. exact Ed.
    + destruct ((0 <? l) && (l <? h)).
      * injection E as <- <-. exists fs1. repeat split; try apply H1; try apply M1; assumption.
      * destruct (IH _ _ _ _ _ _ H1 E) as (fs2 & H2 & C2 & M2 & P).
        exists fs2. split; [exact H2|]. split; [congruence|].
        split; [exact (same_mem_trans _ _ _ M1 M2)|].
        destruct r; try exact P. rewrite <- C1. exact P.
    + injection E as <- <-. exists fs1. repeat split; try apply H1; try apply M1; try assumption;
      apply jscan_err in EJS; tauto.
Qed.

(* the loop never re-creates files below the index it stops at *)
Lemma search_loop_base : forall n idx lst s r s' lo,
  search_loop n idx ig h lst s = (r, s') ->
  lo <= base s -> lo <= idx - Z.of_nat n + 1 -> lo <= base s'.
Proof.
  induction n as [|n IH]; intros idx lst s r s' lo E Hb Hi.
  - cbn in E. injection E as _ <-. exact Hb.
  - rewrite search_loop_S in E. cbv zeta in E.
    assert (B1 : lo <= base (ensure s idx)).
    { rewrite base_ensure. destruct (idx <? base s); lia. }
    destruct (scan ig h lst (stream (ensure s idx) idx)) as [rest|l|].
    + injection E as _ <-. exact B1.
    + destruct ((0 <? l) && (l <? h)).
      * injection E as _ <-. exact B1.
      * apply (IH _ _ _ _ _ lo E B1). lia.
    + injection E as _ <-. exact B1.
Qed.

(* the turn at an index that is on disk: the state is left alone *)
Lemma turn_on_disk : forall s fs k lst, SInv s fs hr t -> (k <= length fs)%nat ->
  ensure s (base s + Z.of_nat k) = s /\
  scan ig h lst (stream s (base s + Z.of_nat k)) =
    conv t (jscan ig tb h lst (concat (skipn k (fs ++ [hr])))).
Proof.
  intros s fs k lst H Hk.
  destruct (ensure_spec s fs hr t (base s + Z.of_nat k) H) as (_ & _ & _ & _ & _ & E).
  split; [apply E; lia|].
  destruct (turn_spec s fs (base s + Z.of_nat k) lst H) as (A & R & _ & ES & ER).
  rewrite ES, ER. replace (Z.to_nat (base s + Z.of_nat k - base s)) with k by lia.
  rewrite skipn_app. replace (k - length fs)%nat with O by lia.
  cbn [skipn]. rewrite concat_app. cbn [concat]. rewrite app_nil_r. reflexivity.
Qed.

(* the marker is in the head: found in the first turn, behind its first occurrence there,
   whatever the older files hold, whatever the tail and the option are *)
Lemma search_loop_head_first : forall n s fs,
  SInv s fs hr t -> In h (markers hr) ->
  exists pre d post, hr = pre ++ d :: post /\ eh_of d = Some h /\ ~ In h (markers pre) /\
    search_loop (S n) (base s + Z.of_nat (length fs)) ig h (-1) s = (Found (frames post ++ t), s).
Proof.
  intros n s fs H Hin. rewrite search_loop_S. cbv zeta.
  destruct (turn_on_disk s fs (length fs) (-1) H (le_n _)) as [E1 E2].
  rewrite E1, E2. rewrite skipn_app, skipn_all, Nat.sub_diag. cbn [skipn app concat].
  rewrite app_nil_r.
  destruct (jscan_in ig tb h hr (-1) Hin) as (post & EJ).
  destruct (jscan_found _ _ _ _ _ _ EJ) as (pre & d & E3 & E4 & E5).
  exists pre, d, post. rewrite EJ. cbn [conv]. repeat split; assumption.
Qed.

(* torn tail, IgnoreDataCorruptionErrors = false, marker not in the head: the first turn runs
   into the torn record before any older file is opened — error, even when an older file
   holds the marker *)
Lemma search_loop_torn_error : forall n s fs,
  SInv s fs hr t -> tb = true -> ig = false -> ~ In h (markers hr) ->
  search_loop (S n) (base s + Z.of_nat (length fs)) ig h (-1) s = (SearchErr, s).
Proof.
  intros n s fs H Htb Hig Hnin. rewrite search_loop_S. cbv zeta.
  destruct (turn_on_disk s fs (length fs) (-1) H (le_n _)) as [E1 E2].
  rewrite E1, E2. rewrite skipn_app, skipn_all, Nat.sub_diag. cbn [skipn app concat].
  rewrite app_nil_r.
  destruct (jscan ig tb h (-1) hr) as [post|l|] eqn:EJ; cbn [conv].
  - destruct (jscan_found _ _ _ _ _ _ EJ) as (pre & d & -> & Ed & _).
    exfalso. apply Hnin. rewrite markers_app, markers_cons, Ed. apply in_or_app. right. left. reflexivity.
  - apply jscan_eof in EJ. destruct EJ as (_ & _ & C). subst tb ig. discriminate.
  - reflexivity.
Qed.

End Fixed.

(* ------------------------------------------------------------------ increasing markers
   What the callers guarantee: finalizeCommit writes #ENDHEIGHT h for h = 1, 2, 3, ... in this
   order, BaseWAL.OnStart writes #ENDHEIGHT 0 into every empty head.  So the NON-ZERO markers of
   the journal increase strictly; zero markers may stand anywhere.  Stated on cuts of the
   journal: a non-zero marker before the cut is below every non-zero marker behind it. *)
Definition MonoNZ (J : list bytes) : Prop :=
  forall A B x y, J = A ++ B -> In x (markers A) -> In y (markers B) ->
    x <> 0 -> y <> 0 -> x < y.

Lemma MonoNZ_prefix : forall J X, MonoNZ (J ++ X) -> MonoNZ J.
Proof.
  intros J X H A B x y E Hx Hy. apply (H A (B ++ X)).
  - rewrite E, app_assoc. reflexivity.
  - exact Hx.
  - rewrite markers_app. apply in_or_app. left. exact Hy.
Qed.

(* the usual formulation implies it *)
Lemma sorted_MonoNZ : forall J,
  StronglySorted Z.lt (filter (fun m => negb (m =? 0)) (markers J)) -> MonoNZ J.
Proof.
  intros J H A B x y -> Hx Hy Hx0 Hy0.
  rewrite markers_app, filter_app in H.
  set (f := fun m => negb (m =? 0)) in *.
  assert (Fx : In x (filter f (markers A))).
  { apply filter_In. split; [exact Hx|]. unfold f. apply negb_true_iff, Z.eqb_neq. exact Hx0. }
  assert (Fy : In y (filter f (markers B))).
  { apply filter_In. split; [exact Hy|]. unfold f. apply negb_true_iff, Z.eqb_neq. exact Hy0. }
  revert Fx H. generalize (filter f (markers A)) as la. revert Fy.
  generalize (filter f (markers B)) as lb.
  intros lb Fy la. induction la as [|a la IH]; intros Fx H; [destruct Fx|].
  cbn [app] in H. inversion H as [|? ? Hs Hf]; subst.
  destruct Fx as [->|Fx].
  - rewrite Forall_forall in Hf. apply Hf. apply in_or_app. right. exact Fy.
  - apply IH; assumption.
Qed.

(* a non-zero marker occurs once *)
Lemma MonoNZ_unique : forall J pre d post h, MonoNZ J -> h <> 0 ->
  J = pre ++ d :: post -> eh_of d = Some h ->
  ~ In h (markers pre) /\ ~ In h (markers post).
Proof.
  intros J pre d post h H H0 E Ed. split; intro Hin.
  - assert (L : h < h); [|lia]. apply (H pre (d :: post) h h E Hin); try assumption.
    rewrite markers_cons, Ed. left. reflexivity.
  - assert (L : h < h); [|lia]. apply (H (pre ++ [d]) post h h); try assumption.
    + rewrite E, <- app_assoc. reflexivity.
    + rewrite markers_app, markers_cons, Ed. apply in_or_app. right. left. reflexivity.
Qed.

(* The early exit ("no need to look in older files if we've seen 0 < m < h") looks at the LAST
   marker of what was read, and every turn reads to the end of the head: it is harmless exactly
   when the last marker of the journal is not strictly between 0 and h. *)
Definition exit_free (h : Z) (J : list bytes) : Prop :=
  In h (markers J) -> ~ (0 < List.last (markers J) (-1) < h).

Lemma last_app_nonempty : forall (x y : list Z) (d : Z), y <> [] ->
  List.last (x ++ y) d = List.last y d.
Proof.
  intros x y d Hy. destruct y as [|b y]; [congruence|]. revert d.
  induction x as [|a x IH]; intro d; [reflexivity|].
  cbn [app]. rewrite last_cons_default, IH, !last_cons_default. reflexivity.
Qed.

Lemma MonoNZ_exit_free : forall J h, MonoNZ J -> exit_free h J.
Proof.
  intros J h Mono Hin [L1 L2].
  set (l := List.last (markers J) (-1)) in *.
  assert (Il : In l (markers J)) by (apply last_in; fold l; lia).
  (* cut the journal behind the last record: l is the marker of the last marker record *)
  assert (K : forall rs, In h (markers rs) -> List.last (markers rs) (-1) = l ->
            MonoNZ rs -> False).
  { clear Hin Il Mono. intros rs. induction rs as [|x rs IH] using rev_ind; intros Hin El Mono.
    - destruct Hin.
    - rewrite markers_app in Hin, El. cbn [markers flat_map] in Hin, El. rewrite app_nil_r in Hin, El.
      destruct (eh_of x) as [m|] eqn:Ex.
      + rewrite last_last in El. subst m.
        apply in_app_or in Hin as [Hin|[Hin|[]]]; [|lia].
        assert (X : h < l); [|lia].
        apply (Mono rs [x] h l eq_refl Hin); [|lia|lia].
        cbn [markers flat_map]. rewrite Ex. left. reflexivity.
      + rewrite app_nil_r in Hin, El. apply IH; [exact Hin|exact El|].
        apply (MonoNZ_prefix rs [x]). exact Mono. }
  exact (K J Hin eq_refl Mono).
Qed.

(* ------------------------------------------------------------------ completeness
   Turn k (counted from the oldest file on disk) has R(k) = the records of files k.. and the
   head in front of it; the turns before it went over R(k+1), found no marker h there and left
   lastHeightFound at its last marker.  When the early exit is harmless the loop reaches the
   newest file that holds a marker h and stops behind the first one in it. *)
Lemma search_loop_complete : forall hr t tb ig h, tail_ok tb t -> tb && negb ig = false ->
  forall s fs, SInv s fs hr t ->
  ~ (0 < List.last (markers (concat fs ++ hr)) (-1) < h) ->
  In h (markers (concat fs ++ hr)) ->
  forall k n lst, (k <= length fs)%nat -> (k < n)%nat ->
    ~ In h (markers (concat (skipn (S k) (fs ++ [hr])))) ->
    lst = List.last (markers (concat (skipn (S k) (fs ++ [hr])))) (-1) ->
    exists k' pre1 d post, (k' <= k)%nat /\
      concat (skipn k' (fs ++ [hr])) = pre1 ++ d :: post /\ eh_of d = Some h /\
      ~ In h (markers pre1) /\ ~ In h (markers (concat (skipn (S k') (fs ++ [hr])))) /\
      search_loop n (base s + Z.of_nat k) ig h lst s = (Found (frames post ++ t), s).
Proof.
  intros hr t tb ig h Htail Hig s fs H NoExit Hin.
  assert (EJ : concat (fs ++ [hr]) = concat fs ++ hr).
  { rewrite concat_app. cbn [concat]. rewrite app_nil_r. reflexivity. }
  induction k as [|k IH]; intros n lst Hk Hn Hnot Hlst.
  - destruct n as [|n]; [lia|]. rewrite search_loop_S. cbv zeta.
    destruct (turn_on_disk hr t tb ig h Htail s fs O lst H Hk) as [E1 E2].
    rewrite E1, E2. cbn [skipn]. rewrite EJ.
    destruct (jscan_in ig tb h _ lst Hin) as (post & EF). rewrite EF. cbn [conv].
    destruct (jscan_found _ _ _ _ _ _ EF) as (pre1 & d & E3 & E4 & E5).
    exists O, pre1, d, post. cbn [skipn]. rewrite EJ. repeat split; try assumption. lia.
  - destruct n as [|n]; [lia|]. rewrite search_loop_S. cbv zeta.
    destruct (turn_on_disk hr t tb ig h Htail s fs (S k) lst H Hk) as [E1 E2].
    rewrite E1, E2.
    set (segs := fs ++ [hr]) in *.
    assert (Ls : length segs = S (length fs)) by (unfold segs; rewrite app_length; cbn; lia).
    destruct (skipn_cons_nth segs (S k) ltac:(lia)) as (seg & Eseg).
    destruct (jscan ig tb h lst (concat (skipn (S k) segs))) as [post|l|] eqn:EJS; cbn [conv].
    + destruct (jscan_found _ _ _ _ _ _ EJS) as (pre1 & d & E3 & E4 & E5).
      exists (S k), pre1, d, post. repeat split; try assumption. lia.
    + destruct (jscan_eof _ _ _ _ _ _ EJS) as (N1 & L1 & _).
      rewrite Hlst, Eseg in L1. cbn [concat] in L1. rewrite markers_app, last_app_default in L1.
      rewrite <- markers_app in L1. change (seg ++ concat (skipn (S (S k)) segs))
        with (concat (seg :: skipn (S (S k)) segs)) in L1. rewrite <- Eseg in L1.
      assert (Early : (0 <? l) && (l <? h) = false).
      { destruct ((0 <? l) && (l <? h)) eqn:C; [|reflexivity]. exfalso.
        apply andb_true_iff in C as [C1 C2]. apply Z.ltb_lt in C1, C2.
        apply NoExit. rewrite <- EJ. fold segs.
        rewrite <- (firstn_skipn (S k) segs), concat_app, markers_app.
        rewrite last_app_nonempty; [rewrite <- L1; lia|].
        intro X. rewrite X in L1. cbn in L1. lia. }
      rewrite Early. replace (base s + Z.of_nat (S k) - 1) with (base s + Z.of_nat k) by lia.
      destruct (IH n l ltac:(lia) ltac:(lia) N1 L1) as (k' & pre1 & d & post & P0 & P).
      exists k', pre1, d, post. split; [lia|exact P].
    + apply jscan_err in EJS. destruct EJS as (_ & -> & ->). discriminate.
Qed.


(* ------------------------------------------------------------------ SearchForEndHeight
   minIndex is not above the oldest file on disk (OpenGroup sets it to the oldest file, the size
   limit only removes older files, nothing sets it again: it is stale from below only), so the
   loop from maxIndex down to minIndex visits every file on disk. *)
Definition Idx (s : st) : Prop := gmin s <= base s.

(* the one case in which a torn record stands before the marker in scan order and is not
   skipped: torn tail, IgnoreDataCorruptionErrors = false, marker not in the head *)
Definition torn_first (tb ig : bool) (h : Z) (hr : list bytes) : Prop :=
  tb = true /\ ig = false /\ ~ In h (markers hr).

Lemma search_unfold : forall s fs hr t h ig, SInv s fs hr t -> Idx s ->
  exists n, (length fs <= n)%nat /\
    search s h ig = search_loop (S n) (base s + Z.of_nat (length fs)) ig h (-1) s /\
    gmin s <= gmax s - Z.of_nat (S n) + 1.
Proof.
  intros s fs hr t h ig H HI. unfold Idx, base in *.
  assert (L : length (files s) = length fs) by (rewrite (si_files _ _ _ _ H), map_length; reflexivity).
  rewrite L in *.
  exists (Z.to_nat (gmax s - gmin s)). split; [lia|]. split; [|lia].
  unfold Model.search. f_equal; [|lia].
  replace (gmax s - gmin s + 1) with (Z.succ (gmax s - gmin s)) by lia.
  rewrite Z2Nat.inj_succ by lia. reflexivity.
Qed.

(* The general form: no assumption on the order of the markers beyond [exit_free]; a marker that
   occurs several times (#ENDHEIGHT 0 is written into every empty head) is found in the newest
   file that holds one, at its first occurrence there.  Files are counted from the oldest on
   disk, the head is number |fs|. *)
Theorem search_spec : forall s fs hr t tb ig h r s',
  SInv s fs hr t -> tail_ok tb t -> Idx s -> exit_free h (concat fs ++ hr) ->
  search s h ig = (r, s') ->
  let J := concat fs ++ hr in
  let segs := fs ++ [hr] in
  (* the state: at most empty files re-created below the oldest one *)
  (exists fs', SInv s' fs' hr t /\ concat fs' = concat fs /\ same_mem s s' /\ Idx s') /\
  (* the torn record first: error *)
  (torn_first tb ig h hr -> r = SearchErr) /\
  (* otherwise: found when the marker is a record of the journal, the reader right behind it *)
  (~ torn_first tb ig h hr -> In h (markers J) ->
     exists k pre1 d post, (k <= length fs)%nat /\
       concat (skipn k segs) = pre1 ++ d :: post /\ eh_of d = Some h /\
       ~ In h (markers pre1) /\ ~ In h (markers (concat (skipn (S k) segs))) /\
       J = (concat (firstn k segs) ++ pre1) ++ d :: post /\
       r = Found (frames post ++ t) /\
       decode_all RGroup (frames post ++ t) = (post, if tb then TCorrupt else TEof)) /\
  (* ... and not found when it is not *)
  (~ torn_first tb ig h hr -> ~ In h (markers J) -> r = NotFound).
Proof.
  intros s fs hr t tb ig h r s' H Htail HI XF E J segs.
  assert (EJ : concat segs = J).
  { unfold segs, J. rewrite concat_app. cbn [concat]. rewrite app_nil_r. reflexivity. }
  destruct (search_unfold s fs hr t h ig H HI) as (n & Hn & EU & Hlo).
  rewrite EU in E.
  destruct (search_loop_sound hr t tb ig h Htail _ _ _ _ _ _ _ H E) as (fs' & H' & C' & M' & P).
  assert (Dec : forall post, Forall okrec post ->
            decode_all RGroup (frames post ++ t) = (post, if tb then TCorrupt else TEof)).
  { intros post Hp. destruct tb; cbn [tail_ok] in Htail.
    - destruct Htail as (r0 & k & Hr & Hk & ->).
      rewrite (torn_tail_no_phantom crc valid crc_len post r0 k Hp Hr ltac:(lia)).
      destruct k; [lia|reflexivity].
    - subst t. rewrite app_nil_r. apply (roundtrip crc valid crc_len). exact Hp. }
  split; [|split; [|split]].
  - exists fs'. split; [exact H'|]. split; [exact C'|]. split; [exact M'|].
    unfold Idx in *. destruct M' as (_ & _ & _ & G0 & G & _). rewrite G0.
    apply (search_loop_base ig h _ _ _ _ _ _ (gmin s) E HI).
    unfold base in *. rewrite (si_files _ _ _ _ H), map_length. lia.
  - intros (Htb & Hig & Hnin).
    rewrite (search_loop_torn_error hr t tb ig h Htail n s fs H Htb Hig Hnin) in E.
    congruence.
  - intros NT Hin.
    assert (F : exists k pre1 d post, (k <= length fs)%nat /\
       concat (skipn k segs) = pre1 ++ d :: post /\ eh_of d = Some h /\
       ~ In h (markers pre1) /\ ~ In h (markers (concat (skipn (S k) segs))) /\
       r = Found (frames post ++ t)).
    { destruct (in_dec Z.eq_dec h (markers hr)) as [Hh|Hh].
      - destruct (search_loop_head_first hr t tb ig h Htail n s fs H Hh)
          as (pre & d & post & E3 & E4 & E5 & EF).
        rewrite EF in E. exists (length fs), pre, d, post. unfold segs.
        rewrite (skipn_all2 (n := S (length fs))) by (rewrite app_length; cbn; lia).
        rewrite skipn_app, skipn_all, Nat.sub_diag. cbn [skipn app concat]. rewrite app_nil_r.
        repeat split; try assumption; try lia; try (intros []). congruence.
      - assert (Hig : tb && negb ig = false).
        { destruct tb, ig; try reflexivity. exfalso. apply NT. repeat split. exact Hh. }
        destruct (search_loop_complete hr t tb ig h Htail Hig s fs H (XF Hin) Hin
                    (length fs) (S n) (-1) (le_n _) ltac:(lia))
          as (k & pre1 & d & post & P0 & P1 & P2 & P3 & P4 & EF).
        + rewrite skipn_all2 by (rewrite app_length; cbn; lia). intros [].
        + rewrite skipn_all2 by (rewrite app_length; cbn; lia). reflexivity.
        + rewrite EF in E. exists k, pre1, d, post. repeat split; try assumption. congruence. }
    destruct F as (k & pre1 & d & post & F0 & F1 & F2 & F3 & F4 & ->).
    assert (EJ2 : J = (concat (firstn k segs) ++ pre1) ++ d :: post).
    { rewrite <- EJ, <- (firstn_skipn k segs) at 1. rewrite concat_app, F1, app_assoc. reflexivity. }
    exists k, pre1, d, post. repeat split; try assumption.
    apply Dec. pose proof (si_ok _ _ _ _ H) as Hok. fold J in Hok. rewrite EJ2 in Hok.
    apply Forall_app in Hok as [_ Hok]. inversion Hok; assumption.
  - intros NT Hnin. destruct r as [rest| |].
    + destruct P as (pre & d & post & EJ1 & Ed & _). exfalso. apply Hnin. unfold J. rewrite EJ1.
      rewrite markers_app, markers_cons, Ed. apply in_or_app. right. left. reflexivity.
    + reflexivity.
    + exfalso. apply NT. destruct P as [-> ->]. repeat split. intro Hh. apply Hnin.
      unfold J. rewrite markers_app. apply in_or_app. right. exact Hh.
Qed.

(* With increasing non-zero markers (what the callers guarantee): the marker for h <> 0 is the
   only one, the reader returns exactly the records of the journal behind it. *)
Theorem search_spec_mono : forall s fs hr t tb ig h r s',
  SInv s fs hr t -> tail_ok tb t -> Idx s -> MonoNZ (concat fs ++ hr) ->
  search s h ig = (r, s') ->
  let J := concat fs ++ hr in
  (exists fs', SInv s' fs' hr t /\ concat fs' = concat fs /\ same_mem s s' /\ Idx s') /\
  (torn_first tb ig h hr -> r = SearchErr) /\
  (~ torn_first tb ig h hr -> In h (markers J) ->
     exists pre d post, J = pre ++ d :: post /\ eh_of d = Some h /\
       r = Found (frames post ++ t) /\
       decode_all RGroup (frames post ++ t) = (post, if tb then TCorrupt else TEof) /\
       (h <> 0 -> ~ In h (markers pre) /\ ~ In h (markers post))) /\
  (~ torn_first tb ig h hr -> ~ In h (markers J) -> r = NotFound).
Proof.
  intros s fs hr t tb ig h r s' H Htail HI Mono E J.
  destruct (search_spec s fs hr t tb ig h r s' H Htail HI (MonoNZ_exit_free _ h Mono) E)
    as (P0 & P1 & P2 & P3).
  split; [exact P0|]. split; [exact P1|]. split; [|exact P3].
  intros NT Hin. destruct (P2 NT Hin) as (k & pre1 & d & post & _ & _ & Ed & _ & _ & EJ & Er & Ed2).
  exists (concat (firstn k (fs ++ [hr])) ++ pre1), d, post.
  split; [exact EJ|]. split; [exact Ed|]. split; [exact Er|]. split; [exact Ed2|].
  intro H0. exact (MonoNZ_unique _ _ d post h Mono H0 EJ Ed).
Qed.

(* found = true exactly when the marker is a surviving record (and no torn record is hit first) *)
Corollary search_iff : forall s fs hr t tb ig h r s',
  SInv s fs hr t -> tail_ok tb t -> Idx s -> exit_free h (concat fs ++ hr) ->
  search s h ig = (r, s') ->
  ((exists rest, r = Found rest) <->
   In h (markers (concat fs ++ hr)) /\ ~ torn_first tb ig h hr) /\
  (r = SearchErr <-> torn_first tb ig h hr) /\
  (r = NotFound <-> ~ In h (markers (concat fs ++ hr)) /\ ~ torn_first tb ig h hr).
Proof.
  intros s fs hr t tb ig h r s' H Htail HI XF E.
  destruct (search_spec s fs hr t tb ig h r s' H Htail HI XF E) as (_ & P1 & P2 & P3).
  assert (DT : torn_first tb ig h hr \/ ~ torn_first tb ig h hr).
  { unfold torn_first. destruct (in_dec Z.eq_dec h (markers hr)); destruct tb, ig; intuition congruence. }
  destruct (in_dec Z.eq_dec h (markers (concat fs ++ hr))) as [Hin|Hnin];
  destruct DT as [T|NT].
  all: try rewrite (P1 T); try rewrite (P3 NT Hnin);
       try (destruct (P2 NT Hin) as (k & pre & d & post & _ & _ & _ & _ & _ & _ & -> & _));
       (split; [|split]); (split; intro X);
       try discriminate; try tauto; try (destruct X as (? & ?); discriminate);
       try (eexists; reflexivity).
Qed.

(* (1) in one statement, for journals whose non-zero markers increase *)
Theorem search_iff_mono : forall s fs hr t tb ig h r s',
  SInv s fs hr t -> tail_ok tb t -> Idx s -> MonoNZ (concat fs ++ hr) ->
  search s h ig = (r, s') ->
  ((exists rest, r = Found rest) <->
   In h (markers (concat fs ++ hr)) /\ ~ torn_first tb ig h hr) /\
  (r = SearchErr <-> torn_first tb ig h hr) /\
  (r = NotFound <-> ~ In h (markers (concat fs ++ hr)) /\ ~ torn_first tb ig h hr) /\
  (forall rest, r = Found rest -> exists pre d post,
     concat fs ++ hr = pre ++ d :: post /\ eh_of d = Some h /\
     rest = frames post ++ t /\
     decode_all RGroup rest = (post, if tb then TCorrupt else TEof) /\
     (h <> 0 -> ~ In h (markers pre) /\ ~ In h (markers post))) /\
  (exists fs', SInv s' fs' hr t /\ concat fs' = concat fs /\ same_mem s s' /\ Idx s').
Proof.
  intros s fs hr t tb ig h r s' H Htail HI Mono E.
  destruct (search_iff s fs hr t tb ig h r s' H Htail HI (MonoNZ_exit_free _ h Mono) E) as (I1 & I2 & I3).
  destruct (search_spec_mono s fs hr t tb ig h r s' H Htail HI Mono E) as (P0 & _ & P2 & _).
  split; [exact I1|]. split; [exact I2|]. split; [exact I3|]. split; [|exact P0].
  intros rest ->. destruct (proj1 I1 (ex_intro _ rest eq_refl)) as [Hin NT].
  destruct (P2 NT Hin) as (p & d & post & E1 & E2 & E3 & E4 & E5).
  exists p, d, post. injection E3 as ->. repeat split; try assumption; apply E5; assumption.
Qed.

(* ---- the parts that need no hypothesis on the order of the markers ---- *)
Lemma search_state : forall s fs hr t tb ig h r s',
  SInv s fs hr t -> tail_ok tb t -> Idx s -> search s h ig = (r, s') ->
  exists fs', SInv s' fs' hr t /\ concat fs' = concat fs /\ same_mem s s' /\ Idx s'.
Proof.
  intros s fs hr t tb ig h r s' H Htail HI E.
  destruct (search_unfold s fs hr t h ig H HI) as (n & Hn & EU & Hlo). rewrite EU in E.
  destruct (search_loop_sound hr t tb ig h Htail _ _ _ _ _ _ _ H E) as (fs' & H' & C' & M' & P).
  exists fs'. split; [exact H'|]. split; [exact C'|]. split; [exact M'|].
  unfold Idx in *. destruct M' as (_ & _ & _ & G0 & G & _). rewrite G0.
  apply (search_loop_base ig h _ _ _ _ _ _ (gmin s) E HI).
  unfold base in *. rewrite (si_files _ _ _ _ H), map_length. lia.
Qed.

Lemma search_notfound : forall s fs hr t tb ig h r s',
  SInv s fs hr t -> tail_ok tb t -> Idx s -> search s h ig = (r, s') ->
  ~ torn_first tb ig h hr -> ~ In h (markers (concat fs ++ hr)) -> r = NotFound.
Proof.
  intros s fs hr t tb ig h r s' H Htail HI E NT Hnin.
  destruct (search_unfold s fs hr t h ig H HI) as (n & Hn & EU & Hlo). rewrite EU in E.
  destruct (search_loop_sound hr t tb ig h Htail _ _ _ _ _ _ _ H E) as (fs' & H' & C' & M' & P).
  destruct r as [rest| |].
  - destruct P as (pre & d & post & EJ & Ed & _). exfalso. apply Hnin. rewrite EJ.
    rewrite markers_app, markers_cons, Ed. apply in_or_app. right. left. reflexivity.
  - reflexivity.
  - exfalso. apply NT. destruct P as [-> ->]. repeat split. intro Hh. apply Hnin.
    rewrite markers_app. apply in_or_app. right. exact Hh.
Qed.

Lemma search_head : forall s fs hr t tb ig h,
  SInv s fs hr t -> tail_ok tb t -> Idx s -> In h (markers hr) ->
  exists pre d post, hr = pre ++ d :: post /\ eh_of d = Some h /\ ~ In h (markers pre) /\
    search s h ig = (Found (frames post ++ t), s).
Proof.
  intros s fs hr t tb ig h H Htail HI Hin.
  destruct (search_unfold s fs hr t h ig H HI) as (n & Hn & EU & Hlo). rewrite EU.
  exact (search_loop_head_first hr t tb ig h Htail n s fs H Hin).
Qed.

(* the first occurrence of a marker splits a list in one way only *)
Lemma first_unique : forall h a d b a' d' b',
  a ++ d :: b = a' ++ d' :: b' -> eh_of d = Some h -> eh_of d' = Some h ->
  ~ In h (markers a) -> ~ In h (markers a') -> a = a' /\ d = d' /\ b = b'.
Proof.
  intros h a. induction a as [|x a IH]; intros d b a' d' b' E Ed Ed' Ha Ha'.
  - destruct a' as [|x' a'].
    + cbn [app] in E. injection E as -> ->. repeat split.
    + cbn [app] in E. injection E as -> _. exfalso. apply Ha'.
      rewrite markers_cons, Ed. left. reflexivity.
  - destruct a' as [|x' a'].
    + cbn [app] in E. injection E as -> _. exfalso. apply Ha.
      rewrite markers_cons, Ed'. left. reflexivity.
    + cbn [app] in E. injection E as -> E.
      rewrite markers_cons in Ha, Ha'.
      destruct (IH d b a' d' b' E Ed Ed') as (-> & -> & ->).
      * intro X. apply Ha. apply in_or_app. right. exact X.
      * intro X. apply Ha'. apply in_or_app. right. exact X.
      * repeat split.
Qed.

(* ------------------------------------------------------------------ journal states *)
Notation Inv := (Inv crc valid).

Lemma inv_sinv_flushed : forall s fs hs hu, Inv s fs hs hu -> buf s = [] ->
  SInv s fs (hs ++ hu) [].
Proof.
  intros s fs hs hu [Hf Hh Hs Hok] Hb. constructor.
  - exact Hf.
  - rewrite Hb, app_nil_r in Hh. rewrite app_nil_r. exact Hh.
  - exact Hok.
Qed.

(* with bytes still in the bufio buffer the head FILE is a byte prefix of the frames: whole
   records and possibly a torn one *)
Lemma inv_sinv_any : forall s fs hs hu, Inv s fs hs hu ->
  exists hr lost t tb, hs ++ hu = hr ++ lost /\ SInv s fs hr t /\ tail_ok tb t.
Proof.
  intros s fs hs hu [Hf Hh Hs Hok].
  apply Forall_app in Hok as [Hfs Hh2].
  assert (E : head s = firstn (length (head s)) (frames (hs ++ hu))).
  { rewrite <- Hh. rewrite firstn_app, Nat.sub_diag, firstn_all. cbn [firstn]. rewrite app_nil_r. reflexivity. }
  destruct (firstn_frames crc valid (hs ++ hu) (length (head s)) Hh2)
    as (pre & post & t & E1 & E2 & E3).
  assert (Hpre : Forall okrec (concat fs ++ pre)).
  { apply Forall_app. split; [exact Hfs|]. rewrite E1 in Hh2. apply Forall_app in Hh2 as [? _]. assumption. }
  destruct E3 as [->|(r & post' & j & Ep & Hj & ->)].
  - exists pre, post, [], false. split; [exact E1|]. split; [|reflexivity].
    constructor; [exact Hf|rewrite E, E2; reflexivity|exact Hpre].
  - exists pre, post, (firstn j (frame r)), true. split; [exact E1|]. split.
    + constructor; [exact Hf|rewrite E, E2; reflexivity|exact Hpre].
    + exists r, j. split; [|split; [exact Hj|reflexivity]].
      rewrite E1, Ep in Hh2. apply Forall_app in Hh2 as [_ Hp]. inversion Hp as [|? ? Hr _]; subst.
      apply Hr.
Qed.

(* minIndex stays at or below the oldest file through all write-side operations *)
Lemma Idx_of : forall s s', gmin s' = gmin s -> gmax s' = gmax s ->
  (length (files s') <= length (files s))%nat -> Idx s -> Idx s'.
Proof. unfold Idx, base. intros s s' -> -> L H. lia. Qed.

Lemma write_mem : forall s d, gmin (fst (write crc s d)) = gmin s /\
  gmax (fst (write crc s d)) = gmax s /\ files (fst (write crc s d)) = files s.
Proof.
  intros s d. unfold write. destruct (encode crc d) as [fr|]; [|repeat split].
  destruct (buf_write (head s) (buf s) fr). repeat split.
Qed.

Lemma Idx_init_at : forall hl tl b (pre : list (list bytes)), Idx (init_at crc hl tl b pre).
Proof. intros. unfold Idx, base, init_at. cbn [gmin gmax files]. rewrite map_length. lia. Qed.

Lemma Idx_rotate : forall s, Idx s -> Idx (rotate s).
Proof. unfold Idx, base, rotate. intros s H. cbn [gmin gmax files]. rewrite app_length. cbn [length]. lia. Qed.

Lemma Idx_dstep : forall s o, Idx s -> Idx (dstep crc valid s o).
Proof.
  intros s o H. destruct o as [d|d| | | | |keep]; cbn [dstep].
  - destruct (write_mem s d) as (E1 & E2 & E3). apply (Idx_of s); [assumption|assumption|rewrite E3; lia|exact H].
  - destruct (write_mem s d) as (E1 & E2 & E3). unfold write_sync.
    destruct (write crc s d) as [s1 ok]. cbn [fst] in *.
    destruct ok; cbn [fst]; (apply (Idx_of s); [assumption|assumption|
      try (cbn [files flush_sync set_disk]); rewrite E3; lia|exact H]).
  - apply (Idx_of s); [reflexivity|reflexivity|cbn; lia|exact H].
  - apply Idx_rotate. exact H.
  - unfold check_head. destruct (head_limit s =? 0); [exact H|].
    destruct (head_limit s <=? len (head s)); [apply Idx_rotate|]; exact H.
  - destruct (check_total_whole_oldest s) as (k & _ & E1 & _ & _ & _ & E2).
    apply (Idx_of s); [|exact E2| |exact H].
    + unfold check_total. destruct (total_limit s =? 0); reflexivity.
    + rewrite E1, skipn_length. lia.
  - apply (Idx_of s); [reflexivity|reflexivity|cbn; lia|exact H].
Qed.

Lemma Idx_dsteps : forall ops s, Idx s -> Idx (fold_left (dstep crc valid) ops s).
Proof. induction ops as [|o ops IH]; intros s H; [exact H|]. cbn [fold_left]. apply IH, Idx_dstep, H. Qed.

(* ------------------------------------------------------------------ search over operation lists *)
Hypothesis valid_nil : valid [] = false.

(* Every state reached by writes, synced writes, flushes, rotations, limit checks and
   crash/repair cycles from a directory with rolled files: the head file is whole records hr
   plus possibly a torn tail (only while bytes sit in the buffer), and the search behaves as
   [search_iff] says on the journal concat (jf j) ++ hr of what a reader can see. *)
Lemma search_iff_reachable : forall hl tl b (pre : list (list bytes)) (ops : list dop),
  Forall okrec (concat pre) -> Forall (okop valid) ops ->
  let s := fold_left (dstep crc valid) ops (init_at crc hl tl b pre) in
  (exists j hr lost t tb,
     jsteps (J pre [] []) ops j /\ JInv crc valid s j /\
     js j ++ ju j = hr ++ lost /\ (buf s = [] -> lost = [] /\ tb = false) /\
     SInv s (jf j) hr t /\ tail_ok tb t /\ Idx s /\
     forall h ig r s', MonoNZ (concat (jf j) ++ hr) -> search s h ig = (r, s') ->
       ((exists rest, r = Found rest) <->
        In h (markers (concat (jf j) ++ hr)) /\ ~ torn_first tb ig h hr) /\
       (r = SearchErr <-> torn_first tb ig h hr) /\
       (r = NotFound <-> ~ In h (markers (concat (jf j) ++ hr)) /\ ~ torn_first tb ig h hr) /\
       (forall rest, r = Found rest -> exists p d post,
          concat (jf j) ++ hr = p ++ d :: post /\ eh_of d = Some h /\
          rest = frames post ++ t /\
          decode_all RGroup rest = (post, if tb then TCorrupt else TEof) /\
          (h <> 0 -> ~ In h (markers p) /\ ~ In h (markers post))))
  \/ CrcCollision crc.
Proof.
  intros hl tl b pre ops Hpre Hops s.
  destruct (dsteps_refine crc valid crc_len valid_nil ops (init_at crc hl tl b pre) (J pre [] [])
              (init_at_inv crc valid hl tl b pre Hpre) Hops) as [(j & JS & JI)|C]; [left|right; exact C].
  fold s in JI.
  assert (HI : Idx s) by (apply Idx_dsteps, Idx_init_at).
  assert (K : exists hr lost t tb, js j ++ ju j = hr ++ lost /\
                (buf s = [] -> lost = [] /\ tb = false) /\ SInv s (jf j) hr t /\ tail_ok tb t).
  { destruct (buf s) as [|b0 bs] eqn:Eb.
    - exists (js j ++ ju j), [], [], false. split; [rewrite app_nil_r; reflexivity|].
      split; [intros _; split; reflexivity|]. split; [|reflexivity].
      apply inv_sinv_flushed; assumption.
    - destruct (inv_sinv_any s (jf j) (js j) (ju j) JI) as (hr & lost & t & tb & E1 & E2 & E3).
      exists hr, lost, t, tb. split; [exact E1|]. split; [discriminate|]. split; assumption. }
  destruct K as (hr & lost & t & tb & K1 & K2 & K3 & K4).
  exists j, hr, lost, t, tb. repeat (split; [assumption|]).
  intros h ig r s' Mono E.
  destruct (search_iff_mono s (jf j) hr t tb ig h r s' K3 K4 HI Mono E) as (I1 & I2 & I3 & I4 & _).
  split; [exact I1|]. split; [exact I2|]. split; [exact I3|exact I4].
Qed.

(* (2) crash at any offset + repair: the marker of every durably written (synced or rolled)
   #ENDHEIGHT record is still found, and the reader behind it returns exactly the durable records
   behind the marker followed by the unsynced ones that happened to survive, then EOF. *)
Lemma search_after_repair : forall s fs hs hu keep ig h pre d post,
  Inv s fs hs hu -> Idx s -> MonoNZ (concat fs ++ hs ++ hu) -> h <> 0 ->
  concat fs ++ hs = pre ++ d :: post -> eh_of d = Some h ->
  (exists kept lost s',
     hu = kept ++ lost /\
     Inv (crash_repair crc valid s keep) fs (hs ++ kept) [] /\
     search (crash_repair crc valid s keep) h ig = (Found (frames (post ++ kept)), s') /\
     decode_all RGroup (frames (post ++ kept)) = (post ++ kept, TEof))
  \/ CrcCollision crc.
Proof.
  intros s fs hs hu keep ig h pre d post HInv HI Mono H0 EJ Ed.
  destruct (crash_repair_cycle crc valid crc_len valid_nil s fs hs hu keep HInv)
    as [(kept & lost & E & I & Hb & _)|C]; [left|right; exact C].
  set (s1 := crash_repair crc valid s keep) in *.
  assert (S1 : SInv s1 fs (hs ++ kept) []).
  { pose proof (inv_sinv_flushed s1 fs (hs ++ kept) [] I Hb) as X. rewrite app_nil_r in X. exact X. }
  assert (HI1 : Idx s1) by (apply (Idx_of s); [reflexivity|reflexivity|cbn; lia|exact HI]).
  assert (Mono1 : MonoNZ (concat fs ++ hs ++ kept)).
  { apply (MonoNZ_prefix _ lost). rewrite <- !app_assoc. rewrite <- E. exact Mono. }
  assert (EJ1 : concat fs ++ hs ++ kept = pre ++ d :: (post ++ kept)).
  { rewrite app_assoc, EJ, <- app_assoc. reflexivity. }
  destruct (search s1 h ig) as [r s'] eqn:ES.
  destruct (search_spec_mono s1 fs (hs ++ kept) [] false ig h r s' S1 eq_refl HI1 Mono1 ES)
    as (_ & _ & P2 & _).
  assert (NT : ~ torn_first false ig h (hs ++ kept)) by (intros (X & _); discriminate).
  assert (Hin : In h (markers (concat fs ++ hs ++ kept))).
  { rewrite EJ1, markers_app, markers_cons, Ed. apply in_or_app. right. left. reflexivity. }
  destruct (P2 NT Hin) as (p' & d' & post' & E1 & E2 & E3 & E4 & E5).
  destruct (MonoNZ_unique _ pre d (post ++ kept) h Mono1 H0 EJ1 Ed) as [U1 _].
  destruct (E5 H0) as [U2 _].
  rewrite EJ1 in E1. destruct (first_unique h _ _ _ _ _ _ E1 Ed E2 U1 U2) as (_ & _ & <-).
  exists kept, lost, s'. rewrite app_nil_r in E3, E4. subst r.
  split; [exact E|]. split; [exact I|]. split; [reflexivity|exact E4].
Qed.

(* ------------------------------------------------------------------ catchupReplay
   The marker for h-1 is in the head, no marker for h anywhere: the two searches run as in
   replay.go, the reader stands behind the first marker h-1 of the head, and the decode loop
   (all records are decoded before any is applied) ends in EOF with exactly the records behind
   the marker, or in the DataCorruptionError when the head ends in a torn record. *)
Notation catchup := (catchup crc valid eh_of true).

Lemma catchup_replay : forall s fs hr t tb h pre d post,
  SInv s fs hr t -> tail_ok tb t -> Idx s -> 1 <= h ->
  hr = pre ++ d :: post -> eh_of d = Some (h - 1) -> ~ In (h - 1) (markers pre) ->
  ~ In h (markers (concat fs ++ hr)) ->
  exists s1 fs1, catchup s h = ((if tb then CCorrupt else COk post), s1) /\
    SInv s1 fs1 hr t /\ concat fs1 = concat fs /\ same_mem s s1 /\ Idx s1.
Proof.
  intros s fs hr t tb h pre d post H Htail HI Hh Ehr Ed Hpre Hnin.
  unfold Model.catchup.
  destruct (search s h true) as [r1 s1] eqn:E1.
  destruct (search_state s fs hr t tb true h r1 s1 H Htail HI E1) as (fs1 & H1 & C1 & M1 & HI1).
  assert (NT : ~ torn_first tb true h hr) by (intros (_ & X & _); discriminate).
  rewrite (search_notfound s fs hr t tb true h r1 s1 H Htail HI E1 NT Hnin).
  assert (L : (h <? 1) = false) by (apply Z.ltb_ge; lia). rewrite L.
  assert (Hin : In (h - 1) (markers hr)).
  { rewrite Ehr, markers_app, markers_cons, Ed. apply in_or_app. right. left. reflexivity. }
  destruct (search_head s1 fs1 hr t tb true (h - 1) H1 Htail HI1 Hin)
    as (pre' & d' & post' & E2 & Ed' & Hpre' & ES).
  rewrite ES. rewrite Ehr in E2.
  destruct (first_unique (h - 1) _ _ _ _ _ _ E2 Ed Ed' Hpre Hpre') as (_ & _ & <-).
  assert (Hpost : Forall okrec post).
  { pose proof (si_ok _ _ _ _ H) as Hok. rewrite Ehr in Hok.
    apply Forall_app in Hok as [_ Hok]. apply Forall_app in Hok as [_ Hok]. inversion Hok; assumption. }
  exists s1, fs1. split; [|split; [exact H1|split; [exact C1|split; [exact M1|exact HI1]]]].
  destruct tb; cbn [tail_ok] in Htail.
  - destruct Htail as (r0 & k & Hr & Hk & ->).
    rewrite (torn_tail_no_phantom crc valid crc_len post r0 k Hpost Hr ltac:(lia)).
    destruct k; [lia|reflexivity].
  - subst t. rewrite app_nil_r, (roundtrip crc valid crc_len) by assumption. reflexivity.
Qed.

(* the marker for h-1 >= 1 anywhere in the journal, non-zero markers increasing *)
Lemma catchup_replay_any : forall s fs hr t tb h pre d post,
  SInv s fs hr t -> tail_ok tb t -> Idx s -> 2 <= h -> MonoNZ (concat fs ++ hr) ->
  concat fs ++ hr = pre ++ d :: post -> eh_of d = Some (h - 1) ->
  ~ In h (markers (concat fs ++ hr)) ->
  exists s1 fs1, catchup s h = ((if tb then CCorrupt else COk post), s1) /\
    SInv s1 fs1 hr t /\ concat fs1 = concat fs /\ same_mem s s1 /\ Idx s1.
Proof.
  intros s fs hr t tb h pre d post H Htail HI Hh Mono EJ Ed Hnin.
  unfold Model.catchup.
  destruct (search s h true) as [r1 s1] eqn:E1.
  destruct (search_state s fs hr t tb true h r1 s1 H Htail HI E1) as (fs1 & H1 & C1 & M1 & HI1).
  assert (NT : forall h', ~ torn_first tb true h' hr) by (intros h' (_ & X & _); discriminate).
  rewrite (search_notfound s fs hr t tb true h r1 s1 H Htail HI E1 (NT h) Hnin).
  assert (L : (h <? 1) = false) by (apply Z.ltb_ge; lia). rewrite L.
  destruct (search s1 (h - 1) true) as [r2 s2] eqn:E2.
  assert (Mono1 : MonoNZ (concat fs1 ++ hr)) by (rewrite C1; exact Mono).
  destruct (search_spec_mono s1 fs1 hr t tb true (h - 1) r2 s2 H1 Htail HI1 Mono1 E2)
    as ((fs2 & H2 & C2 & M2 & HI2) & _ & P2 & _).
  assert (Hin : In (h - 1) (markers (concat fs1 ++ hr))).
  { rewrite C1, EJ, markers_app, markers_cons, Ed. apply in_or_app. right. left. reflexivity. }
  destruct (P2 (NT (h - 1)) Hin) as (pre' & d' & post' & E3 & Ed' & -> & ED & EU).
  assert (H0 : h - 1 <> 0) by lia.
  destruct (MonoNZ_unique _ pre d post (h - 1) Mono H0 EJ Ed) as [U1 _].
  destruct (EU H0) as [U2 _].
  rewrite C1, EJ in E3. destruct (first_unique (h - 1) _ _ _ _ _ _ E3 Ed Ed' U1 U2) as (_ & _ & <-).
  rewrite ED. exists s2, fs2. split; [destruct tb; reflexivity|].
  split; [exact H2|]. split; [congruence|]. split; [exact (same_mem_trans _ _ _ M1 M2)|exact HI2].
Qed.

(* ------------------------------------------------------------------ State.OnStart *)
Notation restart := (restart crc valid eh_of true).
Notation repair := (repair crc valid true).
Notation open_wal := (open_wal crc).

Lemma frames_nonempty : forall pre d post, frames (pre ++ d :: post) <> [].
Proof.
  intros pre d post E. apply (f_equal (@length N)) in E.
  rewrite frames_app, frames_cons, !app_length, (frame_length crc crc_len) in E. cbn in E. lia.
Qed.

(* OpenGroup + BaseWAL.OnStart on a non-empty head: nothing is written, minIndex/maxIndex are
   read from the directory *)
Lemma open_wal_nonempty : forall c d0 fs hr t, SInv c fs hr t -> head c <> [] ->
  SInv (open_wal c d0) fs hr t /\ Idx (open_wal c d0) /\
  head (open_wal c d0) = head c /\ buf (open_wal c d0) = [] /\
  files (open_wal c d0) = files c /\ junk (open_wal c d0) = junk c /\
  synced (open_wal c d0) = synced c.
Proof.
  intros c d0 fs hr t H Hne. unfold Model.open_wal. cbn [head].
  destruct (head c) as [|x y] eqn:Eh; [congruence|].
  split; [|split; [|repeat split]].
  - constructor; cbn [files head]; [apply H|rewrite <- Eh; apply H|apply H].
  - unfold Idx, base, disk_min, disk_max. cbn [gmin gmax files].
    destruct (files c); cbn [length]; lia.
Qed.

(* (3) The head ends in a torn record and holds the marker for h-1 (no marker h anywhere):
   OnStart's loop — catchupReplay, DataCorruptionError, Stop (flush), backup, repairWalFile,
   reopen, catchupReplay again — ends with status 0 after exactly one repair; the head is then
   exactly the intact records (plus the record that was being written when the cut removed
   nothing but trailing zero bytes of it, x = [r]), nothing is buffered, the backup has the size
   of the damaged head, and the second replay is handed all records behind the marker. *)
Lemma restart_core : forall s keep h d0a d0b fs hr r k post,
  files s = map frames fs -> Forall okrec (concat fs ++ hr) ->
  okrec r -> (0 < k < length (frame r))%nat ->
  head (crash s keep) = frames hr ++ firstn k (frame r) ->
  hr <> [] ->
  (* what catchupReplay does on the states met: corruption on a torn tail, else the records
     behind the marker *)
  (forall s0 fs0 x tb t, (x = [] \/ x = [r]) -> SInv s0 fs0 (hr ++ x) t ->
     concat fs0 = concat fs -> tail_ok tb t -> Idx s0 ->
     exists s1 fs1, catchup s0 h = ((if tb then CCorrupt else COk (post ++ x)), s1) /\
       SInv s1 fs1 (hr ++ x) t /\ concat fs1 = concat fs0 /\ same_mem s0 s1 /\ Idx s1) ->
  (exists x s', (x = [] \/ x = [r]) /\
     restart s keep h true d0a d0b = (s', (0%N, true, post ++ x)) /\
     head s' = frames (hr ++ x) /\ buf s' = [] /\ synced s' = len (head s') /\
     junk s' = len (frames hr ++ firstn k (frame r)) /\
     read_all crc valid true s' = (concat fs ++ hr ++ x, TEof))
  \/ CrcCollision crc.
Proof.
  intros s keep h d0a d0b fs hr r k post Hf Hok Hr Hk Hhead Hhrne Hcatch.
  assert (Hfne : forall x, frames (hr ++ x) <> []).
  { destruct hr as [|d0 hr']; [congruence|]. intro x. exact (frames_nonempty [] d0 (hr' ++ x)). }
  set (tl := firstn k (frame r)) in *.
  assert (Htail : tail_ok true tl).
  { exists r, k. split; [apply Hr|]. split; [exact Hk|reflexivity]. }
  set (c := crash s keep) in *.
  assert (Sc : SInv c fs hr tl) by (constructor; [exact Hf|exact Hhead|exact Hok]).
  assert (Hne : head c <> []).
  { rewrite Hhead. intro X. apply app_eq_nil in X as [X _]. apply (Hfne []). rewrite app_nil_r. exact X. }
  destruct (open_wal_nonempty c d0a fs hr tl Sc Hne) as (S0 & I0 & Hd0 & B0 & _).
  set (s0 := open_wal c d0a) in *.
  assert (S0' : SInv s0 fs (hr ++ []) tl) by (rewrite app_nil_r; exact S0).
  destruct (Hcatch s0 fs [] true tl (or_introl eq_refl) S0' eq_refl Htail I0)
    as (s1 & fs1 & EC1 & S1 & C1 & M1 & I1).
  rewrite app_nil_r in S1. change (catchup s0 h = (CCorrupt, s1)) in EC1.
  destruct M1 as (Hd1 & B1 & _).
  set (xf := flush_sync s1).
  assert (Hxf : head xf = frames hr ++ tl).
  { unfold xf. cbn [head flush_sync set_disk]. rewrite B1, B0, app_nil_r, Hd1, Hd0. exact Hhead. }
  assert (Hhr : Forall okrec hr) by (apply Forall_app in Hok as [_ ?]; assumption).
  pose proof (repair_keeps_intact crc valid crc_len valid_nil hr r k Hhr (proj1 (proj2 Hr))
                ltac:(lia)) as R. cbv zeta in R. fold tl in R.
  assert (Cont : forall x, x = [] \/ x = [r] ->
            fst (decode_all RPlain (frames hr ++ tl)) = hr ++ x ->
            exists s', restart s keep h true d0a d0b = (s', (0%N, true, post ++ x)) /\
              head s' = frames (hr ++ x) /\ buf s' = [] /\ synced s' = len (head s') /\
              junk s' = len (frames hr ++ tl) /\
              read_all crc valid true s' = (concat fs ++ hr ++ x, TEof)).
  { intros x Hx Eout.
    set (y := repair xf).
    assert (Hy : head y = frames (hr ++ x)).
    { unfold y, Model.repair. cbn [head]. rewrite Hxf, Eout. reflexivity. }
    assert (Hxok : Forall okrec x) by (destruct Hx as [->| ->]; [constructor|constructor; [exact Hr|constructor]]).
    assert (Sy : SInv y fs1 (hr ++ x) []).
    { constructor.
      - change (files y) with (files s1). apply S1.
      - rewrite app_nil_r. exact Hy.
      - rewrite C1, app_assoc. apply Forall_app. split; assumption. }
    assert (Hney : head y <> []).
    { rewrite Hy. apply Hfne. }
    destruct (open_wal_nonempty y d0b fs1 (hr ++ x) [] Sy Hney) as (S2 & I2 & Hd2 & B2 & _ & J2 & Y2).
    set (s2 := open_wal y d0b) in *.
    destruct (Hcatch s2 fs1 x false [] Hx S2 C1 eq_refl I2)
      as (s3 & fs3 & EC2 & S3 & C3 & M3 & I3).
    destruct M3 as (Hd3 & B3 & Y3 & _ & _ & J3 & _).
    exists s3. split; [|split; [|split; [|split; [|split]]]].
    - unfold Model.restart. fold c. fold s0. cbn [negb]. cbv beta zeta. rewrite EC1.
      cbv beta iota zeta. fold xf. fold y. fold s2. rewrite EC2. reflexivity.
    - rewrite Hd3, Hd2. exact Hy.
    - rewrite B3. exact B2.
    - rewrite Y3, Y2, Hd3, Hd2. reflexivity.
    - rewrite J3, J2. unfold y, Model.repair. cbn [junk]. rewrite Hxf. reflexivity.
    - unfold read_all. rewrite (si_files _ _ _ _ S3), (si_head _ _ _ _ S3), app_nil_r.
      rewrite frames_concat, <- frames_app, (roundtrip crc valid crc_len RGroup).
      + rewrite C3, C1. reflexivity.
      + apply (si_ok _ _ _ _ S3). }
  destruct R as [R|[R|R]]; [left|left|right; exact R].
  - destruct (Cont [] (or_introl eq_refl)) as (s' & P); [rewrite app_nil_r; exact R|].
    exists [], s'. split; [left; reflexivity|exact P].
  - destruct (Cont [r] (or_intror eq_refl) R) as (s' & P).
    exists [r], s'. split; [right; reflexivity|exact P].
Qed.


Lemma notin_ext : forall h J r x, ~ In h (markers J) -> eh_of r <> Some h ->
  x = [] \/ x = [r] -> ~ In h (markers (J ++ x)).
Proof.
  intros h J r x Hnin Hrh Hx. rewrite markers_app. intro X.
  apply in_app_or in X as [X|X]; [exact (Hnin X)|].
  destruct Hx as [->| ->]; [destruct X|].
  cbn [markers flat_map] in X. destruct (eh_of r) as [m|]; [|destruct X].
  destruct X as [->|[]]. apply Hrh. reflexivity.
Qed.

(* the marker for h-1 in the head: no assumption on the order of the markers *)
Lemma restart_reaches_repair : forall s keep h d0a d0b fs hr r k pre d post,
  files s = map frames fs -> Forall okrec (concat fs ++ hr) ->
  okrec r -> (0 < k < length (frame r))%nat ->
  head (crash s keep) = frames hr ++ firstn k (frame r) ->
  1 <= h -> hr = pre ++ d :: post -> eh_of d = Some (h - 1) -> ~ In (h - 1) (markers pre) ->
  ~ In h (markers (concat fs ++ hr)) -> eh_of r <> Some h ->
  (exists x s', (x = [] \/ x = [r]) /\
     restart s keep h true d0a d0b = (s', (0%N, true, post ++ x)) /\
     head s' = frames (hr ++ x) /\ buf s' = [] /\ synced s' = len (head s') /\
     junk s' = len (frames hr ++ firstn k (frame r)) /\
     read_all crc valid true s' = (concat fs ++ hr ++ x, TEof))
  \/ CrcCollision crc.
Proof.
  intros s keep h d0a d0b fs hr r k pre d post Hf Hok Hr Hk Hhead Hh Ehr Ed Hpre Hnin Hrh.
  apply (restart_core s keep h d0a d0b fs hr r k post Hf Hok Hr Hk Hhead).
  - rewrite Ehr. destruct pre; discriminate.
  - intros s0 fs0 x tb t Hx S C Ht I.
    apply (catchup_replay s0 fs0 (hr ++ x) t tb h pre d (post ++ x) S Ht I Hh).
    + rewrite Ehr, <- app_assoc. reflexivity.
    + exact Ed.
    + exact Hpre.
    + rewrite C, app_assoc. apply (notin_ext h _ r x Hnin Hrh Hx).
Qed.

(* the marker for h-1 >= 1 anywhere in the log (e.g. in a rolled file, the head holding only
   records of height h), non-zero markers increasing *)
Lemma restart_reaches_repair_any : forall s keep h d0a d0b fs hr r k pre d post,
  files s = map frames fs -> Forall okrec (concat fs ++ hr) ->
  okrec r -> (0 < k < length (frame r))%nat ->
  head (crash s keep) = frames hr ++ firstn k (frame r) ->
  hr <> [] -> MonoNZ (concat fs ++ hr ++ [r]) ->
  2 <= h -> concat fs ++ hr = pre ++ d :: post -> eh_of d = Some (h - 1) ->
  ~ In h (markers (concat fs ++ hr)) -> eh_of r <> Some h ->
  (exists x s', (x = [] \/ x = [r]) /\
     restart s keep h true d0a d0b = (s', (0%N, true, post ++ x)) /\
     head s' = frames (hr ++ x) /\ buf s' = [] /\ synced s' = len (head s') /\
     junk s' = len (frames hr ++ firstn k (frame r)) /\
     read_all crc valid true s' = (concat fs ++ hr ++ x, TEof))
  \/ CrcCollision crc.
Proof.
  intros s keep h d0a d0b fs hr r k pre d post Hf Hok Hr Hk Hhead Hne Mono Hh EJ Ed Hnin Hrh.
  apply (restart_core s keep h d0a d0b fs hr r k post Hf Hok Hr Hk Hhead Hne).
  intros s0 fs0 x tb t Hx S C Ht I.
  apply (catchup_replay_any s0 fs0 (hr ++ x) t tb h pre d (post ++ x) S Ht I Hh).
  - rewrite C. destruct Hx as [->| ->].
    + rewrite app_nil_r. apply (MonoNZ_prefix _ [r]). rewrite <- app_assoc. exact Mono.
    + exact Mono.
  - rewrite C, app_assoc, EJ, <- app_assoc. reflexivity.
  - exact Ed.
  - rewrite C, app_assoc. apply (notin_ext h _ r x Hnin Hrh Hx).
Qed.

(* a crash j bytes into the unsynced record r of a journal state *)
Lemma crash_in_frame : forall s fs hs hu pre r post' j,
  Inv s fs hs hu -> hu = pre ++ r :: post' -> (0 < j < length (frame r))%nat ->
  head (crash s (len (frames pre) + Z.of_nat j)) = frames (hs ++ pre) ++ firstn j (frame r).
Proof.
  intros s fs hs hu pre r post' j [Hf Hh Hs Hok] Ehu Hj.
  unfold crash. cbn [head set_disk]. rewrite Hh, Hs, Ehu.
  replace (hs ++ pre ++ r :: post') with ((hs ++ pre) ++ r :: post') by (rewrite <- app_assoc; reflexivity).
  rewrite (frames_app crc (hs ++ pre) (r :: post')), frames_cons.
  set (a := frames (hs ++ pre)). set (rest := frames post').
  assert (La : length a = (length (frames hs) + length (frames pre))%nat).
  { unfold a. rewrite frames_app, app_length. reflexivity. }
  replace (Z.to_nat _) with (length a + j)%nat.
  - rewrite firstn_app_2, firstn_app. replace (j - length (frame r))%nat with O by lia.
    cbn [firstn]. rewrite app_nil_r. reflexivity.
  - unfold len. rewrite !app_length. lia.
Qed.

(* (3) from a journal state: the node dies j bytes into writing the unsynced record r, the
   records before it (synced hs, unsynced but complete pre') hold the marker for h-1 *)
Lemma restart_reaches_repair_journal : forall s fs hs hu pre' r post' j h d0a d0b p d post,
  Inv s fs hs hu -> hu = pre' ++ r :: post' -> (0 < j < length (frame r))%nat ->
  1 <= h -> hs ++ pre' = p ++ d :: post -> eh_of d = Some (h - 1) -> ~ In (h - 1) (markers p) ->
  ~ In h (markers (concat fs ++ hs ++ pre')) -> eh_of r <> Some h ->
  (exists x s', (x = [] \/ x = [r]) /\
     restart s (len (frames pre') + Z.of_nat j) h true d0a d0b = (s', (0%N, true, post ++ x)) /\
     head s' = frames (hs ++ pre' ++ x) /\ buf s' = [] /\ synced s' = len (head s') /\
     read_all crc valid true s' = (concat fs ++ hs ++ pre' ++ x, TEof))
  \/ CrcCollision crc.
Proof.
  intros s fs hs hu pre' r post' j h d0a d0b p d post HInv Ehu Hj Hh Ehr Ed Hp Hnin Hrh.
  pose proof (crash_in_frame s fs hs hu pre' r post' j HInv Ehu Hj) as Hc.
  destruct HInv as [Hf Hhd Hs Hok].
  assert (Hok1 : Forall okrec (concat fs ++ hs ++ pre') /\ okrec r).
  { rewrite Ehu in Hok. rewrite !app_assoc in Hok. apply Forall_app in Hok as [Hok1 Hok2].
    rewrite <- !app_assoc in Hok1. split; [exact Hok1|]. inversion Hok2; assumption. }
  destruct Hok1 as [Hok1 Hr].
  destruct (restart_reaches_repair s (len (frames pre') + Z.of_nat j) h d0a d0b fs (hs ++ pre')
              r j p d post Hf Hok1 Hr Hj Hc Hh Ehr Ed Hp Hnin Hrh)
    as [(x & s' & Hx & E1 & E2 & E3 & E4 & _ & E6)|C]; [left|right; exact C].
  exists x, s'. rewrite <- !app_assoc in *. repeat split; assumption.
Qed.

Lemma restart_reaches_repair_journal_any : forall s fs hs hu pre' r post' j h d0a d0b p d post,
  Inv s fs hs hu -> hu = pre' ++ r :: post' -> (0 < j < length (frame r))%nat ->
  hs ++ pre' <> [] -> MonoNZ (concat fs ++ hs ++ pre' ++ [r]) ->
  2 <= h -> concat fs ++ hs ++ pre' = p ++ d :: post -> eh_of d = Some (h - 1) ->
  ~ In h (markers (concat fs ++ hs ++ pre')) -> eh_of r <> Some h ->
  (exists x s', (x = [] \/ x = [r]) /\
     restart s (len (frames pre') + Z.of_nat j) h true d0a d0b = (s', (0%N, true, post ++ x)) /\
     head s' = frames (hs ++ pre' ++ x) /\ buf s' = [] /\ synced s' = len (head s') /\
     read_all crc valid true s' = (concat fs ++ hs ++ pre' ++ x, TEof))
  \/ CrcCollision crc.
Proof.
  intros s fs hs hu pre' r post' j h d0a d0b p d post HInv Ehu Hj Hne Mono Hh EJ Ed Hnin Hrh.
  pose proof (crash_in_frame s fs hs hu pre' r post' j HInv Ehu Hj) as Hc.
  destruct HInv as [Hf Hhd Hs Hok].
  assert (Hok1 : Forall okrec (concat fs ++ hs ++ pre') /\ okrec r).
  { rewrite Ehu in Hok. rewrite !app_assoc in Hok. apply Forall_app in Hok as [Hok1 Hok2].
    rewrite <- !app_assoc in Hok1. split; [exact Hok1|]. inversion Hok2; assumption. }
  destruct Hok1 as [Hok1 Hr].
  assert (Mono' : MonoNZ (concat fs ++ (hs ++ pre') ++ [r])) by (rewrite <- !app_assoc; exact Mono).
  destruct (restart_reaches_repair_any s (len (frames pre') + Z.of_nat j) h d0a d0b fs (hs ++ pre')
              r j p d post Hf Hok1 Hr Hj Hc Hne Mono' Hh EJ Ed Hnin Hrh)
    as [(x & s' & Hx & E1 & E2 & E3 & E4 & _ & E6)|C]; [left|right; exact C].
  exists x, s'. rewrite <- !app_assoc in *. repeat split; assumption.
Qed.

End Search.
