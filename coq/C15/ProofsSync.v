(* C15 — the start on a synced state (ModelSync.v, finding F88): after the repair the records of
   the first height after a block sync / state sync are replayed by the next restart. *)
From Coq Require Import List ZArith NArith Bool Lia.
From TM Require Import Common.Hex Generated.Consts C15.Model C15.ModelSync C15.Proofs C15.ProofsSearch.
Import ListNotations.
Open Scope Z_scope.

Section Sync.
Variable crc : bytes -> bytes.
Variable valid : bytes -> bool.
Variable eh_of : bytes -> option Z.
Hypothesis crc_len : forall d, length (crc d) = 4%nat.
Hypothesis valid_nil : valid [] = false.

Notation frame := (frame crc).
Notation frames := (frames crc).
Notation okrec := (okrec valid).
Notation Inv := (Inv crc valid).
Notation SInv := (SInv crc valid).
Notation markers := (markers eh_of).
Notation MonoNZ := (MonoNZ eh_of).
Notation search := (search crc valid eh_of true).
Notation mark_synced := (mark_synced crc valid eh_of true).
Notation restart := (restart crc valid eh_of true).
Notation dstep := (dstep crc valid).

(* ---- markSyncedHeight on a log without the marker: it is appended and synced ---- *)
Lemma mark_synced_spec : forall s fs hr H dH,
  SInv s fs hr [] -> buf s = [] -> synced s = len (head s) -> Idx s ->
  okrec dH -> 1 <= H -> ~ In H (markers (concat fs ++ hr)) ->
  exists fs', Inv (mark_synced true s H dH) fs' (hr ++ [dH]) [] /\ concat fs' = concat fs /\
    Idx (mark_synced true s H dH).
Proof.
  intros s fs hr H dH S Hb Hsy HI HdH HH Hnin. unfold ModelSync.mark_synced.
  assert (L : (0 <? H) = true) by (apply Z.ltb_lt; lia). rewrite L. cbn [andb].
  destruct (search s H true) as [r s1] eqn:E.
  destruct (search_state crc valid eh_of crc_len s fs hr [] false true H r s1 S eq_refl HI E)
    as (fs' & S1 & C1 & M1 & HI1).
  assert (NT : ~ torn_first eh_of false true H hr) by (intros (X & _); discriminate).
  rewrite (search_notfound crc valid eh_of crc_len s fs hr [] false true H r s1 S eq_refl HI E NT Hnin).
  destruct M1 as (Hd & Bf & Sy & _).
  assert (I1 : Inv s1 fs' hr []).
  { constructor.
    - apply S1.
    - rewrite Bf, Hb, !app_nil_r. pose proof (si_head _ _ _ _ _ _ S1) as X. rewrite app_nil_r in X. exact X.
    - rewrite Sy, Hsy, <- Hd. pose proof (si_head _ _ _ _ _ _ S1) as X. rewrite app_nil_r in X.
      rewrite X. reflexivity.
    - rewrite app_nil_r. apply S1. }
  exists fs'. split; [|split; [exact C1|]].
  - unfold write_sync. destruct (write_inv crc valid s1 fs' hr [] dH HdH I1) as [Ok I2].
    destruct (write crc s1 dH) as [s2 ok]. cbn [fst snd] in *. subst ok. cbn [fst].
    apply (flush_inv crc valid) in I2. exact I2.
  - exact (Idx_dstep crc valid s1 (DWriteSync dH) HI1).
Qed.

(* ---- the records of the new height: writes, synced writes, flushes; none is a marker ---- *)
Definition wop (o : dop) : Prop :=
  match o with
  | DWrite d | DWriteSync d => okrec d /\ eh_of d = None
  | DFlush => True
  | _ => False
  end.

(* the journal of the head: (synced, unsynced) *)
Fixpoint jrun (hs hu : list bytes) (ops : list dop) : list bytes * list bytes :=
  match ops with
  | [] => (hs, hu)
  | DWrite d :: r => jrun hs (hu ++ [d]) r
  | DWriteSync d :: r => jrun (hs ++ hu ++ [d]) [] r
  | DFlush :: r => jrun (hs ++ hu) [] r
  | _ :: r => jrun hs hu r
  end.

Lemma wrun_inv : forall ops s fs hs hu, Inv s fs hs hu -> Forall wop ops ->
  Inv (fold_left dstep ops s) fs (fst (jrun hs hu ops)) (snd (jrun hs hu ops)).
Proof.
  induction ops as [|o ops IH]; intros s fs hs hu I Hw; [exact I|].
  inversion Hw as [|? ? Ho Hops]; subst. cbn [fold_left].
  destruct o as [d|d| | | | |k]; cbn [wop] in Ho; try contradiction; cbn [jrun Proofs.dstep].
  - apply IH; [|exact Hops]. apply (write_inv crc valid); [apply Ho|exact I].
  - apply IH; [|exact Hops]. unfold write_sync.
    destruct (write_inv crc valid s fs hs hu d (proj1 Ho) I) as [Ok I2].
    destruct (write crc s d) as [s2 ok]. cbn [fst snd] in *. subst ok. cbn [fst].
    apply (flush_inv crc valid) in I2. exact I2.
  - apply IH; [|exact Hops]. apply (flush_inv crc valid). exact I.
Qed.

Lemma jrun_prefix : forall ops p hs hu,
  jrun (p ++ hs) hu ops = (p ++ fst (jrun hs hu ops), snd (jrun hs hu ops)).
Proof.
  induction ops as [|o ops IH]; intros p hs hu; [reflexivity|].
  destruct o; cbn [jrun]; try apply IH.
  - rewrite <- app_assoc. apply IH.
  - rewrite <- app_assoc. apply IH.
Qed.

Lemma jrun_nomarkers : forall ops hs hu, Forall wop ops ->
  markers hs = [] -> markers hu = [] ->
  markers (fst (jrun hs hu ops)) = [] /\ markers (snd (jrun hs hu ops)) = [].
Proof.
  induction ops as [|o ops IH]; intros hs hu Hw Hs Hu; [split; assumption|].
  inversion Hw as [|? ? Ho Hops]; subst.
  assert (M1 : forall d, eh_of d = None -> markers [d] = []).
  { intros d E. cbn [ProofsSearch.markers flat_map]. rewrite E. reflexivity. }
  destruct o as [d|d| | | | |k]; cbn [wop] in Ho; try contradiction; cbn [jrun]; apply IH; try assumption;
    try reflexivity; rewrite ?markers_app, ?Hs, ?Hu, ?(M1 d (proj2 Ho)); reflexivity.
Qed.

(* ---- what a crash at any offset leaves in the head of a journal state ---- *)
Lemma crash_shape : forall s fs hs hu keep, Inv s fs hs hu ->
  exists pre post t, hu = pre ++ post /\
    head (crash s keep) = frames (hs ++ pre) ++ t /\
    (t = [] \/ exists r post' j, post = r :: post' /\ (0 < j < length (frame r))%nat /\
                                 t = firstn j (frame r)).
Proof.
  intros s fs hs hu keep [Hf Hh Hs Hok].
  apply Forall_app in Hok as [_ Hok]. apply Forall_app in Hok as [_ Hhu].
  set (all := head s ++ buf s).
  set (n := Z.to_nat (Z.min (synced s + Z.max 0 keep) (len all))).
  assert (Hall : all = frames hs ++ frames hu) by (unfold all; rewrite Hh, frames_app; reflexivity).
  assert (Hn : (length (frames hs) <= n)%nat).
  { unfold n. rewrite Hs, Hall. unfold len. rewrite app_length. lia. }
  destruct (firstn_frames crc valid hu (n - length (frames hs))%nat Hhu)
    as (pre & post & t & E1 & E2 & E3).
  exists pre, post, t. split; [exact E1|]. split; [|exact E3].
  unfold crash. fold all. fold n. cbn [head set_disk]. rewrite Hall.
  rewrite firstn_app, firstn_all2 by lia. rewrite E2, frames_app, app_assoc. reflexivity.
Qed.

Lemma MonoNZ_app_nomarkers : forall A B, MonoNZ A -> markers B = [] -> MonoNZ (A ++ B).
Proof.
  intros A B M HB X Y x y E Hx Hy Hx0 Hy0.
  apply app_eq_app in E as (l & [[E1 E2]|[E1 E2]]).
  - (* the cut lies in A *)
    apply (M X l x y E1 Hx); try assumption.
    rewrite E2, markers_app, HB, app_nil_r in Hy. exact Hy.
  - (* the cut lies in B: nothing behind it *)
    exfalso. rewrite E2, markers_app in HB. apply app_eq_nil in HB as [_ HB].
    rewrite HB in Hy. destruct Hy.
Qed.

(* ---- the theorem ----
   A node is started on a synced state at height H (log J = concat fs ++ hr without #ENDHEIGHT
   H, all its non-zero markers below H), writes any records of height H+1 (none of them a
   marker), crashes at ANY byte offset of the unsynced tail and restarts with catch-up at
   height H+1: the start-up succeeds (status 0, one repair when the crash tore a record) and
   the replay is handed exactly the synced records of height H+1 followed by the unsynced ones
   that survived. *)
Theorem replay_after_sync : forall s fs hr H dH ops keep d0a d0b,
  SInv s fs hr [] -> buf s = [] -> synced s = len (head s) -> Idx s ->
  okrec dH -> eh_of dH = Some H -> 1 <= H ->
  MonoNZ ((concat fs ++ hr) ++ [dH]) -> ~ In H (markers (concat fs ++ hr)) ->
  Forall wop ops ->
  let s2 := fold_left dstep ops (mark_synced true s H dH) in
  let sy := fst (jrun [] [] ops) in
  let un := snd (jrun [] [] ops) in
  (exists rep kept lost s', un = kept ++ lost /\
     restart s2 keep (H + 1) true d0a d0b = (s', (0%N, rep, sy ++ kept)))
  \/ CrcCollision crc.
Proof.
  intros s fs hr H dH ops keep d0a d0b S Hb Hsy HI HdH EdH HH Mono Hnin Hw s2 sy un.
  destruct (mark_synced_spec s fs hr H dH S Hb Hsy HI HdH HH Hnin) as (fs' & I1 & C1 & HI1).
  pose proof (wrun_inv ops _ fs' (hr ++ [dH]) [] I1 Hw) as I2. fold s2 in I2.
  pose proof (jrun_prefix ops (hr ++ [dH]) [] []) as JP. rewrite app_nil_r in JP.
  rewrite JP in I2. cbn [fst snd] in I2. fold sy in I2. fold un in I2.
  destruct (jrun_nomarkers ops [] [] Hw eq_refl eq_refl) as [Msy Mun]. fold sy in Msy. fold un in Mun.
  assert (HI2 : Idx s2) by (apply Idx_dsteps; exact HI1).
  destruct (crash_shape s2 fs' ((hr ++ [dH]) ++ sy) un keep I2) as (pre & post & t & Eun & Hc & Ht).
  set (J := concat fs ++ hr) in *.
  set (hr2 := ((hr ++ [dH]) ++ sy) ++ pre) in *.
  assert (EJ2 : concat fs' ++ hr2 = J ++ dH :: (sy ++ pre)).
  { unfold hr2, J. rewrite C1, <- !app_assoc. reflexivity. }
  assert (Mpre : markers pre = [] /\ markers post = []).
  { rewrite Eun, markers_app in Mun. apply app_eq_nil in Mun. exact Mun. }
  assert (Mtail : markers (sy ++ pre) = []) by (rewrite markers_app, Msy, (proj1 Mpre); reflexivity).
  assert (Hnin2 : ~ In (H + 1) (markers (concat fs' ++ hr2))).
  { rewrite EJ2, markers_app, markers_cons, EdH, Mtail, app_nil_r. intro X.
    apply in_app_or in X as [X|[X|[]]]; [|lia].
    assert (L : H + 1 < H); [|lia].
    apply (Mono J [dH] (H + 1) H eq_refl X); [|lia|lia].
    cbn [ProofsSearch.markers flat_map]. rewrite EdH. left. reflexivity. }
  assert (Mono2 : forall X, markers X = [] -> MonoNZ (concat fs' ++ hr2 ++ X)).
  { intros X HX. rewrite app_assoc, EJ2.
    replace (J ++ dH :: sy ++ pre) with ((J ++ [dH]) ++ (sy ++ pre)) by (rewrite <- app_assoc; reflexivity).
    rewrite <- app_assoc. apply MonoNZ_app_nomarkers; [exact Mono|].
    rewrite markers_app, Mtail, HX. reflexivity. }
  assert (Ok2 : Forall okrec (concat fs' ++ hr2) /\ Forall okrec post).
  { pose proof (inv_ok _ _ _ _ _ _ I2) as X. rewrite Eun in X. rewrite !app_assoc in X.
    apply Forall_app in X as [X1 X2]. split; [|exact X2]. unfold hr2. rewrite !app_assoc. exact X1. }
  destruct Ok2 as [Ok2 Okpost].
  assert (EdH' : eh_of dH = Some (H + 1 - 1)) by (rewrite EdH; f_equal; lia).
  assert (Hne2 : hr2 <> []).
  { unfold hr2. destruct hr; discriminate. }
  destruct Ht as [->|(r & post' & j & Ep & Hj & ->)].
  - (* the crash cut at a record boundary: no repair, the first catch-up replays *)
    left. rewrite app_nil_r in Hc.
    set (c := crash s2 keep) in *.
    assert (Sc : SInv c fs' hr2 []).
    { constructor; [exact (inv_files _ _ _ _ _ _ I2)|rewrite app_nil_r; exact Hc|exact Ok2]. }
    assert (Hnec : head c <> []).
    { rewrite Hc. destruct hr2 as [|x0 hr2']; [congruence|].
      exact (frames_nonempty crc crc_len [] x0 hr2'). }
    destruct (open_wal_nonempty crc valid c d0a fs' hr2 [] Sc Hnec) as (S0 & I0 & _).
    pose proof (Mono2 [] eq_refl) as M0. rewrite app_nil_r in M0.
    destruct (catchup_replay_any crc valid eh_of crc_len (open_wal crc c d0a) fs' hr2 [] false (H + 1)
                J dH (sy ++ pre) S0 eq_refl I0 ltac:(lia) M0 EJ2 EdH' Hnin2)
      as (s1 & fs1 & EC & _).
    exists false, pre, post, s1. split; [exact Eun|].
    unfold Model.restart. fold c. cbn [negb]. cbv beta zeta. rewrite EC. reflexivity.
  - (* the crash tore the record r: catch-up, corruption, repair, catch-up again *)
    assert (Hr : okrec r) by (rewrite Ep in Okpost; inversion Okpost; assumption).
    assert (Mr : eh_of r = None).
    { destruct Mpre as [_ Mp]. rewrite Ep in Mp. cbn [ProofsSearch.markers flat_map] in Mp.
      destruct (eh_of r); [discriminate|reflexivity]. }
    assert (Mr1 : markers [r] = []) by (cbn [ProofsSearch.markers flat_map]; rewrite Mr; reflexivity).
    destruct (restart_reaches_repair_any crc valid eh_of crc_len valid_nil s2 keep (H + 1) d0a d0b
                fs' hr2 r j J dH (sy ++ pre) (inv_files _ _ _ _ _ _ I2) Ok2 Hr Hj Hc Hne2
                (Mono2 [r] Mr1) ltac:(lia) EJ2 EdH' Hnin2 ltac:(rewrite Mr; discriminate))
      as [(x & s' & Hx & ER & _)|C]; [left|right; exact C].
    destruct Hx as [->| ->].
    + exists true, pre, post, s'. split; [exact Eun|]. rewrite app_nil_r in ER. exact ER.
    + exists true, (pre ++ [r]), post', s'. split.
      * rewrite Eun, Ep, <- app_assoc. reflexivity.
      * rewrite <- !app_assoc in ER. exact ER.
Qed.

End Sync.
