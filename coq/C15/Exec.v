(* C15 — executable side of the correspondence check: the case type written by the Go
   harnesses (harness/overlay/consensus, harness/overlay/libs/autofile), the comparison of the
   model with what the implementation answered, and the property monitors evaluated on the
   implementation's own answers (a journal of acknowledged writes kept by this file, not by the
   model).  Depends on Model.v and Crc32c.v only. *)
From Coq Require Import String List ZArith NArith Bool.
From TM Require Import Common.Hex Generated.Consts C15.Crc32c C15.Model C15.ModelSync.
Import ListNotations.
Open Scope Z_scope.

(* payloads: hex, or (for the records at the size limit) hex prefix, a filler byte repeated n
   times, hex suffix *)
Inductive pl := P (s : string) | PF (pre : string) (b : N) (n : Z) (post : string).
Definition unpl (p : pl) : bytes :=
  match p with
  | P s => unhex s
  | PF pre b n post => unhex pre ++ repeat b (Z.to_nat n) ++ unhex post
  end.

Inductive xop :=
| XWrite (d : pl) (tag : option Z)
| XWriteSync (d : pl) (tag : option Z)
| XFlush
| XRotate
| XCheckHead
| XCheckTotal
(* crash keeping [keep] bytes of the unsynced tail, then what the node does on start with
   consensus height h; cu = doWALCatchup; d0a/d0b = the EndHeightMessage{0} records
   BaseWAL.OnStart wrote into an empty head (empty string: none written) *)
| XRestart (keep h : Z) (cu : bool) (d0a d0b : pl)
| XFlip (idx off : Z) (x : N)
| XSearch (h : Z) (ignore : bool)
| XRead (idx : Z).

Inductive xans :=
| XAck (ok : bool)
| XNone
| XRestarted (status : N) (repaired : bool) (replayed all : list pl) (t : N)
| XSearched (res : N) (after : list pl) (t : N)
| XReadAns (recs : list pl) (t : N).

(* after every op: size of the head file, bytes buffered, Group.MinIndex, Group.MaxIndex,
   index of the first indexed file in the directory (-1: none), sizes of the indexed files,
   numbers of the indexed files (every directory entry <head>.<digits>, whatever the number of
   digits, sorted) *)
Definition snap := (Z * Z * Z * Z * Z * list Z * list Z)%type.

(* [base], [pre]: the directory already holds the rolled files <head>.<base>, <head>.<base+1>, ...
   before the WAL is opened for the first time ([pre] = records of each file with their
   EndHeight tag, oldest file first; written by a real WAL and renamed) *)
(* ---- node lives (harness c15_node): a real consensus node driven through State.OnStart.
   A record as a sequential reader returned it at a checkpoint: kind (0 EndHeight, 1 RoundState,
   2 timeout, 3 proposal, 4 block part, 5 prevote, 6 precommit, 7 other), height, the checksum
   in front of it, its length. *)
Inductive nrec := NR (kind : N) (h : Z) (crc : N) (len : Z).
(* how an incarnation was started.  NRestart: what the crash left behind the last record of the
   head (tk: 0 nothing, 1 the first n bytes of a frame with a payload of plen bytes, 2 that whole
   frame, 3 that whole frame with the byte at offset off flipped), doWALCatchup *)
Inductive nstart := NFirst | NRestart (cu : bool) (tk : N) (n plen off : Z).
(* sres: cs.Start returned nil (0), an error (1), was killed inside the replay (2);
   backup: <wal>.CORRUPTED was written; hgt: the node's height when Start returned;
   ended: how the incarnation ended (description only);
   checkpoint with the node down: committed = LastBlockHeight of the state store, the records a
   fresh sequential reader returns from the first file and how it ends (0 EOF, 1 corruption,
   2 other), SearchForEndHeight(h) for h = 1..committed (1 found, 0 not found, 2 error) *)
Inductive nstage :=
| NStage (start : nstart) (sres : N) (backup : bool) (hgt : Z) (ended : N)
         (committed : Z) (recs : list nrec) (term : N) (found : list N).

Inductive case :=
| CWal (hl tl : Z) (base : Z) (pre : list (list (pl * option Z)))
       (ops : list xop) (answers : list xans) (snaps : list snap)
       (final_files : list pl) (final_head : pl)
| CNode (stages : list nstage)
(* ---- node lives that START ON A SYNCED STATE (harness c15_sync, finding F88): the stores hold
   blocks 1..H made elsewhere, the WAL is fresh; a real State is started through State.OnStart
   with doWALCatchup = false (what Reactor.SwitchToConsensus(state, skipWAL = true) does), runs
   height H+1 and is killed in front of WAL write number crashAt (ended: 1 killed at a write,
   2 killed in front of #ENDHEIGHT H+1, other: see NStage).  Checkpoint with the node down:
   committed, recs, term as in NStage.  Then the restart with catch-up: the REAL
   State.catchupReplay(committed+1) on a fresh State over what is on disk (as State.OnStart runs
   it, the receive routine not yet started): rerr = 0 nil, 1 "WAL does not contain #ENDHEIGHT",
   2 DataCorruptionError, 3 other; the state machine afterwards: height, Proposal set, number of
   prevotes and of precommits in round 0.  fres: what a final real cs.Start() returned
   (0 nil, 1 error, 2 killed). *)
| CSync (H crashAt : Z) (ended : N) (committed : Z) (recs : list nrec) (term : N)
        (rerr : N) (rh : Z) (rprop : bool) (rprev rprec : Z) (fres : N).

(* ---------------------------------------------------------------- running the model *)
Definition tag_tab := list (bytes * option Z).
Definition tags_of (ops : list xop) : tag_tab :=
  flat_map (fun o => match o with
                     | XWrite d t | XWriteSync d t => [(unpl d, t)]
                     | XRestart _ _ _ a b => [(unpl a, Some 0); (unpl b, Some 0)]
                     | _ => [] end) ops.
Fixpoint lookup (tab : tag_tab) (d : bytes) : option Z :=
  match tab with
  | [] => None
  | (k, v) :: r => if bytes_eqb k d then v else lookup r d
  end.

Definition mop (o : xop) : op :=
  match o with
  | XWrite d _ => OWrite (unpl d)
  | XWriteSync d _ => OWriteSync (unpl d)
  | XFlush => OFlush
  | XRotate => ORotate
  | XCheckHead => OCheckHead
  | XCheckTotal => OCheckTotal
  | XRestart keep h cu a b => ORestart keep h cu (unpl a) (unpl b)
  | XFlip idx off x => OFlip idx off x
  | XSearch h ig => OSearch h ig
  | XRead idx => ORead idx
  end.

Definition list_eqb {A} (eqb : A -> A -> bool) (a b : list A) : bool :=
  Nat.eqb (List.length a) (List.length b) && forallb (fun '(x, y) => eqb x y) (combine a b).
Definition recs_eqb (a : list bytes) (b : list pl) : bool := list_eqb bytes_eqb a (map unpl b).
Definition term_code (t : term) : N := match t with TEof => 0%N | TCorrupt => 1%N end.

Definition ans_eqb (a : ans) (x : xans) : bool :=
  match a, x with
  | AAck ok, XAck ok' => Bool.eqb ok ok'
  | ANone, XNone => true
  | ARestart st rp l all t, XRestarted st' rp' l' all' t' =>
    (st =? st')%N && Bool.eqb rp rp' && recs_eqb l l' && recs_eqb all all' && (term_code t =? t')%N
  | ASearch r l t, XSearched r' l' t' => (r =? r')%N && recs_eqb l l' && (term_code t =? t')%N
  | ARead l t, XReadAns l' t' => recs_eqb l l' && (term_code t =? t')%N
  | _, _ => false
  end.

Definition snap_of (s : st) : snap :=
  (len (head s), len (buf s), gmin s, gmax s,
   match files s with [] => -1 | _ => gmax s - Z.of_nat (List.length (files s)) end,
   map len (files s), disk_indices s).
Definition snap_eqb (a b : snap) : bool :=
  let '(h, bf, mn, mx, fi, sz, ix) := a in
  let '(h', bf', mn', mx', fi', sz', ix') := b in
  (h =? h') && (bf =? bf') && (mn =? mn') && (mx =? mx') && (fi =? fi') && list_eqb Z.eqb sz sz'
  && list_eqb Z.eqb ix ix'.

Section Run.
Variable eh : bytes -> option Z.
Definition mstep := step crc32c_be (fun _ => true) eh true.
(* A reader or a search that starts far below the oldest file of the directory re-creates every
   file number in between (openFile uses O_CREATE); the model would materialise them all.  The
   harness only asks for indices between the group's own MinIndex and MaxIndex, so this happens
   only when the implementation's idea of its indices is off by thousands: the model is not run
   further and the case is a mismatch (observable 19), unless a monitor has failed already. *)
Definition max_recreated : Z := 256.
Definition too_far (s : st) (o : op) : bool :=
  let base := gmax s - Z.of_nat (List.length (files s)) in
  match o with
  | ORead idx => (max_recreated <? base - idx) || (max_recreated <? idx - gmax s)
  | OSearch _ _ => (max_recreated <? base - gmin s) || (max_recreated <? gmax s - gmin s - Z.of_nat (List.length (files s)))
  | ORestart _ _ _ _ _ => false
  | _ => false
  end.
Fixpoint mrun (s : st) (ops : list op) : st * list ans * list snap * bool :=
  match ops with
  | [] => (s, [], [], true)
  | o :: r => if too_far s o then (s, [], [], false) else
              let '(s1, a) := mstep s o in
              let '(s2, l, sn, ok) := mrun s1 r in (s2, a :: l, snap_of s1 :: sn, ok)
  end.
End Run.

(* ---------------------------------------------------------------- monitors
   A journal of what the implementation acknowledged, kept per file of the group:
   segs = records of the indexed files on disk (oldest first), hs = records of the head covered
   by a successful sync, hu = records of the head acknowledged by Write but not yet synced.
   hpart = Some k: the head holds a partial record that a restart left unrepaired (known
   finding 9), behind its first k records (the later ones were appended behind it).

   What the head holds after crash + restart is taken from the reader opened at the oldest file
   when that reader came to a clean end (then it has seen the whole log).  When it stopped at a
   corrupt place (a partial record that an earlier restart did not repair: the class of known
   finding 9) it says nothing about the files behind that place: the head is then computed
   from the journal and the crash offset (the acknowledged records that fit entirely into the
   bytes kept, the EndHeightMessage{0} records OnStart wrote, the cut repairWalFile makes at a
   partial record).  Taking the reader's truncated answer there would drop from the journal
   records that were written, acknowledged and are still on disk, and a later reader that gets
   past the corrupt place (its file pruned by checkTotalSizeLimit, or opened at a later index)
   would be accused of returning records that were never written. *)
Fixpoint is_prefix (a b : list bytes) : bool :=
  match a, b with
  | [], _ => true
  | x :: a', y :: b' => bytes_eqb x y && is_prefix a' b'
  | _ :: _, [] => false
  end.
Fixpoint is_subseq (a b : list bytes) : bool :=
  match b with
  | [] => match a with [] => true | _ => false end
  | y :: b' => match a with
               | [] => true
               | x :: a' => if bytes_eqb x y then is_subseq a' b' else is_subseq a b'
               end
  end.

Record mon := {
  m_segs : list (list bytes);
  m_hs : list bytes;
  m_hu : list bytes;
  m_hpart : option nat;
  m_flipped : bool;
  m_tainted : bool;
  m_prev : snap;
  m_verd : list verdict
}.

Definition viol (b : bool) (clause : N) : verdict := if b then V_ok else V_violation clause.
Definition mism (b : bool) (code : N) : verdict := if b then V_ok else V_mismatch code.
(* Known finding 9 (F24): State.OnStart repairs a torn tail only when catchupReplay itself runs
   into it.  A clause 1 / 3 failure belongs to that finding only when it follows a restart
   after which, BY THE SPECIFICATION OF THE START-UP, a partial record is left in place: the
   crash cut a frame (journal and crash offset) and the start-up transcribed in Model.restart,
   run on the log as the correct code would have left it, does not repair -- doWALCatchup is
   false, or catchupReplay ends before the replay with a non-corruption error (#ENDHEIGHT h
   already in the log, h below the initial height, no #ENDHEIGHT for h-1 found).  This is the
   model's answer ([mrep] below), never the status or the repaired flag the implementation
   reports: an implementation that skips a repair that is due (the replay from #ENDHEIGHT h-1
   runs into the partial record) is NOT in the class; the failures of its later readers are
   violations, and its restart answer disagrees with the model (observable 13). *)
Definition viol_k (tainted : bool) (b : bool) (clause : N) : verdict :=
  if b then V_ok else if tainted then V_known 9 else V_violation clause.

Definition frame_size (d : bytes) : Z := 8 + len d.
Fixpoint prefix_sums (acc : Z) (l : list bytes) : list Z :=
  match l with [] => [acc] | d :: r => acc :: prefix_sums (acc + frame_size d) r end.
(* does a crash keeping [keep] bytes of the unsynced records [hu] leave a partial record? *)
Definition torn (keep : Z) (hu : list bytes) : bool :=
  let ps := prefix_sums 0 hu in
  negb (existsb (Z.eqb (Z.max 0 keep)) ps) && (Z.max 0 keep <? last ps 0).
(* the unsynced records whose frames lie entirely within the [keep] bytes that survive *)
Fixpoint kept_of (keep : Z) (hu : list bytes) : list bytes :=
  match hu with
  | [] => []
  | d :: r => if frame_size d <=? keep then d :: kept_of (keep - frame_size d) r else []
  end.

(* markers after the last occurrence of h must not lie in (0, h): the early-exit shortcut of
   SearchForEndHeight is exact for logs whose non-zero markers increase *)
Fixpoint after_last (h : Z) (ms : list Z) (acc : list Z) : list Z :=
  match ms with
  | [] => acc
  | m :: r => if m =? h then after_last h r r else after_last h r acc
  end.
Definition mono_ok (h : Z) (ms : list Z) : bool :=
  forallb (fun m => (m <=? 0) || (h <? m)) (after_last h ms ms).

Section Mon.
Variable tab : tag_tab.
Definition markers (l : list bytes) : list Z :=
  flat_map (fun d => match lookup tab d with Some h => [h] | None => [] end) l.
Definition is_marker (h : Z) (d : bytes) : bool :=
  match lookup tab d with Some m => m =? h | None => false end.

(* records following the first marker h of the last segment that contains one *)
Fixpoint after_first (h : Z) (l : list bytes) : option (list bytes) :=
  match l with
  | [] => None
  | d :: r => if is_marker h d then Some r else after_first h r
  end.
Fixpoint expected_after (h : Z) (segs : list (list bytes)) : option (list bytes) :=
  match segs with
  | [] => None
  | sg :: r =>
    match expected_after h r with
    | Some l => Some l
    | None => match after_first h sg with
              | Some l => Some (l ++ concat r)
              | None => None
              end
    end
  end.

Definition sizes_of (s : snap) : list Z := let '(_, _, _, _, _, sz, _) := s in sz.
Definition head_of (s : snap) : Z := let '(h, _, _, _, _, _, _) := s in h.
Definition buffered_of (s : snap) : Z := let '(_, b, _, _, _, _, _) := s in b.
Definition max_of (s : snap) : Z := let '(_, _, _, mx, _, _, _) := s in mx.
Definition first_of_snap (s : snap) : Z := let '(_, _, _, _, fi, _, _) := s in fi.
Definition idxs_of (s : snap) : list Z := let '(_, _, _, _, _, _, ix) := s in ix.

Definition zl_eqb := list_eqb Z.eqb.
Definition nlen {A} (l : list A) : Z := Z.of_nat (List.length l).

Definition add_verd (m : mon) (v : list verdict) (sn : snap) : mon :=
  {| m_segs := m_segs m; m_hs := m_hs m; m_hu := m_hu m; m_hpart := m_hpart m;
     m_flipped := m_flipped m;
     m_tainted := m_tainted m; m_prev := sn; m_verd := m_verd m ++ v |}.
Definition set_j (m : mon) (segs : list (list bytes)) (hs hu : list bytes) : mon :=
  {| m_segs := segs; m_hs := hs; m_hu := hu; m_hpart := m_hpart m; m_flipped := m_flipped m;
     m_tainted := m_tainted m; m_prev := m_prev m; m_verd := m_verd m |}.
Definition set_flags (m : mon) (fl ta : bool) : mon :=
  {| m_segs := m_segs m; m_hs := m_hs m; m_hu := m_hu m; m_hpart := m_hpart m; m_flipped := fl;
     m_tainted := ta; m_prev := m_prev m; m_verd := m_verd m |}.
Definition set_hpart (m : mon) (hp : option nat) : mon :=
  {| m_segs := m_segs m; m_hs := m_hs m; m_hu := m_hu m; m_hpart := hp; m_flipped := m_flipped m;
     m_tainted := m_tainted m; m_prev := m_prev m; m_verd := m_verd m |}.
(* the head was moved away whole (with its partial record, if any): the new head is empty *)
Definition rotated (m : mon) : mon :=
  set_hpart (set_j m (m_segs m ++ [m_hs m ++ m_hu m]) [] []) None.

(* clause 4 for an operation that must not remove anything: the indexed files are the previous
   ones -- same numbers, same sizes --, possibly preceded by re-created empty files (readers),
   possibly followed by the rotated head, which gets the number MaxIndex had (a rotation that
   renames the head onto an existing file shows up as a missing entry) *)
Fixpoint increasing (l : list Z) : bool :=
  match l with
  | a :: ((b :: _) as r) => (a <? b) && increasing r
  | _ => true
  end.
Definition files_kept (prev now : snap) (rotated : bool) : bool :=
  let sp := sizes_of prev ++ (if rotated then [head_of prev + buffered_of prev] else []) in
  let ip := idxs_of prev ++ (if rotated then [max_of prev] else []) in
  let sn := sizes_of now in
  let k := (List.length sn - List.length sp)%nat in
  Nat.leb (List.length sp) (List.length sn)
  && forallb (Z.eqb 0) (firstn k sn) && zl_eqb (skipn k sn) sp
  && zl_eqb (skipn k (idxs_of now)) ip && increasing (idxs_of now)
  && Nat.eqb (List.length (idxs_of now)) (List.length sn).

(* [mrep] = Some b: the operation is a restart and the start-up of the model repaired (b = true)
   or did not repair (b = false); None: no restart, or the model was not run this far *)
Definition mon_step (m : mon) (o : xop) (a : xans) (sn : snap) (mrep : option bool) : mon :=
  let prev := m_prev m in
  let created := (List.length (sizes_of sn) - List.length (sizes_of prev))%nat in
  match o, a with
  | XWrite d _, XAck ok =>
    let m1 := if ok then set_j m (m_segs m) (m_hs m) (m_hu m ++ [unpl d]) else m in
    add_verd m1 [viol (files_kept prev sn false) 4] sn
  | XWriteSync d _, XAck ok =>
    let m1 := if ok then set_j m (m_segs m) (m_hs m ++ m_hu m ++ [unpl d]) [] else m in
    add_verd m1 [viol (files_kept prev sn false) 4] sn
  | XFlush, XAck ok =>
    let m1 := if ok then set_j m (m_segs m) (m_hs m ++ m_hu m) [] else m in
    add_verd m1 [viol (files_kept prev sn false) 4] sn
  | XRotate, _ =>
    add_verd (rotated m) [viol (files_kept prev sn true) 4] sn
  | XCheckHead, _ =>
    let rot := max_of sn =? max_of prev + 1 in
    let m1 := if rot then rotated m else m in
    add_verd m1 [viol (files_kept prev sn rot) 4] sn
  | XCheckTotal, _ =>
    (* only whole oldest files, at most maxFilesToRemove, never the head *)
    let n := (List.length (sizes_of prev) - List.length (sizes_of sn))%nat in
    let ok := Nat.leb (List.length (sizes_of sn)) (List.length (sizes_of prev))
              && (Z.of_nat n <=? autofile_max_files_to_remove)
              && zl_eqb (sizes_of sn) (skipn n (sizes_of prev))
              && zl_eqb (idxs_of sn) (skipn n (idxs_of prev))
              && (head_of sn =? head_of prev) && (buffered_of sn =? buffered_of prev) in
    add_verd (set_j m (skipn n (m_segs m)) (m_hs m) (m_hu m)) [viol ok 4] sn
  | XRestart keep h cu d0a d0b, XRestarted status repaired replayed all t =>
    let allb := map unpl all in
    let d0s := filter (fun d => negb (Nat.eqb (List.length d) 0)) [unpl d0a; unpl d0b] in
    let durable := concat (m_segs m) ++ m_hs m in
    let written := concat (m_segs m) ++ m_hs m ++ m_hu m ++ d0s in
    let v1 := if m_flipped m then V_ok
              else viol_k (m_tainted m) (is_prefix durable allb) 1 in
    let v2 := viol (is_subseq allb written) 2 in
    let is_torn := torn keep (m_hu m) in
    let taint := m_tainted m
                 || (is_torn && match mrep with Some false => true | _ => false end) in
    (* the head after the crash: its synced records, the unsynced ones that survived whole, a
       partial record behind them when the cut fell inside a frame *)
    let on_disk := m_hs m ++ kept_of (Z.max 0 keep) (m_hu m) in
    let hp_crash := match m_hpart m with
                    | Some k => Some k
                    | None => if is_torn then Some (List.length on_disk) else None
                    end in
    (* repairWalFile keeps the records in front of the first partial record *)
    let head_journal :=
      (if repaired then match hp_crash with Some k => firstn k on_disk | None => on_disk end
       else on_disk) ++ d0s in
    let hs' :=
      (* after damage by flips the reader stops early: keep everything that may still be on disk *)
      if m_flipped m then m_hs m ++ m_hu m ++ d0s
      (* clean end: the reader has seen the whole log *)
      else if (t =? 0)%N then skipn (List.length (concat (m_segs m))) allb
      (* stopped at a corrupt place: it says nothing about what lies behind *)
      else head_journal in
    add_verd (set_hpart (set_flags (set_j m (m_segs m) hs' []) (m_flipped m) taint)
                        (if repaired then None else hp_crash))
             [v1; v2; viol (files_kept prev sn false) 4] sn
  | XFlip _ _ _, _ => add_verd (set_flags m true (m_tainted m)) [] sn
  | XSearch h ig, XSearched res after t =>
    let segs := repeat [] created ++ m_segs m in
    let disk := segs ++ [m_hs m ++ m_hu m] in
    let ms := markers (concat disk) in
    let present := existsb (Z.eqb h) ms in
    let checkable := negb (m_flipped m) && (buffered_of prev =? 0)
                     && (negb present || mono_ok h ms) in
    let v3 :=
      if checkable then
        viol_k (m_tainted m)
          (match expected_after h disk with
           | Some l => (res =? 1)%N && list_eqb bytes_eqb l (map unpl after)
           | None => (res =? 0)%N
           end) 3
      else V_ok in
    add_verd (set_j m segs (m_hs m) (m_hu m)) [v3; viol (files_kept prev sn false) 4] sn
  | XRead idx, XReadAns recs t =>
    let segs := repeat [] created ++ m_segs m in
    let written := concat segs ++ m_hs m ++ m_hu m in
    add_verd (set_j m segs (m_hs m) (m_hu m))
             [viol (is_subseq (map unpl recs) written) 2; viol (files_kept prev sn false) 4] sn
  | _, _ => add_verd m [V_mismatch 10] sn
  end.

Fixpoint mon_run (m : mon) (ops : list xop) (ans : list xans) (sns : list snap)
                 (mreps : list (option bool)) : mon :=
  match ops, ans, sns with
  | o :: ops', a :: ans', sn :: sns' =>
    mon_run (mon_step m o a sn (hd None mreps)) ops' ans' sns' (tl mreps)
  | _, _, _ => m
  end.
End Mon.

Definition ans_code (x : xans) : N :=
  match x with
  | XAck _ => 11 | XNone => 12 | XRestarted _ _ _ _ _ => 13 | XSearched _ _ _ => 14
  | XReadAns _ _ => 15
  end%N.

Fixpoint cmp_answers (ms : list ans) (xs : list xans) : list verdict :=
  match ms, xs with
  | a :: ms', x :: xs' => mism (ans_eqb a x) (ans_code x) :: cmp_answers ms' xs'
  | [], [] => []
  | _, _ => [V_mismatch 10]
  end.
Fixpoint cmp_snaps (ms xs : list snap) : list verdict :=
  match ms, xs with
  | a :: ms', x :: xs' => mism (snap_eqb a x) 16 :: cmp_snaps ms' xs'
  | [], [] => []
  | _, _ => [V_mismatch 10]
  end.

(* the directory before the first open: the pre-existing rolled files, no head *)
Definition snap0 (base : Z) (pre : list (list bytes)) : snap :=
  (0, 0, 0, 0, match pre with [] => -1 | _ => base end,
   map (fun rs => fold_right (fun d a => frame_size d + a) 0 rs) pre,
   map (fun k => base + Z.of_nat k) (seq 0 (List.length pre))).

(* ---------------------------------------------------------------- node lives *)
Definition nrec_eqb (a b : nrec) : bool :=
  let '(NR k h c l) := a in let '(NR k' h' c' l') := b in
  (k =? k')%N && (h =? h') && (c =? c')%N && (l =? l').
Fixpoint nprefix (a b : list nrec) : bool :=
  match a, b with
  | [], _ => true
  | x :: a', y :: b' => nrec_eqb x y && nprefix a' b'
  | _ :: _, [] => false
  end.
Definition nmarkers (l : list nrec) : list Z :=
  flat_map (fun r => let '(NR k h _ _) := r in if (k =? 0)%N && (0 <? h) then [h] else []) l.
Fixpoint zsubseq (a b : list Z) : bool :=
  match b with
  | [] => match a with [] => true | _ => false end
  | y :: b' => match a with
               | [] => true
               | x :: a' => if x =? y then zsubseq a' b' else zsubseq a b'
               end
  end.
Definition zrange (n : Z) : list Z := map (fun k => Z.of_nat k + 1) (seq 0 (Z.to_nat n)).
(* the node's own precommit for height h stands in front of #ENDHEIGHT h (1 <= h <= committed) *)
Fixpoint precommit_before (committed : Z) (seen : list Z) (l : list nrec) : bool :=
  match l with
  | [] => true
  | NR k h _ _ :: r =>
    if (k =? 6)%N then precommit_before committed (h :: seen) r
    else if (k =? 0)%N && (0 <? h) && (h <=? committed)
         then existsb (Z.eqb h) seen && precommit_before committed seen r
         else precommit_before committed seen r
  end.

(* a log with the framing of the one the checkpoint saw: record i is a payload of the recorded
   length that starts with i (so the markers can be told apart); what the start-up does with it
   depends on lengths, checksums and markers only *)
Definition synth (i : nat) (l : Z) : bytes :=
  let n := N.of_nat i in
  firstn (Z.to_nat l) ([(n / 65536) mod 256; (n / 256) mod 256; n mod 256]%N
                       ++ repeat 0%N (Z.to_nat l - 3)).
Definition synth_log (recs : list nrec) : list (bytes * option Z) :=
  map (fun ir : nat * nrec => let '(i, NR k h _ l) := ir in
         (synth i l, if (k =? 0)%N then Some h else None))
      (combine (seq 0 (List.length recs)) recs).
Definition synth_tail (i : nat) (tk : N) (n plen off : Z) : bytes :=
  let fr := frame crc32c_be (synth i plen) in
  if (tk =? 1)%N then firstn (Z.to_nat n) fr
  else if (tk =? 2)%N then fr
  else if (tk =? 3)%N then xor_at fr (Z.to_nat off) 1%N
  else [].
(* the start-up of the model on that log: (status, repaired) *)
Definition model_start (recs : list nrec) (tk : N) (n plen off : Z) (h : Z) (cu : bool) : N * bool :=
  let lg := synth_log recs in
  let hd := concat (map (fun x => frame crc32c_be (fst x)) lg)
            ++ synth_tail (List.length recs) tk n plen off in
  let s := set_disk (init 0 0) [] hd (len hd) [] in
  let '(_, (st, rp, _)) :=
    restart crc32c_be (fun _ => true) (lookup lg) true s 1073741824 h cu []
            (repeat 255%N 20) in
  (st, rp).

(* Known finding 10 (F53): catchupReplay hands the records to the state machine while it is still
   reading.  When the log in front of a partial record already holds the node's own precommit
   for the height h being replayed, the replay commits h INSIDE State.OnStart: finalizeCommit
   writes #ENDHEIGHT h (WriteSync) behind the partial record, the replay then runs into the
   partial record, and repairWalFile cuts the head there -- the acknowledged marker is gone.
   The class, from the recorded history and the model: a restart whose crash left a partial
   (or damaged) record, at which the model's start-up repairs, the backup file WAS written (the
   repair ran: an implementation that does not repair is not in the class) or the incarnation
   was killed inside State.OnStart (after the replay had written the marker, before it reached
   the partial record), and the log of the previous checkpoint holds a precommit for height
   committed+1.  Only the loss of the marker
   of exactly that height is in the class; every other missing marker or record is a violation. *)
Definition has_precommit (h : Z) (l : list nrec) : bool :=
  existsb (fun r => let '(NR k h' _ _) := r in (k =? 6)%N && (h' =? h)) l.
Definition viol_k10 (tainted : bool) (b b_without_lost : bool) (clause : N) : verdict :=
  if b then V_ok else if tainted then V_known 9
  else if b_without_lost then V_known 10 else V_violation clause.

(* n_pending: the log ends in a partial record that is still there for a reason the
   specification allows -- the incarnation that should have repaired it was killed inside
   State.OnStart before it got there (what it wrote behind the partial record is unreadable
   and was never synced) *)
Record nmon := { n_prev : option (list nrec * N * Z); n_taint : bool; n_lost : list Z;
                 n_pending : bool; n_verd : list verdict }.

Definition nstep (m : nmon) (sg : nstage) : nmon :=
  let '(NStage start sres backup hgt _ committed recs term found) := sg in
  let pc := match n_prev m with Some (_, _, c) => c | None => 0 end in
  let '(taint, lost, pending, cmp) :=
    match start, n_prev m with
    | NRestart cu tk n plen off, Some (pr, pt, pc) =>
      if (pt =? 0)%N || n_pending m then
        let corrupt := (tk =? 1)%N || (tk =? 3)%N || n_pending m in
        let '(st, rp) :=
          if n_pending m then model_start pr 1 1 20 0 (pc + 1) cu   (* garbage behind the records *)
          else model_start pr tk n plen off (pc + 1) cu in
        (* class 9: the crash left a partial (or damaged) record and the specified start-up does
           not repair; what the implementation did plays no part *)
        (n_taint m || (corrupt && negb rp),
         (* class 10: the replay commits height pc+1 in front of the partial record, then repairs *)
         (if corrupt && rp && (backup || (sres =? 2)%N) && has_precommit (pc + 1) pr
          then [pc + 1] else []) ++ n_lost m,
         (* killed inside OnStart before the repair that was due *)
         corrupt && rp && negb backup && (sres =? 2)%N,
         if n_taint m || (sres =? 2)%N then []
         else [ mism (Bool.eqb backup rp) 20;
                mism (Bool.eqb (st =? 2)%N (sres =? 1)%N) 20 ])
      else (n_taint m, n_lost m, false, [])  (* an older partial record is still in the log *)
    | _, _ => (n_taint m, n_lost m, false, [])
    end in
  let is_lost h := existsb (Z.eqb h) lost in
  let found_ok (skip_lost : bool) :=
    forallb (fun hf : Z * N => (skip_lost && is_lost (fst hf)) || (snd hf =? 1)%N)
            (combine (zrange committed) found)
    && (Z.of_nat (List.length found) =? Z.max 0 committed) in
  let want (skip_lost : bool) :=
    filter (fun h => negb (skip_lost && is_lost h)) (zrange committed) in
  let v3 := viol_k10 taint (found_ok false) (found_ok true) 3 in
  let v1a := viol_k10 taint (zsubseq (want false) (nmarkers recs))
                            (zsubseq (want true) (nmarkers recs)) 1 in
  let v1b := viol_k taint (match n_prev m with Some (pr, _, _) => nprefix pr recs | None => true end) 1 in
  let v1c := viol_k taint (precommit_before committed [] recs) 1 in
  let v2 := viol (increasing (nmarkers recs)) 2 in
  let vh := mism (negb (sres =? 0)%N || (pc + 1 <=? hgt)) 21 in
  {| n_prev := Some (recs, term, committed); n_taint := taint; n_lost := lost; n_pending := pending;
     n_verd := n_verd m ++ [v1b; v1a; v1c; v2; v3] ++ cmp ++ [vh] |}.

(* ---------------------------------------------------------------- start on a synced state
   Clause 5 (last clause of the property, on what the implementation answered only): the log is
   intact (a sequential reader came to a clean end) and holds records of the unfinished height
   u = committed+1 — the restart with catch-up must bring the node back to what they say: with
   the node's own precommit in the log the single validator commits u while replaying (height
   u+1) or at least holds the proposal and the precommit; without it the node stands at u, has
   the proposal when the log holds one and at least the prevotes the log holds. *)
Definition count_kind (k : N) (h : Z) (l : list nrec) : Z :=
  Z.of_nat (List.length (filter (fun r => let '(NR k' h' _ _) := r in (k' =? k)%N && (h' =? h)) l)).
Definition sync_restored (committed : Z) (recs : list nrec) (rh : Z) (rprop : bool)
                         (rprev rprec : Z) : bool :=
  let u := committed + 1 in
  if 0 <? count_kind 6 u recs
  then (rh =? u + 1) || ((rh =? u) && rprop && (1 <=? rprec))
  else (rh =? u) && (implb (0 <? count_kind 3 u recs) rprop) && (count_kind 5 u recs <=? rprev).

(* the log as State.OnStart found it: the records in front of #ENDHEIGHT H / of the first record
   of height H+1 *)
Fixpoint before_height (H : Z) (l : list nrec) : list nrec * list nrec :=
  match l with
  | [] => ([], [])
  | NR k h c n :: r =>
    if ((k =? 0)%N && (h =? H)) || (h =? H + 1) then ([], l)
    else let '(a, b) := before_height H r in (NR k h c n :: a, b)
  end.
(* Model (ModelSync.mark_synced, the code after the F88 repair) on a log of that framing: does
   the start on the synced state write the marker? *)
Definition model_marks (pre : list nrec) (H : Z) : bool :=
  let lg := synth_log pre in
  let hd := concat (map (fun x => frame crc32c_be (fst x)) lg) in
  let s := set_disk (init 0 0) [] hd (len hd) [] in
  let dH := repeat 254%N 12 in
  let s' := mark_synced crc32c_be (fun _ => true) (lookup ((dH, Some H) :: lg)) true true s H dH in
  negb (len (head s' ++ buf s') =? len hd).

Definition sync_verd (H committed : Z) (recs : list nrec) (term rerr : N) (rh : Z) (rprop : bool)
                     (rprev rprec : Z) (fres : N) : list verdict :=
  let '(pre, rest) := before_height H recs in
  let impl_marks := match rest with NR k h _ _ :: _ => (k =? 0)%N && (h =? H) | [] => false end in
  let '(st, _) := model_start recs 0 0 0 0 (committed + 1) true in
  [ (if (term =? 0)%N then viol (sync_restored committed recs rh rprop rprev rprec) 5 else V_ok);
    viol (increasing (nmarkers recs)) 2;
    mism (Bool.eqb (model_marks pre H) impl_marks) 22;
    mism (Bool.eqb (st =? 0)%N (rerr =? 0)%N) 23;
    mism (fres =? 0)%N 24 ].

Definition check (c : case) : verdict :=
  match c with
  | CWal hl tl base pre ops answers snaps ffiles fhead =>
    let prer := map (map (fun x : pl * option Z => unpl (fst x))) pre in
    let tab := flat_map (map (fun x : pl * option Z => (unpl (fst x), snd x))) pre ++ tags_of ops in
    (* the model first (guarded against materialising thousands of files, see [too_far]): its
       restarts say where the specification of the start-up leaves a partial record *)
    let '(s, mans, msnaps, ok) :=
      mrun (lookup tab) (init_at crc32c_be hl tl base prer) (map mop ops) in
    let mreps := map (fun a => match a with ARestart _ rp _ _ _ => Some rp | _ => None end) mans in
    let m := mon_run tab {| m_segs := prer; m_hs := []; m_hu := []; m_hpart := None;
                            m_flipped := false;
                            m_tainted := false; m_prev := snap0 base prer; m_verd := [] |}
                     ops answers snaps mreps in
    if negb ok then first_of (m_verd m ++ [V_mismatch 19]) else
    first_of (m_verd m ++
              cmp_answers mans answers ++ cmp_snaps msnaps snaps ++
              [ mism (list_eqb bytes_eqb (files s) (map unpl ffiles)) 17;
                mism (bytes_eqb (head s ++ buf s) (unpl fhead)) 18 ])
  | CSync H crashAt ended committed recs term rerr rh rprop rprev rprec fres =>
    first_of (sync_verd H committed recs term rerr rh rprop rprev rprec fres)
  | CNode stages =>
    first_of (n_verd (fold_left nstep stages {| n_prev := None; n_taint := false; n_lost := []; n_pending := false; n_verd := [] |}))
  end.
