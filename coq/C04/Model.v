(* C04 — model of privval/file.go (FilePVLastSignState.CheckHRS, FilePV.signVote, signProposal,
   saveSigned, checkVotesOnlyDifferByTimestamp / checkProposalsOnlyDifferByTimestamp) and of
   libs/tempfile WriteFileAtomic as an atomic old-or-new switch of the state file.
   Transcribed by hand, branch by branch in the order of the checks of the source; tied to /repo
   by (a) Generated/Consts.v (step numbering stepNone..stepPrecommit and the SignedMsgType values,
   regenerated from the source on every run) and (b) the correspondence run
   (harness/overlay/privval/verif_c04_test.go).  No proofs in this file.

   Sign-bytes are records: the canonical vote / proposal that protoio.MarshalDelimited encodes
   (types/canonical.go).  Block ids and chain ids are abstract integers (the harness numbers the
   distinct canonical block ids / chain ids it uses; 0 = nil block id).  "Differ only by
   timestamp" is therefore structural: all fields but [m_ts] equal.
   The signature scheme is abstract: [sign : msg -> sigT] is a parameter. *)
From Coq Require Import List ZArith Bool.
From TM Require Import Generated.Consts.
Import ListNotations.
Open Scope Z_scope.

Inductive kind := KVote | KProposal.

(* the canonical message = what VoteSignBytes / ProposalSignBytes serialise.
   [m_polr] is 0 for votes (CanonicalVote has no such field). *)
Record msg := {
  m_kind : kind;
  m_type : Z;      (* SignedMsgType as written into the canonical message *)
  m_h : Z;
  m_r : Z;
  m_polr : Z;
  m_bid : Z;
  m_ts : Z;        (* unix nanoseconds *)
  m_chain : Z
}.

Definition kind_eqb (a b : kind) : bool :=
  match a, b with KVote, KVote | KProposal, KProposal => true | _, _ => false end.

(* proto.Equal after both timestamps were overwritten with the same value *)
Definition same_mod_ts (a b : msg) : bool :=
  kind_eqb (m_kind a) (m_kind b) && (m_type a =? m_type b) && (m_h a =? m_h b)
  && (m_r a =? m_r b) && (m_polr a =? m_polr b) && (m_bid a =? m_bid b)
  && (m_chain a =? m_chain b).

(* bytes.Equal(signBytes, lss.SignBytes) *)
Definition msg_eqb (a b : msg) : bool := same_mod_ts a b && (m_ts a =? m_ts b).

Definition set_ts (m : msg) (ts : Z) : msg :=
  {| m_kind := m_kind m; m_type := m_type m; m_h := m_h m; m_r := m_r m; m_polr := m_polr m;
     m_bid := m_bid m; m_ts := ts; m_chain := m_chain m |}.

(* voteToStep (panics on an unknown vote type: None) / stepPropose for proposals *)
Definition msg_step (m : msg) : option Z :=
  match m_kind m with
  | KProposal => Some pv_step_propose
  | KVote =>
    if m_type m =? msg_type_prevote then Some pv_step_prevote
    else if m_type m =? msg_type_precommit then Some pv_step_precommit
    else None
  end.

(* (height, round, step) a message is signed for; step -1 for messages signVote panics on *)
Definition hrs := (Z * Z * Z)%type.
Definition msg_hrs (m : msg) : hrs :=
  (m_h m, m_r m, match msg_step m with Some s => s | None => -1 end).

Section Signer.
Variable sigT : Type.
Variable sign : msg -> sigT.

(* FilePVLastSignState (filePath omitted) *)
Record lss := {
  l_h : Z;
  l_r : Z;
  l_step : Z;
  l_sig : option sigT;     (* nil = None *)
  l_sb : option msg        (* nil = None *)
}.

Definition lss_hrs (l : lss) : hrs := (l_h l, l_r l, l_step l).

(* NewFilePV: Step = stepNone, everything else zero *)
Definition lss_init : lss :=
  {| l_h := 0; l_r := 0; l_step := pv_step_none; l_sig := None; l_sb := None |}.

(* CheckHRS: (false, err) = HErr; panic = HPanic; (true, nil) = HSame; (false, nil) = HNew *)
Inductive hrs_result := HErr | HPanic | HSame | HNew.

Definition check_hrs (l : lss) (h r s : Z) : hrs_result :=
  if l_h l >? h then HErr
  else if l_h l =? h then
    if l_r l >? r then HErr
    else if l_r l =? r then
      if l_step l >? s then HErr
      else if l_step l =? s then
        match l_sb l with
        | Some _ => match l_sig l with None => HPanic | Some _ => HSame end
        | None => HErr                                  (* "no SignBytes found" *)
        end
      else HNew
    else HNew
  else HNew.

(* result of signVote / signProposal up to, but excluding, the write of the state file *)
Inductive outcome :=
| ORefuse                              (* error returned, nothing signed *)
| OPanic                               (* the call panics, nothing signed *)
| OReuse (m : msg) (sg : sigT)         (* message as returned to the caller + stored signature *)
| OFresh (l' : lss) (sg : sigT).       (* new signature; l' must be persisted before returning *)

Definition sign_req (l : lss) (m : msg) : outcome :=
  match msg_step m with
  | None => OPanic
  | Some st =>
    match check_hrs l (m_h m) (m_r m) st with
    | HErr => ORefuse
    | HPanic => OPanic
    | HSame =>
      match l_sb l, l_sig l with
      | Some lm, Some sg =>
        if msg_eqb m lm then OReuse m sg                          (* identical sign-bytes *)
        else if same_mod_ts lm m then OReuse (set_ts m (m_ts lm)) sg   (* old timestamp + old signature *)
        else ORefuse                                              (* "conflicting data" *)
      | _, _ => OPanic      (* not reachable: HSame implies both present *)
      end
    | HNew =>
      let sg := sign m in
      OFresh {| l_h := m_h m; l_r := m_r m; l_step := st; l_sig := Some sg; l_sb := Some m |} sg
    end
  end.

(* The validator process: the state file and the in-memory copy. *)
Record state := { disk : lss; mem : lss }.

Definition init_state : state := {| disk := lss_init; mem := lss_init |}.

(* where, inside saveSigned -> Save -> WriteFileAtomic, the process dies *)
Inductive crashpoint :=
| CBeforeTemp      (* LastSignState fields assigned in memory, temp file not yet written *)
| CAfterTemp       (* temp file written and synced, not yet renamed over the state file *)
| CAfterRename.    (* state file replaced, signVote has not returned yet *)

Inductive op :=
| OpSign (m : msg)                         (* a sign request that runs to completion *)
| OpCrashSign (cp : crashpoint) (m : msg)  (* a sign request during which the process dies, then restart *)
| OpRestart.                               (* process stops between requests; restart = reload the file *)

(* one released signature: the message returned to the caller, the signature, and the content
   of the state file at the moment the call returns *)
Record event := { e_msg : msg; e_sig : sigT; e_disk : lss }.

Definition restart (d : lss) : state := {| disk := d; mem := d |}.

Definition step (s : state) (o : op) : state * list event :=
  match o with
  | OpSign m =>
    match sign_req (mem s) m with
    | ORefuse => (s, [])
    | OPanic => (restart (disk s), [])       (* consensus halts on a panic; nothing released *)
    | OReuse m' sg => (s, [{| e_msg := m'; e_sig := sg; e_disk := disk s |}])
    | OFresh l' sg =>
      (* saveSigned: memory := l'; WriteFileAtomic: disk := l'; only then the signature is set *)
      ({| disk := l'; mem := l' |}, [{| e_msg := m; e_sig := sg; e_disk := l' |}])
    end
  | OpCrashSign cp m =>
    (match sign_req (mem s) m with
    | OFresh l' _ =>
      match cp with
      | CBeforeTemp | CAfterTemp => restart (disk s)     (* old file survives *)
      | CAfterRename => restart l'                       (* new file survives *)
      end
    | _ => restart (disk s)
    end, [])
  | OpRestart => (restart (disk s), [])
  end.

Fixpoint run (s : state) (ops : list op) : state * list event :=
  match ops with
  | [] => (s, [])
  | o :: r =>
    let '(s1, ev) := step s o in
    let '(s2, evs) := run s1 r in
    (s2, ev ++ evs)
  end.

Definition released (ops : list op) : list event := snd (run init_state ops).

End Signer.

Arguments l_h {sigT}. Arguments l_r {sigT}. Arguments l_step {sigT}.
Arguments l_sig {sigT}. Arguments l_sb {sigT}. Arguments lss_hrs {sigT}.
Arguments e_msg {sigT}. Arguments e_sig {sigT}. Arguments e_disk {sigT}.
Arguments disk {sigT}. Arguments mem {sigT}.
