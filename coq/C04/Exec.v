(* C04 — executable side of the correspondence check: the case type written by the Go harness
   (harness/overlay/privval/verif_c04_test.go), the property monitors evaluated on the
   implementation's own answers (journal of released signatures + content of the state file after
   every operation, across all incarnations of the signer), and the comparison of the model with
   what the implementation returned.  Depends on Model.v only. *)
From Coq Require Import List ZArith NArith Bool String.
From TM Require Import Common.Hex Generated.Consts C04.Model.
Import ListNotations.
Open Scope Z_scope.

(* a canonical vote/proposal as decoded by the harness from the real sign-bytes:
   (is_proposal, type, height, round, pol_round, block-id number, timestamp ns, chain-id number) *)
Definition msgt := (bool * Z * Z * Z * Z * Z * Z * Z)%type.
Definition mk_msg (t : msgt) : msg :=
  let '(p, ty, h, r, polr, bid, ts, ch) := t in
  {| m_kind := if p then KProposal else KVote; m_type := ty; m_h := h; m_r := r;
     m_polr := polr; m_bid := bid; m_ts := ts; m_chain := ch |}.

(* the state file as read back by the harness: height, round, step, decoded SignBytes (None =
   absent), signature number (0 = absent; numbered by first occurrence of the signature bytes),
   and whether the signature verifies on the SignBytes under the validator's public key
   (true also when both are absent) *)
Definition diskt := (Z * Z * Z * option msgt * N * bool)%type.

(* answer of SignVote/SignProposal: rc 0 = nil error, 1 = error, 2 = panic; then, meaningful for
   rc = 0: the canonical message of the vote/proposal as it stands after the call (timestamp
   possibly replaced), the signature number, whether the signature verifies on that message *)
Inductive iop :=
| ISign (m : msgt) (rc : N) (out : msgt) (sg : N) (sg_ok : bool) (d : diskt)
(* cp 0: the state directory is missing during the call (temp file cannot be created: Save panics)
   cp 1: the state file path is occupied by a directory (temp file written, rename fails: panic)
   cp 2: the call completes, its result is dropped.  Then the old/new file is what LoadFilePV sees.
   The answer of the call is recorded but is NOT a released signature (the process is dead). *)
| ICrash (cp : N) (m : msgt) (rc : N) (out : msgt) (sg : N) (sg_ok : bool) (d : diskt)
| IRestart (d : diskt).

Inductive case := CRun (d0 : diskt) (ops : list iop).

Definition mism (b : bool) (code : N) : verdict := if b then V_ok else V_mismatch code.
Definition viol (b : bool) (clause : N) : verdict := if b then V_ok else V_violation clause.

Definition hrs_eqb (a b : hrs) : bool :=
  let '(h1, r1, s1) := a in let '(h2, r2, s2) := b in (h1 =? h2) && (r1 =? r2) && (s1 =? s2).
Definition hrs_leb (a b : hrs) : bool :=
  let '(h1, r1, s1) := a in let '(h2, r2, s2) := b in
  (h1 <? h2) || ((h1 =? h2) && ((r1 <? r2) || ((r1 =? r2) && (s1 <=? s2)))).

(* ------------------------------------------------------------------ monitors (implementation only) *)

Definition d_hrs (d : diskt) : hrs := let '(h, r, s, _, _, _) := d in (h, r, s).

(* journal of released signatures: (message returned, signature number) *)
Fixpoint journal (ops : list iop) : list (msg * N) :=
  match ops with
  | [] => []
  | ISign _ rc out sg _ _ :: r => (if (rc =? 0)%N then [(mk_msg out, sg)] else []) ++ journal r
  | _ :: r => journal r
  end.

Fixpoint pairwise {A} (p : A -> A -> bool) (l : list A) : bool :=
  match l with
  | [] => true
  | x :: r => forallb (p x) r && pairwise p r
  end.

(* clause 1: two released signatures for one (h, r, step) are over the same block: all fields
   of the sign-bytes but the timestamp agree *)
Definition mon_same_block (j : list (msg * N)) : bool :=
  pairwise (fun a b => negb (hrs_eqb (msg_hrs (fst a)) (msg_hrs (fst b)))
                       || same_mod_ts (fst a) (fst b)) j.

(* clause 2: ... and then the earlier signature (with its timestamp) is the one released again *)
Definition mon_reuse (j : list (msg * N)) : bool :=
  pairwise (fun a b => negb (hrs_eqb (msg_hrs (fst a)) (msg_hrs (fst b)))
                       || negb (same_mod_ts (fst a) (fst b))
                       || ((m_ts (fst a) =? m_ts (fst b)) && (snd a =? snd b)%N)) j.

(* clause 3: when a signature is handed out the state file holds exactly that (h, r, step),
   sign-bytes and signature.  Also checked for calls that returned a signature while the file
   could not be replaced (crash points 0 and 1). *)
Definition disk_holds (d : diskt) (out : msg) (sg : N) : bool :=
  let '(h, r, s, sb, dsg, _) := d in
  hrs_eqb (h, r, s) (msg_hrs out) && (dsg =? sg)%N && negb (sg =? 0)%N &&
  match sb with Some t => msg_eqb (mk_msg t) out | None => false end.

Fixpoint mon_persisted (ops : list iop) : bool :=
  match ops with
  | [] => true
  | ISign _ rc out sg _ d :: r =>
    (negb (rc =? 0)%N || disk_holds d (mk_msg out) sg) && mon_persisted r
  | ICrash cp _ rc out sg _ d :: r =>
    (negb (rc =? 0)%N || (cp =? 2)%N || disk_holds d (mk_msg out) sg) && mon_persisted r
  | IRestart _ :: r => mon_persisted r
  end.

(* clause 4: the (h, r, step) of the state file never decreases, whatever is requested and
   wherever the process dies *)
Definition op_disk (o : iop) : diskt :=
  match o with ISign _ _ _ _ _ d => d | ICrash _ _ _ _ _ _ d => d | IRestart d => d end.
Fixpoint mon_monotone (prev : hrs) (ops : list iop) : bool :=
  match ops with
  | [] => true
  | o :: r => hrs_leb prev (d_hrs (op_disk o)) && mon_monotone (d_hrs (op_disk o)) r
  end.

(* clause 5: a released signature is a valid signature of the returned message *)
Fixpoint mon_sig_valid (ops : list iop) : bool :=
  match ops with
  | [] => true
  | ISign _ rc _ sg ok _ :: r => (negb (rc =? 0)%N || (ok && negb (sg =? 0)%N)) && mon_sig_valid r
  | _ :: r => mon_sig_valid r
  end.

(* ------------------------------------------------------------------ model vs implementation *)

(* the model is run with "the signature of m is m": signatures are compared through the
   numbering of the implementation's signatures (equal numbers <-> equal signed messages) *)
Definition sgn (m : msg) : msg := m.
Definition mstate := state msg.

Definition cp_of (n : N) : crashpoint :=
  if (n =? 0)%N then CBeforeTemp else if (n =? 1)%N then CAfterTemp else CAfterRename.

(* expected (rc, returned message, signature) *)
Definition expect (crash : option crashpoint) (s : mstate) (m : msg) : N * msg * option msg :=
  match sign_req msg sgn (mem s) m with
  | ORefuse _ => (1%N, m, None)
  | OPanic _ => (2%N, m, None)
  | OReuse _ m' sg => (0%N, m', Some sg)
  | OFresh _ _ sg =>
    match crash with
    | Some CBeforeTemp | Some CAfterTemp => (2%N, m, None)   (* Save panics *)
    | _ => (0%N, m, Some sg)
    end
  end.

Definition opt_msg_eqb (a b : option msg) : bool :=
  match a, b with
  | Some x, Some y => msg_eqb x y
  | None, None => true
  | _, _ => false
  end.

Definition disk_eqb (l : lss msg) (d : diskt) : bool :=
  let '(h, r, s, sb, _, _) := d in
  (l_h l =? h) && (l_r l =? r) && (l_step l =? s) && opt_msg_eqb (l_sb l) (option_map mk_msg sb).

Definition disk_sig_ok (l : lss msg) : bool := opt_msg_eqb (l_sb l) (l_sig l).

(* (signed message according to the model, signature number of the implementation) *)
Definition disk_pair (l : lss msg) (d : diskt) : list (msg * N) :=
  let '(_, _, _, _, dsg, _) := d in
  match l_sig l with Some sg => [(sg, dsg)] | None => [] end.

Fixpoint walk (s : mstate) (ops : list iop) : list verdict * list (msg * N) :=
  match ops with
  | [] => ([], [])
  | o :: rest =>
    let '(s', vs, ps) :=
      match o with
      | ISign mt rc out sg ok d =>
        let m := mk_msg mt in
        let '(rc_m, out_m, sg_m) := expect None s m in
        let s' := fst (step msg sgn s (OpSign m)) in
        (s',
         [mism (rc_m =? rc)%N 11;
          mism (negb (rc =? 0)%N || negb (rc_m =? 0)%N || msg_eqb out_m (mk_msg out)) 12;
          mism (disk_eqb (disk s') d) 13;
          mism (Bool.eqb (disk_sig_ok (disk s')) (snd d)) 14],
         (match sg_m with Some x => if (rc =? 0)%N then [(x, sg)] else [] | None => [] end)
         ++ disk_pair (disk s') d)
      | ICrash cp mt rc out sg ok d =>
        let m := mk_msg mt in
        let '(rc_m, out_m, sg_m) := expect (Some (cp_of cp)) s m in
        let s' := fst (step msg sgn s (OpCrashSign (cp_of cp) m)) in
        (s',
         [mism (rc_m =? rc)%N 16;
          mism (negb (rc =? 0)%N || negb (rc_m =? 0)%N || msg_eqb out_m (mk_msg out)) 12;
          mism (disk_eqb (disk s') d) 13;
          mism (Bool.eqb (disk_sig_ok (disk s')) (snd d)) 14],
         disk_pair (disk s') d)
      | IRestart d =>
        let s' := fst (step msg sgn s OpRestart) in
        (s', [mism (disk_eqb (disk s') d) 13], disk_pair (disk s') d)
      end in
    let '(vr, pr) := walk s' rest in (vs ++ vr, ps ++ pr)
  end.

Definition sig_numbering_consistent (ps : list (msg * N)) : bool :=
  pairwise (fun a b => Bool.eqb (msg_eqb (fst a) (fst b)) (snd a =? snd b)%N) ps.

Definition check (c : case) : verdict :=
  match c with
  | CRun d0 ops =>
    let j := journal ops in
    let '(vs, ps) := walk (init_state msg) ops in
    first_of ([
      viol (mon_same_block j) 1;
      viol (mon_reuse j) 2;
      viol (mon_persisted ops) 3;
      viol (mon_monotone (d_hrs d0) ops) 4;
      viol (mon_sig_valid ops) 5;
      mism (disk_eqb (lss_init msg) d0) 10 ]
      ++ vs ++ [ mism (sig_numbering_consistent ps) 15 ])
  end.
