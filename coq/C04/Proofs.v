(* C04 — proofs about the model of privval/file.go (coq/C04/Model.v).
   Everything is proved for an arbitrary signature type and signing function, for every list of
   operations (any requests in any order, any number of crashes at any of the three crash points,
   any number of restarts). *)
From Coq Require Import List ZArith Bool Lia Sorting.Sorted.
From TM Require Import Generated.Consts C04.Model.
Import ListNotations.
Open Scope Z_scope.

(* ------------------------------------------------------------------ order on (h, r, step) *)

Definition hrs_lt (a b : hrs) : Prop :=
  let '(h1, r1, s1) := a in let '(h2, r2, s2) := b in
  h1 < h2 \/ (h1 = h2 /\ (r1 < r2 \/ (r1 = r2 /\ s1 < s2))).
Definition hrs_le (a b : hrs) : Prop := hrs_lt a b \/ a = b.

Lemma hrs_le_refl : forall a, hrs_le a a.
Proof. intro a; right; reflexivity. Qed.

Lemma hrs_lt_irrefl : forall a, ~ hrs_lt a a.
Proof. intros [[h r] s]; unfold hrs_lt; lia. Qed.

Lemma hrs_lt_trans : forall a b c, hrs_lt a b -> hrs_lt b c -> hrs_lt a c.
Proof. intros [[h1 r1] s1] [[h2 r2] s2] [[h3 r3] s3]; unfold hrs_lt; lia. Qed.

Lemma hrs_le_lt_trans : forall a b c, hrs_le a b -> hrs_lt b c -> hrs_lt a c.
Proof. intros a b c [H | ->] K; [eapply hrs_lt_trans; eassumption | assumption]. Qed.

Lemma hrs_lt_le_trans : forall a b c, hrs_lt a b -> hrs_le b c -> hrs_lt a c.
Proof. intros a b c H [K | <-]; [eapply hrs_lt_trans; eassumption | assumption]. Qed.

Lemma hrs_le_trans : forall a b c, hrs_le a b -> hrs_le b c -> hrs_le a c.
Proof.
  intros a b c H [K | <-]; [left; eapply hrs_le_lt_trans; eassumption | assumption].
Qed.

Lemma hrs_lt_neq : forall a b, hrs_lt a b -> a <> b.
Proof. intros a b H E; subst; exact (hrs_lt_irrefl _ H). Qed.

Lemma hrs_le_antisym : forall a b, hrs_le a b -> hrs_le b a -> a = b.
Proof.
  intros a b [H | H] [K | K]; auto.
  exfalso; exact (hrs_lt_irrefl _ (hrs_lt_trans _ _ _ H K)).
Qed.

(* ------------------------------------------------------------------ messages *)

Ltac zb := repeat match goal with
  | H : (_ >? _) = true |- _ => rewrite Z.gtb_ltb in H; apply Z.ltb_lt in H
  | H : (_ >? _) = false |- _ => rewrite Z.gtb_ltb in H; apply Z.ltb_ge in H
  | H : (_ =? _) = true |- _ => apply Z.eqb_eq in H
  | H : (_ =? _) = false |- _ => apply Z.eqb_neq in H
  end.

Lemma kind_eqb_eq : forall a b, kind_eqb a b = true -> a = b.
Proof. intros [] []; simpl; intro; congruence. Qed.

Lemma kind_eqb_refl : forall a, kind_eqb a a = true.
Proof. intros []; reflexivity. Qed.

Lemma same_mod_ts_spec : forall a b, same_mod_ts a b = true ->
  m_kind a = m_kind b /\ m_type a = m_type b /\ m_h a = m_h b /\ m_r a = m_r b /\
  m_polr a = m_polr b /\ m_bid a = m_bid b /\ m_chain a = m_chain b.
Proof.
  unfold same_mod_ts; intros a b H.
  repeat (apply andb_true_iff in H as [H ?]). apply kind_eqb_eq in H. zb. tauto.
Qed.

Lemma same_mod_ts_intro : forall a b,
  m_kind a = m_kind b -> m_type a = m_type b -> m_h a = m_h b -> m_r a = m_r b ->
  m_polr a = m_polr b -> m_bid a = m_bid b -> m_chain a = m_chain b -> same_mod_ts a b = true.
Proof.
  unfold same_mod_ts; intros a b -> -> -> -> -> -> ->.
  rewrite kind_eqb_refl, !Z.eqb_refl; reflexivity.
Qed.

Lemma same_mod_ts_refl : forall a, same_mod_ts a a = true.
Proof. intro a; apply same_mod_ts_intro; reflexivity. Qed.

Lemma same_mod_ts_sym : forall a b, same_mod_ts a b = same_mod_ts b a.
Proof.
  intros a b. destruct (same_mod_ts a b) eqn:E; destruct (same_mod_ts b a) eqn:F; try reflexivity.
  - apply same_mod_ts_spec in E. rewrite same_mod_ts_intro in F by (symmetry; tauto). discriminate.
  - apply same_mod_ts_spec in F. rewrite same_mod_ts_intro in E by (symmetry; tauto). discriminate.
Qed.

Lemma msg_ext : forall a b,
  m_kind a = m_kind b -> m_type a = m_type b -> m_h a = m_h b -> m_r a = m_r b ->
  m_polr a = m_polr b -> m_bid a = m_bid b -> m_ts a = m_ts b -> m_chain a = m_chain b -> a = b.
Proof. intros [] []; simpl; intros; subst; reflexivity. Qed.

Lemma msg_eqb_eq : forall a b, msg_eqb a b = true -> a = b.
Proof.
  unfold msg_eqb; intros a b H. apply andb_true_iff in H as [H T]. zb.
  apply same_mod_ts_spec in H. apply msg_ext; tauto.
Qed.

Lemma msg_eqb_refl : forall a, msg_eqb a a = true.
Proof. intro a; unfold msg_eqb; rewrite same_mod_ts_refl, Z.eqb_refl; reflexivity. Qed.

(* vote.Timestamp = timestamp of the last sign-bytes: the message handed back IS the old one *)
Lemma same_mod_ts_set_ts : forall lm m, same_mod_ts lm m = true -> set_ts m (m_ts lm) = lm.
Proof.
  intros lm m H. apply same_mod_ts_spec in H. apply msg_ext; simpl; symmetry; tauto.
Qed.

Lemma same_mod_ts_step : forall a b, same_mod_ts a b = true -> msg_step a = msg_step b.
Proof.
  intros a b H. apply same_mod_ts_spec in H. unfold msg_step.
  destruct H as (-> & -> & _). reflexivity.
Qed.

Lemma same_mod_ts_hrs : forall a b, same_mod_ts a b = true -> msg_hrs a = msg_hrs b.
Proof.
  intros a b H. unfold msg_hrs. rewrite (same_mod_ts_step _ _ H).
  apply same_mod_ts_spec in H. destruct H as (_ & _ & -> & -> & _). reflexivity.
Qed.

Lemma msg_hrs_step : forall m st, msg_step m = Some st -> msg_hrs m = (m_h m, m_r m, st).
Proof. intros m st H; unfold msg_hrs; rewrite H; reflexivity. Qed.

(* ------------------------------------------------------------------ the signer *)

Section Proofs.
Variable sigT : Type.
Variable sign : msg -> sigT.

Notation lss := (lss sigT).
Notation state := (state sigT).
Notation event := (event sigT).
Notation sign_req := (sign_req sigT sign).
Notation step := (step sigT sign).
Notation run := (run sigT sign).
Notation check_hrs := (check_hrs sigT).

(* what LoadFilePV can find in a state file written by this code: either nothing was signed yet,
   or the file holds the (h, r, step), the sign-bytes and the signature of one signed message *)
Definition wf (l : lss) : Prop :=
  match l_sb l with
  | Some m => l_sig l = Some (sign m) /\ m_h m = l_h l /\ m_r m = l_r l /\ msg_step m = Some (l_step l)
  | None => l_sig l = None
  end.

(* between two operations *)
Definition Wf (s : state) : Prop := mem s = disk s /\ wf (disk s).

Lemma init_Wf : Wf (init_state sigT).
Proof. split; [reflexivity | exact eq_refl]. Qed.

Lemma wf_hrs : forall l m, wf l -> l_sb l = Some m -> msg_hrs m = lss_hrs l.
Proof.
  unfold wf; intros l m W E; rewrite E in W. destruct W as (_ & Hh & Hr & Hs).
  rewrite (msg_hrs_step _ _ Hs), Hh, Hr. reflexivity.
Qed.

Lemma check_hrs_new : forall l h r s, check_hrs l h r s = HNew -> hrs_lt (lss_hrs l) (h, r, s).
Proof.
  intros l h r s. unfold Model.check_hrs, lss_hrs, hrs_lt.
  destruct (l_h l >? h) eqn:E1; [discriminate|].
  destruct (l_h l =? h) eqn:E2.
  - destruct (l_r l >? r) eqn:E3; [discriminate|].
    destruct (l_r l =? r) eqn:E4.
    + destruct (l_step l >? s) eqn:E5; [discriminate|].
      destruct (l_step l =? s) eqn:E6.
      * destruct (l_sb l); [destruct (l_sig l)|]; discriminate.
      * intros _. zb. lia.
    + intros _. zb. lia.
  - intros _. zb. lia.
Qed.

Lemma check_hrs_same : forall l h r s, check_hrs l h r s = HSame ->
  lss_hrs l = (h, r, s) /\ exists lm sg, l_sb l = Some lm /\ l_sig l = Some sg.
Proof.
  intros l h r s. unfold Model.check_hrs, lss_hrs.
  destruct (l_h l >? h) eqn:E1; [discriminate|].
  destruct (l_h l =? h) eqn:E2; [|discriminate].
  destruct (l_r l >? r) eqn:E3; [discriminate|].
  destruct (l_r l =? r) eqn:E4; [|discriminate].
  destruct (l_step l >? s) eqn:E5; [discriminate|].
  destruct (l_step l =? s) eqn:E6; [|discriminate].
  destruct (l_sb l) as [lm|]; [|discriminate].
  destruct (l_sig l) as [sg|]; [|discriminate].
  intros _. zb. split; [congruence | eauto].
Qed.

Lemma check_hrs_same_intro : forall l h r s lm sg,
  lss_hrs l = (h, r, s) -> l_sb l = Some lm -> l_sig l = Some sg -> check_hrs l h r s = HSame.
Proof.
  intros l h r s lm sg E Hsb Hsig. unfold lss_hrs in E. injection E as Eh Er Es.
  unfold Model.check_hrs. rewrite Eh, Er, Es, Hsb, Hsig.
  rewrite !Z.gtb_ltb, !Z.ltb_irrefl, !Z.eqb_refl. reflexivity.
Qed.

(* a fresh signature: strictly above what the file holds; the new file content is well formed *)
Lemma sign_req_fresh : forall l m l' sg, sign_req l m = OFresh sigT l' sg ->
  sg = sign m /\ wf l' /\ l_sb l' = Some m /\ l_sig l' = Some sg /\
  lss_hrs l' = msg_hrs m /\ msg_step m <> None /\ hrs_lt (lss_hrs l) (lss_hrs l').
Proof.
  intros l m l' sg. unfold Model.sign_req.
  destruct (msg_step m) as [st|] eqn:Est; [|discriminate].
  destruct (check_hrs l (m_h m) (m_r m) st) eqn:Ec; try discriminate.
  - destruct (l_sb l); [|discriminate]. destruct (l_sig l); [|discriminate].
    destruct (msg_eqb m m0); [discriminate|]. destruct (same_mod_ts m0 m); discriminate.
  - intro H. injection H as <- <-. apply check_hrs_new in Ec.
    rewrite (msg_hrs_step _ _ Est).
    repeat split; try reflexivity; try assumption; try discriminate.
Qed.

(* a reused signature: what is handed back is exactly the stored message (old timestamp
   included) and the stored signature; the request differed from it at most in the timestamp *)
Lemma sign_req_reuse : forall l m m' sg, wf l -> sign_req l m = OReuse sigT m' sg ->
  l_sb l = Some m' /\ l_sig l = Some sg /\ sg = sign m' /\ msg_hrs m' = lss_hrs l /\
  same_mod_ts m' m = true /\ msg_step m' <> None.
Proof.
  intros l m m' sg W. unfold Model.sign_req.
  destruct (msg_step m) as [st|] eqn:Est; [|discriminate].
  destruct (check_hrs l (m_h m) (m_r m) st) eqn:Ec; try discriminate.
  destruct (l_sb l) as [lm|] eqn:Esb; [|discriminate].
  destruct (l_sig l) as [s0|] eqn:Esig; [|discriminate].
  assert (Hs : s0 = sign lm /\ msg_step lm <> None).
  { unfold wf in W. rewrite Esb, Esig in W. destruct W as (W1 & _ & _ & W4).
    split; [congruence | rewrite W4; discriminate]. }
  assert (Hh : msg_hrs lm = lss_hrs l) by (apply wf_hrs; assumption).
  destruct (msg_eqb m lm) eqn:E1.
  - intro H. injection H as <- <-. apply msg_eqb_eq in E1. subst lm.
    rewrite same_mod_ts_refl. tauto.
  - destruct (same_mod_ts lm m) eqn:E2; [|discriminate].
    intro H. injection H as <- <-. rewrite (same_mod_ts_set_ts _ _ E2). tauto.
Qed.

(* ------------------------------------------------------------------ invariant over histories *)

Definition ev_hrs (e : event) : hrs := msg_hrs (e_msg e).

(* a released signature [e] as seen from a later content [d] of the state file *)
Definition ev_ok (d : lss) (e : event) : Prop :=
  e_sig e = sign (e_msg e) /\ msg_step (e_msg e) <> None /\
  hrs_le (ev_hrs e) (lss_hrs d) /\
  (ev_hrs e = lss_hrs d -> l_sb d = Some (e_msg e) /\ l_sig d = Some (e_sig e)) /\
  (* at the moment of the release *)
  l_sb (e_disk e) = Some (e_msg e) /\ l_sig (e_disk e) = Some (e_sig e) /\
  lss_hrs (e_disk e) = ev_hrs e.

Definition agree (e1 e2 : event) : Prop :=
  ev_hrs e1 = ev_hrs e2 -> e_msg e1 = e_msg e2 /\ e_sig e1 = e_sig e2.

Definition ev_le (a b : event) : Prop := hrs_le (ev_hrs a) (ev_hrs b).

Definition Inv (s : state) (tr : list event) : Prop :=
  Wf s /\ Forall (ev_ok (disk s)) tr /\
  (forall e1 e2, In e1 tr -> In e2 tr -> agree e1 e2) /\
  StronglySorted ev_le tr.

Lemma ev_ok_later : forall d d' e, ev_ok d e -> hrs_lt (lss_hrs d) (lss_hrs d') -> ev_ok d' e.
Proof.
  intros d d' e (H1 & H2 & H3 & H4 & H5) L.
  assert (hrs_lt (ev_hrs e) (lss_hrs d')) by (eapply hrs_le_lt_trans; eassumption).
  split; [exact H1|]. split; [exact H2|]. split; [left; assumption|].
  split; [|exact H5]. intro E; exfalso; eapply hrs_lt_neq; eassumption.
Qed.

Lemma StronglySorted_snoc : forall (A : Type) (R : A -> A -> Prop) (l : list A) (x : A),
  StronglySorted R l -> Forall (fun y => R y x) l -> StronglySorted R (l ++ [x]).
Proof.
  induction l as [|a l IH]; intros x S F; simpl.
  - constructor; constructor.
  - inversion S; subst. inversion F; subst. constructor.
    + apply IH; assumption.
    + apply Forall_app; split; [assumption | constructor; [assumption | constructor]].
Qed.

Lemma Inv_nil : forall s, Wf s -> Inv s [].
Proof.
  intros s W. split; [exact W|]. split; [constructor|]. split; [|constructor].
  intros a b [].
Qed.

(* moving to a strictly higher state file without releasing anything *)
Lemma Inv_advance : forall s tr l', Inv s tr -> wf l' -> hrs_lt (lss_hrs (disk s)) (lss_hrs l') ->
  Inv {| disk := l'; mem := l' |} tr.
Proof.
  intros s tr l' (W & F & A & S) W' L.
  split; [split; [reflexivity | exact W']|]. split; [|split; assumption]. simpl.
  eapply Forall_impl; [|exact F]. intros e He. eapply ev_ok_later; eassumption.
Qed.

Lemma Inv_restart : forall s tr, Inv s tr -> Inv (restart sigT (disk s)) tr.
Proof.
  intros s tr ((M & W) & F & A & S).
  split; [split; [reflexivity | exact W]|]. split; [exact F|]. split; assumption.
Qed.

(* releasing [e] whose (h, r, step) is that of the current state file, which holds it *)
Lemma Inv_release : forall s tr e, Inv s tr -> ev_ok (disk s) e -> ev_hrs e = lss_hrs (disk s) ->
  Inv s (tr ++ [e]).
Proof.
  intros s tr e (W & F & A & S) Ok Eh. split; [exact W|]. split; [|split].
  - apply Forall_app; split; [assumption | constructor; [assumption | constructor]].
  - assert (Hnew : forall e1, In e1 tr -> agree e1 e /\ agree e e1).
    { intros e1 I1. rewrite Forall_forall in F. specialize (F _ I1).
      destruct F as (S1 & _ & _ & K1 & _). destruct Ok as (S2 & _ & _ & K2 & _).
      destruct (K2 Eh) as (C1 & C2). unfold agree. split; intro E.
      - rewrite Eh in E. destruct (K1 E) as (B1 & B2). split; congruence.
      - rewrite Eh in E. symmetry in E. destruct (K1 E) as (B1 & B2). split; congruence. }
    intros e1 e2 I1 I2. apply in_app_or in I1. apply in_app_or in I2.
    destruct I1 as [I1 | [<- | []]], I2 as [I2 | [<- | []]].
    + apply A; assumption.
    + apply Hnew; assumption.
    + apply Hnew; assumption.
    + intros _; split; reflexivity.
  - apply StronglySorted_snoc; [assumption|].
    eapply Forall_impl; [|exact F]. intros e1 (_ & _ & L & _). unfold ev_le. rewrite Eh. exact L.
Qed.

(* one operation *)
Lemma step_inv : forall s tr o s' evs, Inv s tr -> step s o = (s', evs) ->
  Inv s' (tr ++ evs) /\ hrs_le (lss_hrs (disk s)) (lss_hrs (disk s')) /\
  Forall (fun e => e_disk e = disk s' /\ hrs_le (lss_hrs (disk s)) (ev_hrs e)) evs.
Proof.
  intros s tr o s' evs I St.
  assert (I0 := I). destruct I0 as ((M & W) & F & A & S).
  destruct o as [m | cp m |]; simpl in St.
  - (* OpSign *)
    rewrite M in St. destruct (sign_req (disk s) m) as [ | | m' sg | l' sg] eqn:Eq.
    + injection St as <- <-. rewrite app_nil_r.
      split; [exact I | split; [apply hrs_le_refl | constructor]].
    + injection St as <- <-. rewrite app_nil_r. split; [apply Inv_restart; assumption|].
      split; [apply hrs_le_refl | constructor].
    + injection St as <- <-.
      destruct (sign_req_reuse _ _ _ _ W Eq) as (R1 & R2 & R3 & R4 & R5 & R6).
      split; [|split; [apply hrs_le_refl|]].
      * apply Inv_release; [assumption | | exact R4].
        unfold ev_ok, ev_hrs; simpl. rewrite R4.
        split; [exact R3|]. split; [exact R6|]. split; [apply hrs_le_refl|].
        split; [intros _; split; assumption|]. split; [exact R1|]. split; [exact R2 | reflexivity].
      * constructor; [|constructor]. simpl. split; [reflexivity|].
        unfold ev_hrs; simpl. rewrite R4. apply hrs_le_refl.
    + injection St as <- <-.
      destruct (sign_req_fresh _ _ _ _ Eq) as (R1 & R2 & R3 & R4 & R5 & R6 & R7).
      split; [|split; [left; exact R7|]].
      * apply Inv_release; simpl.
        -- apply Inv_advance with (s := s); assumption.
        -- unfold ev_ok, ev_hrs; simpl. rewrite R5.
           split; [exact R1|]. split; [exact R6|]. split; [apply hrs_le_refl|].
           split; [intros _; split; assumption|]. split; [exact R3|]. split; [exact R4 | reflexivity].
        -- unfold ev_hrs; simpl. symmetry; exact R5.
      * constructor; [|constructor]. simpl. split; [reflexivity|].
        unfold ev_hrs; simpl. rewrite <- R5. left; exact R7.
  - (* OpCrashSign *)
    rewrite M in St. injection St as <- <-. rewrite app_nil_r.
    destruct (sign_req (disk s) m) as [ | | m' sg | l' sg] eqn:Eq;
      try (split; [apply Inv_restart; assumption | split; [apply hrs_le_refl | constructor]]).
    destruct (sign_req_fresh _ _ _ _ Eq) as (R1 & R2 & R3 & R4 & R5 & R6 & R7).
    destruct cp;
      try (split; [apply Inv_restart; assumption | split; [apply hrs_le_refl | constructor]]).
    split; [|split; [left; exact R7 | constructor]].
    unfold restart. apply Inv_advance with (s := s); assumption.
  - (* OpRestart *)
    injection St as <- <-. rewrite app_nil_r.
    split; [apply Inv_restart; assumption | split; [apply hrs_le_refl | constructor]].
Qed.

Lemma run_cons : forall s o r, run s (o :: r) =
  let '(s1, ev) := step s o in let '(s2, evs) := run s1 r in (s2, ev ++ evs).
Proof. reflexivity. Qed.

Lemma run_app : forall a b s, run s (a ++ b) =
  let '(s1, e1) := run s a in let '(s2, e2) := run s1 b in (s2, e1 ++ e2).
Proof.
  induction a as [|o a IH]; intros b s.
  - simpl. destruct (run s b); reflexivity.
  - rewrite <- app_comm_cons, !run_cons. destruct (step s o) as [s1 ev].
    rewrite IH. destruct (run s1 a) as [s2 e2]. destruct (run s2 b) as [s3 e3].
    rewrite app_assoc. reflexivity.
Qed.

(* any operation list *)
Lemma run_inv : forall ops s tr s' evs, Inv s tr -> run s ops = (s', evs) ->
  Inv s' (tr ++ evs) /\ hrs_le (lss_hrs (disk s)) (lss_hrs (disk s')).
Proof.
  induction ops as [|o ops IH]; intros s tr s' evs I R.
  - simpl in R. injection R as <- <-. rewrite app_nil_r. split; [assumption | apply hrs_le_refl].
  - rewrite run_cons in R. destruct (step s o) as [s1 ev] eqn:St.
    destruct (run s1 ops) as [s2 evs2] eqn:Rn. injection R as <- <-.
    destruct (step_inv _ _ _ _ _ I St) as (I1 & L1 & _).
    destruct (IH _ _ _ _ I1 Rn) as (I2 & L2).
    rewrite app_assoc. split; [assumption | eapply hrs_le_trans; eassumption].
Qed.

Lemma run_Wf : forall ops s, Wf s -> Wf (fst (run s ops)).
Proof.
  intros ops s W. destruct (run s ops) as [s' evs] eqn:R.
  destruct (run_inv _ _ _ _ _ (Inv_nil _ W) R) as ((W' & _) & _). exact W'.
Qed.

(* ------------------------------------------------------------------ the statements of Props.v *)

Lemma no_conflict : forall s0 ops e1 e2, Wf s0 ->
  In e1 (snd (run s0 ops)) -> In e2 (snd (run s0 ops)) ->
  msg_hrs (e_msg e1) = msg_hrs (e_msg e2) ->
  same_mod_ts (e_msg e1) (e_msg e2) = true /\ e_sig e1 = e_sig e2 /\ e_msg e1 = e_msg e2.
Proof.
  intros s0 ops e1 e2 W I1 I2 E. destruct (run s0 ops) as [s' evs] eqn:R. simpl in *.
  destruct (run_inv _ _ _ _ _ (Inv_nil _ W) R) as ((_ & _ & A & _) & _). simpl in A.
  destruct (A _ _ I1 I2 E) as (B1 & B2). rewrite B1, same_mod_ts_refl. auto.
Qed.

Lemma signature_is_of_message : forall s0 ops e, Wf s0 -> In e (snd (run s0 ops)) ->
  e_sig e = sign (e_msg e) /\ msg_step (e_msg e) <> None.
Proof.
  intros s0 ops e W I. destruct (run s0 ops) as [s' evs] eqn:R. simpl in *.
  destruct (run_inv _ _ _ _ _ (Inv_nil _ W) R) as ((_ & F & _) & _). simpl in F.
  rewrite Forall_forall in F. destruct (F _ I) as (H1 & H2 & _). auto.
Qed.

(* at the moment a signature is handed out, the state file holds it *)
Lemma persist_before_release : forall s0 ops o s' evs e, Wf s0 ->
  step (fst (run s0 ops)) o = (s', evs) -> In e evs ->
  lss_hrs (disk s') = msg_hrs (e_msg e) /\ l_sb (disk s') = Some (e_msg e) /\
  l_sig (disk s') = Some (e_sig e) /\ e_disk e = disk s'.
Proof.
  intros s0 ops o s' evs e W St I.
  destruct (run s0 ops) as [s1 ev1] eqn:R. simpl in St.
  destruct (run_inv _ _ _ _ _ (Inv_nil _ W) R) as (I1 & _). simpl in I1.
  destruct (step_inv _ _ _ _ _ I1 St) as ((_ & F & _) & _ & D).
  rewrite Forall_forall in F, D. destruct (D _ I) as (D1 & _).
  assert (I' : In e (ev1 ++ evs)) by (apply in_or_app; right; assumption).
  destruct (F _ I') as (_ & _ & _ & _ & K1 & K2 & K3).
  rewrite <- D1. unfold ev_hrs in K3. auto.
Qed.

(* ... and no later history — requests, crashes, restarts — makes the file forget it: the file
   stays at or above that (h, r, step), and while it is at it, it holds that message and signature *)
Lemma release_survives : forall s0 ops1 ops2 e, Wf s0 -> In e (snd (run s0 ops1)) ->
  let d := disk (fst (run s0 (ops1 ++ ops2))) in
  hrs_le (msg_hrs (e_msg e)) (lss_hrs d) /\
  (msg_hrs (e_msg e) = lss_hrs d -> l_sb d = Some (e_msg e) /\ l_sig d = Some (e_sig e)).
Proof.
  intros s0 ops1 ops2 e W I. rewrite run_app.
  destruct (run s0 ops1) as [s1 ev1] eqn:R1. destruct (run s1 ops2) as [s2 ev2] eqn:R2. simpl in *.
  destruct (run_inv _ _ _ _ _ (Inv_nil _ W) R1) as (I1 & _). simpl in I1.
  destruct (run_inv _ _ _ _ _ I1 R2) as ((_ & F & _) & _).
  rewrite Forall_forall in F.
  assert (I' : In e (ev1 ++ ev2)) by (apply in_or_app; left; assumption).
  destruct (F _ I') as (_ & _ & K1 & K2 & _). split; assumption.
Qed.

Lemma hrs_monotone : forall s0 ops, Wf s0 ->
  hrs_le (lss_hrs (disk s0)) (lss_hrs (disk (fst (run s0 ops)))) /\
  StronglySorted (fun a b => hrs_le (msg_hrs (e_msg a)) (msg_hrs (e_msg b))) (snd (run s0 ops)).
Proof.
  intros s0 ops W. destruct (run s0 ops) as [s' evs] eqn:R. simpl.
  destruct (run_inv _ _ _ _ _ (Inv_nil _ W) R) as ((_ & _ & _ & S) & L). split; assumption.
Qed.

(* nothing is released for an (h, r, step) below the one in the file *)
Lemma no_release_below : forall s0 ops o s' evs e, Wf s0 ->
  step (fst (run s0 ops)) o = (s', evs) -> In e evs ->
  hrs_le (lss_hrs (disk (fst (run s0 ops)))) (msg_hrs (e_msg e)).
Proof.
  intros s0 ops o s' evs e W St I.
  destruct (run s0 ops) as [s1 ev1] eqn:R. simpl in *.
  destruct (run_inv _ _ _ _ _ (Inv_nil _ W) R) as (I1 & _). simpl in I1.
  destruct (step_inv _ _ _ _ _ I1 St) as (_ & _ & D).
  rewrite Forall_forall in D. destruct (D _ I) as (_ & D2). exact D2.
Qed.

(* a request that differs from the stored sign-bytes at most in the timestamp gets the stored
   message back (old timestamp) with the stored signature, and changes nothing *)
Lemma reuse_returns_old : forall s0 ops lm m, Wf s0 ->
  let s := fst (run s0 ops) in
  l_sb (disk s) = Some lm -> same_mod_ts lm m = true ->
  step s (OpSign m) = (s, [{| e_msg := lm; e_sig := sign lm; e_disk := disk s |}]).
Proof.
  intros s0 ops lm m W s Hsb Hs.
  assert (Ws : Wf s) by (apply run_Wf; assumption). destruct Ws as (M & Wd).
  assert (Hh := wf_hrs _ _ Wd Hsb).
  assert (Wd' := Wd). unfold wf in Wd'. rewrite Hsb in Wd'. destruct Wd' as (Hsig & _ & _ & Hst).
  simpl. rewrite M. unfold Model.sign_req.
  rewrite <- (same_mod_ts_step _ _ Hs), Hst.
  assert (Hm : msg_hrs m = lss_hrs (disk s)) by (rewrite <- (same_mod_ts_hrs _ _ Hs); exact Hh).
  rewrite (msg_hrs_step m (l_step (disk s))) in Hm by (rewrite <- (same_mod_ts_step _ _ Hs); exact Hst).
  rewrite (check_hrs_same_intro _ _ _ _ lm (sign lm) (eq_sym Hm) Hsb Hsig), Hsb, Hsig.
  destruct (msg_eqb m lm) eqn:E.
  - apply msg_eqb_eq in E. subst m. reflexivity.
  - rewrite Hs, (same_mod_ts_set_ts _ _ Hs). reflexivity.
Qed.

(* a request for the (h, r, step) of the stored sign-bytes that differs in anything but the
   timestamp is refused: nothing released, nothing changed *)
Lemma conflict_refused : forall s0 ops lm m, Wf s0 ->
  let s := fst (run s0 ops) in
  l_sb (disk s) = Some lm -> msg_step m <> None -> msg_hrs m = msg_hrs lm ->
  same_mod_ts lm m = false ->
  step s (OpSign m) = (s, []).
Proof.
  intros s0 ops lm m W s Hsb Hst Hh Hs.
  assert (Ws : Wf s) by (apply run_Wf; assumption). destruct Ws as (M & Wd).
  assert (Hl := wf_hrs _ _ Wd Hsb).
  assert (Wd' := Wd). unfold wf in Wd'. rewrite Hsb in Wd'. destruct Wd' as (Hsig & _).
  simpl. rewrite M. unfold Model.sign_req.
  destruct (msg_step m) as [st|] eqn:Est; [|congruence].
  rewrite (msg_hrs_step _ _ Est), Hl in Hh.
  rewrite (check_hrs_same_intro _ _ _ _ lm (sign lm) (eq_sym Hh) Hsb Hsig), Hsb, Hsig.
  destruct (msg_eqb m lm) eqn:E.
  - apply msg_eqb_eq in E. subst m. rewrite same_mod_ts_refl in Hs. discriminate.
  - rewrite Hs. reflexivity.
Qed.

(* two incarnations: whatever was requested before the process stopped (at any point), and
   whatever the restarted node — WAL replay included — asks the signer afterwards *)
Lemma replay_singleton : forall s0 ops1 ops2 e1 e2, Wf s0 ->
  let s1 := fst (run s0 ops1) in
  In e1 (snd (run s0 ops1)) ->
  In e2 (snd (run (restart sigT (disk s1)) ops2)) ->
  msg_hrs (e_msg e1) = msg_hrs (e_msg e2) ->
  e_msg e2 = e_msg e1 /\ e_sig e2 = e_sig e1.
Proof.
  intros s0 ops1 ops2 e1 e2 W s1 I1 I2 E.
  assert (R : run s0 (ops1 ++ OpRestart :: ops2) =
              (fst (run (restart sigT (disk s1)) ops2),
               snd (run s0 ops1) ++ snd (run (restart sigT (disk s1)) ops2))).
  { rewrite run_app. subst s1. destruct (run s0 ops1) as [sa ea]. rewrite run_cons. simpl.
    destruct (run (restart sigT (disk sa)) ops2) as [sb eb]. reflexivity. }
  assert (J1 : In e1 (snd (run s0 (ops1 ++ OpRestart :: ops2))))
    by (rewrite R; simpl; apply in_or_app; left; assumption).
  assert (J2 : In e2 (snd (run s0 (ops1 ++ OpRestart :: ops2))))
    by (rewrite R; simpl; apply in_or_app; right; assumption).
  destruct (no_conflict _ _ _ _ W J1 J2 E) as (_ & B1 & B2). split; congruence.
Qed.

End Proofs.
