(* C04 — No crash or restart can make a validator sign conflicting messages.
   This file contains only the property statements; each is closed by [exact] of a lemma of
   Proofs.v and followed by Print Assumptions.

   Setting (Model.v): the file signer of privval/file.go.  [ops] ranges over ALL lists of
     OpSign m            a sign request that runs to completion (any message, any order: the
                         consensus side — in particular after WAL replay — is not trusted),
     OpCrashSign cp m    a sign request during which the process dies at crash point
                         cp ∈ {before the temp file is written, after the temp file is written and
                         before the rename, after the rename and before signVote returns},
     OpRestart           the process stops between two requests; LoadFilePV re-reads the file,
   with unboundedly many crashes.  [run s0 ops] returns the final state and the list of released
   signatures (events: message handed back, signature, state file at that moment) of all
   incarnations.  [sign] is an arbitrary function (signature scheme abstract), [s0] any state in
   which memory and file agree and the file is one this code can have written ([Wf]; the freshly
   generated signer [init_state] is one).  [msg_hrs m] is the (height, round, step) of a message.
   The crash points of the property that lie in the write-ahead log (between signing and the WAL
   write, inside a WAL append, during replay) only influence WHICH requests reach the signer
   after the restart; they are covered by quantifying over all request lists. *)
From Coq Require Import List ZArith Bool Sorting.Sorted.
From TM Require Import Generated.Consts C04.Model C04.Proofs.
Import ListNotations.
Open Scope Z_scope.

(* Two signatures released for one (height, round, step) — in whatever incarnations, with
   whatever crashes in between — are over the same block (all fields of the sign-bytes but the
   timestamp agree), are the same signature, and in fact carry the same timestamp: the earlier
   message is handed back. *)
Theorem C04_no_conflict :
  forall (sigT : Type) (sign : msg -> sigT) (s0 : state sigT) (ops : list op) (e1 e2 : event sigT),
    Wf sigT sign s0 ->
    In e1 (snd (run sigT sign s0 ops)) -> In e2 (snd (run sigT sign s0 ops)) ->
    msg_hrs (e_msg e1) = msg_hrs (e_msg e2) ->
    same_mod_ts (e_msg e1) (e_msg e2) = true /\ e_sig e1 = e_sig e2 /\ e_msg e1 = e_msg e2.
Proof. exact no_conflict. Qed.
Print Assumptions C04_no_conflict.

(* Every released signature is the signature of the message it is released with, and that
   message is a proposal, prevote or precommit. *)
Theorem C04_signature_is_of_message :
  forall (sigT : Type) (sign : msg -> sigT) (s0 : state sigT) (ops : list op) (e : event sigT),
    Wf sigT sign s0 -> In e (snd (run sigT sign s0 ops)) ->
    e_sig e = sign (e_msg e) /\ msg_step (e_msg e) <> None.
Proof. exact signature_is_of_message. Qed.
Print Assumptions C04_signature_is_of_message.

(* Persist before release: after any history, when an operation hands out a signature the state
   file already holds exactly that (height, round, step), sign-bytes and signature. *)
Theorem C04_persist_before_release :
  forall (sigT : Type) (sign : msg -> sigT) (s0 : state sigT) (ops : list op) (o : op)
         (s' : state sigT) (evs : list (event sigT)) (e : event sigT),
    Wf sigT sign s0 ->
    step sigT sign (fst (run sigT sign s0 ops)) o = (s', evs) -> In e evs ->
    lss_hrs (disk s') = msg_hrs (e_msg e) /\ l_sb (disk s') = Some (e_msg e) /\
    l_sig (disk s') = Some (e_sig e) /\ e_disk e = disk s'.
Proof. exact persist_before_release. Qed.
Print Assumptions C04_persist_before_release.

(* ... and no continuation [ops2] (requests, crashes at any point, restarts) makes the file
   forget it: the file stays at or above that (height, round, step), and as long as it is at it,
   it holds that very message and signature. *)
Theorem C04_release_survives_crashes :
  forall (sigT : Type) (sign : msg -> sigT) (s0 : state sigT) (ops1 ops2 : list op) (e : event sigT),
    Wf sigT sign s0 -> In e (snd (run sigT sign s0 ops1)) ->
    let d := disk (fst (run sigT sign s0 (ops1 ++ ops2))) in
    hrs_le (msg_hrs (e_msg e)) (lss_hrs d) /\
    (msg_hrs (e_msg e) = lss_hrs d -> l_sb d = Some (e_msg e) /\ l_sig d = Some (e_sig e)).
Proof. exact release_survives. Qed.
Print Assumptions C04_release_survives_crashes.

(* The (height, round, step) of the state file never decreases, and signatures are released in
   non-decreasing order of (height, round, step) across all incarnations. *)
Theorem C04_hrs_monotone :
  forall (sigT : Type) (sign : msg -> sigT) (s0 : state sigT) (ops : list op),
    Wf sigT sign s0 ->
    hrs_le (lss_hrs (disk s0)) (lss_hrs (disk (fst (run sigT sign s0 ops)))) /\
    StronglySorted (fun a b => hrs_le (msg_hrs (e_msg a)) (msg_hrs (e_msg b)))
                   (snd (run sigT sign s0 ops)).
Proof. exact hrs_monotone. Qed.
Print Assumptions C04_hrs_monotone.

(* No signature is released for a (height, round, step) below the persisted one. *)
Theorem C04_no_release_below_persisted :
  forall (sigT : Type) (sign : msg -> sigT) (s0 : state sigT) (ops : list op) (o : op)
         (s' : state sigT) (evs : list (event sigT)) (e : event sigT),
    Wf sigT sign s0 ->
    step sigT sign (fst (run sigT sign s0 ops)) o = (s', evs) -> In e evs ->
    hrs_le (lss_hrs (disk (fst (run sigT sign s0 ops)))) (msg_hrs (e_msg e)).
Proof. exact no_release_below. Qed.
Print Assumptions C04_no_release_below_persisted.

(* A request that differs from the persisted sign-bytes at most in the timestamp is answered
   with the persisted message — the OLD timestamp — and the persisted signature; nothing changes. *)
Theorem C04_reuse_returns_old_timestamp :
  forall (sigT : Type) (sign : msg -> sigT) (s0 : state sigT) (ops : list op) (lm m : msg),
    Wf sigT sign s0 ->
    let s := fst (run sigT sign s0 ops) in
    l_sb (disk s) = Some lm -> same_mod_ts lm m = true ->
    step sigT sign s (OpSign m) = (s, [{| e_msg := lm; e_sig := sign lm; e_disk := disk s |}]).
Proof. exact reuse_returns_old. Qed.
Print Assumptions C04_reuse_returns_old_timestamp.

(* A request for the persisted (height, round, step) that differs in anything but the timestamp
   (block id, nil vs block, POL round, chain id) is refused: nothing released, nothing changed. *)
Theorem C04_conflicting_request_refused :
  forall (sigT : Type) (sign : msg -> sigT) (s0 : state sigT) (ops : list op) (lm m : msg),
    Wf sigT sign s0 ->
    let s := fst (run sigT sign s0 ops) in
    l_sb (disk s) = Some lm -> msg_step m <> None -> msg_hrs m = msg_hrs lm ->
    same_mod_ts lm m = false ->
    step sigT sign s (OpSign m) = (s, []).
Proof. exact conflict_refused. Qed.
Print Assumptions C04_conflicting_request_refused.

(* The WAL-related consequence: whatever happened before the process stopped ([ops1], ending at
   any crash point) and whatever requests the restarted node feeds the signer ([ops2]: replay of
   whatever prefix of the WAL survived, then live consensus, further crashes), a signature
   released after the restart for a (height, round, step) already signed for before is the same
   message and the same signature: per (h, r, step) the released set is a singleton. *)
Theorem C04_replay_singleton :
  forall (sigT : Type) (sign : msg -> sigT) (s0 : state sigT) (ops1 ops2 : list op)
         (e1 e2 : event sigT),
    Wf sigT sign s0 ->
    let s1 := fst (run sigT sign s0 ops1) in
    In e1 (snd (run sigT sign s0 ops1)) ->
    In e2 (snd (run sigT sign (restart sigT (disk s1)) ops2)) ->
    msg_hrs (e_msg e1) = msg_hrs (e_msg e2) ->
    e_msg e2 = e_msg e1 /\ e_sig e2 = e_sig e1.
Proof. exact replay_singleton. Qed.
Print Assumptions C04_replay_singleton.

(* The freshly generated signer satisfies the hypothesis of all the theorems. *)
Theorem C04_init_wf :
  forall (sigT : Type) (sign : msg -> sigT), Wf sigT sign (init_state sigT).
Proof. exact init_Wf. Qed.
Print Assumptions C04_init_wf.

(* ---- non-vacuity: concrete histories, signature of m := m ---- *)

Definition ex_sign (m : msg) : msg := m.
Definition ex_vote (ty h r bid ts : Z) : msg :=
  {| m_kind := KVote; m_type := ty; m_h := h; m_r := r; m_polr := 0; m_bid := bid; m_ts := ts; m_chain := 1 |}.

(* prevote for block 1 at (5,0); crash after the rename while precommitting block 1; after the
   restart: replayed prevote with a new timestamp (dropped: the file is already at the
   precommit step), precommit for block 1 with a new timestamp (the never-released signature with
   its old timestamp is handed out), precommit for block 2 (refused), crash before the rename
   while prevoting at (5,1) for block 2, restart, prevote at (5,1) for block 3 (fresh: nothing was
   bound), same with a new timestamp (reuse). *)
Definition ex_ops : list op :=
  [ OpSign (ex_vote 1 5 0 1 100);
    OpCrashSign CAfterRename (ex_vote 2 5 0 1 110);
    OpSign (ex_vote 1 5 0 1 120);
    OpSign (ex_vote 2 5 0 1 130);
    OpSign (ex_vote 2 5 0 2 140);
    OpCrashSign CAfterTemp (ex_vote 1 5 1 2 150);
    OpRestart;
    OpSign (ex_vote 1 5 1 3 160);
    OpSign (ex_vote 1 5 1 3 170) ].

Example C04_no_conflict_nonvacuous :
  map (fun e => (e_msg e, e_sig e)) (snd (run msg ex_sign (init_state msg) ex_ops)) =
  [ (ex_vote 1 5 0 1 100, ex_vote 1 5 0 1 100);
    (ex_vote 2 5 0 1 110, ex_vote 2 5 0 1 110);       (* asked with ts 130, got 110 *)
    (ex_vote 1 5 1 3 160, ex_vote 1 5 1 3 160);
    (ex_vote 1 5 1 3 160, ex_vote 1 5 1 3 160) ]      (* asked with ts 170, got 160: same HRS twice *)
  /\ lss_hrs (disk (fst (run msg ex_sign (init_state msg) ex_ops))) = (5, 1, pv_step_prevote).
Proof. vm_compute. split; reflexivity. Qed.

(* hypotheses of reuse / refusal / replay theorems are satisfiable on this history *)
Example C04_reuse_nonvacuous :
  let s := fst (run msg ex_sign (init_state msg) ex_ops) in
  l_sb (disk s) = Some (ex_vote 1 5 1 3 160) /\
  same_mod_ts (ex_vote 1 5 1 3 160) (ex_vote 1 5 1 3 999) = true /\
  same_mod_ts (ex_vote 1 5 1 3 160) (ex_vote 1 5 1 0 160) = false /\
  msg_hrs (ex_vote 1 5 1 0 160) = msg_hrs (ex_vote 1 5 1 3 160) /\
  snd (step msg ex_sign s (OpSign (ex_vote 1 5 1 0 160))) = [] /\
  map e_msg (snd (step msg ex_sign s (OpSign (ex_vote 1 5 1 3 999)))) = [ex_vote 1 5 1 3 160].
Proof. vm_compute. repeat split; reflexivity. Qed.

Example C04_replay_nonvacuous :
  let s1 := fst (run msg ex_sign (init_state msg) (firstn 2 ex_ops)) in
  map e_msg (snd (run msg ex_sign (init_state msg) (firstn 1 ex_ops))) = [ex_vote 1 5 0 1 100] /\
  map e_msg (snd (run msg ex_sign (restart msg (disk s1)) [OpSign (ex_vote 2 5 0 1 130)]))
    = [ex_vote 2 5 0 1 110].
Proof. vm_compute. split; reflexivity. Qed.

(* a crash before the state file is replaced binds nothing: the restarted signer signs a
   different block for that (height, round, step).  This is safe only because nothing had been
   handed out at that point (C04_persist_before_release): the order "persist, then release" is
   what the property rests on. *)
Example C04_crash_before_rename_binds_nothing :
  snd (run msg ex_sign (init_state msg)
         [OpCrashSign CBeforeTemp (ex_vote 2 7 0 1 10); OpSign (ex_vote 2 7 0 2 20)])
  = [{| e_msg := ex_vote 2 7 0 2 20; e_sig := ex_vote 2 7 0 2 20;
        e_disk := {| l_h := 7; l_r := 0; l_step := pv_step_precommit;
                     l_sig := Some (ex_vote 2 7 0 2 20); l_sb := Some (ex_vote 2 7 0 2 20) |} |}].
Proof. vm_compute. reflexivity. Qed.
