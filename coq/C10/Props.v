(* C10 — Block parts and Merkle proofs bind content to position.
   This file contains only the property statements; each is closed by [exact] of a lemma of
   Proofs.v and followed by Print Assumptions.  [H] is an arbitrary hash function: collision
   resistance is not assumed — where it is needed the conclusion carries the disjunct
   [Collision H], built constructively from the inputs of the theorem. *)
From Coq Require Import List ZArith NArith Bool.
From TM Require Import Common.Hex Common.Sha256 Generated.Consts C10.Model C10.Proofs C10.Sender C10.Iter C10.Depth.
Import ListNotations.
Open Scope Z_scope.

(* A genuine proof verifies: every index of every item list. *)
Theorem C10_proof_complete :
  forall (H : bytes -> bytes) (items : list bytes) (i : nat),
    (i < length items)%nat ->
    verify H (root H items) (nth i items []) (proof_of H items i) = true.
Proof. exact proof_complete. Qed.
Print Assumptions C10_proof_complete.

(* Whatever byte string is passed as the root (of a tree or not, empty included), Verify accepts
   only when that string is the hash recomputed from the stated index and total, the hash of the
   given leaf and the aunts; a proof from which nothing can be recomputed verifies against
   nothing (F40: it used to verify against the empty root). *)
Theorem C10_verify_recomputes :
  forall (H : bytes -> bytes) (root_hash leaf : bytes) (p : proof),
    verify H root_hash leaf p = true ->
    pf_leaf_hash p = leaf_hash H leaf /\
    from_aunts H (pf_index p) (pf_total p) (leaf_hash H leaf) (rev (pf_aunts p)) = Some root_hash.
Proof. exact verify_recomputes. Qed.
Print Assumptions C10_verify_recomputes.

(* A proof that verifies against the root of [items], stating the right number of leaves,
   verifies only for the item that sits at the stated index: no other
   (item, index, leaf hash, aunts) combination — or a collision of H is exhibited. *)
Theorem C10_proof_binds :
  forall (H : bytes -> bytes) (hlen : nat), (forall x, length (H x) = hlen) ->
  forall (items : list bytes) (leaf : bytes) (p : proof),
    pf_total p = Z.of_nat (length items) ->
    verify H (root H items) leaf p = true ->
    (0 <= pf_index p < pf_total p /\ nth_error items (Z.to_nat (pf_index p)) = Some leaf)
    \/ Collision H.
Proof. exact proof_binds. Qed.
Print Assumptions C10_proof_binds.

(* Domain separation: the root determines the whole item list, including its length. *)
Theorem C10_root_injective :
  forall (H : bytes -> bytes) (hlen : nat), (forall x, length (H x) = hlen) ->
  forall items items' : list bytes,
    root H items = root H items' -> items = items' \/ Collision H.
Proof. exact root_injective. Qed.
Print Assumptions C10_root_injective.

(* A part set built from a header (count, root) of chunk list [cs] accepts a part at position
   i only if its bytes are the i-th chunk. *)
Theorem C10_addpart_binds :
  forall (H : bytes -> bytes) (hlen : nat), (forall x, length (H x) = hlen) ->
  forall (cs : list bytes) (ps : partset) (p : part) (ps' : partset),
    PSInv H cs ps -> add_part H ps p = (ps', Added) ->
    (0 <= p_index p < Z.of_nat (length cs) /\
     nth_error cs (Z.to_nat (p_index p)) = Some (p_bytes p) /\ PSInv H cs ps')
    \/ Collision H.
Proof. exact addpart_binds. Qed.
Print Assumptions C10_addpart_binds.

(* Any sequence of parts (any order, repetitions, forged or transplanted parts): once the set
   reports itself complete it reassembles to exactly the committed chunks. *)
Theorem C10_complete_reassembles :
  forall (H : bytes -> bytes) (hlen : nat), (forall x, length (H x) = hlen) ->
  forall (cs : list bytes) (l : list part),
    let ps := add_parts H (new_partset_from_header (Z.of_nat (length cs)) (root H cs)) l in
    is_complete ps = true -> reassemble ps = concat cs \/ Collision H.
Proof. exact complete_reassembles. Qed.
Print Assumptions C10_complete_reassembles.

(* Splitting into parts loses nothing. *)
Theorem C10_split_roundtrip :
  forall (data : bytes) (sz : nat), (0 < sz)%nat -> concat (split_data data sz) = data.
Proof. exact split_roundtrip. Qed.
Print Assumptions C10_split_roundtrip.

(* HashFromByteSlicesIterative (bottom-up pairing passes) computes the root of
   HashFromByteSlices (top-down split at the largest power of two below n): every item list. *)
Theorem C10_iterative_eq_recursive :
  forall (H : bytes -> bytes) (items : list bytes), root_iterative H items = root H items.
Proof. exact iterative_eq_recursive. Qed.
Print Assumptions C10_iterative_eq_recursive.

(* Proof.ValidateBasic never refuses a genuine proof: at most ceil(log2 n) aunts, all of digest
   length, so every tree of up to 2^MaxAunts leaves yields proofs within the limits
   (MaxAunts and the digest size are regenerated from the Go source). *)
Theorem C10_genuine_proof_validates :
  forall (H : bytes -> bytes) (hlen : nat), (forall x, length (H x) = hlen) ->
  forall (items : list bytes) (i : nat),
    Z.of_nat hlen = tmhash_size ->
    (i < length items)%nat -> Z.of_nat (length items) <= 2 ^ merkle_max_aunts ->
    proof_validate_basic (proof_of H items i) = true.
Proof. exact genuine_proof_validates. Qed.
Print Assumptions C10_genuine_proof_validates.

(* ---- the sender's side, and sender to receiver end to end (C10/Sender.v) ---- *)

(* NewPartSetFromData announces exactly as many parts as it cuts: the uint32 expression
   (len + sz - 1) / sz is ceil(len / sz) as long as the sum stays below 2^32. *)
Theorem C10_part_count_exact :
  forall (data : bytes) (sz : nat),
    (0 < sz)%nat -> Z.of_nat (length data) + Z.of_nat sz - 1 < 4294967296 ->
    part_count (Z.of_nat (length data)) (Z.of_nat sz) = Z.of_nat (length (split_data data sz)).
Proof. exact part_count_exact. Qed.
Print Assumptions C10_part_count_exact.

(* A receiver that does not yet hold position i accepts the sender's i-th part, and the result
   is the same set with that slot filled; nothing else changes. *)
Theorem C10_genuine_part_added :
  forall (H : bytes -> bytes) (cs : list bytes) (ps : partset) (i : nat),
    PSInv H cs ps -> (i < length cs)%nat -> nth i (ps_parts ps) None = None ->
    add_part H ps (genuine_part H cs i) = (with_part ps i (genuine_part H cs i), Added).
Proof. exact genuine_part_added. Qed.
Print Assumptions C10_genuine_part_added.

(* Any order, any repetitions: once each index was delivered at least once the set is complete
   and reassembles to the chunks (no collision disjunct: this is the completeness direction). *)
Theorem C10_all_delivered_completes :
  forall (H : bytes -> bytes) (cs : list bytes) (order : list nat),
    Forall (fun i => (i < length cs)%nat) order ->
    (forall j, (j < length cs)%nat -> In j order) ->
    let ps := add_parts H (new_partset_from_header (Z.of_nat (length cs)) (root H cs))
                        (map (genuine_part H cs) order) in
    is_complete ps = true /\ reassemble ps = concat cs.
Proof. exact all_delivered_completes. Qed.
Print Assumptions C10_all_delivered_completes.

(* End to end, soundness: a receiver that knows only the announced header and completes its set
   from ANY parts holds exactly the sender's bytes. *)
Theorem C10_end_to_end_sound :
  forall (H : bytes -> bytes) (hlen : nat), (forall x, length (H x) = hlen) ->
  forall (data : bytes) (sz : nat) (l : list part),
    (0 < sz)%nat -> Z.of_nat (length data) + Z.of_nat sz - 1 < 4294967296 ->
    let s := new_partset_from_data H data sz in
    let r := add_parts H (new_partset_from_header (ps_total s) (ps_hash s)) l in
    is_complete r = true -> reassemble r = data \/ Collision H.
Proof. exact end_to_end_sound. Qed.
Print Assumptions C10_end_to_end_sound.

(* End to end, completeness: the sender's own parts do complete it, in any order. *)
Theorem C10_end_to_end_complete :
  forall (H : bytes -> bytes) (data : bytes) (sz : nat) (order : list nat),
    (0 < sz)%nat -> Z.of_nat (length data) + Z.of_nat sz - 1 < 4294967296 ->
    let s := new_partset_from_data H data sz in
    let n := length (split_data data sz) in
    Forall (fun i => (i < n)%nat) order -> (forall j, (j < n)%nat -> In j order) ->
    let r := add_parts H (new_partset_from_header (ps_total s) (ps_hash s))
                       (map (genuine_part H (split_data data sz)) order) in
    is_complete r = true /\ reassemble r = data.
Proof. exact end_to_end_complete. Qed.
Print Assumptions C10_end_to_end_complete.

(* non-vacuity of the end-to-end pair on real SHA-256: 5 bytes in parts of 2, delivered 2,0,2,1 *)
Example C10_end_to_end_nonvacuous :
  let data := [1%N; 2%N; 3%N; 4%N; 5%N] in
  let s := new_partset_from_data sha256 data 2 in
  let r := add_parts sha256 (new_partset_from_header (ps_total s) (ps_hash s))
             (map (genuine_part sha256 (split_data data 2)) [2; 0; 2; 1]%nat) in
  ps_total s = 3 /\ is_complete r = true /\ reassemble r = data.
Proof. vm_compute. repeat split; reflexivity. Qed.

(* ---- non-vacuity and a documented limit, on concrete data with the real SHA-256 ---- *)

Definition ex_items : list bytes := [[1%N]; [2%N; 3%N]; []; [4%N]; [5%N]].

Example C10_binds_nonvacuous :
  verify sha256 (root sha256 ex_items) [2%N; 3%N] (proof_of sha256 ex_items 1) = true /\
  verify sha256 (root sha256 ex_items) [2%N; 3%N] (proof_of sha256 ex_items 2) = false /\
  PSInv sha256 ex_items (new_partset_from_header 5 (root sha256 ex_items)).
Proof. split; [vm_compute; reflexivity | split; [vm_compute; reflexivity | apply (header_inv sha256 ex_items)]]. Qed.

(* The root alone does not fix the number of leaves a *proof* may claim: the proof for index 0
   of a 3-leaf tree also verifies as "index 0 of 4".  This is why AddPart must compare the
   proof's total (and index) with its own — the two comparisons of the F3 repair. *)
Example C10_total_not_bound_by_root :
  let p := proof_of sha256 [[1%N]; [2%N]; [3%N]] 0 in
  verify sha256 (root sha256 [[1%N]; [2%N]; [3%N]]) [1%N]
    {| pf_total := 4; pf_index := 0; pf_leaf_hash := pf_leaf_hash p; pf_aunts := pf_aunts p |} = true.
Proof. vm_compute. reflexivity. Qed.
