(* C10 — a genuine proof is never refused by Proof.ValidateBasic for being too deep: the number
   of aunts is at most ceil(log2 n), every aunt and the leaf hash have the digest length, so
   any tree of up to 2^MaxAunts leaves yields proofs that pass.  Statements in Props.v. *)
From Coq Require Import List ZArith NArith Bool Lia Arith.
From TM Require Import Common.Hex Generated.Consts C10.Model C10.Proofs C10.Iter.
Import ListNotations.
Open Scope Z_scope.

Section Depth.
Variable H : bytes -> bytes.
Variable hlen : nat.
Hypothesis H_len : forall x, length (H x) = hlen.

Notation root_f := (root_f H).
Notation aunts_f := (aunts_f H).

Lemma log2_up_of_split n e : 0 <= e -> 2 ^ e < n <= 2 * 2 ^ e -> Z.log2_up n = e + 1.
Proof.
  intros He [Hlo Hhi]. apply Z.log2_up_unique; [lia|].
  replace (Z.pred (e + 1)) with e by lia.
  rewrite Z.pow_add_r by lia. rewrite Z.pow_1_r. lia.
Qed.

Lemma aunts_depth : forall f (items : list bytes) i,
  (length items <= f)%nat -> (i < length items)%nat ->
  Z.of_nat (length (aunts_f f items i)) <= Z.log2_up (Z.of_nat (length items)).
Proof.
  induction f as [|f IH]; intros items i Hf Hi; [lia|].
  destruct (le_lt_dec (length items) 1) as [Hs|Hb].
  { rewrite aunts_f_small by exact Hs. cbn [length]. apply Z.log2_up_nonneg. }
  rewrite aunts_f_S by lia. cbv zeta.
  set (N := Z.of_nat (length items)).
  destruct (split_point_spec N ltac:(subst N; lia)) as (e & He & Hsp & Hlo & Hhi).
  rewrite (log2_up_of_split N e He (conj Hlo Hhi)).
  set (k := Z.to_nat (split_point N)).
  assert (Hk : Z.of_nat k = 2 ^ e) by (subst k; rewrite Hsp; lia).
  assert (Hpos : 0 < 2 ^ e) by (apply Z.pow_pos_nonneg; lia).
  assert (Hkn : (0 < k < length items)%nat) by lia.
  destruct (Nat.ltb_spec i k) as [Hlt|Hge]; rewrite app_length; cbn [length]; rewrite Nat2Z.inj_add.
  - assert (Hl : length (firstn k items) = k) by (rewrite firstn_length; lia).
    pose proof (IH (firstn k items) i ltac:(lia) ltac:(lia)) as B. rewrite Hl, Hk in B.
    rewrite Z.log2_up_pow2 in B by lia. lia.
  - assert (Hl : length (skipn k items) = (length items - k)%nat) by apply skipn_length.
    pose proof (IH (skipn k items) (i - k)%nat ltac:(lia) ltac:(lia)) as B. rewrite Hl in B.
    assert (Hm : Z.log2_up (Z.of_nat (length items - k)) <= e).
    { rewrite <- (Z.log2_up_pow2 e) by lia. apply Z.log2_up_le_mono. lia. }
    lia.
Qed.

Lemma aunts_sizes : forall f (items : list bytes) i a,
  (length items <= f)%nat -> In a (aunts_f f items i) -> length a = hlen.
Proof.
  induction f as [|f IH]; intros items i a Hf Hin.
  - rewrite aunts_f_small in Hin by lia. destruct Hin.
  - destruct (le_lt_dec (length items) 1) as [Hs|Hb].
    { rewrite aunts_f_small in Hin by exact Hs. destruct Hin. }
    rewrite aunts_f_S in Hin by lia. cbv zeta in Hin.
    pose proof (split_nat items ltac:(lia)) as Hk. cbv zeta in Hk.
    destruct (Nat.ltb _ _); apply in_app_or in Hin; destruct Hin as [Hin|[<-|[]]].
    + eapply IH; [|exact Hin]. rewrite firstn_length. lia.
    + rewrite (root_f_enough H) by (rewrite skipn_length; lia). apply (root_length H hlen H_len).
    + eapply IH; [|exact Hin]. rewrite skipn_length. lia.
    + rewrite (root_f_enough H) by (rewrite firstn_length; lia). apply (root_length H hlen H_len).
Qed.

Theorem genuine_proof_validates (items : list bytes) i :
  Z.of_nat hlen = tmhash_size ->
  (i < length items)%nat -> Z.of_nat (length items) <= 2 ^ merkle_max_aunts ->
  proof_validate_basic (proof_of H items i) = true.
Proof.
  intros Hh Hi Hn. unfold proof_validate_basic, proof_of.
  cbn [pf_total pf_index pf_leaf_hash pf_aunts].
  rewrite !andb_true_iff. repeat split.
  - apply Z.leb_le. lia.
  - apply Z.leb_le. lia.
  - apply Z.eqb_eq. unfold leaf_hash. rewrite H_len. exact Hh.
  - apply Z.leb_le.
    pose proof (aunts_depth (length items) items i (le_n _) Hi) as B.
    assert (Z.log2_up (Z.of_nat (length items)) <= merkle_max_aunts).
    { rewrite <- (Z.log2_up_pow2 merkle_max_aunts) by (unfold merkle_max_aunts; lia).
      apply Z.log2_up_le_mono. exact Hn. }
    lia.
  - apply forallb_forall. intros a Ha. apply Z.eqb_eq.
    rewrite (aunts_sizes _ _ _ _ (le_n _) Ha). exact Hh.
Qed.

End Depth.
