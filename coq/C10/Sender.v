(* C10 — the sender's side and the end-to-end statement: NewPartSetFromData splits the data,
   its header (count, root) is what a receiver builds its empty set from, every genuine part is
   accepted, and the completed set reassembles to exactly the original bytes.  The property
   statements themselves are in Props.v. *)
From Coq Require Import List ZArith NArith Bool Lia Arith.
From TM Require Import Common.Hex Generated.Consts C10.Model C10.Proofs.
Import ListNotations.
Open Scope Z_scope.

(* ---------------------------------------------------------------- how many parts *)

(* the number of chunks is ceil(len / sz) *)
Lemma chunks_count : forall fuel data sz,
  (0 < sz)%nat -> (length data <= fuel)%nat ->
  Z.of_nat (length (chunks fuel data sz)) = (Z.of_nat (length data) + Z.of_nat sz - 1) / Z.of_nat sz.
Proof.
  induction fuel as [|f IH]; intros data sz Hsz Hf.
  - destruct data; [|cbn in Hf; lia]. cbn [chunks length].
    symmetry. apply Z.div_small. lia.
  - destruct data as [|b data].
    + cbn [chunks length]. symmetry. apply Z.div_small. lia.
    + cbn [chunks]. cbn [length] in Hf.
      change (length (firstn sz (b :: data) :: chunks f (skipn sz (b :: data)) sz))
        with (S (length (chunks f (skipn sz (b :: data)) sz))).
      rewrite Nat2Z.inj_succ.
      rewrite IH; [|exact Hsz|rewrite skipn_length; cbn [length]; lia].
      rewrite skipn_length.
      set (n := length (b :: data)). assert (Hn : (1 <= n)%nat) by (subst n; cbn [length]; lia).
      clearbody n.
      destruct (le_lt_dec n sz) as [Hle|Hgt].
      * replace (n - sz)%nat with O by lia. cbn [Z.of_nat].
        rewrite (Z.div_small (0 + Z.of_nat sz - 1)) by lia.
        symmetry. cbn [Z.succ].
        assert (E : Z.of_nat n + Z.of_nat sz - 1 = 1 * Z.of_nat sz + (Z.of_nat n - 1)) by lia.
        rewrite E. rewrite Z.div_add_l by lia. rewrite Z.div_small by lia. reflexivity.
      * rewrite Nat2Z.inj_sub by lia.
        assert (E : Z.of_nat n + Z.of_nat sz - 1 = 1 * Z.of_nat sz + (Z.of_nat n - Z.of_nat sz + Z.of_nat sz - 1)) by lia.
        rewrite E. rewrite Z.div_add_l by lia. lia.
Qed.

Theorem split_count data sz :
  (0 < sz)%nat ->
  Z.of_nat (length (split_data data sz)) = (Z.of_nat (length data) + Z.of_nat sz - 1) / Z.of_nat sz.
Proof. intro Hsz. unfold split_data. apply chunks_count; [exact Hsz | lia]. Qed.

(* NewPartSetFromData computes the count in uint32: exact as long as len + sz - 1 < 2^32 *)
Theorem part_count_exact data sz :
  (0 < sz)%nat -> Z.of_nat (length data) + Z.of_nat sz - 1 < 4294967296 ->
  part_count (Z.of_nat (length data)) (Z.of_nat sz) = Z.of_nat (length (split_data data sz)).
Proof.
  intros Hsz Hb. rewrite split_count by exact Hsz. unfold part_count, u32.
  rewrite (Z.mod_small (Z.of_nat (length data))) by lia.
  rewrite Z.mod_small by lia. reflexivity.
Qed.

(* ... and not beyond: the uint32 sum wraps (a documented limit of the Go expression; the
   block size limit keeps real data far below it) *)
Example part_count_wraps_refuted :
  part_count 4294967295 65536 = 0 /\ (4294967295 + 65536 - 1) / 65536 = 65536.
Proof. vm_compute. split; reflexivity. Qed.

Section SenderReceiver.
Variable H : bytes -> bytes.
Variable hlen : nat.
Hypothesis H_len : forall x, length (H x) = hlen.

Notation root := (root H).
Notation add_part := (add_part H).
Notation add_parts := (add_parts H).

(* the i-th part as NewPartSetFromData builds it *)
Definition genuine_part (cs : list bytes) (i : nat) : part :=
  {| p_index := Z.of_nat i; p_bytes := nth i cs []; p_proof := proof_of H cs i |}.

Lemma sender_parts data sz :
  ps_parts (new_partset_from_data H data sz) =
  map (fun i => Some (genuine_part (split_data data sz) i)) (seq 0 (length (split_data data sz))).
Proof. reflexivity. Qed.

(* the header the sender announces is the invariant's header for the chunk list *)
Theorem sender_header data sz :
  (0 < sz)%nat -> Z.of_nat (length data) + Z.of_nat sz - 1 < 4294967296 ->
  let s := new_partset_from_data H data sz in
  PSInv H (split_data data sz) (new_partset_from_header (ps_total s) (ps_hash s)).
Proof.
  intros Hsz Hb s. subst s. cbn [new_partset_from_data ps_total ps_hash].
  rewrite part_count_exact by assumption. apply header_inv.
Qed.

Lemma nth_Forall2_slot cs : forall parts i,
  Forall2 (slot_ok) parts cs -> (i < length cs)%nat -> (i < length parts)%nat.
Proof. intros parts i F Hi. rewrite (Forall2_length' _ _ _ F). exact Hi. Qed.

(* a receiver that does not yet hold position i accepts the genuine part i *)
Definition with_part (ps : partset) (i : nat) (p : part) : partset :=
  {| ps_total := ps_total ps; ps_hash := ps_hash ps;
     ps_parts := set_nth i (Some p) (ps_parts ps);
     ps_count := ps_count ps + 1;
     ps_byte_size := ps_byte_size ps + Z.of_nat (length (p_bytes p)) |}.

Theorem genuine_part_added cs ps i :
  PSInv H cs ps -> (i < length cs)%nat -> nth i (ps_parts ps) None = None ->
  add_part ps (genuine_part cs i) = (with_part ps i (genuine_part cs i), Added).
Proof.
  intros (Ht & Hh & HF & Hc) Hi Hslot. unfold Model.add_part, with_part.
  change (p_index (genuine_part cs i)) with (Z.of_nat i).
  change (p_proof (genuine_part cs i)) with (proof_of H cs i).
  change (p_bytes (genuine_part cs i)) with (nth i cs []).
  rewrite Nat2Z.id. rewrite Hslot.
  replace (Z.of_nat i >=? ps_total ps) with false by (symmetry; rewrite Z.geb_leb; apply Z.leb_gt; lia).
  change (pf_index (proof_of H cs i)) with (Z.of_nat i).
  change (pf_total (proof_of H cs i)) with (Z.of_nat (length cs)).
  rewrite Z.eqb_refl. cbn [negb].
  rewrite Ht, Z.eqb_refl. cbn [negb].
  rewrite Hh. rewrite (proof_complete H cs i Hi). cbn [negb].
  reflexivity.
Qed.

(* ... and refuses it (without change) when it already holds that position *)
Theorem genuine_part_repeated cs ps i :
  PSInv H cs ps -> (i < length cs)%nat -> nth i (ps_parts ps) None <> None ->
  add_part ps (genuine_part cs i) = (ps, NotAdded).
Proof.
  intros (Ht & Hh & HF & Hc) Hi Hslot. unfold Model.add_part.
  change (p_index (genuine_part cs i)) with (Z.of_nat i).
  rewrite Nat2Z.id.
  replace (Z.of_nat i >=? ps_total ps) with false by (symmetry; rewrite Z.geb_leb; apply Z.leb_gt; lia).
  destruct (nth i (ps_parts ps) None); [reflexivity | congruence].
Qed.

(* ------------------------------------------------------------ delivery of all genuine parts *)

Definition held (ps : partset) (j : nat) : Prop := nth j (ps_parts ps) None <> None.

Lemma nth_set_nth_same {A} : forall (l : list (option A)) i x,
  (i < length l)%nat -> nth i (set_nth i (Some x) l) None = Some x.
Proof.
  induction l as [|o l IH]; intros i x Hi; cbn in Hi; [lia|].
  destruct i; cbn; [reflexivity | apply IH; lia].
Qed.

Lemma nth_set_nth_other {A} : forall (l : list (option A)) i j x,
  i <> j -> nth j (set_nth i (Some x) l) None = nth j l None.
Proof.
  induction l as [|o l IH]; intros i j x Hij; [destruct i; reflexivity|].
  destruct i, j; cbn; try reflexivity; [congruence | apply IH; congruence].
Qed.

Lemma deliver_one cs ps i :
  PSInv H cs ps -> (i < length cs)%nat ->
  PSInv H cs (fst (add_part ps (genuine_part cs i))) /\
  (forall j, held (fst (add_part ps (genuine_part cs i))) j <-> (j = i \/ held ps j)).
Proof.
  intros I Hi. pose proof I as (Ht & Hh & HF & Hc).
  pose proof (Forall2_length' _ _ _ HF) as HL.
  destruct (nth i (ps_parts ps) None) as [q|] eqn:Hn.
  - assert (Hs : nth i (ps_parts ps) None <> None) by (rewrite Hn; discriminate).
    rewrite (genuine_part_repeated cs ps i I Hi Hs). cbn [fst]. split; [exact I|].
    intro j. split; [intro X; right; exact X | intros [->|X]; [exact Hs | exact X]].
  - rewrite (genuine_part_added cs ps i I Hi Hn). cbn [fst]. split.
    + unfold PSInv, with_part. cbn [ps_total ps_hash ps_parts ps_count].
      split; [exact Ht|]. split; [exact Hh|]. split.
      * apply Forall2_set_nth; [exact HF|].
        change (p_bytes (genuine_part cs i)) with (nth i cs []).
        apply nth_error_nth'. exact Hi.
      * rewrite count_some_set_nth; [lia | exact Hn | lia].
    + intro j. unfold held, with_part. cbn [ps_parts]. destruct (Nat.eq_dec i j) as [<-|Hne].
      * rewrite nth_set_nth_same by lia.
        split; [intros _; left; reflexivity | intros _; discriminate].
      * rewrite nth_set_nth_other by exact Hne.
        split; [intro X; right; exact X | intros [->|X]; [congruence | exact X]].
Qed.

Lemma deliver_all cs : forall (order : list nat) ps,
  PSInv H cs ps -> Forall (fun i => (i < length cs)%nat) order ->
  let ps' := add_parts ps (map (genuine_part cs) order) in
  PSInv H cs ps' /\ (forall j, held ps' j <-> (In j order \/ held ps j)).
Proof.
  induction order as [|i order IH]; intros ps I Ho; cbn zeta.
  - split; [exact I|]. intro j. cbn. tauto.
  - unfold Model.add_parts. cbn [map fold_left].
    inversion Ho as [|? ? Hi Ho']; subst.
    destruct (deliver_one cs ps i I Hi) as [I1 Hh1].
    destruct (IH _ I1 Ho') as [I2 Hh2]. split; [exact I2|].
    intro j. unfold Model.add_parts in Hh2. rewrite Hh2, Hh1. cbn [In].
    split; [intros [X|[X|X]]; auto | intros [[X|X]|X]; auto].
Qed.

Lemma count_some_full {A} : forall (l : list (option A)),
  (forall j, (j < length l)%nat -> nth j l None <> None) -> count_some l = length l.
Proof.
  induction l as [|o l IH]; intro Hall; [reflexivity|].
  destruct o as [a|].
  - cbn. f_equal. apply IH. intros j Hj. apply (Hall (S j)). cbn. lia.
  - exfalso. apply (Hall O); [cbn; lia | reflexivity].
Qed.

(* Whatever the delivery order and however often parts are repeated: once every index has been
   delivered at least once, the receiver's set is complete and reassembles to the chunks. *)
Theorem all_delivered_completes cs (order : list nat) :
  Forall (fun i => (i < length cs)%nat) order ->
  (forall j, (j < length cs)%nat -> In j order) ->
  let ps := add_parts (new_partset_from_header (Z.of_nat (length cs)) (root cs))
                      (map (genuine_part cs) order) in
  is_complete ps = true /\ reassemble ps = concat cs.
Proof.
  intros Ho Hall ps.
  destruct (deliver_all cs order _ (header_inv H cs) Ho) as [(Ht & Hh & HF & Hc) Hheld].
  fold ps in Ht, Hh, HF, Hc, Hheld.
  pose proof (Forall2_length' _ _ _ HF) as HL.
  assert (Hfull : count_some (ps_parts ps) = length (ps_parts ps)).
  { apply count_some_full. intros j Hj. apply (Hheld j). left. apply Hall. lia. }
  split.
  - unfold is_complete. apply Z.eqb_eq. lia.
  - unfold reassemble. apply full_reassemble; assumption.
Qed.

(* End to end.  The receiver knows only the header (count, root) the sender announced.
   (1) Whatever parts arrive - forged, transplanted, repeated, in any order - a set that reports
   itself complete holds exactly the sender's bytes (or a collision of H is exhibited).
   (2) The sender's own parts, delivered in any order with every index at least once, do
   complete it. *)
Theorem end_to_end_sound data sz (l : list part) :
  (0 < sz)%nat -> Z.of_nat (length data) + Z.of_nat sz - 1 < 4294967296 ->
  let s := new_partset_from_data H data sz in
  let r := add_parts (new_partset_from_header (ps_total s) (ps_hash s)) l in
  is_complete r = true -> reassemble r = data \/ Collision H.
Proof.
  intros Hsz Hb s r Hc. subst s r. cbn [new_partset_from_data ps_total ps_hash] in *.
  rewrite part_count_exact in * by assumption.
  destruct (complete_reassembles H hlen H_len (split_data data sz) l Hc) as [E|C]; [left|right; exact C].
  rewrite E. apply split_roundtrip. exact Hsz.
Qed.

Theorem end_to_end_complete data sz (order : list nat) :
  (0 < sz)%nat -> Z.of_nat (length data) + Z.of_nat sz - 1 < 4294967296 ->
  let s := new_partset_from_data H data sz in
  let n := length (split_data data sz) in
  Forall (fun i => (i < n)%nat) order -> (forall j, (j < n)%nat -> In j order) ->
  let r := add_parts (new_partset_from_header (ps_total s) (ps_hash s))
                     (map (genuine_part (split_data data sz)) order) in
  is_complete r = true /\ reassemble r = data.
Proof.
  intros Hsz Hb s n Ho Hall r. subst s n r. cbn [new_partset_from_data ps_total ps_hash] in *.
  rewrite part_count_exact by assumption.
  destruct (all_delivered_completes (split_data data sz) order Ho Hall) as [C E].
  split; [exact C|]. rewrite E. apply split_roundtrip. exact Hsz.
Qed.

End SenderReceiver.
