(* C10 — model of crypto/merkle/{hash,tree,proof}.go and types/part_set.go.
   Transcribed by hand; tied to /repo by (a) Generated/Consts.v (prefix bytes, MaxAunts,
   hash size, regenerated from the source on every run) and (b) the correspondence run
   (harness/overlay/crypto/merkle, harness/overlay/types).  No proofs in this file. *)
From Coq Require Import List ZArith NArith Bool.
From TM Require Import Common.Hex Generated.Consts.
Import ListNotations.
Open Scope Z_scope.

Section Merkle.
Variable H : bytes -> bytes.

(* hash.go *)
Definition empty_hash : bytes := H [].
Definition leaf_hash (leaf : bytes) : bytes := H (merkle_leaf_prefix ++ leaf).
Definition inner_hash (l r : bytes) : bytes := H (merkle_inner_prefix ++ l ++ r).

(* tree.go getSplitPoint: largest power of two strictly below [n] (callers have n >= 2;
   for n = 1 the Go code returns 0, and so does this) *)
Definition split_point (n : Z) : Z :=
  let k := 2 ^ (Z.log2 n) in if k =? n then k / 2 else k.

(* tree.go HashFromByteSlices; recursion on the list through explicit fuel (length items
   suffices: both halves are strictly shorter).  Out of fuel returns [] — excluded by
   [root] supplying enough. *)
Fixpoint root_f (fuel : nat) (items : list bytes) : bytes :=
  match items with
  | [] => empty_hash
  | [x] => leaf_hash x
  | _ =>
    match fuel with
    | O => []
    | S f =>
      let k := Z.to_nat (split_point (Z.of_nat (length items))) in
      inner_hash (root_f f (firstn k items)) (root_f f (skipn k items))
    end
  end.
Definition root (items : list bytes) : bytes := root_f (length items) items.

(* tree.go HashFromByteSlicesIterative: one pairing pass, then repeat *)
Fixpoint pair_up (hs : list bytes) : list bytes :=
  match hs with
  | a :: b :: r => inner_hash a b :: pair_up r
  | _ => hs
  end.
Fixpoint iter_f (fuel : nat) (hs : list bytes) : bytes :=
  match hs with
  | [] => empty_hash
  | [h] => h
  | _ => match fuel with O => [] | S f => iter_f f (pair_up hs) end
  end.
Definition root_iterative (items : list bytes) : bytes :=
  iter_f (length items) (map leaf_hash items).

(* proof.go: Proof, with the aunts in the order the Go code keeps them
   (sibling of the leaf first, child of the root last) *)
Record proof := { pf_total : Z; pf_index : Z; pf_leaf_hash : bytes; pf_aunts : list bytes }.

(* trailsFromByteSlices + FlattenAunts, as a function of (items, index) *)
Fixpoint aunts_f (fuel : nat) (items : list bytes) (i : nat) : list bytes :=
  match items with
  | [] | [_] => []
  | _ =>
    match fuel with
    | O => []
    | S f =>
      let k := Z.to_nat (split_point (Z.of_nat (length items))) in
      if Nat.ltb i k
      then aunts_f f (firstn k items) i ++ [root_f f (skipn k items)]
      else aunts_f f (skipn k items) (i - k) ++ [root_f f (firstn k items)]
    end
  end.
Definition proof_of (items : list bytes) (i : nat) : proof :=
  {| pf_total := Z.of_nat (length items); pf_index := Z.of_nat i;
     pf_leaf_hash := leaf_hash (nth i items []);
     pf_aunts := aunts_f (length items) items i |}.

(* computeHashFromAunts, on the reversed aunt list (head = child of the root), so that the
   Go recursion "strip the last element" is structural.  None = Go's nil. *)
Fixpoint from_aunts (index total : Z) (lh : bytes) (raunts : list bytes) : option bytes :=
  if (index >=? total) || (index <? 0) || (total <=? 0) then None
  else if total =? 1 then match raunts with [] => Some lh | _ => None end
  else
    match raunts with
    | [] => None
    | top :: rest =>
      let k := split_point total in
      if index <? k
      then match from_aunts index k lh rest with
           | Some l => Some (inner_hash l top) | None => None end
      else match from_aunts (index - k) (total - k) lh rest with
           | Some r => Some (inner_hash top r) | None => None end
    end.

Definition compute_root (p : proof) : bytes :=
  match from_aunts (pf_index p) (pf_total p) (pf_leaf_hash p) (rev (pf_aunts p)) with
  | Some h => h
  | None => []       (* nil; bytes.Equal(nil, []byte{}) is true in Go *)
  end.

(* Proof.Verify; true = nil error *)
Definition verify (root_hash leaf : bytes) (p : proof) : bool :=
  if pf_total p <? 0 then false
  else if pf_index p <? 0 then false
  else if negb (bytes_eqb (pf_leaf_hash p) (leaf_hash leaf)) then false
  else match from_aunts (pf_index p) (pf_total p) (pf_leaf_hash p) (rev (pf_aunts p)) with
       | Some h => bytes_eqb h root_hash
       | None => false      (* no root can be computed: refused whatever root_hash is (F40) *)
       end.

(* Proof.ValidateBasic *)
Definition proof_validate_basic (p : proof) : bool :=
  (0 <=? pf_total p) && (0 <=? pf_index p)
  && (Z.of_nat (length (pf_leaf_hash p)) =? tmhash_size)
  && (Z.of_nat (length (pf_aunts p)) <=? merkle_max_aunts)
  && forallb (fun a => Z.of_nat (length a) =? tmhash_size) (pf_aunts p).

(* ------------------------------------------------------------------ part_set.go *)

Record part := { p_index : Z; p_bytes : bytes; p_proof : proof }.

Record partset := {
  ps_total : Z;
  ps_hash : bytes;
  ps_parts : list (option part);      (* length = total *)
  ps_count : Z;
  ps_byte_size : Z
}.

Definition u32 (z : Z) : Z := z mod 4294967296.

(* NewPartSetFromData: the part count in uint32 arithmetic exactly as written *)
Definition part_count (len part_size : Z) : Z := u32 (u32 len + part_size - 1) / part_size.

Fixpoint chunks (fuel : nat) (data : bytes) (sz : nat) : list bytes :=
  match fuel with
  | O => []
  | S f => match data with
           | [] => []
           | _ => firstn sz data :: chunks f (skipn sz data) sz
           end
  end.
Definition split_data (data : bytes) (sz : nat) : list bytes := chunks (length data) data sz.

Definition new_partset_from_data (data : bytes) (sz : nat) : partset :=
  let cs := split_data data sz in
  {| ps_total := part_count (Z.of_nat (length data)) (Z.of_nat sz);
     ps_hash := root cs;
     ps_parts := map (fun i => Some {| p_index := Z.of_nat i; p_bytes := nth i cs [];
                                       p_proof := proof_of cs i |}) (seq 0 (length cs));
     ps_count := Z.of_nat (length cs);
     ps_byte_size := Z.of_nat (length data) |}.

Definition new_partset_from_header (total : Z) (hash : bytes) : partset :=
  {| ps_total := total; ps_hash := hash; ps_parts := repeat None (Z.to_nat total);
     ps_count := 0; ps_byte_size := 0 |}.

Inductive add_result := Added | NotAdded | ErrUnexpectedIndex | ErrInvalidProof.

Fixpoint set_nth {A} (n : nat) (x : A) (l : list A) : list A :=
  match l, n with
  | [], _ => []
  | _ :: r, O => x :: r
  | y :: r, S n' => y :: set_nth n' x r
  end.

(* PartSet.AddPart, in the order of the checks in the source.  The two comparisons marked
   (fix F3) are the ones added by the "fix:" commit in /repo; without them a genuine proof for
   position j is accepted for a part presented at position i <> j. *)
Definition add_part (ps : partset) (p : part) : partset * add_result :=
  if p_index p >=? ps_total ps then (ps, ErrUnexpectedIndex)
  else match nth (Z.to_nat (p_index p)) (ps_parts ps) None with
  | Some _ => (ps, NotAdded)
  | None =>
    if negb (pf_index (p_proof p) =? p_index p) then (ps, ErrInvalidProof)       (* fix F3 *)
    else if negb (pf_total (p_proof p) =? ps_total ps) then (ps, ErrInvalidProof) (* fix F3 *)
    else if negb (verify (ps_hash ps) (p_bytes p) (p_proof p)) then (ps, ErrInvalidProof)
    else ({| ps_total := ps_total ps; ps_hash := ps_hash ps;
             ps_parts := set_nth (Z.to_nat (p_index p)) (Some p) (ps_parts ps);
             ps_count := ps_count ps + 1;
             ps_byte_size := ps_byte_size ps + Z.of_nat (length (p_bytes p)) |}, Added)
  end.

Definition is_complete (ps : partset) : bool := ps_count ps =? ps_total ps.

(* GetReader + ReadAll: concatenation of the stored parts in index order *)
Definition reassemble (ps : partset) : bytes :=
  flat_map (fun o => match o with Some p => p_bytes p | None => [] end) (ps_parts ps).

Definition add_parts (ps : partset) (l : list part) : partset :=
  fold_left (fun s p => fst (add_part s p)) l ps.

End Merkle.

