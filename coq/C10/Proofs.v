(* C10 — proofs about C10/Model.v.  The property statements themselves are in Props.v. *)
From Coq Require Import List ZArith NArith Bool Lia Arith.
From TM Require Import Common.Hex Generated.Consts C10.Model.
Import ListNotations.
Open Scope Z_scope.

Definition Collision (H : bytes -> bytes) : Prop := exists x y, x <> y /\ H x = H y.

Section MerkleProofs.
Variable H : bytes -> bytes.
Variable hlen : nat.
Hypothesis H_len : forall x, length (H x) = hlen.

Notation leaf_hash := (leaf_hash H).
Notation inner_hash := (inner_hash H).
Notation root := (root H).
Notation root_f := (root_f H).
Notation from_aunts := (from_aunts H).
Notation aunts_f := (aunts_f H).

(* ---------------------------------------------------------------- split point *)

Lemma split_point_bounds n : 2 <= n -> 0 < split_point n < n.
Proof.
  intro Hn. unfold split_point.
  assert (Hl : 1 <= Z.log2 n) by (apply Z.log2_le_pow2; [lia | rewrite Z.pow_1_r; lia]).
  destruct (Z.log2_spec n) as [Hlo Hhi]; [lia|].
  assert (Hp : 2 ^ Z.log2 n = 2 * 2 ^ (Z.log2 n - 1)).
  { rewrite <- Z.pow_succ_r by lia. f_equal. lia. }
  assert (0 < 2 ^ (Z.log2 n - 1)) by (apply Z.pow_pos_nonneg; lia).
  destruct (2 ^ Z.log2 n =? n) eqn:E.
  - apply Z.eqb_eq in E. rewrite Hp. rewrite Z.mul_comm, Z.div_mul by lia. lia.
  - apply Z.eqb_neq in E. lia.
Qed.

Lemma split_nat (items : list bytes) :
  (2 <= length items)%nat ->
  let k := Z.to_nat (split_point (Z.of_nat (length items))) in
  (0 < k < length items)%nat.
Proof.
  intros Hn k. subst k.
  pose proof (split_point_bounds (Z.of_nat (length items))). lia.
Qed.

(* ---------------------------------------------------------------- root: fuel, unfolding *)

Lemma root_f_small f f' items : (length items <= 1)%nat -> root_f f items = root_f f' items.
Proof.
  destruct items as [|x [|y r]]; cbn; intro Hl; try lia; destruct f, f'; reflexivity.
Qed.

Lemma root_f_S f items :
  (2 <= length items)%nat ->
  root_f (S f) items =
  inner_hash (root_f f (firstn (Z.to_nat (split_point (Z.of_nat (length items)))) items))
             (root_f f (skipn (Z.to_nat (split_point (Z.of_nat (length items)))) items)).
Proof.
  destruct items as [|x [|y r]]; cbn [length]; intro Hl; try lia. reflexivity.
Qed.

Lemma root_f_indep : forall f items f',
  (length items <= f)%nat -> (length items <= f')%nat -> root_f f items = root_f f' items.
Proof.
  induction f as [|f IH]; intros items f' Hf Hf'.
  - apply root_f_small. lia.
  - destruct (le_lt_dec (length items) 1) as [Hs|Hb]; [apply root_f_small; exact Hs|].
    destruct f' as [|f']; [lia|].
    pose proof (split_nat items ltac:(lia)) as Hk. cbv zeta in Hk.
    rewrite !root_f_S by lia.
    f_equal; apply IH; rewrite ?firstn_length, ?skipn_length; lia.
Qed.

Lemma root_f_enough f items : (length items <= f)%nat -> root_f f items = root items.
Proof. intro Hf. unfold Model.root. apply root_f_indep; lia. Qed.

Lemma root_nil : root [] = empty_hash H.
Proof. reflexivity. Qed.
Lemma root_single x : root [x] = leaf_hash x.
Proof. reflexivity. Qed.

Lemma root_split (items : list bytes) :
  (2 <= length items)%nat ->
  let k := Z.to_nat (split_point (Z.of_nat (length items))) in
  root items = inner_hash (root (firstn k items)) (root (skipn k items)).
Proof.
  intros Hn k.
  pose proof (split_nat items Hn) as Hk. cbv zeta in Hk. fold k in Hk.
  unfold Model.root at 1.
  destruct (length items) as [|n] eqn:En; [lia|].
  rewrite root_f_S by lia. rewrite En. fold k.
  rewrite !root_f_enough; [reflexivity | rewrite skipn_length; lia | rewrite firstn_length; lia].
Qed.

Lemma root_length items : length (root items) = hlen.
Proof.
  destruct items as [|x [|y r]].
  - apply H_len.
  - apply H_len.
  - rewrite root_split by (cbn; lia). apply H_len.
Qed.

(* ---------------------------------------------------------------- hash-input injectivity *)

Lemma prefixes_distinct_heads :
  forall a b, merkle_leaf_prefix ++ a <> merkle_inner_prefix ++ b.
Proof. intros a b E. unfold merkle_leaf_prefix, merkle_inner_prefix in E. cbn in E. discriminate E. Qed.

Lemma prefixes_nonempty : merkle_leaf_prefix <> [] /\ merkle_inner_prefix <> [].
Proof. unfold merkle_leaf_prefix, merkle_inner_prefix. split; discriminate. Qed.

Lemma leaf_inj a b : leaf_hash a = leaf_hash b -> a = b \/ Collision H.
Proof.
  intro E. unfold Model.leaf_hash in E.
  destruct (list_eq_dec N.eq_dec a b) as [->|Hne]; [left; reflexivity|].
  right. exists (merkle_leaf_prefix ++ a), (merkle_leaf_prefix ++ b). split; [|exact E].
  intro E'. apply app_inv_head in E'. contradiction.
Qed.

Lemma app_eq_len {A} (l r l' r' : list A) :
  l ++ r = l' ++ r' -> length l = length l' -> l = l' /\ r = r'.
Proof.
  revert l'. induction l as [|x l IH]; intros [|x' l'] E Hl; cbn in *; try discriminate.
  - auto.
  - injection E as Ex El. subst x'. destruct (IH l' El ltac:(lia)) as [-> ->]. auto.
Qed.

Lemma inner_inj l r l' r' :
  length l = length l' \/ length r = length r' ->
  inner_hash l r = inner_hash l' r' -> (l = l' /\ r = r') \/ Collision H.
Proof.
  intros Hl E. unfold Model.inner_hash in E.
  destruct (list_eq_dec N.eq_dec (l ++ r) (l' ++ r')) as [Eq|Hne].
  - left. apply app_eq_len; [exact Eq|].
    assert (HL : length (l ++ r) = length (l' ++ r')) by (rewrite Eq; reflexivity).
    rewrite !app_length in HL. lia.
  - right. exists (merkle_inner_prefix ++ l ++ r), (merkle_inner_prefix ++ l' ++ r'). split; [|exact E].
    intro E'. apply app_inv_head in E'. contradiction.
Qed.

Lemma leaf_inner_sep a l r : leaf_hash a = inner_hash l r -> Collision H.
Proof.
  intro E. exists (merkle_leaf_prefix ++ a), (merkle_inner_prefix ++ l ++ r). split; [|exact E].
  apply prefixes_distinct_heads.
Qed.

Lemma empty_leaf_sep a : empty_hash H = leaf_hash a -> Collision H.
Proof.
  intro E. exists [], (merkle_leaf_prefix ++ a). split; [|exact E].
  destruct prefixes_nonempty as [Hn _]. destruct merkle_leaf_prefix; [contradiction|discriminate].
Qed.

Lemma empty_inner_sep l r : empty_hash H = inner_hash l r -> Collision H.
Proof.
  intro E. exists [], (merkle_inner_prefix ++ l ++ r). split; [|exact E].
  destruct prefixes_nonempty as [_ Hn]. destruct merkle_inner_prefix; [contradiction|discriminate].
Qed.

(* ---------------------------------------------------------------- from_aunts *)

Lemma from_aunts_length : forall raunts index total lh h,
  length lh = hlen -> from_aunts index total lh raunts = Some h -> length h = hlen.
Proof.
  induction raunts as [|top rest IH]; intros index total lh h Hlh E; cbn in E.
  - destruct ((index >=? total) || (index <? 0) || (total <=? 0)); [discriminate|].
    destruct (total =? 1); [|discriminate]. injection E as <-. exact Hlh.
  - destruct ((index >=? total) || (index <? 0) || (total <=? 0)); [discriminate|].
    destruct (total =? 1); [discriminate|].
    destruct (index <? split_point total).
    + destruct (from_aunts index (split_point total) lh rest); [|discriminate].
      injection E as <-. apply H_len.
    + destruct (from_aunts (index - split_point total) (total - split_point total) lh rest); [|discriminate].
      injection E as <-. apply H_len.
Qed.

Lemma nth_error_firstn {A} : forall (l : list A) k i, (i < k)%nat -> nth_error (firstn k l) i = nth_error l i.
Proof.
  induction l as [|x l IH]; intros k i Hi.
  - rewrite firstn_nil. reflexivity.
  - destruct k; [lia|]. destruct i; [reflexivity|]. cbn. apply IH. lia.
Qed.

Lemma nth_error_skipn {A} : forall (l : list A) k i, nth_error (skipn k l) i = nth_error l (k + i).
Proof.
  induction l as [|x l IH]; intros k i.
  - rewrite skipn_nil. destruct i, k; reflexivity.
  - destruct k; [reflexivity|]. cbn. apply IH.
Qed.

(* the core of the binding property *)
Lemma binds_core : forall raunts items index leaf h,
  from_aunts index (Z.of_nat (length items)) (leaf_hash leaf) raunts = Some h ->
  h = root items ->
  (0 <= index < Z.of_nat (length items) /\ nth_error items (Z.to_nat index) = Some leaf)
  \/ Collision H.
Proof.
  induction raunts as [|top rest IH]; intros items index leaf h E Hh; cbn [Model.from_aunts] in E.
  - destruct ((index >=? Z.of_nat (length items)) || (index <? 0) || (Z.of_nat (length items) <=? 0)) eqn:G;
      [discriminate|].
    apply orb_false_iff in G as [G G3]. apply orb_false_iff in G as [G1 G2].
    destruct (Z.of_nat (length items) =? 1) eqn:T1; [|discriminate].
    apply Z.eqb_eq in T1. injection E as E. rewrite <- E in Hh. clear E.
    destruct items as [|x [|y r]]; cbn in T1; try lia.
    rewrite root_single in Hh.
    assert (index = 0) by (cbn in G1; lia). subst index.
    destruct (leaf_inj _ _ Hh) as [->|C]; [left|right; exact C].
    split; [cbn; lia | reflexivity].
  - destruct ((index >=? Z.of_nat (length items)) || (index <? 0) || (Z.of_nat (length items) <=? 0)) eqn:G;
      [discriminate|].
    apply orb_false_iff in G as [G G3]. apply orb_false_iff in G as [G1 G2].
    destruct (Z.of_nat (length items) =? 1) eqn:T1; [discriminate|].
    apply Z.eqb_neq in T1.
    assert (Hn : (2 <= length items)%nat) by lia.
    pose proof (split_nat items Hn) as Hk. cbv zeta in Hk.
    pose proof (root_split items Hn) as Hr. cbv zeta in Hr.
    set (kz := split_point (Z.of_nat (length items))) in *.
    set (k := Z.to_nat kz) in *.
    assert (Hkz : kz = Z.of_nat k) by (subst k; pose proof (split_point_bounds (Z.of_nat (length items))); lia).
    assert (HlenL : length (firstn k items) = k) by (rewrite firstn_length; lia).
    assert (HlenR : length (skipn k items) = (length items - k)%nat) by (rewrite skipn_length; lia).
    destruct (index <? kz) eqn:Lt.
    + apply Z.ltb_lt in Lt.
      destruct (from_aunts index kz (leaf_hash leaf) rest) as [l|] eqn:El; [|discriminate].
      injection E as E. rewrite <- E in Hh. clear E. rewrite Hr in Hh.
      assert (Hll : length l = hlen) by (eapply from_aunts_length; [apply H_len | exact El]).
      destruct (inner_inj l top _ _ ltac:(left; rewrite Hll, root_length; reflexivity) Hh) as [[El' Et]|C];
        [|right; exact C].
      rewrite Hkz in El. rewrite <- HlenL in El at 1.
      destruct (IH _ _ _ _ El El') as [[Hb Hnth]|C]; [left|right; exact C].
      split; [lia|]. rewrite nth_error_firstn in Hnth by lia. exact Hnth.
    + apply Z.ltb_ge in Lt.
      destruct (from_aunts (index - kz) (Z.of_nat (length items) - kz) (leaf_hash leaf) rest) as [r|] eqn:Er; [|discriminate].
      injection E as E. rewrite <- E in Hh. clear E. rewrite Hr in Hh.
      assert (Hrl : length r = hlen) by (eapply from_aunts_length; [apply H_len | exact Er]).
      destruct (inner_inj top r _ _ ltac:(right; rewrite Hrl, root_length; reflexivity) Hh) as [[Et Er']|C];
        [|right; exact C].
      replace (Z.of_nat (length items) - kz) with (Z.of_nat (length (skipn k items))) in Er by lia.
      destruct (IH _ _ _ _ Er Er') as [[Hb Hnth]|C]; [left|right; exact C].
      split; [lia|]. rewrite nth_error_skipn in Hnth.
      replace (k + Z.to_nat (index - kz))%nat with (Z.to_nat index) in Hnth by lia. exact Hnth.
Qed.


Lemma hlen_zero_collision : hlen = O -> Collision H.
Proof.
  intro Hz. exists [], [0%N]. split; [discriminate|].
  pose proof (H_len []) as A. pose proof (H_len [0%N]) as B. rewrite Hz in A, B.
  destruct (H []); [|discriminate]. destruct (H [0%N]); [reflexivity|discriminate].
Qed.

(* Verify accepts only when the given root IS the hash recomputed from (index, total, leaf
   hash, aunts) — whatever byte string is passed as the root (an empty "root" included) *)
Theorem verify_recomputes root_hash leaf p :
  verify H root_hash leaf p = true ->
  pf_leaf_hash p = leaf_hash leaf /\
  Model.from_aunts H (pf_index p) (pf_total p) (leaf_hash leaf) (rev (pf_aunts p)) = Some root_hash.
Proof.
  intro V. unfold verify in V.
  destruct (pf_total p <? 0) eqn:T0; [discriminate|].
  destruct (pf_index p <? 0) eqn:I0; [discriminate|].
  destruct (bytes_eqb (pf_leaf_hash p) (leaf_hash leaf)) eqn:L; [|discriminate]. cbn in V.
  apply bytes_eqb_eq in L. split; [exact L|]. rewrite <- L.
  destruct (Model.from_aunts H (pf_index p) (pf_total p) (pf_leaf_hash p) (rev (pf_aunts p))) as [h|]; [|discriminate].
  apply bytes_eqb_eq in V. subst h. reflexivity.
Qed.

Theorem proof_binds items leaf p :
  pf_total p = Z.of_nat (length items) ->
  verify H (root items) leaf p = true ->
  (0 <= pf_index p < pf_total p /\ nth_error items (Z.to_nat (pf_index p)) = Some leaf)
  \/ Collision H.
Proof.
  intros Ht V. destruct (verify_recomputes _ _ _ V) as [L E]. rewrite Ht in E.
  rewrite Ht. exact (binds_core _ items (pf_index p) leaf (root items) E eq_refl).
Qed.

(* ---------------------------------------------------------------- completeness *)

Lemma aunts_f_small f items i : (length items <= 1)%nat -> aunts_f f items i = [].
Proof. destruct items as [|x [|y r]]; cbn; intro Hl; try lia; destruct f; reflexivity. Qed.

Lemma aunts_f_S f items i :
  (2 <= length items)%nat ->
  aunts_f (S f) items i =
  let k := Z.to_nat (split_point (Z.of_nat (length items))) in
  if Nat.ltb i k
  then aunts_f f (firstn k items) i ++ [root_f f (skipn k items)]
  else aunts_f f (skipn k items) (i - k) ++ [root_f f (firstn k items)].
Proof.
  destruct items as [|x [|y r]]; cbn [length]; intro Hl; try lia. reflexivity.
Qed.

Lemma from_aunts_cons index total lh top rest :
  from_aunts index total lh (top :: rest) =
  if (index >=? total) || (index <? 0) || (total <=? 0) then None
  else if total =? 1 then None
  else
    let k := split_point total in
    if index <? k
    then match from_aunts index k lh rest with Some l => Some (inner_hash l top) | None => None end
    else match from_aunts (index - k) (total - k) lh rest with Some r => Some (inner_hash top r) | None => None end.
Proof. reflexivity. Qed.

Lemma nth_firstn_lt {A} : forall (l : list A) k i d, (i < k)%nat -> nth i (firstn k l) d = nth i l d.
Proof.
  induction l as [|x l IH]; intros k i d Hi.
  - rewrite firstn_nil. reflexivity.
  - destruct k; [lia|]. destruct i; [reflexivity|]. cbn. apply IH. lia.
Qed.

Lemma nth_skipn_ge {A} : forall (l : list A) k i d, (k <= i)%nat -> nth (i - k) (skipn k l) d = nth i l d.
Proof.
  induction l as [|x l IH]; intros k i d Hi.
  - rewrite skipn_nil. destruct (i - k)%nat, i; reflexivity.
  - destruct k; [rewrite Nat.sub_0_r; reflexivity|]. destruct i; [lia|]. cbn. apply IH. lia.
Qed.

Lemma complete_core : forall f (items : list bytes) i,
  (length items <= f)%nat -> (i < length items)%nat ->
  from_aunts (Z.of_nat i) (Z.of_nat (length items)) (leaf_hash (nth i items []))
             (rev (aunts_f f items i)) = Some (root items).
Proof.
  induction f as [|f IH]; intros items i Hf Hi; [lia|].
  destruct (le_lt_dec (length items) 1) as [Hs|Hb].
  - rewrite aunts_f_small by exact Hs.
    destruct items as [|x [|y r]]; cbn in Hi, Hs; try lia.
    assert (i = O) by lia. subst i. reflexivity.
  - pose proof (split_nat items ltac:(lia)) as Hk. cbv zeta in Hk.
    pose proof (root_split items ltac:(lia)) as Hr. cbv zeta in Hr.
    pose proof (split_point_bounds (Z.of_nat (length items)) ltac:(lia)) as Hkz.
    rewrite aunts_f_S by lia. cbv zeta.
    set (kz := split_point (Z.of_nat (length items))) in *.
    set (k := Z.to_nat kz) in *.
    assert (HlenL : length (firstn k items) = k) by (rewrite firstn_length; lia).
    assert (HlenR : length (skipn k items) = (length items - k)%nat) by (rewrite skipn_length; lia).
    destruct (Nat.ltb_spec i k) as [Hlt|Hge].
    + rewrite rev_unit, from_aunts_cons.
      replace ((Z.of_nat i >=? Z.of_nat (length items)) || (Z.of_nat i <? 0) || (Z.of_nat (length items) <=? 0)) with false
        by (symmetry; apply orb_false_iff; split; [apply orb_false_iff; split|]; lia).
      replace (Z.of_nat (length items) =? 1) with false by (symmetry; apply Z.eqb_neq; lia).
      cbv zeta. fold kz.
      replace (Z.of_nat i <? kz) with true by (symmetry; apply Z.ltb_lt; lia).
      pose proof (IH (firstn k items) i ltac:(lia) ltac:(lia)) as A.
      rewrite HlenL in A. replace (Z.of_nat k) with kz in A by lia.
      rewrite nth_firstn_lt in A by exact Hlt. rewrite A.
      rewrite root_f_enough by lia. rewrite Hr. reflexivity.
    + rewrite rev_unit, from_aunts_cons.
      replace ((Z.of_nat i >=? Z.of_nat (length items)) || (Z.of_nat i <? 0) || (Z.of_nat (length items) <=? 0)) with false
        by (symmetry; apply orb_false_iff; split; [apply orb_false_iff; split|]; lia).
      replace (Z.of_nat (length items) =? 1) with false by (symmetry; apply Z.eqb_neq; lia).
      cbv zeta. fold kz.
      replace (Z.of_nat i <? kz) with false by (symmetry; apply Z.ltb_ge; lia).
      pose proof (IH (skipn k items) (i - k)%nat ltac:(lia) ltac:(lia)) as A.
      rewrite HlenR in A.
      replace (Z.of_nat (i - k)) with (Z.of_nat i - kz) in A by lia.
      replace (Z.of_nat (length items - k)) with (Z.of_nat (length items) - kz) in A by lia.
      rewrite nth_skipn_ge in A by exact Hge. rewrite A.
      rewrite root_f_enough by lia. rewrite Hr. reflexivity.
Qed.

Theorem proof_complete items i :
  (i < length items)%nat ->
  verify H (root items) (nth i items []) (proof_of H items i) = true.
Proof.
  intro Hi. unfold verify, proof_of. cbn [Model.pf_total Model.pf_index Model.pf_leaf_hash Model.pf_aunts].
  replace (Z.of_nat (length items) <? 0) with false by (symmetry; apply Z.ltb_ge; lia).
  replace (Z.of_nat i <? 0) with false by (symmetry; apply Z.ltb_ge; lia).
  rewrite bytes_eqb_refl. cbn [negb].
  rewrite complete_core by lia. apply bytes_eqb_refl.
Qed.

(* ---------------------------------------------------------------- second-preimage resistance *)

Lemma root_injective_n : forall n (items items' : list bytes),
  (length items <= n)%nat -> root items = root items' -> items = items' \/ Collision H.
Proof.
  induction n as [|n IH]; intros items items' Hn E.
  - destruct items; [|cbn in Hn; lia].
    destruct items' as [|y [|z r]].
    + left; reflexivity.
    + right. rewrite root_nil, root_single in E. eapply empty_leaf_sep; exact E.
    + right. rewrite root_nil, root_split in E by (cbn; lia). eapply empty_inner_sep; exact E.
  - destruct (le_lt_dec (length items) 1) as [Hs|Hb].
    + destruct items as [|x [|? ?]]; cbn in Hs; try lia.
      * apply (IH [] items'); [cbn; lia | exact E].
      * destruct items' as [|y [|z r]].
        -- right. rewrite root_nil, root_single in E. eapply empty_leaf_sep; symmetry; exact E.
        -- rewrite !root_single in E. destruct (leaf_inj _ _ E) as [->|C]; [left; reflexivity|right; exact C].
        -- right. rewrite root_single, root_split in E by (cbn; lia). eapply leaf_inner_sep; exact E.
    + destruct (le_lt_dec (length items') 1) as [Hs'|Hb'].
      * right. rewrite (root_split items) in E by lia.
        destruct items' as [|y [|? ?]]; cbn in Hs'; try lia.
        -- rewrite root_nil in E. eapply empty_inner_sep; symmetry; exact E.
        -- rewrite root_single in E. eapply leaf_inner_sep; symmetry; exact E.
      * pose proof (split_nat items ltac:(lia)) as Hk. cbv zeta in Hk.
        pose proof (split_nat items' ltac:(lia)) as Hk'. cbv zeta in Hk'.
        rewrite (root_split items), (root_split items') in E by lia.
        destruct (inner_inj _ _ _ _ ltac:(left; rewrite !root_length; reflexivity) E) as [[EL ER]|C];
          [|right; exact C].
        set (k := Z.to_nat (split_point (Z.of_nat (length items)))) in *.
        assert (HL : (length (firstn k items) <= n)%nat) by (rewrite firstn_length; lia).
        assert (HR : (length (skipn k items) <= n)%nat) by (rewrite skipn_length; lia).
        destruct (IH _ _ HL EL) as [EL'|C]; [|right; exact C].
        destruct (IH _ _ HR ER) as [ER'|C]; [|right; exact C]. subst k.
        left. rewrite <- (firstn_skipn (Z.to_nat (split_point (Z.of_nat (length items)))) items).
        rewrite <- (firstn_skipn (Z.to_nat (split_point (Z.of_nat (length items')))) items').
        rewrite EL', ER'. reflexivity.
Qed.

Theorem root_injective items items' : root items = root items' -> items = items' \/ Collision H.
Proof. apply (root_injective_n (length items)). lia. Qed.


(* ---------------------------------------------------------------- part sets *)

Notation add_part := (add_part H).
Notation add_parts := (add_parts H).

Definition slot_ok (o : option part) (c : bytes) : Prop :=
  match o with None => True | Some p => p_bytes p = c end.

Fixpoint count_some {A} (l : list (option A)) : nat :=
  match l with [] => O | Some _ :: r => S (count_some r) | None :: r => count_some r end.

(* invariant of a part set being filled for the chunk list [cs] *)
Definition PSInv (cs : list bytes) (ps : partset) : Prop :=
  ps_total ps = Z.of_nat (length cs) /\ ps_hash ps = root cs /\
  Forall2 slot_ok (ps_parts ps) cs /\ ps_count ps = Z.of_nat (count_some (ps_parts ps)).

Lemma count_some_le {A} (l : list (option A)) : (count_some l <= length l)%nat.
Proof. induction l as [|[a|] l IH]; cbn; lia. Qed.

Lemma Forall2_set_nth cs : forall parts i p,
  Forall2 slot_ok parts cs -> nth_error cs i = Some (p_bytes p) ->
  Forall2 slot_ok (set_nth i (Some p) parts) cs.
Proof.
  intros parts i p F. revert i. induction F as [|o c parts cs Ho F IH]; intros i Hn.
  - destruct i; constructor.
  - destruct i; cbn in *.
    + injection Hn as Hn. constructor; [cbn; symmetry; exact Hn | exact F].
    + constructor; [exact Ho | apply IH; exact Hn].
Qed.

Lemma count_some_set_nth {A} : forall (l : list (option A)) i (x : A),
  nth i l None = None -> (i < length l)%nat ->
  count_some (set_nth i (Some x) l) = S (count_some l).
Proof.
  induction l as [|o l IH]; intros i x Hn Hi; cbn in Hi; [lia|].
  destruct i; cbn in *.
  - subst o. reflexivity.
  - destruct o; cbn; rewrite IH by (try assumption; lia); reflexivity.
Qed.

Lemma Forall2_length' {A B} (R : A -> B -> Prop) l l' : Forall2 R l l' -> length l = length l'.
Proof. induction 1; cbn; congruence. Qed.

Theorem addpart_binds cs ps p ps' :
  PSInv cs ps -> add_part ps p = (ps', Added) ->
  (0 <= p_index p < Z.of_nat (length cs) /\
   nth_error cs (Z.to_nat (p_index p)) = Some (p_bytes p) /\ PSInv cs ps')
  \/ Collision H.
Proof.
  intros (Ht & Hh & HF & Hc) A. unfold Model.add_part in A.
  destruct (p_index p >=? ps_total ps) eqn:G; [discriminate|].
  destruct (nth (Z.to_nat (p_index p)) (ps_parts ps) None) eqn:Slot; [discriminate|].
  destruct (pf_index (p_proof p) =? p_index p) eqn:EI; [|discriminate].
  destruct (pf_total (p_proof p) =? ps_total ps) eqn:ET; [|discriminate].
  destruct (verify H (ps_hash ps) (p_bytes p) (p_proof p)) eqn:V; [|discriminate].
  cbn in A. injection A as <-.
  apply Z.eqb_eq in EI, ET. rewrite Hh in V. rewrite Ht in ET.
  destruct (proof_binds cs (p_bytes p) (p_proof p) ET V) as [[Hb Hn]|C]; [left|right; exact C].
  rewrite EI in *. rewrite ET in Hb.
  split; [exact Hb|]. split; [exact Hn|].
  pose proof (Forall2_length' _ _ _ HF) as HL.
  repeat split; cbn.
  - exact Ht.
  - exact Hh.
  - apply Forall2_set_nth; assumption.
  - rewrite count_some_set_nth by (try assumption; lia). lia.
Qed.

Lemma add_part_inv cs ps p :
  PSInv cs ps -> PSInv cs (fst (add_part ps p)) \/ Collision H.
Proof.
  intro I. destruct (add_part ps p) as [ps' r] eqn:A. destruct r.
  - destruct (addpart_binds cs ps p ps' I A) as [(_ & _ & I')|C]; [left; exact I'|right; exact C].
  - left. unfold Model.add_part in A.
    destruct (p_index p >=? ps_total ps); [injection A as <-; exact I|].
    destruct (nth (Z.to_nat (p_index p)) (ps_parts ps) None); [injection A as <-; exact I|].
    destruct (pf_index (p_proof p) =? p_index p); [|discriminate].
    destruct (pf_total (p_proof p) =? ps_total ps); [|discriminate].
    destruct (verify H (ps_hash ps) (p_bytes p) (p_proof p)); discriminate.
  - left. unfold Model.add_part in A.
    destruct (p_index p >=? ps_total ps); [injection A as <-; exact I|].
    destruct (nth (Z.to_nat (p_index p)) (ps_parts ps) None); [discriminate|].
    destruct (pf_index (p_proof p) =? p_index p); [|discriminate].
    destruct (pf_total (p_proof p) =? ps_total ps); [|discriminate].
    destruct (verify H (ps_hash ps) (p_bytes p) (p_proof p)); discriminate.
  - left. unfold Model.add_part in A.
    destruct (p_index p >=? ps_total ps); [discriminate|].
    destruct (nth (Z.to_nat (p_index p)) (ps_parts ps) None); [discriminate|].
    destruct (pf_index (p_proof p) =? p_index p); cbn in A; [|injection A as <-; exact I].
    destruct (pf_total (p_proof p) =? ps_total ps); cbn in A; [|injection A as <-; exact I].
    destruct (verify H (ps_hash ps) (p_bytes p) (p_proof p)); cbn in A; [discriminate|injection A as <-; exact I].
Qed.

Lemma add_parts_inv cs : forall l ps, PSInv cs ps -> PSInv cs (add_parts ps l) \/ Collision H.
Proof.
  induction l as [|p l IH]; intros ps I; [left; exact I|].
  unfold Model.add_parts. cbn [fold_left].
  destruct (add_part_inv cs ps p I) as [I'|C]; [|right; exact C].
  apply IH. exact I'.
Qed.

Lemma header_inv cs : PSInv cs (new_partset_from_header (Z.of_nat (length cs)) (root cs)).
Proof.
  unfold PSInv, new_partset_from_header. cbn. rewrite Nat2Z.id.
  repeat split.
  - induction cs as [|c cs IH]; cbn; constructor; [exact I | exact IH].
  - induction (length cs) as [|n IH]; cbn; [reflexivity | exact IH].
Qed.

Lemma full_reassemble : forall parts cs,
  Forall2 slot_ok parts cs -> count_some parts = length parts ->
  flat_map (fun o => match o with Some p => p_bytes p | None => [] end) parts = concat cs.
Proof.
  intros parts cs F. induction F as [|o c parts cs Ho F IH]; intro Hc; [reflexivity|].
  destruct o as [p|]; cbn in *.
  - rewrite Ho. f_equal. apply IH. lia.
  - pose proof (count_some_le parts). lia.
Qed.

(* whatever parts arrive, in whatever order and however often: a set that reports itself
   complete reassembles to exactly the committed chunks *)
Theorem complete_reassembles cs l :
  let ps := add_parts (new_partset_from_header (Z.of_nat (length cs)) (root cs)) l in
  is_complete ps = true -> reassemble ps = concat cs \/ Collision H.
Proof.
  intros ps Hcomp. subst ps.
  destruct (add_parts_inv cs l _ (header_inv cs)) as [(Ht & Hh & HF & Hc)|C]; [left|right; exact C].
  unfold is_complete in Hcomp. apply Z.eqb_eq in Hcomp.
  unfold reassemble. apply full_reassemble; [exact HF|].
  pose proof (Forall2_length' _ _ _ HF). lia.
Qed.

End MerkleProofs.

(* ---------------------------------------------------------------- splitting data into parts *)

Lemma chunks_concat : forall fuel data sz,
  (0 < sz)%nat -> (length data <= fuel)%nat -> concat (chunks fuel data sz) = data.
Proof.
  induction fuel as [|f IH]; intros data sz Hsz Hf.
  - destruct data; [reflexivity | cbn in Hf; lia].
  - destruct data as [|b data]; [reflexivity|].
    cbn [chunks concat]. rewrite IH; [apply firstn_skipn | exact Hsz |].
    rewrite skipn_length. cbn [length] in *. lia.
Qed.

Theorem split_roundtrip data sz : (0 < sz)%nat -> concat (split_data data sz) = data.
Proof. intro Hsz. apply chunks_concat; [exact Hsz | lia]. Qed.

Lemma chunks_sizes : forall fuel data sz c,
  (0 < sz)%nat -> In c (chunks fuel data sz) -> (0 < length c <= sz)%nat.
Proof.
  induction fuel as [|f IH]; intros data sz c Hsz Hin; [destruct Hin|].
  destruct data as [|b data]; [destruct Hin|].
  cbn [chunks] in Hin. destruct Hin as [<-|Hin].
  - rewrite firstn_length. cbn [length]. lia.
  - eapply IH; eassumption.
Qed.
