(* C10 — executable side of the correspondence check: the case type written by the Go harness
   (harness/overlay/crypto/merkle, harness/overlay/types), the comparison of the model with
   what the implementation returned, and the property monitors evaluated on the
   implementation's own answers.  Depends on Model.v only (not on the proofs), so it still
   runs when a proof obligation is broken. *)
From Coq Require Import List ZArith NArith Bool String.
From TM Require Import Common.Hex Common.Sha256 Generated.Consts C10.Model.
Import ListNotations.
Open Scope Z_scope.

Definition pft := (Z * Z * string * list string)%type.   (* total, index, leaf hash, aunts *)
Definition mk_proof (t : pft) : proof :=
  let '(tot, idx, lh, au) := t in
  {| pf_total := tot; pf_index := idx; pf_leaf_hash := unhex lh; pf_aunts := map unhex au |}.
Definition partt := (Z * string * pft)%type.              (* index, bytes, proof *)
Definition mk_part (t : partt) : part :=
  let '(i, b, p) := t in {| p_index := i; p_bytes := unhex b; p_proof := mk_proof p |}.

Inductive case :=
(* honest tree: items; impl: root (recursive), root (iterative), proofs, Verify of each *)
| CTree (items : list string) (root_i iter_i : string) (proofs_i : list pft) (verif_i : list bool)
(* (possibly mutated) proof checked against (possibly mutated) root/leaf; impl: Verify = nil,
   ValidateBasic = nil *)
| CVerify (items : list string) (root_h leaf : string) (pf : pft) (ok_i vb_i : bool)
(* second preimage attempt: two item lists and the roots the implementation computed *)
| CSecond (items items' : list string) (root_i root_i' : string)
(* part set: data, part size; impl: total, hash, parts of NewPartSetFromData; then a fresh set
   from the header, the parts offered to AddPart and its results
   (0 added, 1 not added/no error, 2 unexpected index, 3 invalid proof), IsComplete and the
   bytes read back when complete *)
| CPartSet (data : string) (sz : Z) (total_i : Z) (hash_i : string) (parts_i : list partt)
           (ops : list partt) (res_i : list N) (complete_i : bool) (out_i : string).

Definition Hs := sha256.

Definition proof_eqb (a b : proof) : bool :=
  (pf_total a =? pf_total b) && (pf_index a =? pf_index b)
  && bytes_eqb (pf_leaf_hash a) (pf_leaf_hash b)
  && (Nat.eqb (List.length (pf_aunts a)) (List.length (pf_aunts b)))
  && forallb (fun '(x, y) => bytes_eqb x y) (combine (pf_aunts a) (pf_aunts b)).

Definition part_eqb (a b : part) : bool :=
  (p_index a =? p_index b) && bytes_eqb (p_bytes a) (p_bytes b) && proof_eqb (p_proof a) (p_proof b).

Definition list_eqb {A} (eqb : A -> A -> bool) (a b : list A) : bool :=
  Nat.eqb (List.length a) (List.length b) && forallb (fun '(x, y) => eqb x y) (combine a b).

Definition res_code (r : add_result) : N :=
  match r with Added => 0 | NotAdded => 1 | ErrUnexpectedIndex => 2 | ErrInvalidProof => 3 end%N.

Fixpoint run_adds (ps : partset) (ops : list part) : partset * list N :=
  match ops with
  | [] => (ps, [])
  | p :: r => let '(ps', res) := add_part Hs ps p in
              let '(ps'', rs) := run_adds ps' r in (ps'', res_code res :: rs)
  end.

(* monitor of the part-set clause on the implementation's own results: every op the
   implementation answered "added" for carries the bytes of the chunk at that index
   (first claim per index, as the set refuses occupied slots) *)
Fixpoint added_ok (cs : list bytes) (ops : list part) (res : list N) : bool :=
  match ops, res with
  | p :: ops', r :: res' =>
    (if (r =? 0)%N
     then match nth_error cs (Z.to_nat (p_index p)) with
          | Some c => (0 <=? p_index p) && bytes_eqb c (p_bytes p)
          | None => false
          end
     else true) && added_ok cs ops' res'
  | _, _ => true
  end.

Definition mism (b : bool) (code : N) : verdict := if b then V_ok else V_mismatch code.
Definition viol (b : bool) (clause : N) : verdict := if b then V_ok else V_violation clause.

Definition check (c : case) : verdict :=
  match c with
  | CTree items root_i iter_i proofs_i verif_i =>
    let its := map unhex items in
    let n := List.length its in
    first_of [
      (* property monitors on the implementation's answers *)
      viol (forallb (fun b => b) verif_i) 1;                    (* genuine proof must verify *)
      viol (bytes_eqb (unhex root_i) (unhex iter_i)) 2;         (* iterative = recursive *)
      (* model vs implementation *)
      mism (bytes_eqb (root Hs its) (unhex root_i)) 11;
      mism (bytes_eqb (root_iterative Hs its) (unhex iter_i)) 12;
      mism (list_eqb proof_eqb (map (proof_of Hs its) (seq 0 n)) (map mk_proof proofs_i)) 13;
      mism (list_eqb Bool.eqb
              (map (fun i => verify Hs (root Hs its) (nth i its []) (proof_of Hs its i)) (seq 0 n))
              verif_i) 14 ]
  | CVerify items root_h leaf pf ok_i vb_i =>
    let its := map unhex items in
    let p := mk_proof pf in
    let bound :=
      (0 <=? pf_index p) && (pf_index p <? pf_total p) &&
      (* (no [Z.to_nat] of an index beyond the list: vm_compute is call by value) *)
      (if (0 <=? pf_index p) && (pf_index p <? Z.of_nat (List.length its))
       then match nth_error its (Z.to_nat (pf_index p)) with
            | Some x => bytes_eqb x (unhex leaf) | None => false end
       else false) in
    first_of [
      (* the property: accepted against the true root with the true leaf count => bound *)
      viol (negb (ok_i && bytes_eqb (unhex root_h) (root Hs its)
                  && (pf_total p =? Z.of_nat (List.length its))) || bound) 3;
      (* accepted => the root was recomputed from (index, total, leaf hash, aunts) *)
      viol (negb ok_i ||
            match from_aunts Hs (pf_index p) (pf_total p) (leaf_hash Hs (unhex leaf)) (rev (pf_aunts p)) with
            | Some h => bytes_eqb h (unhex root_h) | None => false end) 7;
      mism (Bool.eqb (verify Hs (unhex root_h) (unhex leaf) p) ok_i) 15;
      mism (Bool.eqb (proof_validate_basic p) vb_i) 16 ]
  | CSecond items items' root_i root_i' =>
    let a := map unhex items in let b := map unhex items' in
    first_of [
      viol (list_eqb bytes_eqb a b || negb (bytes_eqb (unhex root_i) (unhex root_i'))) 4;
      mism (bytes_eqb (root Hs a) (unhex root_i)) 17;
      mism (bytes_eqb (root Hs b) (unhex root_i')) 18 ]
  | CPartSet data sz total_i hash_i parts_i ops res_i complete_i out_i =>
    let d := unhex data in
    let cs := split_data d (Z.to_nat sz) in
    let m := new_partset_from_data Hs d (Z.to_nat sz) in
    let opsp := map mk_part ops in
    let '(fin, res_m) := run_adds (new_partset_from_header total_i (unhex hash_i)) opsp in
    first_of [
      (* the property on the implementation's answers *)
      viol (added_ok cs opsp res_i) 5;                             (* added => i-th chunk *)
      viol (negb complete_i || bytes_eqb (unhex out_i) d) 6;       (* complete => original bytes *)
      mism (ps_total m =? total_i) 19;
      mism (bytes_eqb (ps_hash m) (unhex hash_i)) 20;
      mism (list_eqb part_eqb
              (flat_map (fun o => match o with Some p => [p] | None => [] end) (ps_parts m))
              (map mk_part parts_i)) 21;
      mism (list_eqb N.eqb res_m res_i) 22;
      mism (Bool.eqb (is_complete fin) complete_i) 23;
      mism (negb complete_i || bytes_eqb (reassemble fin) (unhex out_i)) 24 ]
  end.
