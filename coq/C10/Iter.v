(* C10 — HashFromByteSlicesIterative (bottom-up pairing) computes the same root as
   HashFromByteSlices (top-down split at the largest power of two below n), for every item
   list.  The statement is in Props.v. *)
From Coq Require Import List ZArith NArith Bool Lia Arith.
From TM Require Import Common.Hex Generated.Consts C10.Model C10.Proofs.
Import ListNotations.
Open Scope Z_scope.

(* ---------------------------------------------------------------- the split point, by its spec *)

(* k is the split point of n  iff  k is a power of two with k < n <= 2k *)
Lemma split_point_unique n e : 0 <= e -> 2 ^ e < n <= 2 * 2 ^ e -> split_point n = 2 ^ e.
Proof.
  intros He [Hlo Hhi]. unfold split_point.
  assert (Hpos : 0 < 2 ^ e) by (apply Z.pow_pos_nonneg; lia).
  assert (HS : 2 ^ (e + 1) = 2 * 2 ^ e) by (rewrite Z.pow_add_r by lia; rewrite Z.pow_1_r; lia).
  destruct (Z.eq_dec n (2 * 2 ^ e)) as [E|NE].
  - assert (HL : Z.log2 n = e + 1).
    { apply Z.log2_unique; [lia|]. rewrite HS.
      replace (Z.succ (e + 1)) with ((e + 1) + 1) by lia.
      rewrite (Z.pow_add_r 2 (e + 1) 1) by lia. rewrite Z.pow_1_r, HS. lia. }
    rewrite HL, HS. rewrite <- E, Z.eqb_refl. rewrite E.
    rewrite Z.mul_comm, Z.div_mul by lia. reflexivity.
  - assert (HL : Z.log2 n = e).
    { apply Z.log2_unique; [lia|]. replace (Z.succ e) with (e + 1) by lia. rewrite HS. lia. }
    rewrite HL. destruct (2 ^ e =? n) eqn:E; [apply Z.eqb_eq in E; lia | reflexivity].
Qed.

Lemma split_point_spec n : 2 <= n ->
  exists e, 0 <= e /\ split_point n = 2 ^ e /\ 2 ^ e < n <= 2 * 2 ^ e.
Proof.
  intro Hn.
  assert (Hl : 1 <= Z.log2 n) by (apply Z.log2_le_pow2; [lia | rewrite Z.pow_1_r; lia]).
  destruct (Z.log2_spec n) as [Hlo Hhi]; [lia|].
  assert (Hp : 2 ^ Z.log2 n = 2 * 2 ^ (Z.log2 n - 1)).
  { rewrite <- Z.pow_succ_r by lia. f_equal. lia. }
  assert (HS : 2 ^ Z.succ (Z.log2 n) = 2 * 2 ^ Z.log2 n) by (rewrite Z.pow_succ_r by lia; reflexivity).
  unfold split_point. destruct (2 ^ Z.log2 n =? n) eqn:E.
  - apply Z.eqb_eq in E. exists (Z.log2 n - 1). split; [lia|]. split.
    + rewrite Hp. rewrite Z.mul_comm, Z.div_mul by lia. reflexivity.
    + assert (0 < 2 ^ (Z.log2 n - 1)) by (apply Z.pow_pos_nonneg; lia). lia.
  - apply Z.eqb_neq in E. exists (Z.log2 n). split; [lia|]. split; [reflexivity|lia].
Qed.

(* halving: the split point of ceil(n/2) is half the split point of n *)
Lemma split_point_half n : 3 <= n ->
  split_point ((n + 1) / 2) = split_point n / 2 /\ (split_point n) mod 2 = 0 /\ 2 <= split_point n.
Proof.
  intro Hn. destruct (split_point_spec n ltac:(lia)) as (e & He & Hsp & Hlo & Hhi).
  assert (He1 : 1 <= e).
  { destruct (Z.eq_dec e 0) as [->|]; [|lia]. rewrite Z.pow_0_r in *. lia. }
  assert (Hp : 2 ^ e = 2 * 2 ^ (e - 1)).
  { rewrite <- Z.pow_succ_r by lia. f_equal. lia. }
  assert (Hpos : 0 < 2 ^ (e - 1)) by (apply Z.pow_pos_nonneg; lia).
  rewrite Hsp, Hp. rewrite (Z.mul_comm 2), Z.div_mul by lia.
  split; [|split].
  - apply split_point_unique; [lia|].
    set (q := 2 ^ (e - 1)) in *. clearbody q.
    assert (Hd := Z.div_mod (n + 1) 2 ltac:(lia)).
    assert (Hm := Z.mod_pos_bound (n + 1) 2 ltac:(lia)). lia.
  - rewrite Z.mod_mul by lia. reflexivity.
  - lia.
Qed.

Section Iterative.
Variable H : bytes -> bytes.

Notation leaf_hash := (leaf_hash H).
Notation inner_hash := (inner_hash H).
Notation root := (root H).
Notation root_f := (root_f H).
Notation pair_up := (pair_up H).
Notation iter_f := (iter_f H).

(* the top-down tree over a list of hashes (leaves are taken as they are) *)
Fixpoint td_f (fuel : nat) (hs : list bytes) : bytes :=
  match hs with
  | [] => empty_hash H
  | [h] => h
  | _ =>
    match fuel with
    | O => []
    | S f =>
      let k := Z.to_nat (split_point (Z.of_nat (length hs))) in
      inner_hash (td_f f (firstn k hs)) (td_f f (skipn k hs))
    end
  end.
Definition td (hs : list bytes) : bytes := td_f (length hs) hs.

Lemma td_f_small f f' hs : (length hs <= 1)%nat -> td_f f hs = td_f f' hs.
Proof. destruct hs as [|x [|y r]]; cbn; intro Hl; try lia; destruct f, f'; reflexivity. Qed.

Lemma td_f_S f hs :
  (2 <= length hs)%nat ->
  td_f (S f) hs =
  inner_hash (td_f f (firstn (Z.to_nat (split_point (Z.of_nat (length hs)))) hs))
             (td_f f (skipn (Z.to_nat (split_point (Z.of_nat (length hs)))) hs)).
Proof. destruct hs as [|x [|y r]]; cbn [length]; intro Hl; try lia. reflexivity. Qed.

Lemma split_nat' (hs : list bytes) :
  (2 <= length hs)%nat ->
  (0 < Z.to_nat (split_point (Z.of_nat (length hs))) < length hs)%nat.
Proof. intro Hn. pose proof (split_point_bounds (Z.of_nat (length hs))). lia. Qed.

Lemma td_f_indep : forall f hs f',
  (length hs <= f)%nat -> (length hs <= f')%nat -> td_f f hs = td_f f' hs.
Proof.
  induction f as [|f IH]; intros hs f' Hf Hf'.
  - apply td_f_small. lia.
  - destruct (le_lt_dec (length hs) 1) as [Hs|Hb]; [apply td_f_small; exact Hs|].
    destruct f' as [|f']; [lia|].
    pose proof (split_nat' hs ltac:(lia)) as Hk.
    rewrite !td_f_S by lia.
    f_equal; apply IH; rewrite ?firstn_length, ?skipn_length; lia.
Qed.

Lemma td_split hs :
  (2 <= length hs)%nat ->
  td hs = inner_hash (td (firstn (Z.to_nat (split_point (Z.of_nat (length hs)))) hs))
                     (td (skipn (Z.to_nat (split_point (Z.of_nat (length hs)))) hs)).
Proof.
  intro Hn. pose proof (split_nat' hs Hn) as Hk. unfold td at 1.
  destruct (length hs) as [|n] eqn:En; [lia|].
  rewrite td_f_S by lia. rewrite En.
  f_equal; unfold td; apply td_f_indep; rewrite ?firstn_length, ?skipn_length; lia.
Qed.

(* the recursive root is the top-down tree over the leaf hashes *)
Lemma root_f_td : forall f items, root_f f items = td_f f (map leaf_hash items).
Proof.
  induction f as [|f IH]; intro items.
  - destruct items as [|x [|y r]]; reflexivity.
  - destruct items as [|x [|y r]]; [reflexivity|reflexivity|].
    rewrite root_f_S by (cbn [length]; lia).
    rewrite td_f_S by (rewrite map_length; cbn [length]; lia).
    rewrite map_length, firstn_map, skipn_map, !IH. reflexivity.
Qed.

Lemma root_td items : root items = td (map leaf_hash items).
Proof. unfold Model.root, td. rewrite map_length. apply root_f_td. Qed.

(* ---------------------------------------------------------------- one pairing pass *)

Lemma pair_up_length : forall n (hs : list bytes), (length hs <= n)%nat ->
  Z.of_nat (length (pair_up hs)) = (Z.of_nat (length hs) + 1) / 2.
Proof.
  induction n as [|n IH]; intros hs Hn.
  - destruct hs; [reflexivity | cbn in Hn; lia].
  - destruct hs as [|a [|b r]]; [reflexivity | reflexivity |].
    cbn [Model.pair_up]. cbn [length] in *.
    rewrite Nat2Z.inj_succ. rewrite IH by lia.
    replace (Z.of_nat (S (S (length r))) + 1) with (1 * 2 + (Z.of_nat (length r) + 1)) by lia.
    rewrite Z.div_add_l by lia. lia.
Qed.

Lemma pair_up_app_even : forall n (l r : list bytes), length l = (2 * n)%nat ->
  pair_up (l ++ r) = pair_up l ++ pair_up r.
Proof.
  induction n as [|n IH]; intros l r Hl.
  - destruct l; [reflexivity | cbn in Hl; lia].
  - destruct l as [|a [|b l]]; cbn [length] in Hl; try lia.
    cbn [app Model.pair_up]. f_equal. apply IH. lia.
Qed.

(* a pairing pass does not change the top-down tree *)
Lemma td_pair_up : forall n (hs : list bytes), (length hs <= n)%nat -> (1 <= length hs)%nat ->
  td (pair_up hs) = td hs.
Proof.
  induction n as [|n IH]; intros hs Hn H1; [lia|].
  destruct (le_lt_dec (length hs) 1) as [Hs|Hb].
  { destruct hs as [|a [|b r]]; cbn [length] in *; try lia. reflexivity. }
  destruct (le_lt_dec (length hs) 2) as [H2|H3].
  { destruct hs as [|a [|b [|c r]]]; cbn [length] in *; try lia. reflexivity. }
  (* length >= 3 *)
  set (N := Z.of_nat (length hs)).
  assert (HN : 3 <= N) by (subst N; lia).
  destruct (split_point_half N HN) as (Hhalf & Heven & Hk2).
  pose proof (split_point_bounds N ltac:(lia)) as Hkb.
  set (k := Z.to_nat (split_point N)).
  assert (Hk : Z.of_nat k = split_point N) by (subst k; lia).
  assert (Hkn : (2 <= k < length hs)%nat) by lia.
  assert (Hev : exists m, k = (2 * m)%nat).
  { exists (Z.to_nat (split_point N / 2)).
    assert (Hd := Z.div_mod (split_point N) 2 ltac:(lia)). lia. }
  destruct Hev as [m Hm].
  rewrite (td_split hs) by lia. fold N. fold k.
  assert (Hsplit : hs = firstn k hs ++ skipn k hs) by (symmetry; apply firstn_skipn).
  assert (Hfl : length (firstn k hs) = k) by (rewrite firstn_length; lia).
  assert (Hsl : length (skipn k hs) = (length hs - k)%nat) by (apply skipn_length).
  assert (Hpu : pair_up hs = pair_up (firstn k hs) ++ pair_up (skipn k hs)).
  { rewrite Hsplit at 1. apply (pair_up_app_even m). lia. }
  assert (HLl := pair_up_length (length (firstn k hs)) (firstn k hs) (le_n _)).
  assert (HLr := pair_up_length (length (skipn k hs)) (skipn k hs) (le_n _)).
  assert (HLh := pair_up_length (length hs) hs (le_n _)).
  fold N in HLh.
  assert (Hlenl : length (pair_up (firstn k hs)) = m).
  { rewrite Hfl in HLl. assert (Hd := Z.div_mod (Z.of_nat k + 1) 2 ltac:(lia)).
    assert (Hmm := Z.mod_pos_bound (Z.of_nat k + 1) 2 ltac:(lia)). lia. }
  assert (Hm2 : Z.of_nat m = split_point N / 2).
  { assert (Hd := Z.div_mod (split_point N) 2 ltac:(lia)). lia. }
  assert (Hlen2 : (2 <= length (pair_up hs))%nat).
  { assert (Hd := Z.div_mod (N + 1) 2 ltac:(lia)).
    assert (Hmm := Z.mod_pos_bound (N + 1) 2 ltac:(lia)). lia. }
  rewrite (td_split (pair_up hs)) by exact Hlen2.
  rewrite HLh, Hhalf, <- Hm2, Nat2Z.id.
  rewrite Hpu.
  rewrite firstn_app, skipn_app, Hlenl, Nat.sub_diag.
  rewrite (firstn_all2 (pair_up (firstn k hs))) by lia.
  rewrite (skipn_all2 (pair_up (firstn k hs))) by lia.
  rewrite firstn_O, skipn_O, app_nil_r, app_nil_l.
  rewrite (IH (firstn k hs)) by lia.
  rewrite (IH (skipn k hs)) by lia.
  reflexivity.
Qed.

(* ---------------------------------------------------------------- the iteration *)

Lemma iter_f_td : forall f (hs : list bytes), (length hs <= f)%nat -> iter_f f hs = td hs.
Proof.
  induction f as [|f IH]; intros hs Hf.
  - destruct hs; [reflexivity | cbn in Hf; lia].
  - destruct hs as [|a [|b r]]; [reflexivity | reflexivity |].
    cbn [Model.iter_f].
    assert (HL := pair_up_length _ (a :: b :: r) (le_n _)).
    rewrite IH.
    + apply (td_pair_up (length (a :: b :: r))); cbn [length]; lia.
    + cbn [length] in *.
      assert (Hd := Z.div_mod (Z.of_nat (S (S (length r))) + 1) 2 ltac:(lia)).
      assert (Hmm := Z.mod_pos_bound (Z.of_nat (S (S (length r))) + 1) 2 ltac:(lia)). lia.
Qed.

Theorem iterative_eq_recursive (items : list bytes) : root_iterative H items = root items.
Proof.
  unfold root_iterative. rewrite root_td.
  apply iter_f_td. rewrite map_length. lia.
Qed.

End Iterative.
