(* C05 (part A) — the FULL saved state and the FULL saved responses across crashes.
   Proofs about C05/ModelState.v (the extension of C05/Model.v by an arbitrary state type and
   arbitrary response payloads).  Stated in C05/Props.v (theorems C05_full_..., C05_state_..., C05_responses_...). *)
From Coq Require Import List ZArith NArith Bool Lia Arith.
From TM Require Import C05.Model C05.Proofs C05.ModelState.
Import ListNotations.
Open Scope Z_scope.

(* what the theorems need to know about updateState and about the InitChain branch:
   - updateState does not read the BeginBlock response (state/execution.go updateState reads
     abciResponses.EndBlock.{ValidatorUpdates (through validatorUpdates), ConsensusParamUpdates} and,
     in ABCIResponsesResultsHash, abciResponses.DeliverTxs; nothing else of the responses);
   - applying the InitChain branch twice is the same as applying it once (it assigns AppHash,
     Validators, NextValidators, Version, LastResultsHash from the response and overrides the
     parameters named in the response: consensus/replay.go ReplayBlocks, types.UpdateConsensusParams). *)
Definition reads_no_begin (F : fullsem) : Prop :=
  forall st b (r r' : fresp (BPay F) (DPay F) (EPay F)),
    f_delivers r = f_delivers r' -> f_end r = f_end r' -> upd F st b r = upd F st b r'.

(* ... or the mock application replays the saved BeginBlock response too (repair F74): then
   nothing needs to be known about updateState *)
Definition replay_faithful (F : fullsem) : Prop :=
  reads_no_begin F \/ mock_keeps_begin F = true.

Definition init_idempotent (F : fullsem) : Prop :=
  forall st h, upd_init F (upd_init F st h) h = upd_init F st h.

(* no crash, no application restore, one node start at the very beginning *)
Definition is_calm (o : mop) : bool :=
  match o with MCommit _ | MStep => true | _ => false end.
Definition crash_free (ops : list mop) : Prop :=
  exists r, ops = MRestart :: r /\ forallb is_calm r = true.

(* the "free" state: the log of every (block, DeliverTx responses, EndBlock response) with which
   updateState was called and whose result was saved *)
Definition history_sem (F : fullsem) : fullsem :=
  {| BPay := BPay F; DPay := DPay F; EPay := EPay F;
     pbegin := pbegin F; pdeliver := pdeliver F; pend := pend F; bp0 := bp0 F; ep0 := ep0 F;
     mock_keeps_begin := mock_keeps_begin F;
     FSt := list (block * list (N * DPay F) * EPay F);
     upd := fun st b r => st ++ [(b, f_delivers r, f_end r)];
     set_hash := fun st _ => st;
     upd_init := fun st _ => st;
     st0 := [] |}.

Section PS.
Variable A : appsem.
Variable F : fullsem.

Notation fresp := (fresp (BPay F) (DPay F) (EPay F)).
Notation ext := (ext F).
Notation xworld := (xworld F).
Notation xstep := (xstep A F).
Notation xdo_op := (xdo_op A F).
Notation xrun := (xrun A F).
Notation xreach := (xreach A F).
Notation gdeliver_all := (gdeliver_all A F).
Notation gexec_resp := (gexec_resp A F).
Notation gref_from := (gref_from A F).
Notation gref_chain := (gref_chain A F).
Notation Inv := (Inv A).
Notation racc := (racc A).
Notation rcodes := (rcodes A).
Notation reach := (reach A).

(* ---------------------------------------------------------------- simulation (by construction) *)

Lemma xdo_op_fst : forall (x : xworld) o, fst (xdo_op x o) = do_op A (fst x) o.
Proof. intros x o. destruct o; reflexivity. Qed.

Lemma xrun_fst : forall ops (x : xworld), fst (xrun ops x) = run A ops (fst x).
Proof.
  induction ops as [|o r IH]; intros x; cbn; [reflexivity|].
  unfold ModelState.xrun in IH. rewrite IH, xdo_op_fst. reflexivity.
Qed.

Lemma xreach_fst : forall ops, fst (xreach ops) = reach ops.
Proof. intros. unfold ModelState.xreach. rewrite xrun_fst. reflexivity. Qed.

(* ---------------------------------------------------------------- the reference *)

Lemma gdeliver_codes : forall txs acc, map fst (gdeliver_all acc txs) = snd (deliver_all A acc txs).
Proof.
  induction txs as [|t r IH]; intros acc; cbn; [reflexivity|].
  rewrite IH. destruct (adeliver A acc t) as [a c]. cbn. destruct (deliver_all A a r); reflexivity.
Qed.

Lemma gdeliver_length : forall txs acc, length (gdeliver_all acc txs) = length txs.
Proof. induction txs as [|t r IH]; intros acc; cbn; [reflexivity|]. rewrite IH. reflexivity. Qed.

Lemma gdeliver_snoc : forall txs acc t,
  gdeliver_all acc (txs ++ [t]) =
  gdeliver_all acc txs ++
  [(snd (adeliver A (fst (deliver_all A acc txs)) t), pdeliver F (fst (deliver_all A acc txs)) t)].
Proof.
  induction txs as [|x r IH]; intros acc t; cbn; [reflexivity|].
  rewrite IH. destruct (adeliver A acc x) as [a c]. cbn. destruct (deliver_all A a r); reflexivity.
Qed.

Definition gresp (S : list block) (i : nat) (b : block) : fresp := gexec_resp (racc S i) b.
Definition gstate (S : list block) (n : nat) : FSt F := gref_chain (firstn n S).

Lemma exec_chain_fst : forall S acc c c', fst (exec_chain A acc c S) = fst (exec_chain A acc c' S).
Proof.
  induction S as [|b r IH]; intros acc c c'; cbn; [reflexivity|].
  destruct (exec_block A acc b). apply IH.
Qed.

Lemma gref_from_snoc : forall S acc st b c,
  gref_from acc st (S ++ [b]) =
  let a1 := fst (exec_chain A acc c S) in
  set_hash F (upd F (gref_from acc st S) b (gexec_resp a1 b)) (enc (fst (exec_block A a1 b))).
Proof.
  induction S as [|x r IH]; intros acc st b c; cbn; [reflexivity|].
  rewrite (IH _ _ _ c). cbn zeta.
  destruct (exec_block A acc x) as [a cx] eqn:E. cbn [fst].
  rewrite (exec_chain_fst r a cx c). reflexivity.
Qed.

Lemma gstate_0 : forall S, gstate S 0 = upd_init F (st0 F) (enc (ainit A)).
Proof. reflexivity. Qed.

Lemma gstate_step : forall S n b, nth_error S n = Some b ->
  gstate S (Datatypes.S n) =
  set_hash F (upd F (gstate S n) b (gresp S n b)) (enc (racc S (Datatypes.S n))).
Proof.
  intros S n b H. unfold gstate, ModelState.gref_chain. rewrite (firstn_snoc_nth _ _ _ _ H).
  rewrite (gref_from_snoc _ _ _ _ []). cbn zeta.
  pose proof (ref_step A _ _ _ H) as R. unfold gresp.
  change (fst (exec_chain A (ainit A) [] (firstn n S))) with (racc S n).
  rewrite R. reflexivity.
Qed.

Lemma gstate_app : forall S b n, (n <= length S)%nat -> gstate (S ++ [b]) n = gstate S n.
Proof.
  intros. unfold gstate. rewrite firstn_app. replace (n - length S)%nat with O by lia.
  cbn. rewrite app_nil_r. reflexivity.
Qed.

Lemma gresp_app : forall S b i x, (i <= length S)%nat -> gresp (S ++ [b]) i x = gresp S i x.
Proof. intros. unfold gresp. rewrite racc_app by lia. reflexivity. Qed.

Lemma gresp_codes : forall S i b, nth_error S i = Some b ->
  map fst (f_delivers (gresp S i b)) = rcodes S (Datatypes.S i).
Proof.
  intros S i b H. unfold gresp, ModelState.gexec_resp. cbn [f_delivers]. rewrite gdeliver_codes.
  pose proof (ref_step A _ _ _ H) as R. unfold Model.exec_block in R. rewrite R. reflexivity.
Qed.

(* ---------------------------------------------------------------- the invariant of the extension *)

Definition shof (w : world) : nat := Z.to_nat (s_height (w_state w)).

(* same DeliverTx and EndBlock responses; the BeginBlock response is the same or the mock's *)
Definition sim (r r' : fresp) : Prop :=
  f_delivers r = f_delivers r' /\ f_end r = f_end r' /\
  (f_begin r = f_begin r' \/ (mock_keeps_begin F = false /\ f_begin r = bp0 F)).

Definition st_ok (w : world) (e : ext) : Prop :=
  x_st e = if s_apphash (w_state w) =? EMPTY then st0 F else gstate (w_store w) (shof w).

Definition resp_ok (w : world) (e : ext) : Prop :=
  match x_resp e with
  | None => w_resp w = None
  | Some (h, r) =>
    w_resp w = Some (h, map fst (f_delivers r)) /\
    exists i b, nth_error (w_store w) i = Some b /\ h = Z.of_nat i + 1 /\ sim r (gresp (w_store w) i b)
  end.

(* pcs at which no responses are under construction *)
Definition fresh (p : pc) : bool :=
  match p with
  | PDeliver _ _ _ _ | PEnd _ _ _ | PCommit _ _ _ | PSaveState _ _ _ _ => false
  | PSaveResp k _ _ => match k with KMock _ => true | _ => false end
  | _ => true
  end.

Definition Epc (w : world) (e : ext) : Prop :=
  let a := w_app w in
  match w_pc w with
  | PDeliver k b rest _ =>
    f_begin (x_acc e) = pbegin F (a_acc a) b /\
    forall done, b_txs b = done ++ rest ->
      f_delivers (x_acc e) = gdeliver_all (abegin A (a_acc a) (b_height b)) done
  | PEnd k b _ =>
    f_begin (x_acc e) = pbegin F (a_acc a) b /\
    f_delivers (x_acc e) = gdeliver_all (abegin A (a_acc a) (b_height b)) (b_txs b)
  | PSaveResp k b _ =>
    match k with KLoop _ _ => True | _ => sim (x_acc e) (gresp (w_store w) (shof w) b) end
  | PCommit k b _ =>
    match k with
    | KLoop _ _ => True
    | _ => sim (x_acc e) (gresp (w_store w) (shof w) b) /\ x_resp e = Some (b_height b, x_acc e)
    end
  | PSaveState k b _ _ =>
    sim (x_acc e) (gresp (w_store w) (shof w) b) /\ x_resp e = Some (b_height b, x_acc e)
  | _ => True
  end.

Definition XInv (x : xworld) : Prop :=
  Inv (fst x) /\ st_ok (fst x) (snd x) /\ resp_ok (fst x) (snd x) /\ Epc (fst x) (snd x).

Lemma inv_sh : forall (w : world) sh,
  (w_state w = ref_state A (w_store w) sh \/
     (sh = 0%nat /\ length (w_store w) = 0%nat /\ w_state w = genesis_state)) ->
  shof w = sh.
Proof. intros w sh H. unfold shof. rewrite (state_height A _ _ H). lia. Qed.

Lemma st_ok_ref : forall (w : world) e sh, w_state w = ref_state A (w_store w) sh ->
  (st_ok w e <-> x_st e = gstate (w_store w) sh).
Proof.
  intros w e sh H. unfold st_ok, shof. rewrite H, ref_state_eq. cbn [s_apphash s_height].
  rewrite enc_nonempty, Nat2Z.id. tauto.
Qed.

Lemma st_ok_gen : forall (w : world) e, w_state w = genesis_state -> (st_ok w e <-> x_st e = st0 F).
Proof. intros w e H. unfold st_ok. rewrite H. cbn. tauto. Qed.

Lemma enter_replay_last_fresh : forall w, fresh (enter_replay_last w) = true.
Proof.
  intros. unfold enter_replay_last, enter_apply. destruct (load_block _ _); [|reflexivity].
  destruct (validate_block _ _); reflexivity.
Qed.

Lemma loop_next_fresh : forall w i h f m, fresh (loop_next w i h f m) = true.
Proof.
  intros. unfold loop_next. destruct (i <=? f).
  - destruct (load_block _ _); [|reflexivity]. destruct (_ && _); reflexivity.
  - destruct m; [apply enter_replay_last_fresh|]. destruct (_ =? _); reflexivity.
Qed.

Lemma dispatch_fresh : forall w h, fresh (dispatch w h) = true.
Proof.
  intros. unfold dispatch.
  repeat match goal with
         | |- fresh (if ?c then _ else _) = true => destruct c
         | |- fresh (match ?c with Some _ => _ | None => _ end) = true => destruct c
         | |- fresh (let '(_, _) := ?c in _) = true => destruct c
         end; try reflexivity; try apply loop_next_fresh; try apply enter_replay_last_fresh.
Qed.

Ltac ssplit := repeat match goal with |- _ /\ _ => split end.

Lemma st_ok_acc : forall w e r, st_ok w (set_acc F e r) <-> st_ok w e.
Proof. intros. unfold st_ok. cbn. tauto. Qed.

Lemma resp_ok_acc : forall w e r, resp_ok w (set_acc F e r) <-> resp_ok w e.
Proof. intros. unfold resp_ok. cbn. tauto. Qed.

(* the handshake's mock application, built from the SAVED responses, answers what the real
   application answered when it executed the block (except for BeginBlock) *)
Lemma mock_ok : forall w e h b codes, Inv w -> resp_ok w e -> w_pc w = PSaveResp (KMock h) b codes ->
  sim (mock_replay F (x_resp e) b) (gresp (w_store w) (shof w) b).
Proof.
  intros w e h b codes (sh & ah & C & Hn & Hst & Hah & Hle & Hacc & Hsn & Hrr & Hw & P) Hr E.
  rewrite E in P. cbn in P. destruct P as (Id & Jn & Hs & Ha & Hb & Hcd & Hh).
  rewrite (inv_sh _ _ Hst).
  assert (Hrr' := Hrr Hs Ha). clear Hrr.
  unfold resp_ok in Hr. destruct (x_resp e) as [[rh r]|].
  - destruct Hr as (Hw1 & i & b' & Hb' & Hrh & Hsim). rewrite Hrr' in Hw1. injection Hw1 as Eh Ec.
    assert (i = sh) by lia. subst i. rewrite Hb in Hb'. injection Hb' as <-.
    destruct Hsim as (S1 & S2 & S3). unfold sim, mock_replay. cbn [f_begin f_delivers f_end].
    ssplit; [|exact S2|].
    2: { destruct (mock_keeps_begin F); [|right; split; reflexivity].
         destruct S3 as [S3|(Hf & _)]; [left; exact S3|discriminate]. }
    rewrite S1. apply firstn_all2. unfold gresp, ModelState.gexec_resp. cbn [f_delivers].
    rewrite gdeliver_length. lia.
  - rewrite Hrr' in Hr. discriminate.
Qed.

Lemma close : forall w e, Inv w -> st_ok w e -> resp_ok w e ->
  (fresh (w_pc w) = true \/ (fresh (w_pc w) = false /\ Epc w e)) ->
  XInv (w, after_dispatch F (w_pc w) e).
Proof.
  intros w e HI Hs Hr [Fr|(Fr & Hp)]; unfold XInv; cbn [fst snd].
  - destruct (w_pc w) eqn:E; try discriminate; cbn [after_dispatch];
      try (ssplit; auto; unfold Epc; rewrite E; exact I).
    destruct k; try discriminate.
    split; [exact HI|]. split; [apply st_ok_acc; exact Hs|]. split; [apply resp_ok_acc; exact Hr|].
    unfold Epc. rewrite E. cbn [set_acc x_acc]. eapply mock_ok; eauto.
  - destruct (w_pc w) eqn:E; try discriminate; try (destruct k; try discriminate);
      cbn [after_dispatch]; ssplit; auto.
Qed.

Section Hyp.
Hypothesis RB : replay_faithful F.
Hypothesis II : init_idempotent F.

Lemma upd_sim : forall st b r r', sim r r' -> upd F st b r = upd F st b r'.
Proof.
  intros st b r r' (S1 & S2 & S3). destruct RB as [H|K]; [apply H; assumption|].
  destruct S3 as [S3|(Hf & _)]; [|congruence].
  destruct r, r'. cbn in *. subst. reflexivity.
Qed.

Lemma sim_refl : forall r, sim r r.
Proof. intros. unfold sim. auto. Qed.

Lemma xstep_inv : forall x, XInv x -> XInv (xstep x).
Proof.
  intros [w e] (HI & Hs & Hr & Hp). cbn [fst snd] in *.
  pose proof (step_inv A w HI) as HI'.
  unfold ModelState.xstep. cbn [fst snd].
  destruct HI as (sh & ah & C & Hn & Hst & Hah & Hle & Hacc & Hsn & Hrr & Hw & P).
  pose proof (inv_sh _ _ Hst) as Hsh.
  unfold step in HI' |- *. unfold xstep_ext. unfold Epc in Hp.
  destruct (w_pc w) eqn:Epc_; cbn [pcinv] in P.
  - (* PDown *) apply close; auto. left. rewrite Epc_. reflexivity.
  - contradiction.
  - (* PIdle *) apply close; auto. left. rewrite Epc_. reflexivity.
  - (* PSaveBlock *)
    destruct P as (Id & Jn & Hs' & Ha & Ft & St).
    apply close; [exact HI'| | |left; reflexivity].
    + unfold st_ok, shof in *. cbn [w_state w_store]. rewrite gstate_app; [exact Hs|lia].
    + unfold resp_ok in *. cbn [w_resp w_store]. destruct (x_resp e) as [[h r]|]; [|exact Hr].
      destruct Hr as (H1 & i & b' & Hb' & Hh & Hsim). split; [exact H1|].
      pose proof (nth_lt _ _ _ _ Hb') as Hlt.
      exists i, b'. ssplit; auto.
      * rewrite nth_error_app1; [exact Hb'|exact Hlt].
      * rewrite gresp_app; [exact Hsim|lia].
  - (* PWalEnd *)
    apply close; [exact HI'|exact Hs|exact Hr|left].
    cbn [w_pc set_pc]. unfold enter_apply. destruct (validate_block _ _); reflexivity.
  - (* PBegin *)
    destruct P as ((Iw & Ic) & Jn & i & Hb & Hi & Hk).
    apply close; [exact HI'|exact Hs|exact Hr|right].
    cbn [w_pc set_app]. unfold Epc. cbn [w_pc set_app w_app app_begin a_acc].
    unfold next_deliver. destruct (b_txs b) as [|t r] eqn:Et; (split; [reflexivity|]);
      cbn [set_acc x_acc f_begin f_delivers]; rewrite Iw; (split; [reflexivity|]).
    + rewrite Et. reflexivity.
    + intros done Hd. assert (done = []) as ->; [|reflexivity].
      apply (app_inv_tail (t :: r) done []). rewrite <- Hd. exact Et.
  - (* PDeliver *)
    destruct P as (i & done & Hb & Hi & Hk & Ht & Hne & Hd & Hc & Jn).
    destruct rest as [|t rest']; [congruence|].
    destruct Hp as (Hp1 & Hp2).
    unfold app_deliver in HI' |- *. destruct (adeliver A (a_work (w_app w)) t) as [wk c] eqn:Ead.
    apply close; [exact HI'|exact Hs|exact Hr|right].
    cbn [w_pc set_app]. unfold Epc. cbn [w_pc set_app w_app a_acc].
    cbn [set_acc x_acc f_begin f_delivers snd].
    assert (G : forall done', b_txs b = done' ++ rest' ->
              f_delivers (x_acc e) ++ [(c, pdeliver F (a_work (w_app w)) t)] =
              gdeliver_all (abegin A (a_acc (w_app w)) (b_height b)) done').
    { intros done' Hd'. assert (done' = done ++ [t]) as ->.
      { apply (app_inv_tail rest'). rewrite <- Hd', Ht, <- app_assoc. reflexivity. }
      rewrite gdeliver_snoc, Hd. cbn [fst]. rewrite Ead. cbn [snd].
      rewrite (Hp2 _ Ht). reflexivity. }
    unfold next_deliver. destruct rest' as [|t2 r2]; (split; [reflexivity|]); (split; [exact Hp1|]).
    + apply G. rewrite app_nil_r. reflexivity.
    + exact G.
  - (* PEnd *)
    destruct P as (i & Hb & Hi & Hk & He & Hc & Jn). subst i.
    destruct Hp as (Hp1 & Hp2).
    apply close; [exact HI'|exact Hs|exact Hr|right].
    cbn [w_pc set_app]. destruct k; cbn [ctx_ok] in Hk; try contradiction;
      (split; [reflexivity|]); unfold Epc; cbn [w_pc set_app w_store]; try exact I.
    all: destruct Hk as (Hk1 & Hk2); subst ah;
      change (shof (set_app w (app_end (w_app w) (b_height b)) (PSaveResp _ b codes))) with (shof w);
      rewrite Hsh; cbn [set_acc x_acc];
      unfold sim, gresp, ModelState.gexec_resp; cbn [f_begin f_delivers f_end];
      rewrite <- Hacc; unfold Model.exec_block in He; rewrite He; cbn [fst];
      ssplit; auto.
  - (* PSaveResp *)
    destruct k; try contradiction.
    1,2: destruct P as (i & Hb & Hi & Hk & He & Hc & Jn); subst i;
      destruct Hk as (Hk1 & Hk2); subst ah; rewrite Hsh in Hp;
      pose proof (ref_step A _ _ _ Hb) as R; rewrite <- Hacc, He in R; injection R as Rw Rc;
      pose proof (fits_height A _ _ _ C Hb) as Hbh;
      (apply close; [exact HI'|exact Hs| |right]);
      [ unfold resp_ok; cbn [x_resp w_resp w_store]; split;
        [ destruct Hp as (S1 & _); rewrite S1, (gresp_codes _ _ _ Hb), Rc; reflexivity
        | exists sh, b; ssplit; auto ]
      | split; [reflexivity|]; unfold Epc; cbn [w_pc w_store x_acc x_resp];
        match goal with |- sim _ (gresp _ (shof ?w') _) /\ _ => change (shof w') with (shof w) end;
        rewrite Hsh; split; [exact Hp|reflexivity] ].
    destruct P as (Id & Jn & Hs' & Ha & Hb & Hcd & Hh). rewrite Hsh in Hp.
    pose proof (fits_height A _ _ _ C Hb) as Hbh.
    apply close; [exact HI'|exact Hs| |right].
    + unfold resp_ok. cbn [x_resp w_resp w_store]. split.
      * destruct Hp as (S1 & _). rewrite S1, (gresp_codes _ _ _ Hb), Hcd, Hs'. reflexivity.
      * exists sh, b. ssplit; auto.
    + split; [reflexivity|]. unfold Epc. cbn [w_pc w_store x_acc x_resp].
      match goal with |- sim _ (gresp _ (shof ?w') _) /\ _ => change (shof w') with (shof w) end.
      rewrite Hsh. split; [exact Hp|reflexivity].
  - (* PCommit *)
    destruct (app_commit (w_app w)) as [a' h'].
    destruct k.
    1,2,3: (apply close; [exact HI'|exact Hs|exact Hr|right]); split; [reflexivity|];
      unfold Epc; cbn [w_pc set_app w_store];
      match goal with |- sim _ (gresp _ (shof ?w') _) /\ _ => change (shof w') with (shof w) end;
      exact Hp.
    apply close; [exact HI'|exact Hs|exact Hr|left]. cbn [w_pc set_pc]. apply loop_next_fresh.
  - (* PSaveState *)
    assert (LD : last_done A (w_store w) (length (w_store w)) sh ah (w_app w) b codes hash).
    { destruct k; try contradiction; destruct P as (P & _); exact P. }
    destruct LD as (Id & Jn & Hs' & Ha & Hb & Hcd & Hh).
    pose proof (fits_height A _ _ _ C Hb) as Hbh.
    destruct Hp as (Hp1 & Hp2). rewrite Hsh in Hp1.
    assert (St : w_state w = ref_state A (w_store w) sh) by (apply not_genesis; [exact Hst|lia]).
    apply (st_ok_ref _ _ _ St) in Hs.
    apply close; [exact HI'| |exact Hr|left; reflexivity].
    unfold st_ok, shof. cbn [w_state set_state s_apphash s_height w_store x_st].
    rewrite Hh, enc_nonempty, Hbh.
    replace (Z.to_nat (Z.of_nat sh + 1)) with (Datatypes.S sh) by lia.
    rewrite (gstate_step _ _ _ Hb), Hs', Hs.
    rewrite (upd_sim _ b _ _ Hp1). reflexivity.
  - (* PInitChain *)
    destruct (s_height (w_state w) =? 0).
    + apply close; [exact HI'|exact Hs|exact Hr|left; reflexivity].
    + apply close; [exact HI'|exact Hs|exact Hr|left]. cbn [w_pc set_pc]. apply dispatch_fresh.
  - (* PInitSave *)
    destruct P as (Id & Jn & Ha & Hs' & Hh). subst ah sh hash.
    apply close; [exact HI'| |exact Hr|left; cbn [w_pc set_pc]; apply dispatch_fresh].
    unfold st_ok, shof. cbn [w_state set_state set_pc s_apphash s_height w_store x_st].
    rewrite enc_nonempty. rewrite (state_height A _ _ Hst). cbn [Z.to_nat Z.of_nat]. rewrite gstate_0.
    destruct Hst as [H|(_ & _ & H)].
    + apply (st_ok_ref _ _ _ H) in Hs. rewrite Hs, gstate_0. apply II.
    + apply (st_ok_gen _ _ H) in Hs. rewrite Hs. reflexivity.
Qed.

Lemma xdo_op_inv : forall x o, XInv x -> XInv (xdo_op x o).
Proof.
  intros x o H. destruct o; try (apply xstep_inv; exact H); destruct x as [w e];
    destruct H as (HI & Hs & Hr & Hp); cbn [fst snd] in *;
    pose proof (fun o => do_op_inv A w o HI) as HI';
    unfold ModelState.xdo_op; cbn [fst snd] in *.
  - (* MCommit *)
    specialize (HI' (MCommit txs)). unfold XInv. cbn [fst snd].
    cbn [do_op] in HI' |- *. destruct (is_idle (w_pc w)); [|ssplit; auto].
    ssplit; auto. unfold Epc. cbn [w_pc set_pc]. unfold start_commit.
    destruct (negb _); [exact I|]. destruct (_ <? _); exact I.
  - (* MRestart *)
    specialize (HI' MRestart). cbn [do_op] in HI' |- *.
    destruct (is_down (w_pc w)); [|unfold XInv; ssplit; auto].
    apply (close (set_pc w (start_handshake w)) e); auto. left. cbn [w_pc set_pc].
    unfold start_handshake. destruct (_ =? _); [reflexivity|apply dispatch_fresh].
  - (* MCrash *)
    specialize (HI' MCrash). unfold XInv. cbn [fst snd]. ssplit; auto. exact I.
  - (* MRollback *)
    specialize (HI' (MRollback k)). unfold XInv. cbn [fst snd].
    cbn [do_op] in HI' |- *.
    destruct (is_down (w_pc w) && (0 <=? k) && (k <? a_height (w_app w))) eqn:G; [|ssplit; auto].
    ssplit; auto. unfold Epc. cbn [w_pc set_app].
    destruct (w_pc w); try discriminate; exact I.
Qed.

Lemma xinv0 : XInv (xworld0 A F).
Proof.
  unfold XInv, xworld0. cbn [fst snd]. ssplit.
  - apply inv0.
  - reflexivity.
  - reflexivity.
  - exact I.
Qed.

Lemma xrun_inv : forall ops x, XInv x -> XInv (xrun ops x).
Proof.
  induction ops as [|o r IH]; intros x H; cbn; [exact H|]. apply IH. apply xdo_op_inv. exact H.
Qed.

Lemma xreach_inv : forall ops, XInv (xreach ops).
Proof. intros. apply xrun_inv. apply xinv0. Qed.

(* ---------------------------------------------------------------- the theorems (stated in Props.v) *)

(* at every moment - node up, mid-procedure, crashed, mid-handshake - the saved state is the
   genesis state (nothing saved yet) or the state of a crash-free node that applied the first n
   stored blocks, n = the saved height *)
Lemma state_always_crash_free : forall ops,
  let w := fst (xreach ops) in let e := snd (xreach ops) in
  (w_state w = genesis_state /\ x_st e = st0 F) \/
  exists n, (n <= length (w_store w))%nat /\ s_height (w_state w) = Z.of_nat n /\
            x_st e = gref_chain (firstn n (w_store w)).
Proof.
  intros ops. cbn zeta. destruct (xreach_inv ops) as (HI & Hs & _).
  destruct HI as (sh & ah & C & Hn & Hst & Hah & Hle & Hacc & Hsn & Hrr & Hw & P).
  pose proof (state_height A _ _ Hst) as Hh.
  destruct Hst as [H|(_ & _ & H)].
  - right. exists sh. ssplit; [lia|exact Hh|]. apply (st_ok_ref _ _ _ H). exact Hs.
  - left. split; [exact H|]. apply (st_ok_gen _ _ H). exact Hs.
Qed.

Lemma state_when_up : forall ops, w_pc (fst (xreach ops)) = PIdle ->
  x_st (snd (xreach ops)) = gref_chain (w_store (fst (xreach ops))).
Proof.
  intros ops E. destruct (xreach_inv ops) as (HI & Hs & _).
  destruct HI as (sh & ah & C & Hn & Hst & Hah & Hle & Hacc & Hsn & Hrr & Hw & P).
  rewrite E in P. cbn in P. destruct P as (Id & Jn & Hs' & Ha & St). subst sh.
  apply (st_ok_ref _ _ _ St) in Hs. rewrite Hs. unfold gstate. rewrite firstn_all. reflexivity.
Qed.

Lemma responses_saved : forall ops h r,
  let w := fst (xreach ops) in
  x_resp (snd (xreach ops)) = Some (h, r) ->
  exists i b, nth_error (w_store w) i = Some b /\ h = b_height b /\ h = Z.of_nat i + 1 /\
    f_delivers r = f_delivers (gexec_resp (racc (w_store w) i) b) /\
    f_end r = f_end (gexec_resp (racc (w_store w) i) b) /\
    (f_begin r = f_begin (gexec_resp (racc (w_store w) i) b) \/
     (mock_keeps_begin F = false /\ f_begin r = bp0 F)) /\
    w_resp w = Some (h, map fst (f_delivers r)).
Proof.
  intros ops h r. cbn zeta. intros E. destruct (xreach_inv ops) as (HI & _ & Hr & _).
  unfold resp_ok in Hr. rewrite E in Hr. destruct Hr as (H1 & i & b & Hb & Hh & S1 & S2 & S3).
  destruct HI as (sh & ah & C & _).
  exists i, b. ssplit; auto. rewrite (fits_height A _ _ _ C Hb). exact Hh.
Qed.

(* with the repaired mock application the saved responses are exactly the application's *)
Lemma responses_saved_exact : mock_keeps_begin F = true -> forall ops h r,
  let w := fst (xreach ops) in
  x_resp (snd (xreach ops)) = Some (h, r) ->
  exists i b, nth_error (w_store w) i = Some b /\ h = b_height b /\ h = Z.of_nat i + 1 /\
    r = gexec_resp (racc (w_store w) i) b.
Proof.
  intros K ops h r. cbn zeta. intros E.
  destruct (responses_saved ops h r E) as (i & b & Hb & H1 & H2 & S1 & S2 & S3 & _).
  exists i, b. ssplit; auto.
  destruct S3 as [S3|(Hf & _)]; [|congruence].
  destruct r as [rb rd re]. destruct (gexec_resp (racc (w_store (fst (xreach ops))) i) b) as [gb gd ge].
  cbn in *. subst. reflexivity.
Qed.

Lemma no_responses_saved : forall ops,
  x_resp (snd (xreach ops)) = None -> w_resp (fst (xreach ops)) = None.
Proof.
  intros ops E. destruct (xreach_inv ops) as (_ & _ & Hr & _).
  unfold resp_ok in Hr. rewrite E in Hr. exact Hr.
Qed.

(* responses are saved before the state: when the state is about to be saved, the responses it
   was updated with are the saved ones, and they are (up to the BeginBlock response) those of
   the application's execution of that block *)
Lemma state_update_uses_saved : forall ops k b codes h,
  let w := fst (xreach ops) in let e := snd (xreach ops) in
  w_pc w = PSaveState k b codes h ->
  x_resp e = Some (b_height b, x_acc e) /\
  exists i, nth_error (w_store w) i = Some b /\ s_height (w_state w) = Z.of_nat i /\
    x_st e = gref_chain (firstn i (w_store w)) /\
    f_delivers (x_acc e) = f_delivers (gexec_resp (racc (w_store w) i) b) /\
    f_end (x_acc e) = f_end (gexec_resp (racc (w_store w) i) b).
Proof.
  intros ops k b codes h. cbn zeta. intros E. destruct (xreach_inv ops) as (HI & Hs & _ & Hp).
  unfold Epc in Hp. rewrite E in Hp. destruct Hp as ((S1 & S2 & _) & Hx). split; [exact Hx|].
  destruct HI as (sh & ah & C & Hn & Hst & Hah & Hle & Hacc & Hsn & Hrr & Hw & P).
  rewrite E in P. cbn [pcinv] in P.
  assert (LD : last_done A (w_store (fst (xreach ops))) (length (w_store (fst (xreach ops)))) sh ah
                 (w_app (fst (xreach ops))) b codes h).
  { destruct k; try contradiction; destruct P as (P & _); exact P. }
  destruct LD as (Id & Jn & Hs' & Ha & Hb & Hcd & Hh).
  rewrite (inv_sh _ _ Hst) in S1, S2.
  assert (St : w_state (fst (xreach ops)) = ref_state A (w_store (fst (xreach ops))) sh)
    by (apply not_genesis; [exact Hst|lia]).
  exists sh. ssplit; auto.
  - apply (state_height A _ _ Hst).
  - apply (st_ok_ref _ _ _ St). exact Hs.
Qed.

End Hyp.

(* ---------------------------------------------------------------- crash-free histories exist *)

Lemma forallb_calm_steps : forall k, forallb is_calm (repeat MStep k) = true.
Proof. induction k; cbn; auto. Qed.

Lemma run_app : forall l1 l2 w, run A (l1 ++ l2) w = run A l2 (run A l1 w).
Proof. intros. unfold Model.run. apply fold_left_app. Qed.

Lemma racc_firstn : forall S n, racc (firstn n S) n = racc S n.
Proof. intros. unfold Proofs.racc. rewrite firstn_firstn, Nat.min_id. reflexivity. Qed.
Lemma rcodes_firstn : forall S n, rcodes (firstn n S) n = rcodes S n.
Proof. intros. unfold Proofs.rcodes. rewrite firstn_firstn, Nat.min_id. reflexivity. Qed.

Lemma crash_free_prefix : forall S, chain_ok A S -> forall n, (n <= length S)%nat ->
  exists ops', crash_free ops' /\ w_pc (reach ops') = PIdle /\ w_store (reach ops') = firstn n S.
Proof.
  intros S C. induction n as [|n IH]; intros Ln.
  - exists [MRestart; MStep; MStep]. ssplit.
    + exists [MStep; MStep]. split; reflexivity.
    + unfold Proofs.reach, Model.run. cbn. rewrite Z.eqb_refl. reflexivity.
    + unfold Proofs.reach, Model.run. cbn. reflexivity.
  - destruct (IH ltac:(lia)) as (ops' & (r & -> & Hr) & Hi & Hst).
    destruct (nth_error_lt _ S n ltac:(lia)) as (b & Hb).
    destruct (recovery_progress A _ (b_txs b) Hi) as (k & Hk1 & Hk2). cbn zeta in *.
    exists ((MRestart :: r) ++ MCommit (b_txs b) :: repeat MStep k). ssplit.
    + exists (r ++ MCommit (b_txs b) :: repeat MStep k). split; [reflexivity|].
      rewrite forallb_app, Hr. cbn. apply forallb_calm_steps.
    + unfold Proofs.reach. rewrite run_app. exact Hk1.
    + unfold Proofs.reach. rewrite run_app. fold (reach (MRestart :: r)). rewrite Hk2, Hst.
      rewrite (firstn_snoc_nth _ _ _ _ Hb). f_equal. f_equal.
      destruct (recovery_agrees A _ Hi) as (_ & _ & _ & Ew & _). cbn zeta in Ew.
      rewrite Ew, Hst, firstn_length_le by lia. rewrite ref_state_eq, racc_firstn, rcodes_firstn.
      destruct (C _ _ Hb) as (h1 & h2 & h3). unfold make_block. cbn [s_height s_apphash s_lastres].
      destruct b; cbn in *. subst. reflexivity.
Qed.

Section Hyp2.
Hypothesis RB : replay_faithful F.
Hypothesis II : init_idempotent F.

(* the agreement clause on the WHOLE state: whenever the node is up between heights after ANY
   history, its saved state is the saved state of a node that decided the same blocks and never
   crashed *)
Lemma state_equals_crash_free : forall ops, w_pc (fst (xreach ops)) = PIdle ->
  exists ops', crash_free ops' /\ w_pc (fst (xreach ops')) = PIdle /\
    w_store (fst (xreach ops')) = w_store (fst (xreach ops)) /\
    x_st (snd (xreach ops)) = x_st (snd (xreach ops')).
Proof.
  intros ops E.
  pose proof (reach_inv A ops) as (sh & ah & C & _).
  destruct (crash_free_prefix _ C (length (w_store (reach ops))) (le_n _)) as (ops' & Hc & Hi & Hs).
  rewrite firstn_all in Hs.
  exists ops'. rewrite !xreach_fst. ssplit; auto.
  rewrite (state_when_up RB II ops E).
  rewrite (state_when_up RB II ops'); rewrite !xreach_fst; [|exact Hi]. rewrite Hs. reflexivity.
Qed.

End Hyp2.

End PS.

(* ---------------------------------------------------------------- each block applied once, in order *)

Section History.
Variable A : appsem.
Variable F : fullsem.

Fixpoint applied_from (acc : N) (s : list block) : list (block * list (N * DPay F) * EPay F) :=
  match s with
  | [] => []
  | b :: r => (b, f_delivers (gexec_resp A F acc b), f_end (gexec_resp A F acc b))
              :: applied_from (fst (exec_block A acc b)) r
  end.

Lemma history_reads_no_begin : reads_no_begin (history_sem F).
Proof. intros st b r r' H1 H2. cbn in *. rewrite H1, H2. reflexivity. Qed.

Lemma history_init_idempotent : init_idempotent (history_sem F).
Proof. intros st h. reflexivity. Qed.

Lemma history_gref_from : forall s acc st,
  gref_from A (history_sem F) acc st s = st ++ applied_from acc s.
Proof.
  induction s as [|b r IH]; intros acc st; cbn [gref_from applied_from].
  - rewrite app_nil_r. reflexivity.
  - rewrite IH. cbn. rewrite <- app_assoc. reflexivity.
Qed.

Lemma applied_once_in_order : forall ops,
  w_pc (fst (xreach A (history_sem F) ops)) = PIdle ->
  x_st (snd (xreach A (history_sem F) ops)) =
  applied_from (ainit A) (w_store (fst (xreach A (history_sem F) ops))).
Proof.
  intros ops E.
  rewrite (state_when_up A (history_sem F) (or_introl history_reads_no_begin) history_init_idempotent ops E).
  unfold gref_chain. rewrite history_gref_from. reflexivity.
Qed.

End History.
