From Coq Require Import List ZArith NArith Bool Lia.
From TM Require Import C05.Model.
Import ListNotations.
Open Scope Z_scope.
