(* C05 (part A) — proofs about the commit pipeline / handshake model. *)
From Coq Require Import List ZArith NArith Bool Lia Arith.
From TM Require Import C05.Model.
Import ListNotations.
Open Scope Z_scope.

Section P.
Variable A : appsem.

Notation step := (step A).
Notation do_op := (do_op A).
Notation run := (run A).
Notation exec_block := (exec_block A).
Notation exec_chain := (exec_chain A).
Notation deliver_all := (deliver_all A).
Notation ref_state := (ref_state A).

(* ---------------------------------------------------------------- lists *)

Lemma load_block_nth : forall (S : list block) (i : nat),
  load_block S (Z.of_nat i + 1) = nth_error S i.
Proof.
  intros. unfold load_block. destruct (Z.of_nat i + 1 <=? 0) eqn:E; [apply Z.leb_le in E; lia|].
  replace (Z.to_nat (Z.of_nat i + 1 - 1)) with i by lia. reflexivity.
Qed.

Lemma load_block_app : forall (S : list block) h b x,
  load_block S h = Some x -> load_block (S ++ [b]) h = Some x.
Proof.
  unfold load_block. intros S h b x H. destruct (h <=? 0); [discriminate|].
  rewrite nth_error_app1; [exact H|]. apply nth_error_Some. congruence.
Qed.

Lemma load_block_last : forall (S : list block) b,
  load_block (S ++ [b]) (store_height (S ++ [b])) = Some b.
Proof.
  intros. unfold store_height. rewrite app_length. cbn [length].
  replace (Z.of_nat (length S + 1)) with (Z.of_nat (length S) + 1) by lia.
  rewrite load_block_nth. rewrite nth_error_app2 by lia. rewrite Nat.sub_diag. reflexivity.
Qed.

Lemma firstn_snoc_nth : forall (X : Type) (l : list X) i x,
  nth_error l i = Some x -> firstn (S i) l = firstn i l ++ [x].
Proof.
  induction l as [|y l IH]; intros [|i] x H; cbn in *; try discriminate.
  - inversion H; reflexivity.
  - f_equal. apply IH; exact H.
Qed.

Lemma skipn_nth_cons : forall (X : Type) (l : list X) i x,
  nth_error l i = Some x -> skipn i l = x :: skipn (S i) l.
Proof.
  induction l as [|y l IH]; intros [|i] x H; cbn in *; try discriminate.
  - inversion H; reflexivity.
  - apply IH; exact H.
Qed.

(* ---------------------------------------------------------------- reference execution *)

Lemma deliver_all_snoc : forall txs acc t,
  deliver_all acc (txs ++ [t]) =
  let '(a, cs) := deliver_all acc txs in
  let '(a', c) := adeliver A a t in (a', cs ++ [c]).
Proof.
  induction txs as [|x r IH]; intros acc t; cbn.
  - destruct (adeliver A acc t); reflexivity.
  - destruct (adeliver A acc x) as [a c]. rewrite IH.
    destruct (deliver_all a r) as [a1 cs]. destruct (adeliver A a1 t); reflexivity.
Qed.

Lemma deliver_all_length : forall txs acc, length (snd (deliver_all acc txs)) = length txs.
Proof.
  induction txs as [|x r IH]; intros acc; cbn; [reflexivity|].
  destruct (adeliver A acc x) as [a c]. specialize (IH a).
  destruct (deliver_all a r); cbn in *. congruence.
Qed.

Lemma exec_chain_snoc : forall S acc c b,
  exec_chain acc c (S ++ [b]) = let '(a, c') := exec_chain acc c S in exec_block a b.
Proof.
  induction S as [|x r IH]; intros acc c b; cbn.
  - destruct (exec_block acc b); reflexivity.
  - destruct (exec_block acc x) as [a c']. apply IH.
Qed.

Definition racc (S : list block) (n : nat) : N := fst (exec_chain (ainit A) [] (firstn n S)).
Definition rcodes (S : list block) (n : nat) : list N := snd (exec_chain (ainit A) [] (firstn n S)).

Lemma ref_state_eq : forall S n,
  ref_state S n = {| s_height := Z.of_nat n; s_apphash := enc (racc S n); s_lastres := rcodes S n |}.
Proof.
  intros. unfold ref_state, racc, rcodes. destruct (exec_chain (ainit A) [] (firstn n S)); reflexivity.
Qed.

Lemma racc_0 : forall S, racc S 0 = ainit A. Proof. reflexivity. Qed.
Lemma rcodes_0 : forall S, rcodes S 0 = []. Proof. reflexivity. Qed.

Lemma ref_step : forall S n b, nth_error S n = Some b ->
  exec_block (racc S n) b = (racc S (Datatypes.S n), rcodes S (Datatypes.S n)).
Proof.
  intros S n b H. unfold racc, rcodes. rewrite (firstn_snoc_nth _ _ _ _ H).
  rewrite exec_chain_snoc. destruct (exec_chain (ainit A) [] (firstn n S)) as [a c]. cbn.
  destruct (exec_block a b); reflexivity.
Qed.

Lemma racc_app : forall S b n, (n <= length S)%nat -> racc (S ++ [b]) n = racc S n.
Proof. intros. unfold racc. rewrite firstn_app. replace (n - length S)%nat with O by lia. cbn. rewrite app_nil_r. reflexivity. Qed.
Lemma rcodes_app : forall S b n, (n <= length S)%nat -> rcodes (S ++ [b]) n = rcodes S n.
Proof. intros. unfold rcodes. rewrite firstn_app. replace (n - length S)%nat with O by lia. cbn. rewrite app_nil_r. reflexivity. Qed.

(* a block that the proposer makes from the state of a node that applied the chain S *)
Definition fits (S : list block) (n : nat) (b : block) : Prop :=
  b_height b = Z.of_nat n + 1 /\ b_apphash b = enc (racc S n) /\ b_lastres b = rcodes S n.

Definition chain_ok (S : list block) : Prop :=
  forall i b, nth_error S i = Some b -> fits S i b.

Lemma chain_ok_snoc : forall S b, chain_ok S -> fits S (length S) b -> chain_ok (S ++ [b]).
Proof.
  intros S b H F i x Hx. destruct (Nat.lt_ge_cases i (length S)) as [L|L].
  - rewrite nth_error_app1 in Hx by exact L. destruct (H _ _ Hx) as (h1 & h2 & h3).
    unfold fits. rewrite racc_app, rcodes_app by lia. auto.
  - assert (i = length S).
    { assert (i < length (S ++ [b]))%nat by (apply nth_error_Some; congruence).
      rewrite app_length in H0; cbn in H0; lia. }
    subst i. rewrite nth_error_app2, Nat.sub_diag in Hx by lia. cbn in Hx. inversion Hx; subst x.
    destruct F as (h1 & h2 & h3). unfold fits. rewrite racc_app, rcodes_app by lia. auto.
Qed.

Lemma list_N_eqb_refl : forall l, list_N_eqb l l = true.
Proof.
  intros. unfold list_N_eqb. rewrite Nat.eqb_refl. cbn.
  induction l as [|x l IH]; cbn; [reflexivity|]. rewrite N.eqb_refl. exact IH.
Qed.

Lemma validate_fits : forall S n b, fits S n b -> validate_block (ref_state S n) b = true.
Proof.
  intros S n b (h1 & h2 & h3). rewrite ref_state_eq. unfold validate_block; cbn.
  rewrite h1, h2, h3, !Z.eqb_refl, list_N_eqb_refl. reflexivity.
Qed.

(* ---------------------------------------------------------------- journal automaton *)

Lemma jrun_snoc : forall S j s e,
  jrun S s (j ++ [e]) = match jrun S s j with Some s' => jstep S s' e | None => None end.
Proof.
  intros S j. induction j as [|x r IH]; intros s e; cbn.
  - destruct (jstep S s e); reflexivity.
  - destruct (jstep S s x); [apply IH|reflexivity].
Qed.

Lemma jstep_mono : forall S b s e r, jstep S s e = Some r -> jstep (S ++ [b]) s e = Some r.
Proof.
  intros S b [ah ph] e r H. destruct e, ph; cbn in *; try exact H.
  destruct (h =? h0); [|discriminate].
  destruct (load_block S h0) as [x|] eqn:L; [|discriminate].
  rewrite (load_block_app _ _ b _ L). exact H.
Qed.

Lemma jrun_mono : forall S b j s r, jrun S s j = Some r -> jrun (S ++ [b]) s j = Some r.
Proof.
  intros S b j. induction j as [|e j IH]; intros s r H; cbn in *; [exact H|].
  destruct (jstep S s e) as [s'|] eqn:E; [|discriminate].
  rewrite (jstep_mono _ b _ _ _ E). apply IH; exact H.
Qed.

Definition J (S : list block) (a : app) (ah : nat) (ph : jphase) : Prop :=
  jrun S (0, JIdle) (a_journal a) = Some (Z.of_nat ah, ph).

(* ---------------------------------------------------------------- the invariant *)

Definition app_idle (a : app) : Prop := a_work a = a_acc a /\ a_cur a = 0.

Section PC.
Variables (S : list block) (n sh ah : nat) (a : app) (resp : option (Z * list N)) (st : nstate).

Definition ctx_ok (k : xctx) (i : nat) : Prop :=
  match k with
  | KFinal | KLast => n = Datatypes.S sh /\ i = sh
  | KMock _ => False
  | KLoop final mutate => final = Z.of_nat sh /\ (i < sh)%nat /\ (if mutate then n = Datatypes.S sh else n = sh)
  end.

Definition exec_mid (k : xctx) (b : block) (codes : list N) (ph : jphase) : Prop :=
  exists i, nth_error S i = Some b /\ ah = i /\ ctx_ok k i /\
            exec_block (a_acc a) b = (a_work a, codes) /\ a_cur a = b_height b /\ J S a ah ph.

Definition last_done (b : block) (codes : list N) (h : Z) : Prop :=
  app_idle a /\ J S a ah JIdle /\ n = Datatypes.S sh /\ ah = n /\ nth_error S sh = Some b /\
  codes = rcodes S n /\ h = enc (racc S n).

Definition pcinv (p : pc) : Prop :=
  match p with
  | PFailed _ => False
  | PDown => app_idle a /\ J S a ah JIdle
  | PIdle => app_idle a /\ J S a ah JIdle /\ sh = n /\ ah = n /\ st = ref_state S n
  | PSaveBlock b => app_idle a /\ J S a ah JIdle /\ sh = n /\ ah = n /\ fits S n b /\ st = ref_state S n
  | PWalEnd b => app_idle a /\ J S a ah JIdle /\ n = Datatypes.S sh /\ ah = sh /\ nth_error S sh = Some b
  | PBegin k b => app_idle a /\ J S a ah JIdle /\ exists i, nth_error S i = Some b /\ ah = i /\ ctx_ok k i
  | PDeliver k b rest codes =>
    exists i done, nth_error S i = Some b /\ ah = i /\ ctx_ok k i /\ b_txs b = done ++ rest /\ rest <> [] /\
      deliver_all (abegin A (a_acc a) (b_height b)) done = (a_work a, codes) /\
      a_cur a = b_height b /\ J S a ah (JIn (b_height b) done)
  | PEnd k b codes => exec_mid k b codes (JIn (b_height b) (b_txs b))
  | PSaveResp k b codes =>
    match k with
    | KMock h => last_done b codes h
    | KLoop _ _ => False
    | _ => exec_mid k b codes (JEnded (b_height b))
    end
  | PCommit k b codes =>
    match k with
    | KMock _ => False
    | KLoop _ _ => exec_mid k b codes (JEnded (b_height b))
    | _ => exec_mid k b codes (JEnded (b_height b)) /\ resp = Some (b_height b, codes)
    end
  | PSaveState k b codes h =>
    match k with KLoop _ _ => False | _ => last_done b codes h /\ resp = Some (Z.of_nat n, codes) end
  | PInitChain => app_idle a /\ J S a ah JIdle /\ ah = 0%nat
  | PInitSave h => app_idle a /\ J S a ah JIdle /\ ah = 0%nat /\ sh = 0%nat /\ h = enc (ainit A)
  end.
End PC.

Definition snaps_ok (S : list block) (l : list (Z * N)) : Prop :=
  Forall (fun e => exists kn : nat, fst e = Z.of_nat kn /\ (kn <= length S)%nat /\ snd e = racc S kn) l.

Definition Inv (w : world) : Prop :=
  exists sh ah : nat,
    chain_ok (w_store w) /\
    (sh = length (w_store w) \/ length (w_store w) = Datatypes.S sh) /\
    (w_state w = ref_state (w_store w) sh \/
     (sh = 0%nat /\ length (w_store w) = 0%nat /\ w_state w = genesis_state)) /\
    a_height (w_app w) = Z.of_nat ah /\ (ah <= length (w_store w))%nat /\
    a_acc (w_app w) = racc (w_store w) ah /\
    snaps_ok (w_store w) (a_snaps (w_app w)) /\
    (length (w_store w) = Datatypes.S sh -> ah = length (w_store w) ->
       w_resp w = Some (Z.of_nat (length (w_store w)), rcodes (w_store w) (length (w_store w)))) /\
    Forall (fun h => h <= Z.of_nat (length (w_store w))) (w_wal w) /\
    pcinv (w_store w) (length (w_store w)) sh ah (w_app w) (w_resp w) (w_state w) (w_pc w).

(* ---------------------------------------------------------------- the handshake's dispatch *)

Ltac ssplit := repeat match goal with |- _ /\ _ => split end.

Lemma nth_error_lt : forall (X : Type) (l : list X) i, (i < length l)%nat -> exists x, nth_error l i = Some x.
Proof.
  intros X l i H. destruct (nth_error l i) eqn:E; [eauto|]. apply nth_error_None in E. lia.
Qed.

Lemma enc_nonempty : forall x, enc x =? EMPTY = false.
Proof. intros. unfold enc, EMPTY. apply Z.eqb_neq. lia. Qed.

Lemma enter_replay_last_ok : forall w sh ah,
  chain_ok (w_store w) -> length (w_store w) = Datatypes.S sh -> w_state w = ref_state (w_store w) sh ->
  ah = sh -> app_idle (w_app w) -> J (w_store w) (w_app w) ah JIdle ->
  pcinv (w_store w) (length (w_store w)) sh ah (w_app w) (w_resp w) (w_state w) (enter_replay_last w).
Proof.
  intros w sh ah C L St -> Id Jn. unfold enter_replay_last, store_height. rewrite L.
  replace (Z.of_nat (Datatypes.S sh)) with (Z.of_nat sh + 1) by lia. rewrite load_block_nth.
  assert (Hlt : (sh < length (w_store w))%nat) by lia.
  destruct (nth_error_lt _ _ _ Hlt) as [b Hb]. rewrite Hb.
  pose proof (C _ _ Hb) as Hf. apply validate_fits in Hf.
  unfold enter_apply. rewrite St. rewrite Hf. cbn.
  ssplit; auto. exists sh. cbn. auto.
Qed.

Lemma loop_next_ok : forall w sh i hash (mutate : bool),
  chain_ok (w_store w) -> w_state w = ref_state (w_store w) sh ->
  (if mutate then length (w_store w) = Datatypes.S sh else length (w_store w) = sh) ->
  (i <= sh)%nat -> (hash = EMPTY \/ hash = enc (racc (w_store w) i)) ->
  (i = sh -> hash = enc (racc (w_store w) i)) ->
  app_idle (w_app w) -> J (w_store w) (w_app w) i JIdle ->
  pcinv (w_store w) (length (w_store w)) sh i (w_app w) (w_resp w) (w_state w)
        (loop_next w (Z.of_nat i + 1) hash (Z.of_nat sh) mutate).
Proof.
  intros w sh i hash mutate C St Ln Le Hh He Id Jn. unfold loop_next.
  destruct (Z.leb_spec (Z.of_nat i + 1) (Z.of_nat sh)) as [L|L].
  - rewrite load_block_nth.
    assert (Hlt : (i < length (w_store w))%nat) by (destruct mutate; lia).
    destruct (nth_error_lt _ _ _ Hlt) as [b Hb]. rewrite Hb.
    assert (Hf := C _ _ Hb). destruct Hf as (_ & Hah & _).
    assert ((hash_nonempty hash && negb (hash =? b_apphash b)) = false) as ->.
    { destruct Hh as [->| ->]; [reflexivity|]. rewrite Hah, Z.eqb_refl. apply andb_false_r. }
    cbn. ssplit; auto. exists i. cbn. ssplit; auto. lia.
  - assert (i = sh) by lia. subst i. destruct mutate.
    + apply enter_replay_last_ok; auto.
    + rewrite (He eq_refl), St, ref_state_eq. cbn. rewrite Z.eqb_refl. cbn.
      ssplit; auto. rewrite Ln. symmetry; apply ref_state_eq.
Qed.

Lemma dispatch_ok : forall w sh ah hash,
  chain_ok (w_store w) ->
  (sh = length (w_store w) \/ length (w_store w) = Datatypes.S sh) ->
  w_state w = ref_state (w_store w) sh ->
  a_height (w_app w) = Z.of_nat ah -> (ah <= length (w_store w))%nat ->
  (length (w_store w) = Datatypes.S sh -> ah = length (w_store w) ->
     w_resp w = Some (Z.of_nat (length (w_store w)), rcodes (w_store w) (length (w_store w)))) ->
  hash = enc (racc (w_store w) ah) ->
  app_idle (w_app w) -> J (w_store w) (w_app w) ah JIdle ->
  pcinv (w_store w) (length (w_store w)) sh ah (w_app w) (w_resp w) (w_state w) (dispatch w hash).
Proof.
  intros w sh ah hash C Hn St Ha Le Hr Hh Id Jn. unfold dispatch, store_height. rewrite Ha.
  destruct (w_store w) as [|b0 S0] eqn:ES.
  - cbn in *. assert (sh = 0%nat) by lia. assert (ah = 0%nat) by lia. subst sh ah.
    rewrite St, Hh. cbn. rewrite Z.eqb_refl. cbn. ssplit; auto.
  - rewrite <- ES in *. assert (Hpos : (1 <= length (w_store w))%nat) by (rewrite ES; cbn; lia).
    assert (store_base (w_store w) = 1) as -> by (rewrite ES; reflexivity).
    assert (s_height (w_state w) = Z.of_nat sh) as -> by (rewrite St, ref_state_eq; reflexivity).
    assert (s_apphash (w_state w) = enc (racc (w_store w) sh)) as Hsa by (rewrite St, ref_state_eq; reflexivity).
    destruct (Z.eqb_spec (Z.of_nat (length (w_store w))) 0); [lia|].
    replace (1 <? 1) with false by reflexivity. rewrite andb_false_r.
    replace ((0 <? Z.of_nat ah) && (Z.of_nat ah <? 1 - 1)) with false
      by (symmetry; apply andb_false_iff; right; apply Z.ltb_ge; lia).
    destruct (Z.ltb_spec (Z.of_nat (length (w_store w))) (Z.of_nat ah)); [lia|].
    destruct (Z.ltb_spec (Z.of_nat (length (w_store w))) (Z.of_nat sh)); [lia|].
    destruct (Z.ltb_spec (Z.of_nat sh + 1) (Z.of_nat (length (w_store w)))); [lia|].
    destruct (Z.eqb_spec (Z.of_nat (length (w_store w))) (Z.of_nat sh)) as [E|E].
    + assert (length (w_store w) = sh) as Ls by lia.
      destruct (Z.ltb_spec (Z.of_nat ah) (Z.of_nat (length (w_store w)))) as [L|L].
      * subst sh. apply loop_next_ok; auto; try lia.
      * destruct (Z.eqb_spec (Z.of_nat ah) (Z.of_nat (length (w_store w)))); [|lia].
        assert (ah = sh) by lia. subst ah. rewrite Hh, Hsa, Z.eqb_refl. cbn.
        ssplit; auto. rewrite St, Ls. reflexivity.
    + assert (length (w_store w) = Datatypes.S sh) as Ls by lia.
      destruct (Z.eqb_spec (Z.of_nat (length (w_store w))) (Z.of_nat sh + 1)); [|lia].
      destruct (Z.ltb_spec (Z.of_nat ah) (Z.of_nat sh)) as [L|L].
      * replace (Z.of_nat (length (w_store w)) - 1) with (Z.of_nat sh) by lia.
        apply loop_next_ok; auto; try lia.
      * destruct (Z.eqb_spec (Z.of_nat ah) (Z.of_nat sh)) as [E2|E2].
        { apply enter_replay_last_ok; auto. lia. }
        destruct (Z.eqb_spec (Z.of_nat ah) (Z.of_nat (length (w_store w)))); [|lia].
        assert (ah = length (w_store w)) as Hahn by lia.
        rewrite (Hr Ls Hahn). rewrite Z.eqb_refl. cbn [negb].
        replace (Z.of_nat (length (w_store w))) with (Z.of_nat sh + 1) by lia.
        rewrite load_block_nth.
        assert (Hlt : (sh < length (w_store w))%nat) by lia.
  destruct (nth_error_lt _ _ _ Hlt) as [b Hb]. rewrite Hb.
        pose proof (C _ _ Hb) as Hf. apply validate_fits in Hf.
        rewrite St. rewrite Hf. cbn [negb].
        assert (Hlen : length (rcodes (w_store w) (length (w_store w))) = length (b_txs b)).
        { rewrite Ls. pose proof (ref_step _ _ _ Hb) as R. unfold Model.exec_block in R.
          pose proof (deliver_all_length (b_txs b) (abegin A (racc (w_store w) sh) (b_height b))) as DL.
          rewrite R in DL. exact DL. }
        rewrite Hlen, Nat.ltb_irrefl. rewrite <- Hlen, firstn_all.
        cbn. unfold last_done. ssplit; auto. rewrite Hh, Hahn. reflexivity.
Qed.
(* ---------------------------------------------------------------- preservation *)

Lemma ref_state_app : forall S b n, (n <= length S)%nat -> ref_state (S ++ [b]) n = ref_state S n.
Proof. intros. rewrite !ref_state_eq, racc_app, rcodes_app by lia. reflexivity. Qed.

Lemma snaps_ok_app : forall S b l, snaps_ok S l -> snaps_ok (S ++ [b]) l.
Proof.
  intros S b l H. unfold snaps_ok in *. eapply Forall_impl; [|exact H].
  intros [k x] (kn & h1 & h2 & h3). exists kn. cbn in *. rewrite app_length, racc_app by lia.
  ssplit; auto. lia.
Qed.

Lemma pcinv_J : forall S n sh ah a resp st p,
  pcinv S n sh ah a resp st p -> exists ph, J S a ah ph.
Proof.
  intros S n sh ah a resp st p H.
  destruct p; cbn in H; try contradiction; try (destruct k; try contradiction);
    unfold exec_mid, last_done in H;
    repeat match goal with
           | H : exists _, _ |- _ => destruct H
           | H : _ /\ _ |- _ => destruct H
           end; eauto.
Qed.

Lemma J_snoc : forall S a ah ph e r,
  J S a ah ph -> jstep S (Z.of_nat ah, ph) e = Some r ->
  jrun S (0, JIdle) (a_journal a ++ [e]) = Some r.
Proof. intros S a ah ph e r H E. rewrite jrun_snoc. unfold J in H. rewrite H. exact E. Qed.

Lemma not_genesis : forall (w : world) sh,
  (w_state w = ref_state (w_store w) sh \/
     (sh = 0%nat /\ length (w_store w) = 0%nat /\ w_state w = genesis_state)) ->
  (1 <= length (w_store w))%nat -> w_state w = ref_state (w_store w) sh.
Proof. intros w sh [H|(_ & H & _)] L; [exact H|lia]. Qed.

Lemma state_height : forall (w : world) sh,
  (w_state w = ref_state (w_store w) sh \/
     (sh = 0%nat /\ length (w_store w) = 0%nat /\ w_state w = genesis_state)) ->
  s_height (w_state w) = Z.of_nat sh.
Proof. intros w sh [H|(-> & _ & H)]; rewrite H; [rewrite ref_state_eq|]; reflexivity. Qed.

Lemma commit_inv : forall w txs, Inv w -> w_pc w = PIdle -> Inv (set_pc w (start_commit w txs)).
Proof.
  intros w txs (sh & ah & C & Hn & Hst & Hah & Hle & Hacc & Hsn & Hr & Hw & P) E.
  rewrite E in P. cbn in P. destruct P as (Id & Jn & Hs & Ha & St).
  exists sh, ah. cbn. ssplit; auto.
  unfold start_commit.
  assert (F : fits (w_store w) (length (w_store w)) (make_block (w_state w) txs)).
  { rewrite St, ref_state_eq. unfold fits, make_block; cbn. auto. }
  pose proof (validate_fits _ _ _ F) as V. rewrite <- St in V. rewrite V. cbn [negb].
  unfold store_height. destruct F as (Fh & _). rewrite Fh.
  destruct (Z.ltb_spec (Z.of_nat (length (w_store w))) (Z.of_nat (length (w_store w)) + 1)); [|lia].
  cbn. ssplit; auto. rewrite St, ref_state_eq. unfold fits, make_block; cbn. auto.
Qed.

Lemma restart_inv : forall w, Inv w -> is_down (w_pc w) = true -> Inv (set_pc w (start_handshake w)).
Proof.
  intros w (sh & ah & C & Hn & Hst & Hah & Hle & Hacc & Hsn & Hr & Hw & P) E.
  destruct (w_pc w) eqn:Epc; try discriminate; cbn in P; [|contradiction].
  destruct P as (Id & Jn).
  exists sh, ah. cbn. ssplit; auto.
  unfold start_handshake. rewrite Hah.
  destruct (Z.eqb_spec (Z.of_nat ah) 0) as [Z0|Z0].
  - cbn. ssplit; auto. lia.
  - assert (1 <= length (w_store w))%nat by lia.
    apply dispatch_ok; auto.
    + apply not_genesis; auto.
    + unfold app_info_hash. rewrite Hah. destruct (Z.eqb_spec (Z.of_nat ah) 0); [lia|]. rewrite Hacc. reflexivity.
Qed.

Lemma crash_inv : forall w, Inv w -> Inv (set_app w (app_crash (w_app w)) PDown).
Proof.
  intros w (sh & ah & C & Hn & Hst & Hah & Hle & Hacc & Hsn & Hr & Hw & P).
  destruct (pcinv_J _ _ _ _ _ _ _ _ P) as (ph & Jn).
  exists sh, ah. cbn. ssplit; auto.
  - unfold app_idle; cbn; auto.
  - unfold J; cbn. unfold jadd. eapply J_snoc; [exact Jn|]. cbn. destruct ph; reflexivity.
Qed.

Lemma snap_find_in : forall l k x, snap_find l k = Some x -> In (k, x) l.
Proof.
  induction l as [|[h y] r IH]; intros k x H; cbn in *; [discriminate|].
  destruct (Z.eqb_spec h k); [inversion H; subst; auto|right; auto].
Qed.

Lemma snaps_ok_drop : forall S l k, snaps_ok S l -> snaps_ok S (snap_drop l k).
Proof.
  intros S l k H. induction H as [|[h y] r Hx Hr IH]; cbn; [constructor|].
  destruct (h <? k); [constructor; auto|exact IH].
Qed.

Lemma rollback_inv : forall w k, Inv w -> is_down (w_pc w) = true ->
  0 <= k -> k < a_height (w_app w) -> Inv (set_app w (app_rollback (w_app w) k) (w_pc w)).
Proof.
  intros w k (sh & ah & C & Hn & Hst & Hah & Hle & Hacc & Hsn & Hr & Hw & P) E K0 K1.
  destruct (w_pc w) eqn:Epc; try discriminate; cbn in P; [|contradiction].
  destruct P as (Id & Jn).
  unfold app_rollback. destruct (snap_find (a_snaps (w_app w)) k) as [x|] eqn:F.
  - pose proof (snap_find_in _ _ _ F) as Hin.
    unfold snaps_ok in Hsn. rewrite Forall_forall in Hsn. destruct (Hsn _ Hin) as (kn & h1 & h2 & h3).
    cbn in h1, h3. subst k x.
    exists sh, kn. cbn. ssplit; auto.
    + apply snaps_ok_drop. unfold snaps_ok. rewrite Forall_forall. exact Hsn.
    + intros. lia.
    + unfold app_idle; cbn; auto.
    + unfold J; cbn. unfold jadd. eapply J_snoc; [exact Jn|]. cbn.
      destruct (Z.leb_spec 0 (Z.of_nat kn)); [|lia]. destruct (Z.leb_spec (Z.of_nat kn) (Z.of_nat ah)); [|lia].
      reflexivity.
  - exists sh, ah. rewrite <- Epc. cbn. rewrite Epc. ssplit; auto. cbn. auto.
Qed.

Lemma fits_height : forall S i b, chain_ok S -> nth_error S i = Some b -> b_height b = Z.of_nat i + 1.
Proof. intros S i b C H. destruct (C _ _ H) as (h & _). exact h. Qed.

Lemma nth_lt : forall (X : Type) (l : list X) i x, nth_error l i = Some x -> (i < length l)%nat.
Proof. intros. apply nth_error_Some. congruence. Qed.

Lemma step_inv : forall w, Inv w -> Inv (step w).
Proof.
  intros w (sh & ah & C & Hn & Hst & Hah & Hle & Hacc & Hsn & Hr & Hw & P).
  unfold step. destruct (w_pc w) eqn:Epc; cbn [pcinv] in P.
  - (* PDown *) exists sh, ah. rewrite Epc. ssplit; auto.
  - contradiction.
  - (* PIdle *) exists sh, ah. rewrite Epc. ssplit; auto.
  - (* PSaveBlock *)
    destruct P as (Id & Jn & Hs & Ha & F & St). subst sh ah.
    exists (length (w_store w)), (length (w_store w)). cbn [w_store w_wal w_state w_resp w_app w_pc].
    rewrite app_length. cbn [length].
    ssplit.
    + apply chain_ok_snoc; auto.
    + right. lia.
    + left. rewrite ref_state_app by lia. exact St.
    + exact Hah.
    + lia.
    + rewrite racc_app by lia. exact Hacc.
    + apply snaps_ok_app; exact Hsn.
    + intros. lia.
    + eapply Forall_impl; [|exact Hw]. cbn. intros. lia.
    + cbn. ssplit; auto.
      * unfold J in *. apply jrun_mono. exact Jn.
      * lia.
      * rewrite nth_error_app2, Nat.sub_diag by lia. reflexivity.
  - (* PWalEnd *)
    destruct P as (Id & Jn & Hs & Ha & Hb). subst ah.
    assert (St : w_state w = ref_state (w_store w) sh) by (apply not_genesis; [exact Hst|lia]).
    pose proof (fits_height _ _ _ C Hb) as Hh.
    exists sh, sh. cbn [w_store w_wal w_state w_resp w_app w_pc set_pc].
    ssplit; auto.
    + apply Forall_app; split; [exact Hw|]. constructor; [lia|constructor].
    + unfold enter_apply. cbn [w_state]. pose proof (C _ _ Hb) as Hf. apply validate_fits in Hf.
      rewrite St. rewrite Hf. cbn. ssplit; auto. exists sh. cbn. auto.
  - (* PBegin *)
    destruct P as (Id & Jn & i & Hb & Hi & Hk). subst i.
    pose proof (fits_height _ _ _ C Hb) as Hh. destruct Id as (Iw & Ic).
    exists sh, ah. cbn [w_store w_wal w_state w_resp w_app w_pc set_app app_begin a_height a_acc a_snaps].
    ssplit; auto.
    assert (Jn' : J (w_store w) (app_begin A (w_app w) (b_height b)) ah (JIn (b_height b) [])).
    { unfold J; cbn. unfold jadd. eapply J_snoc; [exact Jn|]. cbn.
      destruct (Z.eqb_spec (b_height b) (Z.of_nat ah + 1)); [reflexivity|lia]. }
    unfold next_deliver. destruct (b_txs b) as [|t r] eqn:Et.
    + cbn. exists ah. ssplit; auto.
      * unfold Model.exec_block. rewrite Et. cbn. rewrite Iw. reflexivity.
      * rewrite <- Et in Jn'. rewrite Et in Jn' at 1. rewrite Et. exact Jn'.
    + cbn. exists ah, []. ssplit; auto.
      * discriminate.
      * cbn. rewrite Iw. reflexivity.
  - (* PDeliver *)
    destruct P as (i & done & Hb & Hi & Hk & Ht & Hne & Hd & Hc & Jn). subst i.
    destruct rest as [|t rest']; [congruence|].
    unfold app_deliver. destruct (adeliver A (a_work (w_app w)) t) as [wk c] eqn:Ead.
    set (a' := {| a_height := a_height (w_app w); a_acc := a_acc (w_app w); a_snaps := a_snaps (w_app w);
                  a_work := wk; a_cur := a_cur (w_app w); a_journal := jadd (w_app w) (JDeliver t) |}).
    assert (Hd' : deliver_all (abegin A (a_acc a') (b_height b)) (done ++ [t]) = (a_work a', codes ++ [c])).
    { cbn. rewrite deliver_all_snoc, Hd, Ead. reflexivity. }
    assert (Jn' : J (w_store w) a' ah (JIn (b_height b) (done ++ [t]))).
    { unfold J; cbn. unfold jadd. eapply J_snoc; [exact Jn|]. reflexivity. }
    exists sh, ah. cbn [w_store w_wal w_state w_resp w_app w_pc set_app].
    ssplit; auto.
    unfold next_deliver. destruct rest' as [|t2 r2].
    + cbn. exists ah. ssplit; auto.
      * unfold Model.exec_block. rewrite Ht. exact Hd'.
      * rewrite Ht. exact Jn'.
    + cbn. exists ah, (done ++ [t]). ssplit; auto.
      * rewrite Ht, <- app_assoc. reflexivity.
      * discriminate.
  - (* PEnd *)
    destruct P as (i & Hb & Hi & Hk & He & Hc & Jn). subst i.
    pose proof (fits_height _ _ _ C Hb) as Hh.
    assert (Jn' : J (w_store w) (app_end (w_app w) (b_height b)) ah (JEnded (b_height b))).
    { unfold J; cbn. unfold jadd. eapply J_snoc; [exact Jn|]. cbn. rewrite Z.eqb_refl.
      rewrite Hh, load_block_nth, Hb. unfold list_tx_eqb. rewrite list_N_eqb_refl. reflexivity. }
    exists sh, ah. cbn [w_store w_wal w_state w_resp w_app w_pc set_app app_end a_height a_acc a_snaps].
    ssplit; auto.
    destruct k; cbn in Hk; try contradiction; cbn; exists ah; ssplit; auto.
  - (* PSaveResp *)
    destruct k; try contradiction.
    + destruct P as (i & Hb & Hi & Hk & He & Hc & Jn). subst i. destruct Hk as (Hk1 & Hk2). subst ah.
      exists sh, sh. cbn [w_store w_wal w_state w_resp w_app w_pc]. ssplit; auto.
      * intros. lia.
      * cbn. ssplit; auto. exists sh. cbn. ssplit; auto.
    + destruct P as (i & Hb & Hi & Hk & He & Hc & Jn). subst i. destruct Hk as (Hk1 & Hk2). subst ah.
      exists sh, sh. cbn [w_store w_wal w_state w_resp w_app w_pc]. ssplit; auto.
      * intros. lia.
      * cbn. ssplit; auto. exists sh. cbn. ssplit; auto.
    + destruct P as (Id & Jn & Hs & Ha & Hb & Hcd & Hh).
      pose proof (fits_height _ _ _ C Hb) as Hbh.
      exists sh, ah. cbn [w_store w_wal w_state w_resp w_app w_pc]. ssplit; auto.
      * intros. rewrite Hbh, Hcd, Hs. f_equal. f_equal. lia.
      * cbn. unfold last_done. ssplit; auto. rewrite Hbh, Hs. f_equal. f_equal. lia.
  - (* PCommit *)
    assert (EM : exists i, nth_error (w_store w) i = Some b /\ ah = i /\ ctx_ok (length (w_store w)) sh k i /\
                 exec_block (a_acc (w_app w)) b = (a_work (w_app w), codes) /\ a_cur (w_app w) = b_height b /\
                 J (w_store w) (w_app w) ah (JEnded (b_height b))).
    { destruct k; try contradiction; [destruct P as (P & _); exact P|destruct P as (P & _); exact P|exact P]. }
    destruct EM as (i & Hb & Hi & Hk & He & Hc & Jn). subst i.
    pose proof (fits_height _ _ _ C Hb) as Hh. pose proof (nth_lt _ _ _ _ Hb) as Hlt.
    pose proof (ref_step _ _ _ Hb) as R. rewrite <- Hacc, He in R. inversion R as [[Rw Rc]].
    unfold app_commit. rewrite Hc.
    destruct (Z.ltb_spec 0 (b_height b)); [|lia].
    set (a' := {| a_height := b_height b; a_acc := a_work (w_app w);
                  a_snaps := (a_height (w_app w), a_acc (w_app w)) :: a_snaps (w_app w);
                  a_work := a_work (w_app w); a_cur := 0; a_journal := jadd (w_app w) (JCommit (b_height b)) |}).
    assert (Ja : J (w_store w) a' (Datatypes.S ah) JIdle).
    { unfold J; cbn. unfold jadd. eapply J_snoc; [exact Jn|]. cbn. rewrite Z.eqb_refl. rewrite Hh.
      f_equal. f_equal. lia. }
    assert (Sn : snaps_ok (w_store w) (a_snaps a')).
    { cbn. constructor; [|exact Hsn]. exists ah. cbn. ssplit; auto. }
    assert (Ia : app_idle a') by (unfold app_idle; cbn; auto).
    assert (Hha : a_height a' = Z.of_nat (Datatypes.S ah)) by (cbn; lia).
    destruct k; cbn in Hk; try contradiction.
    + destruct P as (_ & Hrs). destruct Hk as (Hk1 & Hk2). subst ah.
      exists sh, (Datatypes.S sh). cbn [w_store w_wal w_state w_resp w_app w_pc set_app].
      assert (E1 : b_height b = Z.of_nat (length (w_store w))) by lia.
      assert (E2 : codes = rcodes (w_store w) (length (w_store w))) by (rewrite Hk1; exact Rc).
      assert (E3 : enc (a_work (w_app w)) = enc (racc (w_store w) (length (w_store w)))) by (rewrite Hk1, Rw; reflexivity).
      ssplit; auto; try lia.
      * intros. congruence.
      * cbn. unfold last_done. ssplit; auto; try lia; congruence.
    + destruct P as (_ & Hrs). destruct Hk as (Hk1 & Hk2). subst ah.
      exists sh, (Datatypes.S sh). cbn [w_store w_wal w_state w_resp w_app w_pc set_app].
      assert (E1 : b_height b = Z.of_nat (length (w_store w))) by lia.
      assert (E2 : codes = rcodes (w_store w) (length (w_store w))) by (rewrite Hk1; exact Rc).
      assert (E3 : enc (a_work (w_app w)) = enc (racc (w_store w) (length (w_store w)))) by (rewrite Hk1, Rw; reflexivity).
      ssplit; auto; try lia.
      * intros. congruence.
      * cbn. unfold last_done. ssplit; auto; try lia; congruence.
    + destruct Hk as (Hk1 & Hk2 & Hk3). subst final.
      exists sh, (Datatypes.S ah).
      cbn [w_store w_wal w_state w_resp w_app w_pc set_app set_pc].
      ssplit; auto; try lia.
      replace (b_height b + 1) with (Z.of_nat (Datatypes.S ah) + 1) by lia.
      apply (loop_next_ok (set_app w a' PIdle) sh (Datatypes.S ah) (enc (a_work (w_app w))) mutate); cbn; auto.
      { apply not_genesis; [exact Hst|lia]. }
      { right. rewrite Rw. reflexivity. }
      { intros _. rewrite Rw. reflexivity. }
  - (* PSaveState *)
    assert (LD : last_done (w_store w) (length (w_store w)) sh ah (w_app w) b codes hash /\
                 w_resp w = Some (Z.of_nat (length (w_store w)), codes)).
    { destruct k; try contradiction; exact P. }
    destruct LD as ((Id & Jn & Hs & Ha & Hb & Hcd & Hh) & Hrs).
    pose proof (fits_height _ _ _ C Hb) as Hbh.
    exists (length (w_store w)), ah. cbn [w_store w_wal w_state w_resp w_app w_pc set_state finished].
    assert (Est : {| s_height := b_height b; s_apphash := hash; s_lastres := codes |} =
                  ref_state (w_store w) (length (w_store w))).
    { rewrite ref_state_eq, Hbh, Hh, Hcd, Hs. f_equal. lia. }
    ssplit; auto; try (intros; lia).
    cbn. ssplit; auto.
  - (* PInitChain *)
    destruct P as (Id & Jn & Ha). subst ah.
    assert (Ja : J (w_store w) (app_init A (w_app w)) 0 JIdle).
    { unfold J; cbn. unfold jadd. eapply J_snoc; [exact Jn|]. reflexivity. }
    assert (Ia : app_idle (app_init A (w_app w))).
    { destruct Id as (I1 & I2). unfold app_idle; cbn. rewrite Hacc. auto. }
    rewrite (state_height _ _ Hst).
    destruct (Z.eqb_spec (Z.of_nat sh) 0) as [Z0|Z0].
    + exists sh, 0%nat. cbn [w_store w_wal w_state w_resp w_app w_pc set_app set_pc]. ssplit; auto.
      cbn. ssplit; auto. lia.
    + exists sh, 0%nat. cbn [w_store w_wal w_state w_resp w_app w_pc set_app set_pc]. ssplit; auto.
      apply (dispatch_ok (set_app w (app_init A (w_app w)) PIdle) sh 0); cbn; auto.
      destruct Hst as [H|(H & _)]; [exact H|lia].
  - (* PInitSave *)
    destruct P as (Id & Jn & Ha & Hs & Hh). subst ah sh hash.
    assert (Est : {| s_height := s_height (w_state w); s_apphash := enc (ainit A); s_lastres := s_lastres (w_state w) |} =
                  ref_state (w_store w) 0).
    { rewrite ref_state_eq. destruct Hst as [H|(_ & _ & H)]; rewrite H; [rewrite ref_state_eq|]; reflexivity. }
    exists 0%nat, 0%nat. cbn [w_store w_wal w_state w_resp w_app w_pc set_state set_pc]. ssplit; auto.
    apply (dispatch_ok (set_state w _ PIdle) 0 0); cbn; auto.
Qed.

Lemma do_op_inv : forall w o, Inv w -> Inv (do_op w o).
Proof.
  intros w o H. destruct o; cbn.
  - destruct (is_idle (w_pc w)) eqn:E; [|exact H]. apply commit_inv; [exact H|].
    destruct (w_pc w); try discriminate; reflexivity.
  - destruct (is_down (w_pc w)) eqn:E; [|exact H]. apply restart_inv; auto.
  - apply step_inv; exact H.
  - apply crash_inv; exact H.
  - destruct (is_down (w_pc w)) eqn:E; [|exact H]. cbn.
    destruct (Z.leb_spec 0 k); [|exact H]. cbn.
    destruct (Z.ltb_spec k (a_height (w_app w))); [|exact H]. cbn.
    apply rollback_inv; auto.
Qed.

Lemma inv0 : Inv (world0 A).
Proof.
  exists 0%nat, 0%nat. cbn. ssplit; auto.
  - intros i b H. destruct i; discriminate.
  - constructor.
  - intros. discriminate.
  - unfold app_idle; cbn; auto.
  - reflexivity.
Qed.

Lemma run_inv : forall ops w, Inv w -> Inv (run ops w).
Proof.
  induction ops as [|o r IH]; intros w H; cbn; [exact H|]. apply IH. apply do_op_inv. exact H.
Qed.

(* ---------------------------------------------------------------- what an accepted journal means *)

(* the height the application reports (Info) after a journal: its last Commit / restore *)
Fixpoint reported_height (j : list jev) (h : Z) : Z :=
  match j with
  | [] => h
  | JCommit x :: r => reported_height r x
  | JRollback k :: r => reported_height r k
  | _ :: r => reported_height r h
  end.

Lemma jrun_height : forall chain j s r, jrun chain s j = Some r -> fst r = reported_height j (fst s).
Proof.
  intros chain j. induction j as [|e j IH]; intros [ah ph] r H; cbn [jrun] in H.
  - inversion H; reflexivity.
  - destruct (jstep chain (ah, ph) e) as [s'|] eqn:E; [|discriminate].
    rewrite (IH _ _ H). clear IH H.
    destruct e, ph; cbn in E; try discriminate; cbn;
      repeat match type of E with
             | (if ?c then _ else _) = _ => destruct c eqn:?; try discriminate
             | match ?c with Some _ => _ | None => _ end = _ => destruct c; try discriminate
             end; inversion E; subst; cbn; try reflexivity.
    apply Z.eqb_eq in Heqb. congruence.
Qed.

Lemma jrun_split : forall chain j1 e j2 s r,
  jrun chain s (j1 ++ e :: j2) = Some r ->
  exists s1 s2, jrun chain s j1 = Some s1 /\ jstep chain s1 e = Some s2.
Proof.
  intros chain j1. induction j1 as [|x j1 IH]; intros e j2 s r H; cbn [jrun List.app] in *.
  - destruct (jstep chain s e) eqn:E; [|discriminate]. eauto.
  - destruct (jstep chain s x) as [s'|]; [|discriminate]. eapply IH; exact H.
Qed.

Lemma phase_in : forall chain j ah h d,
  jrun chain (0, JIdle) j = Some (ah, JIn h d) ->
  exists j0, j = j0 ++ JBegin h :: map JDeliver d.
Proof.
  intros chain j. induction j as [|e j IH] using rev_ind; intros ah h d H.
  - cbn in H. discriminate.
  - rewrite jrun_snoc in H. destruct (jrun chain (0, JIdle) j) as [[ah' ph']|] eqn:E; [|discriminate].
    destruct e, ph'; cbn in H; try discriminate;
      repeat match type of H with
             | (if ?c then _ else _) = _ => destruct c eqn:?; try discriminate
             | match ?c with Some _ => _ | None => _ end = _ => destruct c; try discriminate
             end; inversion H; subst.
    + exists j. reflexivity.
    + destruct (IH _ _ _ eq_refl) as (j0 & ->). exists j0.
      rewrite map_app. cbn. rewrite <- app_assoc. reflexivity.
Qed.

Lemma phase_ended : forall chain j ah h,
  jrun chain (0, JIdle) j = Some (ah, JEnded h) ->
  exists j0 b, j = j0 ++ JBegin h :: map JDeliver (b_txs b) ++ [JEnd h] /\ load_block chain h = Some b.
Proof.
  intros chain j ah h H. destruct j as [|e j] using rev_ind; [discriminate|]. clear IHj.
  rewrite jrun_snoc in H. destruct (jrun chain (0, JIdle) j) as [[ah' ph']|] eqn:E; [|discriminate].
  destruct e, ph'; cbn in H; try discriminate;
    try (match type of H with (if ?c then _ else _) = _ => destruct c; discriminate end).
  destruct (h0 =? h1) eqn:E1; [|discriminate]. apply Z.eqb_eq in E1. subst h1.
  destruct (load_block chain h0) as [b|] eqn:L; [|discriminate].
  destruct (list_tx_eqb delivered (b_txs b)) eqn:E2; [|discriminate]. inversion H; subst.
  destruct (phase_in _ _ _ _ _ E) as (j0 & ->).
  assert (delivered = b_txs b).
  { clear - E2. unfold list_tx_eqb, list_N_eqb in E2. apply andb_true_iff in E2 as [L F].
    apply Nat.eqb_eq in L. revert L F. generalize (b_txs b). induction delivered as [|x r IH]; intros [|y l] L F; cbn in *; try discriminate; auto.
    apply andb_true_iff in F as [F1 F2]. apply N.eqb_eq in F1. subst. f_equal. apply IH; auto. }
  subst delivered. exists j0, b. split; [|exact L]. rewrite <- app_assoc. reflexivity.
Qed.

(* ---------------------------------------------------------------- the theorems (proved here, stated in Props.v) *)

Definition reach (ops : list mop) : world := run ops (world0 A).

Lemma reach_inv : forall ops, Inv (reach ops).
Proof. intros. apply run_inv. apply inv0. Qed.

Lemma journal_accepted : forall ops,
  journal_ok (w_store (reach ops)) (a_journal (w_app (reach ops))) = true.
Proof.
  intros ops. destruct (reach_inv ops) as (sh & ah & C & Hn & Hst & Hah & Hle & Hacc & Hsn & Hr & Hw & P).
  destruct (pcinv_J _ _ _ _ _ _ _ _ P) as (ph & Jn). unfold journal_ok. unfold J in Jn. rewrite Jn. reflexivity.
Qed.

Lemma journal_run : forall ops, exists r,
  jrun (w_store (reach ops)) (0, JIdle) (a_journal (w_app (reach ops))) = Some r.
Proof.
  intros ops. pose proof (journal_accepted ops) as H. unfold journal_ok in H.
  destruct (jrun _ _ _) as [r|]; [eauto|discriminate].
Qed.

Lemma initchain_only_at_zero : forall ops j1 j2,
  a_journal (w_app (reach ops)) = j1 ++ JInit :: j2 -> reported_height j1 0 = 0.
Proof.
  intros ops j1 j2 E. destruct (journal_run ops) as (r & H). rewrite E in H.
  destruct (jrun_split _ _ _ _ _ _ H) as ([ah ph] & s2 & H1 & H2).
  pose proof (jrun_height _ _ _ _ H1) as Hh. cbn in Hh. rewrite <- Hh.
  destruct ph; cbn in H2; try discriminate. destruct (Z.eqb_spec ah 0); [auto|discriminate].
Qed.

Lemma begin_is_next_height : forall ops j1 h j2,
  a_journal (w_app (reach ops)) = j1 ++ JBegin h :: j2 -> h = reported_height j1 0 + 1.
Proof.
  intros ops j1 h j2 E. destruct (journal_run ops) as (r & H). rewrite E in H.
  destruct (jrun_split _ _ _ _ _ _ H) as ([ah ph] & s2 & H1 & H2).
  pose proof (jrun_height _ _ _ _ H1) as Hh. cbn in Hh. rewrite <- Hh.
  destruct ph; cbn in H2; try discriminate. destruct (Z.eqb_spec h (ah + 1)); [auto|discriminate].
Qed.

Lemma commit_follows_block : forall ops j1 h j2,
  a_journal (w_app (reach ops)) = j1 ++ JCommit h :: j2 ->
  exists j0 b, j1 = j0 ++ JBegin h :: map JDeliver (b_txs b) ++ [JEnd h] /\
               load_block (w_store (reach ops)) h = Some b.
Proof.
  intros ops j1 h j2 E. destruct (journal_run ops) as (r & H). rewrite E in H.
  destruct (jrun_split _ _ _ _ _ _ H) as ([ah ph] & s2 & H1 & H2).
  destruct ph; cbn in H2; try discriminate. destruct (Z.eqb_spec h h0); [|discriminate]. subst h0.
  eapply phase_ended; exact H1.
Qed.

Lemma end_follows_txs : forall ops j1 h j2,
  a_journal (w_app (reach ops)) = j1 ++ JEnd h :: j2 ->
  exists j0 b, j1 = j0 ++ JBegin h :: map JDeliver (b_txs b) /\
               load_block (w_store (reach ops)) h = Some b.
Proof.
  intros ops j1 h j2 E. destruct (journal_run ops) as (r & H).
  assert (E' : a_journal (w_app (reach ops)) = (j1 ++ [JEnd h]) ++ j2) by (rewrite <- app_assoc; exact E).
  destruct j2 as [|e j2].
  - rewrite app_nil_r in E'. rewrite E' in H. destruct r as [ah ph].
    rewrite jrun_snoc in H. destruct (jrun _ _ j1) as [[ah' ph']|] eqn:E1; [|discriminate].
    assert (exists x, jrun (w_store (reach ops)) (0, JIdle) (j1 ++ [JEnd h]) = Some (x, JEnded h)) as (x & Hx).
    { rewrite jrun_snoc, E1. destruct ph'; cbn in H |- *; try discriminate.
      destruct (Z.eqb_spec h h0); [subst h0|discriminate]. destruct (load_block _ h); [|discriminate].
      destruct (list_tx_eqb _ _); [|discriminate]. eauto. }
    destruct (phase_ended _ _ _ _ Hx) as (j0 & b & Hj & L). exists j0, b. split; [|exact L].
    change (JBegin h :: map JDeliver (b_txs b) ++ [JEnd h]) with ((JBegin h :: map JDeliver (b_txs b)) ++ [JEnd h]) in Hj.
    rewrite app_assoc in Hj. apply app_inj_tail in Hj. tauto.
  - rewrite E' in H. destruct (jrun_split _ _ _ _ _ _ H) as ([ah ph] & s2 & H1 & _).
    assert (ph = JEnded h).
    { rewrite jrun_snoc in H1. destruct (jrun _ _ j1) as [[ah' ph']|]; [|discriminate].
      destruct ph'; cbn in H1; try discriminate. destruct (h =? h0) eqn:Eh; [|discriminate].
      apply Z.eqb_eq in Eh. subst h0.
      destruct (load_block _ h); [|discriminate]. destruct (list_tx_eqb _ _); [|discriminate].
      inversion H1; reflexivity. }
    subst ph. destruct (phase_ended _ _ _ _ H1) as (j0 & b & Hj & L). exists j0, b. split; [|exact L].
    change (JBegin h :: map JDeliver (b_txs b) ++ [JEnd h]) with ((JBegin h :: map JDeliver (b_txs b)) ++ [JEnd h]) in Hj.
    rewrite app_assoc in Hj. apply app_inj_tail in Hj. tauto.
Qed.

Lemma never_fails : forall ops c, w_pc (reach ops) <> PFailed c.
Proof.
  intros ops c E. destruct (reach_inv ops) as (sh & ah & C & Hn & Hst & Hah & Hle & Hacc & Hsn & Hr & Hw & P).
  rewrite E in P. exact P.
Qed.

Lemma recovery_agrees : forall ops, w_pc (reach ops) = PIdle ->
  let w := reach ops in
  store_height (w_store w) = s_height (w_state w) /\
  s_height (w_state w) = a_height (w_app w) /\
  s_apphash (w_state w) = enc (a_acc (w_app w)) /\
  w_state w = ref_state (w_store w) (length (w_store w)) /\
  a_work (w_app w) = a_acc (w_app w).
Proof.
  intros ops E. cbn zeta.
  destruct (reach_inv ops) as (sh & ah & C & Hn & Hst & Hah & Hle & Hacc & Hsn & Hr & Hw & P).
  rewrite E in P. cbn in P. destruct P as ((Iw & Ic) & Jn & Hs & Ha & St). subst sh ah.
  rewrite St, ref_state_eq, Hah, Hacc. cbn. unfold store_height. ssplit; auto. congruence.
Qed.

Lemma cursors : forall ops,
  let w := reach ops in
  s_height (w_state w) <= store_height (w_store w) <= s_height (w_state w) + 1 /\
  0 <= a_height (w_app w) <= store_height (w_store w) /\
  Forall (fun h => h <= store_height (w_store w)) (w_wal w).
Proof.
  intros ops. cbn zeta.
  destruct (reach_inv ops) as (sh & ah & C & Hn & Hst & Hah & Hle & Hacc & Hsn & Hr & Hw & P).
  rewrite (state_height _ _ Hst), Hah. unfold store_height. ssplit; try lia. exact Hw.
Qed.

Lemma saved_state_is_crash_free : forall ops,
  let w := reach ops in
  w_state w = genesis_state \/ exists n, (n <= length (w_store w))%nat /\ w_state w = ref_state (w_store w) n.
Proof.
  intros ops. cbn zeta.
  destruct (reach_inv ops) as (sh & ah & C & Hn & Hst & Hah & Hle & Hacc & Hsn & Hr & Hw & P).
  destruct Hst as [H|(_ & _ & H)]; [right; exists sh; split; [lia|exact H]|left; exact H].
Qed.

Lemma app_state_is_crash_free : forall ops,
  let w := reach ops in
  exists n, a_height (w_app w) = Z.of_nat n /\ (n <= length (w_store w))%nat /\
            a_acc (w_app w) = racc (w_store w) n.
Proof.
  intros ops. cbn zeta.
  destruct (reach_inv ops) as (sh & ah & C & Hn & Hst & Hah & Hle & Hacc & Hsn & Hr & Hw & P).
  exists ah. auto.
Qed.

(* ---------------------------------------------------------------- termination of the procedures *)

Definition cost (b : block) : nat := 7 + length (b_txs b).
Definition tailcost (S : list block) (i : nat) : nat :=
  fold_right (fun b acc => cost b + acc)%nat 0%nat (skipn i S).
Definition kafter (S : list block) (k : xctx) (b : block) : nat :=
  match k with KLoop _ _ => tailcost S (Z.to_nat (b_height b)) | _ => 0%nat end.

Definition mupc (S : list block) (p : pc) : nat :=
  match p with
  | PDown | PFailed _ | PIdle => 0
  | PSaveBlock b => 9 + length (b_txs b)
  | PWalEnd b => 8 + length (b_txs b)
  | PBegin k b => 6 + length (b_txs b) + kafter S k b
  | PDeliver k b rest _ => 5 + length rest + kafter S k b
  | PEnd k b _ => 4 + kafter S k b
  | PSaveResp k b _ => 3 + kafter S k b
  | PCommit k b _ => 2 + kafter S k b
  | PSaveState _ _ _ _ => 1
  | PInitChain => tailcost S 0 + 5
  | PInitSave _ => tailcost S 0 + 4
  end%nat.

Definition mu (w : world) : nat := mupc (w_store w) (w_pc w).

Lemma tailcost_nth : forall S i b, nth_error S i = Some b ->
  tailcost S i = (cost b + tailcost S (Datatypes.S i))%nat.
Proof. intros S i b H. unfold tailcost. rewrite (skipn_nth_cons _ _ _ _ H). reflexivity. Qed.

Lemma tailcost_S : forall S i, (tailcost S (Datatypes.S i) <= tailcost S i)%nat.
Proof.
  intros S i. destruct (nth_error S i) as [b|] eqn:E.
  - rewrite (tailcost_nth _ _ _ E). lia.
  - apply nth_error_None in E. unfold tailcost. rewrite !skipn_all2 by lia. cbn. lia.
Qed.

Lemma tailcost_mono : forall S i j, (i <= j)%nat -> (tailcost S j <= tailcost S i)%nat.
Proof.
  intros S i j H. induction H as [|j H IH]; [lia|]. pose proof (tailcost_S S j). lia.
Qed.

Lemma mu_replay_last : forall (w : world) i, (i < length (w_store w))%nat ->
  (mupc (w_store w) (enter_replay_last w) <= tailcost (w_store w) i)%nat.
Proof.
  intros w i H. unfold enter_replay_last, store_height.
  replace (Z.of_nat (length (w_store w))) with (Z.of_nat (length (w_store w) - 1) + 1) by lia.
  rewrite load_block_nth. destruct (nth_error (w_store w) (length (w_store w) - 1)) as [b|] eqn:E; [|cbn; lia].
  unfold enter_apply. destruct (validate_block (w_state w) b); [|cbn; lia]. cbn.
  pose proof (tailcost_nth _ _ _ E). pose proof (tailcost_mono (w_store w) i (length (w_store w) - 1)).
  unfold cost in *. lia.
Qed.

Lemma mu_loop_next : forall (w : world) i hash final (mutate : bool),
  chain_ok (w_store w) -> (mutate = true -> (i < length (w_store w))%nat) ->
  (mupc (w_store w) (loop_next w (Z.of_nat i + 1) hash final mutate) <= tailcost (w_store w) i)%nat.
Proof.
  intros w i hash final mutate C M. unfold loop_next.
  destruct (Z.of_nat i + 1 <=? final).
  - rewrite load_block_nth. destruct (nth_error (w_store w) i) as [b|] eqn:E; [|cbn; lia].
    destruct (hash_nonempty hash && negb (hash =? b_apphash b)); [cbn; lia|]. cbn.
    rewrite (fits_height _ _ _ C E). replace (Z.to_nat (Z.of_nat i + 1)) with (Datatypes.S i) by lia.
    rewrite (tailcost_nth _ _ _ E). unfold cost. lia.
  - destruct mutate.
    + apply mu_replay_last. auto.
    + destruct (hash =? s_apphash (w_state w)); cbn; lia.
Qed.

Lemma mu_dispatch : forall (w : world) ah hash,
  chain_ok (w_store w) -> a_height (w_app w) = Z.of_nat ah ->
  (mupc (w_store w) (dispatch w hash) <= tailcost (w_store w) 0 + 3)%nat.
Proof.
  intros w ah hash C Ha. unfold dispatch. rewrite Ha. unfold store_height.
  destruct (Z.eqb_spec (Z.of_nat (length (w_store w))) 0).
  { destruct (hash =? _); cbn; lia. }
  assert (L0 : (0 < length (w_store w))%nat) by lia.
  repeat match goal with
         | |- context [if ?c then PFailed _ else _] => destruct c; [cbn; lia|]
         end.
  destruct (Z.eqb_spec (Z.of_nat (length (w_store w))) (s_height (w_state w))).
  - destruct (Z.ltb_spec (Z.of_nat ah) (Z.of_nat (length (w_store w)))).
    + pose proof (mu_loop_next w ah EMPTY (Z.of_nat (length (w_store w))) false C ltac:(discriminate)).
      pose proof (tailcost_mono (w_store w) 0 ah). lia.
    + destruct (Z.of_nat ah =? _); [|cbn; lia]. destruct (hash =? _); cbn; lia.
  - destruct (Z.eqb_spec (Z.of_nat (length (w_store w))) (s_height (w_state w) + 1)); [|cbn; lia].
    destruct (Z.ltb_spec (Z.of_nat ah) (s_height (w_state w))).
    + assert (M : true = true -> (ah < length (w_store w))%nat) by (intros; lia).
      pose proof (mu_loop_next w ah EMPTY (Z.of_nat (length (w_store w)) - 1) true C M).
      pose proof (tailcost_mono (w_store w) 0 ah). lia.
    + destruct (Z.of_nat ah =? s_height (w_state w)).
      * pose proof (mu_replay_last w 0 L0). lia.
      * destruct (Z.of_nat ah =? _); [|cbn; lia].
        destruct (w_resp w) as [[rh codes]|]; [|cbn; lia].
        destruct (negb (rh =? _)); [cbn; lia|].
        destruct (load_block _ _); [|cbn; lia].
        destruct (negb _); [cbn; lia|]. destruct (_ <? _)%nat; cbn; lia.
Qed.

Lemma step_decreases : forall w, Inv w -> is_terminal (w_pc w) = false -> (mu (step w) < mu w)%nat.
Proof.
  intros w (sh & ah & C & Hn & Hst & Hah & Hle & Hacc & Hsn & Hr & Hw & P) T.
  unfold mu, step. destruct (w_pc w) eqn:Epc; try discriminate; cbn [pcinv] in P; cbn [mupc].
  - cbn [mupc length kafter w_store w_pc set_state finished]; lia.
  - cbn [w_store w_pc set_pc]. unfold enter_apply. destruct (validate_block _ b); cbn [mupc length kafter w_store w_pc set_pc set_app set_state]; lia.
  - cbn [w_store w_pc set_app]. unfold next_deliver. destruct (b_txs b); cbn [mupc length kafter w_store w_pc set_pc set_app set_state]; lia.
  - destruct rest as [|t r]; [cbn [mupc length kafter w_store w_pc set_pc set_app set_state]; lia|]. destruct (app_deliver A (w_app w) t) as [a c].
    cbn [w_store w_pc set_app]. unfold next_deliver. destruct r; cbn [mupc length kafter w_store w_pc set_pc set_app set_state]; lia.
  - cbn [w_store w_pc set_app]. destruct k; cbn [mupc length kafter w_store w_pc set_pc set_app set_state]; lia.
  - cbn [w_store w_pc]. destruct k; cbn [mupc length kafter w_store w_pc set_pc set_app set_state]; lia.
  - destruct (app_commit (w_app w)) as [a h] eqn:Eac. destruct k; try (cbn [mupc length kafter w_store w_pc set_pc set_app set_state]; lia).
    cbn [w_store w_pc set_app set_pc].
    destruct P as (i & Hb & Hi & (Hk1 & Hk2 & Hk3) & _). subst i.
    pose proof (fits_height _ _ _ C Hb) as Hh.
    replace (b_height b + 1) with (Z.of_nat (Z.to_nat (b_height b)) + 1) by lia.
    assert (M : mutate = true -> (Z.to_nat (b_height b) < length (w_store w))%nat).
    { intros ->. lia. }
    pose proof (mu_loop_next (set_app w a PIdle) (Z.to_nat (b_height b)) h final mutate C M) as B.
    cbn [w_store set_app] in B. cbn [mupc kafter]. lia.
  - cbn [mupc length kafter w_store w_pc set_state finished]; lia.
  - destruct (s_height (w_state w) =? 0).
    + cbn [mupc length kafter w_store w_pc set_pc set_app]; lia.
    + cbn [w_store w_pc set_app set_pc].
      pose proof (mu_dispatch (set_app w (app_init A (w_app w)) PIdle) ah (enc (ainit A)) C Hah) as B.
      cbn [w_store set_app] in B. cbn [mupc]. lia.
  - cbn [w_store w_pc set_state set_pc].
    match goal with |- context [dispatch ?w1 ?h] => pose proof (mu_dispatch w1 ah h C Hah) as B end.
    cbn [w_store set_state] in B. cbn [mupc]. lia.
Qed.

Fixpoint iter (k : nat) (w : world) : world := match k with O => w | Datatypes.S k' => iter k' (step w) end.

Lemma run_steps : forall k w, run (repeat MStep k) w = iter k w.
Proof. induction k as [|k IH]; intros w; cbn; [reflexivity|apply IH]. Qed.

Lemma iter_inv : forall k w, Inv w -> Inv (iter k w).
Proof. induction k as [|k IH]; intros w H; cbn; [exact H|]. apply IH. apply step_inv. exact H. Qed.

Lemma terminates : forall m w, (mu w <= m)%nat -> Inv w ->
  exists k, is_terminal (w_pc (iter k w)) = true /\
            forall j, (j < k)%nat -> is_terminal (w_pc (iter j w)) = false.
Proof.
  induction m as [|m IH]; intros w Hm Hi.
  - destruct (is_terminal (w_pc w)) eqn:T.
    + exists 0%nat. split; [exact T|]. intros; lia.
    + pose proof (step_decreases w Hi T). lia.
  - destruct (is_terminal (w_pc w)) eqn:T.
    + exists 0%nat. split; [exact T|]. intros; lia.
    + pose proof (step_decreases w Hi T) as D.
      destruct (IH (step w) ltac:(lia) (step_inv _ Hi)) as (k & Hk & Hj).
      exists (Datatypes.S k). split; [exact Hk|]. intros [|j] Lj; [exact T|]. cbn. apply Hj. lia.
Qed.

(* what a step can lead to: never "down", never "about to save a block" *)
Definition benign (p : pc) : bool := match p with PDown | PSaveBlock _ => false | _ => true end.

Lemma enter_replay_last_benign : forall w, benign (enter_replay_last w) = true.
Proof.
  intros. unfold enter_replay_last, enter_apply. destruct (load_block _ _); [|reflexivity].
  destruct (validate_block _ _); reflexivity.
Qed.

Lemma loop_next_benign : forall w i h f m, benign (loop_next w i h f m) = true.
Proof.
  intros. unfold loop_next. destruct (i <=? f).
  - destruct (load_block _ _); [|reflexivity]. destruct (_ && _); reflexivity.
  - destruct m; [apply enter_replay_last_benign|]. destruct (_ =? _); reflexivity.
Qed.

Lemma dispatch_benign : forall w h, benign (dispatch w h) = true.
Proof.
  intros. unfold dispatch.
  repeat match goal with
         | |- benign (if ?c then _ else _) = true => destruct c
         | |- benign (match ?c with Some _ => _ | None => _ end) = true => destruct c
         | |- benign (let '(_, _) := ?c in _) = true => destruct c
         end; try reflexivity; try apply loop_next_benign; try apply enter_replay_last_benign.
Qed.

Lemma step_benign : forall w, is_terminal (w_pc w) = false -> benign (w_pc (step w)) = true.
Proof.
  intros w T. unfold step. destruct (w_pc w) eqn:E; try discriminate; cbn [w_pc set_pc set_app set_state].
  - reflexivity.
  - unfold enter_apply. destruct (validate_block _ _); reflexivity.
  - unfold next_deliver. destruct (b_txs b); reflexivity.
  - destruct rest; [reflexivity|]. destruct (app_deliver A (w_app w) t). cbn. unfold next_deliver. destruct rest; reflexivity.
  - destruct k; reflexivity.
  - destruct k; reflexivity.
  - destruct (app_commit (w_app w)). destruct k; try reflexivity. cbn. apply loop_next_benign.
  - reflexivity.
  - destruct (_ =? _); cbn; [reflexivity|apply dispatch_benign].
  - cbn. apply dispatch_benign.
Qed.

Lemma step_store : forall w, (forall b, w_pc w <> PSaveBlock b) -> w_store (step w) = w_store w.
Proof.
  intros w H. unfold step. destruct (w_pc w) eqn:E; try reflexivity.
  - exfalso. eapply H; reflexivity.
  - destruct rest; [reflexivity|]. destruct (app_deliver A (w_app w) t). reflexivity.
  - destruct (app_commit (w_app w)). destruct k; reflexivity.
  - destruct (_ =? _); reflexivity.
Qed.

Lemma benign_not_save : forall p, benign p = true -> forall b, p <> PSaveBlock b.
Proof. intros p H b ->. discriminate. Qed.

(* running a procedure to its end from a non-terminal, benign start *)
Lemma finish : forall w, Inv w -> benign (w_pc w) = true ->
  exists k, w_pc (iter k w) = PIdle /\ w_store (iter k w) = w_store w.
Proof.
  intros w Hi Hb. destruct (terminates (mu w) w (le_n _) Hi) as (k & Hk & Hj).
  exists k.
  assert (G : forall j, (j <= k)%nat -> benign (w_pc (iter j w)) = true /\ w_store (iter j w) = w_store w).
  { clear Hk. induction j as [|j IH]; intros Lj; [auto|].
    destruct (IH ltac:(lia)) as (B1 & S1).
    assert (Ej : iter (Datatypes.S j) w = step (iter j w)).
    { clear. revert w. induction j as [|j IH]; intros w; [reflexivity|]. cbn in *. apply IH. }
    rewrite Ej. split.
    - apply step_benign. apply Hj. lia.
    - rewrite step_store; [exact S1|]. apply benign_not_save. exact B1. }
  destruct (G k (le_n _)) as (B & St). split; [|exact St].
  pose proof (iter_inv k w Hi) as (sh & ah & _ & _ & _ & _ & _ & _ & _ & _ & _ & P).
  destruct (w_pc (iter k w)); try discriminate; try contradiction. reflexivity.
Qed.

Lemma handshake_total : forall ops, is_down (w_pc (reach ops)) = true ->
  exists k, w_pc (run (MRestart :: repeat MStep k) (reach ops)) = PIdle.
Proof.
  intros ops D. pose proof (restart_inv _ (reach_inv ops) D) as Hi.
  assert (B : benign (w_pc (set_pc (reach ops) (start_handshake (reach ops)))) = true).
  { cbn. unfold start_handshake. destruct (_ =? _); [reflexivity|apply dispatch_benign]. }
  destruct (finish _ Hi B) as (k & Hk & _). exists k.
  cbn [run Model.run fold_left]. cbn [do_op Model.do_op]. rewrite D.
  change (fold_left (Model.do_op A) (repeat MStep k)) with (run (repeat MStep k)).
  rewrite run_steps. exact Hk.
Qed.

Lemma recovery_progress : forall ops txs, w_pc (reach ops) = PIdle ->
  exists k, let w' := run (MCommit txs :: repeat MStep k) (reach ops) in
    w_pc w' = PIdle /\
    w_store w' = w_store (reach ops) ++ [make_block (w_state (reach ops)) txs].
Proof.
  intros ops txs E. pose proof (commit_inv _ txs (reach_inv ops) E) as Hi.
  (* finalizeCommit starts with SaveBlock *)
  assert (Sp : start_commit (reach ops) txs = PSaveBlock (make_block (w_state (reach ops)) txs)).
  { destruct (reach_inv ops) as (sh & ah & C & Hn & Hst & Hah & Hle & Hacc & Hsn & Hr & Hw & P).
    rewrite E in P. cbn in P. destruct P as (Id & Jn & Hs & Ha & St).
    unfold start_commit.
    assert (F : fits (w_store (reach ops)) (length (w_store (reach ops))) (make_block (w_state (reach ops)) txs)).
    { rewrite St, ref_state_eq. unfold fits, make_block; cbn. auto. }
    pose proof (validate_fits _ _ _ F) as V. rewrite <- St in V. rewrite V. cbn [negb].
    unfold store_height. destruct F as (Fh & _). rewrite Fh.
    destruct (Z.ltb_spec (Z.of_nat (length (w_store (reach ops)))) (Z.of_nat (length (w_store (reach ops))) + 1)); [reflexivity|lia]. }
  set (w1 := set_pc (reach ops) (start_commit (reach ops) txs)) in *.
  pose proof (step_inv _ Hi) as Hi2.
  assert (B2 : benign (w_pc (step w1)) = true).
  { apply step_benign. unfold w1. cbn. rewrite Sp. reflexivity. }
  destruct (finish _ Hi2 B2) as (k & Hk & Hs). exists (Datatypes.S k). cbn zeta.
  cbn [run Model.run fold_left repeat]. cbn [do_op Model.do_op]. rewrite E. cbn [is_idle].
  fold w1. change (fold_left (Model.do_op A) (repeat MStep k)) with (run (repeat MStep k)).
  rewrite run_steps. split; [exact Hk|]. rewrite Hs. unfold step, w1. cbn [w_pc set_pc]. rewrite Sp. reflexivity.
Qed.

(* ---------------------------------------------------------------- without application restores
   the application is never behind the saved state: the three cursors are within one *)

Definition is_rollback (o : mop) : bool := match o with MRollback _ => true | _ => false end.

Lemma step_app_ge_state : forall w, Inv w ->
  s_height (w_state w) <= a_height (w_app w) ->
  s_height (w_state (step w)) <= a_height (w_app (step w)).
Proof.
  intros w (sh & ah & C & Hn & Hst & Hah & Hle & Hacc & Hsn & Hr & Hw & P) G.
  pose proof (state_height _ _ Hst) as Hsh.
  unfold step. destruct (w_pc w) eqn:Epc; cbn [pcinv] in P; try exact G; try (cbn; exact G).
  - (* PDeliver *) destruct rest; [exact G|]. unfold app_deliver. destruct (adeliver A _ _). exact G.
  - (* PCommit *)
    assert (EM : exists i, nth_error (w_store w) i = Some b /\ ah = i /\ ctx_ok (length (w_store w)) sh k i /\
                 a_cur (w_app w) = b_height b).
    { destruct k; try contradiction; [destruct P as (P & _)|destruct P as (P & _)|];
        destruct P as (i & h1 & h2 & h3 & h4 & h5 & h6); exists i; auto. }
    destruct EM as (i & Hb & Hi & Hk & Hc). subst i.
    pose proof (fits_height _ _ _ C Hb) as Hh.
    unfold app_commit. rewrite Hc. destruct (Z.ltb_spec 0 (b_height b)); [|lia].
    destruct k; cbn; lia.
  - (* PSaveState *)
    assert (LD : last_done (w_store w) (length (w_store w)) sh ah (w_app w) b codes hash).
    { destruct k; try contradiction; destruct P as (P & _); exact P. }
    destruct LD as (Id & Jn & Hs & Ha & Hb & _).
    pose proof (fits_height _ _ _ C Hb) as Hh. cbn. lia.
  - (* PInitChain *)
    destruct (_ =? _); cbn; exact G.
Qed.

Lemma do_op_app_ge_state : forall w o, Inv w -> is_rollback o = false ->
  s_height (w_state w) <= a_height (w_app w) ->
  s_height (w_state (do_op w o)) <= a_height (w_app (do_op w o)).
Proof.
  intros w o Hi R G. destruct o; try discriminate; cbn.
  - destruct (is_idle _); exact G.
  - destruct (is_down _); exact G.
  - apply step_app_ge_state; auto.
  - exact G.
Qed.

Lemma app_not_behind_state : forall ops,
  (forall o, In o ops -> is_rollback o = false) ->
  s_height (w_state (reach ops)) <= a_height (w_app (reach ops)).
Proof.
  intros ops H. unfold reach.
  assert (G : forall l w, Inv w -> (forall o, In o l -> is_rollback o = false) ->
              s_height (w_state w) <= a_height (w_app w) ->
              s_height (w_state (run l w)) <= a_height (w_app (run l w))).
  { induction l as [|o l IH]; intros w Hi Hl Hg; cbn; [exact Hg|].
    apply IH; [apply do_op_inv; exact Hi|intros; apply Hl; right; auto|].
    apply do_op_app_ge_state; auto. apply Hl. left; reflexivity. }
  apply G; [apply inv0|exact H|cbn; lia].
Qed.

End P.
