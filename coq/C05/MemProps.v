(* C05, last clause — "From the moment a commit is requested until the mempool has been updated
   and rechecked for that block, no check of a new transaction is started or in flight on the
   mempool connection", for all interleavings of concurrent transaction submissions with block
   commits.  Only the statements; each is closed by [exact] of a lemma of MemProofs.v.

   The model (MemModel.v) is a labelled transition system: [run v rc sched (init k)] executes the
   schedule [sched] (labels that are not enabled are skipped) with k submitter threads, one
   consensus thread and the application serving the FIFO mempool connection; v = V0 is
   mempool/v0 (CListMempool), v = V1 is mempool/v1 (TxMempool); rc = config.Recheck.
   All theorems quantify over EVERY schedule, any k and any number of Commit rounds. *)
From Coq Require Import List Arith NArith Bool.
From TM Require Import C05.MemModel C05.MemProofs.
Import ListNotations.

(* v0: whenever the consensus thread is between "FlushSync returned" (CommitSync is the next
   call) and the deferred Unlock after "Update returned", no New-CheckTx request is pending on the
   mempool connection, and no step of any thread issues one. *)
Theorem C05_mem_no_new_checktx_during_commit :
  forall (rc : bool) (k : nat) (sched : list ev),
    let s := run V0 rc sched (init k) in
    in_window (cp s) = true ->
    no_new (q s) = true /\ forall i t, step V0 rc s (EIssueNew i t) = None.
Proof. exact no_new_checktx_during_commit. Qed.
Print Assumptions C05_mem_no_new_checktx_during_commit.

(* v0: more generally nothing is issued by a submitter from Lock() to Unlock(). *)
Theorem C05_mem_no_issue_while_locked :
  forall (rc : bool) (k : nat) (sched : list ev),
    let s := run V0 rc sched (init k) in
    cp s <> CIdle -> forall i t, step V0 rc s (EIssueNew i t) = None.
Proof. exact no_issue_while_locked. Qed.
Print Assumptions C05_mem_no_issue_while_locked.

(* v0: the monitors used on the recorded runs of the Go code (clauses 31-34: no New issued or
   executed between CommitSync requested and Update returned; no New executed while rechecks
   announced by an Update are outstanding; nothing unanswered when Commit is requested; no
   pre-check under the write lock) accept the trace of every schedule. *)
Theorem C05_mem_monitor_holds_v0 :
  forall (rc : bool) (k : nat) (sched : list ev),
    log_ok V0 (trace (run V0 rc sched (init k))) = true.
Proof. exact monitor_holds_v0. Qed.
Print Assumptions C05_mem_monitor_holds_v0.

(* v0, on the application's processing log alone: in every block interval the application
   executes all rechecks before any new-transaction check (every New executed after Commit h
   comes after all rechecks issued for h). *)
Theorem C05_mem_rechecks_precede_new :
  forall (rc : bool) (k : nat) (sched : list ev),
    applog_ok (app_log (run V0 rc sched (init k))) = true.
Proof. exact rechecks_precede_new. Qed.
Print Assumptions C05_mem_rechecks_precede_new.

(* v1 as it is: the clause FAILS (examples below).  What holds on every schedule: the lock
   itself works (no pre-check phase under the consensus thread's write lock, clause 34), so every
   failure of clauses 31-33 lies in the class of known finding 13 (F13): the new check was issued
   by a submitter whose pre-check phase ran while the lock was free, or executed while the
   rechecks dispatched after Unlock were outstanding. *)
Theorem C05_mem_v1_except_known :
  forall (rc : bool) (k : nat) (sched : list ev),
    log_ok_except_known V1 (trace (run V1 rc sched (init k))) = true.
Proof. exact monitor_v1_except_known. Qed.
Print Assumptions C05_mem_v1_except_known.

(* ---------------------------------------------------------------- non-vacuity / refutations *)

(* two submitters, a pending New drained by the flush, a Commit round with a non-empty recheck,
   a New queued behind the rechecks *)
Definition ex_v0 : list ev :=
  [ EPre 0 100; EIssueNew 0 100; ERUnlock 0; EPre 1 200; EIssueNew 1 200; EProcNew 0 100; ERUnlock 1;
    ELock; EFlushCall; EFlushReq; EProcNew 1 200; EFlushRet; EFlushDone; ECommitReq; ECommitProc;
    EUpdate [100] 1; EIssueRe 200; EFlushAsync; EUpdRet; EUnlock;
    EPre 0 101; EIssueNew 0 101; ERUnlock 0; EProcRe 200; EProcNew 0 101 ].

Example C05_mem_v0_nonvacuous :
  (* every label of the schedule is enabled in turn *)
  (exists s, run_strict V0 true ex_v0 (init 2) = Some s /\ pool s = [200; 101] /\ ht s = 1) /\
  (* the window hypothesis of C05_mem_no_new_checktx_during_commit is reached (after 15 labels
     the consensus thread has committed and not yet updated), with a non-empty pool *)
  (let s := run V0 true (firstn 15 ex_v0) (init 2) in
   in_window (cp s) = true /\ cp s = CCommitted /\ pool s = [100; 200]) /\
  (* the monitors see a non-trivial log *)
  app_log (run V0 true ex_v0 (init 2)) =
    [EProcNew 0 100; EProcNew 1 200; EFlushRet; ECommitProc; EProcRe 200; EProcNew 0 101] /\
  (* and they do reject bad logs: a New executed before the outstanding recheck *)
  log_ok V0 [ECommitReq; ECommitProc; EUpdate [] 1; EUpdRet; EProcNew 0 101; EProcRe 200] = false /\
  applog_ok [ECommitProc; EProcNew 0 101; EProcRe 200] = false.
Proof.
  split; [eexists; vm_compute; repeat split|]. vm_compute. repeat split.
Qed.

(* F13 (a): v1 dispatches the rechecks from a goroutine after Update returned and the lock was
   released; a new transaction is executed by the application before the recheck of tx 101. *)
Definition ex_v1_a : list ev :=
  [ EPre 0 100; ERUnlock 0; EIssueNew 0 100; EProcNew 0 100; EPostNew 0 100;
    EPre 0 101; ERUnlock 0; EIssueNew 0 101; EProcNew 0 101; EPostNew 0 101;
    ELock; EFlushCall; EFlushReq; EFlushRet; EFlushDone; ECommitReq; ECommitProc;
    EUpdate [100] 1; EUpdRet; EUnlock;
    EPre 1 200; ERUnlock 1; EIssueNew 1 200; EProcNew 1 200;
    EFlushAsync; EIssueRe 101; EProcRe 101; EPostNew 1 200; EPostRe 101 ].

Example C05_mem_v1_refuted_a :
  (exists s, run_strict V1 true ex_v1_a (init 2) = Some s) /\
  log_ok V1 ex_v1_a = false /\ mon_errs V1 ex_v1_a = [(32%N, true)] /\
  applog_ok (filter is_app ex_v1_a) = false /\
  run_strict V0 true ex_v1_a (init 2) = None.
Proof. split; [eexists; vm_compute; reflexivity|]. vm_compute. repeat split. Qed.

(* F13 (b): v1 calls CheckTxSync after RUnlock; submitter 1 finished its pre-check phase before
   the consensus thread took the lock, its request is issued and executed between the
   application's Commit and Update. *)
Definition ex_v1_b : list ev :=
  [ EPre 0 100; ERUnlock 0; EIssueNew 0 100; EProcNew 0 100; EPostNew 0 100;
    EPre 1 200; ERUnlock 1;
    ELock; EFlushCall; EFlushReq; EFlushRet; EFlushDone; ECommitReq; ECommitProc;
    EIssueNew 1 200; EProcNew 1 200;
    EUpdate [] 1; EUpdRet; EUnlock; EPostNew 1 200; EFlushAsync; EIssueRe 100; EProcRe 100; EPostRe 100 ].

Example C05_mem_v1_refuted_b :
  (exists s, run_strict V1 true ex_v1_b (init 2) = Some s) /\
  log_ok V1 ex_v1_b = false /\ mon_errs V1 ex_v1_b = [(31%N, true); (31%N, true)] /\
  run_strict V0 true ex_v1_b (init 2) = None.
Proof. split; [eexists; vm_compute; reflexivity|]. vm_compute. repeat split. Qed.

(* F13 (b), through FlushAppConn: v1 releases the mutex around FlushSync; a submitter that takes
   the read lock in that gap issues its request after the flush: it is unanswered when Commit is
   requested (clause 33) and executed inside the window (clause 31). *)
Definition ex_v1_b' : list ev :=
  [ ELock; EFlushCall; EPre 0 100; ERUnlock 0; EFlushReq; EFlushRet; EFlushDone;
    EIssueNew 0 100; ECommitReq; ECommitProc; EProcNew 0 100; EUpdate [] 0; EUpdRet; EUnlock;
    EPostNew 0 100 ].

Example C05_mem_v1_refuted_b_flush_gap :
  (exists s, run_strict V1 true ex_v1_b' (init 2) = Some s) /\
  mon_errs V1 ex_v1_b' = [(33%N, true); (31%N, true)] /\
  run_strict V0 true ex_v1_b' (init 2) = None.
Proof. split; [eexists; vm_compute; reflexivity|]. vm_compute. repeat split. Qed.

(* C05_mem_v1_except_known is not vacuous: the filter distinguishes.  A pre-check logged while
   the consensus thread holds the lock (impossible in the model, produced by a broken lock) is
   outside the known class, in v1 too. *)
Example C05_mem_v1_except_known_nonvacuous :
  log_ok_except_known V1 ex_v1_a = true /\ log_ok_except_known V1 ex_v1_b = true /\
  log_ok_except_known V1
    [ELock; EFlushCall; EFlushReq; EFlushRet; EFlushDone; ECommitReq; ECommitProc;
     EPre 0 100; EIssueNew 0 100; EProcNew 0 100] = false /\
  run_strict V1 true
    [ELock; EFlushCall; EFlushReq; EFlushRet; EFlushDone; ECommitReq; ECommitProc; EPre 0 100] (init 1) = None.
Proof. vm_compute. repeat split. Qed.
