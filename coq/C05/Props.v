From Coq Require Import List ZArith NArith Bool.
From TM Require Import C05.Model C05.Proofs.
Theorem C05_placeholder : True. Proof. exact I. Qed.
Print Assumptions C05_placeholder.
