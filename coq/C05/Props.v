(* C05 — the property theorems.  Part A (this file): crash recovery of the commit pipeline, for
   EVERY list of operations (block decisions, persistence steps, crashes at any step — also
   during the handshake —, restarts, and restores of the application to one of its own earlier
   commits) and every deterministic application.  Part B (mempool lock clause) is restated at the
   end from C05/MemProofs.v.

   Reading guide: [reach A ops] is the world after running [ops] from the empty node;
   [a_journal (w_app w)] is the list of calls the application received on its consensus
   connection (plus the markers JCrash / JRollback k);  [reported_height j 0] is the height the
   application reports (Info) after journal j: that of its last Commit or restore. *)
From Coq Require Import List ZArith NArith Bool.
From TM Require Import C05.Model C05.Proofs.
Import ListNotations.
Open Scope Z_scope.

(* --- journal_shape, clause by clause ------------------------------------------------------ *)

(* The journal is accepted by the monitor automaton [journal_ok] (Model.v) that the harness also
   runs on the real application's journal. *)
Theorem C05_journal_shape : forall A ops,
  journal_ok (w_store (reach A ops)) (a_journal (w_app (reach A ops))) = true.
Proof. exact journal_accepted. Qed.
Print Assumptions C05_journal_shape.

(* InitChain is sent only while the application reports that it has committed no block. *)
Theorem C05_initchain_only_at_height_0 : forall A ops j1 j2,
  a_journal (w_app (reach A ops)) = j1 ++ JInit :: j2 -> reported_height j1 0 = 0.
Proof. exact initchain_only_at_zero. Qed.
Print Assumptions C05_initchain_only_at_height_0.

(* no_replay_of_committed + no_gap: a block is begun only at the height following the one the
   application reports — a block it has committed is never executed on it again, none is skipped. *)
Theorem C05_no_replay_no_gap : forall A ops j1 h j2,
  a_journal (w_app (reach A ops)) = j1 ++ JBegin h :: j2 -> h = reported_height j1 0 + 1.
Proof. exact begin_is_next_height. Qed.
Print Assumptions C05_no_replay_no_gap.

(* EndBlock h comes right after BeginBlock h and exactly the transactions of the stored block h,
   in block order. *)
Theorem C05_block_txs_in_order : forall A ops j1 h j2,
  a_journal (w_app (reach A ops)) = j1 ++ JEnd h :: j2 ->
  exists j0 b, j1 = j0 ++ JBegin h :: map JDeliver (b_txs b) /\
               load_block (w_store (reach A ops)) h = Some b.
Proof. exact end_follows_txs. Qed.
Print Assumptions C05_block_txs_in_order.

(* Commit h comes right after a complete BeginBlock h, DeliverTx*, EndBlock h of the stored block. *)
Theorem C05_commit_follows_whole_block : forall A ops j1 h j2,
  a_journal (w_app (reach A ops)) = j1 ++ JCommit h :: j2 ->
  exists j0 b, j1 = j0 ++ JBegin h :: map JDeliver (b_txs b) ++ [JEnd h] /\
               load_block (w_store (reach A ops)) h = Some b.
Proof. exact commit_follows_block. Qed.
Print Assumptions C05_commit_follows_whole_block.

(* --- recovery ------------------------------------------------------------------------------ *)

(* recovery_agrees: whenever the node is up between heights (after a completed restart or a
   completed commit) block store, saved state and application agree on the height and the app
   hash; moreover the saved state is the one of a node that applied the stored blocks without
   ever crashing, and the application has no uncommitted execution left. *)
Theorem C05_recovery_agrees : forall A ops, w_pc (reach A ops) = PIdle ->
  let w := reach A ops in
  store_height (w_store w) = s_height (w_state w) /\
  s_height (w_state w) = a_height (w_app w) /\
  s_apphash (w_state w) = enc (a_acc (w_app w)) /\
  w_state w = ref_state A (w_store w) (length (w_store w)) /\
  a_work (w_app w) = a_acc (w_app w).
Proof. exact recovery_agrees. Qed.
Print Assumptions C05_recovery_agrees.

(* at EVERY moment (mid-procedure, right after a crash): state <= store <= state+1,
   app <= store, every #ENDHEIGHT marker is for a stored block; the saved state and the
   application's committed state are those of crash-free executions of a prefix of the store. *)
Theorem C05_cursors_within_one : forall A ops,
  let w := reach A ops in
  s_height (w_state w) <= store_height (w_store w) <= s_height (w_state w) + 1 /\
  0 <= a_height (w_app w) <= store_height (w_store w) /\
  Forall (fun h => h <= store_height (w_store w)) (w_wal w).
Proof. exact cursors. Qed.
Print Assumptions C05_cursors_within_one.

(* unless the application is restored to an older commit of its own, it is never behind the saved
   state: together with the previous theorem the three cursors differ by at most one *)
Theorem C05_app_not_behind_state : forall A ops,
  (forall o, In o ops -> is_rollback o = false) ->
  s_height (w_state (reach A ops)) <= a_height (w_app (reach A ops)).
Proof. exact app_not_behind_state. Qed.
Print Assumptions C05_app_not_behind_state.

Theorem C05_saved_state_is_crash_free : forall A ops,
  let w := reach A ops in
  w_state w = genesis_state \/
  exists n, (n <= length (w_store w))%nat /\ w_state w = ref_state A (w_store w) n.
Proof. exact saved_state_is_crash_free. Qed.
Print Assumptions C05_saved_state_is_crash_free.

Theorem C05_app_state_is_crash_free : forall A ops,
  let w := reach A ops in
  exists n, a_height (w_app w) = Z.of_nat n /\ (n <= length (w_store w))%nat /\
            a_acc (w_app w) = racc A (w_store w) n.
Proof. exact app_state_is_crash_free. Qed.
Print Assumptions C05_app_state_is_crash_free.

(* handshake_total, safety half: no reachable world is a failure — none of the error returns
   and panics of Handshake/ReplayBlocks/replayBlocks/ApplyBlock (app hash asserts, heights out
   of range, missing ABCI responses, "uncovered case") is ever hit. *)
Theorem C05_never_fails : forall A ops c, w_pc (reach A ops) <> PFailed c.
Proof. exact never_fails. Qed.
Print Assumptions C05_never_fails.

(* handshake_total, liveness half: from every reachable crashed world the handshake, left alone,
   terminates with the node up (hence, by C05_recovery_agrees, in agreement). *)
Theorem C05_handshake_total : forall A ops, is_down (w_pc (reach A ops)) = true ->
  exists k, w_pc (run A (MRestart :: repeat MStep k) (reach A ops)) = PIdle.
Proof. exact handshake_total. Qed.
Print Assumptions C05_handshake_total.

(* recovery_progress: whenever the node is up, the next decided block is committed: the
   procedure terminates with the node up and the block appended to the store. *)
Theorem C05_recovery_progress : forall A ops txs, w_pc (reach A ops) = PIdle ->
  exists k, let w' := run A (MCommit txs :: repeat MStep k) (reach A ops) in
    w_pc w' = PIdle /\
    w_store w' = w_store (reach A ops) ++ [make_block (w_state (reach A ops)) txs].
Proof. exact recovery_progress. Qed.
Print Assumptions C05_recovery_progress.

(* --- non-vacuity ---------------------------------------------------------------------------- *)

Definition eapp : appsem :=
  {| ainit := 7%N; abegin := fun a h => (a + Z.to_N h)%N; adeliver := fun a t => ((a + t)%N, (t mod 2)%N) |}.
Definition boot := MRestart :: repeat MStep 2.
Definition full (txs : list N) := MCommit txs :: repeat MStep (7 + length txs).

(* crash after the application committed block 2 but before the state was saved: the restart
   finishes block 2 from the saved responses (mock application), the real application is not
   called again, then block 3 is committed *)
Definition ops1 := boot ++ full [5%N; 6%N] ++ [MCommit [1%N]] ++ repeat MStep 7 ++ [MCrash; MRestart]
                   ++ repeat MStep 2 ++ full [].
Example C05_journal_nonvacuous :
  w_pc (reach eapp ops1) = PIdle /\
  a_journal (w_app (reach eapp ops1)) =
    [JInit; JBegin 1; JDeliver 5%N; JDeliver 6%N; JEnd 1; JCommit 1;
     JBegin 2; JDeliver 1%N; JEnd 2; JCommit 2; JCrash; JBegin 3; JEnd 3; JCommit 3] /\
  w_state (reach eapp ops1) = {| s_height := 3; s_apphash := 25; s_lastres := [] |}.
Proof. vm_compute. auto. Qed.

(* two crashes (one during the handshake's replay), then the application comes back empty:
   InitChain again (it reports height 0) and both blocks are replayed, each once per life *)
Definition ops2 := boot ++ full [5%N; 6%N] ++ [MCommit [1%N]] ++ repeat MStep 4
                   ++ [MCrash; MRestart; MStep; MStep; MCrash; MRollback 0; MRestart] ++ repeat MStep 30.
Example C05_recovery_nonvacuous :
  w_pc (reach eapp ops2) = PIdle /\ store_height (w_store (reach eapp ops2)) = 2 /\
  a_journal (w_app (reach eapp ops2)) =
    [JInit; JBegin 1; JDeliver 5%N; JDeliver 6%N; JEnd 1; JCommit 1; JBegin 2; JDeliver 1%N; JCrash;
     JBegin 2; JDeliver 1%N; JCrash; JRollback 0; JInit; JBegin 1; JDeliver 5%N; JDeliver 6%N; JEnd 1;
     JCommit 1; JBegin 2; JDeliver 1%N; JEnd 2; JCommit 2].
Proof. vm_compute. auto. Qed.

(* a crashed world whose three cursors all differ: store 2, state 1, app 2 *)
Example C05_handshake_nonvacuous :
  let w := reach eapp (boot ++ full [5%N; 6%N] ++ [MCommit [1%N]] ++ repeat MStep 7 ++ [MCrash]) in
  is_down (w_pc w) = true /\ store_height (w_store w) = 2 /\ s_height (w_state w) = 1 /\ a_height (w_app w) = 2.
Proof. vm_compute. auto. Qed.

Example C05_split_nonvacuous :
  exists j1 j2, a_journal (w_app (reach eapp ops2)) = j1 ++ JInit :: j2 /\ j1 <> [].
Proof.
  exists [JInit; JBegin 1; JDeliver 5%N; JDeliver 6%N; JEnd 1; JCommit 1; JBegin 2; JDeliver 1%N; JCrash;
          JBegin 2; JDeliver 1%N; JCrash; JRollback 0].
  eexists. split; [vm_compute; reflexivity|discriminate].
Qed.

(* ============================================================================================
   Part B — the mempool lock clause (model C05/MemModel.v, proofs C05/MemProofs.v): for EVERY
   schedule of k submitter threads, the consensus thread's Commit rounds and the application
   serving the FIFO mempool connection.  V0 = mempool/v0 (CListMempool), V1 = mempool/v1. *)
From TM Require C05.MemModel C05.MemProofs.
Module MemPart.
Import TM.C05.MemModel TM.C05.MemProofs.

(* v0: while the consensus thread is between "FlushSync returned" (CommitSync is the next call)
   and the deferred Unlock after "Update returned", no New-CheckTx request is pending on the
   mempool connection and no step of any thread issues one. *)
Theorem C05_mem_no_new_checktx_during_commit :
  forall (rc : bool) (k : nat) (sched : list ev),
    let s := run V0 rc sched (init k) in
    in_window (cp s) = true ->
    no_new (q s) = true /\ forall i t, step V0 rc s (EIssueNew i t) = None.
Proof. exact no_new_checktx_during_commit. Qed.
Print Assumptions C05_mem_no_new_checktx_during_commit.

(* v0: nothing is issued by a submitter from Lock() to Unlock(). *)
Theorem C05_mem_no_issue_while_locked :
  forall (rc : bool) (k : nat) (sched : list ev),
    let s := run V0 rc sched (init k) in
    cp s <> CIdle -> forall i t, step V0 rc s (EIssueNew i t) = None.
Proof. exact no_issue_while_locked. Qed.
Print Assumptions C05_mem_no_issue_while_locked.

(* v0: the monitors run on the recorded traces of the Go code accept the trace of every schedule. *)
Theorem C05_mem_monitor_holds_v0 :
  forall (rc : bool) (k : nat) (sched : list ev),
    log_ok V0 (trace (run V0 rc sched (init k))) = true.
Proof. exact monitor_holds_v0. Qed.
Print Assumptions C05_mem_monitor_holds_v0.

(* v0, on the application's processing log alone: all rechecks of a block are executed before
   any new-transaction check that follows the block's Commit. *)
Theorem C05_mem_rechecks_precede_new :
  forall (rc : bool) (k : nat) (sched : list ev),
    applog_ok (app_log (run V0 rc sched (init k))) = true.
Proof. exact rechecks_precede_new. Qed.
Print Assumptions C05_mem_rechecks_precede_new.

(* v1 as it is: the clause fails (MemProps.v: C05_mem_v1_refuted_a/_b/_b_flush_gap); every
   failure on every schedule lies in the class of known finding 13 (F13). *)
Theorem C05_mem_v1_except_known :
  forall (rc : bool) (k : nat) (sched : list ev),
    log_ok_except_known V1 (trace (run V1 rc sched (init k))) = true.
Proof. exact monitor_v1_except_known. Qed.
Print Assumptions C05_mem_v1_except_known.

End MemPart.
(* non-vacuity examples and the v1 refutations: C05/MemProps.v (compiled with this file) *)
From TM Require C05.MemProps.
